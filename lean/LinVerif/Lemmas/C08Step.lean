/-
C08 helper lemmas, part 3: specifications of the sub-steps of `partition.replica` for follower A
(handshake, connect, send phase, the whole call): what they do to A's invariant, to the
no-tail-loss invariant, to the acknowledgement, and — the frame — to follower B and the queue.
-/
import LinVerif.Lemmas.C08Inv

namespace LinVerif.Replication

@[reducible] def InvA (s : St) : Prop :=
  InvC s.L s.cons s.gack s.F s.chan s.stream s.dz s.stopped (s.imgs.map Img.va)
@[reducible] def InvB (s : St) : Prop :=
  InvC s.L s.cons2 s.gack2 s.F2 s.chan2 s.stream2 s.dz2 s.stopped2 (s.imgs.map Img.vb)
@[reducible] def NLA (s : St) : Prop := NLC s.L s.cons s.gack s.F
@[reducible] def NLB (s : St) : Prop := NLC s.L s.cons2 s.gack2 s.F2

theorem invA_mk {s' : St} {L : Log} {c g : Int} {F : Log} {ch : Chan} {st : Stream} {dz stp : Bool} {iv : List ImgV}
    (h : InvC L c g F ch st dz stp iv) (e1 : s'.L = L) (e2 : s'.cons = c) (e3 : s'.gack = g) (e4 : s'.F = F)
    (e5 : s'.chan = ch) (e6 : s'.stream = st) (e7 : s'.dz = dz) (e8 : s'.imgs.map Img.va = iv)
    (e9 : s'.stopped = stp := by rfl) : InvA s' := by
  subst e1 e2 e3 e4 e5 e6 e7 e8 e9; exact h

theorem invB_mk {s' : St} {L : Log} {c g : Int} {F : Log} {ch : Chan} {st : Stream} {dz stp : Bool} {iv : List ImgV}
    (h : InvC L c g F ch st dz stp iv) (e1 : s'.L = L) (e2 : s'.cons2 = c) (e3 : s'.gack2 = g) (e4 : s'.F2 = F)
    (e5 : s'.chan2 = ch) (e6 : s'.stream2 = st) (e7 : s'.dz2 = dz) (e8 : s'.imgs.map Img.vb = iv)
    (e9 : s'.stopped2 = stp := by rfl) : InvB s' := by
  subst e1 e2 e3 e4 e5 e6 e7 e8 e9; exact h

/-- an A-step leaves these alone -/
structure Same2 (s s' : St) : Prop where
  imgs : s'.imgs = s.imgs
  f2 : s'.F2 = s.F2
  chan2 : s'.chan2 = s.chan2
  stream2 : s'.stream2 = s.stream2
  live2 : s'.live2 = s.live2
  susp2 : s'.susp2 = s.susp2
  parked2 : s'.parked2 = s.parked2
  closed2 : s'.closed2 = s.closed2
  stopped2 : s'.stopped2 = s.stopped2
  gone : s'.gone = s.gone
  born2 : s'.born2 = s.born2

/-- the step did not touch the queue nor B's group -/
def Plain (s s' : St) : Prop :=
  Same2 s s' ∧ s'.L = s.L ∧ s'.cons2 = s.cons2 ∧ s'.gack2 = s.gack2 ∧ s'.dz2 = s.dz2

/-- `ResetAppendIndex` fired: A's follower was ahead of the leader; the queue and B's group jump -/
def RA (s s' : St) : Prop :=
  Same2 s s' ∧ s.L.app < s.F.app ∧ s'.L = s.L.setAppended s.F.app ∧
    s'.cons2 = (if s.stopped2 = true then s.cons2 else s.F.app) ∧
    s'.gack2 = (if s.stopped2 = true then s.gack2 else s.F.app) ∧
    s'.dz2 = (if s.chan2 = .ready then true else s.dz2)

def Frame (s s' : St) : Prop := Plain s s' ∨ RA s s'

theorem plain_refl (s : St) : Plain s s :=
  ⟨⟨rfl, rfl, rfl, rfl, rfl, rfl, rfl, rfl, rfl, rfl, rfl⟩, rfl, rfl, rfl, rfl⟩

theorem same2_trans {s s1 s2 : St} (a : Same2 s s1) (b : Same2 s1 s2) : Same2 s s2 :=
  ⟨b.imgs.trans a.imgs, b.f2.trans a.f2, b.chan2.trans a.chan2, b.stream2.trans a.stream2, b.live2.trans a.live2,
   b.susp2.trans a.susp2, b.parked2.trans a.parked2, b.closed2.trans a.closed2, b.stopped2.trans a.stopped2, b.gone.trans a.gone, b.born2.trans a.born2⟩

theorem plain_trans {s s1 s2 : St} (a : Plain s s1) (b : Plain s1 s2) : Plain s s2 :=
  ⟨same2_trans a.1 b.1, b.2.1.trans a.2.1, b.2.2.1.trans a.2.2.1, b.2.2.2.1.trans a.2.2.2.1, b.2.2.2.2.trans a.2.2.2.2⟩

theorem frame_trans_plain {s s1 s2 : St} (a : Frame s s1) (b : Plain s1 s2) : Frame s s2 := by
  rcases a with a | a
  · exact Or.inl (plain_trans a b)
  · exact Or.inr ⟨same2_trans a.1 b.1, a.2.1, b.2.1.trans a.2.2.1, b.2.2.1.trans a.2.2.2.1, b.2.2.2.1.trans a.2.2.2.2.1,
      b.2.2.2.2.trans a.2.2.2.2.2⟩

/-- `Plain s s'` for an `s'` that is `s` with some of A's own fields updated -/
local macro "plain_rfl" : term => `(⟨⟨rfl, rfl, rfl, rfl, rfl, rfl, rfl, rfl, rfl, rfl, rfl⟩, rfl, rfl, rfl, rfl⟩)

theorem frameSame {s s' : St} (f : Frame s s') : Same2 s s' := by
  rcases f with f | f
  · exact f.1
  · exact f.1

/-- B's invariant survives an A-step -/
theorem frame_invB {s s' : St} (f : Frame s s') (hb : InvB s) : InvB s' := by
  rcases f with f | f
  · exact invB_mk hb f.2.1 f.2.2.1 f.2.2.2.1 f.1.f2 f.1.chan2 f.1.stream2 f.2.2.2.2 (by rw [f.1.imgs]) f.1.stopped2
  · have hc : s.cons2 ≤ s.F.app := by have := hb.lint.cons_le; have := f.2.1; omega
    exact invB_mk (invc_other_reset_append (k := s.F.app) (dz' := if s.chan2 = .ready then true else s.dz2) hb
      (by have := f.2.1; omega) hc (fun e => by rw [if_pos e])) f.2.2.1 f.2.2.2.1 f.2.2.2.2.1 f.1.f2 f.1.chan2 f.1.stream2
      f.2.2.2.2.2 (by rw [f.1.imgs]) f.1.stopped2

/-- without leader tail loss `ResetAppendIndex` cannot fire, so B's no-loss invariant survives -/
theorem frame_plain_of_nl {s s' : St} (f : Frame s s') (na : NLA s) : Plain s s' := by
  rcases f with f | f
  · exact f
  · have := na.f_app; have := f.2.1; omega

theorem plain_nlB {s s' : St} (f : Plain s s') (nb : NLB s) : NLB s' := by
  unfold NLB; rw [f.2.1, f.2.2.1, f.2.2.2.1, f.1.f2]; exact nb

/-! ### handshake -/

structure HsPost (s s' : St) (ok : Bool) : Prop where
  inv : InvA s'
  ok_ready : ok = true → s'.chan = .ready ∧ s'.stream = .none ∧ s'.cons = s'.F.app ∧ s'.dz = false
  ok_idx : ok = true → s'.cons = (if s.F.app < s.gack then s.gack else s.F.app)
  fail : ok = false → s'.chan = .failure
  ackok : s'.gack ≠ s.gack → s'.gack ≤ s'.F.app
  gmono : s.gack ≤ s'.gack
  fack : s'.F.ack = s.F.ack ∨ s'.F.ack = s.gack
  fapp : s'.gack ≠ s.gack → s'.F = s.F
  nl : NLA s → NLA s'
  frame : Frame s s'
  dz : s'.dz = false
  own : s'.stopped = s.stopped ∧ s'.born = s.born
  fkeep : ¬ (s.F.app < s.gack) → s'.F = s.F
  lkeep : s.F.app ≤ s.L.app → s'.L = s.L
  cl : s'.closed = s.closed

theorem handshake_spec (cfg : Cfg) (s : St) (f : Fault) (h : InvA s) :
    HsPost s (handshake cfg s f).1 (handshake cfg s f).2 := by
  have hfail : ∀ (st : Stream), HsPost s { s with chan := .failure, stream := st, dz := false } false :=
    fun st => ⟨invc_notready h (fun e => by cases e), by simp, by simp, by simp, by simp, Int.le_refl _, Or.inl rfl,
      fun _ => rfl, id, Or.inl plain_rfl, rfl, ⟨rfl, rfl⟩, fun _ => rfl, fun _ => rfl, rfl⟩
  have hgc := h.lint.gack_cons
  unfold handshake replicaAckIndex resetReplicaIndex followerReset
  dsimp only
  split
  · exact hfail _
  split
  · exact hfail _
  split
  · -- equal
    rename_i heq
    have hc : s.cons = s.F.app := by omega
    refine ⟨invA_mk (invc_ready (st' := .none) (dz' := false) h hc) rfl rfl rfl rfl rfl rfl rfl rfl,
      fun _ => ⟨rfl, rfl, hc, rfl⟩, ?_, by simp, by simp, Int.le_refl _, Or.inl rfl, fun _ => rfl, id, Or.inl plain_rfl, rfl, ⟨rfl, rfl⟩,
      fun _ => rfl, fun _ => rfl, rfl⟩
    intro _
    dsimp only
    split <;> omega
  split
  · rename_i hlt
    split
    · exact hfail _
    · have e : s.gack + 1 - 1 = s.gack := by omega
      rw [e]
      refine ⟨invA_mk (invc_follower_reset (st' := .none) (dz' := false) h) rfl rfl rfl rfl rfl rfl rfl rfl,
        fun _ => ⟨rfl, rfl, rfl, rfl⟩, ?_, by simp, by simp, Int.le_refl _, Or.inr rfl, fun x => absurd rfl x,
        fun n => nlc_follower_reset n hgc, Or.inl plain_rfl, rfl, ⟨rfl, rfl⟩, fun x => absurd hlt x, fun _ => rfl, rfl⟩
      intro _
      dsimp only
      rw [if_pos hlt]
  · rename_i hne hge
    have e : s.F.app + 1 - 1 = s.F.app := by omega
    have hg : s.gack ≤ s.F.app := by omega
    by_cases hah : aheadFires cfg s.F.app (s.L.app + 1) = true
    · simp only [hah, if_true, resetAppendIndex, ackGroup, e, Int.le_refl, and_self]
      have hk : s.L.app < s.F.app := by
        unfold aheadFires at hah
        split at hah <;> simp at hah <;> omega
      refine ⟨invA_mk (invc_reset_append (st' := .none) (dz' := false) h (by omega)) rfl rfl rfl rfl rfl rfl rfl rfl,
        fun _ => ⟨rfl, rfl, rfl, rfl⟩, ?_, by simp, by simp, hg, Or.inl rfl, fun _ => rfl, ?_,
        Or.inr ⟨⟨rfl, rfl, rfl, rfl, rfl, rfl, rfl, rfl, rfl, rfl, rfl⟩, hk, rfl, rfl, rfl, rfl⟩, rfl, ⟨rfl, rfl⟩,
        fun _ => rfl, (fun x => by omega), rfl⟩
      · intro _
        dsimp only
        rw [if_neg hge]
      · intro n; have := n.f_app; omega
    · have hah' : aheadFires cfg s.F.app (s.L.app + 1) = false := by simpa using hah
      have hle : s.F.app ≤ s.L.app + 1 := by
        unfold aheadFires at hah'
        split at hah' <;> simp at hah' <;> omega
      simp only [hah', Bool.false_eq_true, if_false, ackGroup, e, Int.le_refl, and_true, hg, if_true]
      refine ⟨invA_mk (invc_rewind (st' := .none) (dz' := false) h hg hle) rfl rfl rfl rfl rfl rfl rfl rfl,
        fun _ => ⟨rfl, rfl, rfl, rfl⟩, ?_, by simp, by simp, hg, Or.inl rfl, fun _ => rfl,
        fun n => nlc_rewind n h.fint.ack_app, Or.inl plain_rfl, rfl, ⟨rfl, rfl⟩, fun _ => rfl, fun _ => rfl, rfl⟩
      intro _
      dsimp only
      rw [if_neg hge]

/-! ### connect -/

structure CnPost (s s' : St) (ok : Bool) : Prop where
  inv : InvA s'
  same : s'.L = s.L ∧ s'.cons = s.cons ∧ s'.gack = s.gack ∧ s'.F = s.F ∧ s'.dz = s.dz
  ok_ready : ok = true → s'.chan = .ready ∧ s'.stream ≠ .none
  fail : ok = false → s'.chan = .failure
  plain : Plain s s'
  own : s'.stopped = s.stopped ∧ s'.born = s.born
  cl : s.closed = false → s'.closed = false

theorem connect_spec (s : St) (f : Fault) (h : InvA s) (hr : s.chan = .ready) :
    CnPost s (connect s f).1 (connect s f).2 := by
  unfold connect
  split
  · rename_i hs
    exact ⟨h, ⟨rfl, rfl, rfl, rfl, rfl⟩, fun _ => ⟨hr, hs⟩, by simp, plain_rfl, ⟨rfl, rfl⟩, id⟩
  · rename_i hs
    have hs' : s.stream = .none := by
      cases hst : s.stream <;> simp_all
    split
    · exact ⟨invc_notready h (fun e => by cases e), ⟨rfl, rfl, rfl, rfl, rfl⟩, by simp, by simp, plain_rfl, ⟨rfl, rfl⟩, id⟩
    · have h' : InvC s.L s.cons s.gack s.F .ready .none s.dz s.stopped (s.imgs.map Img.va) := by
        have h0 := h
        unfold InvA at h0
        rw [hr, hs'] at h0
        exact h0
      exact ⟨invA_mk (invc_connect h') rfl rfl rfl rfl rfl rfl rfl rfl, ⟨rfl, rfl, rfl, rfl, rfl⟩,
        fun _ => ⟨rfl, by simp⟩, by simp, plain_rfl, ⟨rfl, rfl⟩, fun _ => rfl⟩

/-! ### send phase -/

structure SpPost (s s' : St) (o : Out) (f : Fault) : Prop where
  inv : InvA s'
  stream : s'.stream = s.stream
  label : o ≠ .ignored ∧ (s.dz = false → s.closed = false → f ≠ .put → o ≠ .mismatch)
  olabel : o = .idle ∨ o = .sendfail ∨ o = .recvfail ∨ o = .acked ∨ o = .mismatch
  ackok : s'.gack ≠ s.gack → s'.gack ≤ s'.F.app
  gmono : s.gack ≤ s'.gack
  fmono : s.F.app ≤ s'.F.app
  fack : s'.F.ack = s.F.ack
  cover : ∀ i, s.gack < i → i ≤ s'.gack → s.F.app < i → i ≤ s'.F.app
  nl : NLA s → NLA s'
  plain : Plain s s'
  dz : s.dz = false → s.closed = false → f ≠ .put → s'.dz = false
  own : s'.stopped = s.stopped ∧ s'.born = s.born
  cl : s'.closed = s.closed

theorem sendPhase_spec (cfg : Cfg) (s : St) (f : Fault) (h : InvA s) (hr : s.chan = .ready) (hst : s.stopped = false) :
    SpPost s (sendPhase cfg s f).1 (sendPhase cfg s f).2 f := by
  have hl := h.lint
  have hag := h.ackg hst
  have hc1 : -1 ≤ s.cons := lint_cons_ge hl
  unfold sendPhase consume
  dsimp only
  split
  · rename_i hle
    dsimp only
    rw [if_neg (by omega)]
    obtain ⟨m, hm⟩ := hl.holes (s.cons + 1) (by have := hl.gack_cons; omega) hle
    rw [hm]
    dsimp only
    unfold replicaSend replicaLog
    dsimp only
    have hk := h.k hr
    -- every way into Replica's else-branch (closed partition, failed Put, unexpected index) has this outcome
    have helse : (s.dz = false → s.closed = false → f ≠ .put → False) →
        SpPost s
          (if cfg.mfail = true then
            (({ s with cons := s.cons + 1, chan := .failure } : St), Out.mismatch)
           else (({ s with cons := s.cons + 1, dz := true } : St), Out.mismatch)).1
          (if cfg.mfail = true then
            (({ s with cons := s.cons + 1, chan := .failure } : St), Out.mismatch)
           else (({ s with cons := s.cons + 1, dz := true } : St), Out.mismatch)).2 f := by
      intro hx
      split
      · exact ⟨invA_mk (invc_consume_fail (st' := s.stream) (dz' := s.dz) h hk hle) rfl rfl rfl rfl rfl rfl rfl rfl, rfl,
          ⟨by simp, fun a b c => (hx a b c).elim⟩, by simp, by simp, Int.le_refl _, Int.le_refl _, rfl,
          (fun i a b _ => by dsimp only at b; omega), fun n => nlc_consume n hle, plain_rfl, (fun d _ _ => d), ⟨rfl, rfl⟩, rfl⟩
      · exact ⟨invA_mk (invc_consume_mismatch (ch' := s.chan) h hk hle) rfl rfl rfl rfl rfl rfl rfl rfl, rfl,
          ⟨by simp, fun a b c => (hx a b c).elim⟩, by simp, by simp, Int.le_refl _, Int.le_refl _, rfl,
          (fun i a b _ => by dsimp only at b; omega), fun n => nlc_consume n hle, plain_rfl, (fun a b c => (hx a b c).elim), ⟨rfl, rfl⟩, rfl⟩
    have hfailed : SpPost s ({ s with cons := s.cons + 1, chan := .failure } : St) Out.recvfail f ∧
        SpPost s ({ s with cons := s.cons + 1, chan := .failure } : St) Out.sendfail f :=
      ⟨⟨invA_mk (invc_consume_fail (st' := s.stream) (dz' := s.dz) h hk hle) rfl rfl rfl rfl rfl rfl rfl rfl, rfl,
          by simp, by simp, by simp, Int.le_refl _, Int.le_refl _, rfl, (fun i a b _ => by dsimp only at b; omega),
          fun n => nlc_consume n hle, plain_rfl, (fun d _ _ => d), ⟨rfl, rfl⟩, rfl⟩,
       ⟨invA_mk (invc_consume_fail (st' := s.stream) (dz' := s.dz) h hk hle) rfl rfl rfl rfl rfl rfl rfl rfl, rfl,
          by simp, by simp, by simp, Int.le_refl _, Int.le_refl _, rfl, (fun i a b _ => by dsimp only at b; omega),
          fun n => nlc_consume n hle, plain_rfl, (fun d _ _ => d), ⟨rfl, rfl⟩, rfl⟩⟩
    split
    · -- the request was lost
      exact hfailed.2
    · rename_i hs
      have hup : s.stream = .up := by
        cases hst : s.stream <;> simp_all
      by_cases hcl : s.closed = true
      · -- the stream's partition is closed: (0, ErrPartitionClosed); nothing appended, nothing acknowledged
        have eor : ∀ b : Bool, (s.closed || b) = true := fun b => by rw [hcl]; rfl
        simp only [if_pos hcl, eor, Bool.true_eq_false, false_and, if_false]
        split
        · exact hfailed.1
        · exact helse (fun _ c _ => by rw [hcl] at c; cases c)
      · have hcl' : s.closed = false := by simpa using hcl
        have eor : ∀ b : Bool, (s.closed || b) = b := fun b => by rw [hcl']; rfl
        simp only [if_neg hcl, eor]
        by_cases hc : s.cons = s.F.app
        · rw [if_neg (by omega : ¬ (s.cons + 1 ≠ s.F.app + 1))]
          by_cases hp : f = .put
          · -- the follower's Put fails: nothing appended, the answer carries -1 and an error
            subst hp
            simp only [decide_true, if_true, reduceCtorEq, if_false, true_and]
            have hd : decide (s.cons + 1 = s.F.app + 1) = true := by simp; omega
            simp only [hd, Bool.true_eq_false, false_and, if_false]
            exact helse (fun _ _ c => c rfl)
          · have e2 : decide (f = Fault.put) = false := by simpa using hp
            have e3 : decide (f = Fault.put ∧ s.cons + 1 = s.F.app + 1) = false := by simp [hp]
            simp only [e2, e3, Bool.false_eq_true, if_false, true_and]
            split
            · -- recv failed
              exact ⟨invA_mk (invc_deliver (ch' := .failure) (st' := s.stream) (dz' := s.dz) h hc hle hm) rfl rfl rfl rfl rfl rfl rfl rfl,
                rfl, by simp, by simp, by simp, Int.le_refl _, by simp only [Log.put]; omega, rfl,
                (fun i a b _ => by dsimp only at b; omega),
                fun n => nlc_deliver n hc hle hm h.fint.ack_app, plain_rfl, (fun d _ _ => d), ⟨rfl, rfl⟩, rfl⟩
            · rw [if_pos (by omega : s.F.app + 1 = s.cons + 1)]
              unfold ackGroup
              dsimp only
              rw [if_pos ⟨by have := hl.gack_cons; omega, by omega⟩]
              refine ⟨invA_mk (invc_ack (invc_deliver (ch' := s.chan) (st' := s.stream) (dz' := s.dz) h hc hle hm) (a := s.F.app + 1)
                  (by have := hl.gack_cons; omega) (by omega)) rfl rfl rfl rfl rfl rfl rfl rfl, rfl, by simp, by simp, ?_,
                (show s.gack ≤ s.F.app + 1 by have := hl.gack_cons; omega), by simp only [Log.put]; omega, rfl, ?_,
                fun n => nlc_ack (a := s.F.app + 1) (nlc_deliver n hc hle hm h.fint.ack_app) (by have := hl.gack_cons; omega), plain_rfl,
                (fun d _ _ => d), ⟨rfl, rfl⟩, rfl⟩
              · intro _
                simp only [Log.put]; omega
              · intro i _ b _
                dsimp only at b
                simp only [Log.put]; omega
        · -- the follower's next index is another one: the channel is out of step
          have hd : s.dz = false → False :=
            fun d => hc (h.sync hr d (by rw [hup]; intro e; cases e))
          rw [if_pos (by omega : s.cons + 1 ≠ s.F.app + 1)]
          have e3 : decide (f = Fault.put ∧ s.cons + 1 = s.F.app + 1) = false := by simp; intro _; omega
          simp only [e3, true_and]
          split
          · exact hfailed.1
          · rw [if_neg (by omega : ¬ (s.F.app + 1 = s.cons + 1))]
            exact helse (fun d _ _ => hd d)
  · dsimp only
    rw [if_pos (by decide)]
    exact ⟨h, rfl, by simp, by simp, by simp, Int.le_refl _, Int.le_refl _, rfl, (fun i a b _ => by dsimp only at b; omega), id, plain_rfl, (fun d _ _ => d), ⟨rfl, rfl⟩, rfl⟩

/-! ### one `partition.replica` call -/

/-- what a replica call of follower A guarantees -/
structure EvPost (s s' : St) (o : Out) (f : Fault) : Prop where
  inv : InvA s'
  bnd : s'.chan = .ready → s'.stream ≠ .none
  label : o ≠ .ignored ∧ (s.dz = false → s.closed = false → s.chan = .ready → f ≠ .put → o ≠ .mismatch) ∧
    (s.chan ≠ .ready → s.closed = false → f ≠ .put → o ≠ .mismatch)
  ackok : s'.gack ≠ s.gack → s'.gack ≤ s'.F.app
  gmono : s.gack ≤ s'.gack
  fack : s'.F.ack = s.F.ack ∨ s'.F.ack = s.gack
  cover : ∀ i, s.gack < i → i ≤ s'.gack → i ≤ s'.F.app
  nl : NLA s → NLA s'
  frame : Frame s s'
  dzkeep : s.dz = false → s.closed = false → f ≠ .put → s'.dz = false
  own : s'.stopped = s.stopped ∧ s'.born = s.born
  cl : s.closed = false → s'.closed = false

structure IrPost (s s' : St) (ok : Bool) : Prop where
  inv : InvA s'
  ok_ready : ok = true → s'.chan = .ready
  ok_dz : ok = true → s.chan ≠ .ready → s'.dz = false
  same_ready : s.chan = .ready → s' = s
  fail : ok = false → s'.chan = .failure
  ackok : s'.gack ≠ s.gack → s'.gack ≤ s'.F.app
  gmono : s.gack ≤ s'.gack
  fack : s'.F.ack = s.F.ack ∨ s'.F.ack = s.gack
  fapp : s'.gack ≠ s.gack → s'.F = s.F
  nl : NLA s → NLA s'
  frame : Frame s s'
  dzkeep : s.dz = false → s'.dz = false
  own : s'.stopped = s.stopped ∧ s'.born = s.born
  cl : s'.closed = s.closed

theorem isReady_spec (cfg : Cfg) (s : St) (f : Fault) (h : InvA s) :
    IrPost s (isReady cfg s f).1 (isReady cfg s f).2 := by
  unfold isReady
  split
  · rename_i hr
    exact ⟨h, fun _ => hr, fun _ x => absurd hr x, fun _ => rfl, by simp, by simp, Int.le_refl _, Or.inl rfl, fun _ => rfl, id,
      Or.inl plain_rfl, id, ⟨rfl, rfl⟩, rfl⟩
  split
  · rename_i hn _
    exact ⟨invc_notready h (fun e => by cases e), by simp, by simp, fun x => absurd x hn, by simp, by simp, Int.le_refl _,
      Or.inl rfl, fun _ => rfl, id, Or.inl plain_rfl, id, ⟨rfl, rfl⟩, rfl⟩
  · rename_i hn _
    have hs := handshake_spec cfg s f h
    exact ⟨hs.inv, fun e => (hs.ok_ready e).1, fun e _ => (hs.ok_ready e).2.2.2, fun x => absurd x hn, hs.fail, hs.ackok,
      hs.gmono, hs.fack, hs.fapp, hs.nl, hs.frame, fun _ => hs.dz, hs.own, hs.cl⟩

theorem replicaStep_spec (cfg : Cfg) (s : St) (f : Fault) (h : InvA s) (hst : s.stopped = false) :
    EvPost s (replicaStep cfg s f).1 (replicaStep cfg s f).2 f := by
  unfold replicaStep
  have hi := isReady_spec cfg s f h
  generalize isReady cfg s f = r at hi ⊢
  obtain ⟨s1, ok⟩ := r
  dsimp only at hi ⊢
  have hcov1 : ∀ i, s.gack < i → i ≤ s1.gack → i ≤ s1.F.app := by
    intro i a b
    have := hi.ackok (by omega)
    omega
  cases ok
  · have hf := hi.fail rfl
    simp only [Bool.false_eq_true, if_false]
    refine ⟨hi.inv, (fun e => by rw [hf] at e; cases e), ⟨?_, ?_, ?_⟩, hi.ackok, hi.gmono, hi.fack, hcov1, hi.nl, hi.frame, fun d _ _ => hi.dzkeep d, hi.own, fun c => by rw [hi.cl]; exact c⟩
    all_goals (intros; split <;> simp)
  · simp only [if_true]
    have hr := hi.ok_ready rfl
    have hc := connect_spec s1 f hi.inv hr
    generalize connect s1 f = r2 at hc ⊢
    obtain ⟨s2, ok2⟩ := r2
    dsimp only at hc ⊢
    have hnl : NLA s1 → NLA s2 := by
      intro n; unfold NLA; rw [hc.same.1, hc.same.2.1, hc.same.2.2.1, hc.same.2.2.2.1]; exact n
    cases ok2
    · have hf := hc.fail rfl
      simp only [Bool.false_eq_true, if_false]
      refine ⟨hc.inv, (fun e => by rw [hf] at e; cases e), by simp, ?_, by rw [hc.same.2.2.1]; exact hi.gmono,
        by rw [hc.same.2.2.2.1]; exact hi.fack, ?_, fun n => hnl (hi.nl n), frame_trans_plain hi.frame hc.plain,
        fun d _ _ => by rw [hc.same.2.2.2.2]; exact hi.dzkeep d,
        ⟨hc.own.1.trans hi.own.1, hc.own.2.trans hi.own.2⟩, fun c => hc.cl (by rw [hi.cl]; exact c)⟩
      · rw [hc.same.2.2.1, hc.same.2.2.2.1]
        exact hi.ackok
      · rw [hc.same.2.2.1, hc.same.2.2.2.1]
        exact hcov1
    · simp only [if_true]
      have hrd := hc.ok_ready rfl
      have hsp := sendPhase_spec cfg s2 f hc.inv hrd.1 (by rw [hc.own.1, hi.own.1]; exact hst)
      have hdz2 : s.dz = false → s.chan = .ready → s2.dz = false := by
        intro d r
        rw [hc.same.2.2.2.2, hi.same_ready r]; exact d
      have hcl2 : s.closed = false → s2.closed = false := fun c => hc.cl (by rw [hi.cl]; exact c)
      have hdz2' : s.chan ≠ .ready → s2.dz = false := by
        intro r
        rw [hc.same.2.2.2.2]; exact hi.ok_dz rfl r
      refine ⟨hsp.inv, fun _ => by rw [hsp.stream]; exact hrd.2,
        ⟨hsp.label.1, fun d c r p => hsp.label.2 (hdz2 d r) (hcl2 c) p, fun r c p => hsp.label.2 (hdz2' r) (hcl2 c) p⟩, ?_, ?_, ?_, ?_,
        fun n => hsp.nl (hnl (hi.nl n)), frame_trans_plain (frame_trans_plain hi.frame hc.plain) hsp.plain,
        fun d c p => hsp.dz (by rw [hc.same.2.2.2.2]; exact hi.dzkeep d) (hcl2 c) p,
        ⟨hsp.own.1.trans (hc.own.1.trans hi.own.1), hsp.own.2.trans (hc.own.2.trans hi.own.2)⟩,
        fun c => by rw [hsp.cl]; exact hcl2 c⟩
      · intro hne
        by_cases h23 : (sendPhase cfg s2 f).1.gack = s2.gack
        · have h1 : s1.gack ≠ s.gack := by rw [← hc.same.2.2.1, ← h23]; exact hne
          have := hi.ackok h1
          have hm := hsp.fmono
          rw [hc.same.2.2.2.1] at hm
          rw [h23, hc.same.2.2.1]
          omega
        · exact hsp.ackok h23
      · have := hsp.gmono; have := hi.gmono; rw [hc.same.2.2.1] at *; omega
      · rw [hsp.fack, hc.same.2.2.2.1]; exact hi.fack
      · intro i a b
        have hm := hsp.fmono
        rw [hc.same.2.2.2.1] at hm
        by_cases hx : i ≤ s1.gack
        · have := hcov1 i a hx; omega
        · by_cases hy : i ≤ s1.F.app
          · omega
          · exact hsp.cover i (by rw [hc.same.2.2.1]; omega) b (by rw [hc.same.2.2.2.1]; omega)

end LinVerif.Replication
