/-
Helper lemmas for C12: the algebra of `AggType.Aggregate`, the pointwise meaning of the grouping
aggregator's merge (`addAtom` folds), and what an aggregator puts on the wire (`emit`).
-/
import LinVerif.Model.RootMerge
import Mathlib.Data.List.Perm.Basic

namespace LinVerif.RootMerge

/-! ### `AggType.Aggregate` -/

theorem Kind.agg_assoc (k : Kind) (a b c : Int) : k.agg (k.agg a b) c = k.agg a (k.agg b c) := by
  cases k <;> simp [Kind.agg] <;> omega

theorem Kind.agg_comm (k : Kind) (h : k.comm = true) (a b : Int) : k.agg a b = k.agg b a := by
  cases k <;> simp [Kind.agg, Kind.comm] at * <;> omega

/-- accumulate one incoming value into an array cell (`HasValue` ? `Aggregate(old, v)` : `v`) -/
def comb (k : Kind) : Option Int → Int → Option Int
  | none, v => some v
  | some x, v => some (k.agg x v)

/-- the cell after a list of incoming values, starting empty -/
def foldVals (k : Kind) (vs : List Int) : Option Int := vs.foldl (comb k) none

/-- combine two partial results of one cell -/
def combOpt (k : Kind) : Option Int → Option Int → Option Int
  | none, y => y
  | x, none => x
  | some x, some y => some (k.agg x y)

theorem foldl_comb_some (k : Kind) (x : Int) (vs : List Int) :
    vs.foldl (comb k) (some x) = some (vs.foldl k.agg x) := by
  induction vs generalizing x with
  | nil => rfl
  | cons v vs ih => simp [List.foldl, comb, ih]

theorem foldl_agg_assoc (k : Kind) (x y : Int) (vs : List Int) :
    k.agg x (vs.foldl k.agg y) = vs.foldl k.agg (k.agg x y) := by
  induction vs generalizing y with
  | nil => rfl
  | cons v vs ih => simp [List.foldl, ih, Kind.agg_assoc]

theorem foldl_comb_eq (k : Kind) (c : Option Int) (vs : List Int) :
    vs.foldl (comb k) c = combOpt k c (foldVals k vs) := by
  cases vs with
  | nil => cases c <;> simp [foldVals, combOpt]
  | cons v vs =>
    cases c with
    | none => simp [foldVals, combOpt]
    | some x =>
      simp [foldVals, List.foldl, comb, foldl_comb_some, combOpt, foldl_agg_assoc]

theorem foldVals_append (k : Kind) (l1 l2 : List Int) :
    foldVals k (l1 ++ l2) = combOpt k (foldVals k l1) (foldVals k l2) := by
  unfold foldVals
  rw [List.foldl_append, foldl_comb_eq]
  rfl

theorem combOpt_none_right (k : Kind) (x : Option Int) : combOpt k x none = x := by
  cases x <;> rfl

theorem foldVals_toList (k : Kind) (x : Option Int) : foldVals k x.toList = x := by
  cases x <;> rfl

/-- merging the merged values of the parts = merging everything (associativity, all six kinds) -/
theorem foldVals_flatten (k : Kind) (L : List (List Int)) :
    foldVals k (L.flatMap (fun l => (foldVals k l).toList)) = foldVals k L.flatten := by
  induction L with
  | nil => rfl
  | cons l L ih =>
    simp only [List.flatMap_cons, List.flatten_cons, foldVals_append, ih, foldVals_toList]

theorem comb_comm (k : Kind) (h : k.comm = true) (c : Option Int) (a b : Int) :
    comb k (comb k c a) b = comb k (comb k c b) a := by
  cases c with
  | none => simp [comb, Kind.agg_comm k h a b]
  | some x =>
    simp only [comb]
    rw [Kind.agg_assoc, Kind.agg_comm k h a b, ← Kind.agg_assoc]

/-- order of arrival does not matter for sum/count/min/max -/
theorem foldVals_perm (k : Kind) (h : k.comm = true) {l1 l2 : List Int} (p : l1.Perm l2) :
    foldVals k l1 = foldVals k l2 := by
  unfold foldVals
  exact p.foldl_eq' (fun x _ y _ z => comb_comm k h z x y) none

/-! ### pointwise meaning of the merge -/

/-- does the field have an aggregator with kind `k`? (`sAgg != nil` and `k` among its aggTypes) -/
def hasKind (specs : List Spec) (f : FName) (k : Kind) : Bool :=
  match kindsOf specs f with
  | some ks => ks.contains k
  | none => false

/-- the values an atom list delivers to one array position, in order (kind byte ignored: this is
the cross-feeding merge of the code as it is) -/
def valsAt (cap : Nat) (atoms : List Atom) (t f s : Nat) : List Int :=
  atoms.filterMap (fun a => if a.t = t ∧ a.f = f ∧ a.s = s ∧ a.s < cap then some a.v else none)

theorem addAtom_apply (v : Variant) (hv : v.crossFeed = true) (specs : List Spec) (cap : Nat)
    (c : Cells) (a : Atom) (t f : Nat) (k : Kind) (s : Nat) :
    addAtom v specs cap c a t f k s =
      if a.t = t ∧ a.f = f ∧ a.s = s ∧ a.s < cap ∧ hasKind specs f k = true
      then comb k (c t f k s) a.v else c t f k s := by
  unfold addAtom hasKind
  cases hk : kindsOf specs a.f with
  | none =>
    by_cases hf : a.f = f
    · subst hf; simp [hk]
    · simp [hf]
  | some ks =>
    by_cases hc : a.s < cap
    · simp only [hc, if_true, hv, true_or, and_true]
      by_cases h : t = a.t ∧ f = a.f ∧ s = a.s ∧ ks.contains k = true
      · obtain ⟨h1, h2, h3, h4⟩ := h
        subst h1 h2 h3
        simp only [hk, h4, and_self, if_true, comb]
        cases c a.t a.f k a.s <;> rfl
      · rw [if_neg h, if_neg]
        rintro ⟨h1, h2, h3, -, h4⟩
        subst h1 h2 h3
        rw [hk] at h4
        exact h ⟨rfl, rfl, rfl, h4⟩
    · simp [hc]

theorem foldl_addAtom_apply (v : Variant) (hv : v.crossFeed = true) (specs : List Spec) (cap : Nat)
    (atoms : List Atom) (c : Cells) (t f : Nat) (k : Kind) (s : Nat) :
    (atoms.foldl (addAtom v specs cap) c) t f k s =
      if hasKind specs f k = true then (valsAt cap atoms t f s).foldl (comb k) (c t f k s)
      else c t f k s := by
  induction atoms generalizing c with
  | nil => simp [valsAt]
  | cons a as ih =>
    rw [List.foldl_cons, ih, addAtom_apply v hv]
    by_cases hk : hasKind specs f k = true
    · simp only [hk, if_true, and_true]
      by_cases h : a.t = t ∧ a.f = f ∧ a.s = s ∧ a.s < cap
      · have hv' : valsAt cap (a :: as) t f s = a.v :: valsAt cap as t f s := by
          unfold valsAt
          rw [List.filterMap_cons, if_pos h]
        rw [hv', if_pos h, List.foldl_cons]
      · have hv' : valsAt cap (a :: as) t f s = valsAt cap as t f s := by
          unfold valsAt
          rw [List.filterMap_cons, if_neg h]
        rw [hv', if_neg h]
    · simp [hk]

theorem valsAt_append (cap : Nat) (l1 l2 : List Atom) (t f s : Nat) :
    valsAt cap (l1 ++ l2) t f s = valsAt cap l1 t f s ++ valsAt cap l2 t f s := by
  simp [valsAt, List.filterMap_append]

theorem valsAt_flatMap {α : Type} (cap : Nat) (xs : List α) (g : α → List Atom) (t f s : Nat) :
    valsAt cap (xs.flatMap g) t f s = xs.flatMap (fun x => valsAt cap (g x) t f s) := by
  induction xs with
  | nil => rfl
  | cons x xs ih => simp [List.flatMap_cons, valsAt_append, ih]

theorem valsAt_perm (cap : Nat) {l1 l2 : List Atom} (p : l1.Perm l2) (t f s : Nat) :
    (valsAt cap l1 t f s).Perm (valsAt cap l2 t f s) := p.filterMap _

/-! ### structure of `aggregateTS` / `aggregateAll` -/

@[simp] theorem aggregateTS_specs (v : Variant) (a : Agg) (ts : TS) : (a.aggregateTS v ts).specs = a.specs := rfl
@[simp] theorem aggregateTS_cap (v : Variant) (a : Agg) (ts : TS) : (a.aggregateTS v ts).cap = a.cap := rfl

theorem atoms_of_noFields (ts : TS) (h : ts.fields.isEmpty = true) : ts.atoms = [] := by
  have : ts.fields = [] := by simpa using h
  simp [TS.atoms, this]

theorem aggregateAll_specs (v : Variant) (a : Agg) (tss : List TS) :
    (a.aggregateAll v tss).specs = a.specs := by
  induction tss generalizing a with
  | nil => rfl
  | cons ts tss ih =>
    simp only [Agg.aggregateAll, List.foldl_cons]
    split
    · exact ih a
    · exact (ih _).trans rfl

theorem aggregateAll_cap (v : Variant) (a : Agg) (tss : List TS) :
    (a.aggregateAll v tss).cap = a.cap := by
  induction tss generalizing a with
  | nil => rfl
  | cons ts tss ih =>
    simp only [Agg.aggregateAll, List.foldl_cons]
    split
    · exact ih a
    · exact (ih _).trans rfl

theorem aggregateAll_cons (v : Variant) (a : Agg) (ts : TS) (tss : List TS) :
    a.aggregateAll v (ts :: tss) =
      (if ts.fields.isEmpty then a else a.aggregateTS v ts).aggregateAll v tss := rfl

theorem aggregateAll_append (v : Variant) (a : Agg) (l1 l2 : List TS) :
    a.aggregateAll v (l1 ++ l2) = (a.aggregateAll v l1).aggregateAll v l2 := by
  simp [Agg.aggregateAll, List.foldl_append]

/-- the arrays after merging a list of incoming groups: one fold over all their data points -/
theorem aggregateAll_cells (v : Variant) (a : Agg) (tss : List TS) :
    (a.aggregateAll v tss).cells = (tss.flatMap TS.atoms).foldl (addAtom v a.specs a.cap) a.cells := by
  induction tss generalizing a with
  | nil => rfl
  | cons ts tss ih =>
    rw [aggregateAll_cons, List.flatMap_cons, List.foldl_append]
    by_cases h : ts.fields.isEmpty = true
    · rw [if_pos h, ih, atoms_of_noFields ts h]; rfl
    · rw [if_neg h, ih]; rfl

theorem mem_insertNew (l : List Nat) (x y : Nat) : y ∈ insertNew l x ↔ y ∈ l ∨ y = x := by
  unfold insertNew
  split
  · rename_i h
    have : x ∈ l := by simpa using h
    constructor
    · intro h; exact Or.inl h
    · rintro (h | h)
      · exact h
      · exact h ▸ this
  · simp

theorem nodup_insertNew (l : List Nat) (x : Nat) (h : l.Nodup) : (insertNew l x).Nodup := by
  unfold insertNew
  split
  · exact h
  · rename_i hx
    have : x ∉ l := by simpa using hx
    exact List.nodup_append.mpr ⟨h, by simp, by
      intro a ha b hb; simp at hb; subst hb; intro e; exact this (e ▸ ha)⟩

theorem mem_keys_aggregateAll (v : Variant) (a : Agg) (tss : List TS) (t : Nat) :
    t ∈ (a.aggregateAll v tss).keys ↔
      t ∈ a.keys ∨ ∃ ts ∈ tss, ts.tags = t ∧ ts.fields.isEmpty = false := by
  induction tss generalizing a with
  | nil => simp [Agg.aggregateAll]
  | cons ts tss ih =>
    rw [aggregateAll_cons, ih]
    by_cases h : ts.fields.isEmpty = true
    · rw [if_pos h]
      constructor
      · rintro (h1 | ⟨x, hx, h2⟩)
        · exact Or.inl h1
        · exact Or.inr ⟨x, List.mem_cons_of_mem _ hx, h2⟩
      · rintro (h1 | ⟨x, hx, h2, h3⟩)
        · exact Or.inl h1
        · rcases List.mem_cons.mp hx with rfl | hx
          · rw [h] at h3; cases h3
          · exact Or.inr ⟨x, hx, h2, h3⟩
    · rw [if_neg h]
      have hk : (a.aggregateTS v ts).keys = insertNew a.keys ts.tags := rfl
      rw [hk, mem_insertNew]
      constructor
      · rintro ((h1 | h1) | ⟨x, hx, h2⟩)
        · exact Or.inl h1
        · exact Or.inr ⟨ts, List.mem_cons_self, h1.symm, by simpa using h⟩
        · exact Or.inr ⟨x, List.mem_cons_of_mem _ hx, h2⟩
      · rintro (h1 | ⟨x, hx, h2, h3⟩)
        · exact Or.inl (Or.inl h1)
        · rcases List.mem_cons.mp hx with rfl | hx
          · exact Or.inl (Or.inr h2.symm)
          · exact Or.inr ⟨x, hx, h2, h3⟩

theorem nodup_keys_aggregateAll (v : Variant) (a : Agg) (tss : List TS) (h : a.keys.Nodup) :
    (a.aggregateAll v tss).keys.Nodup := by
  induction tss generalizing a with
  | nil => exact h
  | cons ts tss ih =>
    rw [aggregateAll_cons]
    split
    · exact ih a h
    · exact ih _ (nodup_insertNew _ _ h)

/-- `aggregates[0] != nil` after merging: it was before, or some incoming group brought a segment
for a field that has an aggregator -/
theorem touched_aggregateAll (v : Variant) (a : Agg) (tss : List TS) (t f : Nat) :
    (a.aggregateAll v tss).touched t f =
      (a.touched t f || ((kindsOf a.specs f).isSome &&
        tss.any (fun ts => ts.tags == t && ts.fields.any (fun fd => fd.name == f && !fd.prims.isEmpty)))) := by
  induction tss generalizing a with
  | nil => simp [Agg.aggregateAll]
  | cons ts tss ih =>
    rw [aggregateAll_cons, ih]
    by_cases h : ts.fields.isEmpty = true
    · have h0 : ts.fields = [] := by simpa using h
      rw [if_pos h]
      simp [h0]
    · rw [if_neg h]
      have ht : (a.aggregateTS v ts).touched t f = (a.touched t f ||
          (t == ts.tags && (kindsOf a.specs f).isSome &&
            ts.fields.any (fun fd => fd.name == f && !fd.prims.isEmpty))) := rfl
      rw [ht, aggregateTS_specs, List.any_cons]
      cases a.touched t f <;> cases (kindsOf a.specs f).isSome <;>
        simp [Bool.and_comm]
      rw [BEq.comm (a := t)]

end LinVerif.RootMerge
