/-
Helper lemmas for the config-handler part of C18 (`Master.cfgHandle`, `Master.wstep`):
length of the assignment after the loop, the shape of persisted assignments (`Dense`),
what one handled config event does to the repository, and the system invariant `WInv`.
-/
import LinVerif.Model.Master
import LinVerif.Lemmas.C18Assign
import LinVerif.Lemmas.C18Master

namespace LinVerif.Lemmas.C18
open LinVerif LinVerif.Assign LinVerif.Master

/-! ### lengths -/

theorem length_upsert {κ ν : Type} [DecidableEq κ] : ∀ (m : List (κ × ν)) (k : κ) (v : ν),
    (Map.upsert m k v).length = if (Map.lookup m k).isSome then m.length else m.length + 1
  | [], k, v => by simp [Map.upsert, Map.lookup]
  | (k', v') :: t, k, v => by
    by_cases h : k' = k
    · simp [Map.upsert, Map.lookup, h]
    · have ih := length_upsert t k v
      simp only [Map.upsert, Map.lookup, h, if_false, List.length_cons, ih]
      split <;> rfl

theorem length_addReplicaTo (a : Assignment) (cur r : Nat) :
    (addReplicaTo a cur r).length = if (Map.lookup a cur).isSome then a.length else a.length + 1 := by
  unfold addReplicaTo
  exact length_upsert a cur _

theorem lookup_addReplicaTo_self_isSome (a : Assignment) (cur r : Nat) :
    (Map.lookup (addReplicaTo a cur r) cur).isSome = true := by
  unfold addReplicaTo
  rw [Map.lookup_upsert_self]; rfl

theorem length_foldl_addReplicaTo_some (cur : Nat) : ∀ (l : List Nat) (a : Assignment),
    (Map.lookup a cur).isSome = true →
      (l.foldl (fun acc r => addReplicaTo acc cur r) a).length = a.length
  | [], _, _ => rfl
  | r :: t, a, h => by
    rw [List.foldl_cons, length_foldl_addReplicaTo_some cur t _ (lookup_addReplicaTo_self_isSome a cur r),
      length_addReplicaTo, if_pos h]

theorem length_foldl_addReplicaTo_none (cur : Nat) (l : List Nat) (hl : l ≠ []) (a : Assignment)
    (h : Map.lookup a cur = none) :
    (l.foldl (fun acc r => addReplicaTo acc cur r) a).length = a.length + 1 := by
  cases l with
  | nil => exact absurd rfl hl
  | cons r t =>
    rw [List.foldl_cons, length_foldl_addReplicaTo_some cur t _ (lookup_addReplicaTo_self_isSome a cur r),
      length_addReplicaTo, h]
    rfl

theorem shardNodes_ne_nil (nodes : List Nat) (rf start shift cur : Nat) :
    shardNodes nodes rf start shift cur ≠ [] := by
  unfold shardNodes replicaIdxs
  simp

/-- the loop adds exactly `k` entries when the `k` shard ids are fresh -/
theorem length_assignLoop (nodes : List Nat) (rf start : Nat) :
    ∀ (k shift cur : Nat) (a : Assignment),
      (∀ s, cur ≤ s → s < cur + k → Map.lookup a s = none) →
      (assignLoop nodes rf start k shift cur a).length = a.length + k
  | 0, _, _, _, _ => rfl
  | k + 1, shift, cur, a, hfresh => by
    rw [assignLoop]
    rw [length_assignLoop nodes rf start k _ (cur + 1) _ (by
      intro s hs1 hs2
      rw [foldl_addReplicaTo_lookup_ne cur s (by omega)]
      exact hfresh s (by omega) (by omega))]
    rw [length_foldl_addReplicaTo_none cur _ (shardNodes_ne_nil _ _ _ _ _) a (hfresh cur (by omega) (by omega))]
    omega

/-- the parameters `ShardAssignment` / `ModifyShardAssignment` accepted -/
theorem shardAssignment_ok_pos {nodes : List Nat} {numShards rf : Int} {start shift ss : Nat} {res : Assignment}
    (hok : shardAssignment nodes numShards rf start shift ss = .ok res) :
    0 < numShards ∧ 0 < rf ∧ rf ≤ nodes.length := by
  unfold shardAssignment at hok
  split at hok
  · cases hok
  · split at hok
    · cases hok
    · split at hok
      · cases hok
      · omega

theorem modifyShardAssignment_ok_pos {nodes : List Nat} {cfgShards rf : Int} {ex : Assignment}
    {start shift ss : Nat} {res : Assignment}
    (hok : modifyShardAssignment nodes cfgShards rf ex start shift ss = .ok res) :
    (ex.length : Int) < cfgShards ∧ 0 < rf ∧ rf ≤ nodes.length := by
  unfold modifyShardAssignment at hok
  simp only [] at hok
  split at hok
  · cases hok
  · split at hok
    · cases hok
    · split at hok
      · cases hok
      · omega

/-! ### the shape of a persisted assignment -/

/-- a persisted assignment as the handler writes it: distinct shard ids, exactly `0 .. len-1` -/
structure Dense (a : Assignment) : Prop where
  keys : (Map.keys a).Nodup
  ids : ∀ s, (Map.lookup a s).isSome = true ↔ s < a.length

theorem Dense.lt {a : Assignment} (h : Dense a) {s : Nat} {rs : List Nat}
    (hl : Map.lookup a s = some rs) : s < a.length :=
  (h.ids s).mp (by rw [hl]; rfl)

theorem Dense.none_of_le {a : Assignment} (h : Dense a) {s : Nat} (hs : a.length ≤ s) :
    Map.lookup a s = none := by
  cases hl : Map.lookup a s with
  | none => rfl
  | some rs => have := h.lt hl; omega

theorem dense_assignLoop (nodes : List Nat) (hnd : nodes.Nodup) (rf start : Nat) (hrf : 1 ≤ rf)
    (hle : rf ≤ nodes.length) (k shift : Nat) (a : Assignment) (ha : Dense a) :
    Dense (assignLoop nodes rf start k shift a.length a) := by
  have hfresh : ∀ s, a.length ≤ s → s < a.length + k → Map.lookup a s = none :=
    fun s hs _ => ha.none_of_le hs
  refine ⟨nodup_keys_assignLoop nodes rf start k shift a.length a ha.keys, ?_⟩
  intro s
  rw [length_assignLoop nodes rf start k shift a.length a hfresh]
  by_cases h1 : s < a.length
  · rw [assignLoop_lookup_out nodes rf start k shift a.length a s (Or.inl h1)]
    constructor
    · intro _; omega
    · intro _; exact (ha.ids s).mpr h1
  · by_cases h2 : s < a.length + k
    · have := assignLoop_lookup_in nodes hnd rf start hrf hle k shift a.length a hfresh (s - a.length) (by omega)
      rw [show a.length + (s - a.length) = s by omega] at this
      rw [this]
      constructor
      · intro _; exact h2
      · intro _; rfl
    · rw [assignLoop_lookup_out nodes rf start k shift a.length a s (Or.inr (by omega))]
      rw [ha.none_of_le (by omega)]
      constructor
      · intro h; cases h
      · intro h; omega

theorem dense_nil : Dense ([] : Assignment) :=
  ⟨by simp [Map.keys], fun s => by simp [Map.lookup]⟩

/-- what `ShardAssignment(nodes, cfg, _, -1)` returns is dense -/
theorem dense_shardAssignment (nodes : List Nat) (hnd : nodes.Nodup) (numShards rf : Int)
    (start shift : Nat) (res : Assignment)
    (hok : shardAssignment nodes numShards rf start shift 0 = .ok res) : Dense res := by
  unfold shardAssignment at hok
  split at hok
  · cases hok
  · split at hok
    · cases hok
    · split at hok
      · cases hok
      · cases hok
        exact dense_assignLoop nodes hnd rf.toNat start (by omega) (by omega) _ shift [] dense_nil

/-- what `ModifyShardAssignment(nodes, cfg, existing, _, len(existing))` leaves is dense -/
theorem dense_modifyShardAssignment (nodes : List Nat) (hnd : nodes.Nodup) (cfgShards rf : Int)
    (existing : Assignment) (he : Dense existing) (start shift : Nat) (res : Assignment)
    (hok : modifyShardAssignment nodes cfgShards rf existing start shift existing.length = .ok res) :
    Dense res := by
  unfold modifyShardAssignment at hok
  simp only [] at hok
  split at hok
  · cases hok
  · split at hok
    · cases hok
    · split at hok
      · cases hok
      · cases hok
        exact dense_assignLoop nodes hnd rf.toNat start (by omega) (by omega) _ shift existing he

/-! ### one handled config event -/

theorem putAsg_reg (r : Store) (db : Nat) (a : Assignment) (f : Faults) : (putAsg r db a f).reg = r.reg := by
  unfold putAsg; split <;> rfl

theorem putAsg_lookup_ne (r : Store) (db db' : Nat) (a : Assignment) (f : Faults) (h : db ≠ db') :
    Map.lookup (putAsg r db a f).asgs db' = Map.lookup r.asgs db' := by
  unfold putAsg
  split
  · rfl
  · exact Map.lookup_upsert_ne _ _ _ _ h

theorem putAsg_lookup_self (r : Store) (db : Nat) (a : Assignment) (f : Faults) :
    Map.lookup (putAsg r db a f).asgs db = if f.put then Map.lookup r.asgs db else some a := by
  unfold putAsg
  split
  · rfl
  · exact Map.lookup_upsert_self _ _ _

theorem putAsg_keys (r : Store) (db : Nat) (a : Assignment) (f : Faults) (h : (Map.keys r.asgs).Nodup) :
    (Map.keys (putAsg r db a f).asgs).Nodup := by
  unfold putAsg
  split
  · exact h
  · exact nodup_keys_upsert _ _ _ h

/-- The outcome of `stateManager.shardAssignment` on the repository, case by case: the store is
left as it is, or the database's key is written with (create) a fresh assignment over the
registered nodes, (grow) the found assignment extended over the registered nodes, (re-trigger)
the found assignment itself. A failed read never leads to a write. -/
inductive CfgOutcome (r : Store) (db : Nat) (numShards rf : Int) (start shift : Nat) (f : Faults) :
    Store → Prop
  | unchanged : CfgOutcome r db numShards rf start shift f r
  | created (a : Assignment) :
      f.get = false → f.list = false → Map.lookup r.asgs db = none → r.reg ≠ [] →
      shardAssignment r.reg numShards rf start shift 0 = .ok a →
      CfgOutcome r db numShards rf start shift f (putAsg r db a f)
  | grown (a a' : Assignment) :
      f.get = false → f.list = false → Map.lookup r.asgs db = some a → (a.length : Int) < numShards →
      modifyShardAssignment r.reg numShards rf a start shift a.length = .ok a' →
      CfgOutcome r db numShards rf start shift f (putAsg r db a' f)
  | retriggered (a : Assignment) :
      f.get = false → Map.lookup r.asgs db = some a → (a.length : Int) = numShards →
      CfgOutcome r db numShards rf start shift f (putAsg r db a f)

theorem cfgHandle_outcome (r : Store) (view : List Nat) (db : Nat) (numShards rf : Int)
    (start shift : Nat) (f : Faults) :
    CfgOutcome r db numShards rf start shift f (cfgHandle r view db numShards rf start shift f) := by
  unfold cfgHandle getShardAssign getLiveNodes
  by_cases hg : f.get = true
  · simp only [hg, if_true]
    exact .unchanged
  · have hg' : f.get = false := by simpa using hg
    simp only [hg', Bool.false_eq_true, if_false]
    cases hl : Map.lookup r.asgs db with
    | none =>
      simp only []
      by_cases hli : f.list = true
      · simp only [hli, if_true]; exact .unchanged
      · have hli' : f.list = false := by simpa using hli
        simp only [hli', Bool.false_eq_true, if_false]
        cases hreg : r.reg with
        | nil => exact .unchanged
        | cons n ns =>
          simp only []
          cases hsa : shardAssignment (n :: ns) numShards rf start shift 0 with
          | error e => exact .unchanged
          | ok a =>
            simp only []
            exact .created a hg' hli' hl (by rw [hreg]; simp) (by rw [hreg]; exact hsa)
    | some a =>
      simp only []
      by_cases h1 : (a.length : Int) > numShards
      · rw [if_pos h1]; exact .unchanged
      · rw [if_neg h1]
        by_cases h2 : (a.length : Int) < numShards
        · rw [if_pos h2]
          by_cases hli : f.list = true
          · simp only [hli, if_true]; exact .unchanged
          · have hli' : f.list = false := by simpa using hli
            simp only [hli', Bool.false_eq_true, if_false]
            cases hreg : r.reg with
            | nil => exact .unchanged
            | cons n ns =>
              simp only []
              cases hsa : modifyShardAssignment (n :: ns) numShards rf a start shift a.length with
              | error e => exact .unchanged
              | ok a' =>
                simp only []
                exact .grown a a' hg' hli' hl h2 (by rw [hreg]; exact hsa)
        · rw [if_neg h2]
          exact .retriggered a hg' hl (by omega)

/-! ### the system invariant -/

/-- registrations are a set; every persisted assignment is dense; the repository's assignment keys
are distinct; the manager satisfies the leadership invariant; queued node events are node events -/
structure WInv (w : World) : Prop where
  reg : w.store.reg.Nodup
  asg_keys : (Map.keys w.store.asgs).Nodup
  dense : ∀ db a, Map.lookup w.store.asgs db = some a → Dense a
  st : Inv w.st
  nodeq : ∀ e ∈ w.nodeq, WellFormed e

theorem nodup_insertLive {l : List Nat} (h : l.Nodup) (id : Nat) : (insertLive l id).Nodup := by
  unfold insertLive
  by_cases hc : l.contains id = true
  · rw [if_pos hc]; exact h
  · rw [if_neg hc]
    have hn : id ∉ l := by simpa using hc
    rw [List.nodup_append]
    refine ⟨h, by simp, ?_⟩
    intro a ha b hb
    simp at hb
    subst hb
    intro e; subst e; exact hn ha

theorem winv_init : WInv World.init :=
  ⟨by simp [World.init], by simp [World.init, Map.keys], by intro db a h; simp [World.init] at h,
   inv_init, by intro e he; simp [World.init] at he⟩

theorem outcome_preserves (r : Store) (db : Nat) (numShards rf : Int) (start shift : Nat)
    (f : Faults) (hreg : r.reg.Nodup) (hk : (Map.keys r.asgs).Nodup)
    (hd : ∀ db a, Map.lookup r.asgs db = some a → Dense a) (r' : Store)
    (ho : CfgOutcome r db numShards rf start shift f r') :
    r'.reg = r.reg ∧ (Map.keys r'.asgs).Nodup ∧ (∀ db a, Map.lookup r'.asgs db = some a → Dense a) := by
  have key : ∀ (a : Assignment), Dense a →
      (putAsg r db a f).reg = r.reg ∧ (Map.keys (putAsg r db a f).asgs).Nodup ∧
      (∀ db' a', Map.lookup (putAsg r db a f).asgs db' = some a' → Dense a') := by
    intro a ha
    refine ⟨putAsg_reg _ _ _ _, putAsg_keys _ _ _ _ hk, ?_⟩
    intro db' a' hl
    by_cases hdb : db = db'
    · subst hdb
      rw [putAsg_lookup_self] at hl
      split at hl
      · exact hd _ _ hl
      · cases hl; exact ha
    · rw [putAsg_lookup_ne _ _ _ _ _ hdb] at hl
      exact hd _ _ hl
  cases ho with
  | unchanged => exact ⟨rfl, hk, hd⟩
  | created a _ _ _ _ hsa => exact key a (dense_shardAssignment r.reg hreg numShards rf start shift a hsa)
  | grown a a' _ _ hl _ hsa =>
    exact key a' (dense_modifyShardAssignment r.reg hreg numShards rf a (hd _ _ hl) start shift a' hsa)
  | retriggered a _ hl _ => exact key a (hd _ _ hl)

theorem cfgHandle_preserves (r : Store) (view : List Nat) (db : Nat) (numShards rf : Int) (start shift : Nat)
    (f : Faults) (hreg : r.reg.Nodup) (hk : (Map.keys r.asgs).Nodup)
    (hd : ∀ db a, Map.lookup r.asgs db = some a → Dense a) :
    (cfgHandle r view db numShards rf start shift f).reg = r.reg ∧
    (Map.keys (cfgHandle r view db numShards rf start shift f).asgs).Nodup ∧
    (∀ db' a, Map.lookup (cfgHandle r view db numShards rf start shift f).asgs db' = some a → Dense a) :=
  outcome_preserves r db numShards rf start shift f hreg hk hd _
    (cfgHandle_outcome r view db numShards rf start shift f)

theorem winv_step {w : World} (h : WInv w) (e : WEvent) : WInv (wstep w e) := by
  cases e with
  | register id =>
    refine ⟨nodup_insertLive h.reg id, h.asg_keys, h.dense, h.st, ?_⟩
    intro e he
    rcases List.mem_append.mp he with h1 | h1
    · exact h.nodeq e h1
    · simp at h1; subst h1; trivial
  | crash id =>
    refine ⟨h.reg.filter _, h.asg_keys, h.dense, h.st, ?_⟩
    intro e he
    rcases List.mem_append.mp he with h1 | h1
    · exact h.nodeq e h1
    · simp at h1; subst h1; trivial
  | deliverNode =>
    unfold wstep
    cases hq : w.nodeq with
    | nil => simp only []; exact h
    | cons e t =>
      simp only []
      refine ⟨h.reg, h.asg_keys, h.dense, inv_step h.st e (h.nodeq e (by rw [hq]; exact List.mem_cons_self)), ?_⟩
      intro e' he'
      exact h.nodeq e' (by rw [hq]; exact List.mem_cons_of_mem _ he')
  | cfg db numShards rf start shift f =>
    obtain ⟨h1, h2, h3⟩ := cfgHandle_preserves w.store w.st.live db numShards rf start shift f h.reg h.asg_keys h.dense
    exact ⟨by show (cfgHandle _ _ _ _ _ _ _ _).reg.Nodup; rw [h1]; exact h.reg, h2, h3,
      inv_step h.st (.dbCfg db) trivial, h.nodeq⟩
  | deliverAsg db =>
    simp only [wstep]
    split
    · exact h
    · rename_i a hl
      exact ⟨h.reg, h.asg_keys, h.dense, inv_step h.st (.assignChanged db a) (h.dense db a hl).keys, h.nodeq⟩
  | drop db =>
    refine ⟨h.reg, nodup_keys_erase _ _ h.asg_keys, ?_, inv_step h.st (.dropDb db) trivial, h.nodeq⟩
    intro db' a hl
    by_cases hdb : db = db'
    · subst hdb
      have : Map.lookup (Map.erase w.store.asgs db) db = none := Map.lookup_erase_self _ _
      change Map.lookup (Map.erase w.store.asgs db) db = some a at hl
      rw [this] at hl; cases hl
    · change Map.lookup (Map.erase w.store.asgs db) db' = some a at hl
      rw [Map.lookup_erase_ne _ _ _ hdb] at hl
      exact h.dense _ _ hl

theorem winv_run : ∀ (es : List WEvent) (w : World), WInv w → WInv (wrun w es)
  | [], _, h => h
  | e :: t, w, h => by
    show WInv (wrun (wstep w e) t)
    exact winv_run t _ (winv_step h e)

/-! ### "registered" read off the history of registration changes -/

/-- is node `r` registered after the events, given whether it was before: the last `register` /
`crash` naming `r` decides -/
def registeredAfter (r : Nat) : List WEvent → Bool → Bool
  | [], b => b
  | .register id :: t, b => registeredAfter r t (if id = r then true else b)
  | .crash id :: t, b => registeredAfter r t (if id = r then false else b)
  | _ :: t, b => registeredAfter r t b

theorem wstep_reg_other (w : World) (e : WEvent) (h1 : ∀ id, e ≠ .register id) (h2 : ∀ id, e ≠ .crash id) :
    (wstep w e).store.reg = w.store.reg := by
  cases e with
  | register id => exact absurd rfl (h1 id)
  | crash id => exact absurd rfl (h2 id)
  | deliverNode => simp only [wstep]; split <;> rfl
  | cfg db numShards rf start shift f =>
    have ho := cfgHandle_outcome w.store w.st.live db numShards rf start shift f
    show (cfgHandle _ _ _ _ _ _ _ _).reg = _
    generalize cfgHandle w.store w.st.live db numShards rf start shift f = r' at ho
    cases ho with
    | unchanged => rfl
    | created a => exact putAsg_reg _ _ _ _
    | grown a a' => exact putAsg_reg _ _ _ _
    | retriggered a => exact putAsg_reg _ _ _ _
  | deliverAsg db => simp only [wstep]; split <;> rfl
  | drop db => rfl

theorem mem_reg_wrun (r : Nat) : ∀ (es : List WEvent) (w : World),
    r ∈ (wrun w es).store.reg ↔ registeredAfter r es (decide (r ∈ w.store.reg)) = true
  | [], w => by simp [wrun, registeredAfter]
  | e :: t, w => by
    show r ∈ (wrun (wstep w e) t).store.reg ↔ _
    rw [mem_reg_wrun r t (wstep w e)]
    cases e with
    | register id =>
      have : decide (r ∈ (wstep w (.register id)).store.reg) = (if id = r then true else decide (r ∈ w.store.reg)) := by
        show decide (r ∈ insertLive w.store.reg id) = _
        by_cases h : id = r
        · subst h; simp [mem_insertLive]
        · have h' : ¬ r = id := fun e => h e.symm
          simp [mem_insertLive, h, h']
      rw [this]; rfl
    | crash id =>
      have : decide (r ∈ (wstep w (.crash id)).store.reg) = (if id = r then false else decide (r ∈ w.store.reg)) := by
        show decide (r ∈ w.store.reg.filter (· ≠ id)) = _
        by_cases h : id = r
        · subst h; simp
        · have h' : ¬ r = id := fun e => h e.symm
          simp [h, h']
      rw [this]; rfl
    | deliverNode => rw [wstep_reg_other w _ (fun _ => WEvent.noConfusion) (fun _ => WEvent.noConfusion)]; rfl
    | cfg db numShards rf start shift f =>
      rw [wstep_reg_other w _ (fun _ => WEvent.noConfusion) (fun _ => WEvent.noConfusion)]; rfl
    | deliverAsg db => rw [wstep_reg_other w _ (fun _ => WEvent.noConfusion) (fun _ => WEvent.noConfusion)]; rfl
    | drop db => rw [wstep_reg_other w _ (fun _ => WEvent.noConfusion) (fun _ => WEvent.noConfusion)]; rfl

/-! ### the manager's view catches up with the registrations -/

theorem live_run_congr (r : Nat) (q : List Event) (st1 st2 : St) (h : r ∈ st1.live ↔ r ∈ st2.live) :
    r ∈ (run st1 q).live ↔ r ∈ (run st2 q).live := by
  rw [mem_live_run, mem_live_run]
  have : decide (r ∈ st1.live) = decide (r ∈ st2.live) := by
    by_cases h1 : r ∈ st1.live
    · simp [h1, h.mp h1]
    · have h2 : r ∉ st2.live := fun x => h1 (h.mpr x)
      simp [h1, h2]
  rw [this]

/-- applying the node events that are still queued to the manager's live set gives exactly the
registered set: the view differs from the registrations by the queued events and by nothing else -/
def ViewInv (w : World) : Prop := ∀ r, r ∈ (run w.st w.nodeq).live ↔ r ∈ w.store.reg

theorem viewInv_init : ViewInv World.init := by
  intro r; simp [World.init, run, St.init]

theorem viewInv_step {w : World} (h : ViewInv w) (e : WEvent) : ViewInv (wstep w e) := by
  intro r
  cases e with
  | register id =>
    show r ∈ (run w.st (w.nodeq ++ [.nodeUp id])).live ↔ r ∈ insertLive w.store.reg id
    rw [run_append, mem_insertLive]
    have := mem_live_step (run w.st w.nodeq) (.nodeUp id) r
    show r ∈ (step (run w.st w.nodeq) (.nodeUp id)).live ↔ _
    rw [this, h r]
  | crash id =>
    show r ∈ (run w.st (w.nodeq ++ [.nodeDown id])).live ↔ r ∈ w.store.reg.filter (· ≠ id)
    rw [run_append, mem_filter_ne]
    have := mem_live_step (run w.st w.nodeq) (.nodeDown id) r
    show r ∈ (step (run w.st w.nodeq) (.nodeDown id)).live ↔ _
    rw [this, h r]
  | deliverNode =>
    have hw := h r
    simp only [wstep]
    split
    · exact hw
    · rename_i e t hq
      rw [hq] at hw
      exact hw
  | cfg db numShards rf start shift f =>
    rw [wstep_reg_other w _ (fun _ => WEvent.noConfusion) (fun _ => WEvent.noConfusion)]
    show r ∈ (run (step w.st (.dbCfg db)) w.nodeq).live ↔ _
    rw [live_run_congr r w.nodeq _ w.st (mem_live_step w.st (.dbCfg db) r)]
    exact h r
  | deliverAsg db =>
    have hw := h r
    simp only [wstep]
    split
    · exact hw
    · rename_i a hl
      show r ∈ (run (step w.st (.assignChanged db a)) w.nodeq).live ↔ _
      rw [live_run_congr r w.nodeq _ w.st (mem_live_step w.st (.assignChanged db a) r)]
      exact hw
  | drop db =>
    show r ∈ (run (step w.st (.dropDb db)) w.nodeq).live ↔ r ∈ w.store.reg
    rw [live_run_congr r w.nodeq _ w.st (mem_live_step w.st (.dropDb db) r)]
    exact h r

theorem viewInv_run : ∀ (es : List WEvent) (w : World), ViewInv w → ViewInv (wrun w es)
  | [], _, h => h
  | e :: t, w, h => by
    show ViewInv (wrun (wstep w e) t)
    exact viewInv_run t _ (viewInv_step h e)

end LinVerif.Lemmas.C18
