/-
TSD block codec (Model/Tsd.lean): the encoder appends `slotBits` (presence bit, then the XOR
code of the value) to the abstract stream; the decoder's `HasValue` / `Value` consume exactly
that, whichever way the slots are addressed.
-/
import LinVerif.Lemmas.C14Xor
import LinVerif.Model.Tsd

namespace LinVerif.Tsd
open LinVerif.Bits LinVerif.Xor
open LinVerif.Varint (two64)

/-- a block as the caller sees it: one entry per slot, `none` = no value -/
abbrev Slots := List (Option Nat)

def slotsOk (slots : Slots) : Prop := ∀ v, some v ∈ slots → v < two64

/-- the bits the encoder appends for a run of slots, from XOR encoder state `x` -/
def slotBits : Xor.Enc → Slots → List Bool
  | _, [] => []
  | x, none :: rest => false :: slotBits x rest
  | x, some v :: rest => true :: (encBits x v ++ slotBits (x.step v) rest)

/-- `AppendTime(0)` for an empty slot, `AppendTime(1); AppendValue(v)` for a value -/
def Enc.appendSlot (e : Enc) : Option Nat → Enc
  | none => e.appendTime false
  | some v => (e.appendTime true).appendValue v

def Enc.appendAll (e : Enc) (slots : Slots) : Enc := slots.foldl Enc.appendSlot e

structure Enc.Ok (e : Enc) : Prop where
  w : e.w.Ok
  x : e.values.Inv
  cnt : e.count < 65536

theorem Enc.fresh_ok (s : Nat) : (Enc.fresh s).Ok := ⟨Writer.fresh_ok, Xor.Enc.fresh_inv, by simp [Enc.fresh]⟩

theorem u16_lt (a : Nat) : u16 a < 65536 := by unfold u16; omega

theorem u16_add (a k : Nat) : u16 (u16 (a + 1) + k) = u16 (a + (k + 1)) := by
  unfold u16; omega

theorem Enc.appendAll_spec : ∀ (slots : Slots) (e : Enc), e.Ok → slotsOk slots →
    (e.appendAll slots).Ok ∧ (e.appendAll slots).w.bits = e.w.bits ++ slotBits e.values slots ∧
    (e.appendAll slots).count = u16 (e.count + slots.length) ∧ (e.appendAll slots).startTime = e.startTime := by
  intro slots
  induction slots with
  | nil =>
    intro e he _
    refine ⟨he, by simp [Enc.appendAll, slotBits], ?_, rfl⟩
    have := he.cnt
    simp only [Enc.appendAll, List.foldl_nil, List.length_nil, u16]
    omega
  | cons s rest ih =>
    intro e he hs
    have hrest : slotsOk rest := fun v hv => hs v (by simp [hv])
    cases s with
    | none =>
      have h1 := e.w.writeBit_spec he.w false
      have he1 : (e.appendTime false).Ok := ⟨h1.1, he.x, u16_lt _⟩
      obtain ⟨i1, i2, i3, i4⟩ := ih (e.appendTime false) he1 hrest
      refine ⟨i1, ?_, ?_, i4⟩
      · simp only [Enc.appendAll, List.foldl_cons, Enc.appendSlot] at i2 ⊢
        rw [i2]
        simp [Enc.appendTime, h1.2, slotBits]
      · simp only [Enc.appendAll, List.foldl_cons, Enc.appendSlot] at i3 ⊢
        rw [i3]
        simp only [Enc.appendTime, List.length_cons]
        exact u16_add _ _
    | some v =>
      have hv : v < two64 := hs v (by simp)
      have h1 := e.w.writeBit_spec he.w true
      obtain ⟨w1, w2, w3⟩ := e.values.write_spec (e.w.writeBit true) v he.x h1.1 hv
      have he1 : ((e.appendTime true).appendValue v).Ok := by
        refine ⟨?_, ?_, ?_⟩
        · simpa [Enc.appendValue, Enc.appendTime] using w2
        · simp only [Enc.appendValue, Enc.appendTime]
          rw [w1]; exact e.values.step_inv v he.x hv
        · simp only [Enc.appendValue, Enc.appendTime]; exact u16_lt _
      obtain ⟨i1, i2, i3, i4⟩ := ih ((e.appendTime true).appendValue v) he1 hrest
      refine ⟨i1, ?_, ?_, i4⟩
      · simp only [Enc.appendAll, List.foldl_cons, Enc.appendSlot] at i2 ⊢
        rw [i2]
        simp only [Enc.appendValue, Enc.appendTime, slotBits]
        rw [w3, w1, h1.2]
        simp
      · simp only [Enc.appendAll, List.foldl_cons, Enc.appendSlot] at i3 ⊢
        rw [i3]
        simp only [Enc.appendValue, Enc.appendTime, List.length_cons]
        exact u16_add _ _


/-! ### decoder -/

/-- decoder positioned in front of slot index `i` of a block `[st, en]`, XOR state `e`,
remaining abstract stream `bits` -/
structure DecAt (d : Dec) (st en i : Nat) (e : Xor.Enc) (bits : List Bool) : Prop where
  inited : d.inited = true
  st : d.startTime = st
  en : d.endTime = en
  idx : d.idx = i
  rok : d.r.Ok
  sim : Sim e d.x
  einv : e.Inv
  rest : d.r.rest = bits

theorem DecAt.setIdx {d : Dec} {st en i : Nat} {e : Xor.Enc} {bits : List Bool} (h : DecAt d st en i e bits) (j : Nat) :
    DecAt { d with idx := j } st en j e bits :=
  ⟨h.inited, h.st, h.en, rfl, h.rok, h.sim, h.einv, h.rest⟩

theorem Dec.hasValue_spec {d : Dec} {st en i : Nat} {e : Xor.Enc} {b : Bool} {bits : List Bool}
    (h : DecAt d st en i e (b :: bits)) : ∃ d', d.hasValue = (b, d') ∧ DecAt d' st en i e bits := by
  obtain ⟨r', hrd, ok', hrest', _⟩ := d.r.readBit_spec h.rok b bits h.rest
  refine ⟨{ d with r := r' }, ?_, ⟨h.inited, h.st, h.en, h.idx, ok', h.sim, h.einv, hrest'⟩⟩
  simp [Dec.hasValue, h.inited, hrd]

theorem Dec.value_spec {d : Dec} {st en i : Nat} {e : Xor.Enc} {v : Nat} {bits : List Bool}
    (h : DecAt d st en i e (encBits e v ++ bits)) (hv : v < two64) :
    ∃ d', d.value = (v, d') ∧ DecAt d' st en i (e.step v) bits := by
  obtain ⟨x', r', hn, hval, hsim, ok', hrest', _⟩ := d.x.next_spec e d.r v bits h.einv h.sim h.rok hv h.rest
  refine ⟨{ d with x := x', r := r' }, ?_,
    ⟨h.inited, h.st, h.en, h.idx, ok', hsim, e.step_inv v h.einv hv, hrest'⟩⟩
  simp [Dec.value, h.inited, hn, hval]

/-- below the `uint16` boundary both ways of computing `startTime+idx` agree -/
theorem nextKey_small (w : Bool) (st i : Nat) (h : st + i ≤ 65535) : nextKey w st i = st + i := by
  cases w <;> simp [nextKey, u16] <;> omega

/-- what a sequential reader is expected to see: `(slot, value)` for every present slot -/
def expected : Nat → Slots → List (Nat × Nat)
  | _, [] => []
  | s, none :: rest => expected (s + 1) rest
  | s, some v :: rest => (s, v) :: expected (s + 1) rest

/-- the sequential read loop of `series.BinaryPrimitiveIterator`:
`for Next() { if HasValue() { emit (Slot(), Value()) } }`, at most `fuel` calls of `Next` -/
def Dec.readSeq : Nat → Dec → List (Nat × Nat) × Dec
  | 0, d => ([], d)
  | fuel + 1, d =>
    let (more, d1) := d.next
    if !more then ([], d1)
    else
      let (has, d2) := d1.hasValue
      if has then
        let s := d2.slot
        let (v, d3) := d2.value
        let (rest, d4) := Dec.readSeq fuel d3
        ((s, v) :: rest, d4)
      else Dec.readSeq fuel d2

theorem Dec.readSeq_spec : ∀ (slots : Slots) (i : Nat) (e : Xor.Enc) (d : Dec) (st en : Nat) (t : List Bool),
    DecAt d st en i e (slotBits e slots ++ t) → slotsOk slots →
    en + 1 = st + i + slots.length → st + i + slots.length ≤ 65535 →
    ∀ fuel, slots.length < fuel → (d.readSeq fuel).1 = expected (st + i) slots := by
  intro slots
  induction slots with
  | nil =>
    intro i e d st en t h _ hen hb fuel hf
    obtain ⟨f, rfl⟩ : ∃ f, fuel = f + 1 := ⟨fuel - 1, by omega⟩
    simp only [List.length_nil, Nat.add_zero] at hen hb
    have hnext : d.next = (false, d) := by
      unfold Dec.next
      rw [h.st, h.idx, h.en, nextKey_small _ st i (by omega)]
      have : ¬ (st + i ≤ en) := by omega
      rw [if_neg this]
    simp [Dec.readSeq, hnext, expected]
  | cons s rest ih =>
    intro i e d st en t h hs hen hb fuel hf
    obtain ⟨f, rfl⟩ : ∃ f, fuel = f + 1 := ⟨fuel - 1, by omega⟩
    simp only [List.length_cons] at hen hb hf
    have hrest : slotsOk rest := fun v hv => hs v (by simp [hv])
    have hnext : d.next = (true, { d with idx := i + 1 }) := by
      unfold Dec.next
      rw [h.st, h.idx, h.en, nextKey_small _ st i (by omega)]
      have h1 : st + i ≤ en := by omega
      have h2 : u16 (i + 1) = i + 1 := by unfold u16; omega
      rw [if_pos h1, h2]
    have hat := h.setIdx (i + 1)
    have e1 : st + (i + 1) = st + i + 1 := by omega
    cases s with
    | none =>
      have hat' : DecAt { d with idx := i + 1 } st en (i + 1) e (false :: (slotBits e rest ++ t)) := by
        simpa [slotBits] using hat
      obtain ⟨d2, hhv, hat2⟩ := Dec.hasValue_spec hat'
      have := ih (i + 1) e d2 st en t hat2 hrest (by omega) (by omega) f (by omega)
      simp only [Dec.readSeq, hnext, hhv, expected]
      simp only [Bool.not_true, Bool.false_eq_true, if_false]
      rw [this, e1]
    | some v =>
      have hv : v < two64 := hs v (by simp)
      have hat' : DecAt { d with idx := i + 1 } st en (i + 1) e
          (true :: (encBits e v ++ (slotBits (e.step v) rest ++ t))) := by
        simpa [slotBits, List.append_assoc] using hat
      obtain ⟨d2, hhv, hat2⟩ := Dec.hasValue_spec hat'
      obtain ⟨d3, hval, hat3⟩ := Dec.value_spec hat2 hv
      have := ih (i + 1) (e.step v) d3 st en t hat3 hrest (by omega) (by omega) f (by omega)
      have hslot : d2.slot = st + i := by
        unfold Dec.slot u16
        rw [hat2.st, hat2.idx]; omega
      simp only [Dec.readSeq, hnext, hhv, expected, hval, hslot]
      simp only [Bool.not_true, Bool.false_eq_true, if_false, if_true]
      rw [this, e1]

/-- the value stored for slot `s` in a block starting at `st` -/
def slotAt (st : Nat) (slots : Slots) (s : Nat) : Option Nat :=
  if s < st then none else (slots[s - st]?).join

/-- `GetValue(slot)` for each slot of `qs`, in order -/
def Dec.getValues : List Nat → Dec → List (Option Nat) × Dec
  | [], d => ([], d)
  | s :: rest, d =>
    let (o, d1) := d.getValue s
    let (os, d2) := Dec.getValues rest d1
    (o :: os, d2)

theorem slotAt_cons_succ (st : Nat) (sl : Option Nat) (rest : Slots) (s : Nat) (h : st < s) :
    slotAt st (sl :: rest) s = slotAt (st + 1) rest s := by
  unfold slotAt
  have h1 : ¬ s < st := by omega
  have h2 : ¬ s < st + 1 := by omega
  rw [if_neg h1, if_neg h2]
  have : s - st = (s - (st + 1)) + 1 := by omega
  rw [this, List.getElem?_cons_succ]

/-- slot-addressed reads over consecutive ascending slots `q, q+1, …` that begin at or before
the decoder's position: before the block nothing is consumed, inside it the reads run in
lock-step with the stream, after it nothing is consumed. -/
theorem Dec.getValues_spec : ∀ (k q : Nat) (slots : Slots) (i : Nat) (e : Xor.Enc) (d : Dec) (st en : Nat) (t : List Bool),
    DecAt d st en i e (slotBits e slots ++ t) → slotsOk slots →
    en + 1 = st + i + slots.length → st + i + slots.length ≤ 65536 → i + slots.length ≤ 65535 →
    ((i = 0 ∧ q < st) ∨ q = st + i ∨ (slots = [] ∧ st + i < q)) →
    (d.getValues (List.range' q k)).1 = (List.range' q k).map (slotAt (st + i) slots) := by
  intro k
  induction k with
  | zero => intros; rfl
  | succ k ih =>
    intro q slots i e d st en t h hs hen hb hb2 hphase
    simp only [List.range'_succ, Dec.getValues, List.map_cons]
    rcases hphase with ⟨hi0, hq⟩ | hq | ⟨hnil, hq⟩
    · -- before the block
      have hg : d.getValue q = (none, d) := by
        unfold Dec.getValue Dec.hasValueWithSlot
        rw [h.st]
        simp [hq]
      have hsl : slotAt (st + i) slots q = none := by unfold slotAt; rw [if_pos (by omega)]
      rw [hg, hsl]
      have := ih (q + 1) slots i e d st en t h hs hen hb hb2 (by
        by_cases hlt : q + 1 < st
        · exact Or.inl ⟨hi0, hlt⟩
        · exact Or.inr (Or.inl (by omega)))
      simp only [this]
    · cases slots with
      | nil =>
        -- just past the block
        simp only [List.length_nil, Nat.add_zero] at hen
        have hg : d.getValue q = (none, d) := by
          unfold Dec.getValue Dec.hasValueWithSlot
          rw [h.st, h.en]
          have : q > en := by omega
          simp [this]
        have hsl : slotAt (st + i) [] q = none := by unfold slotAt; simp
        rw [hg, hsl]
        have := ih (q + 1) [] i e d st en t h hs (by simpa using hen) hb hb2 (Or.inr (Or.inr ⟨rfl, by omega⟩))
        simp only [this]
      | cons sl rest =>
        simp only [List.length_cons] at hen hb hb2
        have hrest : slotsOk rest := fun v hv => hs v (by simp [hv])
        have hcond1 : ¬ (q < st ∨ q > en) := by omega
        have hcond2 : q = u16 (i + st) := by unfold u16; omega
        have hidx : u16 (i + 1) = i + 1 := by unfold u16; omega
        have hat := h.setIdx (i + 1)
        have hsl : slotAt (st + i) (sl :: rest) q = sl := by
          unfold slotAt
          rw [if_neg (by omega)]
          have : q - (st + i) = 0 := by omega
          rw [this]; simp
        have hmap : ∀ l : List Nat, (∀ x ∈ l, st + i < x) →
            l.map (slotAt (st + i) (sl :: rest)) = l.map (slotAt (st + (i + 1)) rest) := by
          intro l hl
          apply List.map_congr_left
          intro x hx
          have := slotAt_cons_succ (st + i) sl rest x (hl x hx)
          rw [this]; congr 1
        have hrange : ∀ x ∈ List.range' (q + 1) k, st + i < x := by
          intro x hx
          have := (List.mem_range'_1.mp hx).1
          omega
        cases sl with
        | none =>
          have hat' : DecAt { d with idx := i + 1 } st en (i + 1) e (false :: (slotBits e rest ++ t)) := by
            simpa [slotBits] using hat
          obtain ⟨d2, hhv, hat2⟩ := Dec.hasValue_spec hat'
          have hg : d.getValue q = (none, d2) := by
            unfold Dec.getValue Dec.hasValueWithSlot
            have c1 : ¬ (q < d.startTime ∨ q > d.endTime) := by rw [h.st, h.en]; exact hcond1
            have c2 : q = u16 (d.idx + d.startTime) := by rw [h.st, h.idx]; exact hcond2
            have c3 : u16 (d.idx + 1) = i + 1 := by rw [h.idx]; exact hidx
            rw [if_neg c1, if_pos c2, c3, hhv]
            simp
          have := ih (q + 1) rest (i + 1) e d2 st en t hat2 hrest (by omega) (by omega) (by omega)
            (Or.inr (Or.inl (by omega)))
          rw [hg, hsl]
          simp only [this, hmap _ hrange]
        | some v =>
          have hv : v < two64 := hs v (by simp)
          have hat' : DecAt { d with idx := i + 1 } st en (i + 1) e
              (true :: (encBits e v ++ (slotBits (e.step v) rest ++ t))) := by
            simpa [slotBits, List.append_assoc] using hat
          obtain ⟨d2, hhv, hat2⟩ := Dec.hasValue_spec hat'
          obtain ⟨d3, hval, hat3⟩ := Dec.value_spec hat2 hv
          have hg : d.getValue q = (some v, d3) := by
            unfold Dec.getValue Dec.hasValueWithSlot
            have c1 : ¬ (q < d.startTime ∨ q > d.endTime) := by rw [h.st, h.en]; exact hcond1
            have c2 : q = u16 (d.idx + d.startTime) := by rw [h.st, h.idx]; exact hcond2
            have c3 : u16 (d.idx + 1) = i + 1 := by rw [h.idx]; exact hidx
            rw [if_neg c1, if_pos c2, c3, hhv]
            simp [hval]
          have := ih (q + 1) rest (i + 1) (e.step v) d3 st en t hat3 hrest (by omega) (by omega) (by omega)
            (Or.inr (Or.inl (by omega)))
          rw [hg, hsl]
          simp only [this, hmap _ hrange]
    · -- after the block
      subst hnil
      simp only [List.length_nil, Nat.add_zero] at hen
      have hg : d.getValue q = (none, d) := by
        unfold Dec.getValue Dec.hasValueWithSlot
        rw [h.st, h.en]
        have : q > en := by omega
        simp [this]
      have hsl : slotAt (st + i) [] q = none := by unfold slotAt; simp
      rw [hg, hsl]
      have := ih (q + 1) [] i e d st en t h hs (by simpa using hen) hb hb2 (Or.inr (Or.inr ⟨rfl, by omega⟩))
      simp only [this]


/-! ### Seek -/

/-- XOR encoder state after a run of values -/
def xStepAll (e : Xor.Enc) (vs : List Nat) : Xor.Enc := vs.foldl Xor.Enc.step e

theorem xStepAll_inv (vs : List Nat) : ∀ (e : Xor.Enc), e.Inv → (∀ v ∈ vs, v < two64) → (xStepAll e vs).Inv := by
  induction vs with
  | nil => intro e h _; exact h
  | cons v vs ih =>
    intro e h hv
    exact ih (e.step v) (e.step_inv v h (hv v (by simp))) (fun x hx => hv x (by simp [hx]))

/-- the loop of `Seek(s)` over a run of present slots that ends exactly at `s`: every slot is
consumed (presence bit and value) and the loop stops in front of `s` with result `true`. -/
theorem Dec.seekLoop_dense : ∀ (vs : List Nat) (rest : Slots) (i : Nat) (e : Xor.Enc) (d : Dec) (st en : Nat)
    (t : List Bool) (fuel : Nat),
    DecAt d st en i e (slotBits e (vs.map some ++ rest) ++ t) → (∀ v ∈ vs, v < two64) →
    st + i + vs.length ≤ en → en ≤ 65535 → i + vs.length ≤ 65535 → vs.length < fuel →
    ∃ d', Dec.seekLoop (st + i + vs.length) fuel d = (true, d') ∧
      DecAt d' st en (i + vs.length) (xStepAll e vs) (slotBits (xStepAll e vs) rest ++ t) := by
  intro vs
  induction vs with
  | nil =>
    intro rest i e d st en t fuel h _ hen h65 _ hf
    obtain ⟨f, rfl⟩ : ∃ f, fuel = f + 1 := ⟨fuel - 1, by omega⟩
    refine ⟨d, ?_, by simpa [xStepAll] using h⟩
    simp only [Dec.seekLoop, List.length_nil, Nat.add_zero]
    have hu : u16 (d.idx + d.startTime) = st + i := by
      rw [h.idx, h.st]; unfold u16; simp only [List.length_nil, Nat.add_zero] at hen; omega
    rw [hu]
    simp
  | cons v vs ih =>
    intro rest i e d st en t fuel h hvs hen h65 hi hf
    obtain ⟨f, rfl⟩ : ∃ f, fuel = f + 1 := ⟨fuel - 1, by omega⟩
    simp only [List.length_cons] at hen hi hf
    have hv : v < two64 := hvs v (by simp)
    have hu : u16 (d.idx + d.startTime) = st + i := by
      rw [h.idx, h.st]; unfold u16; omega
    have hlt : st + i < st + i + (vs.length + 1) := by omega
    have hidx : u16 (d.idx + 1) = i + 1 := by rw [h.idx]; unfold u16; omega
    have hat' : DecAt { d with idx := i + 1 } st en (i + 1) e
        (true :: (encBits e v ++ (slotBits (e.step v) (vs.map some ++ rest) ++ t))) := by
      simpa [slotBits, List.append_assoc] using h.setIdx (i + 1)
    obtain ⟨d2, hhv, hat2⟩ := Dec.hasValue_spec hat'
    obtain ⟨d3, hval, hat3⟩ := Dec.value_spec hat2 hv
    have hhvs : d.hasValueWithSlot (st + i) = (true, d2) := by
      unfold Dec.hasValueWithSlot
      have c1 : ¬ (st + i < d.startTime ∨ st + i > d.endTime) := by rw [h.st, h.en]; omega
      have c2 : st + i = u16 (d.idx + d.startTime) := hu.symm
      rw [if_neg c1, if_pos c2, hidx, hhv]
    obtain ⟨d', hloop, hat'⟩ := ih rest (i + 1) (e.step v) d3 st en t f hat3
      (fun x hx => hvs x (by simp [hx])) (by omega) h65 (by omega) (by omega)
    refine ⟨d', ?_, ?_⟩
    · simp only [Dec.seekLoop, List.length_cons, hu, hlt, if_true, hhvs, hval]
      have e1 : st + i + (vs.length + 1) = st + (i + 1) + vs.length := by omega
      rw [e1]; exact hloop
    · have e2 : i + (v :: vs).length = i + 1 + vs.length := by simp; omega
      rw [e2]
      simpa [xStepAll] using hat'

/-- the same loop when an empty slot comes before the target: `Seek` gives up with `false`,
having consumed the present slots and the empty one. -/
theorem Dec.seekLoop_gap : ∀ (vs : List Nat) (rest : Slots) (i : Nat) (e : Xor.Enc) (d : Dec) (st en : Nat)
    (t : List Bool) (fuel s : Nat),
    DecAt d st en i e (slotBits e (vs.map some ++ none :: rest) ++ t) → (∀ v ∈ vs, v < two64) →
    st + i + vs.length < s → s ≤ en → en ≤ 65535 → i + vs.length + 1 ≤ 65535 → vs.length < fuel →
    ∃ d', Dec.seekLoop s fuel d = (false, d') ∧
      DecAt d' st en (i + vs.length + 1) (xStepAll e vs) (slotBits (xStepAll e vs) rest ++ t) := by
  intro vs
  induction vs with
  | nil =>
    intro rest i e d st en t fuel s h _ hs hen h65 hi hf
    obtain ⟨f, rfl⟩ : ∃ f, fuel = f + 1 := ⟨fuel - 1, by omega⟩
    simp only [List.length_nil, Nat.add_zero] at hs hi
    have hu : u16 (d.idx + d.startTime) = st + i := by
      rw [h.idx, h.st]; unfold u16; omega
    have hidx : u16 (d.idx + 1) = i + 1 := by rw [h.idx]; unfold u16; omega
    have hat' : DecAt { d with idx := i + 1 } st en (i + 1) e (false :: (slotBits e rest ++ t)) := by
      simpa [slotBits] using h.setIdx (i + 1)
    obtain ⟨d2, hhv, hat2⟩ := Dec.hasValue_spec hat'
    have hhvs : d.hasValueWithSlot (st + i) = (false, d2) := by
      unfold Dec.hasValueWithSlot
      have c1 : ¬ (st + i < d.startTime ∨ st + i > d.endTime) := by rw [h.st, h.en]; omega
      have c2 : st + i = u16 (d.idx + d.startTime) := hu.symm
      rw [if_neg c1, if_pos c2, hidx, hhv]
    refine ⟨d2, ?_, by simpa [xStepAll] using hat2⟩
    simp only [Dec.seekLoop, hu, hs, if_true, hhvs]
    simp
  | cons v vs ih =>
    intro rest i e d st en t fuel s h hvs hs hen h65 hi hf
    obtain ⟨f, rfl⟩ : ∃ f, fuel = f + 1 := ⟨fuel - 1, by omega⟩
    simp only [List.length_cons] at hs hi hf
    have hv : v < two64 := hvs v (by simp)
    have hu : u16 (d.idx + d.startTime) = st + i := by
      rw [h.idx, h.st]; unfold u16; omega
    have hlt : st + i < s := by omega
    have hidx : u16 (d.idx + 1) = i + 1 := by rw [h.idx]; unfold u16; omega
    have hat' : DecAt { d with idx := i + 1 } st en (i + 1) e
        (true :: (encBits e v ++ (slotBits (e.step v) (vs.map some ++ none :: rest) ++ t))) := by
      simpa [slotBits, List.append_assoc] using h.setIdx (i + 1)
    obtain ⟨d2, hhv, hat2⟩ := Dec.hasValue_spec hat'
    obtain ⟨d3, hval, hat3⟩ := Dec.value_spec hat2 hv
    have hhvs : d.hasValueWithSlot (st + i) = (true, d2) := by
      unfold Dec.hasValueWithSlot
      have c1 : ¬ (st + i < d.startTime ∨ st + i > d.endTime) := by rw [h.st, h.en]; omega
      have c2 : st + i = u16 (d.idx + d.startTime) := hu.symm
      rw [if_neg c1, if_pos c2, hidx, hhv]
    obtain ⟨d', hloop, hat'⟩ := ih rest (i + 1) (e.step v) d3 st en t f s hat3
      (fun x hx => hvs x (by simp [hx])) (by omega) hen h65 (by omega) (by omega)
    refine ⟨d', ?_, ?_⟩
    · simp only [Dec.seekLoop, hu, hlt, if_true, hhvs, hval]
      exact hloop
    · have e2 : i + (v :: vs).length + 1 = i + 1 + vs.length + 1 := by simp; omega
      rw [e2]
      simpa [xStepAll] using hat'

theorem slotAt_drop (st : Nat) (slots : Slots) (j s : Nat) (h : st + j ≤ s) :
    slotAt (st + j) (slots.drop j) s = slotAt st slots s := by
  unfold slotAt
  rw [if_neg (by omega), if_neg (by omega), List.getElem?_drop]
  congr 2; omega

end LinVerif.Tsd
