/-
Whole-block round trip of the metric block layout (`Model/BlockLayout.lean`): the bucket / high-key
level. Builds on the entry-level lemmas of `Lemmas/C11Block.lean`.

Plan of the proof: an invariant `J` of the writer between the two halves of `FlushSeries`
(`enterBucket`, then `writeEntry` + the deferred re-base) that carries
  * for every series of a CLOSED bucket a read certificate (`ClosedCert`: container index, the two
    high-key offsets, the position word, the low-key offsets, the entry span, the entry-level read),
    stable under everything the writer does later (`Ext`: the tables are append-only),
  * for the OPEN bucket: the low-key offsets are the prefix sums of the entry lengths relative to
    `Level3.startAt`, the entries are contiguous up to the writer's position, each is read back.
Closing a bucket (`flushBucket`: by the next high key or by `CommitMetric`) turns the open part into
certificates.
-/
import LinVerif.Lemmas.C11Block

namespace LinVerif.Lemmas.C11BlockRT
open LinVerif.BlockLayout LinVerif.Lemmas.C11Block

abbrev Ser := Nat × List Nat

/-- length of the series entry `FlushSeries` writes for these field-data lengths. -/
def entryLen (e : Enc) (nf : Nat) (flds : List Nat) : Nat :=
  sumL flds + (if 1 < nf then e.offLen (prefixSums 0 flds) + e.uvarLen (e.offLen (prefixSums 0 flds)) else 0)

def lens (e : Enc) (nf : Nat) (ss : List Ser) : List Nat := ss.map (fun s => entryLen e nf s.2)

theorem sumL_append : ∀ (xs ys : List Nat), sumL (xs ++ ys) = sumL xs + sumL ys
  | [], ys => by simp [sumL]
  | x :: xs, ys => by simp [sumL, sumL_append xs ys]; omega

theorem prefixSums_append : ∀ (xs ys : List Nat) (acc : Nat),
    prefixSums acc (xs ++ ys) = prefixSums acc xs ++ prefixSums (acc + sumL xs) ys
  | [], ys, acc => by simp [prefixSums, sumL]
  | x :: xs, ys, acc => by
    simp [prefixSums, sumL, prefixSums_append xs ys (acc + x)]
    congr 1; omega

theorem prefixSums_length : ∀ (xs : List Nat) (acc : Nat), (prefixSums acc xs).length = xs.length
  | [], _ => rfl
  | x :: xs, acc => by simp [prefixSums, prefixSums_length xs]

/-! ### the tables are append-only -/

/-- what every later action of the writer leaves alone. -/
structure Ext (w w' : W) : Prop where
  size_le : w.size ≤ w'.size
  lowAt : ∀ p, p < w.size → w'.lowAt p = w.lowAt p
  fldAt : ∀ p, p < w.size → w'.fldAt p = w.fldAt p
  posAt : ∀ p, p ≤ w.size → w'.posAt p = w.posAt p
  lenAt : ∀ p, p ≤ w.size → w'.lenAt p = w.lenAt p

theorem Ext.refl (w : W) : Ext w w := ⟨Nat.le_refl _, fun _ _ => rfl, fun _ _ => rfl, fun _ _ => rfl, fun _ _ => rfl⟩

theorem Ext.trans {a b c : W} (h1 : Ext a b) (h2 : Ext b c) : Ext a c :=
  ⟨Nat.le_trans h1.size_le h2.size_le,
   fun p hp => by rw [h2.lowAt p (Nat.lt_of_lt_of_le hp h1.size_le), h1.lowAt p hp],
   fun p hp => by rw [h2.fldAt p (Nat.lt_of_lt_of_le hp h1.size_le), h1.fldAt p hp],
   fun p hp => by rw [h2.posAt p (Nat.le_trans hp h1.size_le), h1.posAt p hp],
   fun p hp => by rw [h2.lenAt p (Nat.le_trans hp h1.size_le), h1.lenAt p hp]⟩

/-- the loop of `flushField` touches neither the bucket level nor other series. -/
theorem writeFields_frame (sid : Nat) (multi : Bool) : ∀ (flds : List Nat) (w : W) (k : Nat),
    (writeFields sid multi w k flds).l3 = w.l3 ∧
    (writeFields sid multi w k flds).highKey = w.highKey ∧
    (writeFields sid multi w k flds).highSet = w.highSet ∧
    (writeFields sid multi w k flds).highOffs = w.highOffs ∧
    (writeFields sid multi w k flds).lowOffs = w.lowOffs ∧
    (writeFields sid multi w k flds).ids = w.ids ∧
    (writeFields sid multi w k flds).lowAt = w.lowAt ∧
    (writeFields sid multi w k flds).posAt = w.posAt ∧
    (∀ s j, s ≠ sid → (writeFields sid multi w k flds).truth s j = w.truth s j)
  | [], w, k => by simp [writeFields]
  | len :: rest, w, k => by
    have ih := writeFields_frame sid multi rest
      { w with size := w.size + len, truth := upd2 w.truth sid k (w.size, len),
               fOffs := if multi then w.fOffs ++ [w.size - w.l4] else w.fOffs } (k + 1)
    obtain ⟨h1, h2, h3, h4, h5, h6, h7, h8, h9⟩ := ih
    simp only [writeFields]
    refine ⟨h1, h2, h3, h4, h5, h6, h7, h8, ?_⟩
    intro s j hs
    rw [h9 s j hs]
    simp [upd2, hs]

/-- what the second half of `FlushSeries` does to the writer. -/
theorem writeEntry_spec (e : Enc) (hu : ∀ n, 0 < e.uvarLen n) (nf : Nat) (w : W) (sid : Nat) (flds : List Nat)
    (h4 : w.l4 = w.size) (hf : w.fOffs = []) :
    (writeEntry e nf w sid flds).size = w.size + entryLen e nf flds ∧
    (writeEntry e nf w sid flds).l3 = w.l3 ∧
    (writeEntry e nf w sid flds).highKey = w.highKey ∧
    (writeEntry e nf w sid flds).highSet = w.highSet ∧
    (writeEntry e nf w sid flds).highOffs = w.highOffs ∧
    (writeEntry e nf w sid flds).lowOffs = w.lowOffs ++ [w.size - w.l3] ∧
    (writeEntry e nf w sid flds).ids = w.ids ++ [sid] ∧
    (writeEntry e nf w sid flds).lowAt = w.lowAt ∧
    (writeEntry e nf w sid flds).posAt = w.posAt ∧
    (∀ s j, s ≠ sid → (writeEntry e nf w sid flds).truth s j = w.truth s j) ∧
    Ext w (writeEntry e nf w sid flds) := by
  have spec := writeFields_spec sid (decide (1 < nf)) flds
    { w with lowOffs := w.lowOffs ++ [w.size - w.l3] } 0 (by simp [h4])
  obtain ⟨s1, _, s3, s4, s5, _, _⟩ := spec
  have fr := writeFields_frame sid (decide (1 < nf)) flds
    { w with lowOffs := w.lowOffs ++ [w.size - w.l3] } 0
  obtain ⟨f1, f2, f3, f4, f5, f6, f7, f8, f9⟩ := fr
  simp only at s1 s3 s4 s5 f1 f2 f3 f4 f5 f6 f7 f8 f9
  by_cases hm : 1 < nf
  · unfold writeEntry writeL4Footer entryLen
    simp only [hm, if_true, decide_true] at *
    have hul := hu (e.offLen (prefixSums 0 flds))
    have s5' : (writeFields sid true { w with lowOffs := w.lowOffs ++ [w.size - w.l3] } 0 flds).fOffs =
        prefixSums 0 flds := by rw [s5]; simp [hf, h4]
    rw [s5']
    refine ⟨by rw [s1]; omega, f1, f2, f3, f4, f5, by rw [f6], f7, f8, f9, ?_⟩
    refine ⟨by simp only [s1]; omega, fun p _ => by rw [f7], ?_, fun p _ => by rw [f8], ?_⟩
    · intro p hp
      simp only [upd, s1, s3]
      rw [if_neg (by omega)]
    · intro p hp
      simp only [upd, s1, s4]
      rw [if_neg (by omega)]
  · unfold writeEntry entryLen
    simp only [hm, if_false, decide_false] at *
    refine ⟨by rw [s1]; omega, f1, f2, f3, f4, f5, by rw [f6], f7, f8, f9, ?_⟩
    exact ⟨by simp only [s1]; omega, fun p _ => by rw [f7], fun p _ => by rw [s3], fun p _ => by rw [f8],
      fun p _ => by rw [s4]⟩

/-! ### container keys and ranks under appending a larger series id -/

/-- `GetContainerIndex` on the key list. -/
def cidx (ks : List Nat) (hk : Nat) : Option Nat :=
  if ks.contains hk then some (ks.takeWhile (· ≠ hk)).length else none

theorem containerIdx_eq (ids : List Nat) (hk : Nat) : containerIdx ids hk = cidx (highKeys ids) hk := rfl

theorem highKeys_aux (r : List Nat) (ha hx : Nat) :
    (if (if r.getLast? = some hx then r else r ++ [hx]).head? = some ha then
        (if r.getLast? = some hx then r else r ++ [hx])
      else ha :: (if r.getLast? = some hx then r else r ++ [hx])) =
    if (if r.head? = some ha then r else ha :: r).getLast? = some hx then
        (if r.head? = some ha then r else ha :: r)
      else (if r.head? = some ha then r else ha :: r) ++ [hx] := by
  cases r with
  | nil =>
    by_cases h : hx = ha
    · simp [h]
    · have h' : ¬ ha = hx := fun q => h q.symm
      simp [h, h']
  | cons b r0 =>
    by_cases hb : b = ha <;> by_cases hl : (b :: r0).getLast? = some hx <;>
      simp [hb, hl, List.getLast?_cons_cons] <;> simp_all [List.getLast?_cons_cons]

theorem highKeys_append_one : ∀ (ids : List Nat) (x : Nat),
    highKeys (ids ++ [x]) =
      if (highKeys ids).getLast? = some (x / 65536) then highKeys ids else highKeys ids ++ [x / 65536]
  | [], x => by simp [highKeys]
  | a :: t, x => by
    have ih := highKeys_append_one t x
    simp only [List.cons_append, highKeys]
    rw [ih]
    exact highKeys_aux (highKeys t) (a / 65536) (x / 65536)

theorem cidx_append_mem : ∀ (ks : List Nat) (n hk : Nat), hk ∈ ks → cidx (ks ++ [n]) hk = cidx ks hk
  | [], _, _, h => by simp at h
  | a :: ks, n, hk, h => by
    by_cases ha : a = hk
    · subst ha
      simp [cidx, List.takeWhile]
    · have hm : hk ∈ ks := by
        rcases List.mem_cons.mp h with h | h
        · exact absurd h.symm ha
        · exact h
      have ih := cidx_append_mem ks n hk hm
      have ha' : ¬ hk = a := fun q => ha q.symm
      simp [cidx, List.takeWhile, ha, ha', hm] at *
      exact ih

theorem cidx_last : ∀ (ks : List Nat) (n : Nat), n ∉ ks → cidx (ks ++ [n]) n = some ks.length
  | [], n, _ => by simp [cidx, List.takeWhile]
  | a :: ks, n, h => by
    have hna : ¬ a = n := fun q => h (by simp [q])
    have hm : n ∉ ks := fun q => h (by simp [q])
    have ih := cidx_last ks n hm
    simp [cidx, List.takeWhile, hna] at *
    exact ih

/-- appending an id that is not smaller leaves the rank of an earlier id alone. -/
theorem entryIdx_append (ids : List Nat) (x sid : Nat) (h : sid ≤ x) :
    entryIdx (ids ++ [x]) sid = entryIdx ids sid := by
  unfold entryIdx
  rw [List.filter_append]
  have : ¬ x < sid := by omega
  simp [this]

/-! ### read certificates -/

/-- what was written is recorded as consecutive spans. -/
def TruthOK (nf : Nat) (w : W) (sid : Nat) (flds : List Nat) : Prop :=
  ∀ k, k < nf → ∃ a, w.truth sid k = some (a + sumL (flds.take k), flds.getD k 0)

/-- `readSeriesData` on the entry `[a, z)` answers what was written (nothing for a multi-field
entry whose field data are all empty). -/
def EntryRead (nf : Nat) (w : W) (sid : Nat) (flds : List Nat) (a z : Nat) : Prop :=
  ∀ k, k < nf → readEntry w.fldAt w.lenAt nf a z k =
    if nf ≠ 1 ∧ sumL flds = 0 then none else w.truth sid k

theorem readEntry_congr (fldAt fldAt' : Nat → Option (List Nat)) (lenAt lenAt' : Nat → Option (Nat × Nat))
    (nf a z k : Nat) (hl : lenAt' z = lenAt z) (hf : ∀ p, p < z → fldAt' p = fldAt p) :
    readEntry fldAt' lenAt' nf a z k = readEntry fldAt lenAt nf a z k := by
  unfold readEntry
  by_cases h1 : nf = 1
  · simp [h1]
  · simp only [h1, if_false]
    rw [hl]
    cases lenAt z with
    | none => rfl
    | some p =>
      obtain ⟨bl, ul⟩ := p
      simp only
      by_cases hg : ul = 0 ∨ z - a ≤ bl + ul
      · rw [if_pos hg, if_pos hg]
      · rw [if_neg hg, if_neg hg]
        rw [hf (a + (z - a - bl - ul)) (by omega)]

theorem EntryRead.ext {nf : Nat} {w w' : W} {sid : Nat} {flds : List Nat} {a z : Nat}
    (h : EntryRead nf w sid flds a z) (hz : z ≤ w.size) (hx : Ext w w')
    (ht : ∀ k, w'.truth sid k = w.truth sid k) : EntryRead nf w' sid flds a z := by
  intro k hk
  rw [readEntry_congr w.fldAt w'.fldAt w.lenAt w'.lenAt nf a z k (hx.lenAt z hz)
    (fun p hp => hx.fldAt p (by omega)), ht k]
  exact h k hk

theorem TruthOK.ext {nf : Nat} {w w' : W} {sid : Nat} {flds : List Nat}
    (h : TruthOK nf w sid flds) (ht : ∀ k, w'.truth sid k = w.truth sid k) : TruthOK nf w' sid flds := by
  intro k hk
  rw [ht k]
  exact h k hk

/-- the bucket `[bs, be)` is closed and holds the series as its `j`-th entry: either the bucket is
empty (a one-field metric, no data bytes: `flushLevel2SeriesBucket` wrote no footer and `Load` skips
it), or the position word, the low-key offsets and the entry are where `metricLoader.Load` looks. -/
def BucketRead (nf : Nat) (w : W) (bs be : Nat) (sid : Nat) (flds : List Nat) (j : Nat) : Prop :=
  (be - bs ≤ 4 ∧ sumL flds = 0) ∨
  (4 < be - bs ∧ ∃ pos lows es ee, w.posAt be = some pos ∧ pos + 4 < be - bs ∧
     w.lowAt (bs + pos) = some lows ∧ getBlock lows j pos = some (es, ee) ∧ ee ≤ pos ∧
     EntryRead nf w sid flds (bs + es) (bs + ee))

theorem BucketRead.ext {nf : Nat} {w w' : W} {bs be sid : Nat} {flds : List Nat} {j : Nat}
    (h : BucketRead nf w bs be sid flds j) (hbe : be ≤ w.size) (hx : Ext w w')
    (ht : ∀ k, w'.truth sid k = w.truth sid k) : BucketRead nf w' bs be sid flds j := by
  rcases h with h | ⟨h4, pos, lows, es, ee, h1, h2, h3, h5, h6, h7⟩
  · exact Or.inl h
  · refine Or.inr ⟨h4, pos, lows, es, ee, ?_, h2, ?_, h5, h6, ?_⟩
    · rw [hx.posAt be hbe]; exact h1
    · rw [hx.lowAt (bs + pos) (by omega)]; exact h3
    · exact h7.ext (by omega) hx ht

theorem getBlock_some_some (offs : List Nat) (i m bs be : Nat) (h1 : offs[i]? = some bs)
    (h2 : offs[i + 1]? = some be) (h3 : bs ≤ be) (h4 : be ≤ m) : getBlock offs i m = some (bs, be) := by
  unfold getBlock
  rw [h1, h2]
  simp only
  rw [if_neg (by omega)]

theorem getBlock_some_none (offs : List Nat) (i m bs : Nat) (h1 : offs[i]? = some bs)
    (h2 : offs[i + 1]? = none) (h3 : bs ≤ m) : getBlock offs i m = some (bs, m) := by
  unfold getBlock
  rw [h1, h2]
  simp only
  rw [if_neg (by omega)]

/-- `metricReader.Load` + `metricLoader.Load` + `readSeriesData` along a certificate. -/
theorem readField_of_bucket (nf : Nat) (w : W) (m sid k i bs be : Nat) (flds : List Nat)
    (hc : w.ids.contains sid = true) (hi : containerIdx w.ids (sid / 65536) = some i)
    (hg : getBlock w.highOffs i m = some (bs, be))
    (hb : BucketRead nf w bs be sid flds (entryIdx w.ids sid)) (hk : k < nf) :
    readField ⟨w, m, nf⟩ sid k = w.truth sid k ∨ (readField ⟨w, m, nf⟩ sid k = none ∧ sumL flds = 0) := by
  unfold readField
  simp only [hc, Bool.not_true, hi, hg]
  rcases hb with ⟨h1, h2⟩ | ⟨h4, pos, lows, es, ee, h1, h2, h3, h5, _, h7⟩
  · right
    simp [h1, h2]
  · have n4 : ¬ be - bs ≤ 4 := by omega
    have n5 : ¬ be - bs ≤ pos + 4 := by omega
    simp only [Bool.false_eq_true, if_false, n4, h1, n5, h3, h5]
    rw [h7 k hk]
    by_cases hz : nf ≠ 1 ∧ sumL flds = 0
    · right; simp [hz]
    · left; simp [hz]

/-- read certificate of a series in a bucket closed by a LATER high key. -/
def ClosedCert (nf : Nat) (w : W) (sid : Nat) (flds : List Nat) : Prop :=
  ∃ i bs be, containerIdx w.ids (sid / 65536) = some i ∧
    w.highOffs[i]? = some bs ∧ w.highOffs[i + 1]? = some be ∧ bs ≤ be ∧ be ≤ w.size ∧
    BucketRead nf w bs be sid flds (entryIdx w.ids sid)

/-! ### the writer's invariant between `enterBucket` and `writeEntry` -/

structure J (e : Enc) (nf : Nat) (w : W) (cks : List Nat) (closed opn : List Ser) : Prop where
  rebased : w.l4 = w.size ∧ w.fOffs = []
  ids : w.ids = (closed ++ opn).map Prod.fst
  keys : highKeys w.ids = if opn = [] then cks else cks ++ [w.highKey]
  cksLt : ∀ k, k ∈ cks → k < w.highKey
  hoLen : w.highOffs.length = cks.length + 1
  hoLast : w.highOffs[cks.length]? = some w.l3
  lowOffs : w.lowOffs = prefixSums 0 (lens e nf opn)
  size : w.size = w.l3 + sumL (lens e nf opn)
  opnKey : ∀ s, s ∈ opn → s.1 / 65536 = w.highKey
  closedKey : ∀ s, s ∈ closed → s.1 / 65536 < w.highKey ∧ s.1 / 65536 ∈ cks
  rank : ∀ j s, opn[j]? = some s → entryIdx w.ids s.1 = j
  truth : ∀ s, s ∈ closed ++ opn → TruthOK nf w s.1 s.2
  closedOK : ∀ s, s ∈ closed → ClosedCert nf w s.1 s.2
  opnOK : ∀ j s, opn[j]? = some s →
    EntryRead nf w s.1 s.2 (w.l3 + sumL ((lens e nf opn).take j))
      (w.l3 + sumL ((lens e nf opn).take j) + entryLen e nf s.2)

theorem sumL_take_getElem?_le : ∀ (xs : List Nat) (j v : Nat), xs[j]? = some v →
    sumL (xs.take j) + v ≤ sumL xs
  | [], _, _, h => by simp at h
  | x :: xs, 0, v, h => by simp at h; subst h; simp [sumL]
  | x :: xs, j + 1, v, h => by
    have := sumL_take_getElem?_le xs j v (by simpa using h)
    simp [sumL]; omega

theorem lens_getElem? (e : Enc) (nf : Nat) (opn : List Ser) (j : Nat) (s : Ser) (h : opn[j]? = some s) :
    (lens e nf opn)[j]? = some (entryLen e nf s.2) := by
  simp [lens, List.getElem?_map, h]

theorem entryIdx_new (closed opn : List Ser) (x hk : Nat) (hx : x / 65536 = hk)
    (hc : ∀ s, s ∈ closed → s.1 / 65536 < hk) (ho : ∀ s, s ∈ opn → s.1 / 65536 = hk)
    (hlt : ∀ s, s ∈ closed ++ opn → s.1 < x) :
    entryIdx ((closed ++ opn).map Prod.fst ++ [x]) x = opn.length := by
  unfold entryIdx
  rw [List.map_append, List.filter_append, List.filter_append]
  have h1 : (closed.map Prod.fst).filter (fun y => decide (y / 65536 = x / 65536 ∧ y < x)) = [] := by
    rw [List.filter_eq_nil_iff]
    intro y hy
    obtain ⟨s, hs, rfl⟩ := List.mem_map.mp hy
    have := hc s hs
    simp; omega
  have h2 : (opn.map Prod.fst).filter (fun y => decide (y / 65536 = x / 65536 ∧ y < x)) = opn.map Prod.fst := by
    rw [List.filter_eq_self]
    intro y hy
    obtain ⟨s, hs, rfl⟩ := List.mem_map.mp hy
    have := ho s hs
    have := hlt s (List.mem_append_right _ hs)
    simp; omega
  rw [h1, h2]
  simp

/-- the second half of `FlushSeries` (low-key offset, field blocks, entry footer, series id, the
deferred re-base) keeps the invariant; the series joins the open bucket. -/
theorem step_write (e : Enc) (hu : ∀ n, 0 < e.uvarLen n) (nf : Nat) (hnf : 1 ≤ nf) (w : W)
    (cks : List Nat) (closed opn : List Ser) (hJ : J e nf w cks closed opn)
    (x : Nat) (flds : List Nat) (hlen : flds.length = nf) (hx : x / 65536 = w.highKey)
    (hlt : ∀ s, s ∈ closed ++ opn → s.1 < x) :
    J e nf { writeEntry e nf w x flds with l4 := (writeEntry e nf w x flds).size, fOffs := [] }
      cks closed (opn ++ [(x, flds)]) := by
  obtain ⟨z1, z2, z3, _, z5, z6, z7, _, _, z10, zx⟩ :=
    writeEntry_spec e hu nf w x flds hJ.rebased.1 hJ.rebased.2
  have hl : lens e nf (opn ++ [(x, flds)]) = lens e nf opn ++ [entryLen e nf flds] := by simp [lens]
  have hsz := hJ.size
  have hne : ∀ s, s ∈ closed ++ opn → s.1 ≠ x := fun s hs => by have := hlt s hs; omega
  refine ⟨⟨rfl, rfl⟩, ?_, ?_, ?_, ?_, ?_, ?_, ?_, ?_, ?_, ?_, ?_, ?_, ?_⟩
  · show (writeEntry e nf w x flds).ids = _
    rw [z7, hJ.ids]; simp
  · show highKeys (writeEntry e nf w x flds).ids = if opn ++ [(x, flds)] = [] then cks
      else cks ++ [(writeEntry e nf w x flds).highKey]
    rw [z7, z3, highKeys_append_one, hJ.keys, hx]
    by_cases ho : opn = []
    · have : ¬ cks.getLast? = some w.highKey := by
        intro h
        have := hJ.cksLt _ (List.mem_of_getLast? h)
        omega
      simp [ho, this]
    · simp [ho]
  · show ∀ k, k ∈ cks → k < (writeEntry e nf w x flds).highKey
    rw [z3]; exact hJ.cksLt
  · show (writeEntry e nf w x flds).highOffs.length = _
    rw [z5]; exact hJ.hoLen
  · show (writeEntry e nf w x flds).highOffs[cks.length]? = some (writeEntry e nf w x flds).l3
    rw [z5, z2]; exact hJ.hoLast
  · show (writeEntry e nf w x flds).lowOffs = _
    rw [z6, hJ.lowOffs, hl, prefixSums_append]
    simp only [prefixSums, Nat.zero_add]
    congr 2; omega
  · show (writeEntry e nf w x flds).size = (writeEntry e nf w x flds).l3 + _
    rw [z1, z2, hl, sumL_append]; simp [sumL]; omega
  · intro s hs
    show s.1 / 65536 = (writeEntry e nf w x flds).highKey
    rw [z3]
    rcases List.mem_append.mp hs with h | h
    · exact hJ.opnKey s h
    · simp at h; subst h; exact hx
  · intro s hs
    show s.1 / 65536 < (writeEntry e nf w x flds).highKey ∧ _
    rw [z3]; exact hJ.closedKey s hs
  · intro j s hj
    show entryIdx (writeEntry e nf w x flds).ids s.1 = j
    rw [z7]
    by_cases hjl : j < opn.length
    · rw [List.getElem?_append_left hjl] at hj
      have hm : s ∈ opn := List.mem_of_getElem? hj
      have := hlt s (List.mem_append_right _ hm)
      rw [entryIdx_append _ _ _ (by omega)]
      exact hJ.rank j s hj
    · rw [List.getElem?_append_right (by omega)] at hj
      have hj0 : j - opn.length = 0 := by
        cases hq : j - opn.length with
        | zero => rfl
        | succ n => rw [hq] at hj; simp at hj
      rw [hj0] at hj
      simp at hj; subst hj
      rw [hJ.ids, entryIdx_new closed opn x w.highKey hx (fun s hs => (hJ.closedKey s hs).1) hJ.opnKey hlt]
      omega
  · intro s hs
    rw [← List.append_assoc] at hs
    rcases List.mem_append.mp hs with h | h
    · exact (hJ.truth s h).ext (fun k => z10 s.1 k (hne s h))
    · simp at h; subst h
      intro k hk
      refine ⟨w.size, ?_⟩
      have := (entry_roundtrip e hu nf w x flds hlen hnf hJ.rebased.1 hJ.rebased.2 k hk).1
      show (writeEntry e nf w x flds).truth x k = _
      rw [this]
      have hkl : k < flds.length := by omega
      simp [List.getD_eq_getElem?_getD, hkl]
  · intro s hs
    obtain ⟨i, bs, be, c1, c2, c3, c4, c5, c6⟩ := hJ.closedOK s hs
    have hsx := hlt s (List.mem_append_left _ hs)
    refine ⟨i, bs, be, ?_, ?_, ?_, c4, ?_, ?_⟩
    · show containerIdx (writeEntry e nf w x flds).ids _ = _
      rw [z7, containerIdx_eq, highKeys_append_one]
      split
      · exact c1
      · rw [cidx_append_mem]
        · exact c1
        · rw [hJ.keys]
          have := (hJ.closedKey s hs).2
          split <;> simp [this]
    · show (writeEntry e nf w x flds).highOffs[i]? = _
      rw [z5]; exact c2
    · show (writeEntry e nf w x flds).highOffs[i + 1]? = _
      rw [z5]; exact c3
    · show be ≤ (writeEntry e nf w x flds).size
      rw [z1]; omega
    · show BucketRead nf _ bs be s.1 s.2 (entryIdx (writeEntry e nf w x flds).ids s.1)
      rw [z7, entryIdx_append _ _ _ (by omega)]
      have hx' : Ext w { writeEntry e nf w x flds with l4 := (writeEntry e nf w x flds).size, fOffs := [] } :=
        ⟨zx.size_le, zx.lowAt, zx.fldAt, zx.posAt, zx.lenAt⟩
      exact c6.ext c5 hx' (fun k => z10 s.1 k (by omega))
  · intro j s hj
    have hx' : Ext w { writeEntry e nf w x flds with l4 := (writeEntry e nf w x flds).size, fOffs := [] } :=
      ⟨zx.size_le, zx.lowAt, zx.fldAt, zx.posAt, zx.lenAt⟩
    show EntryRead nf _ s.1 s.2 ((writeEntry e nf w x flds).l3 + _) ((writeEntry e nf w x flds).l3 + _ + _)
    rw [z2, hl]
    by_cases hjl : j < opn.length
    · rw [List.getElem?_append_left hjl] at hj
      have hm : s ∈ opn := List.mem_of_getElem? hj
      have := hlt s (List.mem_append_right _ hm)
      rw [List.take_append_of_le_length (by simp [lens]; omega)]
      have hb := sumL_take_getElem?_le _ _ _ (lens_getElem? e nf opn j s hj)
      exact (hJ.opnOK j s hj).ext (by omega) hx' (fun k => z10 s.1 k (by omega))
    · rw [List.getElem?_append_right (by omega)] at hj
      have hj0 : j - opn.length = 0 := by
        cases hq : j - opn.length with
        | zero => rfl
        | succ n => rw [hq] at hj; simp at hj
      rw [hj0] at hj
      simp at hj; subst hj
      have hjl' : j = (lens e nf opn).length := by simp [lens]; omega
      rw [hjl', List.take_left']
      · intro k hk
        have ⟨t1, t2⟩ := entry_roundtrip e hu nf w x flds hlen hnf hJ.rebased.1 hJ.rebased.2 k hk
        show readEntry (writeEntry e nf w x flds).fldAt (writeEntry e nf w x flds).lenAt nf _ _ k =
          if nf ≠ 1 ∧ sumL flds = 0 then none else (writeEntry e nf w x flds).truth x k
        rw [t1, ← hsz, ← z1]
        exact t2
      · rfl

/-! ### closing a bucket -/

theorem flushBucket_frame (e : Enc) (w : W) :
    (flushBucket e w).l4 = w.l4 ∧ (flushBucket e w).l3 = w.l3 ∧ (flushBucket e w).highKey = w.highKey ∧
    (flushBucket e w).highSet = w.highSet ∧ (flushBucket e w).lowOffs = w.lowOffs ∧
    (flushBucket e w).highOffs = w.highOffs ∧ (flushBucket e w).fOffs = w.fOffs ∧
    (flushBucket e w).ids = w.ids ∧ (flushBucket e w).truth = w.truth ∧ Ext w (flushBucket e w) := by
  unfold flushBucket
  simp only
  split
  · exact ⟨rfl, rfl, rfl, rfl, rfl, rfl, rfl, rfl, rfl, Ext.refl w⟩
  · refine ⟨rfl, rfl, rfl, rfl, rfl, rfl, rfl, rfl, rfl, ?_⟩
    refine ⟨by simp only; omega, ?_, fun _ _ => rfl, ?_, fun _ _ => rfl⟩
    · intro p hp
      simp only [upd]
      rw [if_neg (by omega)]
    · intro p hp
      simp only [upd]
      rw [if_neg (by omega)]

/-- `flushLevel2SeriesBucket` on the open bucket: every entry of it becomes readable through the
position word and the low-key offsets (or the bucket is empty and is skipped). -/
theorem close_bucket (e : Enc) (ho : ∀ xs, xs ≠ [] → 0 < e.offLen xs) (nf : Nat) (w : W)
    (cks : List Nat) (closed opn : List Ser) (hJ : J e nf w cks closed opn) :
    w.l3 ≤ (flushBucket e w).size ∧
    ∀ j s, opn[j]? = some s → BucketRead nf (flushBucket e w) w.l3 (flushBucket e w).size s.1 s.2 j := by
  have hsz := hJ.size
  obtain ⟨_, _, _, _, _, _, _, _, ft, fx⟩ := flushBucket_frame e w
  refine ⟨by have := fx.size_le; omega, ?_⟩
  intro j s hj
  have hlj := lens_getElem? e nf opn j s hj
  have hb := sumL_take_getElem?_le _ _ _ hlj
  by_cases hp : w.size - w.l3 = 0
  · have hfb : flushBucket e w = w := by unfold flushBucket; simp [hp]
    rw [hfb]
    left
    refine ⟨by omega, ?_⟩
    have : sumL s.2 ≤ entryLen e nf s.2 := by unfold entryLen; omega
    omega
  · have hfb : flushBucket e w =
        { w with size := w.size + e.offLen w.lowOffs + 4, lowAt := upd w.lowAt w.size w.lowOffs,
                 posAt := upd w.posAt (w.size + e.offLen w.lowOffs + 4) (w.size - w.l3) } := by
      unfold flushBucket; simp [hp]
    have hjl : j < (lens e nf opn).length := by
      have := List.getElem?_eq_some_iff.mp hlj
      exact this.1
    have hlo : 0 < e.offLen w.lowOffs := by
      apply ho
      intro h
      have := congrArg List.length h
      rw [hJ.lowOffs, prefixSums_length] at this
      simp only [List.length_nil] at this; omega
    right
    refine ⟨by rw [hfb]; simp only; omega, w.size - w.l3, w.lowOffs, sumL ((lens e nf opn).take j),
      sumL ((lens e nf opn).take j) + entryLen e nf s.2, ?_, ?_, ?_, ?_, by omega, ?_⟩
    · rw [hfb]; simp [upd]
    · rw [hfb]; simp only; omega
    · rw [hfb]
      have : w.l3 + (w.size - w.l3) = w.size := by omega
      simp [upd, this]
    · rw [hJ.lowOffs]
      have : w.size - w.l3 = sumL (lens e nf opn) := by omega
      rw [this, getBlock_prefixSums _ j hjl]
      have hv := (List.getElem?_eq_some_iff.mp hlj).2
      rw [hv]
    · rw [← Nat.add_assoc]
      exact (hJ.opnOK j s hj).ext (by omega) fx (fun k => by rw [ft])

/-- the high-key branch of `FlushSeries`: the open bucket is closed, its series get certificates,
the new bucket starts empty at the writer's position. -/
theorem step_new (e : Enc) (ho : ∀ xs, xs ≠ [] → 0 < e.offLen xs) (nf : Nat) (w : W)
    (cks : List Nat) (closed opn : List Ser) (hJ : J e nf w cks closed opn) (hopn : opn ≠ [])
    (hk : Nat) (hlt : w.highKey < hk) :
    J e nf (newBucket ⟨true⟩ e w hk) (cks ++ [w.highKey]) (closed ++ opn) [] := by
  obtain ⟨f1, f2, f3, _, f5, f6, f7, f8, ft, fx⟩ := flushBucket_frame e w
  obtain ⟨cl3, cb⟩ := close_bucket e ho nf w cks closed opn hJ
  have hkeys : highKeys w.ids = cks ++ [w.highKey] := by rw [hJ.keys]; simp [hopn]
  have hnb : newBucket ⟨true⟩ e w hk =
      (let w1 := flushBucket e w
       { w1 with highKey := hk, lowOffs := [], l3 := w1.size, highOffs := w1.highOffs ++ [w1.size],
                 l4 := w1.size }) := by
    unfold newBucket; simp
  have hx' : Ext w (newBucket ⟨true⟩ e w hk) := by
    rw [hnb]; exact ⟨fx.size_le, fx.lowAt, fx.fldAt, fx.posAt, fx.lenAt⟩
  have hids : (newBucket ⟨true⟩ e w hk).ids = w.ids := by rw [hnb]; exact f8
  have htr : (newBucket ⟨true⟩ e w hk).truth = w.truth := by rw [hnb]; exact ft
  have hho : (newBucket ⟨true⟩ e w hk).highOffs = w.highOffs ++ [(flushBucket e w).size] := by
    rw [hnb]; show (flushBucket e w).highOffs ++ _ = _; rw [f6]
  have hsz : (newBucket ⟨true⟩ e w hk).size = (flushBucket e w).size := by rw [hnb]
  refine ⟨?_, ?_, ?_, ?_, ?_, ?_, ?_, ?_, ?_, ?_, ?_, ?_, ?_, ?_⟩
  · rw [hnb]; exact ⟨rfl, by show (flushBucket e w).fOffs = []; rw [f7]; exact hJ.rebased.2⟩
  · rw [hids, hJ.ids]; simp
  · rw [hids, hkeys]; simp
  · intro k hkm
    have : (newBucket ⟨true⟩ e w hk).highKey = hk := by rw [hnb]
    rw [this]
    rcases List.mem_append.mp hkm with h | h
    · have := hJ.cksLt k h; omega
    · simp at h; omega
  · rw [hho]; simp [hJ.hoLen]
  · rw [hho]
    have : (newBucket ⟨true⟩ e w hk).l3 = (flushBucket e w).size := by rw [hnb]
    rw [this, List.getElem?_append_right (by simp [hJ.hoLen])]
    simp [hJ.hoLen]
  · rw [hnb]; rfl
  · rw [hnb]; simp [lens, sumL]
  · intro s hs; simp at hs
  · intro s hs
    have : (newBucket ⟨true⟩ e w hk).highKey = hk := by rw [hnb]
    rw [this]
    rcases List.mem_append.mp hs with h | h
    · have := hJ.closedKey s h
      exact ⟨by omega, by simp [this.2]⟩
    · have := hJ.opnKey s h
      exact ⟨by omega, by simp [this]⟩
  · intro j s hj; simp at hj
  · intro s hs
    simp only [List.append_nil] at hs
    exact (hJ.truth s hs).ext (fun k => by rw [htr])
  · intro s hs
    rcases List.mem_append.mp hs with h | h
    · obtain ⟨i, bs, be, c1, c2, c3, c4, c5, c6⟩ := hJ.closedOK s h
      have hi : i + 1 < w.highOffs.length := (List.getElem?_eq_some_iff.mp c3).1
      refine ⟨i, bs, be, by rw [hids]; exact c1, ?_, ?_, c4, ?_, ?_⟩
      · rw [hho, List.getElem?_append_left (by omega)]; exact c2
      · rw [hho, List.getElem?_append_left hi]; exact c3
      · have := hx'.size_le; omega
      · rw [hids]; exact c6.ext c5 hx' (fun k => by rw [htr])
    · obtain ⟨j, hj⟩ := List.getElem?_of_mem h
      have hkey := hJ.opnKey s h
      have hnot : w.highKey ∉ cks := fun q => by have := hJ.cksLt _ q; omega
      refine ⟨cks.length, w.l3, (flushBucket e w).size, ?_, ?_, ?_, cl3, by rw [hsz]; exact Nat.le_refl _, ?_⟩
      · rw [hids, containerIdx_eq, hkeys, hkey]; exact cidx_last cks w.highKey hnot
      · rw [hho, List.getElem?_append_left (by rw [hJ.hoLen]; omega)]; exact hJ.hoLast
      · rw [hho, List.getElem?_append_right (by rw [hJ.hoLen]; omega)]; simp [hJ.hoLen]
      · rw [hids, hJ.rank j s hj]
        have hx2 : Ext (flushBucket e w) (newBucket ⟨true⟩ e w hk) := by
          rw [hnb]; exact ⟨Nat.le_refl _, fun _ _ => rfl, fun _ _ => rfl, fun _ _ => rfl, fun _ _ => rfl⟩
        exact (cb j s hj).ext (Nat.le_refl _) hx2 (fun k => by rw [htr, ft])
  · intro j s hj; simp at hj

/-! ### the whole block -/

/-- the writer right after `PrepareMetric`. -/
def Fresh (w : W) : Prop :=
  w.highSet = false ∧ w.size = 0 ∧ w.l3 = 0 ∧ w.l4 = 0 ∧ w.fOffs = [] ∧ w.ids = [] ∧ w.highOffs = [0] ∧
  w.lowOffs = []

/-- the writer between two calls of `FlushSeries`; `done` = the series with data flushed so far. -/
def Between (e : Enc) (nf : Nat) (w : W) (done : List Ser) : Prop :=
  (done = [] ∧ Fresh w) ∨
  (∃ cks closed opn, opn ≠ [] ∧ w.highSet = true ∧ closed ++ opn = done ∧ J e nf w cks closed opn)

theorem flushSeries_step (e : Enc) (hu : ∀ n, 0 < e.uvarLen n) (ho : ∀ xs, xs ≠ [] → 0 < e.offLen xs)
    (nf : Nat) (hnf : 1 ≤ nf) (w : W) (done : List Ser) (hB : Between e nf w done)
    (x : Nat) (flds : List Nat) (hlen : flds.length = nf) (hlt : ∀ s, s ∈ done → s.1 < x) :
    Between e nf (flushSeries ⟨true⟩ e nf w x flds) (done ++ [(x, flds)]) := by
  have hne : flds.isEmpty = false := by
    cases flds with
    | nil => simp at hlen; omega
    | cons _ _ => rfl
  have h2 : flushSeries ⟨true⟩ e nf w x flds =
      { writeEntry e nf (enterBucket ⟨true⟩ e w x) x flds with
        l4 := (writeEntry e nf (enterBucket ⟨true⟩ e w x) x flds).size, fOffs := [] } := by
    unfold flushSeries
    simp [hne]
  rw [h2]
  right
  rcases hB with ⟨hd, hs, h0, h3, h4, h5, h6, h7, h8⟩ | ⟨cks, closed, opn, hopn, hset, hdone, hJ⟩
  · -- the first series ever: the first bucket starts at 0
    have hen : enterBucket ⟨true⟩ e w x = { w with highSet := true, highKey := x / 65536 } := by
      unfold enterBucket; simp [hs]
    have hJ0 : J e nf (enterBucket ⟨true⟩ e w x) [] [] [] := by
      rw [hen]
      refine ⟨⟨by show w.l4 = w.size; omega, h5⟩, by simpa using h6, by show highKeys w.ids = _; rw [h6]; rfl,
        by simp, by show w.highOffs.length = _; rw [h7]; rfl, by show w.highOffs[0]? = some w.l3; rw [h7, h3]; rfl,
        by show w.lowOffs = _; rw [h8]; rfl, by show w.size = w.l3 + _; simp [lens, sumL]; omega,
        by simp, by simp, by simp, by simp, by simp, by simp⟩
    have hk0 : x / 65536 = (enterBucket ⟨true⟩ e w x).highKey := by rw [hen]
    have hJ1 := step_write e hu nf hnf _ [] [] [] hJ0 x flds hlen hk0 (by simp)
    refine ⟨[], [], [(x, flds)], by simp, ?_, by simp [hd], by simpa using hJ1⟩
    have z4 := (writeEntry_spec e hu nf (enterBucket ⟨true⟩ e w x) x flds hJ0.rebased.1 hJ0.rebased.2).2.2.2.1
    show (writeEntry e nf (enterBucket ⟨true⟩ e w x) x flds).highSet = true
    rw [z4, hen]
  · by_cases hk : x / 65536 = w.highKey
    · have hen : enterBucket ⟨true⟩ e w x = w := by
        unfold enterBucket; simp [hset, hk]
      rw [hen]
      have hJ1 := step_write e hu nf hnf w cks closed opn hJ x flds hlen hk (by rw [hdone]; exact hlt)
      refine ⟨cks, closed, opn ++ [(x, flds)], by simp, ?_, by rw [← hdone]; simp, hJ1⟩
      have z4 := (writeEntry_spec e hu nf w x flds hJ.rebased.1 hJ.rebased.2).2.2.2.1
      show (writeEntry e nf w x flds).highSet = true
      rw [z4, hset]
    · have hen : enterBucket ⟨true⟩ e w x = newBucket ⟨true⟩ e w (x / 65536) := by
        unfold enterBucket; simp [hset, hk]
      rw [hen]
      have hlt' : w.highKey < x / 65536 := by
        obtain ⟨s, hs⟩ := List.exists_mem_of_ne_nil opn hopn
        have h1 := hJ.opnKey s hs
        have h2 := hlt s (by rw [← hdone]; exact List.mem_append_right _ hs)
        have h3 : s.1 / 65536 ≤ x / 65536 := Nat.div_le_div_right (by omega)
        omega
      have hJn := step_new e ho nf w cks closed opn hJ hopn (x / 65536) hlt'
      have hkn : x / 65536 = (newBucket ⟨true⟩ e w (x / 65536)).highKey := by unfold newBucket; simp
      have hJ1 := step_write e hu nf hnf _ _ _ _ hJn x flds hlen hkn
        (by simp only [List.append_nil]; rw [hdone]; exact hlt)
      refine ⟨cks ++ [w.highKey], closed ++ opn, [(x, flds)], by simp, ?_, by rw [hdone], by simpa using hJ1⟩
      have z4 := (writeEntry_spec e hu nf _ x flds hJn.rebased.1 hJn.rebased.2).2.2.2.1
      show (writeEntry e nf (newBucket ⟨true⟩ e w (x / 65536)) x flds).highSet = true
      rw [z4]
      have f4 := (flushBucket_frame e w).2.2.2.1
      unfold newBucket
      simpa using (by rw [f4]; exact hset : (flushBucket e w).highSet = true)

/-- a series without any `FlushField` call (`!seriesHasData`): only the deferred re-base runs. -/
theorem flushSeries_nil (e : Enc) (nf : Nat) (w : W) (done : List Ser) (hB : Between e nf w done) (x : Nat) :
    flushSeries ⟨true⟩ e nf w x [] = w := by
  have h4 : w.l4 = w.size ∧ w.fOffs = [] := by
    rcases hB with ⟨_, _, h0, _, h4, h5, _⟩ | ⟨_, _, _, _, _, _, hJ⟩
    · exact ⟨by omega, h5⟩
    · exact hJ.rebased
  unfold flushSeries
  cases w
  simp_all

theorem fold_between (e : Enc) (hu : ∀ n, 0 < e.uvarLen n) (ho : ∀ xs, xs ≠ [] → 0 < e.offLen xs)
    (nf : Nat) (hnf : 1 ≤ nf) : ∀ (rest : List Ser) (w : W) (done : List Ser), Between e nf w done →
    (∀ s, s ∈ rest → s.2 = [] ∨ s.2.length = nf) →
    (∀ s, s ∈ done → ∀ t, t ∈ rest → s.1 < t.1) → rest.Pairwise (fun a b => a.1 < b.1) →
    Between e nf (rest.foldl (fun w s => flushSeries ⟨true⟩ e nf w s.1 s.2) w)
      (done ++ rest.filter (fun s => !s.2.isEmpty))
  | [], w, done, hB, _, _, _ => by simpa using hB
  | t :: rest, w, done, hB, hl, hd, hp => by
    have hp' := List.pairwise_cons.mp hp
    simp only [List.foldl_cons]
    rcases hl t (by simp) with h | h
    · rw [h, flushSeries_nil e nf w done hB]
      have : (t :: rest).filter (fun s => !s.2.isEmpty) = rest.filter (fun s => !s.2.isEmpty) := by
        simp [List.filter_cons, h]
      rw [this]
      exact fold_between e hu ho nf hnf rest w done hB (fun s hs => hl s (by simp [hs]))
        (fun s hs u hu' => hd s hs u (by simp [hu'])) hp'.2
    · have hne : t.2.isEmpty = false := by
        cases ht : t.2 with
        | nil => rw [ht] at h; simp at h; omega
        | cons _ _ => rfl
      have : (t :: rest).filter (fun s => !s.2.isEmpty) = t :: rest.filter (fun s => !s.2.isEmpty) := by
        simp [List.filter_cons, hne]
      rw [this]
      have hB1 := flushSeries_step e hu ho nf hnf w done hB t.1 t.2 h (fun s hs => hd s hs t (by simp))
      have := fold_between e hu ho nf hnf rest _ (done ++ [(t.1, t.2)]) hB1
        (fun s hs => hl s (by simp [hs]))
        (fun s hs u hu' => by
          rcases List.mem_append.mp hs with h1 | h1
          · exact hd s h1 u (by simp [hu'])
          · simp at h1; subst h1; exact hp'.1 u hu') hp'.2
      simpa using this

/-- WHOLE-BLOCK ROUND TRIP. -/
theorem block_roundtrip_core (e : Enc) (hu : ∀ n, 0 < e.uvarLen n) (ho : ∀ xs, xs ≠ [] → 0 < e.offLen xs)
    (nf : Nat) (hnf : 1 ≤ nf) (series : List Ser)
    (hasc : series.Pairwise (fun a b => a.1 < b.1))
    (hlen : ∀ s, s ∈ series → s.2 = [] ∨ s.2.length = nf)
    (s : Ser) (hs : s ∈ series) (hdata : s.2 ≠ []) (k : Nat) (hk : k < nf) :
    (∃ a, written (flushBlock ⟨true⟩ e nf series) s.1 k = some (a + sumL (s.2.take k), s.2.getD k 0)) ∧
    (readField (flushBlock ⟨true⟩ e nf series) s.1 k = written (flushBlock ⟨true⟩ e nf series) s.1 k ∨
     (readField (flushBlock ⟨true⟩ e nf series) s.1 k = none ∧ sumL s.2 = 0)) := by
  have hfresh : Between e nf prepare [] := Or.inl ⟨rfl, rfl, rfl, rfl, rfl, rfl, rfl, rfl, rfl⟩
  have hB := fold_between e hu ho nf hnf series prepare [] hfresh hlen (by simp) hasc
  simp only [List.nil_append] at hB
  have hsd : s ∈ series.filter (fun s => !s.2.isEmpty) := by
    rw [List.mem_filter]
    refine ⟨hs, ?_⟩
    cases h : s.2 with
    | nil => exact absurd h hdata
    | cons _ _ => rfl
  generalize hwn : series.foldl (fun w s => flushSeries ⟨true⟩ e nf w s.1 s.2) prepare = wn at hB
  have hfb : flushBlock ⟨true⟩ e nf series = ⟨flushBucket e wn, (flushBucket e wn).size, nf⟩ := by
    unfold flushBlock; simp [hwn]
  rw [hfb]
  rcases hB with ⟨hd, _⟩ | ⟨cks, closed, opn, hopn, _, hdone, hJ⟩
  · rw [hd] at hsd; simp at hsd
  · obtain ⟨_, _, _, _, _, f6, _, f8, ft, fx⟩ := flushBucket_frame e wn
    obtain ⟨cl3, cb⟩ := close_bucket e ho nf wn cks closed opn hJ
    rw [← hdone] at hsd
    have hkeys : highKeys wn.ids = cks ++ [wn.highKey] := by rw [hJ.keys]; simp [hopn]
    have hcont : (flushBucket e wn).ids.contains s.1 = true := by
      rw [f8, hJ.ids]
      simp only [List.contains_iff_mem, List.mem_map]
      exact ⟨s, hsd, rfl⟩
    refine ⟨?_, ?_⟩
    · show ∃ a, (flushBucket e wn).truth s.1 k = _
      rw [ft]
      exact hJ.truth s hsd k hk
    · show readField ⟨flushBucket e wn, (flushBucket e wn).size, nf⟩ s.1 k = (flushBucket e wn).truth s.1 k ∨ _
      rcases List.mem_append.mp hsd with h | h
      · obtain ⟨i, bs, be, c1, c2, c3, c4, c5, c6⟩ := hJ.closedOK s h
        have hbe : be ≤ (flushBucket e wn).size := by have := fx.size_le; omega
        exact readField_of_bucket nf (flushBucket e wn) _ s.1 k i bs be s.2 hcont (by rw [f8]; exact c1)
          (getBlock_some_some _ i _ bs be (by rw [f6]; exact c2) (by rw [f6]; exact c3) c4 hbe)
          (by rw [f8]; exact c6.ext c5 fx (fun k => by rw [ft])) hk
      · obtain ⟨j, hj⟩ := List.getElem?_of_mem h
        have hkey := hJ.opnKey s h
        have hnot : wn.highKey ∉ cks := fun q => by have := hJ.cksLt _ q; omega
        exact readField_of_bucket nf (flushBucket e wn) _ s.1 k cks.length wn.l3 (flushBucket e wn).size s.2 hcont
          (by rw [f8, containerIdx_eq, hkeys, hkey]; exact cidx_last cks wn.highKey hnot)
          (getBlock_some_none _ _ _ wn.l3 (by rw [f6]; exact hJ.hoLast)
            (by rw [f6]; exact List.getElem?_eq_none (by rw [hJ.hoLen]; omega)) cl3)
          (by rw [f8, hJ.rank j s hj]; exact cb j s hj) hk

end LinVerif.Lemmas.C11BlockRT
