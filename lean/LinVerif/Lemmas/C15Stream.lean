/-
C15 — the StreamWriter protocol as a state machine over single builder operations
(`Add`, `StreamWriter()`, `Prepare`, `Write`, `Commit`), refined by the builder model.

The specification side (`Spec`) is what a caller may think of: a list of entries kept so far and —
while an ACCEPTED key is prepared — that key with the bytes streamed for it so far. A `Prepare` of a
key that is not above the last kept key opens nothing: the stream writer stays closed and every
`Write`/`Commit` until the next `Prepare` is a no-op (this is what `sw.badKey` implements, and what
seeded change c15-21 broke). `Write`/`Commit` with no stream open (before any `Prepare`, after a
`Commit`, a second `Commit`) are no-ops as well. The only sequences excluded are the ones the
interface forbids: `Add`, `Prepare` or `StreamWriter()` while an accepted key is still open
(`Neg.abandoned_stream_write_leaks`, `Neg.commit_after_interleaved_add_panics`).
-/
import LinVerif.Lemmas.C15Table

namespace LinVerif.Table

variable {B : Type}

/-- protocol phase: no stream open, or an accepted key with the bytes streamed so far -/
inductive Phase where
  | idle
  | streaming (key : Nat) (bytes : Bytes)
deriving Repr, DecidableEq

structure Spec where
  es : List (Nat × Bytes) := []
  ph : Phase := .idle
deriving Repr, DecidableEq

/-- `ensureIncreasingKey` on the entries kept so far -/
def freshB (es : List (Nat × Bytes)) (k : Nat) : Bool :=
  match es.getLast? with
  | none => true
  | some l => decide (l.1 < k)

theorem freshB_iff (es : List (Nat × Bytes)) (k : Nat) : freshB es k = true ↔ Fresh es k := by
  unfold freshB Fresh
  cases h : es.getLast? with
  | none => simp
  | some l => simp

/-- one operation on the specification; `none` = outside the protocol -/
def Spec.step (s : Spec) (op : Op) : Option Spec :=
  match s.ph, op with
  | .idle, .add k v => some { s with es := acceptStep s.es (k, v) }
  | .idle, .newSW => some s
  | .idle, .prepare k => if freshB s.es k then some { s with ph := .streaming k [] } else some s
  | .idle, .write _ => some s
  | .idle, .commit => some s
  | .streaming k bs, .write d => some { s with ph := .streaming k (bs ++ d) }
  | .streaming k bs, .commit => some { es := s.es ++ [(k, bs)], ph := .idle }
  | .streaming _ _, _ => none

def Spec.run (s : Spec) : List Op → Option Spec
  | [] => some s
  | op :: ops =>
    match s.step op with
    | none => none
    | some s' => s'.run ops

theorem Spec.run_append (s : Spec) (l1 l2 : List Op) :
    s.run (l1 ++ l2) = (s.run l1).bind (fun s' => s'.run l2) := by
  induction l1 generalizing s with
  | nil => rfl
  | cons op t ih =>
    simp only [List.cons_append, Spec.run]
    cases s.step op with
    | none => rfl
    | some s' => exact ih s'

/-- the refinement relation between the builder and the specification -/
def Refines (K : KeySetOps B) (b : Builder B) (s : Spec) : Prop :=
  match s.ph with
  | .idle => Inv K b s.es
  | .streaming k bs =>
    Pre K b s.es bs ∧ b.sw.badKey = false ∧ b.sw.key = k ∧
      b.sw.offset = (s.es.map (·.2)).flatten.length ∧ Fresh s.es k

theorem refines_init (K : KeySetOps B) (hK : K.Lawful) : Refines K (Builder.init K) {} :=
  inv_init K hK

private theorem pre_sw {K : KeySetOps B} {b : Builder B} {es : List (Nat × Bytes)} {extra : Bytes}
    (h : Pre K b es extra) (sw : SW) : Pre K { b with sw := sw } es extra :=
  ⟨h.written, h.size, h.offset, h.keys, h.asc, h.first, h.minKey, h.maxKey, h.keysVal⟩

/-- **one step.** Every operation the protocol allows is executed by the builder without a panic and
keeps the refinement. -/
theorem refines_step {K : KeySetOps B} (hK : K.Lawful) {b : Builder B} {s s' : Spec} (op : Op)
    (h : Refines K b s) (hs : s.step op = some s') :
    ∃ b', b.step K op = some b' ∧ Refines K b' s' := by
  obtain ⟨es, ph⟩ := s
  cases ph with
  | idle =>
    have hinv : Inv K b es := h
    cases op with
    | add k v =>
      simp only [Spec.step, Option.some.injEq] at hs; subst hs
      obtain ⟨b', h1, h2⟩ := add_inv hK hinv k v
      exact ⟨b', h1, h2⟩
    | newSW =>
      simp only [Spec.step, Option.some.injEq] at hs; subst hs
      exact ⟨b.newSW, rfl, ⟨pre_sw hinv.pre {}, rfl⟩⟩
    | prepare k =>
      simp only [Spec.step] at hs
      refine ⟨b.prepare k, rfl, ?_⟩
      by_cases hf : freshB es k = true
      · rw [if_pos hf] at hs
        simp only [Option.some.injEq] at hs; subst hs
        have hF := (freshB_iff es k).mp hf
        have he : b.ensureIncreasingKey k = true := (ensure_iff hinv.pre k).mpr hF
        have hsz : b.size = (es.map (·.2)).flatten.length := by
          rw [hinv.pre.size, hinv.pre.written]; simp
        exact ⟨pre_sw hinv.pre _, by simp [Builder.prepare, he], rfl, hsz, hF⟩
      · rw [if_neg hf] at hs
        simp only [Option.some.injEq] at hs; subst hs
        have hF : ¬ Fresh es k := fun c => hf ((freshB_iff es k).mpr c)
        have he : b.ensureIncreasingKey k = false := by
          cases hb : b.ensureIncreasingKey k with
          | false => rfl
          | true => exact absurd ((ensure_iff hinv.pre k).mp hb) hF
        exact ⟨pre_sw hinv.pre _, by simp [Builder.prepare, he]⟩
    | write d =>
      simp only [Spec.step, Option.some.injEq] at hs; subst hs
      refine ⟨b, ?_, hinv⟩
      simp [Builder.step, Builder.swWrite, hinv.closedSW]
    | commit =>
      simp only [Spec.step, Option.some.injEq] at hs; subst hs
      refine ⟨b, ?_, hinv⟩
      simp [Builder.step, Builder.commit, hinv.closedSW]
  | streaming k bs =>
    obtain ⟨hp, hb, hk, ho, hF⟩ := h
    cases op with
    | add k' v => simp [Spec.step] at hs
    | newSW => simp [Spec.step] at hs
    | prepare k' => simp [Spec.step] at hs
    | write d =>
      simp only [Spec.step, Option.some.injEq] at hs; subst hs
      have hw := write_pre hp d
      refine ⟨_, by simp only [Builder.step, Builder.swWrite, hb, Bool.false_eq_true, if_false]; rfl, ?_⟩
      exact ⟨pre_sw hw _, hb, hk, ho, hF⟩
    | commit =>
      simp only [Spec.step, Option.some.injEq] at hs; subst hs
      obtain ⟨b3, h6, h7, h8⟩ := afterWrite_pre hK hp k hF
      refine ⟨{ b3 with sw := { b3.sw with badKey := true } }, ?_, ?_⟩
      · simp only [Builder.step, Builder.commit, hb, Bool.false_eq_true, if_false, hk, ho, h6]
      · exact ⟨pre_sw h7 _, rfl⟩

/-- **any operation sequence inside the protocol** is executed without a panic and ends in a
builder state that refines the specification's state -/
theorem refines_run {K : KeySetOps B} (hK : K.Lawful) : ∀ (ops : List Op) {b : Builder B} {s s' : Spec},
    Refines K b s → s.run ops = some s' →
    ∃ b', Builder.run K b ops = some b' ∧ Refines K b' s' := by
  intro ops
  induction ops with
  | nil =>
    intro b s s' h hs
    simp only [Spec.run, Option.some.injEq] at hs; subst hs
    exact ⟨b, rfl, h⟩
  | cons op t ih =>
    intro b s s' h hs
    simp only [Spec.run] at hs
    cases h1 : s.step op with
    | none => rw [h1] at hs; simp at hs
    | some s1 =>
      rw [h1] at hs
      obtain ⟨b1, h2, h3⟩ := refines_step hK op h h1
      obtain ⟨b2, h4, h5⟩ := ih h3 hs
      exact ⟨b2, by simp only [Builder.run, h2]; exact h4, h5⟩

/-- the kept entries only grow: a later operation never touches an entry already kept -/
theorem Spec.step_prefix {s s' : Spec} {op : Op} (h : s.step op = some s') : s.es <+: s'.es := by
  obtain ⟨es, ph⟩ := s
  cases ph with
  | idle =>
    cases op with
    | add k v =>
      simp only [Spec.step, Option.some.injEq] at h; subst h
      simp only [acceptStep]
      cases es.getLast? with
      | none => exact List.prefix_append _ _
      | some l =>
        simp only
        split
        · exact List.prefix_refl _
        · exact List.prefix_append _ _
    | newSW => simp only [Spec.step, Option.some.injEq] at h; subst h; exact List.prefix_refl _
    | prepare k =>
      simp only [Spec.step] at h
      split at h <;> (simp only [Option.some.injEq] at h; subst h; exact List.prefix_refl _)
    | write d => simp only [Spec.step, Option.some.injEq] at h; subst h; exact List.prefix_refl _
    | commit => simp only [Spec.step, Option.some.injEq] at h; subst h; exact List.prefix_refl _
  | streaming k bs =>
    cases op with
    | add k' v => simp [Spec.step] at h
    | newSW => simp [Spec.step] at h
    | prepare k' => simp [Spec.step] at h
    | write d => simp only [Spec.step, Option.some.injEq] at h; subst h; exact List.prefix_refl _
    | commit => simp only [Spec.step, Option.some.injEq] at h; subst h; exact List.prefix_append _ _

theorem Spec.run_prefix : ∀ (ops : List Op) {s s' : Spec}, s.run ops = some s' → s.es <+: s'.es := by
  intro ops
  induction ops with
  | nil => intro s s' h; simp only [Spec.run, Option.some.injEq] at h; subst h; exact List.prefix_refl _
  | cons op t ih =>
    intro s s' h
    simp only [Spec.run] at h
    cases h1 : s.step op with
    | none => rw [h1] at h; simp at h
    | some s1 =>
      rw [h1] at h
      exact List.IsPrefix.trans (Spec.step_prefix h1) (ih h)

/-- writes while an accepted key is open pile up, in order -/
theorem Spec.run_writes (es : List (Nat × Bytes)) (k : Nat) : ∀ (ws : List Bytes) (bs : Bytes),
    Spec.run { es := es, ph := .streaming k bs } (ws.map Op.write) =
      some { es := es, ph := .streaming k (bs ++ ws.flatten) } := by
  intro ws
  induction ws with
  | nil => intro bs; simp [Spec.run]
  | cons d t ih =>
    intro bs
    simp only [List.map_cons, Spec.run, Spec.step, List.flatten_cons]
    rw [ih (bs ++ d), List.append_assoc]

/-- writes after a rejected `Prepare` (or with no stream open) change nothing -/
theorem Spec.run_writes_idle (es : List (Nat × Bytes)) : ∀ (ws : List Bytes),
    Spec.run { es := es, ph := .idle } (ws.map Op.write) = some { es := es, ph := .idle } := by
  intro ws
  induction ws with
  | nil => simp [Spec.run]
  | cons d t ih => simp only [List.map_cons, Spec.run, Spec.step]; exact ih

/-- `SizeOK` is what `close_open` needs of the builder's size -/
theorem inv_close_open {K : KeySetOps B} (hK : K.Lawful) {b : Builder B} {es : List (Nat × Bytes)}
    (hinv : Inv K b es) (hane : es ≠ []) (hkeys : ∀ e ∈ es, e.1 < 4294967296) (hsz : SizeOK es) :
    ∃ file r, b.close K = some file ∧ Reader.open K file = some r ∧ TableRepr K r es := by
  apply close_open hK hinv hane hkeys
  have h1 : b.size = (es.map (·.2)).flatten.length := by
    rw [hinv.pre.size, hinv.pre.written]; simp
  unfold SizeOK at hsz
  generalize hvs : startsFrom 0 (es.map (·.2)) = vs
  have hvl : vs.length = es.length := by
    rw [← hvs, startsFrom_length, List.length_map]
  have hvne : vs ≠ [] := by
    intro h0; rw [h0] at hvl
    exact hane (List.eq_nil_of_length_eq_zero hvl.symm)
  have hvlt : ∀ v ∈ vs, v < 4294967296 := by
    intro v hv; rw [← hvs] at hv
    have := (startsFrom_bounds _ 0 v hv).2
    omega
  have h2 := (marshal_length_bounds vs hvne hvlt).2
  rw [hinv.pre.offset, hvs]
  omega

end LinVerif.Table
