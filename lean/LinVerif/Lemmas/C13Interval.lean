/-
C13 — closed forms of the three interval calculators for timestamps `t ≥ 0` (UTC) and the
bucketing lemmas derived from them.
-/
import LinVerif.Model.Interval
import LinVerif.Lemmas.C13Calendar

namespace LinVerif.Lemmas.C13
open LinVerif.Calendar LinVerif.Interval

theorem oneHour_val : oneHour = 3600000 := by decide
theorem oneDay_val : oneDay = 86400000 := by decide

/-! ### month / year boundaries of a day number -/

/-- first day of the month containing day `z` -/
def monthStartDay (z : Int) : Int := daysFromCivil (civilFromDays z).1 (civilFromDays z).2.1 1

/-- first day of the month after the one containing day `z` -/
def nextMonthStartDay (z : Int) : Int :=
  daysFromCivil (nextMonth (civilFromDays z).1 (civilFromDays z).2.1).1
    (nextMonth (civilFromDays z).1 (civilFromDays z).2.1).2 1

/-- first day of the year containing day `z` -/
def yearStartDay (z : Int) : Int := daysFromCivil (civilFromDays z).1 1 1

theorem nextMonth_valid (y m : Int) (_h1 : 1 ≤ m) (_h2 : m ≤ 12) :
    1 ≤ (nextMonth y m).2 ∧ (nextMonth y m).2 ≤ 12 := by
  simp only [nextMonth, normMonth]; omega

theorem monthStartDay_le (z : Int) : monthStartDay z ≤ z ∧ z < nextMonthStartDay z := by
  obtain ⟨_, _, c3, c4, c5⟩ := civil_spec z
  have l := days_linear (civilFromDays z).1 (civilFromDays z).2.1 (civilFromDays z).2.2
  simp only [monthStartDay, nextMonthStartDay]
  omega

/-- the day of month of `z` counts from the month start -/
theorem monthStartDay_eq (z : Int) : monthStartDay z = z - ((civilFromDays z).2.2 - 1) := by
  obtain ⟨_, _, _, c4, _⟩ := civil_spec z
  have l := days_linear (civilFromDays z).1 (civilFromDays z).2.1 (civilFromDays z).2.2
  simp only [monthStartDay]; omega

/-- all days between the month start and the next month start have the same year and month -/
theorem same_month {z z' : Int} (h1 : monthStartDay z ≤ z') (h2 : z' < nextMonthStartDay z) :
    (civilFromDays z').1 = (civilFromDays z).1 ∧ (civilFromDays z').2.1 = (civilFromDays z).2.1 := by
  obtain ⟨a1, a2, _, _, _⟩ := civil_spec z
  obtain ⟨b1, b2, _, _, _⟩ := civil_spec z'
  have l := monthStartDay_le z'
  simp only [monthStartDay, nextMonthStartDay] at h1 h2 l
  exact month_unique _ _ _ _ z' b1 b2 a1 a2 l.1 l.2 h1 h2

theorem civil_monthStartDay (z : Int) :
    civilFromDays (monthStartDay z) = ((civilFromDays z).1, (civilFromDays z).2.1, 1) := by
  obtain ⟨a1, a2, _, _, _⟩ := civil_spec z
  have s := month_step (civilFromDays z).1 (civilFromDays z).2.1 a1 a2
  exact civil_of_days _ _ 1 a1 a2 (by omega) (by omega)

theorem civil_nextMonthStartDay (z : Int) :
    civilFromDays (nextMonthStartDay z) =
      ((nextMonth (civilFromDays z).1 (civilFromDays z).2.1).1,
       (nextMonth (civilFromDays z).1 (civilFromDays z).2.1).2, 1) := by
  obtain ⟨a1, a2, _, _, _⟩ := civil_spec z
  have v := nextMonth_valid (civilFromDays z).1 (civilFromDays z).2.1 a1 a2
  have s := month_step (nextMonth (civilFromDays z).1 (civilFromDays z).2.1).1
    (nextMonth (civilFromDays z).1 (civilFromDays z).2.1).2 v.1 v.2
  exact civil_of_days _ _ 1 v.1 v.2 (by omega) (by omega)

theorem civil_yearStartDay (z : Int) :
    civilFromDays (yearStartDay z) = ((civilFromDays z).1, 1, 1) := by
  have s := month_step (civilFromDays z).1 1 (by omega) (by omega)
  exact civil_of_days _ 1 1 (by omega) (by omega) (by omega) (by omega)

/-- January 1st is not after the first day of any month of the same year -/
theorem yearStart_le_monthStart (y m : Int) (h1 : 1 ≤ m) (h2 : m ≤ 12) :
    daysFromCivil y 1 1 ≤ daysFromCivil y m 1 := by
  simp only [daysFromCivil, eraDays, epochShift]
  interval_cases m <;> norm_num <;> omega

theorem yearStartDay_le (z : Int) : yearStartDay z ≤ monthStartDay z := by
  obtain ⟨a1, a2, _, _, _⟩ := civil_spec z
  exact yearStart_le_monthStart _ _ a1 a2

/-! ### milliseconds <-> days -/

theorem civilOfMs_nonneg {t : Int} (h : 0 ≤ t) : civilOfMs t = civilFromDays (t / 86400000) := by
  unfold civilOfMs
  rw [Int.tdiv_eq_ediv_of_nonneg h]
  congr 1; omega

/-- for a whole number of days no sign condition is needed (truncation is exact) -/
theorem civilOfMs_day (k : Int) : civilOfMs (k * 86400000) = civilFromDays k := by
  unfold civilOfMs
  have e : k * 86400000 = (k * 86400) * 1000 := by omega
  rw [e, Int.mul_tdiv_cancel _ (by decide)]
  congr 1; omega

theorem dateMs_valid (y m d : Int) (h1 : 1 ≤ m) (h2 : m ≤ 12) :
    dateMs y m d = daysFromCivil y m d * 86400000 := by
  have e1 : (m - 1) / 12 = 0 := by omega
  have e2 : (m - 1) % 12 + 1 = m := by omega
  simp only [dateMs, dateDays, normMonth, e1, e2, oneDay_val, Int.add_zero]

theorem dateMs_succ_month (y m : Int) :
    dateMs y (m + 1) 1 = daysFromCivil (nextMonth y m).1 (nextMonth y m).2 1 * 86400000 := by
  simp only [dateMs, dateDays, nextMonth, oneDay_val]

/-! ### closed forms of the calculators, `t ≥ 0` -/

theorem day_segment {t : Int} (h : 0 ≤ t) :
    calcSegmentTime .day t = t / 86400000 * 86400000 := by
  obtain ⟨a1, a2, _, a4, _⟩ := civil_spec (t / 86400000)
  simp only [calcSegmentTime, civilOfMs_nonneg h]
  rw [dateMs_valid _ _ _ a1 a2, a4]

theorem month_segment {t : Int} (h : 0 ≤ t) :
    calcSegmentTime .month t = monthStartDay (t / 86400000) * 86400000 := by
  obtain ⟨a1, a2, _, _, _⟩ := civil_spec (t / 86400000)
  simp only [calcSegmentTime, civilOfMs_nonneg h]
  rw [dateMs_valid _ _ _ a1 a2]; rfl

theorem year_segment {t : Int} (h : 0 ≤ t) :
    calcSegmentTime .year t = yearStartDay (t / 86400000) * 86400000 := by
  simp only [calcSegmentTime, civilOfMs_nonneg h]
  rw [dateMs_valid _ _ _ (by omega) (by omega)]; rfl

theorem day_familyTime {t : Int} (h : 0 ≤ t) :
    calcFamilyTime .day t = t / 3600000 * 3600000 := by
  simp only [calcFamilyTime, calcFamily, calcFamilyStartTime, day_segment h, oneHour_val]
  rw [Int.tdiv_eq_ediv_of_nonneg (by omega)]
  omega

theorem month_familyTime {t : Int} (h : 0 ≤ t) :
    calcFamilyTime .month t = t / 86400000 * 86400000 := by
  obtain ⟨a1, a2, _, a4, _⟩ := civil_spec (t / 86400000)
  simp only [calcFamilyTime, calcFamily, calcFamilyStartTime, month_segment h, civilOfMs_day,
    civil_monthStartDay, civilOfMs_nonneg h]
  rw [dateMs_valid _ _ _ a1 a2, a4]

theorem year_familyTime {t : Int} (h : 0 ≤ t) :
    calcFamilyTime .year t = monthStartDay (t / 86400000) * 86400000 := by
  obtain ⟨a1, a2, _, _, _⟩ := civil_spec (t / 86400000)
  simp only [calcFamilyTime, calcFamily, calcFamilyStartTime, year_segment h, civilOfMs_day,
    civil_yearStartDay, civilOfMs_nonneg h]
  rw [dateMs_valid _ _ _ a1 a2]; rfl

theorem month_familyEnd (z : Int) :
    calcFamilyEndTime .month (z * 86400000) = (z + 1) * 86400000 - 1 := by
  obtain ⟨a1, a2, _, a4, _⟩ := civil_spec z
  simp only [calcFamilyEndTime, civilOfMs_day]
  rw [dateMs_valid _ _ _ a1 a2]
  have l1 := days_linear (civilFromDays z).1 (civilFromDays z).2.1 ((civilFromDays z).2.2 + 1)
  have l2 := days_linear (civilFromDays z).1 (civilFromDays z).2.1 (civilFromDays z).2.2
  omega

theorem year_familyEnd (z : Int) :
    calcFamilyEndTime .year (monthStartDay z * 86400000) = nextMonthStartDay z * 86400000 - 1 := by
  simp only [calcFamilyEndTime, civilOfMs_day, civil_monthStartDay, dateMs_succ_month]
  rfl

/-! ### bucketing lemmas -/

theorem civil_epoch : civilFromDays 0 = (1970, 1, 1) := by decide

/-- the month containing a day on or after 1970-01-01 does not start before 1970-01-01 -/
theorem monthStartDay_nonneg {z : Int} (h : 0 ≤ z) : 0 ≤ monthStartDay z := by
  by_cases hc : 0 ≤ monthStartDay z
  · exact hc
  · exfalso
    have l := monthStartDay_le z
    have sm := same_month (z := z) (z' := 0) (by omega) (by omega)
    rw [civil_epoch] at sm
    have e : monthStartDay z = daysFromCivil 1970 1 1 := by
      simp only [monthStartDay, ← sm.1, ← sm.2]
    have e0 : daysFromCivil 1970 1 1 = 0 := by decide
    omega

theorem familyTime_nonneg (c : Calc) {t : Int} (h : 0 ≤ t) : 0 ≤ calcFamilyTime c t := by
  cases c
  · rw [day_familyTime h]; omega
  · rw [month_familyTime h]; omega
  · rw [year_familyTime h]
    have := monthStartDay_nonneg (z := t / 86400000) (by omega)
    omega

theorem family_contains (c : Calc) {t : Int} (h : 0 ≤ t) :
    calcFamilyTime c t ≤ t ∧ t ≤ calcFamilyEndTime c (calcFamilyTime c t) := by
  cases c
  · rw [day_familyTime h]; simp only [calcFamilyEndTime, oneHour_val]; omega
  · rw [month_familyTime h, month_familyEnd]; omega
  · rw [year_familyTime h, year_familyEnd]
    have l := monthStartDay_le (t / 86400000)
    omega

theorem family_idempotent (c : Calc) {t t' : Int} (h : 0 ≤ t)
    (h1 : calcFamilyTime c t ≤ t') (h2 : t' ≤ calcFamilyEndTime c (calcFamilyTime c t)) :
    calcFamilyTime c t' = calcFamilyTime c t := by
  have h' : 0 ≤ t' := Int.le_trans (familyTime_nonneg c h) h1
  cases c
  · rw [day_familyTime h] at h1 h2 ⊢; rw [day_familyTime h']
    simp only [calcFamilyEndTime, oneHour_val] at h2; omega
  · rw [month_familyTime h] at h1 h2 ⊢; rw [month_familyTime h']
    rw [month_familyEnd] at h2; omega
  · rw [year_familyTime h] at h1 h2 ⊢; rw [year_familyTime h']
    rw [year_familyEnd] at h2
    have sm := same_month (z := t / 86400000) (z' := t' / 86400000) (by omega) (by omega)
    simp only [monthStartDay, sm.1, sm.2]

theorem families_tile (c : Calc) {t : Int} (h : 0 ≤ t) :
    calcFamilyTime c (calcFamilyEndTime c (calcFamilyTime c t) + 1)
      = calcFamilyEndTime c (calcFamilyTime c t) + 1 := by
  have hc := family_contains c h
  have h' : 0 ≤ calcFamilyEndTime c (calcFamilyTime c t) + 1 := by omega
  cases c
  · rw [day_familyTime h'] ; rw [day_familyTime h]
    simp only [calcFamilyEndTime, oneHour_val]; omega
  · rw [month_familyTime h']; rw [month_familyTime h, month_familyEnd]; omega
  · rw [year_familyTime h']; rw [year_familyTime h, year_familyEnd]
    have e : (nextMonthStartDay (t / 86400000) * 86400000 - 1 + 1) / 86400000
        = nextMonthStartDay (t / 86400000) := by omega
    rw [e]
    have cn := civil_nextMonthStartDay (t / 86400000)
    simp only [monthStartDay, cn]
    simp only [nextMonthStartDay]; omega

theorem segment_le_family (c : Calc) {t : Int} (h : 0 ≤ t) :
    calcSegmentTime c t ≤ calcFamilyTime c t := by
  cases c
  · rw [day_familyTime h, day_segment h]; omega
  · rw [month_familyTime h, month_segment h]
    have l := monthStartDay_le (t / 86400000); omega
  · rw [year_familyTime h, year_segment h]
    have l := yearStartDay_le (t / 86400000); omega

theorem segment_const_on_family (c : Calc) {t t' : Int} (h : 0 ≤ t)
    (h1 : calcFamilyTime c t ≤ t') (h2 : t' ≤ calcFamilyEndTime c (calcFamilyTime c t)) :
    calcSegmentTime c t' = calcSegmentTime c t := by
  have h' : 0 ≤ t' := Int.le_trans (familyTime_nonneg c h) h1
  cases c
  · rw [day_familyTime h] at h1 h2; rw [day_segment h, day_segment h']
    simp only [calcFamilyEndTime, oneHour_val] at h2; omega
  · rw [month_familyTime h] at h1 h2; rw [month_segment h, month_segment h']
    rw [month_familyEnd] at h2
    have e : t' / 86400000 = t / 86400000 := by omega
    rw [e]
  · rw [year_familyTime h] at h1 h2; rw [year_segment h, year_segment h']
    rw [year_familyEnd] at h2
    have sm := same_month (z := t / 86400000) (z' := t' / 86400000) (by omega) (by omega)
    simp only [yearStartDay, sm.1]

/-- the remainder below a family start is smaller than the calculator's modulus, so the slot
formula is a plain quotient -/
theorem slot_bound (c : Calc) {t i : Int} (h : 0 ≤ t) (hi : 0 < i) :
    ∃ s, calcSlot c t (calcFamilyTime c t) i = some s ∧ 0 ≤ s ∧
      calcFamilyTime c t + s * i ≤ t ∧ t < calcFamilyTime c t + (s + 1) * i := by
  have hc := family_contains c h
  have hr : 0 ≤ t - calcFamilyTime c t := by omega
  have key : ∀ r : Int, 0 ≤ r → 0 ≤ r / i ∧ r / i * i ≤ r ∧ r < (r / i + 1) * i := fun r hr =>
    ⟨Int.ediv_nonneg hr (by omega), Int.ediv_mul_le r (by omega), Int.lt_ediv_add_one_mul_self r hi⟩
  have hne : i ≠ 0 := by omega
  cases c
  · refine ⟨(t - calcFamilyTime .day t) / i, ?_, ?_⟩
    · simp only [calcSlot, hne, if_false, oneHour_val]
      rw [Int.tmod_eq_emod_of_nonneg hr]
      have e : (t - calcFamilyTime .day t) % 3600000 = t - calcFamilyTime .day t := by
        rw [day_familyTime h]; omega
      rw [e, Int.tdiv_eq_ediv_of_nonneg hr]
    · have k := key _ hr; omega
  · refine ⟨(t - calcFamilyTime .month t) / i, ?_, ?_⟩
    · simp only [calcSlot, hne, if_false, oneDay_val]
      rw [Int.tmod_eq_emod_of_nonneg hr]
      have e : (t - calcFamilyTime .month t) % 86400000 = t - calcFamilyTime .month t := by
        rw [month_familyTime h]; omega
      rw [e, Int.tdiv_eq_ediv_of_nonneg hr]
    · have k := key _ hr; omega
  · refine ⟨(t - calcFamilyTime .year t) / i, ?_, ?_⟩
    · simp only [calcSlot, hne, if_false]
      rw [Int.tdiv_eq_ediv_of_nonneg hr]
    · have k := key _ hr; omega

end LinVerif.Lemmas.C13
