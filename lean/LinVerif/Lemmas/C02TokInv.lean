/-
C02, content level over all schedules: the invariant `TokInv` (on top of `Safe`) that gives
"the current version shows, for every key, exactly the tokens written by the flush commits whose
version swap is done" — for ANY merger satisfying `MergerOk`.
-/
import LinVerif.Lemmas.C02Tokens
import LinVerif.Lemmas.C02Safe3
set_option linter.unusedSimpArgs false
set_option linter.unusedVariables false

namespace LinVerif.Lemmas.C02
open LinVerif.VersionSet LinVerif.TableCache

/-- a compaction holds the family's `compacting` flag -/
def started : Pc → Bool
  | .start | .done => false
  | _ => true

/-- a compaction has picked its inputs and not yet replaced them -/
def preSwap : Pc → Bool
  | .picked | .reading | .merging | .allocd | .ready | .cLocked | .cSnapped => true
  | _ => false

/-- the output number is allocated and no version lists it yet -/
def outHidden : Pc → Bool
  | .allocd | .ready | .cLocked => true
  | _ => false

/-- a merging compaction's output content is fixed -/
def mergedRange : Pc → Bool
  | .allocd | .ready | .cLocked | .cSnapped => true
  | _ => false

structure JobTok (cfg : Cfg) (s : St) (b : Job) : Prop where
  excl : b.kind = .compact → started b.pc = true → s.compacting = true
  inputsIn : b.kind = .compact → preSwap b.pc = true →
    (∀ m ∈ b.inputs, m ∈ (s.ver s.cur).files) ∧ b.inputs.Nodup
  triv : b.kind = .compact → preSwap b.pc = true → b.trivial = true → ∃ m0, b.inputs = [m0]
  nontriv : b.kind = .compact → (b.pc = .reading ∨ b.pc = .merging ∨ b.pc = .allocd) → b.trivial = false
  allocKind : b.pc = .allocd → b.kind = .flush ∨ b.kind = .compact
  merged : b.kind = .compact → b.trivial = false → mergedRange b.pc = true →
    ∃ m, b.out = some m ∧ s.content m.no = cfg.merge (b.inputs.map (fun x => s.content x.no))
  shape : editRange b.pc = true →
    (b.kind = .flush → b.edit.dels = [] ∧ b.edit.adds = b.out.toList) ∧
    ((b.kind = .rollupDone ∨ b.kind = .rollupJob) → b.edit.dels = [] ∧ b.edit.adds = []) ∧
    (b.kind = .compact → b.edit.dels = b.inputs.map (fun m => (m.level, m.no)) ∧
      (b.trivial = true → b.edit.adds = b.inputs.map (fun m => { m with level := m.level + 1 })) ∧
      (b.trivial = false → b.edit.adds = b.out.toList)) ∧
    b.kind ≠ .delObs
  hidden : outHidden b.pc = true → ∀ f ∈ outNo b, ∀ v, f ∉ (s.ver v).nos
  hidden' : b.pc = .cSnapped → ∀ f ∈ outNo b, ∀ v, v ≠ b.newVer → f ∉ (s.ver v).nos

structure TokInv (cfg : Cfg) (s : St) : Prop where
  nodup : ∀ v, (s.ver v).nos.Nodup
  jobs : ∀ j, j < s.nJob → JobTok cfg s (s.job j)
  uniq : ∀ j k, j < s.nJob → k < s.nJob → (s.job j).kind = .compact → (s.job k).kind = .compact →
    started (s.job j).pc = true → started (s.job k).pc = true → j = k
  flushed_lt : ∀ f ∈ s.flushed, f < s.nextFile
  tokens : ∀ k, (vTokens (s.ver s.cur).files s.content k).Perm
    (s.flushed.flatMap (fun f => tokensAt (s.content f) k))

theorem tok_init (cfg : Cfg) (v0 f0 : Nat) : TokInv cfg (St.init v0 f0) := by
  constructor <;> simp [St.init, VData.nos, vTokens]

/-- uniqueness of the started compaction survives a change of job `j`'s record that does not
start a compaction -/
theorem uniq_update {s s' : St} (j : Nat)
    (t3 : ∀ j k, j < s.nJob → k < s.nJob → (s.job j).kind = .compact → (s.job k).kind = .compact →
      started (s.job j).pc = true → started (s.job k).pc = true → j = k)
    (hnj : s'.nJob = s.nJob) (hjob : ∀ k, k ≠ j → s'.job k = s.job k)
    (hu : (s'.job j).kind = .compact → started (s'.job j).pc = true →
      (s.job j).kind = .compact ∧ started (s.job j).pc = true) :
    ∀ a b, a < s'.nJob → b < s'.nJob → (s'.job a).kind = .compact → (s'.job b).kind = .compact →
      started (s'.job a).pc = true → started (s'.job b).pc = true → a = b := by
  intro a b ha hb hka hkb hsa hsb
  rw [hnj] at ha hb
  by_cases haj : a = j <;> by_cases hbj : b = j
  · rw [haj, hbj]
  · subst haj
    rw [hjob b hbj] at hkb hsb
    obtain ⟨h1, h2⟩ := hu hka hsa
    exact t3 a b ha hb h1 hkb h2 hsb
  · subst hbj
    rw [hjob a haj] at hka hsa
    obtain ⟨h1, h2⟩ := hu hkb hsb
    exact t3 a b ha hb hka h1 hsa h2
  · rw [hjob a haj] at hka hsa
    rw [hjob b hbj] at hkb hsb
    exact t3 a b ha hb hka hkb hsa hsb

theorem jobTok_congr {cfg : Cfg} {s s' : St} {b : Job} (hver : s'.ver = s.ver) (hcur : s'.cur = s.cur)
    (hcontent : s'.content = s.content) (hcomp : s'.compacting = s.compacting) (hb : JobTok cfg s b) :
    JobTok cfg s' b := by
  obtain ⟨x1, x2, x3, x4, x4', x5, x6, x7, x8⟩ := hb
  constructor <;> (try simp only [hver, hcur, hcontent, hcomp]) <;> assumption

/-- a step that leaves versions, contents, the flush record and the compacting flag alone and
changes at most job `j`'s record -/
theorem tok_update {cfg : Cfg} {s s' : St} (j : Nat) (ht : TokInv cfg s)
    (hver : s'.ver = s.ver) (hcur : s'.cur = s.cur) (hcontent : s'.content = s.content)
    (hfl : s'.flushed = s.flushed) (hnf : s.nextFile ≤ s'.nextFile) (hcomp : s'.compacting = s.compacting)
    (hnj : s'.nJob = s.nJob) (hjob : ∀ k, k ≠ j → s'.job k = s.job k)
    (hx : j < s.nJob → JobTok cfg s (s'.job j))
    (hu : (s'.job j).kind = .compact → started (s'.job j).pc = true →
      (s.job j).kind = .compact ∧ started (s.job j).pc = true) : TokInv cfg s' := by
  obtain ⟨t1, t2, t3, t4, t5⟩ := ht
  have hjt : ∀ b, JobTok cfg s b → JobTok cfg s' b := by
    intro b hb
    obtain ⟨x1, x2, x3, x4, x4', x5, x6, x7, x8⟩ := hb
    constructor <;> (try simp only [hver, hcur, hcontent, hcomp]) <;> assumption
  constructor
  · intro v; rw [hver]; exact t1 v
  · intro k hk
    rw [hnj] at hk
    by_cases hkj : k = j
    · subst hkj; exact hjt _ (hx hk)
    · rw [hjob k hkj]; exact hjt _ (t2 k hk)
  · intro a b ha hb hka hkb hsa hsb
    rw [hnj] at ha hb
    by_cases haj : a = j <;> by_cases hbj : b = j
    · rw [haj, hbj]
    · subst haj
      rw [hjob b hbj] at hkb hsb
      obtain ⟨h1, h2⟩ := hu hka hsa
      exact t3 a b ha hb h1 hkb h2 hsb
    · subst hbj
      rw [hjob a haj] at hka hsa
      obtain ⟨h1, h2⟩ := hu hkb hsb
      exact t3 a b ha hb hka h1 hsa h2
    · rw [hjob a haj] at hka hsa
      rw [hjob b hbj] at hkb hsb
      exact t3 a b ha hb hka hkb hsa hsb
  · intro f hf; rw [hfl] at hf; have := t4 f hf; omega
  · intro k; rw [hver, hcur, hcontent, hfl]; exact t5 k


theorem vTokens_congr {files : List FileMeta} {c c' : Nat → Content} (k : Nat)
    (h : ∀ m ∈ files, c' m.no = c m.no) : vTokens files c' k = vTokens files c k := by
  induction files with
  | nil => rfl
  | cons x xs ih =>
    simp only [vTokens, List.flatMap_cons] at ih ⊢
    rw [h x (by simp), ih (fun m hm => h m (by simp [hm]))]

theorem flatMap_congr' {l : List Nat} {f g : Nat → List Nat} (h : ∀ a ∈ l, f a = g a) :
    l.flatMap f = l.flatMap g := by
  induction l with
  | nil => rfl
  | cons x xs ih =>
    simp only [List.flatMap_cons]
    rw [h x (by simp), ih (fun a ha => h a (by simp [ha]))]

theorem map_content_congr {inputs : List FileMeta} {c c' : Nat → Content}
    (h : ∀ m ∈ inputs, c' m.no = c m.no) :
    inputs.map (fun x => c' x.no) = inputs.map (fun x => c x.no) := by
  apply List.map_congr_left
  intro m hm; exact h m hm

/-- `JobTok` of a job survives the allocation of a fresh table number by some job -/
theorem jobTok_alloc {cfg : Cfg} {s : St} {c : Content} {b : Job} (h : JobTok cfg s b)
    (hfb : ∀ v, ∀ f ∈ (s.ver v).nos, f < s.nextFile) (hout : ∀ f ∈ outNo b, f < s.nextFile) :
    JobTok cfg (allocFile s c) b := by
  obtain ⟨x1, x2, x3, x4, x4', x5, x6, x7, x8⟩ := h
  constructor
  case merged =>
    intro hk htr hp
    obtain ⟨m, hm, hc⟩ := x5 hk htr hp
    refine ⟨m, hm, ?_⟩
    have hpre : preSwap b.pc = true := by revert hp; cases b.pc <;> simp [mergedRange, preSwap]
    have hin := (x2 hk hpre).1
    have hmlt : m.no < s.nextFile := hout m.no (by simp [outNo, hm])
    have hinlt : ∀ x ∈ b.inputs, x.no < s.nextFile := fun x hx =>
      hfb _ _ (List.mem_map.mpr ⟨x, hin x hx, rfl⟩)
    simp only [allocFile]
    rw [upd_other _ _ _ _ (by omega), hc]
    congr 1
    apply List.map_congr_left
    intro x hx
    rw [upd_other _ _ _ _ (by have := hinlt x hx; omega)]
  all_goals (first | assumption | (simp only [allocFile] at *; assumption))


macro "jobtok_at" : tactic =>
  `(tactic| (constructor <;>
      simp only [started, preSwap, outHidden, mergedRange, editRange, compactOnly, preAlloc, outNo, Option.toList] at * <;>
      grind))

theorem tok_jAlloc {cfg : Cfg} {s : St} {j : Nat} (c : Content) (level : Nat) (hs : Safe s) (ht : TokInv cfg s)
    (hj : j < s.nJob)
    (hpc : ((s.job j).pc = .start ∧ (s.job j).kind = .flush) ∨
      ((s.job j).pc = .merging ∧ c = cfg.merge ((s.job j).inputs.map (fun m => s.content m.no)))) :
    TokInv cfg (jAlloc s j c level) := by
  obtain ⟨t1, t2, t3, t4, t5⟩ := ht
  have hfb := hs.file_bound.1
  have hkonly := (hs.jobs j hj).konly
  constructor
  · intro v; exact t1 v
  · intro k hk
    simp only [jAlloc, St.setJob, allocFile] at hk ⊢
    by_cases hkj : k = j
    · subst hkj
      simp only [upd_same]
      have hb : JobTok cfg (allocFile s c) (s.job k) := jobTok_alloc (c := c) (t2 k hk) hfb (hs.jobs k hk).outlt
      have x2' := (t2 k hk).inputsIn
      refine jobTok_congr (s := allocFile s c) rfl rfl rfl rfl ?_
      rcases hpc with ⟨hpc, hkind⟩ | ⟨hpc, hc⟩
      · obtain ⟨x1, x2, x3, x4, x4', x5, x6, x7, x8⟩ := hb
        have hfb' : ∀ v, s.nextFile ∉ (s.ver v).nos := fun v hm => by have := hfb v _ hm; omega
        generalize s.job k = b at *
        obtain ⟨kind, pc, payload, snap, inputs, trivial, todoIn, out, edit, csnap, newVer, prev, prevZero, nfRead, dlist, live, todoDel⟩ := b
        simp only at hpc hkind; subst hpc hkind
        constructor <;>
          simp only [allocFile, started, preSwap, outHidden, mergedRange, editRange, outNo] at * <;> grind
      · have hcomp : (s.job k).kind = .compact := hkonly (by rw [hpc]; rfl)
        have hin := (x2' hcomp (by rw [hpc]; rfl)).1
        have hmer : (upd s.content s.nextFile c) s.nextFile =
            cfg.merge ((s.job k).inputs.map (fun x => (upd s.content s.nextFile c) x.no)) := by
          rw [upd_same, hc]
          congr 1
          apply List.map_congr_left
          intro x hx
          have := hfb _ _ (List.mem_map.mpr ⟨x, hin x hx, rfl⟩)
          rw [upd_other _ _ _ _ (by omega)]
        obtain ⟨x1, x2, x3, x4, x4', x5, x6, x7, x8⟩ := hb
        have hfb' : ∀ v, s.nextFile ∉ (s.ver v).nos := fun v hm => by have := hfb v _ hm; omega
        generalize s.job k = b at *
        obtain ⟨kind, pc, payload, snap, inputs, trivial, todoIn, out, edit, csnap, newVer, prev, prevZero, nfRead, dlist, live, todoDel⟩ := b
        simp only at hpc hcomp; subst hpc hcomp
        constructor <;>
          simp only [allocFile, started, preSwap, outHidden, mergedRange, editRange, outNo] at * <;> grind
    · rw [upd_other _ _ _ _ hkj]
      exact jobTok_congr (s := allocFile s c) rfl rfl rfl rfl
        (jobTok_alloc (c := c) (t2 k hk) hfb (hs.jobs k hk).outlt)
  · intro a b ha hb
    simp only [jAlloc, St.setJob, allocFile, upd] at ha hb ⊢
    have := t3 a b ha hb
    rcases hpc with ⟨hpc, hkind⟩ | ⟨hpc, hc⟩ <;>
    · by_cases haj : a = j <;> by_cases hbj : b = j <;> simp_all [started] <;> grind
  · intro f hf
    simp only [jAlloc, St.setJob, allocFile] at hf ⊢
    have := t4 f hf; omega
  · intro k
    simp only [jAlloc, St.setJob, allocFile]
    have h1 : vTokens (s.ver s.cur).files (upd s.content s.nextFile c) k = vTokens (s.ver s.cur).files s.content k := by
      apply vTokens_congr
      intro m hm
      have := hfb _ _ (List.mem_map.mpr ⟨m, hm, rfl⟩)
      exact upd_other _ _ _ _ (by omega)
    have h2 : s.flushed.flatMap (fun f => tokensAt (upd s.content s.nextFile c f) k) =
        s.flushed.flatMap (fun f => tokensAt (s.content f) k) := by
      apply flatMap_congr'
      intro f hf
      have := t4 f hf
      rw [upd_other _ _ _ _ (by omega)]
    rw [h1, h2]; exact t5 k


theorem nodup_applyEdit {v : VData} {e : Edit} (hnd : v.nos.Nodup) (ha : (e.adds.map (·.no)).Nodup)
    (hd : ∀ m ∈ e.adds, ∀ x ∈ v.files, x.no = m.no → e.dels.contains (x.level, x.no) = true) :
    (applyEdit v e).nos.Nodup := by
  simp only [applyEdit, VData.nos, List.map_append]
  rw [List.nodup_append]
  refine ⟨?_, ha, ?_⟩
  · exact List.Nodup.sublist (List.Sublist.map _ List.filter_sublist) hnd
  · intro a ha' b hb' hab
    simp only [List.mem_map, List.mem_filter] at ha' hb'
    obtain ⟨x, ⟨hx, hkeep⟩, rfl⟩ := ha'
    obtain ⟨m, hm, rfl⟩ := hb'
    have := hd m hm x hx hab
    simp only [Bool.not_eq_true', Bool.not_eq_false] at hkeep
    rw [this] at hkeep; cases hkeep

/-- what version a job at `cLocked` builds keeps table numbers distinct and lists no other job's
hidden output -/
theorem built_version_props {cfg : Cfg} {s : St} {j : Nat} (hs : Safe s) (ht : TokInv cfg s) (hj : j < s.nJob)
    (hpc : (s.job j).pc = .cLocked) :
    (applyEdit (s.ver s.cur) (s.job j).edit).nos.Nodup ∧
    ∀ k, k < s.nJob → k ≠ j → outHidden (s.job k).pc = true → ∀ f ∈ outNo (s.job k),
      f ∉ (applyEdit (s.ver s.cur) (s.job j).edit).nos := by
  obtain ⟨t1, t2, t3, t4, t5⟩ := ht
  have hjt := t2 j hj
  have hshape := hjt.shape (by rw [hpc]; rfl)
  have hhid := hjt.hidden (by rw [hpc]; rfl)
  have hin := hjt.inputsIn
  have htriv := hjt.triv
  have hnd := t1 s.cur
  constructor
  · cases hk : (s.job j).kind with
    | flush =>
      obtain ⟨hd, ha⟩ := hshape.1 hk
      apply nodup_applyEdit hnd
      · rw [ha]; cases (s.job j).out <;> simp
      · intro m hm x hx hxm
        rw [ha] at hm
        exact absurd (List.mem_map.mpr ⟨x, hx, hxm⟩) (hhid m.no (by cases ho : (s.job j).out <;> simp_all [outNo]) s.cur)
    | rollupDone =>
      obtain ⟨hd, ha⟩ := hshape.2.1 (Or.inl hk)
      apply nodup_applyEdit hnd <;> simp [ha]
    | rollupJob =>
      obtain ⟨hd, ha⟩ := hshape.2.1 (Or.inr hk)
      apply nodup_applyEdit hnd <;> simp [ha]
    | delObs => exact absurd hk hshape.2.2.2
    | compact =>
      obtain ⟨hd, hat, haf⟩ := hshape.2.2.1 hk
      have hin' := hin hk (by rw [hpc]; rfl)
      cases htr : (s.job j).trivial with
      | true =>
        obtain ⟨m0, hm0⟩ := htriv hk (by rw [hpc]; rfl) htr
        have ha := hat htr
        apply nodup_applyEdit hnd
        · rw [ha, hm0]; simp
        · intro m hm x hx hxm
          rw [ha, hm0] at hm
          simp only [List.map_cons, List.map_nil, List.mem_singleton] at hm
          subst hm
          have hm0in : m0 ∈ (s.ver s.cur).files := hin'.1 m0 (by rw [hm0]; simp)
          have := eq_of_no_eq hnd hx hm0in hxm
          subst this
          rw [hd, hm0]; simp
      | false =>
        have ha := haf htr
        apply nodup_applyEdit hnd
        · rw [ha]; cases (s.job j).out <;> simp
        · intro m hm x hx hxm
          rw [ha] at hm
          exact absurd (List.mem_map.mpr ⟨x, hx, hxm⟩) (hhid m.no (by cases ho : (s.job j).out <;> simp_all [outNo]) s.cur)
  · intro k hk hkj hp f hf hmem
    have hkhid := (t2 k hk).hidden hp f hf
    rcases mem_nos_applyEdit hmem with h' | ⟨m, hm, rfl⟩
    · exact hkhid s.cur h'
    · -- m is one of j's additions: j's own output (distinct from k's) or a moved input (listed by cur)
      cases hkind : (s.job j).kind with
      | flush =>
        rw [(hshape.1 hkind).2] at hm
        have : m.no ∈ outNo (s.job j) := by cases ho : (s.job j).out <;> simp_all [outNo]
        exact hs.outs_distinct k j hk hj hkj m.no hf this
      | rollupDone => rw [(hshape.2.1 (Or.inl hkind)).2] at hm; cases hm
      | rollupJob => rw [(hshape.2.1 (Or.inr hkind)).2] at hm; cases hm
      | delObs => exact absurd hkind hshape.2.2.2
      | compact =>
        obtain ⟨hd, hat, haf⟩ := hshape.2.2.1 hkind
        cases htr : (s.job j).trivial with
        | true =>
          rw [hat htr] at hm
          simp only [List.mem_map] at hm
          obtain ⟨x, hx, rfl⟩ := hm
          have := (hin hkind (by rw [hpc]; rfl)).1 x hx
          exact hkhid s.cur (List.mem_map.mpr ⟨x, this, rfl⟩)
        | false =>
          rw [haf htr] at hm
          have : m.no ∈ outNo (s.job j) := by cases ho : (s.job j).out <;> simp_all [outNo]
          exact hs.outs_distinct k j hk hj hkj m.no hf this


theorem tok_jSnap {cfg : Cfg} {s : St} {j : Nat} (hs : Safe s) (ht : TokInv cfg s) (hj : j < s.nJob)
    (hpc : (s.job j).pc = .cLocked) : TokInv cfg (jSnap s j) := by
  obtain ⟨hbnd, hbhid⟩ := built_version_props hs ht hj hpc
  obtain ⟨t1, t2, t3, t4, t5⟩ := ht
  have hcur := hs.ver_bound.1
  have hlock := (hs.jobs j hj).lock (by rw [hpc]; rfl)
  have hne : ∀ v, v ≠ s.nextVer → upd s.ver s.nextVer (applyEdit (s.ver s.cur) (s.job j).edit) v = s.ver v :=
    fun v hv => upd_other _ _ _ _ hv
  have hcurne : s.cur ≠ s.nextVer := by omega
  -- JobTok of an unchanged record in the new state
  have hother : ∀ k, k < s.nJob → k ≠ j → JobTok cfg (jSnap s j) (s.job k) := by
    intro k hk hkj
    obtain ⟨x1, x2, x3, x4, x4', x5, x6, x7, x8⟩ := t2 k hk
    have hnotS : (s.job k).pc ≠ .cSnapped := by
      intro hc
      have := (hs.jobs k hk).lock (by rw [hc]; rfl)
      rw [hlock] at this
      exact hkj (by cases this; rfl)
    constructor
    case inputsIn =>
      intro a b
      simp only [jSnap, St.setJob, buildVersionAt, snapAcquire]
      rw [hne _ hcurne]; exact x2 a b
    case hidden =>
      intro hp f hf v
      simp only [jSnap, St.setJob, buildVersionAt, snapAcquire]
      by_cases hv : v = s.nextVer
      · subst hv; rw [upd_same]; exact hbhid k hk hkj hp f hf
      · rw [hne _ hv]; exact x7 hp f hf v
    case hidden' => intro hp; exact absurd hp hnotS
    all_goals (first | assumption | (simp only [jSnap, St.setJob, buildVersionAt, snapAcquire] at *; assumption))
  constructor
  · intro v
    simp only [jSnap, St.setJob, buildVersionAt, snapAcquire]
    by_cases hv : v = s.nextVer
    · subst hv; rw [upd_same]; exact hbnd
    · rw [hne _ hv]; exact t1 v
  · intro k hk
    have hk' : k < s.nJob := by simpa [jSnap, St.setJob, buildVersionAt, snapAcquire] using hk
    by_cases hkj : k = j
    · subst hkj
      have hjob : (jSnap s k).job k = { s.job k with csnap := s.nSnap, newVer := s.nextVer, prev := s.cur, pc := .cSnapped } := by
        simp [jSnap, St.setJob]
      rw [hjob]
      obtain ⟨x1, x2, x3, x4, x4', x5, x6, x7, x8⟩ := t2 k hk'
      have hx7 := x7 (by rw [hpc]; rfl)
      constructor
      case inputsIn =>
        intro a b
        simp only [jSnap, St.setJob, buildVersionAt, snapAcquire]
        rw [hne _ hcurne]; exact x2 a (by rw [hpc]; rfl)
      case hidden => intro hp; simp [outHidden] at hp
      case hidden' =>
        intro _ f hf v hv
        simp only [jSnap, St.setJob, buildVersionAt, snapAcquire]
        rw [hne _ hv]; exact hx7 f (by simpa [outNo] using hf) v
      case excl => intro a _; simpa [jSnap, St.setJob, buildVersionAt, snapAcquire] using x1 a (by rw [hpc]; rfl)
      case triv => intro a _ c; exact x3 a (by rw [hpc]; rfl) c
      case nontriv => intro _ hp; simp at hp
      case allocKind => intro hp; simp at hp
      case merged =>
        intro a b _
        simpa [jSnap, St.setJob, buildVersionAt, snapAcquire] using x5 a b (by rw [hpc]; rfl)
      case shape => intro _; exact x6 (by rw [hpc]; rfl)
    · have hjk : (jSnap s j).job k = s.job k := by simp [jSnap, St.setJob, upd, hkj, buildVersionAt, snapAcquire]
      rw [hjk]; exact hother k hk' hkj
  · apply uniq_update j t3 (by simp [jSnap, St.setJob, buildVersionAt, snapAcquire])
    · intro k hk; simp [jSnap, St.setJob, upd, hk, buildVersionAt, snapAcquire]
    · intro hk _
      have hk' : (s.job j).kind = .compact := by simpa [jSnap, St.setJob] using hk
      exact ⟨hk', by rw [hpc]; rfl⟩
  · intro f hf
    have : f ∈ s.flushed := by simpa [jSnap, St.setJob, buildVersionAt, snapAcquire] using hf
    have := t4 f this
    have hnfr := (hs.jobs j hj).nfread hpc
    simp only [jSnap, St.setJob, buildVersionAt, snapAcquire]; omega
  · intro k
    simp only [jSnap, St.setJob, buildVersionAt, snapAcquire]
    rw [hne _ hcurne]; exact t5 k


theorem applyEdit_files_congr (v : VData) {e e' : Edit} (hd : e.dels = e'.dels) (ha : e.adds = e'.adds) :
    (applyEdit v e).files = (applyEdit v e').files := by
  simp [applyEdit, hd, ha]

theorem tok_jSwap {cfg : Cfg} {s : St} {j : Nat} (hm : MergerOk cfg.merge) (hs : Safe s) (ht : TokInv cfg s)
    (hj : j < s.nJob) (hpc : (s.job j).pc = .cSnapped) : TokInv cfg (jSwap s j) := by
  obtain ⟨t1, t2, t3, t4, t5⟩ := ht
  have hjt := t2 j hj
  have hshape := hjt.shape (by rw [hpc]; rfl)
  have hbuilt := ((hs.jobs j hj).built hpc).2
  have hlock := (hs.jobs j hj).lock (by rw [hpc]; rfl)
  have hnd := t1 s.cur
  have hcur' : (jSwap s j).cur = (s.job j).newVer := rfl
  have hver' : (jSwap s j).ver = s.ver := rfl
  have hcontent' : (jSwap s j).content = s.content := rfl
  have hcomp' : (jSwap s j).compacting = s.compacting := rfl
  constructor
  · intro v; exact t1 v
  · intro k hk
    have hk' : k < s.nJob := hk
    by_cases hkj : k = j
    · subst hkj
      have hjob : (jSwap s k).job k = { s.job k with pc := .cSwapped } := by
        simp [jSwap, noteFlush, swapVersion, setPc, St.setJob]
      rw [hjob]
      obtain ⟨x1, x2, x3, x4, x4', x5, x6, x7, x8⟩ := hjt
      have x1' : (s.job k).kind = .compact → (jSwap s k).compacting = true := fun a => x1 a (by rw [hpc]; rfl)
      constructor <;> simp only [started, preSwap, mergedRange, editRange, outHidden] <;> grind
    · have hjk : (jSwap s j).job k = s.job k := by
        simp [jSwap, noteFlush, swapVersion, setPc, St.setJob, upd, hkj]
      rw [hjk]
      obtain ⟨x1, x2, x3, x4, x4', x5, x6, x7, x8⟩ := t2 k hk'
      have hnotS : (s.job k).pc ≠ .cSnapped := by
        intro hc
        have := (hs.jobs k hk').lock (by rw [hc]; rfl)
        rw [hlock] at this
        exact hkj (by cases this; rfl)
      constructor
      case inputsIn =>
        intro hkc hp
        obtain ⟨hin, hnodup⟩ := x2 hkc hp
        refine ⟨?_, hnodup⟩
        intro m hmem
        rw [hcur', hver', hbuilt]
        -- j is not a started compaction (k is), so its edit deletes nothing
        have hjnc : (s.job j).kind ≠ .compact := by
          intro hjc
          have hks : started (s.job k).pc = true := by revert hp; cases (s.job k).pc <;> simp [preSwap, started]
          exact hkj (t3 k j hk' hj hkc hjc hks (by rw [hpc]; rfl))
        have hd : (s.job j).edit.dels = [] := by
          cases hkind : (s.job j).kind with
          | flush => exact (hshape.1 hkind).1
          | rollupDone => exact (hshape.2.1 (Or.inl hkind)).1
          | rollupJob => exact (hshape.2.1 (Or.inr hkind)).1
          | compact => exact absurd hkind hjnc
          | delObs => exact absurd hkind hshape.2.2.2
        rw [nodel_edit_files _ _ hd]
        exact List.mem_append_left _ (hin m hmem)
      case hidden' => intro hp; exact absurd hp hnotS
      all_goals assumption
  · apply uniq_update (s' := jSwap s j) j t3 rfl
    · intro k hk; simp [jSwap, noteFlush, swapVersion, setPc, St.setJob, upd, hk]
    · intro hk _
      have hk' : (s.job j).kind = .compact := by simpa [jSwap, noteFlush, swapVersion, setPc, St.setJob] using hk
      exact ⟨hk', by rw [hpc]; rfl⟩
  · intro f hf
    have hf' : f ∈ (if (s.job j).kind = .flush then outNo (s.job j) else []) ++ s.flushed := hf
    rw [List.mem_append] at hf'
    have hnf : (jSwap s j).nextFile = s.nextFile := rfl
    rw [hnf]
    rcases hf' with h' | h'
    · split at h'
      · exact (hs.jobs j hj).outlt f h'
      · cases h'
    · exact t4 f h'
  · intro k
    have hfl : (jSwap s j).flushed = (if (s.job j).kind = .flush then outNo (s.job j) else []) ++ s.flushed := rfl
    rw [hcur', hver', hcontent', hfl, hbuilt]
    have hT := t5 k
    cases hkind : (s.job j).kind with
    | flush =>
      obtain ⟨hd, ha⟩ := hshape.1 hkind
      rw [nodel_edit_files _ _ hd, vTokens_append, ha, if_pos rfl, List.flatMap_append]
      have hX : vTokens (s.job j).out.toList s.content k =
          List.flatMap (fun f => tokensAt (s.content f) k) (outNo (s.job j)) := by
        cases ho : (s.job j).out <;> simp [vTokens, outNo, ho]
      rw [hX]
      exact (List.Perm.append_right _ hT).trans List.perm_append_comm
    | rollupDone =>
      obtain ⟨hd, ha⟩ := hshape.2.1 (Or.inl hkind)
      rw [nodel_edit_files _ _ hd, ha]
      simpa using hT
    | rollupJob =>
      obtain ⟨hd, ha⟩ := hshape.2.1 (Or.inr hkind)
      rw [nodel_edit_files _ _ hd, ha]
      simpa using hT
    | delObs => exact absurd hkind hshape.2.2.2
    | compact =>
      obtain ⟨hd, hat, haf⟩ := hshape.2.2.1 hkind
      obtain ⟨hin, hind⟩ := hjt.inputsIn hkind (by rw [hpc]; rfl)
      simp only [if_neg (by decide : ¬ (JKind.compact = JKind.flush)), List.nil_append]
      cases htr : (s.job j).trivial with
      | true =>
        obtain ⟨m0, hm0⟩ := hjt.triv hkind (by rw [hpc]; rfl) htr
        have hfiles := applyEdit_files_congr (s.ver s.cur)
          (e := (s.job j).edit) (e' := { dels := [(m0.level, m0.no)], adds := [{ m0 with level := m0.level + 1 }] })
          (by rw [hd, hm0]; rfl) (by rw [hat htr, hm0]; rfl)
        rw [hfiles]
        exact (move_edit_tokens (s.ver s.cur) m0 s.content hnd (hin m0 (by rw [hm0]; simp)) k).trans hT
      | false =>
        obtain ⟨m, hmo, hc⟩ := hjt.merged hkind htr (by rw [hpc]; rfl)
        have hfiles := applyEdit_files_congr (s.ver s.cur)
          (e := (s.job j).edit) (e' := { dels := (s.job j).inputs.map (fun m => (m.level, m.no)), adds := [m] })
          hd (by rw [haf htr, hmo]; rfl)
        rw [hfiles]
        exact (compact_edit_tokens hm (s.ver s.cur) (s.job j).inputs m s.content hnd hin hind hc k).trans hT


theorem pickL0_props {v : VData} {t : Nat} {l0 l1 : List FileMeta} (hnd : v.files.Nodup)
    (h : pickL0 v t = some (l0, l1)) :
    (∀ m ∈ l0 ++ l1, m ∈ v.files) ∧ (l0 ++ l1).Nodup ∧
    ((l0.length == 1 && l1.isEmpty) = true → ∃ m0, l0 ++ l1 = [m0]) := by
  simp only [pickL0] at h
  split at h
  · cases h
  · simp only [Option.some.injEq, Prod.mk.injEq] at h
    obtain ⟨rfl, rfl⟩ := h
    refine ⟨?_, ?_, ?_⟩
    · intro m hm
      simp only [List.mem_append, List.mem_filter] at hm
      rcases hm with hm | hm <;> exact hm.1
    · rw [List.nodup_append]
      refine ⟨hnd.filter _, hnd.filter _, ?_⟩
      intro a ha b hb hab
      simp only [List.mem_filter, beq_iff_eq, Bool.and_eq_true] at ha hb
      subst hab
      have := ha.2; have := hb.2.1; omega
    · intro htr
      simp only [Bool.and_eq_true, beq_iff_eq, List.isEmpty_iff] at htr
      obtain ⟨hlen, hemp⟩ := htr
      rw [hemp, List.append_nil]
      generalize List.filter (fun m => m.level == 0) v.files = l at hlen
      match l, hlen with
      | [m0], _ => exact ⟨m0, rfl⟩

theorem tok_jStartCompact {cfg : Cfg} {s : St} {j : Nat} (hs : Safe s) (ht : TokInv cfg s) (hj : j < s.nJob)
    (hpc : (s.job j).pc = .start) (hk : (s.job j).kind = .compact) (hnc : s.compacting = false) :
    TokInv cfg (jStartCompact cfg s j) := by
  obtain ⟨t1, t2, t3, t4, t5⟩ := ht
  have hver' : (jStartCompact cfg s j).ver = s.ver := rfl
  have hcur' : (jStartCompact cfg s j).cur = s.cur := rfl
  have hcontent' : (jStartCompact cfg s j).content = s.content := rfl
  have hcomp' : (jStartCompact cfg s j).compacting = true := rfl
  have hnostart : ∀ k, k < s.nJob → (s.job k).kind = .compact → started (s.job k).pc = true → False := by
    intro k hk' hkc hst
    have := (t2 k hk').excl hkc hst
    rw [hnc] at this; cases this
  constructor
  · intro v; exact t1 v
  · intro k hk'
    have hk'' : k < s.nJob := hk'
    by_cases hkj : k = j
    · subst hkj
      have hfnd := nodup_of_map_no (t1 s.cur)
      simp only [jStartCompact, St.setJob, upd_same]
      cases hp : pickL0 (s.ver s.cur) cfg.threshold with
      | none =>
        simp only
        constructor <;> simp only [setCompacting, snapAcquire, started, preSwap, mergedRange, editRange, outHidden] <;>
          first | (intros; rfl) | grind
      | some p =>
        obtain ⟨l0, l1⟩ := p
        obtain ⟨p1, p2, p3⟩ := pickL0_props hfnd hp
        simp only
        constructor <;> simp only [setCompacting, snapAcquire, started, preSwap, mergedRange, editRange, outHidden] <;>
          first | (intros; rfl) | grind
    · have hjk : (jStartCompact cfg s j).job k = s.job k := by
        simp [jStartCompact, St.setJob, setCompacting, snapAcquire, upd, hkj]
      rw [hjk]
      obtain ⟨x1, x2, x3, x4, x4', x5, x6, x7, x8⟩ := t2 k hk''
      constructor
      case excl => intro _ _; rfl
      all_goals assumption
  · intro a b ha hb hka hkb hsa hsb
    have ha' : a < s.nJob := ha
    have hb' : b < s.nJob := hb
    by_cases haj : a = j <;> by_cases hbj : b = j
    · rw [haj, hbj]
    · have hjk : (jStartCompact cfg s j).job b = s.job b := by
        simp [jStartCompact, St.setJob, setCompacting, snapAcquire, upd, hbj]
      rw [hjk] at hkb hsb
      exact absurd (hnostart b hb' hkb hsb) id
    · have hjk : (jStartCompact cfg s j).job a = s.job a := by
        simp [jStartCompact, St.setJob, setCompacting, snapAcquire, upd, haj]
      rw [hjk] at hka hsa
      exact absurd (hnostart a ha' hka hsa) id
    · have hjk : (jStartCompact cfg s j).job a = s.job a := by
        simp [jStartCompact, St.setJob, setCompacting, snapAcquire, upd, haj]
      rw [hjk] at hka hsa
      exact absurd (hnostart a ha' hka hsa) id
  · intro f hf; exact t4 f hf
  · intro k; exact t5 k

theorem tok_jFinish {cfg : Cfg} {s : St} {j : Nat} (ht : TokInv cfg s) (hj : j < s.nJob)
    (hpc : started (s.job j).pc = true) : TokInv cfg (jFinish s j) := by
  obtain ⟨t1, t2, t3, t4, t5⟩ := ht
  constructor
  · intro v; exact t1 v
  · intro k hk'
    have hk'' : k < s.nJob := hk'
    by_cases hkj : k = j
    · subst hkj
      have hjob : (jFinish s k).job k = { s.job k with pc := .done } := by
        simp [jFinish, setCompacting, setPc, St.setJob]
      rw [hjob]
      constructor <;> simp only [started, preSwap, mergedRange, editRange, outHidden] <;>
        first | (intros; rfl) | grind
    · have hjk : (jFinish s j).job k = s.job k := by
        simp [jFinish, setCompacting, setPc, St.setJob, upd, hkj]
      rw [hjk]
      obtain ⟨x1, x2, x3, x4, x4', x5, x6, x7, x8⟩ := t2 k hk''
      constructor
      case excl =>
        intro hkc hst
        simp only [jFinish, setCompacting, setPc, St.setJob]
        split
        next hjc => exact absurd (t3 k j hk'' hj hkc hjc hst hpc) hkj
        next => exact x1 hkc hst
      all_goals assumption
  · apply uniq_update (s' := jFinish s j) j t3 rfl
    · intro k hk; simp [jFinish, setCompacting, setPc, St.setJob, upd, hk]
    · intro _ hst
      have : started Pc.done = true := by simpa [jFinish, setCompacting, setPc, St.setJob] using hst
      simp [started] at this
  · intro f hf; exact t4 f hf
  · intro k; exact t5 k

theorem tok_spawn {cfg : Cfg} {s : St} (k : JKind) (p : Content) (ht : TokInv cfg s) :
    TokInv cfg (spawnJob s k p) := by
  obtain ⟨t1, t2, t3, t4, t5⟩ := ht
  constructor
  · intro v; exact t1 v
  · intro a ha
    simp only [spawnJob] at ha ⊢
    by_cases han : a = s.nJob
    · subst han
      rw [upd_same]
      constructor <;> simp [started, preSwap, mergedRange, editRange, outHidden]
    · rw [upd_other _ _ _ _ han]
      exact jobTok_congr (s := s) rfl rfl rfl rfl (t2 a (by omega))
  · intro a b ha hb hka hkb hsa hsb
    simp only [spawnJob] at ha hb hka hkb hsa hsb
    by_cases han : a = s.nJob
    · subst han; rw [upd_same] at hsa; simp [started] at hsa
    · by_cases hbn : b = s.nJob
      · subst hbn; rw [upd_same] at hsb; simp [started] at hsb
      · rw [upd_other _ _ _ _ han] at hka hsa
        rw [upd_other _ _ _ _ hbn] at hkb hsb
        exact t3 a b (by omega) (by omega) hka hkb hsa hsb
  · intro f hf; exact t4 f hf
  · intro k'; exact t5 k'

end LinVerif.Lemmas.C02
