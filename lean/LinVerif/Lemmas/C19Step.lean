/-
C19 helper lemmas, part 3: what one atomic instruction does to the token balance
(`pending` vs. outstanding completions), to well-formedness and to the ghost counters.
-/
import LinVerif.Lemmas.C19Created

namespace LinVerif.Pipeline

/-- the instruction loses no completion under `cfg`: a panic (of `Plan()`, of the execution, of
`NextStages()`) only if `executeStage` recovers and completes the stage, a rejected task only if the
pool notifies the task's handler -/
def Instr.noLoss (cfg : Cfg) : Instr → Prop
  | .launch s => (s.planPanics = true → cfg.stageRecover = true) ∧
      (s.planPanics = false → s.run = .rejected → cfg.rejectNotifies = true)
  | .exec s => s.out.panics = true → cfg.stageRecover = true
  | _ => True

/-- token balance of one instruction; tokens are lost only when a panic unwinds a continuation -/
theorem stepInstr_owed_le (cfg : Cfg) (sh : Shared) (pooled : Bool) (i : Instr) (rest : List Instr) :
    sh.pending + (csum Instr.owed (stepInstr cfg sh pooled i rest).code : Int)
        + (tsum Instr.owed (stepInstr cfg sh pooled i rest).spawn : Int)
      ≤ (stepInstr cfg sh pooled i rest).sh.pending + (csum Instr.owed (i :: rest) : Int) := by
  cases i <;> simp only [stepInstr, panicEff] <;> (repeat' split) <;> simp [Instr.owed] <;> omega

theorem stepInstr_owed_eq (cfg : Cfg) (sh : Shared) (pooled : Bool) (i : Instr) (rest : List Instr)
    (hnp : i.noLoss cfg) :
    sh.pending + (csum Instr.owed (stepInstr cfg sh pooled i rest).code : Int)
        + (tsum Instr.owed (stepInstr cfg sh pooled i rest).spawn : Int)
      = (stepInstr cfg sh pooled i rest).sh.pending + (csum Instr.owed (i :: rest) : Int) := by
  cases i <;> simp only [stepInstr, panicEff] <;> (repeat' split) <;>
    simp_all [Instr.owed, Instr.noLoss, Outcome.panics] <;> omega

theorem stepInstr_wf (cfg : Cfg) (sh : Shared) (pooled : Bool) (i : Instr) (rest : List Instr)
    (h : wfCode (i :: rest)) :
    wfCode (stepInstr cfg sh pooled i rest).code ∧ ∀ t ∈ (stepInstr cfg sh pooled i rest).spawn, wfCode t.code := by
  have hr : wfCode rest := h.2
  have hpe : wfCode (panicEff cfg sh pooled rest).code := by
    unfold panicEff
    cases cfg.stageRecover <;> cases pooled <;> simp [wfCode, Instr.startLike, hr]
  cases i with
  | start st =>
    simp only [stepInstr]; split
    · exact ⟨hr, by simp⟩
    · exact ⟨⟨fun _ => h.1 rfl, hr⟩, by simp⟩
  | register st => exact ⟨wfCode_cons_of_not_startLike rfl hr, by simp [stepInstr]⟩
  | launch st =>
    simp only [stepInstr]; split
    · exact ⟨hpe, by simp⟩
    · split
      · exact ⟨wfCode_cons_of_not_startLike rfl hr, by simp⟩
      · exact ⟨hr, by simp [wfCode, Instr.startLike]⟩
      · split
        · exact ⟨wfCode_cons_of_not_startLike rfl hr, by simp⟩
        · exact ⟨hr, by simp⟩
  | exec st =>
    simp only [stepInstr]; split
    · exact ⟨wfCode_handler_append st hr, by simp⟩
    · exact ⟨wfCode_cons_of_not_startLike rfl hr, by simp⟩
    · exact ⟨hpe, by simp⟩
    · exact ⟨hpe, by simp⟩
  | track e => exact ⟨wfCode_cons_of_not_startLike rfl hr, by simp [stepInstr]⟩
  | dec e =>
    simp only [stepInstr]
    split
    · split
      · exact ⟨wfCode_cons_of_not_startLike rfl hr, by simp⟩
      · exact ⟨wfCode_cons_of_not_startLike rfl hr, by simp⟩
    · exact ⟨hr, by simp⟩
  | load own => exact ⟨wfCode_cons_of_not_startLike rfl hr, by simp [stepInstr]⟩
  | fire e own =>
    simp only [stepInstr]; split
    · exact ⟨hr, by simp⟩
    · exact ⟨hr, by simp⟩

/-- `pending` = registered − finished, always -/
theorem stepInstr_cnt (cfg : Cfg) (sh : Shared) (pooled : Bool) (i : Instr) (rest : List Instr) :
    (stepInstr cfg sh pooled i rest).sh.pending + ((stepInstr cfg sh pooled i rest).sh.finished : Int)
        + (sh.registered : Int)
      = sh.pending + (sh.finished : Int) + ((stepInstr cfg sh pooled i rest).sh.registered : Int) := by
  cases i <;> simp only [stepInstr, panicEff] <;> (repeat' split) <;> simp <;> omega

/-! ### state level -/

def WF (s : State) : Prop := ∀ t ∈ s.threads, wfCode t.code

/-- `pending` minus the outstanding completions = completions lost to panics -/
def gap (s : State) : Int := s.sh.pending - (tsum Instr.owed s.threads : Int)

def Cnt (s : State) : Prop := s.sh.pending + (s.sh.finished : Int) = (s.sh.registered : Int)

theorem step_wf {cfg : Cfg} {s s' : State} {n : Nat} (hwf : WF s) (h : stepAt cfg s n = some s') : WF s' := by
  obtain ⟨pooled, i, rest, hget, rfl⟩ := stepAt_elim h
  have := stepInstr_wf cfg s.sh pooled i rest (hwf _ (List.mem_of_getElem? hget))
  exact forall_step hwf this.1 this.2

theorem step_gap_le {cfg : Cfg} {s s' : State} {n : Nat} (h : stepAt cfg s n = some s') : gap s ≤ gap s' := by
  obtain ⟨pooled, i, rest, hget, rfl⟩ := stepAt_elim h
  have h1 := stepInstr_owed_le cfg s.sh pooled i rest
  have h2 := tsum_step (w := Instr.owed) (t1 := ⟨pooled, (stepInstr cfg s.sh pooled i rest).code⟩)
    (sp := (stepInstr cfg s.sh pooled i rest).spawn) hget
  simp only [gap]
  simp only at h2
  omega

theorem step_gap_eq {cfg : Cfg} {s s' : State} {n : Nat} (h : stepAt cfg s n = some s')
    (hnp : ∀ t ∈ s.threads, ∀ i ∈ t.code, i.noLoss cfg) : gap s' = gap s := by
  obtain ⟨pooled, i, rest, hget, rfl⟩ := stepAt_elim h
  have h1 := stepInstr_owed_eq cfg s.sh pooled i rest (hnp _ (List.mem_of_getElem? hget) i (by simp))
  have h2 := tsum_step (w := Instr.owed) (t1 := ⟨pooled, (stepInstr cfg s.sh pooled i rest).code⟩)
    (sp := (stepInstr cfg s.sh pooled i rest).spawn) hget
  simp only [gap]
  simp only at h2
  omega

theorem step_cnt {cfg : Cfg} {s s' : State} {n : Nat} (hc : Cnt s) (h : stepAt cfg s n = some s') : Cnt s' := by
  obtain ⟨pooled, i, rest, hget, rfl⟩ := stepAt_elim h
  have h1 := stepInstr_cnt cfg s.sh pooled i rest
  simp only [Cnt] at *
  omega

/-- with a non-negative gap and `pending = 0` nothing but `load`/`fire` is left anywhere -/
theorem only_fires_left {s : State} (hwf : WF s) (hg : 0 ≤ gap s) (hp : s.sh.pending = 0) :
    ∀ t ∈ s.threads, ∀ i ∈ t.code, i.owed = 0 ∧ i.startLike = false := by
  have h0 : tsum Instr.owed s.threads = 0 := by simp only [gap] at hg; omega
  intro t ht i hi
  have hc : csum Instr.owed t.code = 0 := tsum_eq_zero_iff.mp h0 t ht
  exact ⟨csum_eq_zero_iff.mp hc i hi, wfCode_no_start (hwf t ht) hc i hi⟩

/-- the head of a runnable goroutine when `pending = 0`: a `load` or a `fire` -/
theorem head_is_fire {s : State} (hwf : WF s) (hg : 0 ≤ gap s) (hp : s.sh.pending = 0)
    {n : Nat} {pooled : Bool} {i : Instr} {rest : List Instr}
    (hget : s.threads[n]? = some ⟨pooled, i :: rest⟩) : (∃ o, i = .load o) ∨ (∃ e o, i = .fire e o) := by
  have := only_fires_left hwf hg hp _ (List.mem_of_getElem? hget) i (by simp)
  cases i <;> simp_all [Instr.owed, Instr.startLike]

end LinVerif.Pipeline

namespace LinVerif.Pipeline

/-- a predicate on the stages an instruction still carries -/
def Instr.stageOK (P : Stage → Prop) : Instr → Prop
  | .start s | .register s | .launch s | .exec s => P s
  | _ => True

/-- a hereditary stage predicate is kept by every instruction -/
theorem stepInstr_stageOK {P : Stage → Prop} (hP : ∀ s, P s → ∀ c ∈ s.children, P c)
    (cfg : Cfg) (sh : Shared) (pooled : Bool) (i : Instr) (rest : List Instr)
    (h : ∀ j ∈ i :: rest, j.stageOK P) :
    (∀ j ∈ (stepInstr cfg sh pooled i rest).code, j.stageOK P) ∧
      ∀ t ∈ (stepInstr cfg sh pooled i rest).spawn, ∀ j ∈ t.code, j.stageOK P := by
  have hi : i.stageOK P := h i (by simp)
  have hr : ∀ j ∈ rest, j.stageOK P := fun j hj => h j (by simp [hj])
  refine ⟨stepInstr_forall hr ?_, ?_⟩
  · intro j hc
    cases hc with
    | reg s _ => exact hi
    | launch s => exact hi
    | inl s _ _ => exact hi
    | child s c _ hcm => exact hP s hi c hcm
    | _ => trivial
  · intro t ht j hj
    obtain ⟨st, rfl, _, _, rfl⟩ := stepInstr_spawn ht
    simp only [List.mem_singleton] at hj; subst hj
    exact hi

def StagesOK (P : Stage → Prop) (s : State) : Prop := ∀ t ∈ s.threads, ∀ i ∈ t.code, i.stageOK P

theorem step_stagesOK {P : Stage → Prop} (hP : ∀ s, P s → ∀ c ∈ s.children, P c)
    {cfg : Cfg} {s s' : State} {n : Nat} (hs : StagesOK P s) (h : stepAt cfg s n = some s') : StagesOK P s' := by
  obtain ⟨pooled, i, rest, hget, rfl⟩ := stepAt_elim h
  have := stepInstr_stageOK hP cfg s.sh pooled i rest (hs _ (List.mem_of_getElem? hget))
  exact forall_step hs this.1 this.2

theorem noPanic_hereditary : ∀ s : Stage, s.noPanic = true → ∀ c ∈ s.children, c.noPanic = true :=
  fun s h => ((Stage.noPanic_iff s).mp h).2.2.2

theorem clean_hereditary (cfg : Cfg) : ∀ s : Stage, s.clean cfg = true → ∀ c ∈ s.children, c.clean cfg = true :=
  fun s h => ((Stage.clean_iff cfg s).mp h).2.2

/-- instructions that only carry clean stages lose no completion -/
theorem noLoss_of_clean {cfg : Cfg} {i : Instr} (h : i.stageOK (fun st => st.clean cfg = true)) : i.noLoss cfg := by
  cases i <;> simp only [Instr.noLoss]
  · rename_i st
    have := (Stage.clean_iff cfg st).mp h
    refine ⟨fun hp => ?_, fun _ hr => ?_⟩
    · rcases this.1 with ⟨h1, _⟩ | h1
      · rw [hp] at h1; cases h1
      · exact h1
    · rcases this.2.1 with h1 | h1
      · exact absurd hr h1
      · exact h1
  · rename_i st
    have := (Stage.clean_iff cfg st).mp h
    intro hp
    rcases this.1 with ⟨_, h1⟩ | h1
    · rw [hp] at h1; cases h1
    · exact h1

end LinVerif.Pipeline

namespace LinVerif.Pipeline

/-- the instruction loses no completion: `noLoss`, or it is the sole instruction of a pooled task
(`execTask` recovers its panic and completes the task's stage) -/
def Instr.safeExec (cfg : Cfg) (pooled : Bool) (rest : List Instr) (i : Instr) : Prop :=
  i.noLoss cfg ∨ (∃ s, i = .exec s ∧ pooled = true ∧ rest = [])

theorem stepInstr_owed_eq' (cfg : Cfg) (sh : Shared) (pooled : Bool) (i : Instr) (rest : List Instr)
    (hnp : i.safeExec cfg pooled rest) :
    sh.pending + (csum Instr.owed (stepInstr cfg sh pooled i rest).code : Int)
        + (tsum Instr.owed (stepInstr cfg sh pooled i rest).spawn : Int)
      = (stepInstr cfg sh pooled i rest).sh.pending + (csum Instr.owed (i :: rest) : Int) := by
  rcases hnp with h | ⟨s, rfl, rfl, rfl⟩
  · exact stepInstr_owed_eq cfg sh pooled i rest h
  · simp only [stepInstr, panicEff] <;> (repeat' split) <;> simp_all [Instr.owed]

/-- pending calls of `complete` appear exactly when an instruction brings `pending` to zero -/
theorem stepInstr_fires (cfg : Cfg) (sh : Shared) (pooled : Bool) (i : Instr) (rest : List Instr)
    (hi : i.fires = 0) (hr : csum Instr.fires rest = 0) (hnp : i.safeExec cfg pooled rest) (hp0 : 0 ≤ sh.pending) :
    tsum Instr.fires (stepInstr cfg sh pooled i rest).spawn = 0 ∧
    ((stepInstr cfg sh pooled i rest).sh.pending = 0 → sh.pending ≠ 0 →
        csum Instr.fires (stepInstr cfg sh pooled i rest).code = 1) ∧
    ((stepInstr cfg sh pooled i rest).sh.pending ≠ 0 ∨ sh.pending = 0 →
        csum Instr.fires (stepInstr cfg sh pooled i rest).code = 0) ∧
    (sh.completed = true → (stepInstr cfg sh pooled i rest).sh.completed = true) := by
  rcases hnp with hnp | ⟨s, rfl, rfl, rfl⟩
  · cases i <;> simp only [stepInstr, panicEff] <;> (repeat' split) <;>
      simp_all [Instr.fires, Instr.noLoss, Outcome.panics] <;> omega
  · simp only [stepInstr, panicEff] <;> (repeat' split) <;> simp_all [Instr.fires]

/-- `completed` is never reset -/
theorem stepInstr_completed_mono (cfg : Cfg) (sh : Shared) (pooled : Bool) (i : Instr) (rest : List Instr)
    (h : sh.completed = true) : (stepInstr cfg sh pooled i rest).sh.completed = true := by
  cases i <;> simp only [stepInstr, panicEff] <;> (repeat' split) <;> simp_all

end LinVerif.Pipeline
