/-
C05, round 9: the inductive invariant of the meta-page writers (Model/C05QueueMeta.lean) for
`currentProgs` — every interleaving of single instructions of any number of Put /
SetAppendedSeq / SetAcknowledgedSeq callers, crashes anywhere.
-/
import LinVerif.Model.C05QueueMeta

namespace LinVerif.QueueMeta

/-- the mapped meta page says what memory says -/
def Synced (ma mk da dk : Int) : Prop := da = ma ∧ dk = mk

/-- what holds while a caller of kind `k` sits at `pc` INSIDE its critical section (`currentProgs`) -/
def HeldInv (ma mk da dk : Int) : Kind → Nat → Int → Int → Prop
  | .put, 1, _, _ => Synced ma mk da dk
  | .put, 2, loc, _ => Synced ma mk da dk ∧ loc = ma + 1
  | .put, 3, loc, _ => da = loc ∧ loc = ma + 1 ∧ dk = mk
  | .put, 4, loc, _ => Synced ma mk da dk ∧ ma = loc
  | .reset, 1, _, _ => True
  | .reset, 2, _, _ => True
  | .reset, 3, _, _ => True
  | .reset, 4, _, _ => da = ma
  | .reset, 5, _, _ => Synced ma mk da dk
  | .reset, 6, _, _ => Synced ma mk da dk
  | .ack, 1, _, _ => Synced ma mk da dk
  | .ack, 2, _, _ => Synced ma mk da dk
  | .ack, 3, _, arg => da = ma ∧ mk = arg
  | .ack, 4, _, _ => Synced ma mk da dk
  | .ack, 5, _, _ => Synced ma mk da dk
  | _, _, _, _ => False

structure MInv (σ : MSt) : Prop where
  /-- every sequence handed out by a returned Put (and not discarded by a reset) is covered by
  the persisted AND the in-memory appended sequence -/
  rets : ∀ s ∈ σ.rets, s ≤ σ.diskApp ∧ s ≤ σ.memApp
  /-- a caller that does not hold the mutex has not executed anything yet -/
  others : ∀ t, σ.holder ≠ some t → σ.ths t = .idle ∨ ∃ k a, σ.ths t = .run k 0 0 a
  free : σ.holder = none → Synced σ.memApp σ.memAck σ.diskApp σ.diskAck
  held : ∀ t, σ.holder = some t → ∃ k pc loc arg, σ.ths t = .run k pc loc arg ∧
    HeldInv σ.memApp σ.memAck σ.diskApp σ.diskAck k pc loc arg

theorem minv_start (a k : Int) : MInv (MSt.start a k) :=
  { rets := by intro s hs; simp [MSt.start] at hs
    others := by intro t _; left; rfl
    free := by intro _; exact ⟨rfl, rfl⟩
    held := by intro t h; simp [MSt.start] at h }

theorem setTh_same (ths : Nat → Th) (t : Nat) (x : Th) : setTh ths t x t = x := by simp [setTh]

theorem setTh_other (ths : Nat → Th) (t t' : Nat) (x : Th) (h : t' ≠ t) : setTh ths t x t' = ths t' := by
  simp [setTh, h]

/-- the holder moves on inside its critical section -/
theorem minv_advance (σ : MSt) (t : Nat) (hi : MInv σ) (hh : σ.holder = some t)
    (ma mk da dk : Int) (rets : List Int) (k : Kind) (pc : Nat) (loc arg : Int)
    (hr : ∀ s ∈ rets, s ≤ da ∧ s ≤ ma) (hinv : HeldInv ma mk da dk k pc loc arg) :
    MInv { memApp := ma, memAck := mk, diskApp := da, diskAck := dk, holder := some t,
           ths := setTh σ.ths t (.run k pc loc arg), rets := rets } :=
  { rets := hr
    others := by
      intro t' ht'
      have hne : t' ≠ t := fun e => ht' (by simp [e])
      have := hi.others t' (by rw [hh]; exact fun e => hne (Option.some.inj e).symm)
      simpa [setTh_other _ _ _ _ hne] using this
    free := by intro h; simp at h
    held := by
      intro t' ht'
      have : t' = t := (Option.some.inj ht').symm
      subst this
      exact ⟨k, pc, loc, arg, setTh_same _ _ _, hinv⟩ }

/-- the holder unlocks and returns -/
theorem minv_release (σ : MSt) (t : Nat) (hi : MInv σ) (hh : σ.holder = some t)
    (ma mk da dk : Int) (rets : List Int)
    (hr : ∀ s ∈ rets, s ≤ da ∧ s ≤ ma) (hs : Synced ma mk da dk) :
    MInv { memApp := ma, memAck := mk, diskApp := da, diskAck := dk, holder := none,
           ths := setTh σ.ths t .idle, rets := rets } :=
  { rets := hr
    others := by
      intro t' _
      by_cases hne : t' = t
      · subst hne; left; exact setTh_same _ _ _
      · have := hi.others t' (by rw [hh]; exact fun e => hne (Option.some.inj e).symm)
        simpa [setTh_other _ _ _ _ hne] using this
    free := fun _ => hs
    held := by intro t' h; simp at h }

theorem crash_inv (σ : MSt) (hi : MInv σ) : MInv (crash currentProgs σ) :=
  { rets := by
      intro s hs
      have hs' : s ∈ σ.rets := by simpa [crash, currentProgs, execInstr] using hs
      have := (hi.rets s hs').1
      simp [crash, currentProgs, execInstr, Src.eval]
      first | exact this | exact ⟨this, this⟩
    others := by intro t _; left; simp [crash]
    free := by intro _; simp [crash, currentProgs, execInstr, Src.eval, Synced]
    held := by intro t h; simp [crash] at h }

theorem filter_le_mem {l : List Int} {v s : Int} (h : s ∈ l.filter (fun r => decide (r ≤ v))) :
    s ∈ l ∧ s ≤ v := by
  simpa [List.mem_filter] using h

theorem step_inv (σ σ' : MSt) (e : MEv) (hi : MInv σ) (h : mstep currentProgs σ e = some σ') : MInv σ' := by
  cases e with
  | crash =>
    simp [mstep] at h; subst h; exact crash_inv σ hi
  | call t k a =>
    simp only [mstep] at h
    cases hth : σ.ths t with
    | run k' pc loc arg => simp [hth] at h
    | idle =>
      simp [hth] at h; subst h
      have hnh : σ.holder ≠ some t := by
        intro hh
        obtain ⟨k', pc, loc, arg, h1, _⟩ := hi.held t hh
        simp [hth] at h1
      exact
        { rets := hi.rets
          others := by
            intro t' ht'
            by_cases hne : t' = t
            · subst hne; right; exact ⟨k, a, setTh_same _ _ _⟩
            · simpa [setTh_other _ _ _ _ hne] using hi.others t' ht'
          free := hi.free
          held := by
            intro t' ht'
            have hne : t' ≠ t := fun e => hnh (e ▸ ht')
            obtain ⟨k', pc, loc, arg, h1, h2⟩ := hi.held t' ht'
            exact ⟨k', pc, loc, arg, by simpa [setTh_other _ _ _ _ hne] using h1, h2⟩ }
  | step t =>
    simp only [mstep] at h
    cases hth : σ.ths t with
    | idle => simp [hth] at h
    | run k pc loc arg =>
      simp only [hth] at h
      by_cases hh : σ.holder = some t
      · -- the holder executes an instruction of its critical section
        obtain ⟨k', pc', loc', arg', h1, hinv⟩ := hi.held t hh
        rw [hth] at h1
        injection h1 with e1 e2 e3 e4
        subst e1 e2 e3 e4
        have hr := hi.rets
        cases σ with
        | mk ma mk da dk holder ths rets =>
        simp only at hh hinv hr hth
        subst hh
        cases k with
        | put =>
          rcases pc with _ | _ | _ | _ | _ | pc
          · simp [HeldInv] at hinv
          · -- setLoc memApp+1
            simp [currentProgs, Progs.of, execInstr, retire, Src.eval] at h; subst h
            exact minv_advance _ t hi rfl _ _ _ _ _ .put 2 _ _ hr ⟨by simpa [HeldInv] using hinv, rfl⟩
          · -- diskApp := loc
            simp [currentProgs, Progs.of, execInstr, retire, Src.eval] at h; subst h
            simp [HeldInv, Synced] at hinv
            refine minv_advance _ t hi rfl _ _ _ _ _ .put 3 _ _ ?_ ?_
            · intro s hs; have := hr s hs; omega
            · simp [HeldInv]; omega
          · -- memApp := loc
            simp [currentProgs, Progs.of, execInstr, retire, Src.eval] at h; subst h
            simp [HeldInv] at hinv
            refine minv_advance _ t hi rfl _ _ _ _ _ .put 4 _ _ ?_ ?_
            · intro s hs; have := hr s hs; omega
            · simp [HeldInv, Synced]; omega
          · -- unlock: the Put returns loc
            simp [currentProgs, Progs.of, retire] at h; subst h
            simp [HeldInv, Synced] at hinv
            refine minv_release _ t hi rfl _ _ _ _ _ ?_ ?_
            · intro s hs
              simp at hs
              rcases hs with rfl | hs
              · omega
              · exact hr s hs
            · simp [Synced]; omega
          · simp [HeldInv] at hinv
        | reset =>
          rcases pc with _ | _ | _ | _ | _ | _ | _ | pc
          · simp [HeldInv] at hinv
          · -- memApp := arg; sequences above arg are discarded
            simp [currentProgs, Progs.of, execInstr, retire, Src.eval] at h; subst h
            refine minv_advance _ t hi rfl _ _ _ _ _ .reset 2 _ _ ?_ (by simp [HeldInv])
            intro s hs
            obtain ⟨h1, h2⟩ := filter_le_mem hs
            exact ⟨(hr s h1).1, h2⟩
          · simp [currentProgs, Progs.of, execInstr, retire, Src.eval] at h; subst h
            exact minv_advance _ t hi rfl _ _ _ _ _ .reset 3 _ _ hr (by simp [HeldInv])
          · -- diskApp := memApp
            simp [currentProgs, Progs.of, execInstr, retire, Src.eval] at h; subst h
            refine minv_advance _ t hi rfl _ _ _ _ _ .reset 4 _ _ ?_ (by simp [HeldInv])
            intro s hs; exact ⟨(hr s hs).2, (hr s hs).2⟩
          · -- diskAck := memAck
            simp [currentProgs, Progs.of, execInstr, retire, Src.eval] at h; subst h
            simp [HeldInv] at hinv
            exact minv_advance _ t hi rfl _ _ _ _ _ .reset 5 _ _ hr (by simp [HeldInv, Synced, hinv])
          · -- sync
            simp [currentProgs, Progs.of, execInstr, retire] at h; subst h
            exact minv_advance _ t hi rfl _ _ _ _ _ .reset 6 _ _ hr (by simpa [HeldInv] using hinv)
          · -- unlock
            simp [currentProgs, Progs.of, retire] at h; subst h
            exact minv_release _ t hi rfl _ _ _ _ _ hr (by simpa [HeldInv] using hinv)
          · simp [HeldInv] at hinv
        | ack =>
          rcases pc with _ | _ | _ | _ | _ | _ | pc
          · simp [HeldInv] at hinv
          · -- the guard
            simp [HeldInv] at hinv
            by_cases hg : arg > mk ∧ arg ≤ ma
            · simp [currentProgs, Progs.of, execInstr, retire, hg] at h; subst h
              exact minv_advance _ t hi rfl _ _ _ _ _ .ack 2 _ _ hr (by simpa [HeldInv] using hinv)
            · simp [currentProgs, Progs.of, execInstr, retire, hg] at h; subst h
              exact minv_advance _ t hi rfl _ _ _ _ _ .ack 5 _ _ hr (by simpa [HeldInv] using hinv)
          · simp [currentProgs, Progs.of, execInstr, retire, Src.eval] at h; subst h
            simp [HeldInv, Synced] at hinv
            exact minv_advance _ t hi rfl _ _ _ _ _ .ack 3 _ _ hr (by simp [HeldInv, hinv.1])
          · simp [currentProgs, Progs.of, execInstr, retire, Src.eval] at h; subst h
            simp [HeldInv] at hinv
            exact minv_advance _ t hi rfl _ _ _ _ _ .ack 4 _ _ hr (by simp [HeldInv, Synced, hinv])
          · simp [currentProgs, Progs.of, execInstr, retire] at h; subst h
            exact minv_advance _ t hi rfl _ _ _ _ _ .ack 5 _ _ hr (by simpa [HeldInv] using hinv)
          · simp [currentProgs, Progs.of, retire] at h; subst h
            exact minv_release _ t hi rfl _ _ _ _ _ hr (by simpa [HeldInv] using hinv)
          · simp [HeldInv] at hinv
      · -- a caller outside any critical section: its next instruction is `lock`
        rcases hi.others t hh with hid | ⟨k', a', hrun⟩
        · simp [hth] at hid
        · rw [hth] at hrun
          injection hrun with e1 e2 e3 e4
          subst e1 e2 e3 e4
          have hlock : (currentProgs.of k)[0]? = some Instr.lock := by cases k <;> rfl
          have hlen : 1 < (currentProgs.of k).length := by cases k <;> decide
          simp only [hlock] at h
          by_cases hfree : σ.holder = none
          · simp [hfree, retire, hlen] at h; subst h
            have hs := hi.free hfree
            exact
              { rets := hi.rets
                others := by
                  intro t' ht'
                  have hne : t' ≠ t := fun e => ht' (by simp [e])
                  have := hi.others t' (by simp [hfree])
                  simpa [setTh_other _ _ _ _ hne] using this
                free := by intro h; simp at h
                held := by
                  intro t' ht'
                  have : t' = t := (Option.some.inj ht').symm
                  subst this
                  refine ⟨k, 1, 0, arg, setTh_same _ _ _, ?_⟩
                  cases k <;> simp [HeldInv] <;> exact hs }
          · simp [hfree] at h

theorem run_inv (evs : List MEv) (σ σ' : MSt) (hi : MInv σ) (h : mrun currentProgs σ evs = some σ') :
    MInv σ' := by
  induction evs generalizing σ with
  | nil => simp [mrun] at h; subst h; exact hi
  | cons e es ih =>
    simp only [mrun] at h
    cases hs : mstep currentProgs σ e with
    | none => simp [hs] at h
    | some σ1 =>
      simp only [hs] at h
      exact ih σ1 (step_inv σ σ1 e hi hs) h

end LinVerif.QueueMeta
