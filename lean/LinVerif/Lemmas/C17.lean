/-
Helper lemmas for C17 (statement wire round trip): the exact behaviour of
`unmarshal ∘ marshal` on every expression tree, of `ValueOf ∘ String` on every interval, and
of the statement-level (un)marshalling. Core Lean only.
-/
import LinVerif.Model.Stmt

namespace LinVerif.Stmt
open LinVerif.Json

/-! ## Expressions -/

theorem rawElem_marshal (e : Expr) : rawElem (marshal e) = marshalRaw e := by
  cases e <;> simp [marshal, rawElem, marshalRaw]

theorem strElems_map (vs : List String) : strElems (vs.map .str) = .ok vs := by
  induction vs with
  | nil => rfl
  | cons a t ih => simp [strElems, ih, Except.map]

mutual
theorem unmarshal_marshal : ∀ e : Expr,
    unmarshal (marshalRaw e) = if e.wellFormed then .ok e else .error .syntax
  | .nil => by simp [marshalRaw, unmarshal, Expr.wellFormed]
  | .field n => by
    simp [marshalRaw, marshal, unmarshal, getStr, lookup, getRaw, rawElem, unmarshalField, leafFields, structFields, bind, Except.bind, pure, Except.pure, Expr.wellFormed]
  | .number f => by
    by_cases hf : f.isFinite <;>
    simp [marshalRaw, marshal, unmarshal, getStr, getFlt, lookup, getRaw, rawElem, unmarshalNumber, leafFields, structFields, bind, Except.bind, pure, Except.pure, Expr.wellFormed, hf]
  | .equals k v => by
    simp [marshalRaw, marshal, unmarshal, getStr, lookup, getRaw, rawElem, unmarshalEquals, leafFields, structFields, bind, Except.bind, pure, Except.pure, Expr.wellFormed]
  | .like k v => by
    simp [marshalRaw, marshal, unmarshal, getStr, lookup, getRaw, rawElem, unmarshalLike, leafFields, structFields, bind, Except.bind, pure, Except.pure, Expr.wellFormed]
  | .regex k v => by
    simp [marshalRaw, marshal, unmarshal, getStr, lookup, getRaw, rawElem, unmarshalRegex, leafFields, structFields, bind, Except.bind, pure, Except.pure, Expr.wellFormed]
  | .inE k vs => by
    cases vs with
    | nil => simp [marshalRaw, marshal, strArr, unmarshal, getStr, getStrList, lookup, getRaw, rawElem, unmarshalIn, leafFields, structFields, bind, Except.bind, pure, Except.pure, Expr.wellFormed]
    | cons a t =>
      have := strElems_map (a :: t)
      simp [marshalRaw, marshal, strArr, unmarshal, getStr, getStrList, lookup, getRaw, rawElem, unmarshalIn, leafFields, structFields, bind, Except.bind, pure, Except.pure, Expr.wellFormed] at this ⊢
      simp [this]
  | .paren e => by
    have ih := unmarshal_marshal e
    simp only [marshalRaw, marshal]
    rw [unmarshal]
    simp [getStr, lookup, getRaw, rawElem_marshal, Expr.wellFormed]
    rw [ih]; by_cases h1 : e.wellFormed <;> simp [h1]
  | .not e => by
    have ih := unmarshal_marshal e
    simp only [marshalRaw, marshal]
    rw [unmarshal]
    simp [getStr, lookup, getRaw, rawElem_marshal, Expr.wellFormed]
    rw [ih]; by_cases h1 : e.wellFormed <;> simp [h1]
  | .selectItem e a => by
    have ih := unmarshal_marshal e
    simp only [marshalRaw, marshal]
    rw [unmarshal]
    simp [getStr, lookup, getRaw, rawElem_marshal, Expr.wellFormed]
    rw [ih]; by_cases h1 : e.wellFormed <;> simp [h1]
  | .orderBy e a => by
    have ih := unmarshal_marshal e
    simp only [marshalRaw, marshal]
    rw [unmarshal]
    simp [getStr, getBool, lookup, getRaw, rawElem_marshal, Expr.wellFormed]
    rw [ih]; by_cases h1 : e.wellFormed <;> simp [h1]
  | .binary l r op => by
    have ih := unmarshal_marshal l
    have ih2 := unmarshal_marshal r
    simp only [marshalRaw, marshal]
    rw [unmarshal]
    simp [getStr, getInt, lookup, getRaw, rawElem_marshal, Expr.wellFormed]
    rw [ih, ih2]
    by_cases h1 : l.wellFormed <;> by_cases h2 : r.wellFormed <;> simp [h1, h2]
  | .call ft ps => by
    have ih := unmarshalAll_marshalList ps
    simp only [marshalRaw, marshal]
    rw [unmarshal]
    cases ps with
    | nil => simp [getStr, getInt, getRawList, arrElems, lookup, unmarshalAll, Expr.wellFormed, wellFormedList]
    | cons a t =>
      simp [getStr, getInt, getRawList, arrElems, lookup, Expr.wellFormed] at ih ⊢
      rw [ih]; by_cases h1 : wellFormedList (a :: t) <;> simp [h1]
theorem unmarshalAll_marshalList : ∀ es : List Expr,
    unmarshalAll (marshalList es) = if wellFormedList es then .ok es else .error .syntax
  | [] => by simp [marshalList, unmarshalAll, wellFormedList]
  | e :: es => by
    have ih := unmarshal_marshal e
    have ih2 := unmarshalAll_marshalList es
    simp only [marshalList]
    rw [unmarshalAll, rawElem_marshal, ih, ih2]
    by_cases h1 : e.wellFormed <;> by_cases h2 : wellFormedList es <;> simp [h1, h2, wellFormedList]
end

/-! ## Interval -/

theorem digits_all (n : Nat) : (Nat.toDigits 10 n).all Char.isDigit = true := by
  rw [List.all_eq_true]
  intro c hc
  exact Nat.isDigit_of_mem_toDigits (by decide) (by decide) hc

theorem parseDigits_toDigits (n : Nat) : parseDigits (Nat.toDigits 10 n) = some n := by
  simp [parseDigits, digits_all, Nat.toDigits_ne_nil]

theorem parseInt_fmtInt (v : Int) : parseInt (fmtInt v) = some v := by
  unfold fmtInt
  by_cases h : v < 0
  · simp [h, parseInt, parseDigits_toDigits]; omega
  · simp only [h, if_false]
    cases hd : Nat.toDigits 10 v.natAbs with
    | nil => exact absurd hd Nat.toDigits_ne_nil
    | cons c ds =>
      have hc : c.isDigit := Nat.isDigit_of_mem_toDigits (b := 10) (n := v.natAbs) (by decide) (by decide) (by simp [hd])
      have h1 : c ≠ '-' := by intro h; subst h; simp [Char.isDigit] at hc
      have h2 : c ≠ '+' := by intro h; subst h; simp [Char.isDigit] at hc
      simp only [parseInt, h1, h2, if_false]
      rw [← hd, parseDigits_toDigits]
      simp; omega

theorem fmtInt_ne_nil (v : Int) : fmtInt v ≠ [] := by
  unfold fmtInt; split <;> simp [Nat.toDigits_ne_nil]

theorem fmtInt_no_space (v : Int) : ∀ c ∈ fmtInt v, c ≠ ' ' := by
  intro c hc
  unfold fmtInt at hc
  have hd : ∀ c ∈ Nat.toDigits 10 v.natAbs, c ≠ ' ' := by
    intro c hc h; subst h
    have := Nat.isDigit_of_mem_toDigits (b := 10) (by decide) (by decide) hc
    simp [Char.isDigit] at this
  split at hc
  · simp at hc
    rcases hc with rfl | hc
    · decide
    · exact hd c hc
  · exact hd c hc

theorem valueOf_fmt (x : Int) (c : Char) (u : Int) (hc : c ≠ ' ') (hu : unitOf c suffixUnits = some u) :
    intervalValueOfChars (fmtInt x ++ [c]) = .ok (x * u) := by
  have hf : (fmtInt x ++ [c]).filter (· != ' ') = fmtInt x ++ [c] := by
    rw [List.filter_eq_self]
    intro a ha
    simp at ha
    rcases ha with ha | rfl
    · simpa using fmtInt_no_space x a ha
    · simpa using hc
  have hl : ¬ (fmtInt x ++ [c]).length ≤ 1 := by
    have := fmtInt_ne_nil x
    cases hx : fmtInt x with
    | nil => exact absurd hx this
    | cons a t => simp
  simp only [intervalValueOfChars, hf, hl, if_false]
  simp [hu, parseInt_fmtInt]


theorem pickUnit_some {v : Int} {l : List (Int × Char)} {u : Int} {c : Char}
    (h : pickUnit v l = some (u, c)) : (u, c) ∈ l ∧ v.tmod u = 0 := by
  induction l with
  | nil => simp [pickUnit] at h
  | cons hd tl ih =>
    obtain ⟨u', c'⟩ := hd
    simp only [pickUnit] at h
    split at h
    · rename_i hc
      simp at h
      obtain ⟨rfl, rfl⟩ := h
      exact ⟨by simp, hc.1⟩
    · have := ih h
      exact ⟨by simp [this.1], this.2⟩

theorem pickUnit_none {v : Int} {l : List (Int × Char)} (h : pickUnit v l = none) :
    ∀ p ∈ l, ¬ (v.tmod p.1 = 0 ∧ v.tdiv p.1 > 0) := by
  induction l with
  | nil => simp
  | cons hd tl ih =>
    obtain ⟨u', c'⟩ := hd
    simp only [pickUnit] at h
    split at h
    · simp at h
    · rename_i hc
      intro p hp
      simp at hp
      rcases hp with rfl | hp
      · exact hc
      · exact ih h p hp

theorem ladder_facts {u : Int} {c : Char} (h : (u, c) ∈ stringLadder) :
    c ≠ ' ' ∧ unitOf c suffixUnits = some u ∧ (1000 : Int) ∣ u := by
  simp [stringLadder] at h
  rcases h with ⟨rfl, rfl⟩ | ⟨rfl, rfl⟩ | ⟨rfl, rfl⟩ | ⟨rfl, rfl⟩ | ⟨rfl, rfl⟩ <;>
    refine ⟨by decide, by decide, by decide⟩

/-- `ValueOf (String v)`, for every integer: exact when `v` is a whole number of seconds,
otherwise the sub-second remainder is lost (Go's truncating division). -/
theorem intervalChars_roundtrip (v : Int) :
    intervalValueOfChars (intervalChars v) = .ok (v - v.tmod 1000) := by
  unfold intervalChars
  cases hp : pickUnit v stringLadder with
  | some p =>
    obtain ⟨u, c⟩ := p
    obtain ⟨hm, hz⟩ := pickUnit_some hp
    obtain ⟨h1, h2, h3⟩ := ladder_facts hm
    simp only
    rw [valueOf_fmt _ c u h1 h2]
    have e1 : v.tdiv u * u = v := by
      have := Int.tmod_add_tdiv_mul v u
      rw [hz] at this
      omega
    have e2 : v.tmod 1000 = 0 := by
      apply Int.tmod_eq_zero_of_dvd
      exact Int.dvd_trans h3 (Int.dvd_of_tmod_eq_zero hz)
    rw [e1, e2]; simp
  | none =>
    simp only
    rw [valueOf_fmt _ 's' oneSecond (by decide) (by decide)]
    have := Int.tmod_add_tdiv_mul v 1000
    simp only [oneSecond]
    congr 1
    omega


/-! ## Query -/

theorem lookup_append (a b : Fields) (k : String) :
    lookup (a ++ b) k = (lookup b k).or (lookup a k) := by
  induction a with
  | nil => cases h : lookup b k <;> simp [lookup, h]
  | cons hd tl ih =>
    obtain ⟨k', v⟩ := hd
    simp only [List.cons_append, lookup, ih]
    cases lookup b k <;> simp

theorem lookup_cons (k' : String) (v : Json) (rest : Fields) (k : String) :
    lookup ((k', v) :: rest) k = (lookup rest k).or (if k' = k then some v else none) := by
  simp only [lookup]; cases lookup rest k <;> simp

theorem lookup_nil (k : String) : lookup [] k = none := rfl

theorem lookup_optField (k' : String) (empty : Bool) (v : Json) (k : String) :
    lookup (optField k' empty v) k = if empty = false ∧ k' = k then some v else none := by
  cases empty <;> simp [optField, lookup]

theorem lookup_optExpr (k' : String) (e : Expr) (k : String) :
    lookup (optExpr k' e) k = if k' = k then marshalRaw e else none := by
  unfold optExpr
  cases h : marshalRaw e <;> simp [lookup]

/-- a lookup in the marshalled statement, computed symbolically -/
macro "qlookup" : tactic =>
  `(tactic| simp [queryFields, lookup_append, lookup_optField, lookup_optExpr, lookup_cons, lookup_nil])

theorem q_explain (q : Query) : getBool (queryFields q) "explain" = .ok q.explain := by
  unfold getBool; qlookup; cases q.explain <;> simp

theorem q_ns (q : Query) : getStr (queryFields q) "namespace" = .ok q.ns := by
  unfold getStr; qlookup
  by_cases h : q.ns = "" <;> simp [h]


theorem q_metric (q : Query) : getStr (queryFields q) "metricName" = .ok q.metricName := by
  unfold getStr; qlookup
  by_cases h : q.metricName = "" <;> simp [h]

theorem q_allFields (q : Query) : getBool (queryFields q) "allFields" = .ok q.allFields := by
  unfold getBool; qlookup; cases q.allFields <;> simp

theorem q_auto (q : Query) : getBool (queryFields q) "autoGroupByTime" = .ok q.autoGroupByTime := by
  unfold getBool; qlookup; cases q.autoGroupByTime <;> simp

theorem q_ratio (q : Query) : getInt (queryFields q) "intervalRatio" = .ok q.intervalRatio := by
  unfold getInt; qlookup
  by_cases h : q.intervalRatio = 0 <;> simp [h]

theorem q_limit (q : Query) : getInt (queryFields q) "limit" = .ok q.limit := by
  unfold getInt; qlookup
  by_cases h : q.limit = 0 <;> simp [h]

theorem q_timeRange (q : Query) : getStruct (queryFields q) "timeRange" =
    .ok [("start", .int q.timeRange.start), ("end", .int q.timeRange.stop)] := by
  unfold getStruct; qlookup; simp [structFields]

theorem q_interval (q : Query) : getInterval (queryFields q) "interval" =
    .ok (q.interval - q.interval.tmod 1000) := by
  unfold getInterval; qlookup
  simp [intervalValueOf, intervalString, intervalChars_roundtrip]

theorem q_storage (q : Query) : getInterval (queryFields q) "storageInterval" =
    .ok (q.storageInterval - q.storageInterval.tmod 1000) := by
  unfold getInterval; qlookup
  simp [intervalValueOf, intervalString, intervalChars_roundtrip]

theorem q_groupBy (q : Query) : getStrList (queryFields q) "groupBy" = .ok q.groupBy := by
  unfold getStrList; qlookup
  cases h : q.groupBy with
  | nil => simp
  | cons a t => simpa using strElems_map (a :: t)

theorem q_selectRaw (q : Query) : ∃ r, getRawList (queryFields q) "selectItems" = .ok r := by
  unfold getRawList; qlookup
  cases h : q.selectItems <;> simp

theorem q_orderRaw (q : Query) : ∃ r, getRawList (queryFields q) "orderByItems" = .ok r := by
  unfold getRawList; qlookup
  cases h : q.orderByItems <;> simp

theorem q_selectElems (q : Query) : arrElems (queryFields q) "selectItems" = marshalList q.selectItems := by
  unfold arrElems; qlookup
  cases h : q.selectItems <;> simp [marshalList]

theorem q_orderElems (q : Query) : arrElems (queryFields q) "orderByItems" = marshalList q.orderByItems := by
  unfold arrElems; qlookup
  cases h : q.orderByItems <;> simp [marshalList]

theorem rawElem_marshalRaw (e : Expr) :
    (match marshalRaw e with | none => none | some v => rawElem v) = marshalRaw e := by
  cases e <;> simp [marshalRaw, marshal, rawElem]

theorem q_condition (q : Query) : getRaw (queryFields q) "condition" = marshalRaw q.condition := by
  unfold getRaw; qlookup; exact rawElem_marshalRaw _

theorem q_having (q : Query) : getRaw (queryFields q) "having" = marshalRaw q.having := by
  unfold getRaw; qlookup; exact rawElem_marshalRaw _

theorem unmarshalOpt_marshal (e : Expr) :
    unmarshalOpt (marshalRaw e) = if optWellFormed e then .ok e else .error .syntax := by
  have h := unmarshal_marshal e
  cases e with
  | nil => simp [unmarshalOpt, marshalRaw, optWellFormed]
  | _ => exact h

/-- what the wire keeps of a statement: everything, except that both intervals are cut to whole
seconds by `Interval.String` -/
def Query.wireImage (q : Query) : Query :=
  { q with interval := q.interval - q.interval.tmod 1000,
           storageInterval := q.storageInterval - q.storageInterval.tmod 1000 }

theorem unmarshalQuery_marshalQuery (q : Query) :
    unmarshalQuery (marshalQuery q) = if q.wellFormed then .ok q.wireImage else .error .syntax := by
  obtain ⟨r1, h1⟩ := q_selectRaw q
  obtain ⟨r2, h2⟩ := q_orderRaw q
  simp only [unmarshalQuery, marshalQuery, structFields, bind, Except.bind, pure, Except.pure,
    q_explain, q_ns, q_metric, q_allFields, q_auto, q_ratio, q_limit, q_timeRange, q_interval,
    q_storage, q_groupBy, h1, h2, q_selectElems, q_orderElems, q_condition, q_having,
    unmarshalOpt_marshal, unmarshalAll_marshalList]
  simp only [getInt, lookup]
  simp only [Query.wellFormed, Query.wireImage]
  by_cases c1 : optWellFormed q.condition <;> by_cases c2 : optWellFormed q.having <;>
    by_cases c3 : wellFormedList q.selectItems <;> by_cases c4 : wellFormedList q.orderByItems <;>
    simp [c1, c2, c3, c4]


/-! ## MetricMetadata -/

macro "mlookup" : tactic =>
  `(tactic| simp [metadataFields, lookup_append, lookup_optField, lookup_optExpr, lookup_cons, lookup_nil])

theorem m_ns (m : Metadata) : getStr (metadataFields m) "namespace" = .ok m.ns := by
  unfold getStr; mlookup; by_cases h : m.ns = "" <;> simp [h]
theorem m_metric (m : Metadata) : getStr (metadataFields m) "metricName" = .ok m.metricName := by
  unfold getStr; mlookup; by_cases h : m.metricName = "" <;> simp [h]
theorem m_tagKey (m : Metadata) : getStr (metadataFields m) "tagKey" = .ok m.tagKey := by
  unfold getStr; mlookup; by_cases h : m.tagKey = "" <;> simp [h]
theorem m_prefix (m : Metadata) : getStr (metadataFields m) "prefix" = .ok m.prefix_ := by
  unfold getStr; mlookup; by_cases h : m.prefix_ = "" <;> simp [h]
theorem m_kind (m : Metadata) (hk : m.kind < 256) : getU8 (metadataFields m) "type" = .ok m.kind := by
  unfold getU8; mlookup
  by_cases h : m.kind = 0
  · simp [h]
  · have : (m.kind : Int) < 256 := by omega
    simp [h, this]
theorem m_limit (m : Metadata) : getInt (metadataFields m) "limit" = .ok m.limit := by
  unfold getInt; mlookup; by_cases h : m.limit = 0 <;> simp [h]
theorem m_condition (m : Metadata) : getRaw (metadataFields m) "condition" = marshalRaw m.condition := by
  unfold getRaw; mlookup; exact rawElem_marshalRaw _

theorem unmarshalMetadata_marshalMetadata (m : Metadata) (hk : m.kind < 256) :
    unmarshalMetadata (marshalMetadata m) =
      if optWellFormed m.condition then .ok m else .error .syntax := by
  simp only [unmarshalMetadata, marshalMetadata, structFields, bind, Except.bind, pure, Except.pure,
    m_ns, m_metric, m_tagKey, m_prefix, m_kind m hk, m_limit, m_condition, unmarshalOpt_marshal]
  by_cases c1 : optWellFormed m.condition <;> simp [c1]

end LinVerif.Stmt
