/-
C09, the node (one metadata database, several shards) in sequential histories: the invariant of the
metadata database and what every operation does to the four metadata views
(metric, field, tag key, tag value).
-/
import LinVerif.Lemmas.C09KvSeq
import LinVerif.Lemmas.C09Schema

namespace LinVerif.IdAssign

def Seq.le (a b : Seq) : Prop :=
  a.ns ≤ b.ns ∧ a.metric ≤ b.metric ∧ a.tagKey ≤ b.tagKey ∧ a.tagValue ≤ b.tagValue

theorem Seq.le_refl (a : Seq) : a.le a := ⟨Nat.le_refl _, Nat.le_refl _, Nat.le_refl _, Nat.le_refl _⟩

/-- the metadata database: every dictionary is a stable injective map below its in-memory counter,
and what has reached the kv families lies below the counter in the sequence file -/
structure MetaInv (nd : Node) : Prop where
  le : nd.seqMmap.le nd.seqMem
  ns : SeqInv nd.ns nd.seqMem.ns nd.seqMmap.ns
  metric : SeqInv nd.metric nd.seqMem.metric nd.seqMmap.metric
  tagValue : SeqInv nd.tagValue nd.seqMem.tagValue nd.seqMmap.tagValue
  schema : SchInv nd.schema nd.seqMem.tagKey nd.seqMmap.tagKey

/-- a name of one of the metadata kinds, with its scope -/
inductive MetaKey
  | metric (nb ns name : Nat)   -- scope: the namespace (nb = first byte of its name)
  | field (m f : Nat)           -- scope: the metric id
  | tagKey (m k : Nat)          -- scope: the metric id
  | tagValue (tk v : Nat)       -- scope: the tag key id
  deriving DecidableEq, Repr

/-- the id the node would answer for a name right now (lookup only) -/
def Node.mview (nd : Node) : MetaKey → Option Nat
  | .metric nb ns name => nd.getMetric nb ns name
  | .field m f => nd.schema.fieldView m f
  | .tagKey m k => nd.schema.tagKeyView m k
  | .tagValue tk v => nd.tagValue.lookup tk v

/-- two names of the same kind and scope -/
def MetaKey.sameScope : MetaKey → MetaKey → Prop
  | .metric nb ns _, .metric nb' ns' _ => nb = nb' ∧ ns = ns'
  | .field m _, .field m' _ => m = m'
  | .tagKey m _, .tagKey m' _ => m = m'
  | .tagValue tk _, .tagValue tk' _ => tk = tk'
  | _, _ => False

def MonoMeta (nd nd' : Node) : Prop := ∀ k i, nd.mview k = some i → nd'.mview k = some i

theorem MonoMeta.refl (nd : Node) : MonoMeta nd nd := fun _ _ h => h
theorem MonoMeta.trans {a b c : Node} (h1 : MonoMeta a b) (h2 : MonoMeta b c) : MonoMeta a c :=
  fun k i h => h2 k i (h1 k i h)

theorem metaInv_init (lim : Limits) (n : Nat) : MetaInv { lim := lim, nShards := n } :=
  ⟨Seq.le_refl _, seqInv_init _ _, seqInv_init _ _, seqInv_init _ _, schInv_init _ _⟩

/-! ### within one scope the view is injective -/

theorem mview_inj {nd : Node} (inv : MetaInv nd) {k k' : MetaKey} {i : Nat} (hs : k.sameScope k')
    (h1 : nd.mview k = some i) (h2 : nd.mview k' = some i) : k = k' := by
  cases k with
  | metric nb ns name =>
    cases k' with
    | metric nb' ns' name' =>
      obtain ⟨rfl, rfl⟩ := hs
      simp only [Node.mview, Node.getMetric] at h1 h2
      cases hns : nd.ns.lookup nb ns with
      | none => rw [hns] at h1; cases h1
      | some nsID =>
        rw [hns] at h1 h2
        have := (inv.metric.inj _ _ _ _ _ h1 h2).2
        rw [this]
    | field _ _ => cases hs
    | tagKey _ _ => cases hs
    | tagValue _ _ => cases hs
  | field m f =>
    cases k' with
    | field m' f' =>
      have : m = m' := hs
      subst this
      rw [fieldView_inj inv.schema inv.le.2.2.1 h1 h2]
    | metric _ _ _ => cases hs
    | tagKey _ _ => cases hs
    | tagValue _ _ => cases hs
  | tagKey m k =>
    cases k' with
    | tagKey m' k' =>
      have : m = m' := hs
      subst this
      rw [tagKeyView_inj inv.schema inv.le.2.2.1 h1 h2]
    | metric _ _ _ => cases hs
    | field _ _ => cases hs
    | tagValue _ _ => cases hs
  | tagValue tk v =>
    cases k' with
    | tagValue tk' v' =>
      have : tk = tk' := hs
      subst this
      have := (inv.tagValue.inj _ _ _ _ _ h1 h2).2
      rw [this]
    | metric _ _ _ => cases hs
    | field _ _ => cases hs
    | tagKey _ _ => cases hs

/-! ### get-or-create on one dictionary -/

structure KvGenSpec (s : KvStore) (ctr d b n : Nat) (s' : KvStore) (ctr' : Nat) (out : Option Nat) : Prop where
  inv : SeqInv s' ctr' d
  res : ∃ i, out = some i ∧ s'.lookup b n = some i
  mono : ∀ b' n' j, s.lookup b' n' = some j → s'.lookup b' n' = some j
  le : ctr ≤ ctr'
  disk : s'.disk = s.disk

theorem kvGen_spec {s : KvStore} {ctr d : Nat} (h : SeqInv s ctr d) (v : KvVariant) (b n : Nat) :
    KvGenSpec s ctr d b n (getOrCreate v s ctr b n).1 (getOrCreate v s ctr b n).2.1 (getOrCreate v s ctr b n).2.2 := by
  cases hl : s.lookup b n with
  | some i =>
    rw [getOrCreate_hit v s ctr b n i hl]
    exact ⟨h, ⟨i, rfl, hl⟩, fun _ _ _ x => x, Nat.le_refl _, rfl⟩
  | none =>
    rw [getOrCreate_miss v s ctr b n hl]
    refine ⟨seqInv_insert h hl, ⟨ctr, rfl, ?_⟩, ?_, Nat.le_succ _, rfl⟩
    · rw [lookup_insert]; simp
    · intro b' n' j hj
      rw [lookup_insert]
      by_cases hk : b' = b ∧ n' = n
      · obtain ⟨rfl, rfl⟩ := hk; rw [hl] at hj; cases hj
      · simp [hk, hj]

/-! ### after an allocation: the write-through variant copies the counters into the mmap page -/

theorem metaInv_afterAlloc {nd : Node} (c : Cfg) (inv : MetaInv nd) : MetaInv (Node.afterAlloc c nd) := by
  unfold Node.afterAlloc
  by_cases h : c.seqWriteThrough = true
  · rw [if_pos h]
    exact ⟨Seq.le_refl _, seqInv_mono inv.ns (Nat.le_refl _) inv.le.1,
      seqInv_mono inv.metric (Nat.le_refl _) inv.le.2.1,
      seqInv_mono inv.tagValue (Nat.le_refl _) inv.le.2.2.2,
      schInv_mono inv.schema (Nat.le_refl _) inv.le.2.2.1⟩
  · rw [if_neg h]; exact inv

theorem afterAlloc_mview (c : Cfg) (nd : Node) (k : MetaKey) : (Node.afterAlloc c nd).mview k = nd.mview k := by
  unfold Node.afterAlloc
  by_cases h : c.seqWriteThrough = true
  · rw [if_pos h]; cases k <;> rfl
  · rw [if_neg h]

theorem afterAlloc_shards (c : Cfg) (nd : Node) : (Node.afterAlloc c nd).shards = nd.shards := by
  unfold Node.afterAlloc; split <;> rfl

theorem afterAlloc_lim (c : Cfg) (nd : Node) : (Node.afterAlloc c nd).lim = nd.lim := by
  unfold Node.afterAlloc; split <;> rfl

/-- what a metadata get-or-create operation guarantees -/
structure MetaGenSpec (nd : Node) (key : MetaKey) (nd' : Node) (out : GenOut) : Prop where
  inv : MetaInv nd'
  ret : ∀ i, out = .id i → nd'.mview key = some i
  hit : ∀ j, nd.mview key = some j → out = .id j
  mono : MonoMeta nd nd'
  shards : nd'.shards = nd.shards
  lim : nd'.lim = nd.lim

def Node.withTagValue (nd : Node) (s : KvStore) (ctr : Nat) : Node :=
  { nd with tagValue := s, seqMem := { nd.seqMem with tagValue := ctr } }
def Node.withNs (nd : Node) (s : KvStore) (ctr : Nat) : Node :=
  { nd with ns := s, seqMem := { nd.seqMem with ns := ctr } }
def Node.withMetric (nd : Node) (s : KvStore) (ctr : Nat) : Node :=
  { nd with metric := s, seqMem := { nd.seqMem with metric := ctr } }
def Node.withTagKey (nd : Node) (s : SchemaStore) (ctr : Nat) : Node :=
  { nd with schema := s, seqMem := { nd.seqMem with tagKey := ctr } }

theorem genTagValueID_spec {nd : Node} (c : Cfg) (inv : MetaInv nd) (tk v : Nat) :
    MetaGenSpec nd (.tagValue tk v) (nd.genTagValueID c tk v).1 (nd.genTagValueID c tk v).2 := by
  have g := kvGen_spec inv.tagValue c.kv tk v
  obtain ⟨i, hi, hl⟩ := g.res
  have e : nd.genTagValueID c tk v =
      (Node.afterAlloc c (nd.withTagValue (getOrCreate c.kv nd.tagValue nd.seqMem.tagValue tk v).1
        (getOrCreate c.kv nd.tagValue nd.seqMem.tagValue tk v).2.1), .id i) := by
    unfold Node.genTagValueID; simp only [hi]; rfl
  rw [e]
  have inv1 : MetaInv (nd.withTagValue (getOrCreate c.kv nd.tagValue nd.seqMem.tagValue tk v).1
        (getOrCreate c.kv nd.tagValue nd.seqMem.tagValue tk v).2.1) :=
    ⟨⟨inv.le.1, inv.le.2.1, inv.le.2.2.1, Nat.le_trans inv.le.2.2.2 g.le⟩, inv.ns, inv.metric, g.inv, inv.schema⟩
  have mono1 : MonoMeta nd (nd.withTagValue (getOrCreate c.kv nd.tagValue nd.seqMem.tagValue tk v).1
        (getOrCreate c.kv nd.tagValue nd.seqMem.tagValue tk v).2.1) := by
    intro k j hj
    cases k with
    | tagValue tk' v' => exact g.mono _ _ _ hj
    | metric _ _ _ => exact hj
    | field _ _ => exact hj
    | tagKey _ _ => exact hj
  refine ⟨metaInv_afterAlloc c inv1, ?_, ?_, ?_, ?_, ?_⟩
  · intro i' h; cases h; rw [afterAlloc_mview]; exact hl
  · intro j hj
    have e2 := g.mono _ _ _ hj
    rw [hl] at e2; cases e2; rfl
  · intro k j hj; rw [afterAlloc_mview]; exact mono1 k j hj
  · rw [afterAlloc_shards]; rfl
  · rw [afterAlloc_lim]; rfl

theorem genFieldID_spec {nd : Node} (c : Cfg) (inv : MetaInv nd) (m f : Nat) :
    MetaGenSpec nd (.field m f) (nd.genFieldID c m f).1 (nd.genFieldID c m f).2 := by
  have g := genField_spec inv.schema inv.le.2.2.1 c.schema nd.lim m f
  unfold Node.genFieldID
  simp only []
  refine ⟨⟨inv.le, inv.ns, inv.metric, inv.tagValue, g.inv⟩, g.ret, g.hit, ?_, rfl, rfl⟩
  intro k j hj
  cases k with
  | field m' f' => exact g.monoF _ _ _ hj
  | tagKey m' k' => exact g.monoT _ _ _ hj
  | metric _ _ _ => exact hj
  | tagValue _ _ => exact hj

theorem genTagKeyID_spec {nd : Node} (c : Cfg) (inv : MetaInv nd) (m k : Nat) :
    MetaGenSpec nd (.tagKey m k) (nd.genTagKeyID c m k).1 (nd.genTagKeyID c m k).2 := by
  have g := genTagKey_spec inv.schema inv.le.2.2.1 c.schema nd.lim m k
  have e : nd.genTagKeyID c m k =
      (Node.afterAlloc c (nd.withTagKey (genTagKey c.schema nd.lim nd.schema nd.seqMem.tagKey m k).1
        (genTagKey c.schema nd.lim nd.schema nd.seqMem.tagKey m k).2.1),
       (genTagKey c.schema nd.lim nd.schema nd.seqMem.tagKey m k).2.2) := rfl
  rw [e]
  have inv1 : MetaInv (nd.withTagKey (genTagKey c.schema nd.lim nd.schema nd.seqMem.tagKey m k).1
        (genTagKey c.schema nd.lim nd.schema nd.seqMem.tagKey m k).2.1) :=
    ⟨⟨inv.le.1, inv.le.2.1, Nat.le_trans inv.le.2.2.1 g.ctrLe, inv.le.2.2.2⟩, inv.ns, inv.metric, inv.tagValue, g.inv⟩
  have mono1 : MonoMeta nd (nd.withTagKey (genTagKey c.schema nd.lim nd.schema nd.seqMem.tagKey m k).1
        (genTagKey c.schema nd.lim nd.schema nd.seqMem.tagKey m k).2.1) := by
    intro k' j hj
    cases k' with
    | field m' f' => exact g.monoF _ _ _ hj
    | tagKey m' k'' => exact g.monoT _ _ _ hj
    | metric _ _ _ => exact hj
    | tagValue _ _ => exact hj
  refine ⟨metaInv_afterAlloc c inv1, ?_, ?_, ?_, ?_, ?_⟩
  · intro i h; rw [afterAlloc_mview]; exact g.ret i h
  · exact g.hit
  · intro k' j hj; rw [afterAlloc_mview]; exact mono1 k' j hj
  · rw [afterAlloc_shards]; rfl
  · rw [afterAlloc_lim]; rfl

/-- the namespace step of `GenMetricID` -/
theorem nsStep_spec {nd : Node} (c : Cfg) (inv : MetaInv nd) (nb ns : Nat) :
    let r := getOrCreate c.kv nd.ns nd.seqMem.ns nb ns
    let nd2 := Node.afterAlloc c (nd.withNs r.1 r.2.1)
    MetaInv nd2 ∧ MonoMeta nd nd2 ∧ nd2.shards = nd.shards ∧ nd2.lim = nd.lim ∧
      ∃ nsID, r.2.2 = some nsID ∧ nd2.ns.lookup nb ns = some nsID := by
  intro r nd2
  have g1 := kvGen_spec inv.ns c.kv nb ns
  obtain ⟨nsID, h1, hl1⟩ := g1.res
  have inv1 : MetaInv (nd.withNs r.1 r.2.1) :=
    ⟨⟨Nat.le_trans inv.le.1 g1.le, inv.le.2.1, inv.le.2.2.1, inv.le.2.2.2⟩, g1.inv, inv.metric, inv.tagValue, inv.schema⟩
  have mono1 : MonoMeta nd (nd.withNs r.1 r.2.1) := by
    intro k j hj
    cases k with
    | metric nb' ns' name' =>
      simp only [Node.mview, Node.getMetric] at hj ⊢
      cases hq : nd.ns.lookup nb' ns' with
      | none => rw [hq] at hj; cases hj
      | some q =>
        rw [hq] at hj
        have : (nd.withNs r.1 r.2.1).ns.lookup nb' ns' = some q := g1.mono _ _ _ hq
        rw [this]; exact hj
    | field _ _ => exact hj
    | tagKey _ _ => exact hj
    | tagValue _ _ => exact hj
  refine ⟨metaInv_afterAlloc c inv1, ?_, ?_, ?_, nsID, h1, ?_⟩
  · intro k j hj; rw [afterAlloc_mview]; exact mono1 k j hj
  · show (Node.afterAlloc c _).shards = _; rw [afterAlloc_shards]; rfl
  · show (Node.afterAlloc c _).lim = _; rw [afterAlloc_lim]; rfl
  · have : nd2.ns = r.1 := by show (Node.afterAlloc c _).ns = _; unfold Node.afterAlloc; split <;> rfl
    rw [this]; exact hl1

/-- the metric-name step of `GenMetricID`, in the bucket `nsID` -/
theorem metricStep_spec {nd : Node} (c : Cfg) (inv : MetaInv nd) (nsID name : Nat) :
    let r := getOrCreate c.kv nd.metric nd.seqMem.metric nsID name
    let nd2 := Node.afterAlloc c (nd.withMetric r.1 r.2.1)
    MetaInv nd2 ∧ MonoMeta nd nd2 ∧ nd2.shards = nd.shards ∧ nd2.lim = nd.lim ∧ nd2.ns = nd.ns ∧
      ∃ mid, r.2.2 = some mid ∧ nd2.metric.lookup nsID name = some mid := by
  intro r nd2
  have g2 := kvGen_spec inv.metric c.kv nsID name
  obtain ⟨mid, h2, hl2⟩ := g2.res
  have inv1 : MetaInv (nd.withMetric r.1 r.2.1) :=
    ⟨⟨inv.le.1, Nat.le_trans inv.le.2.1 g2.le, inv.le.2.2.1, inv.le.2.2.2⟩, inv.ns, g2.inv, inv.tagValue, inv.schema⟩
  have mono1 : MonoMeta nd (nd.withMetric r.1 r.2.1) := by
    intro k j hj
    cases k with
    | metric nb' ns' name' =>
      simp only [Node.mview, Node.getMetric] at hj ⊢
      show (match nd.ns.lookup nb' ns' with | none => none | some q => r.1.lookup q name') = some j
      cases hq : nd.ns.lookup nb' ns' with
      | none => rw [hq] at hj; cases hj
      | some q => rw [hq] at hj; exact g2.mono _ _ _ hj
    | field _ _ => exact hj
    | tagKey _ _ => exact hj
    | tagValue _ _ => exact hj
  refine ⟨metaInv_afterAlloc c inv1, ?_, ?_, ?_, ?_, mid, h2, ?_⟩
  · intro k j hj; rw [afterAlloc_mview]; exact mono1 k j hj
  · show (Node.afterAlloc c _).shards = _; rw [afterAlloc_shards]; rfl
  · show (Node.afterAlloc c _).lim = _; rw [afterAlloc_lim]; rfl
  · show (Node.afterAlloc c _).ns = _; unfold Node.afterAlloc; split <;> rfl
  · have : nd2.metric = r.1 := by show (Node.afterAlloc c _).metric = _; unfold Node.afterAlloc; split <;> rfl
    rw [this]; exact hl2

theorem genMetric_spec {nd : Node} (c : Cfg) (inv : MetaInv nd) (nb ns name : Nat) :
    MetaGenSpec nd (.metric nb ns name) (nd.genMetric c nb ns name).1 (nd.genMetric c nb ns name).2 := by
  obtain ⟨inv2, mono2, sh2, lim2, nsID, h1, hl1⟩ := nsStep_spec c inv nb ns
  obtain ⟨inv3, mono3, sh3, lim3, ns3, mid, h2, hl2⟩ := metricStep_spec c inv2 nsID name
  have e : nd.genMetric c nb ns name =
      (Node.afterAlloc c ((Node.afterAlloc c (nd.withNs (getOrCreate c.kv nd.ns nd.seqMem.ns nb ns).1 (getOrCreate c.kv nd.ns nd.seqMem.ns nb ns).2.1)).withMetric
        (getOrCreate c.kv (Node.afterAlloc c (nd.withNs (getOrCreate c.kv nd.ns nd.seqMem.ns nb ns).1 (getOrCreate c.kv nd.ns nd.seqMem.ns nb ns).2.1)).metric
          (Node.afterAlloc c (nd.withNs (getOrCreate c.kv nd.ns nd.seqMem.ns nb ns).1 (getOrCreate c.kv nd.ns nd.seqMem.ns nb ns).2.1)).seqMem.metric nsID name).1
        (getOrCreate c.kv (Node.afterAlloc c (nd.withNs (getOrCreate c.kv nd.ns nd.seqMem.ns nb ns).1 (getOrCreate c.kv nd.ns nd.seqMem.ns nb ns).2.1)).metric
          (Node.afterAlloc c (nd.withNs (getOrCreate c.kv nd.ns nd.seqMem.ns nb ns).1 (getOrCreate c.kv nd.ns nd.seqMem.ns nb ns).2.1)).seqMem.metric nsID name).2.1),
       .id mid) := by
    unfold Node.genMetric
    simp only [h1]
    simp only [Node.withNs, Node.withMetric] at h2 ⊢
    simp only [h2]
  rw [e]
  have view3 : (Node.afterAlloc c ((Node.afterAlloc c (nd.withNs (getOrCreate c.kv nd.ns nd.seqMem.ns nb ns).1 (getOrCreate c.kv nd.ns nd.seqMem.ns nb ns).2.1)).withMetric
        (getOrCreate c.kv (Node.afterAlloc c (nd.withNs (getOrCreate c.kv nd.ns nd.seqMem.ns nb ns).1 (getOrCreate c.kv nd.ns nd.seqMem.ns nb ns).2.1)).metric
          (Node.afterAlloc c (nd.withNs (getOrCreate c.kv nd.ns nd.seqMem.ns nb ns).1 (getOrCreate c.kv nd.ns nd.seqMem.ns nb ns).2.1)).seqMem.metric nsID name).1
        (getOrCreate c.kv (Node.afterAlloc c (nd.withNs (getOrCreate c.kv nd.ns nd.seqMem.ns nb ns).1 (getOrCreate c.kv nd.ns nd.seqMem.ns nb ns).2.1)).metric
          (Node.afterAlloc c (nd.withNs (getOrCreate c.kv nd.ns nd.seqMem.ns nb ns).1 (getOrCreate c.kv nd.ns nd.seqMem.ns nb ns).2.1)).seqMem.metric nsID name).2.1)).mview (.metric nb ns name) = some mid := by
    simp only [Node.mview, Node.getMetric]
    rw [ns3, hl1]; exact hl2
  have monoAll := mono2.trans mono3
  refine ⟨inv3, ?_, ?_, monoAll, ?_, ?_⟩
  · intro i h; cases h; exact view3
  · intro j hj
    have := monoAll _ _ hj
    rw [view3] at this; cases this; rfl
  · rw [sh3, sh2]
  · rw [lim3, lim2]

/-! ### operations that touch only a shard -/

theorem metaInv_setShard {nd : Node} (inv : MetaInv nd) (k : Nat) (sh : Shard) : MetaInv (nd.setShard k sh) :=
  ⟨inv.le, inv.ns, inv.metric, inv.tagValue, inv.schema⟩

theorem mview_setShard (nd : Node) (k : Nat) (sh : Shard) (key : MetaKey) : (nd.setShard k sh).mview key = nd.mview key := by
  cases key <;> rfl

/-- `buildInvertIndex`: tag keys / tag values are created in the metadata database, index entries
are added to the shard -/
theorem buildInverted_spec (c : Cfg) (shard m sid : Nat) (tags : List (Nat × Nat)) :
    ∀ nd : Node, MetaInv nd →
      MetaInv (Node.buildInverted c shard m sid nd tags) ∧ MonoMeta nd (Node.buildInverted c shard m sid nd tags) ∧
      (Node.buildInverted c shard m sid nd tags).lim = nd.lim := by
  induction tags with
  | nil => intro nd inv; exact ⟨inv, MonoMeta.refl _, rfl⟩
  | cons kv rest ih =>
    intro nd inv
    obtain ⟨k, v⟩ := kv
    have g1 := genTagKeyID_spec c inv m k
    cases h1 : (nd.genTagKeyID c m k).2 with
    | id tk =>
      have g2 := genTagValueID_spec c g1.inv tk v
      cases h2 : ((nd.genTagKeyID c m k).1.genTagValueID c tk v).2 with
      | id tv =>
        have inv3 := metaInv_setShard g2.inv shard
          { ((nd.genTagKeyID c m k).1.genTagValueID c tk v).1.shards shard with
            inv := (((nd.genTagKeyID c m k).1.genTagValueID c tk v).1.shards shard).inv.put (tv, sid),
            fwd := (((nd.genTagKeyID c m k).1.genTagValueID c tk v).1.shards shard).fwd.put (tk, tv, sid) }
        obtain ⟨i4, m4, l4⟩ := ih _ inv3
        simp only [Node.buildInverted, h1, h2]
        refine ⟨i4, ?_, ?_⟩
        · refine (g1.mono.trans g2.mono).trans (MonoMeta.trans ?_ m4)
          intro key j hj; rw [mview_setShard]; exact hj
        · rw [l4]; show ((nd.genTagKeyID c m k).1.genTagValueID c tk v).1.lim = nd.lim
          rw [g2.lim, g1.lim]
      | tooManyFields | tooManyTags | tooManySeries | stuck =>
        obtain ⟨i4, m4, l4⟩ := ih _ g2.inv
        simp only [Node.buildInverted, h1, h2]
        exact ⟨i4, (g1.mono.trans g2.mono).trans m4, by rw [l4, g2.lim, g1.lim]⟩
    | tooManyFields | tooManyTags | tooManySeries | stuck =>
      obtain ⟨i4, m4, l4⟩ := ih _ g1.inv
      simp only [Node.buildInverted, h1]
      exact ⟨i4, g1.mono.trans m4, by rw [l4, g1.lim]⟩

theorem genSeries_meta {nd : Node} (c : Cfg) (inv : MetaInv nd) (shard m ts : Nat) (tags : List (Nat × Nat)) :
    MetaInv (nd.genSeries c shard m ts tags).1 ∧ MonoMeta nd (nd.genSeries c shard m ts tags).1 ∧
    (nd.genSeries c shard m ts tags).1.lim = nd.lim := by
  unfold Node.genSeries
  simp only []
  cases (nd.shards shard).series.lookup m ts with
  | some i => exact ⟨inv, MonoMeta.refl _, rfl⟩
  | none =>
    simp only []
    split
    · exact ⟨metaInv_setShard inv _ _, fun key j hj => by rw [mview_setShard]; exact hj, rfl⟩
    · split
      · exact ⟨metaInv_setShard inv _ _, fun key j hj => by rw [mview_setShard]; exact hj, rfl⟩
      · obtain ⟨i4, m4, l4⟩ := buildInverted_spec c shard m ((nd.shards shard).createSeriesID m) tags _
          (metaInv_setShard inv shard _)
        refine ⟨i4, MonoMeta.trans (fun key j hj => by rw [mview_setShard]; exact hj) m4, ?_⟩
        rw [l4]; rfl

/-! ### PrepareFlush / Flush of the metadata database -/

theorem metaPrepare_spec {nd : Node} (inv : MetaInv nd) :
    MetaInv nd.metaPrepare ∧ (∀ k, nd.metaPrepare.mview k = nd.mview k) := by
  obtain ⟨si, sl, _⟩ := schema_prepare_spec inv.schema
  refine ⟨⟨inv.le, seqInv_prepare inv.ns, seqInv_prepare inv.metric, seqInv_prepare inv.tagValue, si⟩, ?_⟩
  intro k
  cases k with
  | metric nb ns name =>
    simp only [Node.mview, Node.getMetric, Node.metaPrepare, lookup_prepare]
  | field m f => simp only [Node.mview, Node.metaPrepare, SchemaStore.fieldView, sl]
  | tagKey m k => simp only [Node.mview, Node.metaPrepare, SchemaStore.tagKeyView, sl]
  | tagValue tk v => simp only [Node.mview, Node.metaPrepare, lookup_prepare]

theorem metaDropEmpty_spec {nd : Node} (inv : MetaInv nd) :
    MetaInv nd.metaDropEmpty ∧ (∀ k, nd.metaDropEmpty.mview k = nd.mview k) := by
  obtain ⟨si, sl, _⟩ := schema_dropEmpty_spec inv.schema
  refine ⟨⟨inv.le, seqInv_dropEmpty inv.ns, seqInv_dropEmpty inv.metric, seqInv_dropEmpty inv.tagValue, si⟩, ?_⟩
  intro k
  cases k with
  | metric nb ns name =>
    simp only [Node.mview, Node.getMetric, Node.metaDropEmpty, lookup_dropEmpty inv.ns.immE, lookup_dropEmpty inv.metric.immE]
  | field m f => simp only [Node.mview, Node.metaDropEmpty, SchemaStore.fieldView, sl]
  | tagKey m k => simp only [Node.mview, Node.metaDropEmpty, SchemaStore.tagKeyView, sl]
  | tagValue tk v => simp only [Node.mview, Node.metaDropEmpty, lookup_dropEmpty inv.tagValue.immE]

/-- `metricMetaDatabase.PrepareFlush` in either shape of its test -/
theorem metaPrepareE_spec {nd : Node} (inv : MetaInv nd) (se : Bool) :
    MetaInv (nd.metaPrepareE se) ∧ (∀ k, (nd.metaPrepareE se).mview k = nd.mview k) ∧
    (nd.metaPrepareE se).shards = nd.shards ∧ (nd.metaPrepareE se).seqMem = nd.seqMem ∧ (nd.metaPrepareE se).seqMmap = nd.seqMmap := by
  unfold Node.metaPrepareE
  cases se with
  | false =>
    obtain ⟨a, v⟩ := metaPrepare_spec inv
    exact ⟨by simpa using a, fun k => by simpa using v k, rfl, rfl, rfl⟩
  | true =>
    obtain ⟨a1, v1⟩ := metaDropEmpty_spec inv
    obtain ⟨a2, v2⟩ := metaPrepare_spec a1
    exact ⟨by simpa using a2, fun k => by simp [v2, v1], rfl, rfl, rfl⟩

def Node.Synced (nd : Node) : Prop := nd.seqMmap = nd.seqMem

/-- one step of `metricMetaDatabase.Flush`; the steps after `Sequence.Sync()` need the counters synced -/
theorem metaFlushStep_spec {nd : Node} (inv : MetaInv nd) (j : Nat) (hs : 1 ≤ j → nd.Synced) :
    MetaInv (nd.metaFlushStep j) ∧ (nd.metaFlushStep j).Synced ∨ (j ≥ 5 ∧ nd.metaFlushStep j = nd) := by
  match j with
  | 0 =>
    left
    refine ⟨⟨Seq.le_refl _, seqInv_mono inv.ns (Nat.le_refl _) inv.le.1, seqInv_mono inv.metric (Nat.le_refl _) inv.le.2.1,
      seqInv_mono inv.tagValue (Nat.le_refl _) inv.le.2.2.2, schInv_mono inv.schema (Nat.le_refl _) inv.le.2.2.1⟩, rfl⟩
  | 1 =>
    left
    have hsy := hs (Nat.le_refl _)
    have e : nd.seqMmap.ns = nd.seqMem.ns := by rw [hsy]
    exact ⟨⟨inv.le, seqInv_flush inv.ns (by show nd.seqMem.ns ≤ nd.seqMmap.ns; omega), inv.metric, inv.tagValue, inv.schema⟩, hsy⟩
  | 2 =>
    left
    have hsy := hs (by omega)
    have e : nd.seqMmap.metric = nd.seqMem.metric := by rw [hsy]
    exact ⟨⟨inv.le, inv.ns, seqInv_flush inv.metric (by show nd.seqMem.metric ≤ nd.seqMmap.metric; omega), inv.tagValue, inv.schema⟩, hsy⟩
  | 3 =>
    left
    have hsy := hs (by omega)
    have e : nd.seqMmap.tagKey = nd.seqMem.tagKey := by rw [hsy]
    have := schema_flush_spec (b' := nd.seqMmap.tagKey) inv.schema inv.le.2.2.1 (by omega)
    exact ⟨⟨inv.le, inv.ns, inv.metric, inv.tagValue, this.inv⟩, hsy⟩
  | 4 =>
    left
    have hsy := hs (by omega)
    have e : nd.seqMmap.tagValue = nd.seqMem.tagValue := by rw [hsy]
    exact ⟨⟨inv.le, inv.ns, inv.metric, seqInv_flush inv.tagValue (by show nd.seqMem.tagValue ≤ nd.seqMmap.tagValue; omega), inv.schema⟩, hsy⟩
  | (n + 5) => right; exact ⟨by omega, rfl⟩

theorem metaFlushStep_mview {nd : Node} (inv : MetaInv nd) (j : Nat) (hs : 1 ≤ j → nd.Synced) (k : MetaKey) :
    (nd.metaFlushStep j).mview k = nd.mview k := by
  match j with
  | 0 => cases k <;> rfl
  | 1 =>
    cases k with
    | metric nb ns name =>
      simp only [Node.mview, Node.getMetric, Node.metaFlushStep, lookup_flush nd.ns inv.ns.snapDisk]
    | field _ _ => rfl
    | tagKey _ _ => rfl
    | tagValue _ _ => rfl
  | 2 =>
    cases k with
    | metric nb ns name =>
      simp only [Node.mview, Node.getMetric, Node.metaFlushStep]
      cases nd.ns.lookup nb ns with
      | none => rfl
      | some q => simp only [lookup_flush nd.metric inv.metric.snapDisk]
    | field _ _ => rfl
    | tagKey _ _ => rfl
    | tagValue _ _ => rfl
  | 3 =>
    have hsy := hs (by omega)
    have e : nd.seqMmap.tagKey = nd.seqMem.tagKey := by rw [hsy]
    have := schema_flush_spec (b' := nd.seqMmap.tagKey) inv.schema inv.le.2.2.1 (by omega)
    cases k with
    | field m f => exact this.vf m f
    | tagKey m k => exact this.vt m k
    | metric _ _ _ => rfl
    | tagValue _ _ => rfl
  | 4 =>
    cases k with
    | tagValue tk v => simp only [Node.mview, Node.metaFlushStep, lookup_flush nd.tagValue inv.tagValue.snapDisk]
    | field _ _ => rfl
    | tagKey _ _ => rfl
    | metric _ _ _ => rfl
  | (n + 5) => rfl

theorem metaFlushStep_frame (nd : Node) (j : Nat) :
    (nd.metaFlushStep j).shards = nd.shards ∧ (nd.metaFlushStep j).lim = nd.lim ∧ (nd.metaFlushStep j).nShards = nd.nShards := by
  match j with
  | 0 | 1 | 2 | 3 | 4 => exact ⟨rfl, rfl, rfl⟩
  | (n + 5) => exact ⟨rfl, rfl, rfl⟩

theorem metaFlushPrefix_succ (nd : Node) (k : Nat) : nd.metaFlushPrefix (k + 1) = (nd.metaFlushPrefix k).metaFlushStep k := by
  unfold Node.metaFlushPrefix
  rw [List.range_succ, List.foldl_append]; rfl

/-- any prefix of a metadata flush (a crash point inside it) keeps the invariant and every view -/
theorem metaFlushPrefix_spec {nd : Node} (inv : MetaInv nd) (k : Nat) :
    MetaInv (nd.metaFlushPrefix k) ∧ (1 ≤ k → (nd.metaFlushPrefix k).Synced) ∧
    (∀ key, (nd.metaFlushPrefix k).mview key = nd.mview key) ∧
    (nd.metaFlushPrefix k).shards = nd.shards ∧ (nd.metaFlushPrefix k).lim = nd.lim := by
  induction k with
  | zero => exact ⟨inv, fun h => absurd h (by omega), fun _ => rfl, rfl, rfl⟩
  | succ k ih =>
    obtain ⟨i1, s1, v1, sh1, l1⟩ := ih
    rw [metaFlushPrefix_succ]
    have fr := metaFlushStep_frame (nd.metaFlushPrefix k) k
    have vw := metaFlushStep_mview i1 k s1
    rcases metaFlushStep_spec i1 k s1 with ⟨i2, s2⟩ | ⟨hk, e⟩
    · exact ⟨i2, fun _ => s2, fun key => by rw [vw, v1], by rw [fr.1, sh1], by rw [fr.2.1, l1]⟩
    · rw [e]; exact ⟨i1, fun _ => s1 (by omega), v1, sh1, l1⟩

/-! ### reopen / crash recovery -/

theorem recover_spec {nd : Node} (inv : MetaInv nd) :
    MetaInv nd.recover ∧ (∀ k i, nd.recover.mview k = some i → nd.mview k = some i) := by
  obtain ⟨si, sf, st⟩ := schema_recover_spec inv.schema
  refine ⟨⟨Seq.le_refl _, seqInv_recover inv.ns, seqInv_recover inv.metric, seqInv_recover inv.tagValue, si⟩, ?_⟩
  intro k i h
  cases k with
  | metric nb ns name =>
    simp only [Node.mview, Node.getMetric, Node.recover, lookup_recover] at h
    simp only [Node.mview, Node.getMetric]
    cases hq : nd.ns.disk nb ns with
    | none => rw [hq] at h; cases h
    | some q =>
      rw [hq] at h
      rw [inv.ns.diskSub _ _ _ hq]
      exact inv.metric.diskSub _ _ _ h
  | field m f => exact sf m f i h
  | tagKey m k => exact st m k i h
  | tagValue tk v =>
    simp only [Node.mview, Node.recover, lookup_recover] at h
    exact inv.tagValue.diskSub _ _ _ h

end LinVerif.IdAssign
