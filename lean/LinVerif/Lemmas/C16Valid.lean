/-
C16 — helper lemmas: what validateMetric accepts, stated declaratively.
-/
import Mathlib.Data.List.Perm.Basic
import Mathlib.Tactic.SplitIfs
import LinVerif.Model.Row

namespace LinVerif.Lemmas.C16
open LinVerif.Row

/-- the per-tag rules of validateMetric -/
def TagOk (l : Limits) (t : Tag) : Prop :=
  t.key ≠ "" ∧ t.value ≠ "" ∧ over l.maxTagKey (blen t.key) = false ∧ over l.maxTagVal (blen t.value) = false

instance (l : Limits) (t : Tag) : Decidable (TagOk l t) := by unfold TagOk; infer_instance

/-- the per-field rules of validateMetric -/
def FieldOk (l : Limits) (f : SField) : Prop :=
  f.name ≠ "" ∧ over l.maxField (blen f.name) = false ∧ f.ftype ≠ 0 ∧ f.value.isNaN = false ∧ f.value.isInf = false

instance (l : Limits) (f : SField) : Decidable (FieldOk l f) := by unfold FieldOk; infer_instance

/-- the in-place rewrite of an accepted field -/
def sanitizeField (f : SField) : SField := { f with name := sanitizeFieldName f.name }

theorem checkTags_sound (l : Limits) : ∀ (ts : List (Option Tag)) (r : List Tag),
    checkTags l ts = .ok r → ts = r.map some ∧ ∀ t ∈ r, TagOk l t
  | [], r, h => by
    simp only [checkTags, Except.ok.injEq] at h
    subst h
    simp
  | none :: rest, r, h => by simp [checkTags] at h
  | some t :: rest, r, h => by
    simp only [checkTags] at h
    split_ifs at h with h1 h2 h3
    cases hrec : checkTags l rest with
    | error e => simp [hrec] at h
    | ok ts' =>
      simp only [hrec, Except.ok.injEq] at h
      subst h
      have ih := checkTags_sound l rest ts' hrec
      refine ⟨by simp [ih.1], ?_⟩
      intro y hy
      rcases List.mem_cons.1 hy with rfl | hy'
      · exact ⟨fun h => h1 (Or.inl h), fun h => h1 (Or.inr h), by simpa using h2, by simpa using h3⟩
      · exact ih.2 y hy'

theorem checkTags_complete (l : Limits) : ∀ (r : List Tag), (∀ t ∈ r, TagOk l t) →
    checkTags l (r.map some) = .ok r
  | [], _ => by simp [checkTags]
  | t :: rest, h => by
    have ht := h t List.mem_cons_self
    have ih := checkTags_complete l rest (fun y hy => h y (List.mem_cons_of_mem _ hy))
    simp only [List.map_cons, checkTags, ht.1, ht.2.1, or_self, if_false, ht.2.2.1, ht.2.2.2, ih,
      Bool.false_eq_true]

theorem checkTags_ok_iff (l : Limits) (ts : List (Option Tag)) (r : List Tag) :
    checkTags l ts = .ok r ↔ ts = r.map some ∧ ∀ t ∈ r, TagOk l t :=
  ⟨checkTags_sound l ts r, fun ⟨he, hok⟩ => he ▸ checkTags_complete l r hok⟩

theorem checkFields_sound (l : Limits) : ∀ (fs : List (Option SField)) (r : List SField),
    checkFields l fs = .ok r →
    ∃ r₀ : List SField, fs = r₀.map some ∧ r = r₀.map sanitizeField ∧ ∀ f ∈ r₀, FieldOk l f
  | [], r, h => by
    simp only [checkFields, Except.ok.injEq] at h
    subst h
    exact ⟨[], by simp⟩
  | none :: rest, r, h => by simp [checkFields] at h
  | some f :: rest, r, h => by
    simp only [checkFields] at h
    split_ifs at h with h1 h2 h3 h4 h5
    cases hrec : checkFields l rest with
    | error e => simp [hrec] at h
    | ok fs' =>
      simp only [hrec, Except.ok.injEq] at h
      subst h
      obtain ⟨r₀, e1, e2, hok⟩ := checkFields_sound l rest fs' hrec
      refine ⟨f :: r₀, by simp [e1], by simp [e2, sanitizeField], ?_⟩
      intro y hy
      rcases List.mem_cons.1 hy with rfl | hy'
      · exact ⟨h1, by simpa using h2, h3, by simpa using h4, by simpa using h5⟩
      · exact hok y hy'

theorem checkFields_complete (l : Limits) : ∀ (r₀ : List SField), (∀ f ∈ r₀, FieldOk l f) →
    checkFields l (r₀.map some) = .ok (r₀.map sanitizeField)
  | [], _ => by simp [checkFields]
  | f :: rest, h => by
    have hf := h f List.mem_cons_self
    have ih := checkFields_complete l rest (fun y hy => h y (List.mem_cons_of_mem _ hy))
    simp only [List.map_cons, checkFields, hf.1, if_false, hf.2.1, hf.2.2.1, hf.2.2.2.1, hf.2.2.2.2, ih,
      Bool.false_eq_true, sanitizeField]

/-! ### the whole of validateMetric -/

theorem filterMap_id_map_some {α : Type} (r : List α) : (r.map some).filterMap id = r := by
  induction r with
  | nil => rfl
  | cons a rest ih => simpa using ih

theorem all_some_iff {α : Type} (P : α → Prop) (ts : List (Option α)) :
    (∀ t ∈ ts, ∃ x, t = some x ∧ P x) ↔ (∃ r : List α, ts = r.map some ∧ ∀ x ∈ r, P x) := by
  constructor
  · intro h
    induction ts with
    | nil => exact ⟨[], rfl, by simp⟩
    | cons t rest ih =>
      obtain ⟨x, rfl, hx⟩ := h t List.mem_cons_self
      obtain ⟨r, hr, hp⟩ := ih (fun y hy => h y (List.mem_cons_of_mem _ hy))
      refine ⟨x :: r, by simp [hr], ?_⟩
      intro y hy
      rcases List.mem_cons.1 hy with rfl | hy'
      · exact hx
      · exact hp y hy'
  · rintro ⟨r, rfl, hp⟩ t ht
    obtain ⟨x, hx, rfl⟩ := List.mem_map.1 ht
    exact ⟨x, rfl, hp x hx⟩

/-- Every rejection rule of validateMetric, declaratively: a metric is accepted iff all of these hold. -/
structure Valid (c : Cfg) (m : PMetric) : Prop where
  name_ne : m.name ≠ ""
  name_len : over c.limits.maxName (blen m.name) = false
  has_field : ¬ (m.fields = [] ∧ m.compound = none)
  tags_count : over c.limits.maxTags (m.tags ++ c.enriched.map some).length = false
  tags_ok : ∀ t ∈ m.tags ++ c.enriched.map some, ∃ x, t = some x ∧ TagOk c.limits x
  fields_count : over c.limits.maxFields m.fields.length = false
  fields_ok : ∀ f ∈ m.fields, ∃ x, f = some x ∧ FieldOk c.limits x
  compound_ok : ∀ cf, m.compound = some cf → checkCompound cf = true

/-- what validateMetric leaves in `m` when it accepts -/
def vmetricOf (c : Cfg) (m : PMetric) : VMetric :=
  { name := sanitizeName m.name
    ns := sanitizeName (if c.reqNs ≠ "" then c.reqNs else m.ns)
    ts := if m.ts = 0 then c.now else m.ts
    tags := (m.tags ++ c.enriched.map some).filterMap id
    fields := (m.fields.filterMap id).map sanitizeField
    compound := m.compound }

theorem validate_of_valid (c : Cfg) (m : PMetric) (h : Valid c m) :
    validate c (some m) = .ok (vmetricOf c m) := by
  obtain ⟨rt, ert, hrt⟩ := (all_some_iff (TagOk c.limits) _).1 h.tags_ok
  obtain ⟨rf, erf, hrf⟩ := (all_some_iff (FieldOk c.limits) _).1 h.fields_ok
  have hfe : (m.fields.isEmpty && m.compound.isNone) = false := by
    cases hf : m.fields <;> cases hc : m.compound <;> simp
    exact h.has_field ⟨hf, hc⟩
  have ct := checkTags_complete c.limits rt hrt
  have cf := checkFields_complete c.limits rf hrf
  rw [← ert] at ct
  rw [← erf] at cf
  simp only [validate, h.name_ne, if_false, h.name_len, hfe, h.tags_count, ct, h.fields_count, cf,
    Bool.false_eq_true]
  have e1 : (m.tags ++ c.enriched.map some).filterMap id = rt := by rw [ert, filterMap_id_map_some]
  have e2 : m.fields.filterMap id = rf := by rw [erf, filterMap_id_map_some]
  cases hc : m.compound with
  | none => simp only [vmetricOf, e1, e2, hc]
  | some cf' => simp only [vmetricOf, e1, e2, hc, h.compound_ok cf' hc, if_true]

theorem valid_of_validate (c : Cfg) (m : PMetric) (v : VMetric) (h : validate c (some m) = .ok v) :
    Valid c m ∧ v = vmetricOf c m := by
  unfold validate at h
  simp only at h
  by_cases h1 : m.name = ""
  · rw [if_pos h1] at h; cases h
  rw [if_neg h1] at h
  by_cases h2 : over c.limits.maxName (blen m.name) = true
  · rw [if_pos h2] at h; cases h
  rw [if_neg h2] at h
  by_cases h3 : (m.fields.isEmpty && m.compound.isNone) = true
  · rw [if_pos h3] at h; cases h
  rw [if_neg h3] at h
  by_cases h4 : over c.limits.maxTags (m.tags ++ c.enriched.map some).length = true
  · rw [if_pos h4] at h; cases h
  rw [if_neg h4] at h
  cases hct : checkTags c.limits (m.tags ++ c.enriched.map some) with
  | error e => rw [hct] at h; cases h
  | ok rt =>
    rw [hct] at h
    simp only at h
    by_cases h5 : over c.limits.maxFields m.fields.length = true
    · rw [if_pos h5] at h; cases h
    rw [if_neg h5] at h
    cases hcf : checkFields c.limits m.fields with
    | error e => rw [hcf] at h; cases h
    | ok rf =>
      rw [hcf] at h
      simp only at h
      obtain ⟨ert, hrt⟩ := checkTags_sound _ _ _ hct
      obtain ⟨rf₀, erf, erf', hrf⟩ := checkFields_sound _ _ _ hcf
      have hv : Valid c m := by
        refine ⟨h1, by simpa using h2, ?_, by simpa using h4, ?_, by simpa using h5, ?_, ?_⟩
        · rintro ⟨hf, hc⟩
          apply h3
          simp [hf, hc]
        · exact (all_some_iff _ _).2 ⟨rt, ert, hrt⟩
        · exact (all_some_iff _ _).2 ⟨rf₀, erf, hrf⟩
        · intro cf' hc
          rw [hc] at h
          simp only at h
          by_cases h6 : checkCompound cf' = true
          · exact h6
          · rw [if_neg h6] at h; cases h
      refine ⟨hv, ?_⟩
      have hh := validate_of_valid c m hv
      unfold validate at hh
      simp only at hh
      rw [if_neg h1, if_neg h2, if_neg h3, if_neg h4, hct] at hh
      simp only at hh
      rw [if_neg h5, hcf] at hh
      simp only at hh
      rw [hh] at h
      exact (Except.ok.inj h).symm

/-- validateMetric rejects exactly the metrics that break a rule -/
theorem validate_ok_iff (c : Cfg) (m : PMetric) : (∃ v, validate c (some m) = .ok v) ↔ Valid c m :=
  ⟨fun ⟨v, h⟩ => (valid_of_validate c m v h).1, fun h => ⟨_, validate_of_valid c m h⟩⟩

end LinVerif.Lemmas.C16
