/-
C10 helper lemmas (round 10): `newTagForwardScanner` / `nextContainer` ESTABLISH the cursor invariant of
`Lemmas/C10Merge.lean` at the start of every merged container.
* `rawOf_read`: the lookup-table walk over the layout of a structured entry finds each container with
  its own value slice;
* `CurInv` — what is known of a scanner BETWEEN two merged containers (it stands on an earlier container, or
  it is still as `newTagForwardScanner` left it); `new_inv`, `inv_mono`, `inv_moves`;
* `norm_scanOK`: the `if s.highKey < highKey { s.nextContainer(highKey) }` at the head of `scan` turns
  `CurInv` into `ScanOK` with `rem` = the input's own container for that high key;
* `containerBlocks_spec`: for well-formed inputs and any ascending merged bitmap that contains them the
  whole step-4 loop never indexes out of range and writes, per merged container, `blockSpec` of the
  inputs' containers;
* `blockSpec_look`: `blockSpec` = per low key the values the inputs pair with THAT low key.
-/
import LinVerif.Lemmas.C10Merge

set_option linter.unusedSimpArgs false
set_option linter.unusedVariables false

namespace LinVerif.TagFilter

/-- two lists related element by element (core Lean has no `List.Forall₂`) -/
inductive All2 {α β : Type} (R : α → β → Prop) : List α → List β → Prop
  | nil : All2 R [] []
  | cons {a : α} {b : β} {as : List α} {bs : List β} : R a b → All2 R as bs → All2 R (a :: as) (b :: bs)

/-- well-formed structured entry: high keys strictly ascending, low keys strictly ascending -/
def CsWF (cs : List Container) : Prop :=
  (cs.map (·.1)).Pairwise (· < ·) ∧ ∀ c ∈ cs, (c.2.map (·.1)).Pairwise (· < ·)

/-- the (low key, value id) pairs of the input's container with high key `h` (none: `[]`) -/
def contAt (cs : List Container) (h : Nat) : List (Nat × ValId) :=
  match cs.find? (fun c => c.1 == h) with
  | some c => c.2
  | none => []

theorem rawReadFrom_rawOf (cs : List Container) (h : Nat) : ∀ (pre : List ValId),
    rawReadFrom (pre ++ cs.flatMap (fun c => c.2.map (·.2))) h pre.length (cs.map (fun c => (c.1, c.2.map (·.1))))
      = (cs.find? (fun c => c.1 == h)).map (fun c => (c.2.map (·.1), c.2.map (·.2))) := by
  induction cs with
  | nil => intro pre; simp [rawReadFrom]
  | cons c t ih =>
    intro pre
    simp only [List.map_cons, List.flatMap_cons, rawReadFrom, List.find?_cons]
    by_cases hc : (c.1 == h) = true
    · simp only [hc, if_true, Option.map_some]
      rw [List.drop_left]
      have : (c.2.map (·.1)).length = (c.2.map (·.2)).length := by simp
      rw [this, List.take_left]
    · simp only [hc, Bool.false_eq_true, if_false]
      have h1 : pre ++ (c.2.map (·.2) ++ t.flatMap (fun c => c.2.map (·.2)))
          = (pre ++ c.2.map (·.2)) ++ t.flatMap (fun c => c.2.map (·.2)) := by simp [List.append_assoc]
      have h2 : pre.length + (c.2.map (·.1)).length = (pre ++ c.2.map (·.2)).length := by simp
      rw [h1, h2, ih (pre ++ c.2.map (·.2))]

theorem rawOf_read (cs : List Container) (h : Nat) :
    (rawOf cs).read h = (cs.find? (fun c => c.1 == h)).map (fun c => (c.2.map (·.1), c.2.map (·.2))) := by
  have := rawReadFrom_rawOf cs h []
  simpa [RawEntry.read, rawOf] using this

/-- the conditional `nextContainer` at the head of `scan` -/
def MScan.norm (s : MScan) (h : Nat) : MScan := if s.high < h then s.nextContainer h else s

theorem scan_eq_norm (s : MScan) (h l : Nat) (buf : List ValId) :
    s.scan h l buf = (s.norm h).scanCur h l buf := rfl

theorem nextContainer_entry (s : MScan) (h : Nat) : (s.nextContainer h).entry = s.entry := by
  unfold MScan.nextContainer; split <;> rfl

theorem nextContainer_high (s : MScan) (h : Nat) : (s.nextContainer h).high = h := by
  unfold MScan.nextContainer; split <;> rfl

theorem norm_norm (s : MScan) (h : Nat) : (s.norm h).norm h = s.norm h := by
  unfold MScan.norm
  by_cases hlt : s.high < h
  · simp [hlt, nextContainer_high]
  · simp [hlt]

/-- still as `newTagForwardScanner` left it: positioned on the input's first container with the whole
value slice unread -/
def FreshScan (s : MScan) : List Container → Prop
  | [] => s.lows = none
  | c :: _ => s.high = c.1 ∧ s.lows = some (c.2.map (·.1)) ∧ s.rest = c.2.map (·.2)

/-- what holds of the scanner of input `cs` before the merged container with high key `h` is scanned -/
def CurInv (h : Nat) (s : MScan) (cs : List Container) : Prop :=
  s.entry = rawOf cs ∧ (s.high < h ∨ FreshScan s cs)

theorem new_inv (h : Nat) (cs : List Container) : CurInv h (MScan.new (rawOf cs)) cs := by
  refine ⟨by unfold MScan.new; exact nextContainer_entry _ _, Or.inr ?_⟩
  cases cs with
  | nil => simp [FreshScan, MScan.new, MScan.nextContainer, rawOf, RawEntry.read, rawReadFrom]
  | cons c t =>
    have hr := rawOf_read (c :: t) c.1
    simp only [List.find?_cons, beq_self_eq_true, Option.map_some] at hr
    have hh : ((rawOf (c :: t)).bitmap.head?.map (·.1)).getD 0 = c.1 := by simp [rawOf]
    unfold MScan.new
    simp only [hh]
    unfold MScan.nextContainer
    simp only [hr]
    exact ⟨rfl, rfl, rfl⟩

theorem inv_mono {h h' : Nat} {s : MScan} {cs : List Container} (hi : CurInv h s cs) (hle : h ≤ h') : CurInv h' s cs := by
  obtain ⟨he, hd⟩ := hi
  refine ⟨he, ?_⟩
  rcases hd with hd | hd
  · exact Or.inl (by omega)
  · exact Or.inr hd

/-- what one `scan` call may do to a scanner -/
def Moves (h : Nat) (s s' : MScan) : Prop := s'.entry = s.entry ∧ (s' = s ∨ s'.high = h)

theorem moves_refl (h : Nat) (s : MScan) : Moves h s s := ⟨rfl, Or.inl rfl⟩

theorem moves_trans {h : Nat} {a b c : MScan} (h1 : Moves h a b) (h2 : Moves h b c) : Moves h a c := by
  refine ⟨h2.1.trans h1.1, ?_⟩
  rcases h2.2 with h2' | h2'
  · subst h2'; exact h1.2
  · exact Or.inr h2'

theorem inv_moves {h : Nat} {s s' : MScan} {cs : List Container} (hi : CurInv h s cs) (hm : Moves h s s') :
    CurInv (h + 1) s' cs := by
  rcases hm.2 with hm' | hm'
  · subst hm'; exact inv_mono hi (by omega)
  · exact ⟨hm.1.trans hi.1, Or.inl (by omega)⟩

theorem scanCur_moves {x x' : MScan} {h l : Nat} {buf buf' : List ValId}
    (hs : x.scanCur h l buf = some (x', buf')) : Moves h x x' := by
  unfold MScan.scanCur at hs
  split at hs
  · simp at hs; obtain ⟨rfl, _⟩ := hs; exact moves_refl _ _
  · rename_i hne
    have hh : x.high = h := by
      have : ¬ (h != x.high) = true := hne
      simp at this; exact this.symm
    split at hs
    · simp at hs; obtain ⟨rfl, _⟩ := hs; exact moves_refl _ _
    · split at hs
      · split at hs
        · simp at hs; obtain ⟨rfl, _⟩ := hs; exact ⟨rfl, Or.inr hh⟩
        · simp at hs
      · simp at hs; obtain ⟨rfl, _⟩ := hs; exact moves_refl _ _

theorem scan_moves {s s' : MScan} {h l : Nat} {buf buf' : List ValId}
    (hs : s.scan h l buf = some (s', buf')) : Moves h s s' := by
  rw [scan_eq_norm] at hs
  have h1 := scanCur_moves hs
  have h0 : Moves h s (s.norm h) := by
    unfold MScan.norm
    by_cases hlt : s.high < h
    · simp only [hlt, if_true]; exact ⟨nextContainer_entry _ _, Or.inr (nextContainer_high _ _)⟩
    · simp only [hlt, if_false]; exact moves_refl _ _
  exact moves_trans h0 h1

theorem forall2_moves_refl (h : Nat) : ∀ (ss : List MScan), All2 (Moves h) ss ss
  | [] => .nil
  | s :: t => .cons (moves_refl h s) (forall2_moves_refl h t)

theorem forall2_moves_trans {h : Nat} : ∀ {a b c : List MScan},
    All2 (Moves h) a b → All2 (Moves h) b c → All2 (Moves h) a c
  | _, _, _, .nil, .nil => .nil
  | _, _, _, .cons h1 t1, .cons h2 t2 => .cons (moves_trans h1 h2) (forall2_moves_trans t1 t2)

theorem scanAll_moves {h l : Nat} : ∀ (ss : List MScan) (buf : List ValId) {ss' : List MScan} {buf' : List ValId},
    scanAll h l ss buf = some (ss', buf') → All2 (Moves h) ss ss' := by
  intro ss
  induction ss with
  | nil => intro buf ss' buf' hs; simp [scanAll] at hs; obtain ⟨rfl, _⟩ := hs; exact .nil
  | cons s t ih =>
    intro buf ss' buf' hs
    unfold scanAll at hs
    cases h1 : s.scan h l buf with
    | none => simp [h1] at hs
    | some r =>
      obtain ⟨s1, b1⟩ := r
      simp only [h1] at hs
      cases h2 : scanAll h l t b1 with
      | none => simp [h2] at hs
      | some r2 =>
        obtain ⟨t1, b2⟩ := r2
        simp only [h2, Option.some.injEq, Prod.mk.injEq] at hs
        obtain ⟨rfl, _⟩ := hs
        exact .cons (scan_moves h1) (ih b1 h2)

theorem scanLows_moves {h : Nat} : ∀ (ls : List Nat) (ss : List MScan) (buf : List ValId) {ss' : List MScan}
    {buf' : List ValId}, scanLows h ls ss buf = some (ss', buf') → All2 (Moves h) ss ss' := by
  intro ls
  induction ls with
  | nil => intro ss buf ss' buf' hs; simp [scanLows] at hs; obtain ⟨rfl, _⟩ := hs; exact forall2_moves_refl h _
  | cons l t ih =>
    intro ss buf ss' buf' hs
    unfold scanLows at hs
    cases h1 : scanAll h l ss buf with
    | none => simp [h1] at hs
    | some r =>
      obtain ⟨s1, b1⟩ := r
      simp only [h1] at hs
      exact forall2_moves_trans (scanAll_moves ss buf h1) (ih s1 b1 hs)

theorem scanAll_norm (h l : Nat) : ∀ (ss : List MScan) (buf : List ValId),
    scanAll h l ss buf = scanAll h l (ss.map (·.norm h)) buf := by
  intro ss
  induction ss with
  | nil => intro buf; rfl
  | cons s t ih =>
    intro buf
    simp only [List.map_cons, scanAll]
    have : (s.norm h).scan h l buf = s.scan h l buf := by
      rw [scan_eq_norm, scan_eq_norm, norm_norm]
    rw [this]
    cases s.scan h l buf with
    | none => rfl
    | some r => simp only []; rw [ih r.2]

theorem find?_none_of_lt {c : Container} {t : List Container} {h : Nat} (hwf : CsWF (c :: t)) (hlt : h < c.1) :
    (c :: t).find? (fun c => c.1 == h) = none := by
  rw [List.find?_eq_none]
  intro x hx
  have hp : (∀ a' ∈ t.map (·.1), c.1 < a') ∧ (t.map (·.1)).Pairwise (· < ·) := by
    have h0 := hwf.1
    simp only [List.map_cons] at h0
    exact List.pairwise_cons.mp h0
  rcases List.mem_cons.mp hx with hx | hx
  · subst hx; simp; omega
  · have := hp.1 x.1 (List.mem_map.mpr ⟨x, hx, rfl⟩)
    simp; omega

/-- **the conditional `nextContainer` establishes the cursor invariant** -/
theorem norm_scanOK {h : Nat} {s : MScan} {cs : List Container} {ls : List Nat}
    (hwf : CsWF cs) (hinv : CurInv h s cs) (hsub : ∀ x ∈ (contAt cs h).map (·.1), x ∈ ls) :
    ScanOK h (s.norm h) (contAt cs h) ls := by
  obtain ⟨he, hd⟩ := hinv
  by_cases hlt : s.high < h
  · have hn : s.norm h = s.nextContainer h := by simp [MScan.norm, hlt]
    rw [hn]
    unfold MScan.nextContainer
    rw [he, rawOf_read]
    cases hf : cs.find? (fun c => c.1 == h) with
    | none =>
      have hc : contAt cs h = [] := by simp [contAt, hf]
      rw [hc]
      exact Or.inr ⟨Or.inr ⟨rfl, rfl⟩, rfl⟩
    | some c =>
      have hc : contAt cs h = c.2 := by simp [contAt, hf]
      rw [hc] at hsub ⊢
      have hmem : c ∈ cs := List.mem_of_find?_eq_some hf
      exact Or.inl ⟨rfl, [], by simp, rfl, by simp, hwf.2 c hmem, hsub⟩
  · have hn : s.norm h = s := by simp [MScan.norm, hlt]
    rw [hn]
    have hfr : FreshScan s cs := by
      rcases hd with hd | hd
      · exact absurd hd hlt
      · exact hd
    cases cs with
    | nil =>
      have hc : contAt [] h = [] := rfl
      rw [hc]
      refine Or.inr ⟨?_, rfl⟩
      by_cases hq : s.high = h
      · exact Or.inr ⟨hq, hfr⟩
      · exact Or.inl (by omega)
    | cons c t =>
      obtain ⟨h1, h2, h3⟩ := hfr
      by_cases hq : c.1 = h
      · have hc : contAt (c :: t) h = c.2 := by simp [contAt, List.find?_cons, hq]
        rw [hc] at hsub ⊢
        exact Or.inl ⟨by omega, [], by simpa using h2, h3, by simp, hwf.2 c (by simp), hsub⟩
      · have hlt' : h < c.1 := by omega
        have hc : contAt (c :: t) h = [] := by
          unfold contAt; rw [find?_none_of_lt hwf hlt']
        rw [hc]
        exact Or.inr ⟨Or.inl (by omega), rfl⟩

/-- the scanners paired with their containers for `h`, as `scanLows_spec` wants them -/
theorem inv_srs {h : Nat} {ls : List Nat} : ∀ {ss : List MScan} {css : List (List Container)},
    All2 (CurInv h) ss css → (∀ cs ∈ css, CsWF cs) →
    (∀ cs ∈ css, ∀ x ∈ (contAt cs h).map (·.1), x ∈ ls) →
    ∃ srs : List (MScan × List (Nat × ValId)), srs.map (·.1) = ss.map (·.norm h) ∧
      srs.map (·.2) = css.map (contAt · h) ∧ ∀ sr ∈ srs, ScanOK h sr.1 sr.2 ls
  | _, _, .nil, _, _ => ⟨[], rfl, rfl, by simp⟩
  | _, _, .cons (a := s) (b := cs) hi ht, hwf, hsub => by
    obtain ⟨srs, h1, h2, h3⟩ := inv_srs ht (fun c hc => hwf c (List.mem_cons_of_mem _ hc))
      (fun c hc => hsub c (List.mem_cons_of_mem _ hc))
    refine ⟨(s.norm h, contAt cs h) :: srs, by simp [h1], by simp [h2], ?_⟩
    intro sr hm
    rcases List.mem_cons.mp hm with hm | hm
    · subst hm; exact norm_scanOK (hwf cs (by simp)) hi (hsub cs (by simp))
    · exact h3 sr hm

theorem inv_all_moves {h : Nat} : ∀ {ss ss' : List MScan} {css : List (List Container)},
    All2 (CurInv h) ss css → All2 (Moves h) ss ss' → All2 (CurInv (h + 1)) ss' css
  | _, _, _, .nil, .nil => .nil
  | _, _, _, .cons hi ht, .cons hm hmt => .cons (inv_moves hi hm) (inv_all_moves ht hmt)

theorem inv_all_mono {h h' : Nat} (hle : h ≤ h') : ∀ {ss : List MScan} {css : List (List Container)},
    All2 (CurInv h) ss css → All2 (CurInv h') ss css
  | _, _, .nil => .nil
  | _, _, .cons hi ht => .cons (inv_mono hi hle) (inv_all_mono hle ht)

theorem new_inv_all (h : Nat) : ∀ (css : List (List Container)),
    All2 (CurInv h) (css.map (fun cs => MScan.new (rawOf cs))) css
  | [] => .nil
  | cs :: t => .cons (new_inv h cs) (new_inv_all h t)

/-- the scan of ONE merged container from the state between two containers -/
theorem scanLows_established {h : Nat} {ls : List Nat} {ss : List MScan} {css : List (List Container)}
    (hp : ls.Pairwise (· < ·)) (hinv : All2 (CurInv h) ss css) (hwf : ∀ cs ∈ css, CsWF cs)
    (hsub : ∀ cs ∈ css, ∀ x ∈ (contAt cs h).map (·.1), x ∈ ls) :
    ∃ ss', scanLows h ls ss [] = some (ss', blockSpec ls (css.map (contAt · h))) ∧
      All2 (CurInv (h + 1)) ss' css := by
  have key : ∃ ss', scanLows h ls ss [] = some (ss', blockSpec ls (css.map (contAt · h))) := by
    cases ls with
    | nil => exact ⟨ss, by simp [scanLows, blockSpec]⟩
    | cons l t =>
      obtain ⟨srs, h1, h2, h3⟩ := inv_srs (ls := l :: t) hinv hwf hsub
      obtain ⟨ss', hs⟩ := scanLows_spec (l :: t) srs [] hp h3
      refine ⟨ss', ?_⟩
      have : scanLows h (l :: t) ss [] = scanLows h (l :: t) (ss.map (·.norm h)) [] := by
        simp only [scanLows]; rw [scanAll_norm]
      rw [this, ← h1, hs, h2]
      simp
  obtain ⟨ss', hs⟩ := key
  exact ⟨ss', hs, inv_all_moves hinv (scanLows_moves ls ss [] hs)⟩

/-- **step 4 of `Merge` for well-formed inputs.** `bm` any bitmap with ascending high keys and ascending
low keys that contains every input's series ids; scanners in any state `CurInv h0` with `h0` below every
high key of `bm` (fresh scanners: every `h0`). The loop never indexes out of range and the block written for
each merged container is `blockSpec` of the inputs' own containers for that high key. -/
theorem containerBlocks_spec (css : List (List Container)) (hwf : ∀ cs ∈ css, CsWF cs) :
    ∀ (bm : List (Nat × List Nat)) (ss : List MScan) (h0 : Nat),
      (bm.map (·.1)).Pairwise (· < ·) → (∀ c ∈ bm, c.2.Pairwise (· < ·)) →
      (∀ c ∈ bm, ∀ cs ∈ css, ∀ x ∈ (contAt cs c.1).map (·.1), x ∈ c.2) →
      (∀ c ∈ bm, h0 ≤ c.1) → All2 (CurInv h0) ss css →
      containerBlocks bm ss = some (bm.map (fun c => blockSpec c.2 (css.map (contAt · c.1)))) := by
  intro bm
  induction bm with
  | nil => intro ss h0 _ _ _ _ _; rfl
  | cons c t ih =>
    intro ss h0 hhi hlo hsub hle hinv
    have hp : (∀ a' ∈ t.map (·.1), c.1 < a') ∧ (t.map (·.1)).Pairwise (· < ·) := by
      have h0 := hhi
      simp only [List.map_cons] at h0
      exact List.pairwise_cons.mp h0
    have hinv' : All2 (CurInv c.1) ss css := inv_all_mono (hle c (by simp)) hinv
    obtain ⟨ss', hs, hinv''⟩ := scanLows_established (hlo c (by simp)) hinv' hwf (hsub c (by simp))
    unfold containerBlocks
    rw [hs]
    simp only []
    rw [ih ss' (c.1 + 1) hp.2 (fun c' hc' => hlo c' (List.mem_cons_of_mem _ hc'))
      (fun c' hc' => hsub c' (List.mem_cons_of_mem _ hc'))
      (fun c' hc' => by have := hp.1 c'.1 (List.mem_map.mpr ⟨c', hc', rfl⟩); omega) hinv'']
    simp


/-! ### what `blockSpec` is, low key by low key -/

/-- the value ids the inputs' containers pair with low key `l` -/
def look (l : Nat) (rems : List (List (Nat × ValId))) : List ValId :=
  rems.flatMap (fun r => (r.filter (fun p => p.1 == l)).map (·.2))

theorem flatMap_congr_mc {α β : Type} {f g : α → List β} : ∀ (l : List α), (∀ a ∈ l, f a = g a) →
    l.flatMap f = l.flatMap g
  | [], _ => rfl
  | a :: t, h => by
    simp only [List.flatMap_cons]
    rw [h a (by simp), flatMap_congr_mc t (fun b hb => h b (List.mem_cons_of_mem _ hb))]

theorem pairwise_lows_cons {a1 : Nat} {v : ValId} {t : List (Nat × ValId)}
    (hp : (((a1, v) :: t).map (·.1)).Pairwise (· < ·)) :
    (∀ x ∈ t.map (·.1), a1 < x) ∧ (t.map (·.1)).Pairwise (· < ·) := by
  simp only [List.map_cons] at hp
  exact List.pairwise_cons.mp hp

theorem emitted_eq_filter {l : Nat} {r : List (Nat × ValId)} (hp : (r.map (·.1)).Pairwise (· < ·))
    (hge : ∀ x ∈ r.map (·.1), l ≤ x) : emitted l r = (r.filter (fun p => p.1 == l)).map (·.2) := by
  cases r with
  | nil => rfl
  | cons a t =>
    obtain ⟨a1, v⟩ := a
    have hp' := pairwise_lows_cons hp
    have hla : l ≤ a1 := hge a1 (by simp)
    have ht : t.filter (fun p => p.1 == l) = [] := by
      rw [List.filter_eq_nil_iff]
      intro p hpm
      have := hp'.1 p.1 (List.mem_map.mpr ⟨p, hpm, rfl⟩)
      simp; omega
    by_cases hq : a1 = l
    · subst hq; simp [emitted, List.filter_cons, ht]
    · simp [emitted, List.filter_cons, hq, ht]

theorem filter_remAfter {l l' : Nat} (hne : l ≠ l') (r : List (Nat × ValId)) :
    (remAfter l r).filter (fun p => p.1 == l') = r.filter (fun p => p.1 == l') := by
  cases r with
  | nil => rfl
  | cons a t =>
    obtain ⟨a1, v⟩ := a
    by_cases hq : a1 = l
    · subst hq; simp [remAfter, List.filter_cons, hne]
    · simp [remAfter, hq]

theorem remAfter_lows {l : Nat} {r : List (Nat × ValId)} (hp : (r.map (·.1)).Pairwise (· < ·))
    (hge : ∀ x ∈ r.map (·.1), l ≤ x) :
    ((remAfter l r).map (·.1)).Pairwise (· < ·) ∧ ∀ x ∈ (remAfter l r).map (·.1), x ∈ r.map (·.1) ∧ x ≠ l := by
  cases r with
  | nil => simp [remAfter]
  | cons a t =>
    obtain ⟨a1, v⟩ := a
    have hp' := pairwise_lows_cons hp
    have hla : l ≤ a1 := hge a1 (by simp)
    by_cases hq : a1 = l
    · subst hq
      simp only [remAfter, if_true]
      refine ⟨hp'.2, fun x hx => ⟨by simp only [List.map_cons]; exact List.mem_cons_of_mem _ hx, ?_⟩⟩
      have := hp'.1 x hx; omega
    · simp only [remAfter, hq, if_false]
      refine ⟨hp, fun x hx => ⟨hx, ?_⟩⟩
      simp only [List.map_cons] at hx
      rcases List.mem_cons.mp hx with hx | hx
      · subst hx; exact hq
      · have := hp'.1 x hx; omega

/-- **`blockSpec`, low key by low key**: for ascending low keys and ascending input containers inside the
merged container, the block is the concatenation over the merged low keys of the value ids the inputs pair
with THAT low key — one per input that has the series; exactly one when the inputs are disjoint. -/
theorem blockSpec_look : ∀ (ls : List Nat) (rems : List (List (Nat × ValId))),
    ls.Pairwise (· < ·) → (∀ r ∈ rems, (r.map (·.1)).Pairwise (· < ·)) →
    (∀ r ∈ rems, ∀ x ∈ r.map (·.1), x ∈ ls) →
    blockSpec ls rems = ls.flatMap (fun l => look l rems) := by
  intro ls
  induction ls with
  | nil => intro rems _ _ _; rfl
  | cons l t ih =>
    intro rems hp hpr hsub
    have hlt : ∀ l' ∈ t, l < l' := (List.pairwise_cons.mp hp).1
    have hge : ∀ r ∈ rems, ∀ x ∈ r.map (·.1), l ≤ x := by
      intro r hr x hx
      rcases List.mem_cons.mp (hsub r hr x hx) with h1 | h1
      · omega
      · have := hlt x h1; omega
    simp only [blockSpec, List.flatMap_cons]
    have h1 : rems.flatMap (emitted l) = look l rems := by
      unfold look
      exact flatMap_congr_mc rems (fun r hr => emitted_eq_filter (hpr r hr) (hge r hr))
    have h2 := ih (rems.map (remAfter l)) (List.pairwise_cons.mp hp).2
      (by
        intro r hr
        obtain ⟨r0, hr0, rfl⟩ := List.mem_map.mp hr
        exact (remAfter_lows (hpr r0 hr0) (hge r0 hr0)).1)
      (by
        intro r hr x hx
        obtain ⟨r0, hr0, rfl⟩ := List.mem_map.mp hr
        have h3 := (remAfter_lows (hpr r0 hr0) (hge r0 hr0)).2 x hx
        rcases List.mem_cons.mp (hsub r0 hr0 x h3.1) with h4 | h4
        · exact absurd h4 h3.2
        · exact h4)
    have h3 : t.flatMap (fun l' => look l' (rems.map (remAfter l))) = t.flatMap (fun l' => look l' rems) := by
      apply flatMap_congr_mc
      intro l' hl'
      have hne : l ≠ l' := by have := hlt l' hl'; omega
      unfold look
      rw [List.flatMap_map]
      exact flatMap_congr_mc rems (fun r _ => by rw [filter_remAfter hne r])
    rw [h1, h2, h3]

end LinVerif.TagFilter
