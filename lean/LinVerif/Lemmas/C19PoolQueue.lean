/-
C19 helper lemmas, part 12: the pool's queue for any number of tasks (Model/C19PoolQueue.lean):
inductive invariant tying each task's phase to its place (channel / held) and to the number of
completions of its stage; what a state looks like in which nothing of the pool can move.
-/
import LinVerif.Model.C19PoolQueue

namespace LinVerif.PoolQueue

def b2n (p : Prop) [Decidable p] : Nat := if p then 1 else 0

/-- per task: it is in the channel exactly once iff its phase is `queued`, held exactly once iff
`held`, its stage was completed once iff it was executed or rejected and never otherwise -/
def Q (c : Cfg) (s : St) (j : Nat) : Prop :=
  s.queue.count j = b2n (s.ph j = .queued) ∧
  s.held.count j = b2n (s.ph j = .held) ∧
  s.done j = b2n (s.ph j = .executed ∨ s.ph j = .rejected) ∧
  (c.skip = false → s.ph j ≠ .skipped)

def Inv (c : Cfg) (s : St) : Prop := ∀ j, Q c s j

theorem b2n_true {p : Prop} [Decidable p] (h : p) : b2n p = 1 := by simp [b2n, h]
theorem b2n_false {p : Prop} [Decidable p] (h : ¬ p) : b2n p = 0 := by simp [b2n, h]

theorem inv_init (c : Cfg) : Inv c init := by
  intro j; simp [Q, init, b2n]

theorem upd_same {α : Type} (f : Nat → α) (i : Nat) (v : α) : upd f i v i = v := by simp [upd]
theorem upd_other {α : Type} (f : Nat → α) {i j : Nat} (v : α) (h : j ≠ i) : upd f i v j = f j := by
  simp [upd, h]

theorem inv_step {c : Cfg} {s s' : St} {e : Ev} (hi : Inv c s) (h : step c s e = some s') : Inv c s' := by
  cases e with
  | submit i =>
    simp only [step] at h
    split at h
    · rename_i hp; injection h with h; subst h
      intro j; have hj := hi j
      by_cases hji : j = i
      · subst hji; simp_all [Q, upd_same, b2n]
      · simpa [Q, upd_other _ _ hji] using hj
    · cases h
  | check i =>
    simp only [step] at h
    split at h
    · rename_i hp
      split at h <;> (injection h with h; subst h) <;> intro j <;> have hj := hi j <;>
        by_cases hji : j = i
      · subst hji; simp_all [Q, upd_same, b2n]
      · simpa [Q, upd_other _ _ hji] using hj
      · subst hji; simp_all [Q, upd_same, b2n]
      · simpa [Q, upd_other _ _ hji] using hj
    · cases h
  | send i =>
    simp only [step] at h
    split at h
    · rename_i hp; injection h with h; subst h
      intro j; have hj := hi j
      by_cases hji : j = i
      · subst hji; simp_all [Q, upd_same, b2n, List.count_append]
      · have hne : (i == j) = false := by simp; exact fun h => hji h.symm
        simpa [Q, upd_other _ _ hji, List.count_append, List.count_cons, hne] using hj
    · cases h
  | ctxReject i =>
    simp only [step] at h
    split at h
    · rename_i hp; injection h with h; subst h
      intro j; have hj := hi j
      by_cases hji : j = i
      · subst hji; simp_all [Q, upd_same, b2n]
      · simpa [Q, upd_other _ _ hji] using hj
    · cases h
  | take =>
    simp only [step] at h
    split at h
    · cases h
    · rename_i i rest hq
      split at h
      · injection h with h; subst h
        intro j; have hj := hi j
        by_cases hji : j = i
        · subst hji
          have h1 := hj.1
          rw [hq] at h1
          simp only [List.count_cons_self] at h1
          have hph : s.ph j = .queued := by
            by_cases hph : s.ph j = .queued
            · exact hph
            · simp [b2n, hph] at h1
          have h2 := hj.2.1
          rw [b2n_true hph] at h1
          rw [b2n_false (by simp [hph])] at h2
          refine ⟨?_, ?_, ?_, ?_⟩
          · show rest.count j = b2n (upd s.ph j .held j = .queued)
            rw [upd_same, b2n_false (by simp)]; omega
          · show (j :: s.held).count j = b2n (upd s.ph j .held j = .held)
            rw [upd_same, b2n_true rfl, List.count_cons_self]; omega
          · have := hj.2.2.1; simpa [upd_same, b2n, hph] using this
          · intro _; simp [upd_same]
        · have hne : (i == j) = false := by simp; exact fun h => hji h.symm
          have h1 := hj.1
          rw [hq] at h1
          simp only [List.count_cons, hne] at h1
          refine ⟨?_, ?_, ?_, ?_⟩
          · simpa [upd_other _ _ hji] using h1
          · simpa [upd_other _ _ hji, List.count_cons, hne] using hj.2.1
          · simpa [upd_other _ _ hji] using hj.2.2.1
          · simpa [upd_other _ _ hji] using hj.2.2.2
      · cases h
  | exec i =>
    simp only [step] at h
    split at h
    · rename_i hp
      split at h <;> (injection h with h; subst h) <;> intro j <;> have hj := hi j <;>
        by_cases hji : j = i
      · subst hji
        rename_i hsk
        have h2 := hj.2.1
        rw [b2n_true hp] at h2
        refine ⟨?_, ?_, ?_, ?_⟩
        · simpa [upd_same, b2n, hp] using hj.1
        · show (s.held.erase j).count j = b2n (upd s.ph j .skipped j = .held)
          rw [upd_same, b2n_false (by simp), List.count_erase_self]; omega
        · simpa [upd_same, b2n, hp] using hj.2.2.1
        · intro hs; simp [hs] at hsk
      · refine ⟨?_, ?_, ?_, ?_⟩
        · simpa [upd_other _ _ hji] using hj.1
        · simpa [upd_other _ _ hji, List.count_erase_of_ne hji] using hj.2.1
        · simpa [upd_other _ _ hji] using hj.2.2.1
        · simpa [upd_other _ _ hji] using hj.2.2.2
      · subst hji
        have h2 := hj.2.1
        have h3 := hj.2.2.1
        rw [b2n_true hp] at h2
        rw [b2n_false (by simp [hp])] at h3
        refine ⟨?_, ?_, ?_, ?_⟩
        · simpa [upd_same, b2n, hp] using hj.1
        · show (s.held.erase j).count j = b2n (upd s.ph j .executed j = .held)
          rw [upd_same, b2n_false (by simp), List.count_erase_self]; omega
        · show upd s.done j (s.done j + 1) j = b2n (upd s.ph j .executed j = .executed ∨ upd s.ph j .executed j = .rejected)
          rw [upd_same, upd_same, b2n_true (Or.inl rfl)]; omega
        · intro _; simp [upd_same]
      · refine ⟨?_, ?_, ?_, ?_⟩
        · simpa [upd_other _ _ hji] using hj.1
        · simpa [upd_other _ _ hji, List.count_erase_of_ne hji] using hj.2.1
        · simpa [upd_other _ _ hji] using hj.2.2.1
        · simpa [upd_other _ _ hji] using hj.2.2.2
    · cases h
  | cancel i =>
    simp only [step] at h
    injection h with h; subst h
    intro j; exact hi j
  | stop =>
    simp only [step] at h
    injection h with h; subst h
    intro j; exact hi j
  | drainEnd =>
    simp only [step] at h
    split at h
    · injection h with h; subst h
      intro j; exact hi j
    · cases h

theorem inv_run {c : Cfg} : ∀ (es : List Ev) (s s' : St), Inv c s → run c s es = some s' → Inv c s'
  | [], s, s', hi, h => by simp only [run] at h; injection h with h; subst h; exact hi
  | e :: es, s, s', hi, h => by
    simp only [run] at h
    split at h
    · rename_i s1 hs; exact inv_run es s1 s' (inv_step hi hs) h
    · cases h

/-- the consumers' flag only changes by `drainEnd` -/
theorem mem_of_count_pos {l : List Nat} {j : Nat} (h : l.count j = 1) : j ∈ l := by
  have : 0 < l.count j := by omega
  exact List.count_pos_iff.mp this

/-- some task is held ⇒ `exec` of it is enabled -/
theorem exec_enabled (c : Cfg) (s : St) (k : Nat) (hk : s.ph k = .held) : step c s (.exec k) ≠ none := by
  simp only [step, hk, if_true]
  split <;> simp

/-- the channel is not empty and the consumers are alive ⇒ `take` or some `exec` is enabled -/
theorem consumer_enabled {c : Cfg} {s : St} (hi : Inv c s) (hs : 0 < c.slots) (hg : s.consumersGone = false)
    (hq : s.queue ≠ []) : ∃ e : Ev, e.progress = true ∧ step c s e ≠ none := by
  by_cases hl : s.held.length < c.slots
  · refine ⟨.take, rfl, ?_⟩
    simp only [step]
    cases hqq : s.queue with
    | nil => exact absurd hqq hq
    | cons i rest => simp [hl, hg]
  · cases hh : s.held with
    | nil => simp [hh] at hl; omega
    | cons k rest =>
      have hc := (hi k).2.1
      rw [hh] at hc
      simp only [List.count_cons_self] at hc
      have hph : s.ph k = .held := by
        by_cases hph : s.ph k = .held
        · exact hph
        · simp [b2n, hph] at hc
      exact ⟨.exec k, rfl, exec_enabled c s k hph⟩

/-- nothing of the pool can move and the consumers are alive ⇒ every task is at an end -/
theorem stuck_phase {c : Cfg} {s : St} (hi : Inv c s) (hcap : 0 < c.cap) (hs : 0 < c.slots)
    (hg : s.consumersGone = false) (hst : Stuck c s) (i : Nat) :
    s.ph i = .idle ∨ s.ph i = .executed ∨ s.ph i = .rejected ∨ s.ph i = .skipped := by
  have hqe : s.queue = [] := by
    by_cases hq : s.queue = []
    · exact hq
    · obtain ⟨e, he, hne⟩ := consumer_enabled hi hs hg hq
      exact absurd (hst e he) hne
  cases hp : s.ph i with
  | idle => simp
  | executed => simp
  | rejected => simp
  | skipped => simp
  | check =>
    have := hst (.check i) rfl
    simp only [step, hp, if_true] at this
    split at this <;> cases this
  | select =>
    have := hst (.send i) rfl
    simp [step, hp, hqe, hcap] at this
  | queued =>
    have hc := (hi i).1
    simp [hqe, hp, b2n] at hc
  | held =>
    exact absurd (hst (.exec i) rfl) (exec_enabled c s i hp)

/-- a task whose closure returned early stays uncompleted whatever happens afterwards -/
theorem skipped_step {c : Cfg} {s s' : St} {e : Ev} {i : Nat} (hi : Inv c s) (h : step c s e = some s')
    (hp : s.ph i = .skipped) : s'.ph i = .skipped ∧ s'.done i = s.done i := by
  have hq := (hi i).1
  have hh := (hi i).2.1
  simp only [hp, b2n] at hq hh
  cases e with
  | submit k =>
    simp only [step] at h
    split at h
    · rename_i hk; injection h with h; subst h
      have : i ≠ k := fun hik => by subst hik; simp [hp] at hk
      simp [upd_other _ _ this, hp]
    · cases h
  | check k =>
    simp only [step] at h
    split at h
    · rename_i hk
      have : i ≠ k := fun hik => by subst hik; simp [hp] at hk
      split at h <;> (injection h with h; subst h) <;> simp [upd_other _ _ this, hp]
    · cases h
  | send k =>
    simp only [step] at h
    split at h
    · rename_i hk; injection h with h; subst h
      have : i ≠ k := fun hik => by subst hik; simp [hp] at hk
      simp [upd_other _ _ this, hp]
    · cases h
  | ctxReject k =>
    simp only [step] at h
    split at h
    · rename_i hk; injection h with h; subst h
      have : i ≠ k := fun hik => by subst hik; simp [hp] at hk
      simp [upd_other _ _ this, hp]
    · cases h
  | take =>
    simp only [step] at h
    split at h
    · cases h
    · rename_i k rest hqq
      split at h
      · injection h with h; subst h
        have : i ≠ k := fun hik => by subst hik; simp [hqq] at hq
        simp [upd_other _ _ this, hp]
      · cases h
  | exec k =>
    simp only [step] at h
    split at h
    · rename_i hk
      have : i ≠ k := fun hik => by subst hik; simp [hp] at hk
      split at h <;> (injection h with h; subst h) <;> simp [upd_other _ _ this, hp]
    · cases h
  | cancel k => simp only [step] at h; injection h with h; subst h; exact ⟨hp, rfl⟩
  | stop => simp only [step] at h; injection h with h; subst h; exact ⟨hp, rfl⟩
  | drainEnd =>
    simp only [step] at h
    split at h
    · injection h with h; subst h; exact ⟨hp, rfl⟩
    · cases h

theorem skipped_run {c : Cfg} {i : Nat} : ∀ (es : List Ev) (s s' : St), Inv c s → run c s es = some s' →
    s.ph i = .skipped → s'.ph i = .skipped ∧ s'.done i = s.done i
  | [], s, s', _, h, hp => by simp only [run] at h; injection h with h; subst h; exact ⟨hp, rfl⟩
  | e :: es, s, s', hi, h, hp => by
    simp only [run] at h
    split at h
    · rename_i s1 hs
      have h1 := skipped_step hi hs hp
      have h2 := skipped_run es s1 s' (inv_step hi hs) h h1.1
      exact ⟨h2.1, h2.2.trans h1.2⟩
    · cases h

/-! ### termination of the pool's own steps: every progress step moves one task one phase forward -/

def rank : Phase → Nat
  | .check => 4 | .select => 3 | .queued => 2 | .held => 1 | _ => 0

def muF (ts : List Nat) (f : Nat → Phase) : Nat := (ts.map (fun i => rank (f i))).sum

theorem muF_upd_notin (ts : List Nat) (f : Nat → Phase) (i : Nat) (v : Phase) (h : i ∉ ts) :
    muF ts (upd f i v) = muF ts f := by
  induction ts with
  | nil => rfl
  | cons a t ih =>
    simp only [List.mem_cons, not_or] at h
    have ha : a ≠ i := fun e => h.1 e.symm
    simp only [muF, List.map_cons, List.sum_cons] at ih ⊢
    rw [ih h.2, upd_other _ _ ha]

theorem muF_upd_mem (ts : List Nat) (f : Nat → Phase) (i : Nat) (v : Phase) (hn : ts.Nodup) (h : i ∈ ts) :
    muF ts (upd f i v) + rank (f i) = muF ts f + rank v := by
  induction ts with
  | nil => cases h
  | cons a t ih =>
    rw [List.nodup_cons] at hn
    by_cases ha : a = i
    · subst ha
      have := muF_upd_notin t f a v hn.1
      simp only [muF, List.map_cons, List.sum_cons] at this ⊢
      rw [this, upd_same]; omega
    · have hi : i ∈ t := by
        rcases List.mem_cons.mp h with h1 | h1
        · exact absurd h1.symm ha
        · exact h1
      have := ih hn.2 hi
      simp only [muF, List.map_cons, List.sum_cons] at this ⊢
      rw [upd_other _ _ ha]; omega

theorem dec_of_upd {ts : List Nat} {f : Nat → Phase} {i : Nat} {v : Phase} (hn : ts.Nodup)
    (hsup : ∀ j, rank (f j) ≠ 0 → j ∈ ts) (hlt : rank v < rank (f i)) :
    muF ts (upd f i v) + 1 ≤ muF ts f ∧ ∀ j, rank (upd f i v j) ≠ 0 → j ∈ ts := by
  have hi : i ∈ ts := hsup i (by omega)
  have := muF_upd_mem ts f i v hn hi
  refine ⟨by omega, fun j hj => ?_⟩
  by_cases hji : j = i
  · subst hji; exact hi
  · rw [upd_other _ _ hji] at hj; exact hsup j hj

/-- one progress step: the measure over any duplicate-free list that covers the active tasks drops -/
theorem progress_step_dec {c : Cfg} {s s' : St} {e : Ev} {ts : List Nat} (hi : Inv c s) (he : e.progress = true)
    (h : step c s e = some s') (hn : ts.Nodup) (hsup : ∀ j, rank (s.ph j) ≠ 0 → j ∈ ts) :
    muF ts s'.ph + 1 ≤ muF ts s.ph ∧ ∀ j, rank (s'.ph j) ≠ 0 → j ∈ ts := by
  cases e with
  | submit k => cases he
  | cancel k => cases he
  | stop => cases he
  | drainEnd => cases he
  | check k =>
    simp only [step] at h
    split at h
    · rename_i hp
      split at h <;> (injection h with h; subst h) <;> exact dec_of_upd hn hsup (by rw [hp]; decide)
    · cases h
  | send k =>
    simp only [step] at h
    split at h
    · rename_i hp; injection h with h; subst h
      exact dec_of_upd hn hsup (by rw [hp.1]; decide)
    · cases h
  | ctxReject k =>
    simp only [step] at h
    split at h
    · rename_i hp; injection h with h; subst h
      exact dec_of_upd hn hsup (by rw [hp.1]; decide)
    · cases h
  | take =>
    simp only [step] at h
    split at h
    · cases h
    · rename_i k rest hq
      split at h
      · injection h with h; subst h
        have h1 := (hi k).1
        rw [hq] at h1
        simp only [List.count_cons_self] at h1
        have hph : s.ph k = .queued := by
          by_cases hph : s.ph k = .queued
          · exact hph
          · rw [b2n_false hph] at h1; omega
        exact dec_of_upd hn hsup (by rw [hph]; decide)
      · cases h
  | exec k =>
    simp only [step] at h
    split at h
    · rename_i hp
      split at h <;> (injection h with h; subst h) <;> exact dec_of_upd hn hsup (by rw [hp]; decide)
    · cases h

theorem progress_run_dec {c : Cfg} {ts : List Nat} (hn : ts.Nodup) : ∀ (es : List Ev) (s s' : St), Inv c s →
    (∀ e ∈ es, e.progress = true) → run c s es = some s' → (∀ j, rank (s.ph j) ≠ 0 → j ∈ ts) →
    es.length + muF ts s'.ph ≤ muF ts s.ph
  | [], s, s', _, _, h, _ => by simp only [run] at h; injection h with h; subst h; simp
  | e :: es, s, s', hi, hp, h, hsup => by
    simp only [run] at h
    split at h
    · rename_i s1 hs
      have h1 := progress_step_dec hi (hp e (List.mem_cons_self ..)) hs hn hsup
      have h2 := progress_run_dec hn es s1 s' (inv_step hi hs) (fun e' he' => hp e' (List.mem_cons_of_mem _ he')) h h1.2
      simp only [List.length_cons]; omega
    · cases h

theorem rank_le (p : Phase) : rank p ≤ 4 := by cases p <;> decide

theorem muF_le (ts : List Nat) (f : Nat → Phase) : muF ts f ≤ 4 * ts.length := by
  induction ts with
  | nil => simp [muF]
  | cons a t ih =>
    have := rank_le (f a)
    simp only [muF, List.map_cons, List.sum_cons, List.length_cons] at ih ⊢
    omega

/-! ### a finite, duplicate-free cover of the tasks that were ever submitted -/

theorem upd_idle {f : Nat → Phase} {k j : Nat} {v : Phase} (hj : upd f k v j ≠ .idle) (hk : f k ≠ .idle) :
    f j ≠ .idle := by
  by_cases hjk : j = k
  · subst hjk; exact hk
  · rwa [upd_other _ _ hjk] at hj

theorem idle_stays {c : Cfg} {s s' : St} {e : Ev} (hi : Inv c s) (h : step c s e = some s') (j : Nat)
    (hj : s'.ph j ≠ .idle) : s.ph j ≠ .idle ∨ e = .submit j := by
  cases e with
  | submit k =>
    simp only [step] at h
    split at h
    · injection h with h; subst h
      by_cases hjk : j = k
      · subst hjk; exact Or.inr rfl
      · left
        have hj' : upd s.ph k .check j ≠ .idle := hj
        rwa [upd_other _ _ hjk] at hj'
    · cases h
  | check k =>
    simp only [step] at h
    split at h
    · rename_i hp
      split at h <;> (injection h with h; subst h) <;> exact Or.inl (upd_idle hj (by rw [hp]; decide))
    · cases h
  | send k =>
    simp only [step] at h
    split at h
    · rename_i hp; injection h with h; subst h
      exact Or.inl (upd_idle hj (by rw [hp.1]; decide))
    · cases h
  | ctxReject k =>
    simp only [step] at h
    split at h
    · rename_i hp; injection h with h; subst h
      exact Or.inl (upd_idle hj (by rw [hp.1]; decide))
    · cases h
  | take =>
    simp only [step] at h
    split at h
    · cases h
    · rename_i k rest hq
      split at h
      · injection h with h; subst h
        have h1 := (hi k).1
        rw [hq] at h1
        simp only [List.count_cons_self] at h1
        have hph : s.ph k = .queued := by
          by_cases hph : s.ph k = .queued
          · exact hph
          · rw [b2n_false hph] at h1; omega
        exact Or.inl (upd_idle hj (by rw [hph]; decide))
      · cases h
  | exec k =>
    simp only [step] at h
    split at h
    · rename_i hp
      split at h <;> (injection h with h; subst h) <;> exact Or.inl (upd_idle hj (by rw [hp]; decide))
    · cases h
  | cancel k => simp only [step] at h; injection h with h; subst h; exact Or.inl hj
  | stop => simp only [step] at h; injection h with h; subst h; exact Or.inl hj
  | drainEnd =>
    simp only [step] at h
    split at h
    · injection h with h; subst h; exact Or.inl hj
    · cases h

def Covered (s : St) : Prop := ∃ ts : List Nat, ts.Nodup ∧ ∀ j, s.ph j ≠ .idle → j ∈ ts

theorem covered_init : Covered init := ⟨[], List.nodup_nil, fun _ hj => absurd rfl hj⟩

theorem covered_step {c : Cfg} {s s' : St} {e : Ev} (hi : Inv c s) (hc : Covered s) (h : step c s e = some s') :
    Covered s' := by
  obtain ⟨ts, hn, hcov⟩ := hc
  cases e with
  | submit k =>
    by_cases hk : k ∈ ts
    · refine ⟨ts, hn, fun j hj => ?_⟩
      rcases idle_stays hi h j hj with h1 | h1
      · exact hcov j h1
      · injection h1 with h1; subst h1; exact hk
    · refine ⟨k :: ts, List.nodup_cons.mpr ⟨hk, hn⟩, fun j hj => ?_⟩
      rcases idle_stays hi h j hj with h1 | h1
      · exact List.mem_cons_of_mem _ (hcov j h1)
      · injection h1 with h1; subst h1; exact List.mem_cons_self ..
  | check k | send k | ctxReject k | take | exec k | cancel k | stop | drainEnd =>
    refine ⟨ts, hn, fun j hj => ?_⟩
    rcases idle_stays hi h j hj with h1 | h1
    · exact hcov j h1
    · cases h1

theorem covered_run {c : Cfg} : ∀ (es : List Ev) (s s' : St), Inv c s → Covered s → run c s es = some s' → Covered s'
  | [], s, s', _, hc, h => by simp only [run] at h; injection h with h; subst h; exact hc
  | e :: es, s, s', hi, hc, h => by
    simp only [run] at h
    split at h
    · rename_i s1 hs; exact covered_run es s1 s' (inv_step hi hs) (covered_step hi hc hs) h
    · cases h

theorem rank_idle {p : Phase} (h : rank p ≠ 0) : p ≠ .idle := by
  intro e; subst e; exact h rfl

end LinVerif.PoolQueue
