/-
C13 — interval ladders: `Intervals.IsValid` ⇔ pairwise distinct interval types; consequences for the
segment directories and for resolving the planner's storage interval by type. Interval text round
trip and CalcTimeWindows.
-/
import LinVerif.Model.Interval
import LinVerif.Lemmas.C13Interval
import LinVerif.Lemmas.C13Planner

namespace LinVerif.Lemmas.C13
open LinVerif.Calendar LinVerif.Interval

theorem isValidFrom_iff (seen : List Calc) (l : List Int) :
    isValidFrom seen l = true ↔
      (l.map intervalType).Nodup ∧ ∀ x ∈ l, intervalType x ∉ seen := by
  induction l generalizing seen with
  | nil => simp [isValidFrom]
  | cons i r ih =>
    simp only [isValidFrom]
    split
    · rename_i hc
      simp only [List.contains_eq_mem, decide_eq_true_eq] at hc
      simp only [Bool.false_eq_true, false_iff, not_and]
      intro _ h
      exact absurd hc (h i (by simp))
    · rename_i hc
      simp only [List.contains_eq_mem, decide_eq_true_eq] at hc
      rw [ih]
      simp only [List.map_cons, List.nodup_cons, List.mem_cons, List.mem_map, not_or]
      constructor
      · rintro ⟨hn, hx⟩
        refine ⟨⟨?_, hn⟩, ?_⟩
        · rintro ⟨a, ha, e⟩; exact (hx a ha).1 e
        · intro x hx'
          rcases hx' with rfl | hx'
          · exact hc
          · exact (hx x hx').2
      · rintro ⟨⟨h1, hn⟩, hx⟩
        refine ⟨hn, fun x hx' => ⟨?_, hx x (Or.inr hx')⟩⟩
        intro e; exact h1 ⟨x, hx', e⟩

theorem ladderValid_iff (l : List Int) : ladderValid l = true ↔ (l.map intervalType).Nodup := by
  simp [ladderValid, isValidFrom_iff]

theorem find_of_nodup {l : List Int} (hn : (l.map intervalType).Nodup) {x : Int} (hx : x ∈ l) :
    l.find? (fun i => intervalType i = intervalType x) = some x := by
  induction l with
  | nil => simp at hx
  | cons a r ih =>
    simp only [List.map_cons, List.nodup_cons, List.mem_map, not_exists, not_and] at hn
    rcases List.mem_cons.1 hx with rfl | hx
    · simp
    · have hne : intervalType a ≠ intervalType x := fun e => hn.1 x hx e.symm
      simp only [List.find?_cons, hne, decide_false]
      exact ih hn.2 hx

theorem segmentDirName_inj {i j : Int} (h : segmentDirName i = segmentDirName j) :
    intervalType i = intervalType j := by
  simp only [segmentDirName] at h
  cases hi : intervalType i <;> cases hj : intervalType j <;> simp_all

theorem dirs_nodup {l : List Int} (hn : (l.map intervalType).Nodup) : (l.map segmentDirName).Nodup := by
  induction l with
  | nil => simp
  | cons a r ih =>
    simp only [List.map_cons, List.nodup_cons, List.mem_map, not_exists, not_and] at hn ⊢
    exact ⟨fun x hx e => hn.1 x hx (segmentDirName_inj e), ih hn.2⟩

theorem parts_roundtrip (v : Int) (h0 : 0 < v) (hd : 1000 ∣ v) : valueOfParts (intervalParts v) = v := by
  obtain ⟨k, rfl⟩ := hd
  have hv : 0 ≤ 1000 * k := by omega
  simp only [intervalParts, valueOfParts, TimeUnit.ms,
    show oneYear = 31536000000 by decide, show oneMonth = 2592000000 by decide, oneDay_val, oneHour_val,
    show oneMinute = 60000 by decide, show oneSecond = 1000 by decide,
    Int.tdiv_eq_ediv_of_nonneg hv, Int.tmod_eq_emod_of_nonneg hv]
  split_ifs <;> simp only <;> omega

theorem dateDays_civil (z : Int) :
    dateDays (civilFromDays z).1 (civilFromDays z).2.1 (civilFromDays z).2.2 = z := by
  obtain ⟨a1, a2, _, a4, _⟩ := civil_spec z
  have e1 : ((civilFromDays z).2.1 - 1) / 12 = 0 := by omega
  have e2 : ((civilFromDays z).2.1 - 1) % 12 + 1 = (civilFromDays z).2.1 := by omega
  simp only [dateDays, normMonth, e1, e2, Int.add_zero, a4]

theorem timeWindows_day {a b : Int} (ha : 0 ≤ a) (hab : a ≤ b) :
    calcTimeWindows .day a b = b / 3600000 - a / 3600000 + 1 := by
  have hb : 0 ≤ b := by omega
  simp only [calcTimeWindows, oneHour_val, Int.tdiv_eq_ediv_of_nonneg ha, Int.tdiv_eq_ediv_of_nonneg hb]
  rw [Int.tdiv_eq_ediv_of_nonneg (by omega)]; omega

theorem timeWindows_month {a b : Int} (ha : 0 ≤ a) (hab : a ≤ b) :
    calcTimeWindows .month a b = b / 86400000 - a / 86400000 + 1 := by
  have hb : 0 ≤ b := by omega
  simp only [calcTimeWindows, civilOfMs_nonneg ha, civilOfMs_nonneg hb, dateDays_civil]

end LinVerif.Lemmas.C13
