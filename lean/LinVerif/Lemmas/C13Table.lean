/-
C13 — complete table over one 400-year era (146 097 days), part 0: the checked predicate,
the binary-splitting checker and its soundness lemma.

`omega` derives every bound of the civil-from-days algorithm except the two that relate the
year-of-era formula `yoeOf` to the day-of-era (`yearStart (yoeOf doe) ≤ doe < yearStart (yoeOf doe + 1)`):
these are not linear consequences of the division bounds. They are a statement about finitely
many numbers, which is enumerated completely here (`decide +kernel` on power-of-two pieces in
`C13TableA..E`) and lifted to all days by era periodicity in `C13Calendar`.
-/
namespace LinVerif.Lemmas.C13

/-- `Calendar.yoeOf` on `Nat` (no subtraction below truncates: `doe/1460 ≤ doe`, `doe/146096 ≤ 1`) -/
def yoeN (doe : Nat) : Nat := (doe - doe / 1460 + doe / 36524 - doe / 146096) / 365

/-- the table row: the year-of-era `y` of `doe` starts at or before `doe` and the next one after it,
i.e. `yearStart y ≤ doe < yearStart (y+1) + (y+1)/400` with the subtractions moved across
(`+ (y+1)/400` accounts for the 400-th year being leap: the era has 146097 days) -/
def okN (doe : Nat) : Bool :=
  let y := yoeN doe
  Nat.ble (365 * y + y / 4) (doe + y / 100) &&
    Nat.blt (doe + (y + 1) / 100) (365 * (y + 1) + (y + 1) / 4 + (y + 1) / 400)

/-- checks `p` on `lo, lo+1, …, lo + 2^k - 1` by binary splitting (structural in the fuel `k`) -/
def checkRange (p : Nat → Bool) : Nat → Nat → Bool
  | 0, lo => p lo
  | k + 1, lo => checkRange p k lo && checkRange p k (lo + 2 ^ k)

theorem checkRange_sound (p : Nat → Bool) :
    ∀ (k lo : Nat), checkRange p k lo = true → ∀ i, lo ≤ i → i < lo + 2 ^ k → p i = true := by
  intro k
  induction k with
  | zero =>
    intro lo h i h1 h2
    have : i = lo := by simp at h2; omega
    subst this; exact h
  | succ k ih =>
    intro lo h i h1 h2
    simp only [checkRange, Bool.and_eq_true] at h
    have hp : 2 ^ (k + 1) = 2 ^ k + 2 ^ k := by rw [Nat.pow_succ]; omega
    by_cases hc : i < lo + 2 ^ k
    · exact ih lo h.1 i h1 hc
    · exact ih (lo + 2 ^ k) h.2 i (by omega) (by omega)

end LinVerif.Lemmas.C13
