import LinVerif.Model.TableDecoders
/-! helper lemmas for `readers_keep_their_offsets` (Props/C15.lean) -/
namespace LinVerif.Lemmas.C15Decoders
open LinVerif.Model.TableDecoders

theorem stepFresh_grows (s : St) (e : Ev) :
    ∃ h r, (stepFresh s e).heap = s.heap ++ h ∧ (stepFresh s e).readers = s.readers ++ r := by
  cases e with
  | openOk offs => exact ⟨[offs], [s.heap.length], rfl, rfl⟩
  | openRefusedEarly => exact ⟨[], [], by simp [stepFresh], by simp [stepFresh]⟩
  | openRefusedLate offs => exact ⟨[offs], [], rfl, by simp [stepFresh]⟩

theorem runFresh_grows (evs : List Ev) : ∀ s : St,
    ∃ h r, (runFresh s evs).heap = s.heap ++ h ∧ (runFresh s evs).readers = s.readers ++ r := by
  induction evs with
  | nil => intro s; exact ⟨[], [], by simp [runFresh], by simp [runFresh]⟩
  | cons e es ih =>
    intro s
    obtain ⟨h1, r1, hh1, hr1⟩ := stepFresh_grows s e
    obtain ⟨h2, r2, hh2, hr2⟩ := ih (stepFresh s e)
    refine ⟨h1 ++ h2, r1 ++ r2, ?_, ?_⟩
    · show (runFresh (stepFresh s e) es).heap = _
      rw [hh2, hh1, List.append_assoc]
    · show (runFresh (stepFresh s e) es).readers = _
      rw [hr2, hr1, List.append_assoc]

theorem answers_append (s t : St) (h : List Offs) (r : List Nat)
    (hh : t.heap = s.heap ++ h) (hr : t.readers = s.readers ++ r) (i : Nat) (offs : Offs)
    (ha : answers s i = some offs) : answers t i = some offs := by
  unfold answers at ha ⊢
  cases hri : s.readers[i]? with
  | none => simp [hri] at ha
  | some a =>
    simp only [hri] at ha
    have hi : i < s.readers.length := (List.getElem?_eq_some_iff.mp hri).1
    have hal : a < s.heap.length := (List.getElem?_eq_some_iff.mp ha).1
    rw [hr, List.getElem?_append_left hi, hri]
    simp only
    rw [hh, List.getElem?_append_left hal]
    exact ha

end LinVerif.Lemmas.C15Decoders
