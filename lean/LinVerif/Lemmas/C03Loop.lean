/-
C03 helper lemmas for `Model/MergeLoop.lean`: the level-1 input map of `PickL0Compaction`, the
`uint16` slot loop, the reused `fieldReader`, damaged input blocks.
-/
import LinVerif.Model.MergeLoop
import LinVerif.Model.Compact
import LinVerif.Lemmas.C03Map

set_option linter.unusedSectionVars false
set_option linter.unusedSimpArgs false
set_option linter.unusedVariables false
namespace LinVerif.C03
open LinVerif.Map LinVerif.MetricBlock LinVerif.Merge LinVerif.MergeLoop

/-! ### A. the level-1 input map -/
section PickLemmas
open Pick
variable {α : Type}

theorem nodup_of_map_nodup {β : Type} (f : α → β) : ∀ (l : List α), (l.map f).Nodup → l.Nodup
  | [], _ => List.nodup_nil
  | x :: t, h => by
    rw [List.map_cons, List.nodup_cons] at h
    rw [List.nodup_cons]
    exact ⟨fun hx => h.1 (List.mem_map_of_mem hx), nodup_of_map_nodup f t h.2⟩

theorem mem_upsert {ν : Type} (m : List (Nat × ν)) (k : Nat) (v : ν) (p : Nat × ν)
    (h : p ∈ upsert m k v) : p = (k, v) ∨ p ∈ m := by
  induction m with
  | nil => simp [upsert] at h; exact Or.inl h
  | cons q t ih =>
    obtain ⟨k', v'⟩ := q
    by_cases e : k' = k
    · simp only [upsert, e, if_true, List.mem_cons] at h
      rcases h with h | h
      · exact Or.inl h
      · exact Or.inr (List.mem_cons_of_mem _ h)
    · simp only [upsert, e, if_false, List.mem_cons] at h
      rcases h with h | h
      · exact Or.inr (by rw [h]; exact List.mem_cons_self)
      · rcases ih h with h | h
        · exact Or.inl h
        · exact Or.inr (List.mem_cons_of_mem _ h)

theorem keys_upsert_nodup {ν : Type} (m : List (Nat × ν)) (k : Nat) (v : ν)
    (h : (keys m).Nodup) : (keys (upsert m k v)).Nodup := by
  induction m with
  | nil => simp [upsert, keys]
  | cons q t ih =>
    obtain ⟨k', v'⟩ := q
    rw [keys_cons, List.nodup_cons] at h
    by_cases e : k' = k
    · subst e
      simp only [upsert, if_true, keys_cons, List.nodup_cons]
      exact h
    · simp only [upsert, e, if_false, keys_cons, List.nodup_cons]
      refine ⟨?_, ih h.2⟩
      intro hm
      rcases (keys_upsert_mem t k v k').1 hm with h1 | h1
      · exact e h1
      · exact h.1 h1

/-- the Go map filled from a list of files -/
def fillMap (num : α → Nat) (xs : List α) (m : List (Nat × α)) : List (Nat × α) :=
  xs.foldl (fun m f => upsert m (num f) f) m

theorem pickLoop_eq_fill (num : α → Nat) (ov : α → α → Bool) (l0 l1 : List α) :
    pickLoop num ov l0 l1 = fillMap num (pickedNoDedup ov l0 l1) [] := by
  unfold pickLoop fillMap pickedNoDedup
  rw [List.foldl_flatMap]

theorem fillMap_nodup (num : α → Nat) (xs : List α) (m : List (Nat × α)) (h : (keys m).Nodup) :
    (keys (fillMap num xs m)).Nodup := by
  induction xs generalizing m with
  | nil => exact h
  | cons x t ih => exact ih _ (keys_upsert_nodup m (num x) x h)

theorem fillMap_mem (num : α → Nat) (xs : List α) (m : List (Nat × α)) (p : Nat × α)
    (h : p ∈ fillMap num xs m) : p ∈ m ∨ (p.1 = num p.2 ∧ p.2 ∈ xs) := by
  induction xs generalizing m with
  | nil => exact Or.inl h
  | cons x t ih =>
    rcases ih (upsert m (num x) x) h with h1 | ⟨h1, h2⟩
    · rcases mem_upsert m (num x) x p h1 with h3 | h3
      · right; rw [h3]; exact ⟨rfl, List.mem_cons_self⟩
      · exact Or.inl h3
    · exact Or.inr ⟨h1, List.mem_cons_of_mem _ h2⟩

theorem fillMap_keeps (num : α → Nat) (xs : List α) (m : List (Nat × α)) (k : Nat) (v : α)
    (h : lookup m k = some v) (hsame : ∀ x ∈ xs, num x = k → x = v) :
    lookup (fillMap num xs m) k = some v := by
  induction xs generalizing m with
  | nil => exact h
  | cons x t ih =>
    apply ih (upsert m (num x) x)
    · by_cases e : num x = k
      · have := hsame x List.mem_cons_self e
        subst this; rw [e]; exact lookup_upsert_self m k x
      · rw [lookup_upsert_ne m (num x) k x e]; exact h
    · intro y hy; exact hsame y (List.mem_cons_of_mem _ hy)

theorem fillMap_has (num : α → Nat) (xs : List α) (m : List (Nat × α)) (f : α) (hf : f ∈ xs)
    (hinj : ∀ x ∈ xs, num x = num f → x = f) : lookup (fillMap num xs m) (num f) = some f := by
  induction xs generalizing m with
  | nil => cases hf
  | cons x t ih =>
    by_cases e : x = f
    · subst e
      exact fillMap_keeps num t (upsert m (num x) x) (num x) x (lookup_upsert_self m (num x) x)
        (fun y hy => hinj y (List.mem_cons_of_mem _ hy))
    · have hft : f ∈ t := by
        rcases List.mem_cons.1 hf with h | h
        · exact absurd h.symm e
        · exact h
      exact ih (upsert m (num x) x) hft (fun y hy => hinj y (List.mem_cons_of_mem _ hy))

theorem mem_pickedNoDedup (ov : α → α → Bool) (l0 l1 : List α) (f : α) :
    f ∈ pickedNoDedup ov l0 l1 ↔ f ∈ l1 ∧ ∃ g ∈ l0, ov g f = true := by
  unfold pickedNoDedup
  simp only [List.mem_flatMap, List.mem_filter]
  constructor
  · rintro ⟨g, hg, hf, ho⟩; exact ⟨hf, g, hg, ho⟩
  · rintro ⟨hf, g, hg, ho⟩; exact ⟨g, hg, hf, ho⟩

theorem picked_nodup (num : α → Nat) (ov : α → α → Bool) (l0 l1 : List α) :
    (picked num ov l0 l1).Nodup := by
  unfold picked
  rw [pickLoop_eq_fill]
  have hn := fillMap_nodup num (pickedNoDedup ov l0 l1) [] (by simp [keys])
  have hk : keys (fillMap num (pickedNoDedup ov l0 l1) []) =
      ((fillMap num (pickedNoDedup ov l0 l1) []).map Prod.snd).map num := by
    unfold keys
    rw [List.map_map]
    apply List.map_congr_left
    intro p hp
    rcases fillMap_mem num _ [] p hp with h | ⟨h, _⟩
    · cases h
    · exact h
  rw [hk] at hn
  exact nodup_of_map_nodup num _ hn

theorem mem_picked (num : α → Nat) (ov : α → α → Bool) (l0 l1 : List α)
    (hinj : ∀ f ∈ l1, ∀ g ∈ l1, num f = num g → f = g) (f : α) :
    f ∈ picked num ov l0 l1 ↔ f ∈ l1 ∧ ∃ g ∈ l0, ov g f = true := by
  unfold picked
  rw [pickLoop_eq_fill, ← mem_pickedNoDedup]
  constructor
  · intro h
    obtain ⟨p, hp, rfl⟩ := List.mem_map.1 h
    rcases fillMap_mem num _ [] p hp with h | ⟨_, h⟩
    · cases h
    · exact h
  · intro h
    have hl := fillMap_has num (pickedNoDedup ov l0 l1) [] f h (by
      intro x hx e
      exact hinj x ((mem_pickedNoDedup ov l0 l1 x).1 hx).1 f ((mem_pickedNoDedup ov l0 l1 f).1 h).1 e)
    exact List.mem_map.2 ⟨(num f, f), lookup_mem hl, rfl⟩

end PickLemmas

/-! ### B. the `uint16` slot loop -/
section WrapLemmas
open Wrap
variable {σ V : Type}

theorem loop16_exact (body : σ → Nat → Ctl σ) (stop : Nat) (hstop : stop < 65535) :
    ∀ (n fuel : Nat) (st : σ) (m : Nat), m + n = stop + 1 → n < fuel →
      loop16 body stop fuel st m = some (loopNat body st m n) := by
  intro n
  induction n with
  | zero =>
    intro fuel st m hm hf
    cases fuel with
    | zero => omega
    | succ f =>
      have : ¬ m ≤ stop := by omega
      simp [loop16, loopNat, this]
  | succ n ih =>
    intro fuel st m hm hf
    cases fuel with
    | zero => omega
    | succ f =>
      have hle : m ≤ stop := by omega
      have hmod : (m + 1) % W = m + 1 := by
        apply Nat.mod_eq_of_lt; unfold W; omega
      simp only [loop16, hle, if_true, loopNat, hmod]
      cases body st m with
      | next st' => exact ih f st' (m + 1) (by omega) (by omega)
      | brk st' => rfl

/-- **no wrap-around below 65535**: the `uint16` loop is the loop over the naturals -/
theorem loop16_no_wrap (body : σ → Nat → Ctl σ) (start stop fuel : Nat) (st : σ)
    (hstop : stop < 65535) (hfuel : stop + 1 - start < fuel) :
    loop16 body stop fuel st start = some (loopNat body st start (stop + 1 - start)) := by
  by_cases h : start ≤ stop + 1
  · exact loop16_exact body stop hstop _ fuel st start (by omega) hfuel
  · cases fuel with
    | zero => omega
    | succ f =>
      have h1 : ¬ start ≤ stop := by omega
      have h2 : stop + 1 - start = 0 := by omega
      simp [loop16, h1, h2, loopNat]

/-- a range that ends at slot 65535: `m <= 65535` holds for every `uint16`, the header never exits -/
theorem loop16_hangs (body : σ → Nat → Ctl σ)
    (hnb : ∀ st m, m < W → ∃ st', body st m = .next st') :
    ∀ (fuel : Nat) (st : σ) (m : Nat), m < W → loop16 body 65535 fuel st m = none := by
  intro fuel
  induction fuel with
  | zero => intro st m _; rfl
  | succ f ih =>
    intro st m hm
    have hle : m ≤ 65535 := by unfold W at hm; omega
    obtain ⟨st', hb⟩ := hnb st m hm
    simp only [loop16, hle, if_true, hb]
    exact ih st' ((m + 1) % W) (Nat.mod_lt _ (by unfold W; omega))

theorem loopNat_feedBody (op : V → V → V) (cfg : Cfg) (tStart len : Nat) (vals : List (Nat × V)) :
    ∀ (n : Nat) (acc : List (Nat × V)) (t : Nat),
      loopNat (feedBody op cfg tStart len vals) acc t n = feed op cfg tStart len vals acc t n := by
  intro n
  induction n with
  | zero => intro acc t; rfl
  | succ n ih =>
    intro acc t
    unfold loopNat feed feedBody
    cases hl : lookup vals t with
    | none => simp only []; exact ih acc (t + 1)
    | some v =>
      simp only []
      by_cases h1 : (cfg.baseSlot : Int) + ((t / cfg.ratio : Nat) : Int) - (tStart : Int) < 0
      · simp only [h1, if_true]; exact ih acc (t + 1)
      · by_cases h2 : (cfg.baseSlot : Int) + ((t / cfg.ratio : Nat) : Int) - (tStart : Int) ≥ (len : Int)
        · simp only [h1, if_false, h2, if_true]
        · simp only [h1, if_false, h2]; exact ih _ (t + 1)

/-- a compaction merge (ratio 1, base slot 0) whose target range ends at 65535 never takes the `break` -/
theorem feedBody_no_break (op : V → V → V) (tStart : Nat) (vals : List (Nat × V))
    (acc : List (Nat × V)) (t : Nat) (ht : t < W) :
    ∃ st', feedBody op compactCfg tStart (65535 + 1 - tStart) vals acc t = .next st' := by
  unfold feedBody
  cases lookup vals t with
  | none => exact ⟨acc, rfl⟩
  | some v =>
    simp only [compactCfg, Nat.div_one]
    unfold W at ht
    by_cases h1 : ((0 : Nat) : Int) + (t : Int) - (tStart : Int) < 0
    · simp only [h1, if_true]; exact ⟨acc, rfl⟩
    · have h2 : ¬ (((0 : Nat) : Int) + (t : Int) - (tStart : Int) ≥ ((65535 + 1 - tStart : Nat) : Int)) := by omega
      simp only [h1, if_false, h2]
      exact ⟨_, rfl⟩

end WrapLemmas

/-! ### C. the reused `fieldReader` -/
section ReaderLemmas
open Reader
variable {V : Type}

theorem onlyField_of_lookup (fields : List (Nat × FieldType)) (e : Entry V) (f : Nat) (ty : FieldType)
    (hl : fields.length = 1) (hf : lookup fields f = some ty) : onlyField fields e = lookup e f := by
  match fields, hl with
  | [fm], _ =>
    obtain ⟨k, t⟩ := fm
    simp only [lookup_cons] at hf
    by_cases e1 : k = f
    · subst e1; rfl
    · simp [e1] at hf

/-- the code's `GetFieldData` on a reader that is not completed: the field's data if the block has
the field, nothing otherwise — whatever the number of fields of the block -/
theorem get_code (fields : List (Nat × FieldType)) (r : FR V) (f : Nat) (hc : r.completed = false) :
    r.get false fields f = dataOf fields (some r.entry) f := by
  unfold FR.get dataOf
  simp only [hc, Bool.false_and, Bool.false_eq_true, if_false]
  cases hl : lookup fields f with
  | none => rfl
  | some ty =>
    simp only []
    by_cases h1 : fields.length = 1
    · simp only [h1, BEq.rfl, if_true]
      exact onlyField_of_lookup fields r.entry f ty h1 hl
    · have : (fields.length == 1) = false := by simp [h1]
      simp only [this, Bool.false_eq_true, if_false]

theorem dataOf_zeroLen (fields : List (Nat × FieldType)) (e : Entry V) (f : Nat)
    (hz : zeroLen fields e = true) : dataOf fields (some e) f = none := by
  unfold dataOf
  cases hl : lookup fields f with
  | none => rfl
  | some ty =>
    simp only []
    match fields, hz, hl with
    | [fm], hz, hl =>
      obtain ⟨k, t⟩ := fm
      simp only [zeroLen, Option.isNone_iff_eq_none] at hz
      simp only [lookup_cons] at hl
      by_cases e1 : k = f
      · subst e1; exact hz
      · simp [e1] at hl

/-- a reader left over from an earlier series is closed -/
def Closed (st : Option (FR V)) : Prop := ∀ r, st = some r → r.completed = true

theorem seriesStep_code (fields : List (Nat × FieldType)) (tf : List Nat) (st : Option (FR V))
    (eo : Option (Entry V)) (hc : Closed st) :
    (seriesStep false true fields tf st eo).2 = tf.map (dataOf fields eo) ∧
    Closed (seriesStep false true fields tf st eo).1 := by
  have hstale : ∀ f, ask false fields st f = (none : Option (List (Nat × V))) := by
    intro f
    cases hs : st with
    | none => rfl
    | some r => simp [ask, FR.get, hc r hs]
  have hclosed : ∀ st1 : Option (FR V), Closed (st1.map FR.close) := by
    intro st1 r hr
    cases st1 with
    | none => simp at hr
    | some r0 => simp only [Option.map_some, Option.some.injEq] at hr; rw [← hr]; rfl
  unfold seriesStep
  refine ⟨?_, hclosed _⟩
  simp only [if_true]
  apply List.map_congr_left
  intro f _
  cases eo with
  | none => simp only []; rw [hstale f]; rfl
  | some e =>
    by_cases hz : zeroLen fields e = true
    · simp only [hz, if_true]; rw [hstale f, dataOf_zeroLen fields e f hz]
    · simp only [hz, Bool.false_eq_true, if_false]
      exact get_code fields (FR.reset e) f rfl

theorem seriesLoop_code (fields : List (Nat × FieldType)) (tf : List Nat) :
    ∀ (l : List (Nat × Option (Entry V))) (st : Option (FR V)), Closed st →
      seriesLoop false true fields tf st l = l.map (fun p => (p.1, tf.map (dataOf fields p.2))) := by
  intro l
  induction l with
  | nil => intro st _; rfl
  | cons p t ih =>
    intro st hc
    obtain ⟨s, eo⟩ := p
    obtain ⟨h1, h2⟩ := seriesStep_code fields tf st eo hc
    simp only [seriesLoop, List.map_cons, h1, ih _ h2]

end ReaderLemmas

/-! ### D. damaged input blocks -/
section DamageLemmas
open Damage
variable {V : Type}

theorem dnext_none (tol : Bool) (b : Block V) (sc : Scanner V) (k : Nat) (r : List Nat) :
    Damage.next tol b Dmg.none sc k r = Scanner.next tol b sc k r := by
  simp [Damage.next, Scanner.next, Dmg.none]

theorem dnew_none (tol : Bool) (b : Block V) : Damage.new tol b Dmg.none = Scanner.new tol b := by
  unfold Damage.new Scanner.new
  simp only [Dmg.none, Bool.false_eq_true, if_false]
  cases highKeys b with
  | nil => rfl
  | cons k r =>
    simp only []
    have := dnext_none tol b { rest := k :: r, hk := 0, cont := [], ents := [] } k r
    simp only [Dmg.none] at this
    rw [this]
    cases Scanner.next tol b { rest := k :: r, hk := 0, cont := [], ents := [] } k r with
    | mk sc ok => cases ok <;> rfl

theorem dscan_none (tol : Bool) (b : Block V) (sc : Scanner V) (s : Nat) :
    Damage.scan tol b Dmg.none sc s = Scanner.scan tol b sc s := by
  unfold Damage.scan Scanner.scan
  cases hr : sc.rest with
  | nil => rfl
  | cons k r => simp only [dnext_none]

theorem dscanLoop_none (tol : Bool) (b : Block V) : ∀ (ids : List Nat) (sc : Scanner V),
    Damage.scanLoop tol b Dmg.none sc ids = Merge.scanLoop tol b sc ids := by
  intro ids
  induction ids with
  | nil => intro sc; rfl
  | cons s r ih =>
    intro sc
    simp only [Damage.scanLoop, Merge.scanLoop, dscan_none, ih]

theorem dscanAll_none (tol : Bool) (b : Block V) (ids : List Nat) :
    Damage.scanAll tol b Dmg.none ids = Merge.scanAll tol b ids := by
  unfold Damage.scanAll Merge.scanAll
  rw [dnew_none]
  cases Scanner.new tol b with
  | none => rfl
  | some sc => exact dscanLoop_none tol b ids sc

theorem dscanData_none (tol : Bool) (ids : List Nat) (b : Block V) (s f : Nat) :
    Damage.scanData tol ids (b, Dmg.none) s f = Merge.scanData tol ids b s f := by
  unfold Damage.scanData Merge.scanData
  simp only [dscanAll_none]
  generalize lookup (Merge.scanAll tol b ids) s = x
  rcases x with _ | _ | e
  · rfl
  · rfl
  · simp only []
    cases lookup b.fields f <;> rfl

theorem dmergeFails_none (tol : Bool) (bs : List (Block V)) :
    Damage.mergeFails tol (bs.map (fun b => (b, Dmg.none))) = Merge.mergeFails tol bs := by
  unfold Damage.mergeFails Merge.mergeFails
  rw [List.any_map]
  congr 1
  funext b
  simp only [Function.comp, dnew_none]

theorem dmergeFieldBy_none (agg : FieldType → V → V → V) (cfg : Cfg) (tS tE : Nat) (ty : FieldType)
    (data : Block V → Option (List (Nat × V))) (data' : Block V × Dmg → Option (List (Nat × V)))
    (hd : ∀ b, data' (b, Dmg.none) = data b) (bs : List (Block V)) :
    Damage.mergeFieldBy agg cfg tS tE ty data' (bs.map (fun b => (b, Dmg.none))) =
      Merge.mergeFieldBy agg cfg tS tE ty data bs := by
  unfold Damage.mergeFieldBy Merge.mergeFieldBy
  simp only [List.foldl_map, hd]
  congr 2

/-- **undamaged inputs**: the damage-aware merge is the merge of the other theorems -/
theorem dmergeBlocks_none (tol : Bool) (agg : FieldType → V → V → V) (bs : List (Block V)) :
    Damage.mergeBlocks tol agg (bs.map (fun b => (b, Dmg.none))) = Merge.mergeBlocks tol agg bs := by
  have hm : (bs.map (fun b => (b, Dmg.none))).map Prod.fst = bs := by
    rw [List.map_map]; exact List.map_id' bs
  unfold Damage.mergeBlocks Merge.mergeBlocks Merge.mergeBlocksWith Merge.mergeBlocksBy
  simp only [hm, compactCfg, id]
  congr 1
  apply List.map_congr_left
  intro s _
  congr 1
  apply List.map_congr_left
  intro fm _
  congr 1
  exact dmergeFieldBy_none agg _ _ _ fm.2 _ _ (fun b => dscanData_none tol (unionIds bs) b s fm.1) bs

theorem header_damage_fails (tol : Bool) (bds : List (Block V × Dmg)) (bd : Block V × Dmg)
    (hm : bd ∈ bds) (hh : bd.2.header = true) : Damage.mergeFails tol bds = true := by
  unfold Damage.mergeFails
  rw [List.any_eq_true]
  exact ⟨bd, hm, by simp [Damage.new, hh]⟩

theorem first_bucket_damage_fails (tol : Bool) (bds : List (Block V × Dmg)) (bd : Block V × Dmg)
    (hm : bd ∈ bds) (k : Nat) (r : List Nat) (hk : highKeys bd.1 = k :: r)
    (hb : k ∈ bd.2.buckets) : Damage.mergeFails tol bds = true := by
  unfold Damage.mergeFails
  rw [List.any_eq_true]
  refine ⟨bd, hm, ?_⟩
  have hc : bd.2.buckets.contains k = true := by simpa using hb
  by_cases hh : bd.2.header = true
  · simp [Damage.new, hh]
  · simp [Damage.new, hh, hk, Damage.next, hc, hb]

end DamageLemmas

end LinVerif.C03
