/-
C05 helper lemmas, part 1: how the memory primitives of Model/Queue.lean act on each
field (frame lemmas), index-slot arithmetic.
-/
import LinVerif.Model.Queue

namespace LinVerif.Queue

/-- `omega` after unfolding the queue constants -/
macro "qomega" : tactic =>
  `(tactic| ((try simp only [indexItemsPerPage, indexItemLength, dataPageSize, u32,
      queueDataPageIndexOffset, messageOffsetOffset, messageLengthOffset,
      queueAppendedSeqOffset, queueAcknowledgedSeqOffset] at *) <;> omega))

/-! ### slot arithmetic -/

theorem slot_ne {n n' : Nat} (h : n ≠ n') (a b : Nat) (ha : a < 16) (hb : b < 16) :
    ¬ (n / indexItemsPerPage = n' / indexItemsPerPage ∧
       (n % indexItemsPerPage) * indexItemLength + a = (n' % indexItemsPerPage) * indexItemLength + b) := by
  qomega


/-! ### acquire -/

@[simp] theorem acquireData_data (mem : Mem) (pg : Nat) : (acquireData mem pg).data = mem.data := by
  unfold acquireData; split <;> rfl
@[simp] theorem acquireData_index (mem : Mem) (pg : Nat) : (acquireData mem pg).index = mem.index := by
  unfold acquireData; split <;> rfl
@[simp] theorem acquireData_metaW (mem : Mem) (pg : Nat) : (acquireData mem pg).metaW = mem.metaW := by
  unfold acquireData; split <;> rfl
@[simp] theorem acquireData_hasMeta (mem : Mem) (pg : Nat) : (acquireData mem pg).hasMeta = mem.hasMeta := by
  unfold acquireData; split <;> rfl
@[simp] theorem acquireData_indexLive (mem : Mem) (pg : Nat) : (acquireData mem pg).indexLive = mem.indexLive := by
  unfold acquireData; split <;> rfl
theorem acquireData_live (mem : Mem) (pg p : Nat) :
    p ∈ (acquireData mem pg).dataLive ↔ (p = pg ∨ p ∈ mem.dataLive) := by
  unfold acquireData; split
  · constructor
    · intro h; exact Or.inr h
    · intro h; rcases h with h | h
      · subst h; assumption
      · exact h
  · simp
theorem acquireData_of_live (mem : Mem) (pg : Nat) (h : pg ∈ mem.dataLive) : acquireData mem pg = mem := by
  unfold acquireData; simp [h]

@[simp] theorem acquireIndex_data (mem : Mem) (pg : Nat) : (acquireIndex mem pg).data = mem.data := by
  unfold acquireIndex; split <;> rfl
@[simp] theorem acquireIndex_index (mem : Mem) (pg : Nat) : (acquireIndex mem pg).index = mem.index := by
  unfold acquireIndex; split <;> rfl
@[simp] theorem acquireIndex_metaW (mem : Mem) (pg : Nat) : (acquireIndex mem pg).metaW = mem.metaW := by
  unfold acquireIndex; split <;> rfl
@[simp] theorem acquireIndex_hasMeta (mem : Mem) (pg : Nat) : (acquireIndex mem pg).hasMeta = mem.hasMeta := by
  unfold acquireIndex; split <;> rfl
@[simp] theorem acquireIndex_dataLive (mem : Mem) (pg : Nat) : (acquireIndex mem pg).dataLive = mem.dataLive := by
  unfold acquireIndex; split <;> rfl
theorem acquireIndex_live (mem : Mem) (pg p : Nat) :
    p ∈ (acquireIndex mem pg).indexLive ↔ (p = pg ∨ p ∈ mem.indexLive) := by
  unfold acquireIndex; split
  · constructor
    · intro h; exact Or.inr h
    · intro h; rcases h with h | h
      · subst h; assumption
      · exact h
  · simp
theorem acquireIndex_of_live (mem : Mem) (pg : Nat) (h : pg ∈ mem.indexLive) : acquireIndex mem pg = mem := by
  unfold acquireIndex; simp [h]

/-! ### entry depends on the index only -/

theorem entry_congr {mem mem' : Mem} (h : mem'.index = mem.index) (n : Nat) : entry mem' n = entry mem n := by
  unfold entry; rw [h]

@[simp] theorem entry_acquireData (mem : Mem) (pg n : Nat) : entry (acquireData mem pg) n = entry mem n :=
  entry_congr (by simp) n
@[simp] theorem entry_acquireIndex (mem : Mem) (pg n : Nat) : entry (acquireIndex mem pg) n = entry mem n :=
  entry_congr (by simp) n
@[simp] theorem entry_setMeta (mem : Mem) (o : Nat) (v : Int) (n : Nat) : entry (setMeta mem o v) n = entry mem n :=
  entry_congr rfl n
@[simp] theorem entry_writeData (mem : Mem) (pg off : Nat) (m : Msg) (k n : Nat) :
    entry (writeData mem pg off m k) n = entry mem n := entry_congr rfl n

/-- a store into the item of sequence `n'` leaves the item of every other sequence alone -/
theorem entry_setIndex_ne {n n' : Nat} (h : n ≠ n') (mem : Mem) (b v : Nat) (hb : b < 16) :
    entry (setIndex mem (n' / indexItemsPerPage) ((n' % indexItemsPerPage) * indexItemLength + b) v) n
      = entry mem n := by
  have h0 := slot_ne h 0 b (by omega) hb
  have h8 := slot_ne h 8 b (by omega) hb
  have h12 := slot_ne h 12 b (by omega) hb
  simp only [entry, setIndex, queueDataPageIndexOffset, messageOffsetOffset, messageLengthOffset]
  simp only [Nat.add_zero] at h0 ⊢
  rw [if_neg h0, if_neg h8, if_neg h12]

/-! ### persistStores -/

@[simp] theorem persistStores_data (mem : Mem) (q : Q) (pg off len j : Nat) :
    (persistStores mem q pg off len j).data = mem.data := by
  unfold persistStores; simp only []
  repeat' split
  all_goals simp [setMeta, setIndex]

@[simp] theorem persistStores_dataLive (mem : Mem) (q : Q) (pg off len j : Nat) :
    (persistStores mem q pg off len j).dataLive = mem.dataLive := by
  unfold persistStores; simp only []
  repeat' split
  all_goals simp [setMeta, setIndex]

@[simp] theorem persistStores_hasMeta (mem : Mem) (q : Q) (pg off len j : Nat) :
    (persistStores mem q pg off len j).hasMeta = mem.hasMeta := by
  unfold persistStores; simp only []
  repeat' split
  all_goals simp [setMeta, setIndex]

theorem persistStores_indexLive (mem : Mem) (q : Q) (pg off len j p : Nat) :
    p ∈ (persistStores mem q pg off len j).indexLive ↔
      (p ∈ mem.indexLive ∨ (p = nextSeq q / indexItemsPerPage ∧ nextSeq q / indexItemsPerPage ≠ q.indexPageIndex)) := by
  unfold persistStores; simp only []
  repeat' split
  all_goals simp_all [setMeta, setIndex, acquireIndex_live]
  all_goals (first | done | exact Or.comm)


theorem persistStores_metaW (mem : Mem) (q : Q) (pg off len j o : Nat) :
    (persistStores mem q pg off len j).metaW o =
      if 4 ≤ j ∧ o = queueAppendedSeqOffset then q.appended + 1 else mem.metaW o := by
  unfold persistStores; simp only []
  repeat' split
  all_goals simp_all [setMeta, setIndex]

theorem entry_persistStores_ne {n : Nat} (mem : Mem) (q : Q) (pg off len j : Nat) (h : n ≠ nextSeq q) :
    entry (persistStores mem q pg off len j) n = entry mem n := by
  have e0 := fun mem v => entry_setIndex_ne h mem queueDataPageIndexOffset v (by decide)
  have e8 := fun mem v => entry_setIndex_ne h mem messageOffsetOffset v (by decide)
  have e12 := fun mem v => entry_setIndex_ne h mem messageLengthOffset v (by decide)
  unfold persistStores; simp only []
  repeat' split
  all_goals simp only [entry_setMeta, e0, e8, e12, entry_acquireIndex]

theorem entry_persistStores_self (mem : Mem) (q : Q) (pg off len j : Nat) (hj : 3 ≤ j) :
    entry (persistStores mem q pg off len j) (nextSeq q) = ⟨pg, off % u32, len % u32⟩ := by
  unfold persistStores; simp only []
  repeat' split
  all_goals first
    | omega
    | simp [entry, setIndex, setMeta, queueDataPageIndexOffset, messageOffsetOffset, messageLengthOffset]

/-! ### writeData -/

theorem writeData_data_in (mem : Mem) (pg off : Nat) (m : Msg) (i : Nat) (h : i < m.len) :
    (writeData mem pg off m m.len).data pg (off + i) = m.byte i := by
  simp only [writeData, Nat.min_self]
  have hc : (True ∧ off ≤ off + i ∧ off + i < off + m.len) := ⟨trivial, by omega, by omega⟩
  rw [if_pos hc]
  congr 1; omega

theorem writeData_data_out (mem : Mem) (pg off : Nat) (m : Msg) (k p o : Nat)
    (h : p ≠ pg ∨ o < off ∨ off + m.len ≤ o) : (writeData mem pg off m k).data p o = mem.data p o := by
  simp only [writeData]
  rw [if_neg]
  intro ⟨h1, h2, h3⟩
  have : min k m.len ≤ m.len := Nat.min_le_right _ _
  omega

end LinVerif.Queue
