/-
C13 (round 12) — lemmas for the stateful broker family iterator (`Model/C13Broker.lean`):
the index-based `HasNextFamily`/`NextFamily` loop on ANY left-over iterator state computes the
stateless `groupFamilies` after `reset`.
-/
import LinVerif.Model.C13Broker
import LinVerif.Lemmas.C13Lookup

namespace LinVerif.Lemmas.C13
open LinVerif.Calendar LinVerif.Interval

theorem take_length_takeWhile (p : Int → Bool) : ∀ l : List Int,
    l.take (l.takeWhile p).length = l.takeWhile p
  | [] => by simp
  | a :: l => by
    by_cases h : p a = true
    · simp [List.takeWhile_cons, h, take_length_takeWhile p l]
    · simp [List.takeWhile_cons, h]

theorem drop_length_takeWhile (p : Int → Bool) : ∀ l : List Int,
    l.drop (l.takeWhile p).length = l.dropWhile p
  | [] => by simp
  | a :: l => by
    by_cases h : p a = true
    · simp [List.takeWhile_cons, List.dropWhile_cons, h, drop_length_takeWhile p l]
    · simp [List.takeWhile_cons, List.dropWhile_cons, h]

/-- one more unit of fuel than rows changes nothing: every group of non-negative rows is non-empty -/
theorem groupSorted_fuel_succ (c : Calc) : ∀ (f : Nat) (l : List Int), (∀ t ∈ l, 0 ≤ t) →
    l.length ≤ f → groupSorted c (f + 1) l = groupSorted c f l := by
  intro f
  induction f with
  | zero =>
    intro l _ hlen
    have : l = [] := List.eq_nil_of_length_eq_zero (by omega)
    subst this; simp [groupSorted]
  | succ n ih =>
    intro l hl hlen
    cases l with
    | nil => simp [groupSorted]
    | cons t rest =>
      have hself := range_contains_self c (hl t (by simp))
      have hd : List.dropWhile (timeRangeOfTimestamp c t).contains (t :: rest)
          = List.dropWhile (timeRangeOfTimestamp c t).contains rest := by
        simp [List.dropWhile_cons, hself]
      have hsub : ∀ y ∈ List.dropWhile (timeRangeOfTimestamp c t).contains rest, 0 ≤ y :=
        fun y hy => hl y (List.mem_cons_of_mem _ ((List.dropWhile_sublist _).subset hy))
      have hlen' : (List.dropWhile (timeRangeOfTimestamp c t).contains rest).length ≤ n := by
        have := (List.dropWhile_sublist (timeRangeOfTimestamp c t).contains (l := rest)).length_le
        simp only [List.length_cons] at hlen
        omega
      rw [groupSorted, groupSorted, hd, ih _ hsub hlen']

theorem groupSorted_fuel_ge (c : Calc) (l : List Int) (hl : ∀ t ∈ l, 0 ≤ t) :
    ∀ (k f : Nat), l.length ≤ f → groupSorted c (f + k) l = groupSorted c f l := by
  intro k
  induction k with
  | zero => intro f _; rfl
  | succ k ih =>
    intro f hf
    rw [← Nat.add_assoc, groupSorted_fuel_succ c (f + k) l hl (by omega), ih f hf]

/-- `HasNextFamily` never touches the rows or the calculator -/
theorem hasNextFamily_rows (s : FamIter) :
    s.hasNextFamily.2.rows = s.rows ∧ s.hasNextFamily.2.intervalCalc = s.intervalCalc ∧
    s.hasNextFamily.2.sameFamily = s.sameFamily := by
  unfold FamIter.hasNextFamily
  split
  · simp
  · split
    · simp
    · split <;> simp

theorem drain_rows : ∀ (fuel : Nat) (s : FamIter), (FamIter.drain fuel s).2.rows = s.rows
  | 0, s => rfl
  | fuel + 1, s => by
    have h := (hasNextFamily_rows s).1
    unfold FamIter.drain
    cases hb : s.hasNextFamily with
    | mk b s' =>
      rw [hb] at h
      cases b with
      | false => simpa using h
      | true =>
        simp only [if_true]
        have := drain_rows fuel s'
        simp only [] at h
        rw [← h]
        exact this

/-- slow path: from a state with `sameFamily = false`, `groupStart ≤ groupEnd` the loop hands out
`groupSorted` of the rows from `groupEnd` on -/
theorem drain_groupSorted : ∀ (fuel : Nat) (s : FamIter), s.sameFamily = false →
    s.groupStart ≤ s.groupEnd →
    (FamIter.drain fuel s).1 = groupSorted s.intervalCalc fuel (s.rows.drop s.groupEnd) := by
  intro fuel
  induction fuel with
  | zero => intro s _ _; simp [FamIter.drain, groupSorted]
  | succ n ih =>
    intro s hsf hle
    obtain ⟨ge, gs, gft, sf, rows, c⟩ := s
    simp only at hsf hle
    subst hsf
    unfold FamIter.drain FamIter.hasNextFamily
    by_cases hend : ge ≥ rows.length
    · have : rows.drop ge = [] := List.drop_eq_nil_of_le hend
      simp [hend, this, groupSorted]
    · have hcond : ¬ (ge ≥ rows.length ∨ gs > ge) := by omega
      simp only [hcond, if_false, Bool.false_eq_true]
      cases hd : rows.drop ge with
      | nil => simp [groupSorted]
      | cons t rest =>
        simp only []
        by_cases hn : ((t :: rest).takeWhile (timeRangeOfTimestamp c t).contains).length = 0
        · have hnil : (t :: rest).takeWhile (timeRangeOfTimestamp c t).contains = [] :=
            List.eq_nil_of_length_eq_zero hn
          simp [hn, groupSorted, hnil]
        · have hlt : ge < ge +
              ((t :: rest).takeWhile (timeRangeOfTimestamp c t).contains).length := by omega
          have hne : ((t :: rest).takeWhile (timeRangeOfTimestamp c t).contains).isEmpty = false := by
            cases h : (t :: rest).takeWhile (timeRangeOfTimestamp c t).contains with
            | nil => simp [h] at hn
            | cons _ _ => rfl
          simp only [hlt, decide_true, if_true]
          rw [groupSorted]
          simp only [hne, Bool.false_eq_true, if_false]
          rw [ih _ rfl (by simp)]
          congr 1
          · simp only [FamIter.nextFamily, hd, Nat.add_sub_cancel_left]
            rw [take_length_takeWhile]
          · congr 1
            rw [← List.drop_drop, hd, drop_length_takeWhile]

/-- `reset` when every row lies in the family range of the first row (fast path) -/
theorem reset_same (s : FamIter) (c : Calc) (t : Int) (rest : List Int)
    (h : rest.all (timeRangeOfTimestamp c t).contains = true) :
    s.reset (t :: rest) c = ⟨0, 0, calcFamilyTime c t, true, t :: rest, c⟩ := by
  simp [FamIter.reset, FamIter.isSameFamily, h]

/-- `reset` otherwise (rows sorted in place) -/
theorem reset_sorted (s : FamIter) (c : Calc) (t : Int) (rest : List Int)
    (h : rest.all (timeRangeOfTimestamp c t).contains = false) :
    s.reset (t :: rest) c = ⟨0, 0, calcFamilyTime c t, false, sortAsc (t :: rest), c⟩ := by
  simp [FamIter.reset, FamIter.isSameFamily, h]

theorem reset_nil (s : FamIter) (c : Calc) :
    s.reset [] c = ⟨0, 0, 0, true, [], c⟩ := by
  simp [FamIter.reset, FamIter.isSameFamily]

/-- whatever the iterator held before, `reset` + the caller's loop = the stateless grouping; more
fuel than `len(rows) + 1` calls of `HasNextFamily` adds nothing (the loop has ended by itself) -/
theorem drain_reset (s : FamIter) (c : Calc) (rows : List Int) (hts : ∀ t ∈ rows, 0 ≤ t)
    (fuel : Nat) (hf : rows.length + 1 ≤ fuel) :
    (FamIter.drain fuel (s.reset rows c)).1 = groupFamilies c rows := by
  cases rows with
  | nil =>
    rw [reset_nil]
    obtain ⟨f, rfl⟩ : ∃ f, fuel = f + 1 := ⟨fuel - 1, by simp at hf; omega⟩
    simp [FamIter.drain, FamIter.hasNextFamily, groupFamilies]
  | cons t rest =>
    cases hall : rest.all (timeRangeOfTimestamp c t).contains with
    | true =>
      rw [reset_same s c t rest hall]
      obtain ⟨f, rfl⟩ : ∃ f, fuel = f + 2 := ⟨fuel - 2, by simp at hf; omega⟩
      simp [FamIter.drain, FamIter.hasNextFamily, FamIter.nextFamily, groupFamilies, hall]
    | false =>
      rw [reset_sorted s c t rest hall]
      rw [drain_groupSorted _ _ rfl (Nat.le_refl _)]
      simp only [List.drop_zero, groupFamilies, hall, Bool.false_eq_true, if_false]
      have hp := sortAsc_perm (t :: rest)
      have hs : ∀ y ∈ sortAsc (t :: rest), 0 ≤ y := fun y hy => hts y (hp.subset hy)
      obtain ⟨k, rfl⟩ : ∃ k, fuel = (t :: rest).length + k := ⟨fuel - (t :: rest).length, by omega⟩
      exact groupSorted_fuel_ge c _ hs k _ (Nat.le_of_eq hp.length_eq)

/-- the rows `reset` leaves are a permutation of the rows it was given -/
theorem reset_rows_perm (s : FamIter) (c : Calc) (rows : List Int) : (s.reset rows c).rows.Perm rows := by
  cases rows with
  | nil => rw [reset_nil]
  | cons t rest =>
    cases hall : rest.all (timeRangeOfTimestamp c t).contains with
    | true => rw [reset_same s c t rest hall]
    | false => rw [reset_sorted s c t rest hall]; exact sortAsc_perm _

end LinVerif.Lemmas.C13
