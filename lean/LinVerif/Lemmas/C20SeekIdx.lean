/-
C20 helper lemmas: the tree-level `Seek` (`seekNode` / `seekEntries` / `entriesGreater`) restated
through item indices of a node's row, the form in which the stack machine over the vectors finds
them (`labelVector.Search`, `SearchGreaterThan`, `lastLabelPos`).
-/
import LinVerif.Lemmas.C20IterMachine
import LinVerif.Lemmas.C20Seek

set_option linter.unusedSimpArgs false
set_option linter.unusedVariables false

namespace LinVerif.Lemmas.C20
open LinVerif.TrieTree LinVerif.Louds

/-- the row without its first `k` entries -/
def dropE : Nat → Entries → Entries
  | 0, es => es
  | _ + 1, .nil => .nil
  | k + 1, .leaf _ _ _ r => dropE k r
  | k + 1, .child _ _ r => dropE k r

theorem items_dropE : ∀ (k : Nat) (es : Entries), items (dropE k es) = (items es).drop k
  | 0, es => by simp [dropE]
  | k + 1, .nil => by simp [dropE, items]
  | k + 1, .leaf _ _ _ r => by simp [dropE, items, items_dropE k r]
  | k + 1, .child _ _ r => by simp [dropE, items, items_dropE k r]

theorem dropE_dropE : ∀ (a b : Nat) (es : Entries), dropE a (dropE b es) = dropE (b + a) es
  | a, 0, es => by simp [dropE]
  | a, b + 1, .nil => by cases a <;> simp [dropE]
  | a, b + 1, .leaf _ _ _ r => by
    have : b + 1 + a = (b + a) + 1 := by omega
    rw [this]; simp only [dropE]; exact dropE_dropE a b r
  | a, b + 1, .child _ _ r => by
    have : b + 1 + a = (b + a) + 1 := by omega
    rw [this]; simp only [dropE]; exact dropE_dropE a b r

theorem dropE_length_nil (es : Entries) : dropE es.length es = .nil := by
  induction hn : es.length generalizing es with
  | zero => cases es <;> simp [Entries.length] at hn ⊢ <;> rfl
  | succ k ih =>
    cases es with
    | nil => simp [Entries.length] at hn
    | leaf _ _ _ r => simp only [Entries.length] at hn; simp only [dropE]; exact ih r (by omega)
    | child _ _ r => simp only [Entries.length] at hn; simp only [dropE]; exact ih r (by omega)

/-- index of the first item satisfying `p` (the length if there is none) -/
def firstIdx (p : Item → Bool) : List Item → Nat
  | [] => 0
  | x :: r => if p x then 0 else firstIdx p r + 1

theorem firstIdx_le (p : Item → Bool) (R : List Item) : firstIdx p R ≤ R.length := by
  induction R with
  | nil => simp [firstIdx]
  | cons x r ih => simp only [firstIdx]; split <;> simp <;> omega

theorem firstIdx_spec (p : Item → Bool) : ∀ (R : List Item), firstIdx p R < R.length →
    ∃ it, R[firstIdx p R]? = some it ∧ p it = true
  | [], h => by simp [firstIdx] at h
  | x :: r, h => by
    simp only [firstIdx] at h ⊢
    by_cases hp : p x = true
    · simp [hp]
    · simp only [hp, Bool.false_eq_true, if_false] at h ⊢
      obtain ⟨it, h1, h2⟩ := firstIdx_spec p r (by simpa using h)
      exact ⟨it, by simpa using h1, h2⟩

theorem firstIdx_before (p : Item → Bool) : ∀ (R : List Item) (j : Nat), j < firstIdx p R →
    ∀ it, R[j]? = some it → p it = false
  | [], j, h, _, _ => by simp [firstIdx] at h
  | x :: r, j, h, it, hj => by
    simp only [firstIdx] at h
    by_cases hp : p x = true
    · simp [hp] at h
    · simp only [hp, Bool.false_eq_true, if_false] at h
      cases j with
      | zero => simp at hj; subst hj; simpa using hp
      | succ k => exact firstIdx_before p r k (by omega) it (by simpa using hj)

/-- the pairs from item `i` of the row on: the item's own contribution, then the rest -/
theorem iterEntries_dropE_cons : ∀ (es : Entries) (i : Nat) (it : Item) (base : Key),
    (items es)[i]? = some it →
    iterEntries base (dropE i es) =
      (match it with
       | .leaf l s v =>
         [if l == labelTerminator && !(dropE (i + 1) es).isNil then (base ++ s, v) else (base ++ l :: s, v)]
       | .child l c => iterNode (base ++ [l]) c) ++ iterEntries base (dropE (i + 1) es)
  | .nil, i, it, base, h => by simp [items] at h
  | .leaf l s v r, 0, it, base, h => by
    simp [items] at h; subst h
    simp [dropE, iterEntries]
  | .child l c r, 0, it, base, h => by
    simp [items] at h; subst h
    simp [dropE, iterEntries]
  | .leaf l s v r, i + 1, it, base, h => by
    simp only [items, List.getElem?_cons_succ] at h
    simp only [dropE]
    exact iterEntries_dropE_cons r i it base h
  | .child l c r, i + 1, it, base, h => by
    simp only [items, List.getElem?_cons_succ] at h
    simp only [dropE]
    exact iterEntries_dropE_cons r i it base h

/-- `labelVec.Search` hit on the tree, by index -/
theorem seekEntries_idx (base : Key) (c : Nat) (rest : Key) : ∀ (es : Entries),
    seekEntries base es c rest =
      (match (items es)[firstIdx (fun it => it.label == c) (items es)]? with
       | none => none
       | some (.leaf _ suf _) =>
         some (suf == rest, iterEntries base (dropE (firstIdx (fun it => it.label == c) (items es)) es))
       | some (.child l n) =>
         some ((seekNode (base ++ [l]) n rest).1,
           (seekNode (base ++ [l]) n rest).2 ++
             iterEntries base (dropE (firstIdx (fun it => it.label == c) (items es) + 1) es)))
  | .nil => by simp [seekEntries, items, firstIdx]
  | .leaf l s v r => by
    rw [seekEntries]
    by_cases h : (l == c) = true
    · simp [h, items, firstIdx, Item.label, dropE]
    · have ih := seekEntries_idx base c rest r
      simp only [h, Bool.false_eq_true, if_false, items, firstIdx, Item.label, List.getElem?_cons_succ, dropE]
      exact ih
  | .child l n r => by
    rw [seekEntries]
    by_cases h : (l == c) = true
    · simp [h, items, firstIdx, Item.label, dropE]
    · have ih := seekEntries_idx base c rest r
      simp only [h, Bool.false_eq_true, if_false, items, firstIdx, Item.label, List.getElem?_cons_succ, dropE]
      exact ih

/-- `SearchGreaterThan` + leftmost descent on the tree, by index -/
theorem entriesGreater_idx (base : Key) (c : Nat) : ∀ (es : Entries),
    entriesGreater base c es = iterEntries base (dropE (firstIdx (fun it => decide (c < it.label)) (items es)) es)
  | .nil => by simp [entriesGreater, items, firstIdx, dropE, iterEntries]
  | .leaf l s v r => by
    rw [entriesGreater]
    by_cases h : c < l
    · simp [h, items, firstIdx, Item.label, dropE]
    · simp only [h, if_false, items, firstIdx, Item.label, decide_false, Bool.false_eq_true, dropE]
      exact entriesGreater_idx base c r
  | .child l n r => by
    rw [entriesGreater]
    by_cases h : c < l
    · simp [h, items, firstIdx, Item.label, dropE]
    · simp only [h, if_false, items, firstIdx, Item.label, decide_false, Bool.false_eq_true, dropE]
      exact entriesGreater_idx base c r

/-- how many leading entries `labelVector.Search` / `SearchGreaterThan` skip: the terminator -/
def skipN : Entries → Nat
  | .leaf l _ _ r => if l == labelTerminator && !r.isNil then 1 else 0
  | .child l _ r => if l == labelTerminator && !r.isNil then 1 else 0
  | .nil => 0

/-- the label-search part of `seekNode`, uniformly -/
theorem seekNode_row (path : Key) (pfx : List Nat) (es : Entries) (key : Key) (c : Nat) (rest : Key)
    (hcmp : keyCmp pfx (key.take pfx.length) = .eq) (hkey : key.drop pfx.length = c :: rest)
    (hne : es.isNil = false) :
    seekNode path (.mk pfx es) key =
      (match seekEntries (path ++ pfx) (dropE (skipN es) es) c rest with
       | some x => x
       | none => (false, greaterOrLast (path ++ pfx) c es (dropE (skipN es) es))) := by
  rw [seekNode]
  simp only [hcmp, hkey]
  cases es with
  | nil => simp [Entries.isNil] at hne
  | leaf l s v r =>
    simp only [skipN]
    by_cases h : (l == labelTerminator && !r.isNil) = true
    · simp only [h, if_true, dropE]; rfl
    · simp only [h, Bool.false_eq_true, if_false, dropE]; rfl
  | child l n r =>
    simp only [skipN]
    by_cases h : (l == labelTerminator && !r.isNil) = true
    · simp only [h, if_true, dropE]; rfl
    · simp only [h, Bool.false_eq_true, if_false, dropE]; rfl

end LinVerif.Lemmas.C20
