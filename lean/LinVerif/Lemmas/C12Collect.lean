/-
C12 — lemmas about the leaf's grouping-collect protocol (Model/LeafCollect.lean):
the countdown/close invariant of reduceTagValues and the inductive invariant of a leaf execution.
-/
import LinVerif.Model.LeafCollect

namespace LinVerif.LeafCollect

/-- what a complete pass of collectGroupByTagValues leaves in tagValuesMap -/
def mapsFrom (known : Nat → Nat → Bool) : Nat → List (List Nat) → List (Option (List Nat))
  | _, [] => []
  | idx, l :: rest =>
    (if l.isEmpty then none else some (l.filter (known idx))) :: mapsFrom known (idx + 1) rest

/-- countdown vs. channel: not yet closed and the countdown is in (0, k], or closed exactly once
and the countdown is used up -/
def InvC (k : Nat) (r : Int) (c : Nat) : Prop := (0 < r ∧ r ≤ k ∧ c = 0) ∨ (r ≤ 0 ∧ c = 1)

theorem invC_step {k : Nat} {r : Int} {c : Nat} (h : InvC k r c) :
    InvC k (r - 1) (if (r - 1 == 0) = true then c + 1 else c) := by
  unfold InvC at *
  by_cases h0 : r - 1 = 0
  · have hb : (r - 1 == 0) = true := by simp [h0]
    rw [if_pos hb]
    rcases h with ⟨h1, h2, h3⟩ | ⟨h1, h2⟩
    · right; omega
    · omega
  · have hb : ¬ ((r - 1 == 0) = true) := by simp [h0]
    rw [if_neg hb]
    rcases h with ⟨h1, h2, h3⟩ | ⟨h1, h2⟩
    · left; omega
    · right; omega

theorem reduceAll_nil (known : Nat → Nat → Bool) (failAt : Option Nat) (idx : Nat)
    (old : List (Option (List Nat))) (r : Int) (c : Nat) :
    reduceAll known failAt idx [] old r c = ([], r, c, false) := by
  simp only [reduceAll]

theorem reduceAll_cons (known : Nat → Nat → Bool) (failAt : Option Nat) (idx : Nat) (l : List Nat)
    (rest : List (List Nat)) (old : List (Option (List Nat))) (r : Int) (c : Nat) :
    reduceAll known failAt idx (l :: rest) old r c =
      if (!l.isEmpty && failAt == some idx) = true then (old, r, c, true)
      else
        ((if l.isEmpty then none else some (l.filter (known idx))) ::
          (reduceAll known failAt (idx + 1) rest old.tail (r - 1) (if (r - 1 == 0) = true then c + 1 else c)).1,
         (reduceAll known failAt (idx + 1) rest old.tail (r - 1) (if (r - 1 == 0) = true then c + 1 else c)).2.1,
         (reduceAll known failAt (idx + 1) rest old.tail (r - 1) (if (r - 1 == 0) = true then c + 1 else c)).2.2.1,
         (reduceAll known failAt (idx + 1) rest old.tail (r - 1) (if (r - 1 == 0) = true then c + 1 else c)).2.2.2) := by
  simp only [reduceAll]

/-- every pass over the keys (complete or cut short by a failing lookup) keeps the countdown/close
invariant: the channel is closed at most once, exactly when the countdown reaches zero -/
theorem reduceAll_invC {known : Nat → Nat → Bool} {failAt : Option Nat} {k : Nat} :
    ∀ (ids : List (List Nat)) (idx : Nat) (old : List (Option (List Nat))) (r : Int) (c : Nat),
      InvC k r c →
      InvC k (reduceAll known failAt idx ids old r c).2.1 (reduceAll known failAt idx ids old r c).2.2.1 := by
  intro ids
  induction ids with
  | nil => intro idx old r c h; rw [reduceAll_nil]; exact h
  | cons l rest ih =>
    intro idx old r c h
    rw [reduceAll_cons]
    by_cases hf : (!l.isEmpty && failAt == some idx) = true
    · rw [if_pos hf]; exact h
    · rw [if_neg hf]; exact ih _ _ _ _ (invC_step h)

/-- a pass that did not fail rewrote every entry and counted down once per key -/
theorem reduceAll_ok {known : Nat → Nat → Bool} {failAt : Option Nat} :
    ∀ (ids : List (List Nat)) (idx : Nat) (old : List (Option (List Nat))) (r : Int) (c : Nat),
      (reduceAll known failAt idx ids old r c).2.2.2 = false →
      (reduceAll known failAt idx ids old r c).1 = mapsFrom known idx ids ∧
      (reduceAll known failAt idx ids old r c).2.1 = r - (ids.length : Int) := by
  intro ids
  induction ids with
  | nil => intro idx old r c _; rw [reduceAll_nil]; simp [mapsFrom]
  | cons l rest ih =>
    intro idx old r c hf
    rw [reduceAll_cons] at hf ⊢
    by_cases hb : (!l.isEmpty && failAt == some idx) = true
    · rw [if_pos hb] at hf; simp at hf
    · rw [if_neg hb] at hf ⊢
      have h := ih _ _ _ _ hf
      refine ⟨?_, ?_⟩
      · show _ :: _ = _
        rw [h.1]; rfl
      · show (reduceAll known failAt (idx + 1) rest old.tail (r - 1) _).2.1 = _
        rw [h.2]; simp only [List.length_cons]; omega

theorem addIds_length : ∀ (ids : List (List Nat)) (vs : List Nat),
    vs.length = ids.length → (addIds ids vs).length = ids.length := by
  intro ids
  induction ids with
  | nil => intro vs h; cases vs with
    | nil => rfl
    | cons v vs => simp at h
  | cons l ls ih =>
    intro vs h
    cases vs with
    | nil => simp at h
    | cons v vs =>
      simp only [addIds, List.length_cons]
      rw [ih vs (by simpa using h)]

theorem any_replicate_nil (k : Nat) :
    (List.replicate k ([] : List Nat)).any (fun l => !l.isEmpty) = false := by
  induction k with
  | zero => rfl
  | succ n ih => simp [List.replicate_succ, ih]

theorem mapsFrom_replicate (known : Nat → Nat → Bool) (k : Nat) : ∀ idx,
    mapsFrom known idx (List.replicate k []) = List.replicate k none := by
  induction k with
  | zero => intro idx; rfl
  | succ n ih => intro idx; simp [List.replicate_succ, mapsFrom, ih]

/-- the inductive invariant of a leaf execution that follows the pipeline's discipline -/
structure Inv (known : Nat → Nat → Bool) (g : G) : Prop where
  pend : 0 ≤ g.pending
  len : g.ids.length = g.nkeys
  cnt : (g.nkeys = 0 ∧ g.closes = 0 ∧ g.maps = []) ∨ (0 < g.nkeys ∧ InvC g.nkeys g.remaining g.closes)
  wait : g.anyIds = true → 0 < g.pending ∨ g.closes = 1 ∨ g.answer.isSome = true
  maps : g.pending = 0 → g.answer.isSome = true ∨ g.maps = mapsFrom known 0 g.ids
  ans : g.answer ≠ some .deadline

theorem inv_new (known : Nat → Nat → Bool) (k : Nat) : Inv known (G.new k) := by
  refine ⟨?_, ?_, ?_, ?_, ?_, ?_⟩ <;> dsimp only [G.new, G.anyIds]
  · omega
  · simp
  · by_cases hk : k = 0
    · left; subst hk; simp
    · right; refine ⟨by omega, Or.inl ⟨?_, ?_, rfl⟩⟩ <;> omega
  · intro h; rw [any_replicate_nil] at h; simp at h
  · intro _; right; rw [mapsFrom_replicate]
  · simp

theorem inv_step {known : Nat → Nat → Bool} {g : G} {e : Ev} (h : Inv known g)
    (ha : e.allowed g = true) : Inv known (g.step known .hasIDs e) := by
  obtain ⟨k, p, ids, r, c, ms, memo, a⟩ := g
  obtain ⟨h1, h2, h3, h4, h5, h6⟩ := h
  dsimp only [G.anyIds] at h1 h2 h3 h4 h5 h6
  cases e with
  | fork =>
    refine ⟨?_, ?_, ?_, ?_, ?_, ?_⟩ <;> dsimp only [G.step, G.fork, G.anyIds]
    · omega
    · exact h2
    · exact h3
    · intro _; left; omega
    · intro hp; omega
    · exact h6
  | ids vs =>
    have ha' : 0 < p ∧ vs.length = k := by simpa [Ev.allowed] using ha
    refine ⟨?_, ?_, ?_, ?_, ?_, ?_⟩ <;> dsimp only [G.step, G.addIDs, G.anyIds]
    · exact h1
    · rw [addIds_length ids vs (by omega)]; exact h2
    · exact h3
    · intro _; left; exact ha'.1
    · intro hp; omega
    · exact h6
  | complete f =>
    have ha' : 0 < p := by simpa [Ev.allowed] using ha
    dsimp only [G.step, G.complete, G.collect, G.collectBody]
    by_cases hc : ((p - 1 != 0) || (k == 0)) = true
    · rw [if_pos hc]
      have hc' : p - 1 ≠ 0 ∨ k = 0 := by simpa using hc
      refine ⟨?_, ?_, ?_, ?_, ?_, ?_⟩ <;> dsimp only [G.anyIds]
      · omega
      · exact h2
      · exact h3
      · intro hany
        rcases hc' with hne | hk0
        · left; omega
        · subst hk0
          have hnil : ids = [] := List.eq_nil_of_length_eq_zero h2
          subst hnil; simp at hany
      · intro hp
        rcases hc' with hne | hk0
        · omega
        · right
          subst hk0
          have hnil : ids = [] := List.eq_nil_of_length_eq_zero h2
          subst hnil
          rcases h3 with ⟨_, _, hm⟩ | ⟨hk, _⟩
          · rw [hm]; rfl
          · omega
      · exact h6
    · rw [if_neg hc]
      have hc' : p - 1 = 0 ∧ k ≠ 0 := by simpa using hc
      rcases h3 with ⟨hk, _, _⟩ | ⟨hk, hI⟩
      · exact absurd hk hc'.2
      have hInv := reduceAll_invC (known := known) (failAt := f) ids 0 ms r c hI
      refine ⟨?_, ?_, ?_, ?_, ?_, ?_⟩ <;> dsimp only [G.anyIds]
      · omega
      · exact h2
      · right; exact ⟨hk, hInv⟩
      · intro _
        by_cases hf : (reduceAll known f 0 ids ms r c).2.2.2 = true
        · right; right; rw [hf]; cases a <;> simp
        · have hf' : (reduceAll known f 0 ids ms r c).2.2.2 = false := by simpa using hf
          right; left
          have hr := (reduceAll_ok (known := known) (failAt := f) ids 0 ms r c hf').2
          rcases hInv with ⟨hpos, _, _⟩ | ⟨_, hc1⟩
          · exfalso
            rw [hr, h2] at hpos
            rcases hI with ⟨_, hle, _⟩ | ⟨hle, _⟩ <;> omega
          · exact hc1
      · intro _
        by_cases hf : (reduceAll known f 0 ids ms r c).2.2.2 = true
        · left; rw [hf]; cases a <;> simp
        · have hf' : (reduceAll known f 0 ids ms r c).2.2.2 = false := by simpa using hf
          right; exact (reduceAll_ok (known := known) (failAt := f) ids 0 ms r c hf').1
      · cases a with
        | none =>
          cases (reduceAll known f 0 ids ms r c).2.2.2 <;> simp
        | some x => simpa using h6
  | send =>
    have hp : p = 0 := by simpa [Ev.allowed] using ha
    dsimp only [G.step, G.send]
    cases a with
    | some x =>
      simp only [Option.isSome_some, if_true]
      exact ⟨h1, h2, h3, h4, h5, h6⟩
    | none =>
      have hb : G.blocks .hasIDs ⟨k, p, ids, r, c, ms, memo, none⟩ = false := by
        dsimp only [G.blocks, G.waits, G.anyIds]
        cases hany : ids.any (fun l => !l.isEmpty) with
        | false => simp
        | true =>
          rcases h4 hany with h | h | h
          · omega
          · simp [h]
          · simp at h
      simp only [Option.isSome_none, Bool.false_eq_true, if_false]
      refine ⟨h1, h2, h3, ?_, ?_, ?_⟩ <;> dsimp only [G.anyIds]
      · intro _; right; right; rfl
      · intro _; left; rfl
      · rw [hb]; simp

theorem inv_run {known : Nat → Nat → Bool} : ∀ (evs : List Ev) (g : G), Inv known g →
    Valid known .hasIDs g evs → Inv known (g.run known .hasIDs evs) := by
  intro evs
  induction evs with
  | nil => intro g h _; exact h
  | cons e es ih =>
    intro g h hv
    have hv' : e.allowed g = true ∧ Valid known .hasIDs (g.step known .hasIDs e) es := by
      simpa [Valid, validB] using hv
    exact ih _ (inv_step h hv'.1) hv'.2

theorem run_append (known : Nat → Nat → Bool) (w : WaitOn) (g : G) (a b : List Ev) :
    g.run known w (a ++ b) = (g.run known w a).run known w b := by
  simp [G.run, List.foldl_append]

theorem valid_append {known : Nat → Nat → Bool} {w : WaitOn} : ∀ (a b : List Ev) (g : G),
    Valid known w g (a ++ b) → Valid known w g a ∧ Valid known w (g.run known w a) b := by
  intro a
  induction a with
  | nil => intro b g h; exact ⟨rfl, h⟩
  | cons e es ih =>
    intro b g h
    have h' : e.allowed g = true ∧ Valid known w (g.step known w e) (es ++ b) := by
      simpa [Valid, validB] using h
    have := ih b _ h'.2
    refine ⟨?_, this.2⟩
    have h1 : Valid known w (g.step known w e) es := this.1
    simp only [Valid, validB, Bool.and_eq_true]
    exact ⟨h'.1, h1⟩

/-- the close count alone: for EVERY event list (no discipline needed) the channel is closed at most once -/
structure InvClose (g : G) : Prop where
  cnt : (g.nkeys = 0 ∧ g.closes = 0) ∨ (0 < g.nkeys ∧ InvC g.nkeys g.remaining g.closes)

theorem invClose_step {known : Nat → Nat → Bool} {w : WaitOn} {g : G} (e : Ev) (h : InvClose g) :
    InvClose (g.step known w e) := by
  obtain ⟨k, p, ids, r, c, ms, memo, a⟩ := g
  obtain ⟨h3⟩ := h
  dsimp only at h3
  cases e with
  | fork => exact ⟨h3⟩
  | ids vs => exact ⟨h3⟩
  | send =>
    dsimp only [G.step, G.send]
    split
    · exact ⟨h3⟩
    · exact ⟨h3⟩
  | complete f =>
    dsimp only [G.step, G.complete, G.collect, G.collectBody]
    by_cases hc : ((p - 1 != 0) || (k == 0)) = true
    · rw [if_pos hc]; exact ⟨h3⟩
    · rw [if_neg hc]
      rcases h3 with ⟨hk, _⟩ | ⟨hk, hI⟩
      · have hc' : p - 1 = 0 ∧ k ≠ 0 := by simpa using hc
        exact absurd hk hc'.2
      · exact ⟨Or.inr ⟨hk, reduceAll_invC (known := known) (failAt := f) ids 0 ms r c hI⟩⟩


/-! ### the invariant at the granularity of atomic steps (`GI`) -/

structure InvI (known : Nat → Nat → Bool) (s : GI) : Prop where
  pend : 0 ≤ s.g.pending
  len : s.g.ids.length = s.g.nkeys
  cnt : (s.g.nkeys = 0 ∧ s.g.closes = 0 ∧ s.g.maps = []) ∨ (0 < s.g.nkeys ∧ InvC s.g.nkeys s.g.remaining s.g.closes)
  wait : s.g.anyIds = true → 0 < s.g.pending ∨ s.g.closes = 1 ∨ s.g.answer.isSome = true ∨ 0 < s.ndec ∨ 0 < s.nload0
  maps : s.g.pending = 0 → s.g.answer.isSome = true ∨ s.g.maps = mapsFrom known 0 s.g.ids ∨ 0 < s.ndec ∨ 0 < s.nload0
  ans : s.g.answer ≠ some .deadline
  load0 : 0 < s.nload0 → 0 < s.g.nkeys

theorem invI_new (known : Nat → Nat → Bool) (k : Nat) : InvI known (GI.new k) := by
  have h := inv_new known k
  exact ⟨h.pend, h.len, h.cnt,
    fun ha => by rcases h.wait ha with h1 | h1 | h1 <;> simp [GI.new, h1],
    fun hp => by rcases h.maps hp with h1 | h1 <;> simp [GI.new, h1],
    h.ans, by intro h0; simp [GI.new] at h0⟩

theorem invI_step {known : Nat → Nat → Bool} {s : GI} {e : EvI} (h : InvI known s)
    (ha : e.allowed s = true) : InvI known (s.step known .hasIDs e) := by
  obtain ⟨⟨k, p, ids, r, c, ms, memo, a⟩, nd, nl⟩ := s
  obtain ⟨h1, h2, h3, h4, h5, h6, h7⟩ := h
  dsimp only [G.anyIds] at h1 h2 h3 h4 h5 h6 h7
  cases e with
  | spawn =>
    refine ⟨?_, ?_, ?_, ?_, ?_, ?_, ?_⟩ <;> dsimp only [GI.step, G.fork, G.anyIds]
    · omega
    · exact h2
    · exact h3
    · intro _; left; omega
    · intro hp; omega
    · exact h6
    · exact h7
  | ids vs =>
    have ha' : 0 < p ∧ vs.length = k := by simpa [EvI.allowed] using ha
    refine ⟨?_, ?_, ?_, ?_, ?_, ?_, ?_⟩ <;> dsimp only [GI.step, G.addIDs, G.anyIds]
    · exact h1
    · rw [addIds_length ids vs (by omega)]; exact h2
    · exact h3
    · intro _; left; exact ha'.1
    · intro hp; omega
    · exact h6
    · exact h7
  | dec =>
    have ha' : 0 < p := by simpa [EvI.allowed] using ha
    refine ⟨?_, ?_, ?_, ?_, ?_, ?_, ?_⟩ <;> dsimp only [GI.step, G.anyIds]
    · omega
    · exact h2
    · exact h3
    · intro _; right; right; right; left; omega
    · intro _; right; right; left; omega
    · exact h6
    · exact h7
  | load =>
    have ha' : 0 < nd := by simpa [EvI.allowed] using ha
    dsimp only [GI.step]
    by_cases hc : ((p != 0) || (k == 0)) = true
    · rw [if_pos hc]
      have hc' : p ≠ 0 ∨ k = 0 := by simpa using hc
      refine ⟨?_, ?_, ?_, ?_, ?_, ?_, ?_⟩ <;> dsimp only [G.anyIds]
      · exact h1
      · exact h2
      · exact h3
      · intro hany
        rcases hc' with hne | hk0
        · left; omega
        · subst hk0
          have hnil : ids = [] := List.eq_nil_of_length_eq_zero h2
          subst hnil; simp at hany
      · intro hp
        rcases hc' with hne | hk0
        · omega
        · right; left
          subst hk0
          have hnil : ids = [] := List.eq_nil_of_length_eq_zero h2
          subst hnil
          rcases h3 with ⟨_, _, hm⟩ | ⟨hk, _⟩
          · rw [hm]; rfl
          · omega
      · exact h6
      · exact h7
    · rw [if_neg hc]
      have hc' : p = 0 ∧ k ≠ 0 := by simpa using hc
      refine ⟨?_, ?_, ?_, ?_, ?_, ?_, ?_⟩ <;> dsimp only [G.anyIds]
      · exact h1
      · exact h2
      · exact h3
      · intro _; right; right; right; right; omega
      · intro _; right; right; right; omega
      · exact h6
      · intro _; omega
  | body f =>
    have ha' : 0 < nl := by simpa [EvI.allowed] using ha
    have hk : 0 < k := h7 ha'
    dsimp only [GI.step, G.collectBody]
    rcases h3 with ⟨hk0, _, _⟩ | ⟨_, hI⟩
    · omega
    have hInv := reduceAll_invC (known := known) (failAt := f) ids 0 ms r c hI
    refine ⟨?_, ?_, ?_, ?_, ?_, ?_, ?_⟩ <;> dsimp only [G.anyIds]
    · exact h1
    · exact h2
    · right; exact ⟨hk, hInv⟩
    · intro _
      by_cases hf : (reduceAll known f 0 ids ms r c).2.2.2 = true
      · right; right; left; rw [hf]; cases a <;> simp
      · have hf' : (reduceAll known f 0 ids ms r c).2.2.2 = false := by simpa using hf
        right; left
        have hr := (reduceAll_ok (known := known) (failAt := f) ids 0 ms r c hf').2
        rcases hInv with ⟨hpos, _, _⟩ | ⟨_, hc1⟩
        · exfalso
          rw [hr, h2] at hpos
          rcases hI with ⟨_, hle, _⟩ | ⟨hle, _⟩ <;> omega
        · exact hc1
    · intro _
      by_cases hf : (reduceAll known f 0 ids ms r c).2.2.2 = true
      · left; rw [hf]; cases a <;> simp
      · have hf' : (reduceAll known f 0 ids ms r c).2.2.2 = false := by simpa using hf
        right; left; exact (reduceAll_ok (known := known) (failAt := f) ids 0 ms r c hf').1
    · cases a with
      | none => cases (reduceAll known f 0 ids ms r c).2.2.2 <;> simp
      | some x => simpa using h6
    · intro _; exact hk
  | send =>
    have hp : p = 0 ∧ nd = 0 ∧ nl = 0 := by
      have : (p = 0 ∧ nd = 0) ∧ nl = 0 := by simpa [EvI.allowed] using ha
      exact ⟨this.1.1, this.1.2, this.2⟩
    dsimp only [GI.step, G.send]
    cases a with
    | some x =>
      simp only [Option.isSome_some, if_true]
      exact ⟨h1, h2, h3, h4, h5, h6, h7⟩
    | none =>
      have hb : G.blocks .hasIDs ⟨k, p, ids, r, c, ms, memo, none⟩ = false := by
        dsimp only [G.blocks, G.waits, G.anyIds]
        cases hany : ids.any (fun l => !l.isEmpty) with
        | false => simp
        | true =>
          rcases h4 hany with h | h | h | h | h
          · omega
          · simp [h]
          · simp at h
          · omega
          · omega
      simp only [Option.isSome_none, Bool.false_eq_true, if_false]
      refine ⟨h1, h2, h3, ?_, ?_, ?_, h7⟩ <;> dsimp only [G.anyIds]
      · intro _; right; right; left; rfl
      · intro _; left; rfl
      · rw [hb]; simp

theorem invI_run {known : Nat → Nat → Bool} : ∀ (evs : List EvI) (s : GI), InvI known s →
    ValidI known .hasIDs s evs → InvI known (s.run known .hasIDs evs) := by
  intro evs
  induction evs with
  | nil => intro s h _; exact h
  | cons e es ih =>
    intro s h hv
    have hv' : e.allowed s = true ∧ ValidI known .hasIDs (s.step known .hasIDs e) es := by
      simpa [ValidI, validI] using hv
    exact ih _ (invI_step h hv'.1) hv'.2

theorem runI_append (known : Nat → Nat → Bool) (w : WaitOn) (s : GI) (a b : List EvI) :
    s.run known w (a ++ b) = (s.run known w a).run known w b := by
  simp [GI.run, List.foldl_append]

theorem validI_append {known : Nat → Nat → Bool} {w : WaitOn} : ∀ (a b : List EvI) (s : GI),
    ValidI known w s (a ++ b) → ValidI known w s a ∧ ValidI known w (s.run known w a) b := by
  intro a
  induction a with
  | nil => intro b s h; exact ⟨rfl, h⟩
  | cons e es ih =>
    intro b s h
    have h' : e.allowed s = true ∧ ValidI known w (s.step known w e) (es ++ b) := by
      simpa [ValidI, validI] using h
    have := ih b _ h'.2
    refine ⟨?_, this.2⟩
    have h1 : ValidI known w (s.step known w e) es := this.1
    simp only [ValidI, validI, Bool.and_eq_true]
    exact ⟨h'.1, h1⟩

theorem addIds_length' : ∀ (ids : List (List Nat)) (vs : List Nat), (addIds ids vs).length = ids.length := by
  intro ids
  induction ids with
  | nil => intro vs; cases vs <;> rfl
  | cons l ls ih =>
    intro vs
    cases vs with
    | nil => rfl
    | cons v vs => simp only [addIds, List.length_cons]; rw [ih vs]

/-- close count + id-list length: kept by EVERY step of the fine-grained system, allowed or not -/
structure InvCloseI (s : GI) : Prop where
  cnt : (s.g.nkeys = 0 ∧ s.g.closes = 0) ∨ (0 < s.g.nkeys ∧ InvC s.g.nkeys s.g.remaining s.g.closes)
  len : s.g.ids.length = s.g.nkeys

theorem invCloseI_step {known : Nat → Nat → Bool} {w : WaitOn} {s : GI} (e : EvI) (h : InvCloseI s) :
    InvCloseI (s.step known w e) := by
  obtain ⟨⟨k, p, ids, r, c, ms, memo, a⟩, nd, nl⟩ := s
  obtain ⟨h3, h2⟩ := h
  dsimp only at h3 h2
  cases e with
  | spawn => exact ⟨h3, h2⟩
  | ids vs => exact ⟨h3, by show (addIds ids vs).length = k; rw [addIds_length']; exact h2⟩
  | dec => exact ⟨h3, h2⟩
  | load =>
    dsimp only [GI.step]
    split
    · exact ⟨h3, h2⟩
    · exact ⟨h3, h2⟩
  | send =>
    dsimp only [GI.step, G.send]
    split
    · exact ⟨h3, h2⟩
    · exact ⟨h3, h2⟩
  | body f =>
    dsimp only [GI.step, G.collectBody]
    rcases h3 with ⟨hk, hc⟩ | ⟨hk, hI⟩
    · subst hk
      have hnil : ids = [] := List.eq_nil_of_length_eq_zero h2
      subst hnil
      exact ⟨Or.inl ⟨rfl, by simpa [reduceAll_nil] using hc⟩, h2⟩
    · exact ⟨Or.inr ⟨hk, reduceAll_invC (known := known) (failAt := f) ids 0 ms r c hI⟩, h2⟩

/-- getTagValues on a fully collected map: a key made of collected ids that the dictionary knows
is translated id by id, never `tag_value_not_found` -/
def Covered (known : Nat → Nat → Bool) : Nat → List (List Nat) → List Nat → Prop
  | _, [], [] => True
  | idx, l :: ls, v :: vs => v ∈ l ∧ known idx v = true ∧ Covered known (idx + 1) ls vs
  | _, _, _ => False

theorem lookupAll_covered {known : Nat → Nat → Bool} : ∀ (ids : List (List Nat)) (idx : Nat) (key : List Nat),
    Covered known idx ids key → lookupAll (mapsFrom known idx ids) key = key.map some := by
  intro ids
  induction ids with
  | nil => intro idx key h; cases key with
    | nil => rfl
    | cons v vs => simp [Covered] at h
  | cons l ls ih =>
    intro idx key h
    cases key with
    | nil => simp [Covered] at h
    | cons v vs =>
      obtain ⟨hv, hk, hrest⟩ := h
      have hne : l.isEmpty = false := by
        cases l with
        | nil => simp at hv
        | cons x xs => rfl
      simp only [mapsFrom, hne, lookupAll, List.map_cons, lookupOne]
      rw [ih _ _ hrest]
      have : v ∈ l.filter (known idx) := List.mem_filter.mpr ⟨hv, hk⟩
      simp [this]

end LinVerif.LeafCollect
