/-
C16 — helper lemmas for the row model (validation, sort uniqueness, de-duplication).
-/
import Mathlib.Data.String.Basic
import Mathlib.Data.List.Perm.Basic
import Mathlib.Data.List.Nodup
import LinVerif.Model.Row

namespace LinVerif.Lemmas.C16
open LinVerif.Row

/-! ### insertion sort satisfies the sort contract -/

section InsertionSort
variable {α : Type} (lt : α → α → Bool)

theorem insertSortedL_perm (a : α) (l : List α) :
    (insertionSort.insertSortedL lt a l).Perm (a :: l) := by
  induction l with
  | nil => simp [insertionSort.insertSortedL]
  | cons b rest ih =>
    simp only [insertionSort.insertSortedL]
    split
    · exact ((List.Perm.cons b ih).trans (List.Perm.swap a b rest))
    · exact List.Perm.refl _

theorem insertionSort_perm (l : List α) : (insertionSort lt l).Perm l := by
  induction l with
  | nil => simp [insertionSort]
  | cons a rest ih =>
    simp only [insertionSort]
    exact (insertSortedL_perm lt a _).trans (List.Perm.cons a ih)

theorem insertSortedL_ordered
    (htrans : ∀ a b c, lt b a = false → lt c b = false → lt c a = false)
    (hasym : ∀ a b, lt a b = true → lt b a = false)
    (a : α) (l : List α) (hl : l.Pairwise (fun x y => lt y x = false)) :
    (insertionSort.insertSortedL lt a l).Pairwise (fun x y => lt y x = false) := by
  induction l with
  | nil => simp [insertionSort.insertSortedL]
  | cons b rest ih =>
    simp only [insertionSort.insertSortedL]
    rw [List.pairwise_cons] at hl
    split
    · rename_i hba
      rw [List.pairwise_cons]
      refine ⟨?_, ih hl.2⟩
      intro y hy
      have hy' := (insertSortedL_perm lt a rest).subset hy
      rcases List.mem_cons.1 hy' with rfl | hy''
      · exact hasym _ _ hba
      · exact hl.1 y hy''
    · rename_i hba
      have hba' : lt b a = false := by simpa using hba
      rw [List.pairwise_cons]
      refine ⟨?_, List.pairwise_cons.2 hl⟩
      intro y hy
      rcases List.mem_cons.1 hy with rfl | hy'
      · exact hba'
      · exact htrans _ _ _ hba' (hl.1 y hy')

theorem insertionSort_ordered
    (htrans : ∀ a b c, lt b a = false → lt c b = false → lt c a = false)
    (hasym : ∀ a b, lt a b = true → lt b a = false)
    (l : List α) : (insertionSort lt l).Pairwise (fun x y => lt y x = false) := by
  induction l with
  | nil => simp [insertionSort]
  | cons a rest ih =>
    simp only [insertionSort]
    exact insertSortedL_ordered lt htrans hasym a _ ih

theorem insertionSort_spec
    (htrans : ∀ a b c, lt b a = false → lt c b = false → lt c a = false)
    (hasym : ∀ a b, lt a b = true → lt b a = false) :
    SortSpec lt (insertionSort lt) :=
  ⟨insertionSort_perm lt, insertionSort_ordered lt htrans hasym⟩

end InsertionSort

/-! ### the tag order -/

theorem less_false_iff_keyOnly (a b : Tag) : less false b a = false ↔ a.key ≤ b.key := by
  simp only [less, Bool.false_and, Bool.or_false, decide_eq_false_iff_not, not_lt]

theorem less_false_iff_tb (a b : Tag) :
    less true b a = false ↔ (a.key < b.key ∨ (a.key = b.key ∧ a.value ≤ b.value)) := by
  simp only [less, Bool.true_and, Bool.or_eq_false_iff, decide_eq_false_iff_not, not_lt,
    Bool.and_eq_false_iff, beq_eq_false_iff_ne, ne_eq]
  constructor
  · rintro ⟨h1, h2⟩
    rcases lt_or_eq_of_le h1 with h | h
    · exact Or.inl h
    · refine Or.inr ⟨h, ?_⟩
      rcases h2 with h2 | h2
      · exact absurd h.symm h2
      · exact h2
  · rintro (h | ⟨h, hv⟩)
    · exact ⟨le_of_lt h, Or.inl (ne_of_gt h)⟩
    · exact ⟨le_of_eq h, Or.inr hv⟩

theorem less_true_imp (tb : Bool) (a b : Tag) (h : less tb a b = true) : a.key ≤ b.key := by
  simp only [less, Bool.or_eq_true, decide_eq_true_eq, Bool.and_eq_true, beq_iff_eq] at h
  rcases h with h | h
  · exact le_of_lt h
  · exact le_of_eq h.1.2

/-- `¬ Less(b, a)` implies the keys are in order, for both variants. -/
theorem key_le_of_not_less (tb : Bool) (a b : Tag) (h : less tb b a = false) : a.key ≤ b.key := by
  cases tb
  · exact (less_false_iff_keyOnly a b).1 h
  · rcases (less_false_iff_tb a b).1 h with h | h
    · exact le_of_lt h
    · exact le_of_eq h.1

theorem less_trans (tb : Bool) (a b c : Tag)
    (h1 : less tb b a = false) (h2 : less tb c b = false) : less tb c a = false := by
  cases tb
  · rw [less_false_iff_keyOnly] at *
    exact le_trans h1 h2
  · rw [less_false_iff_tb] at *
    rcases h1 with h1 | ⟨h1, v1⟩ <;> rcases h2 with h2 | ⟨h2, v2⟩
    · exact Or.inl (lt_trans h1 h2)
    · exact Or.inl (h2 ▸ h1)
    · exact Or.inl (h1 ▸ h2)
    · exact Or.inr ⟨h1.trans h2, le_trans v1 v2⟩

theorem less_asymm (tb : Bool) (a b : Tag) (h : less tb a b = true) : less tb b a = false := by
  cases tb
  · rw [less_false_iff_keyOnly]
    exact less_true_imp false a b h
  · rw [less_false_iff_tb]
    simp only [less, Bool.true_and, Bool.or_eq_true, decide_eq_true_eq, Bool.and_eq_true,
      beq_iff_eq] at h
    rcases h with h | ⟨h, hv⟩
    · exact Or.inl h
    · exact Or.inr ⟨h, le_of_lt hv⟩

/-- Go's insertion sort (what sort.Sort runs up to 12 elements) meets the sort contract for the
tag order — the contract is satisfiable. -/
theorem insertionSort_less_spec (tb : Bool) : SortSpec (less tb) (insertionSort (less tb)) :=
  insertionSort_spec (less tb) (fun a b c => less_trans tb a b c) (fun a b => less_asymm tb a b)

/-! ### uniqueness of the sorted permutation -/

/-- Tags "agree on repeated keys": two entries with the same key are the same entry. -/
def Consistent (l : List Tag) : Prop := ∀ a ∈ l, ∀ b ∈ l, a.key = b.key → a = b

theorem Consistent.perm {l₁ l₂ : List Tag} (h : Consistent l₁) (p : l₁.Perm l₂) : Consistent l₂ :=
  fun a ha b hb => h a (p.symm.subset ha) b (p.symm.subset hb)

theorem consistent_of_keys_nodup {l : List Tag} (h : (l.map Tag.key).Nodup) : Consistent l := by
  intro a ha b hb hk
  exact List.inj_on_of_nodup_map h ha hb hk

/-- Whatever two conforming sorts do with elements that compare equal, on permutations of a list
whose repeated keys carry one value (or with the tie-break on the value) they return the same list. -/
theorem sort_unique (tb : Bool) {s₁ s₂ : List Tag → List Tag}
    (h₁ : SortSpec (less tb) s₁) (h₂ : SortSpec (less tb) s₂)
    {l₁ l₂ : List Tag} (p : l₁.Perm l₂) (hc : tb = true ∨ Consistent l₁) :
    s₁ l₁ = s₂ l₂ := by
  have pp : (s₁ l₁).Perm (s₂ l₂) := (h₁.perm l₁).trans (p.trans (h₂.perm l₂).symm)
  refine List.Perm.eq_of_pairwise (le := fun a b => less tb b a = false) ?_ (h₁.ordered l₁) (h₂.ordered l₂) pp
  intro a b ha hb hab hba
  have ka := key_le_of_not_less tb a b hab
  have kb := key_le_of_not_less tb b a hba
  have hk : a.key = b.key := le_antisymm ka kb
  rcases hc with rfl | hc
  · rcases (less_false_iff_tb a b).1 hab with h | ⟨_, v1⟩
    · exact absurd hk (ne_of_lt h)
    · rcases (less_false_iff_tb b a).1 hba with h | ⟨_, v2⟩
      · exact absurd hk.symm (ne_of_lt h)
      · obtain ⟨ka, va⟩ := a
        obtain ⟨kb', vb⟩ := b
        simp only at hk v1 v2
        subst hk
        rw [le_antisymm v1 v2]
  · exact hc a ((h₁.perm l₁).subset ha) b (p.symm.subset ((h₂.perm l₂).subset hb)) hk

/-! ### the 2-pointer de-duplication -/

theorem dedupRuns_sub : ∀ (s : List Tag) (t : Tag), t ∈ dedupRuns s → t ∈ s
  | [], t, h => by simp [dedupRuns] at h
  | [a], t, h => by simpa [dedupRuns] using h
  | a :: b :: rest, t, h => by
    simp only [dedupRuns] at h
    split at h
    · exact List.mem_cons_of_mem _ (dedupRuns_sub (b :: rest) t h)
    · rcases List.mem_cons.1 h with rfl | h'
      · exact List.mem_cons_self
      · exact List.mem_cons_of_mem _ (dedupRuns_sub (b :: rest) t h')

/-- every key of the input survives -/
theorem dedupRuns_keys : ∀ (s : List Tag) (t : Tag), t ∈ s → ∃ t' ∈ dedupRuns s, t'.key = t.key
  | [], t, h => by simp at h
  | [a], t, h => by
    simp only [List.mem_singleton] at h
    subst h
    exact ⟨t, by simp [dedupRuns], rfl⟩
  | a :: b :: rest, t, h => by
    simp only [dedupRuns]
    split
    · rename_i hab
      rcases List.mem_cons.1 h with rfl | h'
      · obtain ⟨t', ht', hk⟩ := dedupRuns_keys (b :: rest) b List.mem_cons_self
        exact ⟨t', ht', hk.trans hab.symm⟩
      · exact dedupRuns_keys (b :: rest) t h'
    · rcases List.mem_cons.1 h with rfl | h'
      · exact ⟨t, List.mem_cons_self, rfl⟩
      · obtain ⟨t', ht', hk⟩ := dedupRuns_keys (b :: rest) t h'
        exact ⟨t', List.mem_cons_of_mem _ ht', hk⟩

/-- on a key-ordered list the survivors have strictly increasing keys -/
theorem dedupRuns_strict : ∀ (s : List Tag), s.Pairwise (fun a b => a.key ≤ b.key) →
    (dedupRuns s).Pairwise (fun a b => a.key < b.key)
  | [], _ => by simp [dedupRuns]
  | [a], _ => by simp [dedupRuns]
  | a :: b :: rest, h => by
    simp only [dedupRuns]
    have h' := List.pairwise_cons.1 h
    split
    · exact dedupRuns_strict (b :: rest) h'.2
    · rename_i hab
      refine List.pairwise_cons.2 ⟨?_, dedupRuns_strict (b :: rest) h'.2⟩
      intro t ht
      have htm := dedupRuns_sub (b :: rest) t ht
      have hab' : a.key < b.key := lt_of_le_of_ne (h'.1 b List.mem_cons_self) hab
      rcases List.mem_cons.1 htm with rfl | hr
      · exact hab'
      · exact lt_of_lt_of_le hab' ((List.pairwise_cons.1 h'.2).1 t hr)

/-- a list with strictly increasing keys passes sort.IsSorted for both variants of Less -/
theorem isSortedBy_of_strict (tb : Bool) : ∀ (s : List Tag), s.Pairwise (fun a b => a.key < b.key) →
    isSortedBy (less tb) s = true
  | [], _ => rfl
  | [_], _ => rfl
  | a :: b :: rest, h => by
    have h' := List.pairwise_cons.1 h
    have hab : a.key < b.key := h'.1 b List.mem_cons_self
    simp only [isSortedBy, Bool.and_eq_true, Bool.not_eq_true']
    refine ⟨?_, isSortedBy_of_strict tb (b :: rest) h'.2⟩
    cases tb
    · exact (less_false_iff_keyOnly a b).2 (le_of_lt hab)
    · exact (less_false_iff_tb a b).2 (Or.inl hab)

/-! ### deDupTags as a whole -/

theorem short_cases {α : Type} (l : List α) (h : l.length < 2) : l = [] ∨ ∃ a, l = [a] := by
  match l, h with
  | [], _ => exact Or.inl rfl
  | [a], _ => exact Or.inr ⟨a, rfl⟩
  | _ :: _ :: _, h => simp at h; omega

theorem sorted_keys_of_spec (tb : Bool) {sort : List Tag → List Tag} (hs : SortSpec (less tb) sort)
    (l : List Tag) : (sort l).Pairwise (fun a b => a.key ≤ b.key) :=
  (hs.ordered l).imp (fun {a b} h => key_le_of_not_less tb a b h)

theorem deDupTags_strict (tb : Bool) {sort : List Tag → List Tag} (hs : SortSpec (less tb) sort)
    (l : List Tag) : (deDupTags sort l).Pairwise (fun a b => a.key < b.key) := by
  unfold deDupTags
  split
  · rename_i h
    rcases short_cases l h with rfl | ⟨a, rfl⟩ <;> simp
  · exact dedupRuns_strict _ (sorted_keys_of_spec tb hs l)

theorem deDupTags_sub (tb : Bool) {sort : List Tag → List Tag} (hs : SortSpec (less tb) sort)
    (l : List Tag) (t : Tag) (h : t ∈ deDupTags sort l) : t ∈ l := by
  unfold deDupTags at h
  split at h
  · exact h
  · exact (hs.perm l).subset (dedupRuns_sub _ t h)

theorem deDupTags_keys (tb : Bool) {sort : List Tag → List Tag} (hs : SortSpec (less tb) sort)
    (l : List Tag) (t : Tag) (h : t ∈ l) : ∃ t' ∈ deDupTags sort l, t'.key = t.key := by
  unfold deDupTags
  split
  · exact ⟨t, h, rfl⟩
  · exact dedupRuns_keys _ t ((hs.perm l).symm.subset h)

/-- XXHashOfKeyValues never has to re-sort what deDupTags produced: the stored hash is the hash of
the stored tags -/
theorem kvsHash_deDup (tb : Bool) {sort : List Tag → List Tag} (hs : SortSpec (less tb) sort)
    (H : String → Nat) (l : List Tag) :
    kvsHash tb sort H (deDupTags sort l) = H (concatKVs (deDupTags sort l)) := by
  have hstrict := deDupTags_strict tb hs l
  have hsorted := isSortedBy_of_strict tb _ hstrict
  cases hd : deDupTags sort l with
  | nil => simp [kvsHash, concatKVs]
  | cons a rest =>
    cases rest with
    | nil => simp [kvsHash]
    | cons b rest' =>
      rw [hd] at hsorted
      simp only [kvsHash, hsorted, if_true]

/-- the whole tag pipeline does not depend on the order the tags were sent in, nor on which
conforming sort runs, when repeated keys carry one value (or with the tie-break on the value) -/
theorem deDupTags_perm (tb : Bool) {s₁ s₂ : List Tag → List Tag}
    (h₁ : SortSpec (less tb) s₁) (h₂ : SortSpec (less tb) s₂)
    {l₁ l₂ : List Tag} (p : l₁.Perm l₂) (hc : tb = true ∨ Consistent l₁) :
    deDupTags s₁ l₁ = deDupTags s₂ l₂ := by
  unfold deDupTags
  rw [← p.length_eq]
  split
  · rename_i h
    rcases short_cases l₁ h with rfl | ⟨a, rfl⟩
    · exact (List.perm_nil.1 p.symm).symm ▸ rfl
    · exact (List.singleton_perm.1 p).symm ▸ rfl
  · rw [sort_unique tb h₁ h₂ p hc]

end LinVerif.Lemmas.C16
