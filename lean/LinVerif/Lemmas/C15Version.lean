/-
C15 — versions are immutable once published: an edit log applied to a (deep) clone never changes
what the source version looks up, because the clone's level maps are fresh objects; iterators of
one reader are independent objects.
-/
import LinVerif.Lemmas.C15Table
set_option linter.unusedSimpArgs false

namespace LinVerif.Table
variable {B : Type}

/-! ## heap of level maps -/

theorem applyH_length (h : Heap) (v : Ver) (g : VLog) : (g.applyH h v).length = h.length := by
  unfold VLog.applyH
  split
  · rfl
  · split
    · rfl
    · simp

theorem applyH_get_other (h : Heap) (v : Ver) (g : VLog) (x : Nat) (hx : x ∉ v) :
    (g.applyH h v)[x]? = h[x]? := by
  unfold VLog.applyH
  split
  · rfl
  · rename_i a ha
    split
    · rfl
    · have hav : a ∈ v := List.mem_of_getElem? ha
      have : a ≠ x := fun e => hx (e ▸ hav)
      simp [List.getElem?_set, this]

theorem applyLogsH_length (v : Ver) : ∀ (logs : List VLog) (h : Heap), (applyLogsH h v logs).length = h.length := by
  intro logs
  induction logs with
  | nil => intro h; rfl
  | cons g t ih => intro h; simp only [applyLogsH, List.foldl_cons]; exact (ih _).trans (applyH_length h v g)

theorem applyLogsH_get_other (v : Ver) (x : Nat) (hx : x ∉ v) : ∀ (logs : List VLog) (h : Heap),
    (applyLogsH h v logs)[x]? = h[x]? := by
  intro logs
  induction logs with
  | nil => intro h; rfl
  | cons g t ih =>
    intro h
    simp only [applyLogsH, List.foldl_cons]
    exact (ih _).trans (applyH_get_other h v g x hx)

theorem deref_congr (h1 h2 : Heap) (v : Ver) (hv : ∀ a ∈ v, h1[a]? = h2[a]?) : deref h1 v = deref h2 v := by
  unfold deref
  apply List.map_congr_left
  intro a ha
  unfold heapAt
  rw [hv a ha]

theorem heapAt_set (h : Heap) (a x : Nat) (m : List FileMeta) (ha : a < h.length) :
    heapAt (h.set a m) x = if a = x then m else heapAt h x := by
  unfold heapAt
  by_cases e : a = x
  · subst e; simp [ha]
  · simp [List.getElem?_set, e]

/-- one log on the heap = the log on the levels, for a version whose level maps are distinct,
existing objects -/
theorem deref_applyH (h : Heap) (v : Ver) (g : VLog) (hnd : v.Nodup) (hval : ∀ a ∈ v, a < h.length) :
    deref (g.applyH h v) v = g.apply (deref h v) := by
  unfold VLog.applyH VLog.apply
  have hdl : (deref h v)[g.level]? = (v[g.level]?).map (heapAt h) := by simp [deref]
  cases hl : v[g.level]? with
  | none => simp [hdl, hl]
  | some a =>
    have hav : a ∈ v := List.mem_of_getElem? hl
    have halt := hval a hav
    have hha : h[a]? = some h[a] := List.getElem?_eq_getElem halt
    have hat : heapAt h a = h[a] := by unfold heapAt; rw [hha]
    simp only [hdl, hl, Option.map_some, hha, hat]
    apply List.ext_getElem?
    intro j
    simp only [deref, List.getElem?_map, List.getElem?_set, List.length_map]
    have hlt : g.level < v.length := (List.getElem?_eq_some_iff.mp hl).1
    by_cases hj : g.level = j
    · subst hj
      have hva : v[g.level] = a := (List.getElem?_eq_some_iff.mp hl).2
      simp [hl, hlt, hva, heapAt_set h a a _ halt]
    · simp only [hj, if_false]
      cases hvj : v[j]? with
      | none => simp
      | some a' =>
        have hne : a ≠ a' := by
          intro e; subst e
          have h1 := (List.getElem?_eq_some_iff.mp hl)
          have h2 := (List.getElem?_eq_some_iff.mp hvj)
          have hidx := (List.pairwise_iff_getElem.mp hnd)
          rcases Nat.lt_or_gt_of_ne hj with hlt' | hgt'
          · exact hidx g.level j h1.1 h2.1 hlt' (h1.2.trans h2.2.symm)
          · exact hidx j g.level h2.1 h1.1 hgt' (h2.2.trans h1.2.symm)
        simp [heapAt_set h a a' _ halt, hne]

theorem deref_applyLogsH (v : Ver) (hnd : v.Nodup) : ∀ (logs : List VLog) (h : Heap), (∀ a ∈ v, a < h.length) →
    deref (applyLogsH h v logs) v = applyLogs (deref h v) logs := by
  intro logs
  induction logs with
  | nil => intro h _; rfl
  | cons g t ih =>
    intro h hval
    simp only [applyLogsH, applyLogs, List.foldl_cons]
    have := ih (g.applyH h v) (fun a ha => by rw [applyH_length]; exact hval a ha)
    simp only [applyLogsH, applyLogs] at this
    rw [this, deref_applyH h v g hnd hval]

theorem deref_cloneDeep (heap : Heap) (v : Ver) :
    deref (cloneDeep heap v).1 (cloneDeep heap v).2 = deref heap v := by
  simp only [cloneDeep]
  apply List.ext_getElem?
  intro j
  have hlen : (deref heap v).length = v.length := by simp [deref]
  by_cases hj : j < v.length
  · have h1 : (List.range' heap.length v.length)[j]? = some (heap.length + j) := by
      simp [List.getElem?_range', hj]
    have h2 : (deref heap v)[j]? = some (heapAt heap v[j]) := by
      simp [deref, List.getElem?_eq_getElem hj]
    have h3 : heapAt (heap ++ deref heap v) (heap.length + j) = heapAt heap v[j] := by
      unfold heapAt
      rw [List.getElem?_append_right (by omega), Nat.add_sub_cancel_left, h2]
      rfl
    rw [h2]
    simp only [deref, List.getElem?_map, h1, Option.map_some] at h3 ⊢
    rw [h3]
  · have h1 : (List.range' heap.length v.length)[j]? = none := by simp [List.getElem?_range', hj]
    have h2 : v[j]? = none := by simp; omega
    simp [deref, h1, h2]

/-- **Clone isolates.** A version whose level maps are objects of the heap; `Clone()` (fresh maps)
then any edit log applied to the clone: the source version still dereferences to what it was, the
clone to the edited levels. -/
theorem clone_isolates (heap : Heap) (v : Ver) (logs : List VLog) (hval : ∀ a ∈ v, a < heap.length) :
    deref (applyLogsH (cloneDeep heap v).1 (cloneDeep heap v).2 logs) v = deref heap v ∧
    deref (applyLogsH (cloneDeep heap v).1 (cloneDeep heap v).2 logs) (cloneDeep heap v).2 =
      applyLogs (deref heap v) logs := by
  constructor
  · have h1 : deref (applyLogsH (cloneDeep heap v).1 (cloneDeep heap v).2 logs) v = deref (cloneDeep heap v).1 v := by
      apply deref_congr
      intro a ha
      apply applyLogsH_get_other
      simp only [cloneDeep, List.mem_range']
      intro ⟨i, hi, hai⟩
      have := hval a ha
      omega
    rw [h1]
    apply deref_congr
    intro a ha
    simp only [cloneDeep]
    rw [List.getElem?_append_left (hval a ha)]
  · have hnd : (cloneDeep heap v).2.Nodup := by
      simp only [cloneDeep]; exact List.nodup_range'
    have hv' : ∀ a ∈ (cloneDeep heap v).2, a < (cloneDeep heap v).1.length := by
      intro a ha
      simp only [cloneDeep, List.mem_range', List.length_append, deref, List.length_map] at ha ⊢
      obtain ⟨i, hi, rfl⟩ := ha
      omega
    rw [deref_applyLogsH _ hnd logs _ hv', deref_cloneDeep]

/-! ## iterators -/

theorem stepTwo_first (r : Reader B) : ∀ (s : List Bool) (a b : Iter),
    ((stepTwo r s a b).filter (fun p => !p.1)).map (·.2) = stepOne r (s.count false) a := by
  intro s
  induction s with
  | nil => intro a b; rfl
  | cons x t ih =>
    intro a b
    cases x with
    | false =>
      simp only [stepTwo, List.count_cons_self, stepOne]
      cases a.next r with
      | none => simp [ih]
      | some p => obtain ⟨o, a'⟩ := p; simp [ih]
    | true =>
      simp only [stepTwo]
      cases b.next r with
      | none => simp [ih]
      | some p => obtain ⟨o, b'⟩ := p; simp [ih]

theorem stepTwo_second (r : Reader B) : ∀ (s : List Bool) (a b : Iter),
    ((stepTwo r s a b).filter (fun p => p.1)).map (·.2) = stepOne r (s.count true) b := by
  intro s
  induction s with
  | nil => intro a b; rfl
  | cons x t ih =>
    intro a b
    cases x with
    | true =>
      simp only [stepTwo, List.count_cons_self, stepOne]
      cases b.next r with
      | none => simp [ih]
      | some p => obtain ⟨o, b'⟩ := p; simp [ih]
    | false =>
      simp only [stepTwo]
      cases a.next r with
      | none => simp [ih]
      | some p => obtain ⟨o, a'⟩ := p; simp [ih]

/-- an iterator stepped to exhaustion delivers what `Reader.iterate` lists -/
theorem stepOne_all (r : Reader B) : ∀ (l : List Nat) (i : Nat),
    stepOne r l.length { keysLeft := l, idx := i } =
      (l.zipIdx i).map (fun (p : Nat × Nat) => some (p.1, r.valueAt p.2)) := by
  intro l
  induction l with
  | nil => intro i; rfl
  | cons k t ih =>
    intro i
    simp only [List.length_cons, stepOne, Iter.next, List.zipIdx_cons, List.map_cons]
    rw [ih (i + 1)]

/-! ## the stream writer's checksum -/

theorem writes_crc {K : KeySetOps B} : ∀ (ds : List Bytes) (b : Builder B), b.sw.badKey = false →
    ∃ b', Builder.run K b (ds.map Op.write) = some b' ∧ b'.sw.crcRev = ds.reverse ++ b.sw.crcRev ∧
      b'.sw.badKey = false := by
  intro ds
  induction ds with
  | nil => intro b hb; exact ⟨b, rfl, by simp, hb⟩
  | cons d t ih =>
    intro b hb
    have hstep : b.step K (.write d) = some ({ (b.write d) with sw := { (b.write d).sw with size := (b.write d).sw.size + d.length, crcRev := d :: (b.write d).sw.crcRev } }) := by
      simp [Builder.step, Builder.swWrite, hb]
    obtain ⟨b', h1, h2, h3⟩ := ih _ (show ({ (b.write d) with sw := { (b.write d).sw with size := (b.write d).sw.size + d.length, crcRev := d :: (b.write d).sw.crcRev } } : Builder B).sw.badKey = false by simpa [Builder.write] using hb)
    refine ⟨b', ?_, ?_, h3⟩
    · simp only [List.map_cons, Builder.run, hstep]; exact h1
    · rw [h2]; simp [Builder.write]

end LinVerif.Table
