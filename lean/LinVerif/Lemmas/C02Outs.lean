/-
C02 (round 12) — inductive invariant of Model/CompactOuts.lean: a multi-output compaction against any number
of concurrent deleteObsoleteFiles calls.  Holds for the source's shape (`earlyRelease = false`: pending marks
of the job's tables are released only by the deferred cleanupCompaction).
-/
import LinVerif.Model.CompactOuts

namespace LinVerif.CompactOuts

structure Inv (s : St) : Prop where
  needed_disk : ∀ f, Needed s f → f ∈ s.disk
  disk_lt : ∀ f, f ∈ s.disk → f < s.nextFile
  owned_pending : ∀ f, Owned s f → f ∈ s.pending
  builder_fresh : ∀ n, s.builder = some n → n ∉ s.cur ∧ n ∉ s.old
  cl_lt : ∀ i f, f ∈ (s.cl i).dlist → f < s.nextFile
  cl_pended : ∀ i, (s.cl i).phase = .pended → ∀ f, f ∈ (s.cl i).dlist → Owned s f → f ∈ (s.cl i).live
  cl_todo : ∀ i, (s.cl i).phase = .actived → ∀ f, f ∈ (s.cl i).todo → f ∈ (s.cl i).dlist ∧ ¬ Needed s f

theorem inv_init (tables : List Nat) (nf : Nat) (h : ∀ f, f ∈ tables → f < nf) : Inv (init tables nf) := by
  constructor <;> simp_all [init, Needed, Owned]

theorem needed_lt {s : St} (hi : Inv s) {f : Nat} (h : Needed s f) : f < s.nextFile :=
  hi.disk_lt f (hi.needed_disk f h)

theorem inv_start {s : St} (hi : Inv s) (ins : List Nat) :
    Inv { s with wphase := .merging, inputs := ins.filter (· ∈ s.cur), builder := none, outputs := [] } := by
  obtain ⟨h1, h2, h3, h4, h5, h6, h7⟩ := hi
  simp only [Needed, Owned] at *
  refine ⟨?_, ?_, ?_, ?_, ?_, ?_, ?_⟩ <;> simp only [Needed, Owned] <;> grind

theorem inv_open {s : St} (hi : Inv s) (hw : s.wphase = .merging) (hb : s.builder = none) :
    Inv { s with nextFile := s.nextFile + 1, pending := s.pending ++ [s.nextFile],
                 disk := s.disk ++ [s.nextFile], builder := some s.nextFile } := by
  have hlt := fun f => @needed_lt s hi f
  simp only [Needed, Owned] at hlt
  obtain ⟨h1, h2, h3, h4, h5, h6, h7⟩ := hi
  simp only [Needed, Owned] at *
  refine ⟨?_, ?_, ?_, ?_, ?_, ?_, ?_⟩ <;> simp only [Needed, Owned] <;> grind

theorem inv_finish {s : St} (hi : Inv s) (hw : s.wphase = .merging) (n : Nat) (hb : s.builder = some n) :
    Inv { s with builder := none, outputs := s.outputs ++ [n] } := by
  obtain ⟨h1, h2, h3, h4, h5, h6, h7⟩ := hi
  simp only [Needed, Owned] at *
  refine ⟨?_, ?_, ?_, ?_, ?_, ?_, ?_⟩ <;> simp only [Needed, Owned] <;> grind

theorem inv_finishEmpty {s : St} (hi : Inv s) : Inv { s with builder := none } := by
  obtain ⟨h1, h2, h3, h4, h5, h6, h7⟩ := hi
  simp only [Needed, Owned] at *
  refine ⟨?_, ?_, ?_, ?_, ?_, ?_, ?_⟩ <;> simp only [Needed, Owned] <;> grind

theorem inv_install {s : St} (hi : Inv s) (hw : s.wphase = .merging) (hb : s.builder = none) :
    Inv { s with wphase := .installed, nextFile := s.nextFile + 1, cur := s.cur.filter (· ∉ s.inputs) ++ s.outputs,
                 old := s.old ++ s.cur.filter (· ∈ s.inputs) } := by
  obtain ⟨h1, h2, h3, h4, h5, h6, h7⟩ := hi
  simp only [Needed, Owned] at *
  refine ⟨?_, ?_, ?_, ?_, ?_, ?_, ?_⟩ <;> simp only [Needed, Owned] <;> grind

theorem inv_fail {s : St} (hi : Inv s) : Inv { s with wphase := .failed } := by
  obtain ⟨h1, h2, h3, h4, h5, h6, h7⟩ := hi
  simp only [Needed, Owned] at *
  refine ⟨?_, ?_, ?_, ?_, ?_, ?_, ?_⟩ <;> simp only [Needed, Owned] <;> grind

theorem inv_cleanup {s : St} (hi : Inv s) (hw : s.wphase = .installed ∨ s.wphase = .failed) (pend : List Nat) :
    Inv { s with wphase := .idle, pending := pend, builder := none, outputs := [], inputs := [] } := by
  have hnm : s.wphase ≠ .merging := by rcases hw with h | h <;> simp [h]
  obtain ⟨h1, h2, h3, h4, h5, h6, h7⟩ := hi
  simp only [Needed, Owned] at *
  refine ⟨?_, ?_, ?_, ?_, ?_, ?_, ?_⟩ <;> simp only [Needed, Owned] <;> grind

theorem inv_drop {s : St} (hi : Inv s) (g : Nat) : Inv { s with old := s.old.filter (· ≠ g) } := by
  obtain ⟨h1, h2, h3, h4, h5, h6, h7⟩ := hi
  simp only [Needed, Owned] at *
  refine ⟨?_, ?_, ?_, ?_, ?_, ?_, ?_⟩ <;> simp only [Needed, Owned] <;> grind

theorem inv_setCl {s : St} (hi : Inv s) (i : Nat) (c : Cleaner)
    (hlt : ∀ f, f ∈ c.dlist → f < s.nextFile)
    (hp : c.phase = .pended → ∀ f, f ∈ c.dlist → Owned s f → f ∈ c.live)
    (ht : c.phase = .actived → ∀ f, f ∈ c.todo → f ∈ c.dlist ∧ ¬ Needed s f) :
    Inv (setCl s i c) := by
  obtain ⟨h1, h2, h3, h4, h5, h6, h7⟩ := hi
  constructor
  · exact h1
  · exact h2
  · exact h3
  · exact h4
  · intro j f; simp only [setCl]; split
    · exact hlt f
    · exact h5 j f
  · intro j; simp only [setCl]; split
    · exact hp
    · exact h6 j
  · intro j; simp only [setCl]; split
    · exact ht
    · exact h7 j

theorem inv_del {s : St} (hi : Inv s) (g : Nat) (hg : ¬ Needed s g) :
    Inv { s with disk := s.disk.filter (· ≠ g) } := by
  obtain ⟨h1, h2, h3, h4, h5, h6, h7⟩ := hi
  simp only [Needed, Owned] at *
  refine ⟨?_, ?_, ?_, ?_, ?_, ?_, ?_⟩ <;> simp only [Needed, Owned] <;> grind

theorem inv_step {cfg : Cfg} (hc : cfg.earlyRelease = false) {s s' : St} {a : Act}
    (hi : Inv s) (h : step cfg s a = some s') : Inv s' := by
  cases a with
  | start ins =>
    simp only [step] at h; split at h
    · cases h; exact inv_start hi ins
    · cases h
  | «open» =>
    simp only [step] at h; split at h
    · rename_i hh; cases h; exact inv_open hi hh.1 hh.2
    · cases h
  | finish =>
    simp only [step, hc] at h; split at h
    · rename_i hw
      split at h
      · rename_i n hb; cases h; simpa using inv_finish hi hw n hb
      · cases h
    · cases h
  | finishEmpty =>
    simp only [step] at h; split at h
    · cases h; exact inv_finishEmpty hi
    · cases h
  | install =>
    simp only [step] at h; split at h
    · rename_i hh; cases h; exact inv_install hi hh.1 hh.2
    · cases h
  | fail =>
    simp only [step] at h; split at h
    · cases h; exact inv_fail hi
    · cases h
  | cleanup =>
    simp only [step] at h; split at h
    · rename_i hw; cases h; exact inv_cleanup hi hw _
    · cases h
  | drop g =>
    simp only [step] at h; split at h
    · cases h
    · cases h; exact inv_drop hi g
  | cList i =>
    simp only [step] at h; split at h
    · cases h
      exact inv_setCl hi i _ (fun f hf => hi.disk_lt f hf) (by simp) (by simp)
    · cases h
  | cPend i =>
    simp only [step] at h; split at h
    · cases h
      exact inv_setCl hi i _ (fun f hf => hi.cl_lt i f hf) (fun _ f _ ho => hi.owned_pending f ho) (by simp)
    · cases h
  | cActive i =>
    simp only [step] at h; split at h
    · rename_i hp; cases h
      refine inv_setCl hi i _ (fun f hf => hi.cl_lt i f hf) (by simp) ?_
      intro _ f hf
      simp only [List.mem_filter, List.mem_append, decide_eq_true_eq, not_or] at hf
      refine ⟨hf.1, ?_⟩
      intro hn
      rcases hn with h | h | h
      · exact hf.2.1.2 h
      · exact hf.2.2 h
      · exact hf.2.1.1 (hi.cl_pended i hp f hf.1 h)
    · cases h
  | cDel i =>
    simp only [step] at h; split at h
    · rename_i hp
      split at h
      · rename_i g rest ht
        cases h
        have hg := hi.cl_todo i hp g (by simp [ht])
        have hi' := inv_del hi g hg.2
        refine inv_setCl hi' i _ (fun f hf => hi.cl_lt i f hf) (by simp) ?_
        intro _ f hf
        have := hi'.cl_todo i hp f (by simp [ht, hf])
        exact this
      · cases h
    · cases h
  | cDone i =>
    simp only [step] at h; split at h
    · cases h; exact inv_setCl hi i {} (by simp) (by simp) (by simp)
    · cases h

theorem inv_reachable {cfg : Cfg} (hc : cfg.earlyRelease = false) {tables : List Nat} {nf : Nat}
    (h0 : ∀ f, f ∈ tables → f < nf) {s : St} (h : Reachable cfg tables nf s) : Inv s := by
  induction h with
  | init => exact inv_init tables nf h0
  | step a _ hs ih => exact inv_step hc ih hs

end LinVerif.CompactOuts
