/-
C01 (round 10) — close waits for every started background job: inductive invariant over all interleavings.
-/
import LinVerif.Model.C01Close

namespace LinVerif.Model.C01Close

/-- the invariant of the protocol as the source has it (Add before the go statement, close waits) -/
structure Inv (s : St) : Prop where
  count  : s.counter = s.spawned + s.running
  closed : s.closed = true → s.closing = true ∧ s.counter = 0
  late   : s.late = 0
  neg    : s.neg = false

theorem inv_init : Inv ({} : St) := ⟨rfl, (by intro h; exact absurd h (by decide)), rfl, rfl⟩

theorem inv_step {s : St} (h : Inv s) (x : Step) : Inv (step ⟨true, true⟩ s x) := by
  obtain ⟨hc, hcl, hl, hn⟩ := h
  cases x
  case start =>
    unfold step
    by_cases hcg : s.closing = true
    · simp [hcg]; exact ⟨hc, hcl, hl, hn⟩
    · have hne : s.closed ≠ true := fun hh => hcg (hcl hh).1
      simp [hcg]
      exact ⟨by simp; omega, by intro hh; exact absurd hh hne, hl, hn⟩
  case first =>
    unfold step
    by_cases h0 : s.spawned = 0
    · simp [h0]; exact ⟨hc, hcl, hl, hn⟩
    · simp [h0]
      exact ⟨by simp; omega, hcl, hl, hn⟩
  case work =>
    unfold step
    by_cases h0 : s.running = 0
    · simp [h0]; exact ⟨hc, hcl, hl, hn⟩
    · simp [h0]
      refine ⟨hc, hcl, ?_, hn⟩
      by_cases hd : s.closed = true
      · have := (hcl hd).2; omega
      · simp [hd, hl]
  case finish =>
    unfold step
    by_cases h0 : s.running = 0
    · simp [h0]; exact ⟨hc, hcl, hl, hn⟩
    · have hpos : s.counter ≠ 0 := by omega
      simp [h0, hpos]
      refine ⟨by simp; omega, ?_, hl, hn⟩
      intro hd; have := (hcl hd).2; omega
  case closeCall =>
    unfold step
    exact ⟨hc, fun hd => ⟨rfl, (hcl hd).2⟩, hl, hn⟩
  case wait =>
    unfold step
    by_cases hw : (s.closing && !s.closed && (!true || s.counter == 0)) = true
    · simp only [hw, if_true]
      simp at hw
      exact ⟨hc, fun _ => ⟨hw.1.1, hw.2⟩, hl, hn⟩
    · simp only [hw]
      exact ⟨hc, hcl, hl, hn⟩

theorem inv_run {s : St} (h : Inv s) (steps : List Step) : Inv (run ⟨true, true⟩ s steps) := by
  induction steps generalizing s with
  | nil => exact h
  | cons x xs ih => exact ih (inv_step h x)

end LinVerif.Model.C01Close
