/-
C10 helper lemmas, part 3: the write path (GenSeriesID / buildInvertIndex) establishes and keeps the
well-formedness invariant.
-/
import LinVerif.Lemmas.C10Filter

set_option linter.unusedSimpArgs false
set_option linter.unusedVariables false

namespace LinVerif.TagFilter
open LinVerif

/-- freshness of the three id sequences -/
structure Fresh (st : State) : Prop where
  schemaLt : ∀ mk kid, (mk, kid) ∈ st.schema → kid < st.keySeq
  dictLt : ∀ kid v id, (kid, v, id) ∈ st.dict.all → id < st.valSeq
  writtenLt : ∀ m s t, (m, s, t) ∈ st.written → s < nextSeriesId st m

/-- the invariant of the write path -/
structure Good (st : State) : Prop where
  wf : WF st
  fresh : Fresh st

theorem good_init : Good State.init := by
  constructor
  · constructor <;> simp [State.init, Dict.all, Inv.all, Fwd.all, DictFun, optList, Dict.files, Inv.files, Fwd.files]
  · constructor <;> simp [State.init, Dict.all, optList, Dict.files]

/-! ### `genTagKeyID` -/

theorem genTagKeyID_spec {st : State} (h : Good st) (m : Metric) (k : Bytes) :
    let r := genTagKeyID st m k
    Good r.1 ∧ ((m, k), r.2) ∈ r.1.schema ∧ r.1.dict = st.dict ∧ r.1.inv = st.inv ∧ r.1.fwd = st.fwd ∧
      r.1.written = st.written ∧ r.1.series = st.series := by
  unfold genTagKeyID
  cases hl : Map.lookup st.schema (m, k) with
  | some kid => exact ⟨h, lookup_some_mem hl, rfl, rfl, rfl, rfl, rfl⟩
  | none =>
    have hnew := lookup_none_not_mem hl
    have hmem : ∀ e, e ∈ st.schema ++ [((m, k), st.keySeq)] ↔ e ∈ st.schema ∨ e = ((m, k), st.keySeq) := by
      intro e; simp
    refine ⟨⟨?_, ?_⟩, by simp, rfl, rfl, rfl, rfl, rfl⟩
    · constructor
      · -- schemaFun
        intro mk kid kid' h1 h2
        rcases (hmem _).mp h1 with h1 | h1 <;> rcases (hmem _).mp h2 with h2 | h2
        · exact h.wf.schemaFun mk kid kid' h1 h2
        · cases h2; exact absurd h1 (hnew kid)
        · cases h1; exact absurd h2 (hnew kid')
        · cases h1; cases h2; rfl
      · -- schemaInj
        intro mk mk' kid h1 h2
        rcases (hmem _).mp h1 with h1 | h1 <;> rcases (hmem _).mp h2 with h2 | h2
        · exact h.wf.schemaInj mk mk' kid h1 h2
        · cases h2; exact absurd (h.fresh.schemaLt _ _ h1) (Nat.lt_irrefl _)
        · cases h1; exact absurd (h.fresh.schemaLt _ _ h2) (Nat.lt_irrefl _)
        · cases h1; cases h2; rfl
      · exact h.wf.dictFun
      · exact h.wf.dictInj
      · exact h.wf.writtenFun
      · exact h.wf.writtenNodup
      · intro id s hi
        obtain ⟨m', t, k', v, kid, a, b, c, d⟩ := h.wf.invSound id s hi
        exact ⟨m', t, k', v, kid, a, b, (hmem _).mpr (Or.inl c), d⟩
      · intro kid s id hi
        obtain ⟨m', t, k', v, a, b, c, d⟩ := h.wf.fwdSound kid s id hi
        exact ⟨m', t, k', v, a, b, (hmem _).mpr (Or.inl c), d⟩
      · intro m' s t k' v hw hkv
        obtain ⟨kid, id, a, b, c, d⟩ := h.wf.complete m' s t k' v hw hkv
        exact ⟨kid, id, (hmem _).mpr (Or.inl a), b, c, d⟩
    · constructor
      · intro mk kid h1
        rcases (hmem _).mp h1 with h1 | h1
        · exact Nat.lt_succ_of_lt (h.fresh.schemaLt _ _ h1)
        · cases h1; exact Nat.lt_succ_self _
      · exact h.fresh.dictLt
      · exact h.fresh.writtenLt

/-! ### `genTagValueID` -/

theorem mem_dict_all_push {d : Dict} {x e : KeyId × Bytes × ValId} :
    e ∈ ({ d with mtb := d.mtb ++ [x] } : Dict).all ↔ e ∈ d.all ∨ e = x := by
  simp only [mem_dict_all, Dict.files, List.mem_append, List.mem_singleton]
  constructor
  · rintro ((h | h) | h | h)
    · exact Or.inl (Or.inl h)
    · exact Or.inr h
    · exact Or.inl (Or.inr (Or.inl h))
    · exact Or.inl (Or.inr (Or.inr h))
  · rintro ((h | h | h) | h)
    · exact Or.inl (Or.inl h)
    · exact Or.inr (Or.inl h)
    · exact Or.inr (Or.inr h)
    · exact Or.inl (Or.inr h)

theorem genTagValueID_spec {st : State} (h : Good st) (kid : KeyId) (v : Bytes) :
    let r := genTagValueID st kid v
    Good r.1 ∧ (kid, v, r.2) ∈ r.1.dict.all ∧ r.1.schema = st.schema ∧ r.1.inv = st.inv ∧ r.1.fwd = st.fwd ∧
      r.1.written = st.written ∧ r.1.series = st.series := by
  unfold genTagValueID
  cases hl : st.dict.findValue kid v with
  | some id => exact ⟨h, findValue_some hl, rfl, rfl, rfl, rfl, rfl⟩
  | none =>
    have hnew := findValue_none hl
    refine ⟨⟨?_, ?_⟩, mem_dict_all_push.mpr (Or.inr rfl), rfl, rfl, rfl, rfl, rfl⟩
    · constructor
      · exact h.wf.schemaFun
      · exact h.wf.schemaInj
      · intro kid1 v1 id id' h1 h2
        rcases mem_dict_all_push.mp h1 with h1 | h1 <;> rcases mem_dict_all_push.mp h2 with h2 | h2
        · exact h.wf.dictFun kid1 v1 id id' h1 h2
        · cases h2; exact absurd h1 (hnew id)
        · cases h1; exact absurd h2 (hnew id')
        · cases h1; cases h2; rfl
      · intro kid1 kid2 v1 v2 id h1 h2
        rcases mem_dict_all_push.mp h1 with h1 | h1 <;> rcases mem_dict_all_push.mp h2 with h2 | h2
        · exact h.wf.dictInj kid1 kid2 v1 v2 id h1 h2
        · cases h2; exact absurd (h.fresh.dictLt _ _ _ h1) (Nat.lt_irrefl _)
        · cases h1; exact absurd (h.fresh.dictLt _ _ _ h2) (Nat.lt_irrefl _)
        · cases h1; cases h2; exact ⟨rfl, rfl⟩
      · exact h.wf.writtenFun
      · exact h.wf.writtenNodup
      · intro id s hi
        obtain ⟨m', t, k', v', kid', a, b, c, d⟩ := h.wf.invSound id s hi
        exact ⟨m', t, k', v', kid', a, b, c, mem_dict_all_push.mpr (Or.inl d)⟩
      · intro kid' s id hi
        obtain ⟨m', t, k', v', a, b, c, d⟩ := h.wf.fwdSound kid' s id hi
        exact ⟨m', t, k', v', a, b, c, mem_dict_all_push.mpr (Or.inl d)⟩
      · intro m' s t k' v' hw hkv
        obtain ⟨kid', id, a, b, c, d⟩ := h.wf.complete m' s t k' v' hw hkv
        exact ⟨kid', id, a, mem_dict_all_push.mpr (Or.inl b), c, d⟩
    · constructor
      · exact h.fresh.schemaLt
      · intro kid' v' id h1
        rcases mem_dict_all_push.mp h1 with h1 | h1
        · exact Nat.lt_succ_of_lt (h.fresh.dictLt _ _ _ h1)
        · cases h1; exact Nat.lt_succ_self _
      · exact h.fresh.writtenLt

/-! ### the index update of one tag -/

/-- the last part of `addTag`: postings, forward entry, ghost -/
def indexTag (st : State) (m : Metric) (sid : SeriesId) (kv : Bytes × Bytes) (kid : KeyId) (id : ValId) : State :=
  { st with
    inv := { st.inv with mtb := st.inv.mtb ++ [(id, sid)] }
    fwd := { st.fwd with
             mtb := if st.fwd.mtb.any (fun e => e.1 == kid && e.2.1 == sid) then st.fwd.mtb
                    else st.fwd.mtb ++ [(kid, sid, id)] }
    written := addWritten st.written m sid kv }

theorem addTag_eq (st : State) (m : Metric) (sid : SeriesId) (kv : Bytes × Bytes) :
    addTag st m sid kv =
      indexTag (genTagValueID (genTagKeyID st m kv.1).1 (genTagKeyID st m kv.1).2 kv.2).1 m sid kv
        (genTagKeyID st m kv.1).2 (genTagValueID (genTagKeyID st m kv.1).1 (genTagKeyID st m kv.1).2 kv.2).2 := by
  rfl

theorem mem_addWritten {w : List (Metric × SeriesId × Tags)} {m : Metric} {sid : SeriesId} {kv : Bytes × Bytes}
    {e : Metric × SeriesId × Tags} :
    e ∈ addWritten w m sid kv ↔
      (e ∈ w ∧ ¬(e.1 = m ∧ e.2.1 = sid)) ∨ (e.1 = m ∧ e.2.1 = sid ∧ ∃ t0, (m, sid, t0) ∈ w ∧ e.2.2 = t0 ++ [kv]) := by
  unfold addWritten
  simp only [List.mem_map]
  constructor
  · rintro ⟨x, hx, rfl⟩
    obtain ⟨a, b, c⟩ := x
    by_cases hc : a = m ∧ b = sid
    · obtain ⟨h1, h2⟩ := hc
      subst h1; subst h2
      right
      rw [if_pos ⟨rfl, rfl⟩]
      exact ⟨rfl, rfl, c, hx, rfl⟩
    · left
      rw [if_neg (by simpa using hc)]
      exact ⟨hx, by simpa using hc⟩
  · rintro (⟨he, hc⟩ | ⟨h1, h2, t0, ht0, h3⟩)
    · exact ⟨e, he, by simp [hc]⟩
    · refine ⟨(m, sid, t0), ht0, ?_⟩
      obtain ⟨a, b, c⟩ := e
      simp at h1 h2 h3
      subst h1; subst h2; subst h3
      simp

theorem mem_inv_all_push {d : Inv} {x e : ValId × SeriesId} :
    e ∈ ({ d with mtb := d.mtb ++ [x] } : Inv).all ↔ e ∈ d.all ∨ e = x := by
  simp only [mem_inv_all, Inv.files, List.mem_append, List.mem_singleton]
  constructor
  · rintro ((h | h) | h | h)
    · exact Or.inl (Or.inl h)
    · exact Or.inr h
    · exact Or.inl (Or.inr (Or.inl h))
    · exact Or.inl (Or.inr (Or.inr h))
  · rintro ((h | h | h) | h)
    · exact Or.inl (Or.inl h)
    · exact Or.inr (Or.inl h)
    · exact Or.inr (Or.inr h)
    · exact Or.inl (Or.inr h)

theorem mem_fwd_all_push {d : Fwd} {x e : KeyId × SeriesId × ValId} :
    e ∈ ({ d with mtb := d.mtb ++ [x] } : Fwd).all ↔ e ∈ d.all ∨ e = x := by
  simp only [mem_fwd_all, Fwd.files, List.mem_append, List.mem_singleton]
  constructor
  · rintro ((h | h) | h | h)
    · exact Or.inl (Or.inl h)
    · exact Or.inr h
    · exact Or.inl (Or.inr (Or.inl h))
    · exact Or.inl (Or.inr (Or.inr h))
  · rintro ((h | h | h) | h)
    · exact Or.inl (Or.inl h)
    · exact Or.inr (Or.inl h)
    · exact Or.inr (Or.inr h)
    · exact Or.inl (Or.inr h)

theorem indexTag_spec {st : State} (h : Good st) {m : Metric} {sid : SeriesId} {k v : Bytes} {kid : KeyId} {id : ValId}
    {done : Tags} (hk : ((m, k), kid) ∈ st.schema) (hd : (kid, v, id) ∈ st.dict.all)
    (hw : (m, sid, done) ∈ st.written) (hnew : k ∉ done.map Prod.fst) :
    Good (indexTag st m sid (k, v) kid id) ∧ (m, sid, done ++ [(k, v)]) ∈ (indexTag st m sid (k, v) kid id).written ∧
      (indexTag st m sid (k, v) kid id).series = st.series := by
  -- the forward entry of (key, series) does not exist yet
  have hany : st.fwd.mtb.any (fun e => e.1 == kid && e.2.1 == sid) = false := by
    cases hb : st.fwd.mtb.any (fun e => e.1 == kid && e.2.1 == sid) with
    | false => rfl
    | true =>
      exfalso
      simp only [List.any_eq_true, Bool.and_eq_true, beq_iff_eq] at hb
      obtain ⟨⟨a, b, c⟩, hm, h1, h2⟩ := hb
      simp at h1 h2; subst h1; subst h2
      obtain ⟨m', t, k', v', hw', hkv, hsch, _⟩ := h.wf.fwdSound a b c (mem_fwd_all.mpr (Or.inl hm))
      have := h.wf.schemaInj _ _ _ hk hsch
      cases this
      have := h.wf.writtenFun _ _ _ _ hw hw'
      subst this
      exact hnew (List.mem_map.mpr ⟨(k, v'), hkv, rfl⟩)
  have hst : indexTag st m sid (k, v) kid id =
      { st with inv := { st.inv with mtb := st.inv.mtb ++ [(id, sid)] }
                fwd := { st.fwd with mtb := st.fwd.mtb ++ [(kid, sid, id)] }
                written := addWritten st.written m sid (k, v) } := by
    simp [indexTag, hany]
  rw [hst]
  have hwnew : (m, sid, done ++ [(k, v)]) ∈ addWritten st.written m sid (k, v) :=
    mem_addWritten.mpr (Or.inr ⟨rfl, rfl, done, hw, rfl⟩)
  -- a witness series of the old state is a witness of the new one
  have hgrow : ∀ m' s t, (m', s, t) ∈ st.written →
      ∃ t', (m', s, t') ∈ addWritten st.written m sid (k, v) ∧ ∀ x, x ∈ t → x ∈ t' := by
    intro m' s t hw'
    by_cases hc : m' = m ∧ s = sid
    · obtain ⟨h1, h2⟩ := hc
      subst h1; subst h2
      have := h.wf.writtenFun _ _ _ _ hw hw'
      subst this
      exact ⟨done ++ [(k, v)], hwnew, fun x hx => List.mem_append_left _ hx⟩
    · exact ⟨t, mem_addWritten.mpr (Or.inl ⟨hw', by simpa using hc⟩), fun x hx => hx⟩
  refine ⟨⟨?_, ?_⟩, hwnew, rfl⟩
  · constructor
    · exact h.wf.schemaFun
    · exact h.wf.schemaInj
    · exact h.wf.dictFun
    · exact h.wf.dictInj
    · -- writtenFun
      intro m' s t t' h1 h2
      rcases mem_addWritten.mp h1 with ⟨h1, c1⟩ | ⟨a1, b1, t1, ht1, e1⟩ <;>
        rcases mem_addWritten.mp h2 with ⟨h2, c2⟩ | ⟨a2, b2, t2, ht2, e2⟩
      · exact h.wf.writtenFun m' s t t' h1 h2
      · exact absurd ⟨a2, b2⟩ c1
      · exact absurd ⟨a1, b1⟩ c2
      · simp at e1 e2
        rw [e1, e2, h.wf.writtenFun _ _ _ _ ht1 ht2]
    · -- writtenNodup
      intro m' s t h1
      rcases mem_addWritten.mp h1 with ⟨h1, _⟩ | ⟨a1, b1, t1, ht1, e1⟩
      · exact h.wf.writtenNodup m' s t h1
      · simp at e1
        have := h.wf.writtenFun _ _ _ _ hw ht1
        subst this
        subst e1
        rw [List.map_append, List.nodup_append]
        refine ⟨h.wf.writtenNodup _ _ _ hw, by simp, ?_⟩
        intro a ha b hb
        simp at hb
        subst hb
        intro hab
        subst hab
        exact hnew ha
    · -- invSound
      intro id' s hi
      rcases mem_inv_all_push.mp hi with hi | hi
      · obtain ⟨m', t, k', v', kid', a, b, c, d⟩ := h.wf.invSound id' s hi
        obtain ⟨t', ht', hsub⟩ := hgrow m' s t a
        exact ⟨m', t', k', v', kid', ht', hsub _ b, c, d⟩
      · cases hi
        exact ⟨m, done ++ [(k, v)], k, v, kid, hwnew, by simp, hk, hd⟩
    · -- fwdSound
      intro kid' s id' hi
      rcases mem_fwd_all_push.mp hi with hi | hi
      · obtain ⟨m', t, k', v', a, b, c, d⟩ := h.wf.fwdSound kid' s id' hi
        obtain ⟨t', ht', hsub⟩ := hgrow m' s t a
        exact ⟨m', t', k', v', ht', hsub _ b, c, d⟩
      · cases hi
        exact ⟨m, done ++ [(k, v)], k, v, hwnew, by simp, hk, hd⟩
    · -- complete
      intro m' s t k' v' h1 hkv
      rcases mem_addWritten.mp h1 with ⟨h1, _⟩ | ⟨a1, b1, t1, ht1, e1⟩
      · obtain ⟨kid', id', a, b, c, d⟩ := h.wf.complete m' s t k' v' h1 hkv
        exact ⟨kid', id', a, b, mem_inv_all_push.mpr (Or.inl c), mem_fwd_all_push.mpr (Or.inl d)⟩
      · simp at a1 b1 e1
        subst a1; subst b1
        have := h.wf.writtenFun _ _ _ _ hw ht1
        subst this
        subst e1
        rcases List.mem_append.mp hkv with hkv | hkv
        · obtain ⟨kid', id', a, b, c, d⟩ := h.wf.complete _ _ _ k' v' hw hkv
          exact ⟨kid', id', a, b, mem_inv_all_push.mpr (Or.inl c), mem_fwd_all_push.mpr (Or.inl d)⟩
        · simp at hkv
          obtain ⟨e1, e2⟩ := hkv
          subst e1; subst e2
          exact ⟨kid, id, hk, hd, mem_inv_all_push.mpr (Or.inr rfl), mem_fwd_all_push.mpr (Or.inr rfl)⟩
  · constructor
    · exact h.fresh.schemaLt
    · exact h.fresh.dictLt
    · intro m' s t h1
      rcases mem_addWritten.mp h1 with ⟨h1, _⟩ | ⟨a1, b1, t1, ht1, _⟩
      · exact h.fresh.writtenLt m' s t h1
      · simp at a1 b1
        subst a1; subst b1
        exact h.fresh.writtenLt _ _ _ ht1

/-- one iteration of `buildInvertIndex` keeps the invariant and records the tag -/
theorem addTag_spec {st : State} (h : Good st) {m : Metric} {sid : SeriesId} {kv : Bytes × Bytes} {done : Tags}
    (hw : (m, sid, done) ∈ st.written) (hnew : kv.1 ∉ done.map Prod.fst) :
    Good (addTag st m sid kv) ∧ (m, sid, done ++ [kv]) ∈ (addTag st m sid kv).written ∧
      (addTag st m sid kv).series = st.series := by
  rw [addTag_eq]
  obtain ⟨h1, hk, d1, i1, f1, w1, s1⟩ := genTagKeyID_spec h m kv.1
  obtain ⟨h2, hd, sc2, i2, f2, w2, s2⟩ := genTagValueID_spec h1 (genTagKeyID st m kv.1).2 kv.2
  have hk2 : ((m, kv.1), (genTagKeyID st m kv.1).2) ∈
      (genTagValueID (genTagKeyID st m kv.1).1 (genTagKeyID st m kv.1).2 kv.2).1.schema := by
    rw [sc2]; exact hk
  have hw2 : (m, sid, done) ∈ (genTagValueID (genTagKeyID st m kv.1).1 (genTagKeyID st m kv.1).2 kv.2).1.written := by
    rw [w2, w1]; exact hw
  obtain ⟨a, b, c⟩ := indexTag_spec (k := kv.1) (v := kv.2) h2 hk2 hd hw2 hnew
  exact ⟨a, b, by rw [c, s2, s1]⟩

theorem foldl_addTag_spec {m : Metric} {sid : SeriesId} (tags : Tags) {st : State} (h : Good st) {done : Tags}
    (hw : (m, sid, done) ∈ st.written) (hnd : ((done ++ tags).map Prod.fst).Nodup) :
    Good (tags.foldl (fun s kv => addTag s m sid kv) st) ∧
      (m, sid, done ++ tags) ∈ (tags.foldl (fun s kv => addTag s m sid kv) st).written ∧
      (tags.foldl (fun s kv => addTag s m sid kv) st).series = st.series := by
  induction tags generalizing st done with
  | nil => simpa using ⟨h, hw⟩
  | cons kv t ih =>
    have hnew : kv.1 ∉ done.map Prod.fst := by
      rw [List.map_append, List.nodup_append] at hnd
      intro hin
      exact hnd.2.2 _ hin kv.1 (by simp) rfl
    obtain ⟨h1, hw1, s1⟩ := addTag_spec h hw hnew
    have hnd' : (((done ++ [kv]) ++ t).map Prod.fst).Nodup := by simpa using hnd
    obtain ⟨h2, hw2, s2⟩ := ih h1 hw1 hnd'
    simp only [List.foldl_cons]
    exact ⟨h2, by simpa using hw2, by rw [s2, s1]⟩

theorem nextSeriesId_push_same (st : State) (m : Metric) (tags : Tags) (sid : SeriesId) (w : List (Metric × SeriesId × Tags)) :
    nextSeriesId { st with series := st.series ++ [((m, tags), sid)], written := w } m = nextSeriesId st m + 1 := by
  simp [nextSeriesId, List.filter_append]

theorem nextSeriesId_push_le (st : State) (m m' : Metric) (tags : Tags) (sid : SeriesId) (w : List (Metric × SeriesId × Tags)) :
    nextSeriesId st m' ≤ nextSeriesId { st with series := st.series ++ [((m, tags), sid)], written := w } m' := by
  simp [nextSeriesId, List.filter_append]

/-- `GenSeriesID` keeps the invariant; a new series ends up recorded with exactly its tags -/
theorem write_spec {st : State} (h : Good st) (m : Metric) (tags : Tags) (hnd : (tags.map Prod.fst).Nodup) :
    Good (write st m tags).1 ∧
      ((write st m tags).2.2 = true → (m, (write st m tags).2.1, tags) ∈ (write st m tags).1.written) := by
  unfold write
  cases hl : Map.lookup st.series (m, tags) with
  | some sid => simpa using h
  | none =>
    simp only
    have hinv1 : Good { st with series := st.series ++ [((m, tags), nextSeriesId st m)], written := st.written ++ [(m, nextSeriesId st m, [])] } := by
      constructor
      · constructor
        · exact h.wf.schemaFun
        · exact h.wf.schemaInj
        · exact h.wf.dictFun
        · exact h.wf.dictInj
        · intro m' s t t' h1 h2
          simp only [List.mem_append, List.mem_singleton] at h1 h2
          rcases h1 with h1 | h1 <;> rcases h2 with h2 | h2
          · exact h.wf.writtenFun m' s t t' h1 h2
          · cases h2; exact absurd (h.fresh.writtenLt _ _ _ h1) (Nat.lt_irrefl _)
          · cases h1; exact absurd (h.fresh.writtenLt _ _ _ h2) (Nat.lt_irrefl _)
          · cases h1; cases h2; rfl
        · intro m' s t h1
          simp only [List.mem_append, List.mem_singleton] at h1
          rcases h1 with h1 | h1
          · exact h.wf.writtenNodup m' s t h1
          · cases h1; simp
        · intro id s hi
          obtain ⟨m', t, k', v, kid, a, b, c, d⟩ := h.wf.invSound id s hi
          exact ⟨m', t, k', v, kid, List.mem_append_left _ a, b, c, d⟩
        · intro kid s id hi
          obtain ⟨m', t, k', v, a, b, c, d⟩ := h.wf.fwdSound kid s id hi
          exact ⟨m', t, k', v, List.mem_append_left _ a, b, c, d⟩
        · intro m' s t k' v h1 hkv
          simp only [List.mem_append, List.mem_singleton] at h1
          rcases h1 with h1 | h1
          · exact h.wf.complete m' s t k' v h1 hkv
          · cases h1; cases hkv
      · constructor
        · exact h.fresh.schemaLt
        · exact h.fresh.dictLt
        · intro m' s t h1
          simp only [List.mem_append, List.mem_singleton] at h1
          rcases h1 with h1 | h1
          · exact Nat.lt_of_lt_of_le (h.fresh.writtenLt _ _ _ h1) (nextSeriesId_push_le st m m' tags _ _)
          · cases h1
            rw [nextSeriesId_push_same]
            exact Nat.lt_succ_self _
    have hw1 : (m, nextSeriesId st m, ([] : Tags)) ∈
        ({ st with series := st.series ++ [((m, tags), nextSeriesId st m)], written := st.written ++ [(m, nextSeriesId st m, [])] } : State).written := by simp
    obtain ⟨h2, hw2, _⟩ := foldl_addTag_spec tags hinv1 hw1 (by simpa using hnd)
    exact ⟨h2, fun _ => by simpa using hw2⟩

end LinVerif.TagFilter
