/-
C20 helper lemmas: `Iterator.Seek(k)` of the stack machine over the LOUDS vectors simulates the
tree-level `seekNode`: the label search, `SearchGreaterThan`'s binary search, the
`moveToRightMostKey` fallback and the conditional `Next`.
-/
import LinVerif.Lemmas.C20SeekIdx

set_option linter.unusedSimpArgs false
set_option linter.unusedVariables false

namespace LinVerif.Lemmas.C20
open LinVerif.TrieTree LinVerif.Louds LinVerif.LoudsIter

/-! ### a node below a stack of frames, and the frame of its i-th item -/

/-- node `c` (level-order index `n`) is the root (no frames) or the child named by the top frame;
`path` = the key bytes above the node's own prefix -/
def NodeAt (t : Node) (c : Node) (n : Nat) (path : Key) (below : List Frame) : Prop :=
  (bfs t)[n]? = some c ∧ Chain t below ∧
    (match below with
     | [] => n = 0 ∧ c = t ∧ path = []
     | p :: _ => ∃ l, p.cur = .child l c ∧ path = p.kb ++ [l] ∧ n = childNodeID (encode t) (p.pos t))

def frameAt (c : Node) (n : Nat) (path : Key) (i : Nat) (it : Item) : Frame :=
  { node := c, n := n, kb := path ++ c.pfx, before := (items c.entries).take i, cur := it,
    after := dropE (i + 1) c.entries }

theorem list_split_at {α} (l : List α) (i : Nat) (x : α) (h : l[i]? = some x) :
    l = l.take i ++ x :: l.drop (i + 1) := by
  obtain ⟨hlt, hx⟩ := List.getElem?_eq_some_iff.1 h
  rw [← hx, List.getElem_cons_drop hlt, List.take_append_drop]

theorem frameAt_chain {t c : Node} {n : Nat} {path : Key} {below : List Frame} (h : NodeAt t c n path below)
    {i : Nat} {it : Item} (hi : (items c.entries)[i]? = some it) : Chain t (frameAt c n path i it :: below) := by
  obtain ⟨hb, hc, hl⟩ := h
  have hok : FrameOK t (frameAt c n path i it) := by
    refine ⟨hb, ?_⟩
    simp only [frameAt, items_dropE]
    exact list_split_at _ i it hi
  cases below with
  | nil =>
    obtain ⟨h1, h2, h3⟩ := hl
    exact ⟨hok, h1, h2, by simp [frameAt, h3]⟩
  | cons p b =>
    obtain ⟨l, h1, h2, h3⟩ := hl
    exact ⟨hok, ⟨l, h1, by simp [frameAt, h2]⟩, h3, hc⟩

theorem frameAt_pos {t c : Node} {n : Nat} {path : Key} {i : Nat} {it : Item}
    (hi : (items c.entries)[i]? = some it) : (frameAt c n path i it).pos t = offset t n + i := by
  have := (List.getElem?_eq_some_iff.1 hi).1
  simp [Frame.pos, frameAt]; omega

theorem NodeAt.wf {t c : Node} {n : Nat} {path : Key} {below : List Frame} (hwf : WFNode t)
    (h : NodeAt t c n path below) : WFNode c := bfs_wf hwf c (List.mem_of_getElem? h.1)

/-- the first frame of a child node hangs below the frame naming it -/
theorem NodeAt.child {t : Node} {fr : Frame} {below : List Frame} (hc : Chain t (fr :: below)) {l : Nat} {c : Node}
    (hcur : fr.cur = .child l c) :
    NodeAt t c (childNodeID (encode t) (fr.pos t)) (fr.kb ++ [l]) (fr :: below) := by
  have hok := hc.frameOK fr (List.mem_cons_self ..)
  have hitem := frame_item hok
  rw [hcur] at hitem
  exact ⟨childNodeID_eq_bfs_index _ l c hitem, hc, l, hcur, rfl, rfl⟩

/-! ### label search inside a node -/

theorem indexFrom_spec {F : List Item} {labels : List Nat} (hlab : labels = F.map Item.label) (c : Nat) :
    ∀ (R A B : List Item), F = A ++ R ++ B →
      indexFrom labels c A.length R.length =
        (if firstIdx (fun it => it.label == c) R < R.length
         then some (A.length + firstIdx (fun it => it.label == c) R) else none)
  | [], A, B, _ => by simp [indexFrom, firstIdx]
  | it :: R', A, B, hF => by
    have hFA : F[A.length]? = some it := by rw [hF]; simp
    have hl : labels[A.length]? = some it.label := by rw [hlab, List.getElem?_map, hFA]; rfl
    simp only [List.length_cons, indexFrom, hl, firstIdx]
    by_cases h : (it.label == c) = true
    · simp [h]
    · simp only [h, Bool.false_eq_true, if_false]
      have := indexFrom_spec hlab c R' (A ++ [it]) B (by rw [hF]; simp)
      simp only [List.length_append, List.length_cons, List.length_nil] at this
      rw [this]
      by_cases hlt : firstIdx (fun it => it.label == c) R' < R'.length
      · simp [hlt]; omega
      · simp [hlt]

theorem entries_length_pos {es : Entries} (h : es.isNil = false) : 1 ≤ es.length := by
  cases es <;> simp [Entries.isNil, Entries.length] at *

theorem skipN_le_one (es : Entries) : skipN es ≤ 1 := by
  cases es <;> simp [skipN] <;> split <;> omega

theorem skipN_lt_length (es : Entries) (h : es.isNil = false) : skipN es < es.length := by
  cases es with
  | nil => simp [Entries.isNil] at h
  | leaf l s v r =>
    simp only [skipN, Entries.length]
    split
    · rename_i hc
      simp only [Bool.and_eq_true, Bool.not_eq_true'] at hc
      have := entries_length_pos hc.2
      omega
    · omega
  | child l n r =>
    simp only [skipN, Entries.length]
    split
    · rename_i hc
      simp only [Bool.and_eq_true, Bool.not_eq_true'] at hc
      have := entries_length_pos hc.2
      omega
    · omega

/-- the skip test of `Search` / `SearchGreaterThan` on the vectors is `skipN` -/
theorem skip_cond {t : Node} (hwf : WFNode t) {c : Node} {n : Nat} (hb : (bfs t)[n]? = some c) :
    (decide (nodeSize (encode t) (offset t n) > 1) && label (encode t) (offset t n) == labelTerminator)
      = decide (skipN c.entries = 1) := by
  have hcwf := bfs_wf hwf c (List.mem_of_getElem? hb)
  rw [nodeSize_eq hwf n c hb]
  obtain ⟨A, B, hF, hA⟩ := flatItems_split t n c hb
  cases hc : c with
  | mk pfx es =>
    rw [hc] at hF hcwf
    simp only [Node.entries] at hF ⊢
    cases es with
    | nil => simp [WFNode, WFRow] at hcwf
    | leaf l s v r =>
      have hfirst : (flatItems t)[offset t n]? = some (.leaf l s v) := by rw [hF, ← hA]; simp [items]
      have hl0 : label (encode t) (offset t n) = l := by
        unfold label; rw [encode_labels, List.getD_eq_getElem?_getD, List.getElem?_map, hfirst]; rfl
      rw [hl0]
      by_cases hh : l = labelTerminator <;> cases r <;> simp [skipN, Entries.length, Entries.isNil, hh]
    | child l cn r =>
      have hfirst : (flatItems t)[offset t n]? = some (.child l cn) := by rw [hF, ← hA]; simp [items]
      have hl0 : label (encode t) (offset t n) = l := by
        unfold label; rw [encode_labels, List.getD_eq_getElem?_getD, List.getElem?_map, hfirst]; rfl
      rw [hl0]
      by_cases hh : l = labelTerminator <;> cases r <;> simp [skipN, Entries.length, Entries.isNil, hh]

/-- `labelVector.Search(k, firstLabelPos, nodeSize)` finds the first item with the label after the
skipped terminator -/
theorem searchLabel_spec {t : Node} (hwf : WFNode t) {c : Node} {n : Nat} (hb : (bfs t)[n]? = some c) (k : Nat) :
    searchLabel (encode t).labels k (offset t n) (nodeSize (encode t) (offset t n)) =
      (let R := (items c.entries).drop (skipN c.entries)
       let j := firstIdx (fun it => it.label == k) R
       if j < R.length then some (offset t n + skipN c.entries + j) else none) := by
  have hcwf := bfs_wf hwf c (List.mem_of_getElem? hb)
  have hsk := skip_cond hwf hb
  unfold label at hsk
  unfold searchLabel
  simp only [hsk]
  rw [nodeSize_eq hwf n c hb]
  obtain ⟨A, B, hF, hA⟩ := flatItems_split t n c hb
  have hlab := encode_labels t
  have hs1 := skipN_le_one c.entries
  by_cases hs : skipN c.entries = 1
  · simp only [hs, decide_true, if_true]
    have hsplit : flatItems t = (A ++ (items c.entries).take 1) ++ (items c.entries).drop 1 ++ B := by
      rw [hF]
      conv => lhs; rw [← List.take_append_drop 1 (items c.entries)]
      simp only [List.append_assoc]
    have := indexFrom_spec hlab k ((items c.entries).drop 1) (A ++ (items c.entries).take 1) B hsplit
    have hlen : 1 ≤ (items c.entries).length := by
      rw [items_length]; exact wfNode_size_pos c hcwf
    simp only [List.length_append, List.length_take, hA, List.length_drop, items_length] at this ⊢
    have hmin : min 1 c.entries.length = 1 := by rw [items_length] at hlen; omega
    rw [hmin] at this
    rw [this]
  · have hs0 : skipN c.entries = 0 := by omega
    simp only [hs0, decide_false, Bool.false_eq_true, if_false, List.drop_zero, Nat.add_zero]
    have := indexFrom_spec hlab k (items c.entries) A B hF
    simp only [hA, items_length] at this ⊢
    rw [this]
    simp [items_length]

/-! ### `SearchGreaterThan`: binary search on an increasing row -/

theorem sortSearch_least (pred : Nat → Bool) : ∀ (fuel lo hi : Nat), hi - lo ≤ fuel → lo ≤ hi →
    (∀ i j, lo ≤ i → i ≤ j → j < hi → pred i = true → pred j = true) →
    lo ≤ sortSearch pred fuel lo hi ∧ sortSearch pred fuel lo hi ≤ hi ∧
      (∀ i, lo ≤ i → i < sortSearch pred fuel lo hi → pred i = false) ∧
      (sortSearch pred fuel lo hi < hi → pred (sortSearch pred fuel lo hi) = true)
  | 0, lo, hi, hf, hle, _ => by
    have : lo = hi := by omega
    subst this
    simp only [sortSearch]
    exact ⟨Nat.le_refl _, Nat.le_refl _, fun i h1 h2 => by omega, fun h => by omega⟩
  | fuel + 1, lo, hi, hf, hle, hmono => by
    rw [sortSearch]
    by_cases hlt : lo < hi
    · simp only [hlt, if_true]
      have hh1 : lo ≤ (lo + hi) / 2 := by omega
      have hh2 : (lo + hi) / 2 < hi := by omega
      by_cases hp : pred ((lo + hi) / 2) = true
      · simp only [hp, Bool.not_true, Bool.false_eq_true, if_false]
        obtain ⟨h1, h2, h3, h4⟩ := sortSearch_least pred fuel lo ((lo + hi) / 2) (by omega) hh1
          (fun i j a b c d => hmono i j a b (by omega) d)
        refine ⟨h1, by omega, h3, ?_⟩
        intro _
        by_cases he : sortSearch pred fuel lo ((lo + hi) / 2) < (lo + hi) / 2
        · exact h4 he
        · have : sortSearch pred fuel lo ((lo + hi) / 2) = (lo + hi) / 2 := by omega
          rw [this]; exact hp
      · have hpf : pred ((lo + hi) / 2) = false := by simpa using hp
        simp only [hpf, Bool.not_false, if_true]
        obtain ⟨h1, h2, h3, h4⟩ := sortSearch_least pred fuel ((lo + hi) / 2 + 1) hi (by omega) (by omega)
          (fun i j a b c d => hmono i j (by omega) b c d)
        refine ⟨by omega, h2, ?_, h4⟩
        intro i hi1 hi2
        by_cases hi3 : (lo + hi) / 2 + 1 ≤ i
        · exact h3 i hi3 hi2
        · cases hpi : pred i with
          | false => rfl
          | true =>
            have := hmono i ((lo + hi) / 2) hi1 (by omega) hh2 hpi
            rw [hpf] at this; cases this
    · have : lo = hi := by omega
      subst this
      have hs : (if lo < lo then
          (if (!pred ((lo + lo) / 2)) = true then sortSearch pred fuel ((lo + lo) / 2 + 1) lo
           else sortSearch pred fuel lo ((lo + lo) / 2)) else lo) = lo := by simp
      rw [hs]
      exact ⟨Nat.le_refl _, Nat.le_refl _, fun i h1 h2 => by omega, fun h => by omega⟩

theorem firstIdx_char (q : Item → Bool) (R : List Item) (r : Nat) (hr : r ≤ R.length)
    (hbefore : ∀ i it, i < r → R[i]? = some it → q it = false)
    (hat : ∀ it, R[r]? = some it → q it = true) : r = firstIdx q R := by
  have hle := firstIdx_le q R
  rcases Nat.lt_trichotomy r (firstIdx q R) with h | h | h
  · -- r is before the first hit, yet q holds at r
    have hlt : r < R.length := by omega
    have hx := List.getElem?_eq_getElem hlt
    have h1 := hat _ hx
    have h2 := firstIdx_before q R r h _ hx
    rw [h1] at h2; cases h2
  · exact h
  · have hlt : firstIdx q R < R.length := by omega
    obtain ⟨it, h1, h2⟩ := firstIdx_spec q R hlt
    have := hbefore _ it h h1
    rw [h2] at this; cases this

theorem allLabels_items (p : Nat → Prop) : ∀ (es : Entries), allLabels p es → ∀ it ∈ items es, p it.label
  | .nil, _, it, h => by simp [items] at h
  | .leaf l _ _ r, ⟨h1, h2⟩, it, h => by
    simp only [items, List.mem_cons] at h
    rcases h with rfl | h
    · exact h1
    · exact allLabels_items p r h2 it h
  | .child l _ r, ⟨h1, h2⟩, it, h => by
    simp only [items, List.mem_cons] at h
    rcases h with rfl | h
    · exact h1
    · exact allLabels_items p r h2 it h

theorem wfEntries_sorted : ∀ (es : Entries), WFEntries es → ((items es).map Item.label).Pairwise (· < ·)
  | .nil, _ => by simp [items]
  | .leaf l s v r, h => by
    unfold WFEntries at h
    simp only [items, List.map_cons, List.pairwise_cons, List.mem_map]
    refine ⟨?_, wfEntries_sorted r h.2.2⟩
    rintro x ⟨it, hit, rfl⟩
    exact allLabels_items _ r h.2.1 it hit
  | .child l n r, h => by
    unfold WFEntries at h
    simp only [items, List.map_cons, List.pairwise_cons, List.mem_map]
    refine ⟨?_, wfEntries_sorted r h.2.2.2.2⟩
    rintro x ⟨it, hit, rfl⟩
    exact allLabels_items _ r h.2.1 it hit

/-- the part of a well-formed node's row that is searched: real entries, increasing labels -/
theorem sub_row {c : Node} (h : WFNode c) :
    WFEntries (dropE (skipN c.entries) c.entries) ∧ (dropE (skipN c.entries) c.entries).isNil = false := by
  cases c with
  | mk pfx es =>
    unfold WFNode at h
    simp only [Node.entries]
    cases es with
    | nil => simp [WFRow] at h
    | leaf l s v r =>
      unfold WFRow at h
      rcases h with ⟨hl, _, hnil, hr⟩ | ⟨hle, habove, hr⟩
      · simp [skipN, hl, hnil, labelTerminator, dropE, hr]
      · have hwfe : WFEntries (.leaf l s v r) := by unfold WFEntries; exact ⟨hle, habove, hr⟩
        have hs : skipN (.leaf l s v r) = 0 := by
          simp only [skipN]
          by_cases h1 : l = 255
          · have := WFEntries.ff_last hr habove h1
            simp [this]
          · simp [labelTerminator, h1]
        simp [hs, dropE, hwfe, Entries.isNil]
    | child l n r =>
      unfold WFRow at h
      have hwfe : WFEntries (.child l n r) := by unfold WFEntries; exact h
      have hs : skipN (.child l n r) = 0 := by
        simp only [skipN]
        by_cases h1 : l = 255
        · have := WFEntries.ff_last h.2.2.2.2 h.2.1 h1
          simp [this]
        · simp [labelTerminator, h1]
      simp [hs, dropE, hwfe, Entries.isNil]

theorem label_at {t : Node} {c : Node} {n : Nat} (hb : (bfs t)[n]? = some c) (i : Nat) (it : Item)
    (hi : (items c.entries)[i]? = some it) : label (encode t) (offset t n + i) = it.label := by
  obtain ⟨A, B, hF, hA⟩ := flatItems_split t n c hb
  unfold label
  rw [encode_labels, List.getD_eq_getElem?_getD, List.getElem?_map, hF, ← hA]
  have hlt := (List.getElem?_eq_some_iff.1 hi).1
  rw [List.append_assoc, List.getElem?_append_right (by omega)]
  simp only [Nat.add_sub_cancel_left]
  rw [List.getElem?_append_left hlt, hi]; rfl

/-- `labelVector.SearchGreaterThan(k, firstLabelPos, nodeSize)` -/
theorem searchGreaterThan_spec {t : Node} (hwf : WFNode t) {c : Node} {n : Nat} (hb : (bfs t)[n]? = some c) (k : Nat) :
    searchGreaterThan (encode t) k (offset t n) (nodeSize (encode t) (offset t n)) =
      (let R := (items c.entries).drop (skipN c.entries)
       let j := firstIdx (fun it => decide (k < it.label)) R
       if j < R.length then (offset t n + skipN c.entries + j, true)
       else (offset t n + c.entries.length - 1, false)) := by
  have hcwf := bfs_wf hwf c (List.mem_of_getElem? hb)
  have hsk := skip_cond hwf hb
  obtain ⟨hsubwf, hsubnil⟩ := sub_row hcwf
  have hsorted := wfEntries_sorted _ hsubwf
  rw [items_dropE] at hsorted
  have hslt := skipN_lt_length c.entries (by
    cases hc : c.entries with
    | nil => rw [hc] at hsubnil; simp [skipN, dropE, Entries.isNil] at hsubnil
    | leaf _ _ _ _ => rfl
    | child _ _ _ => rfl)
  have hs1 := skipN_le_one c.entries
  unfold searchGreaterThan
  simp only [hsk]
  rw [nodeSize_eq hwf n c hb]
  -- position and size after the skip
  have hadj : (if decide (skipN c.entries = 1) = true then (offset t n + 1, c.entries.length - 1)
      else (offset t n, c.entries.length)) = (offset t n + skipN c.entries, c.entries.length - skipN c.entries) := by
    by_cases hs : skipN c.entries = 1
    · simp [hs]
    · have : skipN c.entries = 0 := by omega
      simp [this]
  rw [hadj]
  simp only []
  generalize hR : (items c.entries).drop (skipN c.entries) = R at *
  have hRlen : R.length = c.entries.length - skipN c.entries := by
    rw [← hR, List.length_drop, items_length]
  have hpred : ∀ i it, R[i]? = some it →
      decide (label (encode t) (offset t n + skipN c.entries + i) > k) = decide (k < it.label) := by
    intro i it hi
    have : (items c.entries)[skipN c.entries + i]? = some it := by
      rw [← hR, List.getElem?_drop] at hi; exact hi
    rw [Nat.add_assoc, label_at hb _ it this]
  have hmono : ∀ i j, 0 ≤ i → i ≤ j → j < R.length →
      decide (label (encode t) (offset t n + skipN c.entries + i) > k) = true →
      decide (label (encode t) (offset t n + skipN c.entries + j) > k) = true := by
    intro i j _ hij hj hi
    have hil : i < R.length := by omega
    rw [hpred i _ (List.getElem?_eq_getElem hil)] at hi
    rw [hpred j _ (List.getElem?_eq_getElem hj)]
    by_cases he : i = j
    · subst he; exact hi
    · have hlt : i < j := by omega
      have := List.pairwise_iff_getElem.1 hsorted i j (by simpa using hil) (by simpa using hj) hlt
      simp only [List.getElem_map] at this
      simp only [decide_eq_true_eq] at hi ⊢
      omega
  obtain ⟨_, h2, h3, h4⟩ := sortSearch_least (fun i => decide (label (encode t) (offset t n + skipN c.entries + i) > k))
    (R.length + 1) 0 R.length (by omega) (Nat.zero_le _) hmono
  rw [← hRlen]
  generalize sortSearch (fun i => decide (label (encode t) (offset t n + skipN c.entries + i) > k))
    (R.length + 1) 0 R.length = res at *
  have hres : res = firstIdx (fun it => decide (k < it.label)) R := by
    apply firstIdx_char _ R res h2
    · intro i it hi hget
      have := h3 i (Nat.zero_le _) hi
      rw [hpred i it hget] at this
      exact this
    · intro it hget
      have hlt := (List.getElem?_eq_some_iff.1 hget).1
      have := h4 hlt
      rw [hpred res it hget] at this
      exact this
  rw [← hres]
  by_cases he : res = R.length
  · have : ¬ res < R.length := by omega
    simp only [he, beq_self_eq_true, if_true, Nat.lt_irrefl, if_false]
    congr 1
    omega
  · have hlt : res < R.length := by omega
    have hb' : (res == R.length) = false := by simpa using he
    simp only [hb', Bool.false_eq_true, if_false, hlt, if_true]

/-- `trie.lastLabelPos(nodeID)` is the position of the node's last label -/
theorem lastLabelPos_spec {t : Node} (hwf : WFNode t) {c : Node} {n : Nat} (hb : (bfs t)[n]? = some c) :
    lastLabelPos (encode t) n = offset t n + c.entries.length - 1 := by
  obtain ⟨hlt, hN⟩ := List.getElem?_eq_some_iff.1 hb
  have hpos := sizes_pos hwf
  have hpc : popcount (encode t).louds = (bfs t).length := by
    rw [encode_louds, popcount_loudsOfSizes _ hpos]; simp
  have hlen : (encode t).louds.length = ((bfs t).map (fun m => m.entries.length)).sum := by
    rw [encode_louds, length_loudsOfSizes]
  have hn' : n < ((bfs t).map (fun m => m.entries.length)).length := by simpa using hlt
  have hsz : ((bfs t).map (fun m => m.entries.length))[n] = c.entries.length := by simp [hN]
  have hsplit := sum_split _ n hn'
  rw [hsz] at hsplit
  have hoff : offset t n = (((bfs t).map (fun m => m.entries.length)).take n).sum := by
    unfold offset; rw [List.map_take]
  unfold lastLabelPos
  simp only [hpc]
  by_cases hlast : n + 2 > (bfs t).length
  · simp only [hlast, if_true, hlen]
    have hd : ((bfs t).map (fun m => m.entries.length)).drop (n + 1) = [] := by
      apply List.drop_eq_nil_of_le; simp; omega
    rw [hd] at hsplit
    simp at hsplit
    omega
  · simp only [hlast, if_false]
    have hn1 : n + 1 < (bfs t).length := by omega
    have := firstLabelPos_eq_offset hwf (n + 1) hn1
    unfold firstLabelPos at this
    rw [this]
    unfold offset
    rw [List.take_succ_eq_append_getElem hlt, List.map_append, List.sum_append, hN]
    simp

/-! ### `moveToRightMostKey` -/

/-- the frames pushed by `moveToRightMostKey` below node `c` (deepest first): every frame stands on
the last item of its node -/
def rightmost (t : Node) : Nat → Node → Nat → Key → List Frame
  | 0, _, _, _ => []
  | fuel + 1, c, n, path =>
    match (items c.entries).getLast? with
    | none => []
    | some (.leaf l s v) => [frameAt c n path (c.entries.length - 1) (.leaf l s v)]
    | some (.child l c') =>
      rightmost t fuel c' (childNodeID (encode t) (offset t n + (c.entries.length - 1))) (path ++ c.pfx ++ [l]) ++
        [frameAt c n path (c.entries.length - 1) (.child l c')]

theorem getLast?_getElem? {α} (l : List α) (x : α) (h : l.getLast? = some x) : l[l.length - 1]? = some x := by
  rw [List.getLast?_eq_getElem?] at h; exact h

theorem getLast?_append_ne {α} : ∀ (A B : List α), B ≠ [] → (A ++ B).getLast? = B.getLast?
  | [], B, _ => rfl
  | a :: A', B, h => by
    have ih := getLast?_append_ne A' B h
    have hne : A' ++ B ≠ [] := by simp [h]
    cases hab : A' ++ B with
    | nil => exact absurd hab hne
    | cons x xs =>
      rw [List.cons_append, hab, List.getLast?_cons_cons, ← hab]; exact ih

theorem lastKV_append (A B : List KV) (h : B ≠ []) : lastKV (A ++ B) = lastKV B := by
  unfold lastKV
  rw [getLast?_append_ne _ _ h]

theorem iterEntries_split (base : Key) : ∀ (i : Nat) (es : Entries),
    ∃ X, iterEntries base es = X ++ iterEntries base (dropE i es)
  | 0, es => ⟨[], by simp [dropE]⟩
  | i + 1, .nil => ⟨[], by simp [dropE]⟩
  | i + 1, .leaf l s v r => by
    obtain ⟨X, hX⟩ := iterEntries_split base i r
    exact ⟨(if (l == labelTerminator && !r.isNil) = true then (base ++ s, v) else (base ++ l :: s, v)) :: X,
      by simp only [iterEntries, dropE, hX, List.cons_append]⟩
  | i + 1, .child l c r => by
    obtain ⟨X, hX⟩ := iterEntries_split base i r
    exact ⟨iterNode (base ++ [l]) c ++ X, by simp only [iterEntries, dropE, hX, List.append_assoc]⟩

theorem child_wf_of_item {c : Node} (hwf : WFNode c) {i : Nat} {l : Nat} {c' : Node}
    (hi : (items c.entries)[i]? = some (.child l c')) : WFNode c' ∧ c'.height < c.height := by
  have hmem : Item.child l c' ∈ items c.entries := List.mem_of_getElem? hi
  have hcm := child_mem_of_items hmem
  refine ⟨wfNode_children c hwf c' hcm, ?_⟩
  cases c with
  | mk pp es =>
    have := children_height es (Entries.height es) (Nat.le_refl _) c' hcm
    simp only [Node.height]; omega

theorem dropE_after_last (es : Entries) : dropE (es.length - 1 + 1) es = .nil := by
  cases hl : es.length with
  | zero => cases es <;> simp [Entries.length] at hl ⊢ <;> rfl
  | succ k => simp only [Nat.add_sub_cancel]; rw [← hl]; exact dropE_length_nil es

/-- the deepest frame of `rightmost` stands on the last pair below the node, nothing comes after it -/
theorem rightmost_spec (t : Node) : ∀ (fuel : Nat) (c : Node) (n : Nat) (path : Key), WFNode c → c.height ≤ fuel →
    ∃ top rest, rightmost t fuel c n path = top :: rest ∧ (∃ l s v, top.cur = .leaf l s v) ∧
      lastKV (iterNode path c) = [top.kv] ∧ remAfter (rightmost t fuel c n path) = []
  | 0, c, _, _, _, hh => by have := height_pos c; omega
  | fuel + 1, c, n, path, hwf, hh => by
    have hsz := wfNode_size_pos c hwf
    have hne : items c.entries ≠ [] := by
      intro e; have := congrArg List.length e; rw [items_length] at this; simp at this; omega
    obtain ⟨D, x, hsplit, hlast⟩ := getLast?_split (items c.entries) hne
    have hidx := getLast?_getElem? _ _ hlast
    rw [items_length] at hidx
    obtain ⟨X, hX⟩ := iterEntries_split (path ++ c.pfx) (c.entries.length - 1) c.entries
    have hcons := iterEntries_dropE_cons c.entries (c.entries.length - 1) x (path ++ c.pfx) hidx
    rw [dropE_after_last] at hcons
    have hnode : iterNode path c = iterEntries (path ++ c.pfx) c.entries := by cases c; rfl
    simp only [rightmost, hlast]
    cases x with
    | leaf l s v =>
      refine ⟨_, [], rfl, ⟨l, s, v, rfl⟩, ?_, ?_⟩
      · rw [hnode, hX, hcons]
        simp only [Entries.isNil, Bool.not_true, Bool.and_false, Bool.false_eq_true, if_false, iterEntries,
          List.append_nil]
        rw [lastKV_append _ _ (by simp)]
        simp [lastKV, Frame.kv, frameAt, dropE_after_last, Entries.isNil]
      · simp [remAfter, frameAt, dropE_after_last, iterEntries]
    | child l c' =>
      obtain ⟨hcwf, hch⟩ := child_wf_of_item hwf hidx
      obtain ⟨top, rest, h1, h2, h3, h4⟩ := rightmost_spec t fuel c'
        (childNodeID (encode t) (offset t n + (c.entries.length - 1))) (path ++ c.pfx ++ [l]) hcwf (by omega)
      refine ⟨top, rest ++ [frameAt c n path (c.entries.length - 1) (.child l c')],
        by simp only []; rw [h1]; rfl, h2, ?_, ?_⟩
      · rw [hnode, hX, hcons]
        simp only [iterEntries, List.append_nil]
        rw [lastKV_append _ _ (iterNode_ne_nil c' _ hcwf)]
        exact h3
      · simp only []
        rw [remAfter_append, h4]
        simp [remAfter, frameAt, dropE_after_last, iterEntries]

/-- one round of the descent loop (either direction), in terms of the frame it pushes -/
theorem descend_step' {t : Node} (left : Bool) {it : It} {p fr : Frame} {below : List Frame} (fuel : Nat)
    (hp : Part t it p below) (hc : Chain t (fr :: p :: below))
    (hpos : labelPos (encode t) left fr.n = fr.pos t) :
    descend (encode t) left (fuel + 1) it (p.pos t) =
      (if !fr.cur.isChild then
        { markTerm (encode t) (append (encode t) { it with level := it.level + 1 } fr.cur.label (fr.pos t) fr.n)
            (fr.pos t) with valid := true }
       else descend (encode t) left fuel
        (append (encode t) { it with level := it.level + 1 } fr.cur.label (fr.pos t) fr.n) (fr.pos t)) := by
  have hlt : it.level < (encode t).height := by rw [hp.level]; exact hp.chain.level_lt
  have hok := hc.frameOK fr (List.mem_cons_self ..)
  have hn : childNodeID (encode t) (p.pos t) = fr.n := hc.2.2.1.symm
  rw [descend]
  simp only [hlt, if_true, hn, hpos, frame_hasChild hok, frame_label hok]

theorem last_item {c : Node} (hwf : WFNode c) :
    ∃ x, (items c.entries).getLast? = some x ∧ (items c.entries)[c.entries.length - 1]? = some x := by
  have hsz := wfNode_size_pos c hwf
  have hne : items c.entries ≠ [] := by
    intro e; have := congrArg List.length e; rw [items_length] at this; simp at this; omega
  obtain ⟨D, x, _, hlast⟩ := getLast?_split (items c.entries) hne
  have hidx := getLast?_getElem? _ _ hlast
  rw [items_length] at hidx
  exact ⟨x, hlast, hidx⟩

theorem descend_right_spec {t : Node} (hwf : WFNode t) : ∀ (fuel : Nat) (c : Node) (it : It) (p : Frame)
    (below : List Frame) (l : Nat), Part t it p below → p.cur = .child l c → it.atTerm = false →
    c.height ≤ fuel →
    ∃ top rest, rightmost t fuel c (childNodeID (encode t) (p.pos t)) (p.kb ++ [l]) ++ (p :: below) = top :: rest ∧
      Rep t (descend (encode t) false fuel it (p.pos t)) top rest
  | 0, c, _, _, _, _, _, _, _, hh => by have := height_pos c; omega
  | fuel + 1, c, it, p, below, l, hp, hcur, hat, hh => by
    have hna := NodeAt.child hp.chain hcur
    have hcwf := hna.wf hwf
    obtain ⟨x, hlast, hidx⟩ := last_item hcwf
    have hc := frameAt_chain hna hidx
    have hfpos := frameAt_pos (t := t) (n := childNodeID (encode t) (p.pos t)) (path := p.kb ++ [l]) hidx
    have hpos : labelPos (encode t) false (frameAt c (childNodeID (encode t) (p.pos t)) (p.kb ++ [l])
        (c.entries.length - 1) x).n = (frameAt c (childNodeID (encode t) (p.pos t)) (p.kb ++ [l])
        (c.entries.length - 1) x).pos t := by
      rw [hfpos]
      simp only [labelPos, frameAt, Bool.false_eq_true, if_false]
      rw [lastLabelPos_spec hwf hna.1]
      have := wfNode_size_pos c hcwf
      omega
    rw [descend_step' false fuel hp hc hpos]
    have hpart := append_part hp.pre_push hc
    simp only [rightmost, hlast]
    cases x with
    | leaf l' s v =>
      have hic : (frameAt c (childNodeID (encode t) (p.pos t)) (p.kb ++ [l]) (c.entries.length - 1)
          (.leaf l' s v)).cur.isChild = false := rfl
      simp only [hic, Bool.not_false, if_true]
      exact ⟨_, p :: below, rfl, leaf_rep hwf hpart (by simpa [append] using hat) rfl⟩
    | child l' c' =>
      obtain ⟨_, hch⟩ := child_wf_of_item hcwf hidx
      have hic : (frameAt c (childNodeID (encode t) (p.pos t)) (p.kb ++ [l]) (c.entries.length - 1)
          (.child l' c')).cur.isChild = true := rfl
      simp only [hic, Bool.not_true, Bool.false_eq_true, if_false]
      obtain ⟨top, rest, h1, h2⟩ := descend_right_spec hwf fuel c' _ _ (p :: below) l' hpart rfl
        (by simpa [append] using hat) (by omega)
      refine ⟨top, rest, ?_, h2⟩
      rw [← h1, hfpos]
      simp [frameAt, List.append_assoc]

/-- `moveToRightMostKey` from a frame whose item is set (the fallback of `Seek`): a leaf becomes
valid in place, a label with child is followed to the rightmost key below it -/
theorem moveToMost_right_spec {t : Node} (hwf : WFNode t) {it : It} {fr : Frame} {below : List Frame}
    (hp : Part t it fr below) (hat : it.atTerm = false) :
    match fr.cur with
    | .leaf _ _ _ => Rep t (moveToMost (encode t) false it) fr below
    | .child l c => ∃ top rest,
        rightmost t (encode t).height c (childNodeID (encode t) (fr.pos t)) (fr.kb ++ [l]) ++ (fr :: below) = top :: rest ∧
        Rep t (moveToMost (encode t) false it) top rest := by
  have hok := hp.chain.frameOK fr (List.mem_cons_self ..)
  have hkey : it.keyBuf.isEmpty = false := by rw [hp.key]; simp
  have hpos : it.pos.getD it.level 0 = fr.pos t := by rw [hp.level]; exact hp.arr.1
  unfold moveToMost
  simp only [hkey, Bool.false_eq_true, if_false, hpos, frame_hasChild hok]
  cases hcur : fr.cur with
  | leaf l s v =>
    simp only [Item.isChild, Bool.not_false, if_true]
    exact leaf_rep hwf hp hat hcur
  | child l c =>
    simp only [Item.isChild, Bool.not_true, Bool.false_eq_true, if_false]
    have hna := NodeAt.child hp.chain hcur
    have hch : c.height ≤ (encode t).height := by
      have hd := Chain.depth rfl hp.chain
      have hmem : Item.child l c ∈ items fr.node.entries := by rw [hok.2, hcur]; simp
      have hcm := child_mem_of_items hmem
      have h1 : c.height ≤ fr.node.height := by
        cases hn : fr.node with
        | mk pp es =>
          rw [hn] at hcm
          have := children_height es (Entries.height es) (Nat.le_refl _) c hcm
          simp only [Node.height]; omega
      have := encode_height_ge t
      omega
    exact descend_right_spec hwf _ c it fr below l hp hcur hat hch

/-! ### landing on an item of a node -/

theorem iterNode_eq (path : Key) (c : Node) : iterNode path c = iterEntries (path ++ c.pfx) c.entries := by
  cases c; rfl

/-- `append` the item, then `moveToLeftMostKey`: everything from the item on -/
theorem land_left {t : Node} (hwf : WFNode t) {c : Node} {n : Nat} {path : Key} {below : List Frame} {it : It}
    (hna : NodeAt t c n path below) (hpre : Pre t it below) (hat : it.atTerm = false)
    {i : Nat} {item : Item} (hi : (items c.entries)[i]? = some item) :
    ∃ top rest, Rep t (moveToMost (encode t) true (append (encode t) it item.label (offset t n + i) n)) top rest ∧
      top.kv :: remAfter (top :: rest) = iterEntries (path ++ c.pfx) (dropE i c.entries) ++ remAfter below := by
  have hc := frameAt_chain hna hi
  have hpart := append_part hpre hc
  rw [frameAt_pos hi] at hpart
  have hcons := iterEntries_dropE_cons c.entries i item (path ++ c.pfx) hi
  have hms := moveToMost_spec hwf hpart (by simpa [append] using hat)
  cases item with
  | leaf l s v =>
    simp only [frameAt] at hms
    refine ⟨_, below, hms, ?_⟩
    rw [hcons]
    simp [remAfter, Frame.kv, frameAt]
  | child l c' =>
    simp only [frameAt] at hms
    obtain ⟨top, rest, h1, h2⟩ := hms
    obtain ⟨hcwf, _⟩ := child_wf_of_item (hna.wf hwf) hi
    obtain ⟨top', rest', h3, _, h5⟩ := leftmost_spec t c'
      (childNodeID (encode t) ((frameAt c n path i (.child l c')).pos t)) (path ++ c.pfx ++ [l]) hcwf
    simp only [frameAt] at h3 h5
    refine ⟨top, rest, h2, ?_⟩
    have hrem : remAfter (top :: rest) = remAfter (top' :: rest') ++
        (iterEntries (path ++ c.pfx) (dropE (i + 1) c.entries) ++ remAfter below) := by
      rw [← h1, ← h3, remAfter_append]; rfl
    have htop : top = top' := by
      rw [h3] at h1
      simp only [List.cons_append, List.cons.injEq] at h1
      exact h1.1.symm
    rw [hrem, htop, hcons]
    simp only []
    rw [h5, h3]
    simp

/-- `append` a leaf item, then the `moveToRightMostKey` fallback: the iterator stays on the leaf -/
theorem land_stay {t : Node} (hwf : WFNode t) {c : Node} {n : Nat} {path : Key} {below : List Frame} {it : It}
    (hna : NodeAt t c n path below) (hpre : Pre t it below) (hat : it.atTerm = false)
    {i : Nat} {l : Nat} {s : List Nat} {v : Nat} (hi : (items c.entries)[i]? = some (.leaf l s v)) :
    ∃ top rest, Rep t (moveToMost (encode t) false (append (encode t) it l (offset t n + i) n)) top rest ∧
      top.kv :: remAfter (top :: rest) = iterEntries (path ++ c.pfx) (dropE i c.entries) ++ remAfter below := by
  have hc := frameAt_chain hna hi
  have hpart := append_part hpre hc
  rw [frameAt_pos hi] at hpart
  have hcons := iterEntries_dropE_cons c.entries i _ (path ++ c.pfx) hi
  have hms := moveToMost_right_spec hwf hpart (by simpa [append] using hat)
  simp only [frameAt] at hms
  refine ⟨_, below, hms, ?_⟩
  rw [hcons]
  simp [remAfter, Frame.kv, frameAt]

/-- `append` the last item, then the `moveToRightMostKey` fallback: the last pair below the node -/
theorem land_right {t : Node} (hwf : WFNode t) {c : Node} {n : Nat} {path : Key} {below : List Frame} {it : It}
    (hna : NodeAt t c n path below) (hpre : Pre t it below) (hat : it.atTerm = false) :
    ∃ top rest,
      Rep t (moveToMost (encode t) false
        (append (encode t) it (label (encode t) (offset t n + c.entries.length - 1)) (offset t n + c.entries.length - 1) n))
        top rest ∧
      top.kv :: remAfter (top :: rest) = lastKV (iterEntries (path ++ c.pfx) c.entries) ++ remAfter below := by
  have hcwf := hna.wf hwf
  have hsz := wfNode_size_pos c hcwf
  obtain ⟨x, hlast, hidx⟩ := last_item hcwf
  have hc := frameAt_chain hna hidx
  have hpart := append_part hpre hc
  have hfpos := frameAt_pos (t := t) (n := n) (path := path) hidx
  rw [hfpos] at hpart
  have hpe : offset t n + c.entries.length - 1 = offset t n + (c.entries.length - 1) := by omega
  rw [hpe, label_at hna.1 _ x hidx]
  have hms := moveToMost_right_spec hwf hpart (by simpa [append] using hat)
  have hH : c.height ≤ (encode t).height + 1 := by
    have hd := Chain.depth rfl hc
    simp only [frameAt] at hd
    have := encode_height_ge t
    omega
  obtain ⟨top', rest', h3, _, h5, h6⟩ := rightmost_spec t ((encode t).height + 1) c n path hcwf hH
  rw [iterNode_eq] at h5
  simp only [rightmost, hlast] at h3 h6
  cases x with
  | leaf l s v =>
    simp only [Item.label]
    refine ⟨frameAt c n path (c.entries.length - 1) (.leaf l s v), below, hms, ?_⟩
    have e1 : top' = frameAt c n path (c.entries.length - 1) (.leaf l s v) := (List.cons.inj h3).1.symm
    have h6' : iterEntries (frameAt c n path (c.entries.length - 1) (.leaf l s v)).kb
        (frameAt c n path (c.entries.length - 1) (.leaf l s v)).after = [] := by
      simpa [remAfter] using h6
    rw [h5, e1]
    simp only [remAfter, h6']
    rfl
  | child l c' =>
    simp only [Item.label]
    obtain ⟨top, rest, h1, h2⟩ := hms
    refine ⟨top, rest, h2, ?_⟩
    have hkb : (frameAt c n path (c.entries.length - 1) (.child l c')).kb = path ++ c.pfx := rfl
    rw [hfpos, hkb] at h1
    have hfr : top :: rest = (top' :: rest') ++ below := by
      rw [← h1, ← h3]; simp [List.append_assoc]
    have htop : top = top' := by
      simp only [List.cons_append, List.cons.injEq] at hfr; exact hfr.1
    rw [h3] at h6
    rw [hfr, remAfter_append, h6, h5, htop]
    rfl

theorem next_invalid (f : Flat) (it : It) (h : it.valid = false) : next f it = it := by
  unfold next; simp [h]

theorem cmp_prefix (pfx key : Key) :
    (if pfx.isEmpty then Ordering.eq else cmp pfx (key.take pfx.length)) = keyCmp pfx (key.take pfx.length) := by
  cases pfx with
  | nil => simp [keyCmp]
  | cons a p => simp [cmp]

/-- what `Seek` does after `seek` returns: the `moveToRightMostKey` fallback -/
def finish (f : Flat) (it : It) : It := if !it.valid then moveToMost f false it else it

theorem finish_valid {t : Node} {it : It} {top : Frame} {rest : List Frame} (h : Rep t it top rest) :
    finish (encode t) it = it := by
  unfold finish; simp [h.valid]

theorem iterEntries_dropE_ne_nil {c : Node} (hwf : WFNode c) {i : Nat} {item : Item}
    (hi : (items c.entries)[i]? = some item) (base : Key) : iterEntries base (dropE i c.entries) ≠ [] := by
  rw [iterEntries_dropE_cons c.entries i item base hi]
  cases item with
  | leaf l s v => simp
  | child l c' =>
    obtain ⟨hcwf, _⟩ := child_wf_of_item hwf hi
    have := iterNode_ne_nil c' (base ++ [l]) hcwf
    simp [this]

/-! ### the tree-level `seekNode`, unfolded for an abstract node -/

theorem seekNode_lt (path : Key) (c : Node) (key : Key) (h : keyCmp c.pfx (key.take c.pfx.length) = .lt) :
    seekNode path c key = (false, lastKV (iterEntries (path ++ c.pfx) c.entries)) := by
  cases c; rw [seekNode]; simp only [Node.pfx, Node.entries] at h ⊢; simp only [h]

theorem seekNode_gt (path : Key) (c : Node) (key : Key) (h : keyCmp c.pfx (key.take c.pfx.length) = .gt) :
    seekNode path c key = (false, iterEntries (path ++ c.pfx) c.entries) := by
  cases c; rw [seekNode]; simp only [Node.pfx, Node.entries] at h ⊢; simp only [h]

theorem seekNode_eq_nil (path : Key) (c : Node) (key : Key) (h : keyCmp c.pfx (key.take c.pfx.length) = .eq)
    (hk : key.drop c.pfx.length = []) :
    seekNode path c key = (false, iterEntries (path ++ c.pfx) c.entries) := by
  cases c; rw [seekNode]; simp only [Node.pfx, Node.entries] at h hk ⊢; simp only [h, hk]

theorem seekNode_row' (path : Key) (c : Node) (key : Key) (k : Nat) (rest : Key)
    (h : keyCmp c.pfx (key.take c.pfx.length) = .eq) (hk : key.drop c.pfx.length = k :: rest)
    (hne : c.entries.isNil = false) :
    seekNode path c key =
      (match seekEntries (path ++ c.pfx) (dropE (skipN c.entries) c.entries) k rest with
       | some x => x
       | none => (false, greaterOrLast (path ++ c.pfx) k c.entries (dropE (skipN c.entries) c.entries))) := by
  cases c with
  | mk pfx es => exact seekNode_row path pfx es key k rest h hk hne

theorem greaterOrLast_ne {base : Key} {k : Nat} {all sub : Entries} (h : entriesGreater base k sub ≠ []) :
    greaterOrLast base k all sub = entriesGreater base k sub := by
  unfold greaterOrLast
  cases hg : entriesGreater base k sub with
  | nil => exact absurd hg h
  | cons x xs => rfl

theorem greaterOrLast_nil {base : Key} {k : Nat} {all sub : Entries} (h : entriesGreater base k sub = []) :
    greaterOrLast base k all sub = lastKV (iterEntries base all) := by
  unfold greaterOrLast; rw [h]

theorem moveToMost_empty (f : Flat) (left : Bool) (it : It) (h : it.keyBuf = []) :
    moveToMost f left it =
      moveToMost f left (append f it (label f (labelPos f left 0)) (labelPos f left 0) 0) := by
  have hne : (append f it (label f (labelPos f left 0)) (labelPos f left 0) 0).keyBuf.isEmpty = false := by
    simp [append]
  conv => rhs; unfold moveToMost
  simp only [hne, Bool.false_eq_true, if_false]
  unfold moveToMost
  simp only [h, List.isEmpty_nil, if_true]

theorem It.valid_eta (it : It) (h : it.valid = false) : { it with valid := false } = it := by
  cases it; simp at h; subst h; rfl

/-! ### the loop of `Iterator.seek` -/

theorem seekLoop_spec {t : Node} (hwf : WFNode t) : ∀ (fuel : Nat) (c : Node) (n : Nat) (path : Key)
    (below : List Frame) (it : It) (key : Key),
    NodeAt t c n path below → Pre t it below → it.valid = false → it.atTerm = false → c.height ≤ fuel →
    ∃ top rest,
      Rep t (finish (encode t) (seekLoop (encode t) fuel it n (offset t n) key).1) top rest ∧
      top.kv :: remAfter (top :: rest) = (seekNode path c key).2 ++ remAfter below ∧
      (seekLoop (encode t) fuel it n (offset t n) key).2 = (seekNode path c key).1
  | 0, c, _, _, _, _, _, _, _, _, _, hh => by have := height_pos c; omega
  | fuel + 1, c, n, path, below, it, key, hna, hpre, hv, hat, hh => by
    have hcwf := hna.wf hwf
    have hsz := wfNode_size_pos c hcwf
    have hnenil : c.entries.isNil = false := by
      cases hc : c.entries with
      | nil => rw [hc] at hsz; simp [Entries.length] at hsz
      | leaf _ _ _ _ => rfl
      | child _ _ _ => rfl
    have h0 : ∃ item0, (items c.entries)[0]? = some item0 := by
      cases hi : items c.entries with
      | nil => have := congrArg List.length hi; rw [items_length] at this; simp at this; omega
      | cons x r => exact ⟨x, rfl⟩
    obtain ⟨item0, hitem0⟩ := h0
    have hlevel : it.level < (encode t).height := by
      rw [hpre.level]; exact (frameAt_chain hna hitem0).level_lt
    have hpfx := prefixOf_eq t n c hna.1
    rw [seekLoop]
    simp only [hlevel, if_true, hpfx, cmp_prefix]
    cases hcmp : keyCmp c.pfx (key.take c.pfx.length) with
    | lt =>
      simp only [beq_self_eq_true, if_true]
      rw [seekNode_lt path c key hcmp]
      obtain ⟨hb, hchain, hlink⟩ := hna
      cases below with
      | nil =>
        obtain ⟨hn0, hct, hpath⟩ := hlink
        have hl0 : (it.level == 0) = true := by simp [hpre.level]
        simp only [hl0, if_true, It.valid_eta it hv]
        have hfin : finish (encode t) it = moveToMost (encode t) false it := by unfold finish; simp [hv]
        rw [hfin, moveToMost_empty _ _ _ (by rw [hpre.key]; rfl)]
        simp only [labelPos, Bool.false_eq_true, if_false]
        have hll := lastLabelPos_spec hwf hb
        rw [hn0] at hll hb
        rw [hll]
        have := land_right hwf (c := c) (n := 0) (path := path) (below := []) (it := it)
          ⟨hb, hchain, by simp [hct, hpath]⟩ hpre hat
        obtain ⟨top, rest, h1, h2⟩ := this
        exact ⟨top, rest, h1, h2, by first | trivial | rfl⟩
      | cons p b =>
        obtain ⟨l, hcur, hpath, hn⟩ := hlink
        have hl0 : (it.level == 0) = false := by simp [hpre.level]
        simp only [hl0, Bool.false_eq_true, if_false]
        rw [next_invalid _ _ (by simpa using hv)]
        have hpart : Part t { it with level := it.level - 1 } p b :=
          ⟨hchain, by simp [hpre.level], hpre.arr, by rw [hpre.key]; rfl, hpre.lpos, hpre.lnid, hpre.lplen⟩
        have hfin : finish (encode t) { it with level := it.level - 1 } =
            moveToMost (encode t) false { it with level := it.level - 1 } := by unfold finish; simp [hv]
        rw [hfin]
        have hms := moveToMost_right_spec hwf hpart (by simpa using hat)
        rw [hcur] at hms
        simp only at hms
        obtain ⟨top, rest, h1, h2⟩ := hms
        have hH : c.height ≤ (encode t).height := by
          have hd := Chain.depth rfl (frameAt_chain ⟨hb, hchain, l, hcur, hpath, hn⟩ hitem0)
          simp only [frameAt] at hd
          have := encode_height_ge t
          omega
        rw [← hn, ← hpath] at h1
        obtain ⟨top', rest', h3, _, h5, h6⟩ := rightmost_spec t (encode t).height c n path hcwf hH
        have hfr : top :: rest = (top' :: rest') ++ (p :: b) := by rw [← h1, ← h3]
        have htop : top = top' := by
          simp only [List.cons_append, List.cons.injEq] at hfr; exact hfr.1
        refine ⟨top, rest, h2, ?_, by first | trivial | rfl⟩
        rw [h3] at h6
        rw [hfr, remAfter_append, h6, ← iterNode_eq, h5, htop]
        rfl
    | gt =>
      have hne : (Ordering.gt == Ordering.lt) = false := rfl
      simp only [hne, Bool.false_eq_true, if_false, beq_self_eq_true, Bool.or_true, if_true]
      rw [seekNode_gt path c key hcmp]
      obtain ⟨top, rest, h1, h2⟩ := land_left hwf hna hpre hat hitem0
      rw [Nat.add_zero, ← label_at hna.1 0 item0 hitem0, Nat.add_zero] at h1
      rw [finish_valid h1]
      exact ⟨top, rest, h1, by simpa [dropE] using h2, by first | trivial | rfl⟩
    | eq =>
      have hne : (Ordering.eq == Ordering.lt) = false := rfl
      have hne2 : (Ordering.eq == Ordering.gt) = false := rfl
      simp only [hne, Bool.false_eq_true, if_false, hne2, Bool.or_false]
      cases hk : key.drop c.pfx.length with
      | nil =>
        simp only [List.isEmpty_nil, if_true]
        rw [seekNode_eq_nil path c key hcmp hk]
        obtain ⟨top, rest, h1, h2⟩ := land_left hwf hna hpre hat hitem0
        rw [Nat.add_zero, ← label_at hna.1 0 item0 hitem0, Nat.add_zero] at h1
        rw [finish_valid h1]
        exact ⟨top, rest, h1, by simpa [dropE] using h2, by first | trivial | rfl⟩
      | cons k rest =>
        simp only [List.isEmpty_cons, Bool.false_eq_true, if_false]
        rw [seekNode_row' path c key k rest hcmp hk hnenil, searchLabel_spec hwf hna.1 k]
        simp only []
        have hidx := seekEntries_idx (path ++ c.pfx) k rest (dropE (skipN c.entries) c.entries)
        rw [items_dropE] at hidx
        generalize hR : (items c.entries).drop (skipN c.entries) = R at *
        have hRlen : R.length = c.entries.length - skipN c.entries := by
          rw [← hR, List.length_drop, items_length]
        have hslt := skipN_lt_length c.entries hnenil
        by_cases hfound : firstIdx (fun it => it.label == k) R < R.length
        · -- the label is in the row
          simp only [hfound, if_true]
          obtain ⟨item, hget, hlab⟩ := firstIdx_spec _ R hfound
          have hlabel : item.label = k := by simpa using hlab
          generalize hj : firstIdx (fun it => it.label == k) R = j at *
          have hi : (items c.entries)[skipN c.entries + j]? = some item := by
            rw [← List.getElem?_drop, hR]; exact hget
          subst hlabel
          have hc := frameAt_chain hna hi
          have hok := hc.frameOK _ (List.mem_cons_self ..)
          have hfpos := frameAt_pos (t := t) (n := n) (path := path) hi
          have hpe : offset t n + skipN c.entries + j = offset t n + (skipN c.entries + j) := by omega
          rw [hget] at hidx
          rw [hpe]
          have hhc := frame_hasChild hok
          rw [hfpos] at hhc
          cases item with
          | leaf l suf v =>
            have hhc' : hasChild (encode t) (offset t n + (skipN c.entries + j)) = false := by rw [hhc]; rfl
            rw [hhc']
            simp only [Bool.not_false, if_true, Item.label] at hidx ⊢
            rw [hidx]
            simp only [dropE_dropE]
            obtain ⟨top, rest', h1, h2⟩ := land_stay hwf hna hpre hat hi
            have hfin : finish (encode t) (append (encode t) it l (offset t n + (skipN c.entries + j)) n) =
                moveToMost (encode t) false (append (encode t) it l (offset t n + (skipN c.entries + j)) n) := by
              unfold finish; simp [append, hv]
            rw [hfin]
            refine ⟨top, rest', h1, h2, ?_⟩
            unfold checkSuffix
            have hitem := frame_item hok
            rw [hfpos] at hitem
            rw [suffixOf_eq t _ _ hitem]
            rfl
          | child l c' =>
            have hhc' : hasChild (encode t) (offset t n + (skipN c.entries + j)) = true := by rw [hhc]; rfl
            rw [hhc']
            simp only [Bool.not_true, Bool.false_eq_true, if_false, Item.label] at hidx ⊢
            rw [hidx]
            simp only [dropE_dropE]
            have hpart := append_part hpre hc
            rw [hfpos] at hpart
            simp only [frameAt, Item.label] at hpart
            have hna' := NodeAt.child hc (l := l) (c := c') rfl
            rw [hfpos] at hna'
            obtain ⟨_, hch⟩ := child_wf_of_item hcwf hi
            have hfl : firstLabelPos (encode t) (childNodeID (encode t) (offset t n + (skipN c.entries + j))) =
                offset t (childNodeID (encode t) (offset t n + (skipN c.entries + j))) :=
              firstLabelPos_eq_offset hwf _ (List.getElem?_eq_some_iff.1 hna'.1).1
            rw [hfl]
            obtain ⟨top, rest', h1, h2, h3⟩ := seekLoop_spec hwf fuel c' _ _ _ _ rest hna' hpart.pre_push
              (by simp [append, hv]) (by simp [append, hat]) (by omega)
            refine ⟨top, rest', h1, ?_, h3⟩
            rw [h2]
            simp only [frameAt, remAfter, List.append_assoc, Nat.add_assoc]
        · -- the label is not in the row
          simp only [hfound, if_false]
          have hnone : R[firstIdx (fun it => it.label == k) R]? = none := by
            apply List.getElem?_eq_none; omega
          rw [hnone] at hidx
          simp only at hidx
          rw [hidx]
          simp only []
          unfold moveToLeftInNextSubTrie
          rw [searchGreaterThan_spec hwf hna.1 k]
          simp only [hR]
          have hgidx := entriesGreater_idx (path ++ c.pfx) k (dropE (skipN c.entries) c.entries)
          rw [items_dropE, hR, dropE_dropE] at hgidx
          by_cases hgr : firstIdx (fun it => decide (k < it.label)) R < R.length
          · simp only [hgr, if_true]
            obtain ⟨item, hget, _⟩ := firstIdx_spec _ R hgr
            have hi : (items c.entries)[skipN c.entries + firstIdx (fun it => decide (k < it.label)) R]? = some item := by
              rw [← List.getElem?_drop, hR]; exact hget
            have hpe : offset t n + skipN c.entries + firstIdx (fun it => decide (k < it.label)) R =
                offset t n + (skipN c.entries + firstIdx (fun it => decide (k < it.label)) R) := by omega
            rw [hpe, label_at hna.1 _ item hi]
            obtain ⟨top, rest', h1, h2⟩ := land_left hwf hna hpre hat hi
            rw [finish_valid h1]
            refine ⟨top, rest', h1, ?_, by first | trivial | rfl⟩
            rw [h2, greaterOrLast_ne (by rw [hgidx]; exact iterEntries_dropE_ne_nil hcwf hi _), hgidx]
          · simp only [hgr, if_false]
            have hfi : firstIdx (fun it => decide (k < it.label)) R = R.length := by
              have := firstIdx_le (fun it => decide (k < it.label)) R; omega
            have hge : entriesGreater (path ++ c.pfx) k (dropE (skipN c.entries) c.entries) = [] := by
              rw [hgidx, hfi, hRlen]
              have : skipN c.entries + (c.entries.length - skipN c.entries) = c.entries.length := by omega
              rw [this, dropE_length_nil]; rfl
            rw [greaterOrLast_nil hge]
            obtain ⟨top, rest', h1, h2⟩ := land_right hwf hna hpre hat
            simp only [Bool.false_eq_true, if_false]
            rw [next_invalid _ _ (by simp [append, hv])]
            have hfin : ∀ x, finish (encode t) (append (encode t) it x (offset t n + c.entries.length - 1) n) =
                moveToMost (encode t) false (append (encode t) it x (offset t n + c.entries.length - 1) n) := by
              intro x; unfold finish; simp [append, hv]
            rw [hfin]
            exact ⟨top, rest', h1, h2, by first | trivial | rfl⟩

/-! ### `Iterator.Seek`, `seekAll`, `prefixAll` -/

/-- `Seek(k)` without the conditional step: the machine stands where the tree-level `seek` lands -/
theorem seek_raw_spec {t : Node} (hwf : WFNode t) (k : Key) :
    ∃ top rest, Rep t (LoudsIter.seek false (encode t) k).1 top rest ∧
      top.kv :: remAfter (top :: rest) = (TrieTree.seek t k).2 ∧
      (LoudsIter.seek false (encode t) k).2 = (TrieTree.seek t k).1 := by
  have hH : 0 < (encode t).height := by
    have := encode_height_ge t
    have := height_pos t
    omega
  have hH0 : ((encode t).height == 0) = false := by simp; omega
  have hbfs0 : (bfs t)[0]? = some t := by rw [bfs_eq t]; rfl
  have hfirst : firstLabelPos (encode t) 0 = offset t 0 :=
    firstLabelPos_eq_offset hwf 0 (List.getElem?_eq_some_iff.1 hbfs0).1
  have hpre : Pre t (reset (init (encode t))) [] :=
    ⟨rfl, trivial, rfl, by simp [reset, init], by simp [reset, init], by simp [reset, init]⟩
  have hna : NodeAt t t 0 [] [] := ⟨hbfs0, trivial, rfl, rfl, rfl⟩
  obtain ⟨top, rest, h1, h2, h3⟩ := seekLoop_spec hwf ((encode t).height + 1) t 0 [] [] _ k hna hpre rfl rfl
    (by have := encode_height_ge t; omega)
  unfold LoudsIter.seek
  simp only [hH0, Bool.false_eq_true, if_false, hfirst, Bool.false_and]
  unfold finish at h1
  refine ⟨top, rest, h1, ?_, h3⟩
  rw [h2]
  simp [remAfter, TrieTree.seek]

theorem seek_list_length {t : Node} (hwf : WFNode t) (k : Key) :
    (TrieTree.seek t k).2.length ≤ (iterNode [] t).length := by
  have := seekNode_spec t [] k hwf
  obtain ⟨D, hL, _⟩ := this
  unfold TrieTree.seek
  rw [hL]; simp

theorem collect_invalid (f : Flat) (step : It → It) (fuel : Nat) (it : It) (h : it.valid = false) :
    collect f step fuel it = [] := by
  cases fuel with
  | zero => rfl
  | succ n => rw [collect]; simp [h]

/-- **`Seek(k)` over the vectors = `Seek(k)` on the tree** (flag and everything enumerated from the
landing position on), for both source variants of the final conditional `Next` -/
theorem seekAll_eq {t : Node} (hwf : WFNode t) (step : Bool) (k : Key) :
    seekAll step (encode t) k = seekCur step t k := by
  obtain ⟨top, rest, h1, h2, h3⟩ := seek_raw_spec hwf k
  have hlen := seek_list_length hwf k
  have hvl := values_length_eq t
  have hraw : LoudsIter.seek step (encode t) k =
      ((if step && (LoudsIter.seek false (encode t) k).1.valid &&
            keyLt (key (encode t) (LoudsIter.seek false (encode t) k).1) k
        then next (encode t) (LoudsIter.seek false (encode t) k).1
        else (LoudsIter.seek false (encode t) k).1), (LoudsIter.seek false (encode t) k).2) := by
    unfold LoudsIter.seek
    by_cases hz : ((encode t).height == 0) = true
    · simp [hz, reset, init]
    · simp [hz]
  unfold seekAll
  rw [hraw]
  simp only [h1.valid, Bool.and_true]
  have hkv := kv_spec h1
  have hkey : key (encode t) (LoudsIter.seek false (encode t) k).1 = top.kv.1 := by rw [← hkv]
  rw [hkey, h3]
  have hfuel : (remAfter (top :: rest)).length < (encode t).values.length + 1 := by
    have : (top.kv :: remAfter (top :: rest)).length ≤ (iterNode [] t).length := by rw [h2]; exact hlen
    simp only [List.length_cons] at this
    omega
  cases step with
  | false =>
    simp only [Bool.false_and, Bool.false_eq_true, if_false, seekCur]
    rw [collect_spec hwf _ _ top rest h1 hfuel, h2]
  | true =>
    simp only [Bool.true_and, seekCur, if_true, seekLB]
    rw [← h2]
    simp only []
    by_cases hlt : keyLt top.kv.1 k = true
    · simp only [hlt, if_true]
      have hz := zNext_spec t (top :: rest) (chain_after_wf hwf h1.part.chain)
      have hn := next_spec hwf h1
      cases hzn : zNext t (top :: rest) with
      | none =>
        rw [hzn] at hz hn
        simp only at hz hn
        rw [collect_invalid _ _ _ _ hn, hz]
      | some frames' =>
        rw [hzn] at hz hn
        simp only at hz hn
        obtain ⟨top', rest', e1, hr⟩ := hn
        obtain ⟨top'', rest'', e2, _, e3⟩ := hz
        rw [e1] at e2; cases e2
        rw [e3, e1]
        rw [collect_spec hwf _ _ top' rest' hr (by
          rw [e3, e1] at hfuel; simp only [List.length_cons] at hfuel; omega)]
    · simp only [hlt, Bool.false_eq_true, if_false]
      rw [collect_spec hwf _ _ top rest h1 hfuel]

theorem takeWhile_true {α} (l : List α) : l.takeWhile (fun _ => true) = l := by
  induction l with
  | nil => rfl
  | cons x r ih => simp [List.takeWhile_cons, ih]

theorem prefixCollect_eq (f : Flat) (p : Key) : ∀ (fuel : Nat) (it : It),
    prefixCollect f p fuel it =
      (collect f (next f) fuel it).takeWhile (fun kv => p.isEmpty || hasPrefix p kv.1)
  | 0, _ => rfl
  | fuel + 1, it => by
    rw [prefixCollect, collect]
    cases hv : it.valid with
    | false => simp
    | true =>
      simp only [Bool.true_and, if_true, List.takeWhile_cons]
      by_cases hp : (p.isEmpty || hasPrefix p (key f it)) = true
      · simp only [hp, if_true]; rw [prefixCollect_eq f p fuel]
      · simp [hp]

/-- **prefix iteration over the vectors = prefix iteration on the tree** -/
theorem prefixAll_eq {t : Node} (hwf : WFNode t) (step : Bool) (p : Key) :
    prefixAll step (encode t) p = prefixIter step t p := by
  have h := seekAll_eq hwf step p
  unfold seekAll at h
  have h2 : collect (encode t) (next (encode t)) ((encode t).values.length + 1) (LoudsIter.seek step (encode t) p).1 =
      (seekCur step t p).2 := by rw [← h]
  unfold prefixAll prefixIter
  rw [prefixCollect_eq, h2]
  cases hp : p.isEmpty with
  | true =>
    simp only [Bool.true_or, if_true]
    exact takeWhile_true _
  | false => simp

end LinVerif.Lemmas.C20
