/-
C19 helper lemmas, part 9: the broker-side metadata context — any real error among the responses
fails the query, whatever the arrival order; the query completes exactly once.
-/
import LinVerif.Model.BrokerMeta

namespace LinVerif.BrokerMeta

/-- once completed nothing changes any more -/
theorem foldl_completed (t : Bool) (rs : List Resp) (c : Ctx) (h : c.completed = true) :
    rs.foldl (deliver t) c = c := by
  induction rs with
  | nil => rfl
  | cons r rs ih => simp only [List.foldl_cons, deliver, h, if_true]; exact ih

/-- still waiting for `m` responses, nothing wrong so far -/
structure Waiting (c : Ctx) (m : Nat) : Prop where
  noErr : c.err = false
  open_ : c.completed = false
  exp : c.expect = m
  cl : c.closes = 0

theorem run_waiting : ∀ (rs : List Resp) (c : Ctx) (m : Nat), Waiting c m → rs.length = m → 0 < m →
    let f := rs.foldl (deliver false) c
    f.completed = true ∧ f.closes = 1 ∧ (f.err = true ↔ ∃ r ∈ rs, r.isErr = true) ∧
      ((∀ r ∈ rs, r.isErr = false) → f.results = c.results ++ (rs.map Resp.vals).flatten)
  | [], c, m, _, hl, hm => by simp at hl; omega
  | r :: rs, c, m, hw, hl, hm => by
    obtain ⟨h1, h2, h3, h4⟩ := hw
    simp only [List.length_cons] at hl
    cases r with
    | ok vs =>
      by_cases hlast : m = 1
      · -- the last response
        have hrs : rs = [] := by
          cases rs with
          | nil => rfl
          | cons _ _ => simp at hl; omega
        subst hrs
        simp [deliver, handle, tryClose, h1, h2, h3, h4, hlast, Resp.isErr, Resp.vals]
      · have hw' : Waiting (deliver false c (.ok vs)) (m - 1) := by
          refine ⟨?_, ?_, ?_, ?_⟩ <;> simp [deliver, handle, tryClose, h1, h2, h3, h4] <;> (try split) <;> simp_all <;> omega
        have ih := run_waiting rs (deliver false c (.ok vs)) (m - 1) hw' (by omega) (by omega)
        simp only [List.foldl_cons]
        obtain ⟨i1, i2, i3, i4⟩ := ih
        refine ⟨i1, i2, ?_, ?_⟩
        · rw [i3]; simp [Resp.isErr]
        · intro hall
          have := i4 (fun r hr => hall r (by simp [hr]))
          rw [this]
          have hres : (deliver false c (.ok vs)).results = c.results ++ vs := by
            simp [deliver, handle, tryClose, h2]; split <;> rfl
          simp [hres, Resp.vals, List.append_assoc]
    | err =>
      have hc : (deliver false c .err).completed = true ∧ (deliver false c .err).closes = 1 ∧
          (deliver false c .err).err = true := by
        simp [deliver, handle, tryClose, h2, h4]
      simp only [List.foldl_cons]
      rw [foldl_completed false rs _ hc.1]
      refine ⟨hc.1, hc.2.1, ?_, ?_⟩
      · simp [hc.2.2, Resp.isErr]
      · intro hall; have := hall .err (by simp); simp [Resp.isErr] at this
    | bad =>
      have hc : (deliver false c .bad).completed = true ∧ (deliver false c .bad).closes = 1 ∧
          (deliver false c .bad).err = true := by
        simp [deliver, handle, tryClose, h2, h4]
      simp only [List.foldl_cons]
      rw [foldl_completed false rs _ hc.1]
      refine ⟨hc.1, hc.2.1, ?_, ?_⟩
      · simp [hc.2.2, Resp.isErr]
      · intro hall; have := hall .bad (by simp); simp [Resp.isErr] at this

end LinVerif.BrokerMeta
