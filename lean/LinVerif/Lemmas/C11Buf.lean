/-
C11 helper lemmas, part 1: the field write buffer (one page) refines the reference slot map.
-/
import LinVerif.Model.MemDB

namespace LinVerif.Lemmas.C11
open LinVerif LinVerif.NaiveQuery LinVerif.MemDB

/-! ### the aggregates -/

/-- associativity of an aggregate (holds for all six). -/
def AggAssoc (A : AggType) : Prop := ∀ a b c : Int, A.agg (A.agg a b) c = A.agg a (A.agg b c)

/-- commutativity (sum, count, min, max). -/
def AggComm (A : AggType) : Prop := ∀ a b : Int, A.agg a b = A.agg b a

theorem agg_assoc (A : AggType) : AggAssoc A := by
  intro a b c
  cases A <;> simp only [AggType.agg]
  · omega
  · omega
  · split <;> split <;> (try split) <;> (try split) <;> omega
  · split <;> split <;> (try split) <;> (try split) <;> omega

def AggType.isComm : AggType → Bool
  | .sum | .count | .min | .max => true
  | .last | .first => false

theorem agg_comm_of_isComm {A : AggType} (h : AggType.isComm A = true) : AggComm A := by
  intro a b
  cases A <;> simp only [AggType.agg] <;> simp [AggType.isComm] at h
  · omega
  · omega
  · split <;> split <;> omega
  · split <;> split <;> omega

/-! ### `ocomb` -/

@[simp] theorem ocomb_none_left (A : AggType) (x : Option Int) : ocomb A none x = x := by
  cases x <;> rfl

@[simp] theorem ocomb_none_right (A : AggType) (x : Option Int) : ocomb A x none = x := by
  cases x <;> rfl

theorem ocomb_assoc (A : AggType) (x y z : Option Int) :
    ocomb A (ocomb A x y) z = ocomb A x (ocomb A y z) := by
  cases x <;> cases y <;> cases z <;> simp [ocomb, agg_assoc A _ _ _]

theorem ocomb_comm {A : AggType} (h : AggComm A) (x y : Option Int) : ocomb A x y = ocomb A y x := by
  cases x <;> cases y <;> simp [ocomb, h _ _]

/-- `mergeCell` combines the compressed (older) value first. -/
theorem mergeCell_eq (A : AggType) (n o : Option Int) : mergeCell A n o = ocomb A o n := by
  cases n <;> cases o <;> rfl

/-! ### the reference slot map -/

theorem refSlots_append (A : AggType) (ws : List (Nat × Int)) (s : Nat) (v : Int) (t : Nat) :
    refSlots A (ws ++ [(s, v)]) t =
      if s = t then ocomb A (refSlots A ws t) (some v) else refSlots A ws t := by
  simp [refSlots, List.foldl_append]

@[simp] theorem refSlots_nil (A : AggType) (t : Nat) : refSlots A [] t = none := rfl

/-! ### cells -/

theorem cellAt_set (cs : Cells) (i j : Nat) (v : Option Int) :
    cellAt (cs.set i v) j = if i = j ∧ i < cs.length then v else cellAt cs j := by
  unfold cellAt
  by_cases h : i = j
  · subst h
    by_cases hl : i < cs.length
    · simp [hl]
    · have : cs.length ≤ i := Nat.le_of_not_lt hl
      simp [hl, List.getElem?_eq_none this]
  · simp [h, List.getElem?_set_ne h]

theorem cellAt_map_none (cs : Cells) (j : Nat) : cellAt (cs.map (fun _ => (none : Option Int))) j = none := by
  unfold cellAt
  cases h : (cs.map (fun _ => (none : Option Int)))[j]? with
  | none => rfl
  | some c =>
    rw [List.getElem?_map] at h
    cases h2 : cs[j]? with
    | none => simp [h2] at h
    | some d => simp [h2] at h; simp [← h]

theorem cellAt_replicate_none (w j : Nat) : cellAt (List.replicate w (none : Option Int)) j = none := by
  unfold cellAt
  cases h : (List.replicate w (none : Option Int))[j]? with
  | none => rfl
  | some c =>
    rw [List.getElem?_replicate] at h
    split at h
    · simp at h; simp [← h]
    · simp at h

theorem cellAt_ge_length (cs : Cells) (j : Nat) (h : cs.length ≤ j) : cellAt cs j = none := by
  unfold cellAt
  simp [List.getElem?_eq_none h]

theorem cellAt_mergeRange (A : AggType) (b : Buf) (lo hi i : Nat) (h : i < hi + 1 - lo) :
    cellAt (mergeRange A b lo hi) i = mergeCell A (curValue b (lo + i)) (oldValue b.compress (lo + i)) := by
  unfold cellAt mergeRange mergeRangeG
  simp [List.getElem?_map, List.getElem?_range h]

theorem mergeRange_length (A : AggType) (b : Buf) (lo hi : Nat) : (mergeRange A b lo hi).length = hi + 1 - lo := by
  simp [mergeRange, mergeRangeG]

/-! ### the page invariant -/

/-- invariant of a page under safe writes. -/
structure BufInv (w : Nat) (b : Buf) : Prop where
  wpos : 0 < w
  len : b.cells.length = w
  empty : b.hasData = false → ∀ i, cellAt b.cells i = none
  endLt : b.hasData = true → b.endd < w
  marked : b.hasData = true → ∀ i, cellAt b.cells i ≠ none → i ≤ b.endd
  endMarked : b.hasData = true → cellAt b.cells b.endd ≠ none

theorem BufInv.fresh {w : Nat} (hw : 0 < w) : BufInv w (Buf.fresh w) := by
  refine ⟨hw, by simp [Buf.fresh], ?_, ?_, ?_, ?_⟩ <;> simp [Buf.fresh, cellAt_replicate_none]

/-- slots outside the current window range have no current value. -/
theorem curValue_none_of_out (b : Buf) (t : Nat) (h : t < b.start ∨ t > b.start + b.endd) : curValue b t = none := by
  simp [curValue, h]

/-- the lookup of the compacted buffer: every slot gets `mergeCell (cur) (old)`. -/
theorem oldValue_compact (A : AggType) (b : Buf) (t : Nat) :
    oldValue (compact A b).compress t = mergeCell A (curValue b t) (oldValue b.compress t) := by
  have hr : (compact A b).compress = some ⟨(slotRange b).1, mergeRange A b (slotRange b).1 (slotRange b).2⟩ := rfl
  rw [hr]
  have hL : ∀ (s : Nat) (cs : Cells), oldValue (some ⟨s, cs⟩) t = if t < s then none else cellAt cs (t - s) :=
    fun _ _ => rfl
  rw [hL]
  -- bounds of the slot range
  have hlo : (slotRange b).1 ≤ b.start := by
    unfold slotRange; cases hc : b.compress <;> simp <;> split <;> omega
  have hhi : b.start + b.endd ≤ (slotRange b).2 := by
    unfold slotRange; cases hc : b.compress <;> simp <;> split <;> omega
  have hcov : ∀ c, b.compress = some c → (slotRange b).1 ≤ c.start ∧
      (c.cells.length ≠ 0 → c.start + c.cells.length - 1 ≤ (slotRange b).2) := by
    intro c hc
    unfold slotRange; simp [hc]
    constructor
    · split <;> omega
    · intro _; split <;> omega
  by_cases h1 : t < (slotRange b).1
  · -- below the range: nothing there
    simp only [h1, if_true]
    have hcur : curValue b t = none := curValue_none_of_out b t (Or.inl (by omega))
    have hold : oldValue b.compress t = none := by
      cases hc : b.compress with
      | none => rfl
      | some c =>
        have := (hcov c hc).1
        simp [oldValue, show t < c.start by omega]
    rw [hcur, hold]; rfl
  · simp only [h1, if_false]
    by_cases h2 : t - (slotRange b).1 < (slotRange b).2 + 1 - (slotRange b).1
    · rw [cellAt_mergeRange A b _ _ _ h2]
      have : (slotRange b).1 + (t - (slotRange b).1) = t := by omega
      rw [this]
    · -- above the range
      rw [cellAt_ge_length _ _ (by rw [mergeRange_length]; omega)]
      have hcur : curValue b t = none := curValue_none_of_out b t (Or.inr (by omega))
      have hold : oldValue b.compress t = none := by
        cases hc : b.compress with
        | none => rfl
        | some c =>
          have hcv := hcov c hc
          simp only [oldValue]
          split
          · rfl
          · by_cases hl : c.cells.length = 0
            · exact cellAt_ge_length _ _ (by omega)
            · have := hcv.2 hl
              exact cellAt_ge_length _ _ (by omega)
      rw [hcur, hold]; rfl

/-- compaction keeps what a memory query sees, for every aggregate (the merge combines the
compressed value first, exactly as the memory query does). -/
theorem memView_compact (A : AggType) (b : Buf) (hd : b.hasData = true) (t : Nat) :
    memView A (compact A b) t = memView A b t := by
  have hc : (compact A b).hasData = false := rfl
  simp only [memView, hc, hd, if_true, oldValue_compact, mergeCell_eq]
  simp

theorem BufInv.compact {w : Nat} {b : Buf} (A : AggType) (hi : BufInv w b) : BufInv w (compact A b) := by
  refine ⟨hi.wpos, by simp [MemDB.compact, MemDB.compactG, hi.len], ?_, ?_, ?_, ?_⟩
  · intro _ i; simp [MemDB.compact, MemDB.compactG, cellAt_map_none]
  · intro h; simp [MemDB.compact, MemDB.compactG] at h
  · intro h; simp [MemDB.compact, MemDB.compactG] at h
  · intro h; simp [MemDB.compact, MemDB.compactG] at h

/-- `writeFirstPoint` on a page without data. -/
theorem memView_writeFirst (A : AggType) {w : Nat} (b : Buf) (hi : BufInv w b) (hd : b.hasData = false)
    (slot : Nat) (v : Int) (t : Nat) :
    memView A (writeFirst b slot v) t =
      if slot = t then ocomb A (memView A b t) (some v) else memView A b t := by
  have hlen : 0 < b.cells.length := by rw [hi.len]; exact hi.wpos
  simp only [memView, writeFirst, hd]
  simp only [curValue]
  by_cases hst : slot = t
  · subst hst
    simp [cellAt_set, hlen]
  · simp only [hst, if_false]
    have : t < slot ∨ slot < t := by omega
    simp [this]

theorem BufInv.writeFirst {w : Nat} {b : Buf} (hi : BufInv w b) (hd : b.hasData = false) (slot : Nat) (v : Int) :
    BufInv w (writeFirst b slot v) := by
  have hlen : 0 < b.cells.length := by rw [hi.len]; exact hi.wpos
  refine ⟨hi.wpos, by simp [MemDB.writeFirst, hi.len], ?_, ?_, ?_, ?_⟩
  · intro h; simp [MemDB.writeFirst] at h
  · intro _; simp [MemDB.writeFirst]; exact hi.wpos
  · intro _ i hne
    simp only [MemDB.writeFirst, cellAt_set] at hne ⊢
    by_cases h0 : 0 = i
    · omega
    · simp [h0, hi.empty hd i] at hne
  · intro _
    simp [MemDB.writeFirst, cellAt_set, hlen]

/-- one write refines one reference append — for every aggregate, every slot order. -/
theorem write_step (w : Nat) (A : AggType) (b : Buf) (hi : BufInv w b) (slot : Nat) (v : Int) :
    BufInv w (write w A b slot v) ∧
    ∀ t, memView A (write w A b slot v) t =
      if slot = t then ocomb A (memView A b t) (some v) else memView A b t := by
  unfold write writeG
  by_cases hd : b.hasData = false
  · -- no data written before
    simp only [hd, Bool.not_false, if_true]
    exact ⟨hi.writeFirst hd slot v, memView_writeFirst A b hi hd slot v⟩
  · have hd' : b.hasData = true := by cases h : b.hasData <;> simp_all
    simp only [hd', Bool.not_true, Bool.false_eq_true, if_false]
    by_cases hout : slot < b.start ∨ slot > b.start + w - 1
    · -- out of the window: compact, then first point
      simp only [hout, if_true]
      have hic := hi.compact A
      have hdc : (compact A b).hasData = false := rfl
      refine ⟨hic.writeFirst hdc slot v, ?_⟩
      intro t
      rw [memView_writeFirst A (compact A b) hic hdc slot v t, memView_compact A b hd' t]
    · -- inside the window
      simp only [hout, if_false]
      have hge : b.start ≤ slot := by omega
      have hlt : slot - b.start < w := by have := hi.wpos; omega
      have hlen : slot - b.start < b.cells.length := by rw [hi.len]; exact hlt
      cases hcell : cellAt b.cells (slot - b.start) with
      | some old =>
        -- same slot again: aggregate in place
        simp only
        have hle : slot - b.start ≤ b.endd := hi.marked hd' _ (by simp [hcell])
        refine ⟨⟨hi.wpos, by simp [hi.len], ?_, ?_, ?_, ?_⟩, ?_⟩
        · intro h; simp [hd'] at h
        · intro _; exact hi.endLt hd'
        · intro _ i hne
          show i ≤ b.endd
          simp only [cellAt_set] at hne
          by_cases h0 : slot - b.start = i
          · omega
          · simp [h0] at hne; exact hi.marked hd' i hne
        · intro _
          show cellAt (b.cells.set (slot - b.start) (some (A.agg old v))) b.endd ≠ none
          simp only [cellAt_set]
          by_cases h0 : slot - b.start = b.endd
          · simp [h0]
            rw [h0] at hlen
            simp [hlen]
          · simp [h0]; exact hi.endMarked hd'
        · intro t
          simp only [memView, hd', if_true, curValue]
          by_cases hst : slot = t
          · subst hst
            have : ¬(slot < b.start ∨ slot > b.start + b.endd) := by omega
            simp [this, cellAt_set, hlen, hcell, ocomb_assoc]
            cases oldValue b.compress slot <;> simp [ocomb, agg_assoc A _ _ _]
          · simp only [hst, if_false]
            by_cases hr : t < b.start ∨ t > b.start + b.endd
            · simp [hr]
            · simp only [hr, if_false, cellAt_set]
              have : ¬(slot - b.start = t - b.start) := by omega
              simp [this]
      | none =>
        -- first time for this slot inside the window: `end` grows or stays
        simp only [if_true]
        have hne : slot - b.start ≠ b.endd := by
          intro h; have := hi.endMarked hd'; rw [← h, hcell] at this; exact this rfl
        have hendlt := hi.endLt hd'
        refine ⟨⟨hi.wpos, by simp [hi.len], ?_, ?_, ?_, ?_⟩, ?_⟩
        · intro h; simp [hd'] at h
        · intro _
          show (if slot - b.start > b.endd then slot - b.start else b.endd) < w
          split <;> omega
        · intro _ i hne'
          show i ≤ (if slot - b.start > b.endd then slot - b.start else b.endd)
          simp only [cellAt_set] at hne'
          by_cases h0 : slot - b.start = i
          · split <;> omega
          · simp [h0] at hne'
            have := hi.marked hd' i hne'
            split <;> omega
        · intro _
          show cellAt (b.cells.set (slot - b.start) (some v))
            (if slot - b.start > b.endd then slot - b.start else b.endd) ≠ none
          simp only [cellAt_set]
          by_cases hgt : slot - b.start > b.endd
          · simp [hgt, hlen]
          · simp only [hgt, if_false]
            have : ¬(slot - b.start = b.endd ∧ slot - b.start < b.cells.length) := fun h => hne h.1
            simp only [this, if_false]
            exact hi.endMarked hd'
        · intro t
          simp only [memView, hd', if_true, curValue]
          show ocomb A (oldValue b.compress t)
              (if t < b.start ∨ t > b.start + (if slot - b.start > b.endd then slot - b.start else b.endd) then none
                else cellAt (b.cells.set (slot - b.start) (some v)) (t - b.start)) = _
          by_cases hst : slot = t
          · subst hst
            have h1 : ¬(slot < b.start ∨
                slot > b.start + (if slot - b.start > b.endd then slot - b.start else b.endd)) := by
              split <;> omega
            simp only [h1, if_false, cellAt_set, hlen, and_self, if_true]
            -- before the write the slot had no current value
            have hbefore : (if slot < b.start ∨ slot > b.start + b.endd then (none : Option Int)
                else cellAt b.cells (slot - b.start)) = none := by
              split
              · rfl
              · exact hcell
            rw [hbefore]
            simp
          · simp only [hst, if_false]
            by_cases hr : t < b.start ∨ t > b.start + b.endd
            · -- outside the old range: still nothing
              simp only [hr, if_true]
              by_cases hr2 : t < b.start ∨
                  t > b.start + (if slot - b.start > b.endd then slot - b.start else b.endd)
              · simp [hr2]
              · simp only [hr2, if_false, cellAt_set]
                have h3 : ¬(slot - b.start = t - b.start ∧ slot - b.start < b.cells.length) := by
                  intro h; omega
                simp only [h3, if_false]
                have : cellAt b.cells (t - b.start) = none := by
                  cases hc : cellAt b.cells (t - b.start) with
                  | none => rfl
                  | some x =>
                    have := hi.marked hd' (t - b.start) (by simp [hc])
                    omega
                simp [this]
            · have hr2 : ¬(t < b.start ∨
                  t > b.start + (if slot - b.start > b.endd then slot - b.start else b.endd)) := by
                split <;> omega
              simp only [hr, hr2, if_false, cellAt_set]
              have h3 : ¬(slot - b.start = t - b.start ∧ slot - b.start < b.cells.length) := by
                intro h; omega
              simp [h3]

theorem refSlots_cons (A : AggType) (x : Nat × Int) (ws : List (Nat × Int)) (t : Nat) :
    refSlots A (x :: ws) t = ocomb A (if x.1 = t then some x.2 else none) (refSlots A ws t) := by
  unfold refSlots
  simp only [List.foldl_cons]
  -- generalise the accumulator
  have gen : ∀ (l : List (Nat × Int)) (acc : Option Int),
      l.foldl (fun acc w => if w.1 = t then ocomb A acc (some w.2) else acc) acc =
        ocomb A acc (l.foldl (fun acc w => if w.1 = t then ocomb A acc (some w.2) else acc) none) := by
    intro l
    induction l with
    | nil => intro acc; simp
    | cons y l ih =>
      intro acc
      simp only [List.foldl_cons]
      rw [ih, ih (if y.1 = t then ocomb A none (some y.2) else none)]
      by_cases hy : y.1 = t <;> simp [hy, ocomb_assoc]
  rw [gen]
  by_cases hx : x.1 = t <;> simp [hx]

/-- the page after any run: invariant, and the memory view is the view before combined with the
reference slot map of the run. -/
theorem run_refines (w : Nat) (A : AggType) :
    ∀ (ws : List (Nat × Int)) (b : Buf), BufInv w b →
      BufInv w (runWrites w A b ws) ∧
      ∀ t, memView A (runWrites w A b ws) t = ocomb A (memView A b t) (refSlots A ws t) := by
  intro ws
  induction ws with
  | nil => intro b hi; exact ⟨hi, by intro t; simp [runWrites]⟩
  | cons x rest ih =>
    intro b hi
    obtain ⟨hi1, hv1⟩ := write_step w A b hi x.1 x.2
    obtain ⟨hi2, hv2⟩ := ih (write w A b x.1 x.2) hi1
    refine ⟨by simpa [runWrites] using hi2, ?_⟩
    intro t
    have : runWrites w A b (x :: rest) = runWrites w A (write w A b x.1 x.2) rest := by simp [runWrites]
    rw [this, hv2 t, hv1 t, refSlots_cons]
    by_cases hx : x.1 = t <;> simp [hx, ocomb_assoc]

/-- the selected variant is the repaired code when the two flags of the write buffer are set. -/
theorem writeV_fixed (cfg : Cfg) (h1 : cfg.endGuard = true) (h2 : cfg.mergeOldFirst = true) :
    writeV cfg = write := by
  funext w A b slot v
  simp only [writeV, write, h1, h2, if_true]
  rfl

theorem flushCellsV_fixed (cfg : Cfg) (h2 : cfg.mergeOldFirst = true) : flushCellsV cfg = flushCells := by
  funext A b lo hi
  simp [flushCellsV, flushCells, mergeRange, h2]

end LinVerif.Lemmas.C11
