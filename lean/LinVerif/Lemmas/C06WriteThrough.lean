/-
C06 helper lemmas, part 5: write-through of all positions holds along EVERY history, explicit
resets (SetSeq, SetAppendedSeq, out-of-window SetConsumedSeq) included.
-/
import LinVerif.Lemmas.C06Inv

set_option linter.unusedSimpArgs false
set_option linter.unusedVariables false

namespace LinVerif.FanOut
open LinVerif.Map

/-- the meta pages hold the in-memory positions -/
structure WT (s : State) : Prop where
  qApp : s.q.mAppended = s.q.appended
  qAck : s.q.mAck = s.q.ack
  grp : ∀ g grp, lookup s.live g = some grp → lookup s.metas g = some { consumed := grp.consumed, ack := grp.ack }

theorem WT.init : WT State.init := ⟨rfl, rfl, by intro g grp h; simp [State.init, lookup] at h⟩

theorem WT.of_base {s : State} (h : Base s) : WT s := ⟨h.q.mApp, h.q.mAck, h.grp⟩

theorem WT.putGroup {s : State} (h : WT s) (g : Nat) (grp' : Group) : WT (s.putGroup g grp') := by
  refine ⟨h.qApp, h.qAck, ?_⟩
  intro g2 grp2 hl
  change lookup (upsert s.live g grp') g2 = some grp2 at hl
  show lookup (upsert s.metas g _) g2 = _
  by_cases hg : g = g2
  · subst hg
    rw [lookup_upsert_self] at hl
    cases hl
    rw [lookup_upsert_self]
  · rw [lookup_upsert_ne _ _ _ _ hg] at hl
    rw [lookup_upsert_ne _ _ _ _ hg]
    exact h.grp g2 grp2 hl

theorem setAck_m (q : Queue) (n : Int) (h : q.mAck = q.ack) : (q.setAck n).mAck = (q.setAck n).ack := by
  unfold Queue.setAck; split
  · rfl
  · exact h
theorem setAck_mApp (q : Queue) (n : Int) : (q.setAck n).mAppended = q.mAppended ∧ (q.setAck n).appended = q.appended := by
  unfold Queue.setAck; split <;> exact ⟨rfl, rfl⟩
theorem gc_m (q : Queue) : q.gc.mAppended = q.mAppended ∧ q.gc.appended = q.appended ∧ q.gc.mAck = q.mAck ∧ q.gc.ack = q.ack := by
  unfold Queue.gc; split
  · exact ⟨rfl, rfl, rfl, rfl⟩
  · split <;> exact ⟨rfl, rfl, rfl, rfl⟩
theorem reopen_m (q : Queue) : q.reopen.mAppended = q.reopen.appended ∧ q.reopen.mAck = q.reopen.ack ∧
    q.reopen.appended = q.mAppended ∧ q.reopen.ack = q.mAck := by
  unfold Queue.reopen; split <;> exact ⟨rfl, rfl, rfl, rfl⟩

theorem setAppended_metas_eq (s : State) (n : Int) :
    (s.setAppended n).metas = s.metas.map (fun p => (p.1,
      (fun k (m : Meta) => match lookup s.live k with
        | some _ => ({ consumed := n, ack := n } : Meta)
        | none => m) p.1 p.2)) := by
  show List.map _ s.metas = List.map _ s.metas
  apply List.map_congr_left
  intro p _
  obtain ⟨k, m⟩ := p
  cases h : lookup s.live k <;> simp [h]

/-- write-through is preserved by EVERY operation -/
theorem WT.step {v : Variant} {s : State} (o : Op) (h : WT s) : WT (step v s o).1 := by
  cases o with
  | append len =>
    simp only [FanOut.step]
    split
    · exact h
    · exact ⟨rfl, h.qAck, h.grp⟩
  | consume g =>
    simp only [FanOut.step, State.consume]
    split
    · exact h
    · split
      · exact h
      · split
        · exact h.putGroup _ _
        · exact h
  | ack g n =>
    simp only [FanOut.step, State.ackGroup]
    split
    · exact h
    · split
      · exact h.putGroup _ _
      · exact h
  | setConsumed g n =>
    simp only [FanOut.step]
    split
    · exact h
    · exact h.putGroup _ _
  | setSeq g n =>
    simp only [FanOut.step]
    split
    · exact h
    · exact h.putGroup _ _
  | setAppended n =>
    refine ⟨rfl, rfl, ?_⟩
    intro g grp hl
    change lookup (s.setAppended n).live g = some grp at hl
    show lookup (s.setAppended n).metas g = _
    rw [setAppended_metas_eq]
    have hm := lookup_map_val (fun k (m : Meta) => match lookup s.live k with
        | some _ => ({ consumed := n, ack := n } : Meta)
        | none => m) s.metas g
    have hl' := lookup_map_val (fun _ (x : Group) => ({ x with consumed := n, ack := n } : Group)) s.live g
    have hl2 : lookup (s.setAppended n).live g =
        (lookup s.live g).map (fun x => ({ x with consumed := n, ack := n } : Group)) := hl'
    rw [hl2] at hl
    refine Eq.trans hm ?_
    cases hlive : lookup s.live g with
    | none => rw [hlive] at hl; cases hl
    | some grp0 =>
      rw [hlive] at hl
      simp only [Option.map_some, Option.some.injEq] at hl
      subst hl
      rw [h.grp g grp0 hlive]
      simp [hlive]
  | sync =>
    show WT s.sync
    unfold State.sync
    split
    · exact h
    · split
      · exact ⟨by rw [(setAck_mApp _ _).1, (setAck_mApp _ _).2]; exact h.qApp, setAck_m _ _ h.qAck, h.grp⟩
      · exact h
  | gc =>
    have := gc_m s.q
    exact ⟨by show s.q.gc.mAppended = s.q.gc.appended; rw [this.1, this.2.1]; exact h.qApp,
      by show s.q.gc.mAck = s.q.gc.ack; rw [this.2.2.1, this.2.2.2]; exact h.qAck, h.grp⟩
  | create g =>
    show WT (s.create v g)
    unfold State.create
    split
    · exact h
    · refine ⟨h.qApp, h.qAck, ?_⟩
      intro g2 grp2 hl
      change lookup (upsert s.live g _) g2 = some grp2 at hl
      show lookup (upsert s.metas g _) g2 = _
      by_cases hg : g = g2
      · subst hg
        rw [lookup_upsert_self] at hl
        cases hl
        rw [lookup_upsert_self, newGroup_toGroup]
      · rw [lookup_upsert_ne _ _ _ _ hg] at hl
        rw [lookup_upsert_ne _ _ _ _ hg]
        exact h.grp g2 grp2 hl
  | stop g =>
    refine ⟨h.qApp, h.qAck, ?_⟩
    intro g2 grp2 hl
    change lookup (erase s.live g) g2 = some grp2 at hl
    show lookup s.metas g2 = _
    by_cases hg : g = g2
    · subst hg
      rw [lookup_erase_self] at hl
      cases hl
    · rw [lookup_erase_ne _ _ _ hg] at hl
      exact h.grp g2 grp2 hl
  | pause g =>
    simp only [FanOut.step]
    split
    · exact h
    · rename_i grp hgrp
      refine ⟨h.qApp, h.qAck, ?_⟩
      intro g2 grp2 hl
      change lookup (upsert s.live g _) g2 = some grp2 at hl
      show lookup s.metas g2 = _
      by_cases hg : g = g2
      · subst hg
        rw [lookup_upsert_self] at hl
        cases hl
        exact h.grp g grp hgrp
      · rw [lookup_upsert_ne _ _ _ _ hg] at hl
        exact h.grp g2 grp2 hl
  | reopen =>
    have hm := reopen_m s.q
    refine ⟨hm.1, hm.2.1, ?_⟩
    intro g2 grp2 hl
    change lookup (s.reopen v).live g2 = some grp2 at hl
    show lookup (s.reopen v).metas g2 = _
    rw [reopen_live_lookup] at hl
    cases hmm : lookup (s.reopen v).metas g2 with
    | none => rw [hmm] at hl; cases hl
    | some m =>
      rw [hmm] at hl
      simp only [Option.map_some, Option.some.injEq] at hl
      subst hl
      rw [newGroup_toGroup]

theorem WT.run (v : Variant) : ∀ (ops : List Op) (s : State), WT s → WT (run v s ops)
  | [], _, h => h
  | o :: os, s, h => WT.run v os _ (h.step o)

/-- what reopen makes of a live group, in any write-through state: `NewConsumerGroup` applied to the
positions the group had -/
theorem reopen_group_of_wt (v : Variant) (s : State) (h : WT s) (g : Nat) (grp : Group)
    (hl : lookup s.live g = some grp) :
    lookup (step v s .reopen).1.live g =
      some (newGroup v s.q.ack (some { consumed := grp.consumed, ack := grp.ack })).toGroup := by
  show lookup (s.reopen v).live g = _
  rw [reopen_live_lookup, reopen_metas_lookup, h.grp g grp hl, (reopen_m s.q).2.2.2, h.qAck]
  rfl

end LinVerif.FanOut
