/-
C20 helper lemmas, iteration: the Go iterator's stack machine over the LOUDS vectors
(`LoudsIter`) simulates the zipper of `C20IterZip`, hence enumerates the tree in order.
-/
import LinVerif.Lemmas.C20IterZip
import LinVerif.Model.LoudsIter

set_option linter.unusedSimpArgs false
set_option linter.unusedVariables false

namespace LinVerif.Lemmas.C20
open LinVerif.TrieTree LinVerif.Louds LinVerif.LoudsIter

/-! ### the number of levels of the encoding is the height of the tree -/

theorem exists_child_height : ∀ (es : Entries), 1 ≤ Entries.height es →
    ∃ c ∈ Entries.children es, c.height = Entries.height es
  | .nil, h => by simp [Entries.height] at h
  | .leaf _ _ _ r, h => by
    simp only [Entries.height] at h ⊢
    obtain ⟨c, hc, hh⟩ := exists_child_height r h
    exact ⟨c, by simpa [Entries.children] using hc, hh⟩
  | .child _ n r, h => by
    simp only [Entries.height, Entries.children, List.mem_cons]
    by_cases hmax : Entries.height r ≤ n.height
    · exact ⟨n, Or.inl rfl, by omega⟩
    · have hr : 1 ≤ Entries.height r := by omega
      obtain ⟨c, hc, hh⟩ := exists_child_height r hr
      exact ⟨c, Or.inr hc, by omega⟩

theorem nodeLevels_length_ge : ∀ (fuel : Nat) (ns : List Node) (h : Nat), h ≤ fuel →
    (∃ n ∈ ns, h ≤ n.height) → h ≤ (nodeLevels fuel ns).length
  | _, _, 0, _, _ => Nat.zero_le _
  | 0, _, h + 1, hf, _ => by omega
  | fuel + 1, [], h + 1, _, ⟨n, hn, _⟩ => by simp at hn
  | fuel + 1, m :: ms, h + 1, hf, ⟨n, hn, hh⟩ => by
    simp only [nodeLevels, List.length_cons]
    cases h with
    | zero => omega
    | succ k =>
      have : k + 1 ≤ (nodeLevels fuel (childrenOf (m :: ms))).length := by
        apply nodeLevels_length_ge fuel _ (k + 1) (by omega)
        cases n with
        | mk p es =>
          simp only [Node.height] at hh
          obtain ⟨c, hc, hch⟩ := exists_child_height es (by omega)
          refine ⟨c, ?_, by omega⟩
          simp only [childrenOf, List.mem_flatMap]
          exact ⟨.mk p es, hn, hc⟩
      omega

theorem encode_height_ge (t : Node) : t.height ≤ (encode t).height := by
  unfold encode flatten levelsOf
  simp only [List.length_map]
  exact nodeLevels_length_ge t.height [t] t.height (Nat.le_refl _) ⟨t, by simp, Nat.le_refl _⟩

/-! ### facts about one frame -/

/-- the frame names an item of a node of the level order -/
def FrameOK (t : Node) (fr : Frame) : Prop :=
  (bfs t)[fr.n]? = some fr.node ∧ items fr.node.entries = fr.before ++ fr.cur :: items fr.after

theorem items_nil_iff (es : Entries) : items es = [] ↔ es.isNil = true := by
  cases es <;> simp [items, Entries.isNil]

theorem frame_item {t : Node} {fr : Frame} (h : FrameOK t fr) : (flatItems t)[fr.pos t]? = some fr.cur := by
  obtain ⟨A, B, hF, hA⟩ := flatItems_split t fr.n fr.node h.1
  rw [hF, h.2]
  unfold Frame.pos
  rw [← hA]
  simp [List.getElem?_append_right, List.getElem?_append_left]

theorem frame_label {t : Node} {fr : Frame} (h : FrameOK t fr) :
    label (encode t) (fr.pos t) = fr.cur.label := by
  unfold label
  rw [encode_labels, List.getD_eq_getElem?_getD, List.getElem?_map, frame_item h]; rfl

theorem frame_hasChild {t : Node} {fr : Frame} (h : FrameOK t fr) :
    hasChild (encode t) (fr.pos t) = fr.cur.isChild := by
  unfold hasChild
  rw [encode_hasChild, List.getD_eq_getElem?_getD, List.getElem?_map, frame_item h]; rfl

theorem frame_size {fr : Frame} {t : Node} (h : FrameOK t fr) :
    fr.node.entries.length = fr.before.length + 1 + (items fr.after).length := by
  have := congrArg List.length h.2
  rw [items_length] at this
  simp at this; omega

theorem frame_end {t : Node} (hwf : WFNode t) {fr : Frame} (h : FrameOK t fr) :
    isEndOfNode (encode t) (fr.pos t) = fr.after.isNil := by
  obtain ⟨hlt, hN⟩ := List.getElem?_eq_some_iff.1 h.1
  unfold isEndOfNode Frame.pos offset
  rw [encode_louds, List.map_take]
  have hn' : fr.n < ((bfs t).map (fun m => m.entries.length)).length := by simpa using hlt
  have hsz : ((bfs t).map (fun m => m.entries.length))[fr.n] = fr.node.entries.length := by simp [hN]
  have hsize := frame_size h
  have := louds_after_index _ fr.n fr.before.length (sizes_pos hwf) hn' (by rw [hsz]; omega)
  rw [this, hsz, hsize]
  cases hfa : fr.after with
  | nil => simp [items, Entries.isNil]
  | leaf _ _ _ _ => simp [items, Entries.isNil]
  | child _ _ _ => simp [items, Entries.isNil]

theorem frame_pos_lt {t : Node} {fr : Frame} (h : FrameOK t fr) : fr.pos t < (encode t).louds.length := by
  have := (List.getElem?_eq_some_iff.1 (frame_item h)).1
  have hl : (encode t).louds.length = (flatItems t).length := by
    rw [encode_louds, length_loudsOfSizes]
    unfold flatItems
    rw [length_flatMap_items]
  omega

/-- the loop condition of `Next` at `pos + 1` -/
theorem frame_next_cond {t : Node} (hwf : WFNode t) {fr : Frame} (h : FrameOK t fr) :
    (decide (fr.pos t + 1 ≥ (encode t).louds.length) || (encode t).louds.getD (fr.pos t + 1) false)
      = fr.after.isNil := by
  have he := frame_end hwf h
  have hlt := frame_pos_lt h
  unfold isEndOfNode at he
  rw [← he]
  congr 1
  by_cases hx : fr.pos t + 1 ≥ (encode t).louds.length
  · have : fr.pos t = (encode t).louds.length - 1 := by omega
    simp [hx, this]; omega
  · have : ¬ fr.pos t = (encode t).louds.length - 1 := by omega
    simp [hx, this]

theorem frame_prefix {t : Node} {fr : Frame} (h : FrameOK t fr) : prefixOf (encode t) fr.n = fr.node.pfx :=
  prefixOf_eq t fr.n fr.node h.1

/-! ### stacks of frames -/

/-- deepest frame first; each frame's node is the child named by the frame below it -/
def Chain (t : Node) : List Frame → Prop
  | [] => True
  | [fr] => FrameOK t fr ∧ fr.n = 0 ∧ fr.node = t ∧ fr.kb = fr.node.pfx
  | fr :: p :: below =>
    FrameOK t fr ∧ (∃ l, p.cur = .child l fr.node ∧ fr.kb = p.kb ++ [l] ++ fr.node.pfx) ∧
      fr.n = childNodeID (encode t) (p.pos t) ∧ Chain t (p :: below)

theorem Chain.frameOK {t : Node} : ∀ {frames : List Frame}, Chain t frames → ∀ fr ∈ frames, FrameOK t fr
  | [], _, fr, h => by simp at h
  | [f], hc, fr, h => by
    simp only [List.mem_singleton] at h; subst h; exact hc.1
  | f :: p :: below, hc, fr, h => by
    rcases List.mem_cons.1 h with rfl | h
    · exact hc.1
    · exact Chain.frameOK hc.2.2.2 fr h

theorem Chain.tail {t : Node} {fr : Frame} {below : List Frame} (h : Chain t (fr :: below)) : Chain t below := by
  cases below with
  | nil => trivial
  | cons p r => exact h.2.2.2

theorem child_mem_of_items {es : Entries} {l : Nat} {c : Node} (h : Item.child l c ∈ items es) :
    c ∈ Entries.children es := by
  rw [children_items]
  exact List.mem_filterMap.2 ⟨_, h, rfl⟩

/-- a stack is no deeper than the tree is high -/
theorem Chain.depth {t : Node} : ∀ {frames : List Frame} {fr : Frame} {below : List Frame},
    frames = fr :: below → Chain t frames → fr.node.height + below.length ≤ t.height
  | _, fr, [], rfl, hc => by
    simp only [Chain] at hc
    rw [hc.2.2.1]; simp
  | _, fr, p :: below, rfl, hc => by
    obtain ⟨hok, ⟨l, hcur, _⟩, _, hrest⟩ := hc
    have ih := Chain.depth (frames := p :: below) rfl hrest
    have hpok := Chain.frameOK hrest p (List.mem_cons_self ..)
    have hmem : Item.child l fr.node ∈ items p.node.entries := by
      rw [hpok.2, ← hcur]; simp
    have hc' := child_mem_of_items hmem
    have hlt : fr.node.height + 1 ≤ p.node.height := by
      cases hp : p.node with
      | mk pp es =>
        rw [hp] at hc'
        simp only [Node.entries] at hc'
        have := children_height es (Entries.height es) (Nat.le_refl _) fr.node hc'
        simp only [Node.height]; omega
    simp only [List.length_cons] at ih ⊢
    omega

theorem Chain.level_lt {t : Node} {fr : Frame} {below : List Frame} (hc : Chain t (fr :: below)) :
    below.length < (encode t).height := by
  have := Chain.depth rfl hc
  have := height_pos fr.node
  have := encode_height_ge t
  omega

/-! ### the per-level arrays -/

theorem getD_set_ne {l : List Nat} {k j x : Nat} (h : j ≠ k) : (l.set k x).getD j 0 = l.getD j 0 := by
  simp [List.getD_eq_getElem?_getD, List.getElem?_set, h.symm]

theorem getD_set_eq {l : List Nat} {k x : Nat} (h : k < l.length) : (l.set k x).getD k 0 = x := by
  simp [List.getD_eq_getElem?_getD, List.getElem?_set, h]

/-- the arrays `posInTrie`, `nodeID`, `prefixLen` agree with the frames on the levels in use -/
def Arr (t : Node) (pos nid plen : List Nat) : List Frame → Prop
  | [] => True
  | fr :: below =>
    pos.getD below.length 0 = fr.pos t ∧ nid.getD below.length 0 = fr.n ∧
      plen.getD below.length 0 = fr.kb.length + 1 ∧ Arr t pos nid plen below

theorem Arr.set_above {t : Node} {pos nid plen : List Nat} : ∀ {frames : List Frame} {k x y z : Nat},
    Arr t pos nid plen frames → frames.length ≤ k → Arr t (pos.set k x) (nid.set k y) (plen.set k z) frames
  | [], _, _, _, _, _, _ => trivial
  | fr :: below, k, x, y, z, h, hk => by
    simp only [List.length_cons] at hk
    have hne : below.length ≠ k := by omega
    refine ⟨by rw [getD_set_ne hne]; exact h.1, by rw [getD_set_ne hne]; exact h.2.1,
      by rw [getD_set_ne hne]; exact h.2.2.1, Arr.set_above h.2.2.2 (by omega)⟩

theorem Arr.set_pos_above {t : Node} {pos nid plen : List Nat} : ∀ {frames : List Frame} {k x : Nat},
    Arr t pos nid plen frames → frames.length ≤ k → Arr t (pos.set k x) nid plen frames
  | [], _, _, _, _ => trivial
  | fr :: below, k, x, h, hk => by
    simp only [List.length_cons] at hk
    have hne : below.length ≠ k := by omega
    exact ⟨by rw [getD_set_ne hne]; exact h.1, h.2.1, h.2.2.1, Arr.set_pos_above h.2.2.2 (by omega)⟩

/-- `keyBuf` while the frames `below` are on the stack -/
def keyOf : List Frame → Key
  | [] => []
  | p :: _ => p.kb ++ [p.cur.label]

/-- the state before `append` pushes a frame on top of `below` -/
structure Pre (t : Node) (it : It) (below : List Frame) : Prop where
  level : it.level = below.length
  arr : Arr t it.pos it.nid it.plen below
  key : it.keyBuf = keyOf below
  lpos : it.pos.length = (encode t).height
  lnid : it.nid.length = (encode t).height
  lplen : it.plen.length = (encode t).height

/-- the state with `fr :: below` on the stack (the top item may still be a label with child) -/
structure Part (t : Node) (it : It) (fr : Frame) (below : List Frame) : Prop where
  chain : Chain t (fr :: below)
  level : it.level = below.length
  arr : Arr t it.pos it.nid it.plen (fr :: below)
  key : it.keyBuf = fr.kb ++ [fr.cur.label]
  lpos : it.pos.length = (encode t).height
  lnid : it.nid.length = (encode t).height
  lplen : it.plen.length = (encode t).height

/-- a valid iterator standing on the leaf of the top frame -/
structure Rep (t : Node) (it : It) (fr : Frame) (below : List Frame) : Prop where
  part : Part t it fr below
  valid : it.valid = true
  leaf : ∃ l s v, fr.cur = .leaf l s v ∧ it.atTerm = (l == labelTerminator && !fr.after.isNil)

theorem Part.pre_push {t : Node} {it : It} {p : Frame} {below : List Frame} (h : Part t it p below) :
    Pre t { it with level := it.level + 1 } (p :: below) :=
  ⟨by simp [h.level], h.arr, h.key, h.lpos, h.lnid, h.lplen⟩

/-- `Iterator.append` pushes the frame -/
theorem append_part {t : Node} {it : It} {fr : Frame} {below : List Frame} (hpre : Pre t it below)
    (hc : Chain t (fr :: below)) :
    Part t (append (encode t) it fr.cur.label (fr.pos t) fr.n) fr below := by
  have hlt := hc.level_lt
  have hok := hc.frameOK fr (List.mem_cons_self ..)
  have hpfx := frame_prefix hok
  have hlev := hpre.level
  refine ⟨hc, by simp [append, hlev], ?_, ?_, by simp [append, hpre.lpos], by simp [append, hpre.lnid],
    by simp [append, hpre.lplen]⟩
  · -- arrays
    simp only [append, hlev, hpfx]
    refine ⟨getD_set_eq (by rw [hpre.lpos]; exact hlt), getD_set_eq (by rw [hpre.lnid]; exact hlt), ?_,
      Arr.set_above hpre.arr (Nat.le_refl _)⟩
    rw [getD_set_eq (by rw [hpre.lplen]; exact hlt)]
    cases below with
    | nil =>
      simp only [Chain] at hc
      simp [hc.2.2.2]
    | cons p r =>
      obtain ⟨_, ⟨l, _, hkb⟩, _, _⟩ := hc
      have hp := hpre.arr.2.2.1
      simp only [List.length_cons, Nat.add_sub_cancel, bne_iff_ne, ne_eq, Nat.add_eq_zero_iff,
        Nat.succ_ne_zero, and_false, not_false_eq_true, if_true]
      rw [hp, hkb]
      simp only [List.length_append, List.length_cons, List.length_nil]
      omega
  · -- key buffer
    simp only [append, hpre.key, hpfx]
    cases below with
    | nil =>
      simp only [Chain] at hc
      simp [hc.2.2.2, keyOf]
    | cons p r =>
      obtain ⟨_, ⟨l, hcur, hkb⟩, _, _⟩ := hc
      rw [hkb]
      simp [keyOf, hcur, Item.label]

theorem firstLabelPos_frame {t : Node} (hwf : WFNode t) {fr : Frame} (h : FrameOK t fr) (hb : fr.before = []) :
    firstLabelPos (encode t) fr.n = fr.pos t := by
  rw [firstLabelPos_eq_offset hwf fr.n (List.getElem?_eq_some_iff.1 h.1).1]
  simp [Frame.pos, hb]

/-- the leaf case at the end of `moveToMostKey`: mark the terminator, become valid -/
theorem leaf_rep {t : Node} (hwf : WFNode t) {it : It} {fr : Frame} {below : List Frame} (hp : Part t it fr below)
    (hat : it.atTerm = false) {l : Nat} {s : List Nat} {v : Nat} (hcur : fr.cur = .leaf l s v) :
    Rep t { markTerm (encode t) it (fr.pos t) with valid := true } fr below := by
  have hok := hp.chain.frameOK fr (List.mem_cons_self ..)
  have hlab := frame_label hok
  have hend := frame_end hwf hok
  rw [hcur] at hlab
  simp only [Item.label] at hlab
  unfold markTerm
  rw [hlab, hend]
  by_cases hc : (l == labelTerminator && !fr.after.isNil) = true
  · simp only [hc, if_true]
    exact ⟨⟨hp.chain, hp.level, hp.arr, hp.key, hp.lpos, hp.lnid, hp.lplen⟩, rfl, l, s, v, hcur, by simp [hc]⟩
  · simp only [hc, Bool.false_eq_true, if_false]
    exact ⟨⟨hp.chain, hp.level, hp.arr, hp.key, hp.lpos, hp.lnid, hp.lplen⟩, rfl, l, s, v, hcur,
      by rw [hat]; simpa using hc⟩

/-! ### `moveToLeftMostKey` -/

/-- one round of the descent loop, in terms of the frame it pushes -/
theorem descend_step {t : Node} (hwf : WFNode t) {it : It} {p fr : Frame} {below : List Frame} (fuel : Nat)
    (hp : Part t it p below) (hc : Chain t (fr :: p :: below)) (hb : fr.before = []) :
    descend (encode t) true (fuel + 1) it (p.pos t) =
      (if !fr.cur.isChild then
        { markTerm (encode t) (append (encode t) { it with level := it.level + 1 } fr.cur.label (fr.pos t) fr.n)
            (fr.pos t) with valid := true }
       else descend (encode t) true fuel
        (append (encode t) { it with level := it.level + 1 } fr.cur.label (fr.pos t) fr.n) (fr.pos t)) := by
  have hlt : it.level < (encode t).height := by rw [hp.level]; exact hp.chain.level_lt
  have hok := hc.frameOK fr (List.mem_cons_self ..)
  have hn : childNodeID (encode t) (p.pos t) = fr.n := hc.2.2.1.symm
  rw [descend]
  simp only [hlt, if_true, hn, labelPos, firstLabelPos_frame hwf hok hb, frame_hasChild hok, frame_label hok]

/-- the frame `moveToLeftMostKey` pushes for the node `c` below the frame `p` (label `l`) -/
def firstFrame (t : Node) (p : Frame) (l : Nat) (c : Node) (it : Item) (r : Entries) : Frame :=
  { node := c, n := childNodeID (encode t) (p.pos t), kb := p.kb ++ [l] ++ c.pfx, before := [], cur := it, after := r }

theorem descend_spec {t : Node} (hwf : WFNode t) : ∀ (c : Node) (fuel : Nat) (it : It) (p : Frame)
    (below : List Frame) (l : Nat), Part t it p below → p.cur = .child l c → it.atTerm = false →
    c.height ≤ fuel →
    ∃ top rest, leftmost t c (childNodeID (encode t) (p.pos t)) (p.kb ++ [l]) ++ (p :: below) = top :: rest ∧
      Rep t (descend (encode t) true fuel it (p.pos t)) top rest
  | c, 0, _, _, _, _, _, _, _, hh => by have := height_pos c; omega
  | .mk pfx .nil, fuel + 1, it, p, below, l, hp, hcur, _, _ => by
    have hpok := hp.chain.frameOK p (List.mem_cons_self ..)
    have hitem := frame_item hpok
    rw [hcur] at hitem
    have hbfs := childNodeID_eq_bfs_index (p.pos t) l _ hitem
    have := bfs_wf hwf _ (List.mem_of_getElem? hbfs)
    simp [WFNode, WFRow] at this
  | .mk pfx (.leaf l' s v r), fuel + 1, it, p, below, l, hp, hcur, hat, _ => by
    have hpok := hp.chain.frameOK p (List.mem_cons_self ..)
    have hitem := frame_item hpok
    rw [hcur] at hitem
    have hbfs := childNodeID_eq_bfs_index (p.pos t) l _ hitem
    have hc : Chain t (firstFrame t p l (.mk pfx (.leaf l' s v r)) (.leaf l' s v) r :: p :: below) :=
      ⟨⟨hbfs, by simp [firstFrame, items, Node.entries]⟩, ⟨l, hcur, rfl⟩, rfl, hp.chain⟩
    refine ⟨firstFrame t p l (.mk pfx (.leaf l' s v r)) (.leaf l' s v) r, p :: below,
      by simp [leftmost, firstFrame, Node.pfx], ?_⟩
    rw [descend_step hwf fuel hp hc rfl]
    have hpart := append_part hp.pre_push hc
    simp only [firstFrame, Item.isChild, Bool.not_false, if_true]
    exact leaf_rep hwf hpart (by simpa [append] using hat) rfl
  | .mk pfx (.child l' c' r), fuel + 1, it, p, below, l, hp, hcur, hat, hh => by
    have hpok := hp.chain.frameOK p (List.mem_cons_self ..)
    have hitem := frame_item hpok
    rw [hcur] at hitem
    have hbfs := childNodeID_eq_bfs_index (p.pos t) l _ hitem
    have hc : Chain t (firstFrame t p l (.mk pfx (.child l' c' r)) (.child l' c') r :: p :: below) :=
      ⟨⟨hbfs, by simp [firstFrame, items, Node.entries]⟩, ⟨l, hcur, rfl⟩, rfl, hp.chain⟩
    rw [descend_step hwf fuel hp hc rfl]
    have hpart := append_part hp.pre_push hc
    have hch : c'.height ≤ fuel := by
      simp only [Node.height, Entries.height] at hh
      omega
    obtain ⟨top, rest, h1, h2⟩ := descend_spec hwf c' fuel _
      (firstFrame t p l (.mk pfx (.child l' c' r)) (.child l' c') r) (p :: below) l' hpart rfl
      (by simpa [append] using hat) hch
    refine ⟨top, rest, ?_, ?_⟩
    · rw [← h1]
      simp [leftmost, firstFrame, Frame.pos, Node.pfx]
    · simpa [firstFrame, Item.isChild] using h2

/-- `moveToMostKey(left)` once the current position is set: stay on a leaf, or descend -/
theorem moveToMost_spec {t : Node} (hwf : WFNode t) {it : It} {fr : Frame} {below : List Frame}
    (hp : Part t it fr below) (hat : it.atTerm = false) :
    match fr.cur with
    | .leaf _ _ _ => Rep t (moveToMost (encode t) true it) fr below
    | .child l c => ∃ top rest,
        leftmost t c (childNodeID (encode t) (fr.pos t)) (fr.kb ++ [l]) ++ (fr :: below) = top :: rest ∧
        Rep t (moveToMost (encode t) true it) top rest := by
  have hok := hp.chain.frameOK fr (List.mem_cons_self ..)
  have hkey : it.keyBuf.isEmpty = false := by rw [hp.key]; simp
  have hpos : it.pos.getD it.level 0 = fr.pos t := by rw [hp.level]; exact hp.arr.1
  unfold moveToMost
  simp only [hkey, Bool.false_eq_true, if_false, hpos, frame_hasChild hok]
  cases hcur : fr.cur with
  | leaf l s v =>
    simp only [Item.isChild, Bool.not_false, if_true]
    exact leaf_rep hwf hp hat hcur
  | child l c =>
    simp only [Item.isChild, Bool.not_true, Bool.false_eq_true, if_false]
    have hdepth := Chain.depth rfl hp.chain
    have hmem : Item.child l c ∈ items fr.node.entries := by rw [hok.2, hcur]; simp
    have hcm := child_mem_of_items hmem
    have hch : c.height ≤ (encode t).height := by
      have h1 : c.height ≤ fr.node.height := by
        cases hn : fr.node with
        | mk pp es =>
          rw [hn] at hcm
          have := children_height es (Entries.height es) (Nat.le_refl _) c hcm
          simp only [Node.height]; omega
      have := encode_height_ge t
      omega
    exact descend_spec hwf c _ it fr below l hp hcur hat hch

/-! ### `Next` -/

/-- the first frame (from the deepest) that is not at the end of its node -/
def popTo : List Frame → Option (Frame × List Frame)
  | [] => none
  | fr :: below => if fr.after.isNil then popTo below else some (fr, below)

theorem zNext_popTo (t : Node) : ∀ (frames : List Frame),
    zNext t frames =
      match popTo frames with
      | none => none
      | some (fk, bk) =>
        match fk.after with
        | .nil => none
        | .leaf l s v r => some (fk.advance (.leaf l s v) r :: bk)
        | .child l c r =>
          some (leftmost t c (childNodeID (encode t) (fk.pos t + 1)) (fk.kb ++ [l]) ++ (fk.advance (.child l c) r :: bk))
  | [] => rfl
  | fr :: below => by
    cases hfa : fr.after with
    | nil => simp only [zNext, popTo, hfa, Entries.isNil, if_true]; exact zNext_popTo t below
    | leaf l s v r => simp [zNext, popTo, hfa, Entries.isNil]
    | child l c r => simp [zNext, popTo, hfa, Entries.isNil]

theorem popTo_spec {t : Node} {pos nid plen : List Nat} : ∀ {frames : List Frame} {fk : Frame} {bk : List Frame},
    popTo frames = some (fk, bk) → Chain t frames → Arr t pos nid plen frames →
    Chain t (fk :: bk) ∧ Arr t pos nid plen (fk :: bk) ∧ (∃ rest, keyOf frames = fk.kb ++ rest) ∧
      fk.after.isNil = false ∧ bk.length < frames.length
  | [], _, _, h, _, _ => by simp [popTo] at h
  | fr :: below, fk, bk, h, hc, ha => by
    simp only [popTo] at h
    by_cases hnil : fr.after.isNil = true
    · simp only [hnil, if_true] at h
      obtain ⟨h1, h2, ⟨rest, h3⟩, h4, h5⟩ := popTo_spec h hc.tail ha.2.2.2
      refine ⟨h1, h2, ?_, h4, by simp only [List.length_cons]; omega⟩
      cases below with
      | nil => simp [popTo] at h
      | cons p b =>
        obtain ⟨_, ⟨l, hcur, hkb⟩, _, _⟩ := hc
        simp only [keyOf] at h3 ⊢
        rw [hkb]
        rw [hcur] at h3
        simp only [Item.label] at h3
        exact ⟨rest ++ fr.node.pfx ++ [fr.cur.label], by rw [h3]; simp⟩
    · simp only [hnil, Bool.false_eq_true, if_false, Option.some.injEq, Prod.mk.injEq] at h
      obtain ⟨rfl, rfl⟩ := h
      exact ⟨hc, ha, ⟨[fr.cur.label], rfl⟩, by simpa using hnil, by simp⟩

theorem It.level_eta (it : It) : { it with level := it.level } = it := by cases it; rfl

/-- the climbing loop of `Next` stops at `popTo` -/
theorem climbNext_spec {t : Node} (hwf : WFNode t) : ∀ (frames : List Frame) (fr : Frame) (below : List Frame)
    (fuel : Nat) (it : It), frames = fr :: below → Chain t frames → Arr t it.pos it.nid it.plen frames →
    it.level = below.length → frames.length ≤ fuel →
    climbNext (encode t) fuel it (fr.pos t + 1) =
      (popTo frames).map (fun x => ({ it with level := x.2.length }, x.1.pos t + 1))
  | _, fr, below, 0, it, rfl, _, _, _, hf => by simp at hf
  | _, fr, below, fuel + 1, it, rfl, hc, ha, hl, hf => by
    have hok := hc.frameOK fr (List.mem_cons_self ..)
    rw [climbNext]
    have hcond := frame_next_cond hwf hok
    by_cases hnil : fr.after.isNil = true
    · have : (decide (fr.pos t + 1 ≥ (encode t).louds.length) || (encode t).louds.getD (fr.pos t + 1) false) = true := by
        rw [hcond, hnil]
      simp only [this, if_true, popTo, hnil]
      cases below with
      | nil =>
        simp [hl, popTo]
      | cons p b =>
        have hl0 : (it.level == 0) = false := by simp [hl]
        simp only [hl0, Bool.false_eq_true, if_false]
        have hpos : it.pos.getD (it.level - 1) 0 = p.pos t := by
          rw [hl]; simp only [List.length_cons, Nat.add_sub_cancel]; exact ha.2.2.2.1
        simp only [hpos]
        have := climbNext_spec hwf (p :: b) p b fuel { it with level := it.level - 1 } rfl hc.tail ha.2.2.2
          (by simp [hl]) (by simp only [List.length_cons] at hf ⊢; omega)
        rw [this]
    · have hnf : fr.after.isNil = false := by simpa using hnil
      have : (decide (fr.pos t + 1 ≥ (encode t).louds.length) || (encode t).louds.getD (fr.pos t + 1) false) = false := by
        rw [hcond, hnf]
      simp only [this, Bool.false_eq_true, if_false, popTo, hnf, Option.map_some]
      have heta : { it with level := below.length } = it := by rw [← hl]
      rw [heta]

theorem Chain.advance {t : Node} {fk : Frame} {bk : List Frame} (hc : Chain t (fk :: bk)) {it : Item} {r : Entries}
    (hitems : items fk.after = it :: items r) : Chain t (fk.advance it r :: bk) := by
  have hok := hc.frameOK fk (List.mem_cons_self ..)
  have hok' : FrameOK t (fk.advance it r) := by
    refine ⟨hok.1, ?_⟩
    simp only [Frame.advance]
    rw [hok.2, hitems]
    simp
  cases bk with
  | nil =>
    simp only [Chain] at hc ⊢
    exact ⟨hok', hc.2.1, hc.2.2.1, hc.2.2.2⟩
  | cons p b =>
    obtain ⟨_, hlink, hn, hrest⟩ := hc
    exact ⟨hok', hlink, hn, hrest⟩

/-- `setAt(level, pos+1)` after the climb: the popped-to frame steps right -/
theorem setAt_part {t : Node} {it : It} {frames : List Frame} {fk : Frame} {bk : List Frame}
    (hpop : popTo frames = some (fk, bk)) (hc : Chain t frames) (ha : Arr t it.pos it.nid it.plen frames)
    (hkey : it.keyBuf = keyOf frames) (hl : it.level = bk.length)
    (lpos : it.pos.length = (encode t).height) (lnid : it.nid.length = (encode t).height)
    (lplen : it.plen.length = (encode t).height)
    {item : Item} {r : Entries} (hitems : items fk.after = item :: items r) :
    Part t (setAt (encode t) it it.level (fk.pos t + 1)) (fk.advance item r) bk := by
  obtain ⟨hck, hak, ⟨rest, hrest⟩, _, _⟩ := popTo_spec hpop hc ha
  have hc' := hck.advance hitems
  have hok' := hc'.frameOK _ (List.mem_cons_self ..)
  have hlt := hck.level_lt
  have hpos' : (fk.advance item r).pos t = fk.pos t + 1 := by
    simp [Frame.pos, Frame.advance]; omega
  refine ⟨hc', by simp [setAt, hl], ?_, ?_, by simp [setAt, lpos], lnid, lplen⟩
  · simp only [setAt, hl]
    refine ⟨by rw [getD_set_eq (by rw [lpos]; exact hlt), hpos'], hak.2.1, hak.2.2.1,
      Arr.set_pos_above hak.2.2.2 (Nat.le_refl _)⟩
  · simp only [setAt, hl, hak.2.2.1, Nat.add_sub_cancel, hkey, hrest]
    rw [List.take_left' rfl, ← hpos', frame_label hok']
    rfl

theorem next_spec {t : Node} (hwf : WFNode t) {it : It} {top : Frame} {below : List Frame}
    (hr : Rep t it top below) :
    match zNext t (top :: below) with
    | none => (next (encode t) it).valid = false
    | some frames' => ∃ top' rest', frames' = top' :: rest' ∧ Rep t (next (encode t) it) top' rest' := by
  have hp := hr.part
  have hv := hr.valid
  have hposTop : it.pos.getD it.level 0 = top.pos t := by rw [hp.level]; exact hp.arr.1
  have hfuel : (top :: below).length ≤ (encode t).height + 1 := by
    have := hp.chain.level_lt
    simp only [List.length_cons]; omega
  have hclimb := climbNext_spec hwf (top :: below) top below ((encode t).height + 1) { it with atTerm := false }
    rfl hp.chain hp.arr hp.level hfuel
  simp only [hv] at hclimb
  rw [zNext_popTo]
  unfold next
  simp only [hv, Bool.not_true, Bool.false_eq_true, if_false, hposTop]
  rw [hclimb]
  cases hpop : popTo (top :: below) with
  | none => simp
  | some x =>
    obtain ⟨fk, bk⟩ := x
    simp only [Option.map_some]
    obtain ⟨hck, _, _, hnil, _⟩ := popTo_spec hpop hp.chain hp.arr
    have hkey : it.keyBuf = keyOf (top :: below) := by rw [hp.key]; rfl
    cases hfa : fk.after with
    | nil => simp [hfa, Entries.isNil] at hnil
    | leaf l s v r =>
      simp only
      have hpart := setAt_part (it := { it with atTerm := false, level := bk.length }) hpop hp.chain hp.arr
        hkey rfl hp.lpos hp.lnid hp.lplen (item := .leaf l s v) (r := r) (by rw [hfa]; rfl)
      have := moveToMost_spec hwf hpart (by simp [setAt])
      simp only [Frame.advance, hv] at this
      exact ⟨_, _, rfl, this⟩
    | child l c r =>
      simp only
      have hpart := setAt_part (it := { it with atTerm := false, level := bk.length }) hpop hp.chain hp.arr
        hkey rfl hp.lpos hp.lnid hp.lplen (item := .child l c) (r := r) (by rw [hfa]; rfl)
      have := moveToMost_spec hwf hpart (by simp [setAt])
      simp only [Frame.advance, hv] at this
      obtain ⟨top', rest', h1, h2⟩ := this
      refine ⟨top', rest', ?_, h2⟩
      rw [← h1]
      simp [Frame.pos, Frame.advance, Nat.add_assoc]

/-! ### `Key` / `Value`, `SeekToFirst`, and the whole enumeration -/

theorem kv_spec {t : Node} {it : It} {top : Frame} {below : List Frame} (hr : Rep t it top below) :
    (key (encode t) it, value (encode t) it) = top.kv := by
  have hp := hr.part
  obtain ⟨l, s, v, hcur, hat⟩ := hr.leaf
  have hok := hp.chain.frameOK top (List.mem_cons_self ..)
  have hitem := frame_item hok
  rw [hcur] at hitem
  have hpos : it.pos.getD it.level 0 = top.pos t := by rw [hp.level]; exact hp.arr.1
  have hsuf := suffixOf_eq t _ _ hitem
  have hval := valuePos_eq_value_index _ l s v hitem
  unfold key value Frame.kv
  rw [hpos, hsuf, hp.key, hat, hcur]
  simp only [Item.label, Item.suffix, List.getD_eq_getElem?_getD, hval, Option.getD_some]
  by_cases hc : (l == labelTerminator && !top.after.isNil) = true
  · simp [hc, List.dropLast_concat]
  · simp [hc]

theorem offset_zero (t : Node) : offset t 0 = 0 := by simp [offset]

theorem seekToFirst_spec {t : Node} (hwf : WFNode t) :
    ∃ top rest, leftmost t t 0 [] = top :: rest ∧ Rep t (seekToFirst (encode t)) top rest := by
  have hH : 0 < (encode t).height := by
    have := encode_height_ge t
    have := height_pos t
    omega
  have hbfs0 : (bfs t)[0]? = some t := by rw [bfs_eq t]; rfl
  have hpre : Pre t (reset (init (encode t))) [] :=
    ⟨rfl, trivial, rfl, by simp [reset, init], by simp [reset, init], by simp [reset, init]⟩
  unfold seekToFirst
  simp only [hH, if_true]
  cases ht : t with
  | mk pfx es =>
    cases es with
    | nil => rw [ht] at hwf; simp [WFNode, WFRow] at hwf
    | leaf l s v r =>
      let fr0 : Frame := ⟨t, 0, pfx, [], .leaf l s v, r⟩
      have hc : Chain t [fr0] := ⟨⟨hbfs0, by simp [fr0, ht, items, Node.entries]⟩, rfl, rfl, by simp [fr0, ht, Node.pfx]⟩
      have hok := hc.frameOK fr0 (List.mem_cons_self ..)
      have hp0 : fr0.pos t = 0 := by simp [Frame.pos, fr0, offset_zero]
      have hlab := frame_label hok
      rw [hp0] at hlab
      have hpart := append_part hpre hc
      rw [hp0] at hpart
      rw [← ht, hlab]
      have := moveToMost_spec hwf hpart (by simp [append, reset, init])
      simp only [fr0] at this
      refine ⟨fr0, [], ?_, this⟩
      simp [ht, leftmost, fr0]
    | child l c r =>
      let fr0 : Frame := ⟨t, 0, pfx, [], .child l c, r⟩
      have hc : Chain t [fr0] := ⟨⟨hbfs0, by simp [fr0, ht, items, Node.entries]⟩, rfl, rfl, by simp [fr0, ht, Node.pfx]⟩
      have hok := hc.frameOK fr0 (List.mem_cons_self ..)
      have hp0 : fr0.pos t = 0 := by simp [Frame.pos, fr0, offset_zero]
      have hlab := frame_label hok
      rw [hp0] at hlab
      have hpart := append_part hpre hc
      rw [hp0] at hpart
      rw [← ht, hlab]
      have := moveToMost_spec hwf hpart (by simp [append, reset, init])
      simp only [fr0] at this
      obtain ⟨top, rest, h1, h2⟩ := this
      refine ⟨top, rest, ?_, h2⟩
      rw [← h1]
      simp [ht, leftmost, fr0, Frame.pos, offset_zero]

theorem chain_after_wf {t : Node} (hwf : WFNode t) {frames : List Frame} (hc : Chain t frames) :
    ∀ fr ∈ frames, ∀ l c r, fr.after = .child l c r → WFNode c := by
  intro fr hfr l c r hfa
  have hok := hc.frameOK fr hfr
  have hmem : Item.child l c ∈ items fr.node.entries := by
    rw [hok.2, hfa]; simp [items]
  exact wfNode_children fr.node (bfs_wf hwf _ (List.mem_of_getElem? hok.1)) c (child_mem_of_items hmem)

/-- from a valid position the machine enumerates the current pair and everything after it -/
theorem collect_spec {t : Node} (hwf : WFNode t) : ∀ (fuel : Nat) (it : It) (top : Frame) (below : List Frame),
    Rep t it top below → (remAfter (top :: below)).length < fuel →
    collect (encode t) (next (encode t)) fuel it = top.kv :: remAfter (top :: below)
  | 0, _, _, _, _, h => by omega
  | fuel + 1, it, top, below, hr, hf => by
    rw [collect]
    simp only [hr.valid, if_true]
    have hkv := kv_spec hr
    have hz := zNext_spec t (top :: below) (chain_after_wf hwf hr.part.chain)
    have hn := next_spec hwf hr
    rw [hkv]
    congr 1
    cases hzn : zNext t (top :: below) with
    | none =>
      rw [hzn] at hz hn
      simp only at hz hn
      rw [hz]
      cases fuel with
      | zero => rfl
      | succ f => rw [collect]; simp [hn]
    | some frames' =>
      rw [hzn] at hz hn
      simp only at hz hn
      obtain ⟨top', rest', h1, h2⟩ := hn
      obtain ⟨top'', rest'', h3, _, h4⟩ := hz
      rw [h1] at h3
      cases h3
      rw [h4, h1]
      apply collect_spec hwf fuel _ top' rest' h2
      rw [h4, h1] at hf
      simp only [List.length_cons] at hf
      omega

/-- forward iteration over the vectors enumerates the tree in order (any sufficient fuel) -/
theorem iter_machine_spec {t : Node} (hwf : WFNode t) (fuel : Nat) (hf : (iterNode [] t).length ≤ fuel) :
    collect (encode t) (next (encode t)) fuel (seekToFirst (encode t)) = iterNode [] t := by
  obtain ⟨top, rest, h1, h2⟩ := seekToFirst_spec hwf
  obtain ⟨top', rest', h3, _, h4⟩ := leftmost_spec t t 0 [] hwf
  rw [h1] at h3
  cases h3
  rw [h4, h1] at hf ⊢
  exact collect_spec hwf fuel _ top rest h2 (by simp only [List.length_cons] at hf; omega)

/-! ### the number of pairs is the length of the value vector -/

mutual
  def leavesN : Node → Nat
    | .mk _ es => leavesE es
  def leavesE : Entries → Nat
    | .nil => 0
    | .leaf _ _ _ r => 1 + leavesE r
    | .child _ n r => leavesN n + leavesE r
end

mutual
  theorem iterNode_length : ∀ (n : Node) (path : Key), (iterNode path n).length = leavesN n
    | .mk pfx es, path => by simp only [iterNode, leavesN]; exact iterEntries_length es _
  theorem iterEntries_length : ∀ (es : Entries) (base : Key), (iterEntries base es).length = leavesE es
    | .nil, _ => rfl
    | .leaf _ _ _ r, base => by simp only [iterEntries, List.length_cons, leavesE, iterEntries_length r base]; omega
    | .child _ n r, base => by
      simp only [iterEntries, List.length_append, leavesE, iterNode_length n _, iterEntries_length r base]
end

theorem leavesE_split : ∀ (es : Entries),
    leavesE es = (Entries.values es).length + ((Entries.children es).map leavesN).sum
  | .nil => rfl
  | .leaf _ _ _ r => by simp only [leavesE, Entries.values, Entries.children, List.length_cons, leavesE_split r]; omega
  | .child _ n r => by
    simp only [leavesE, Entries.values, Entries.children, List.map_cons, List.sum_cons, leavesE_split r]; omega

theorem sum_map_flatMap {α β} (g : α → List β) (f : β → Nat) (l : List α) :
    ((l.flatMap g).map f).sum = (l.map (fun a => ((g a).map f).sum)).sum := by
  induction l with
  | nil => rfl
  | cons a r ih => simp [List.flatMap_cons, List.sum_append, ih]

theorem sum_map_add {α} (f g : α → Nat) (l : List α) :
    (l.map (fun a => f a + g a)).sum = (l.map f).sum + (l.map g).sum := by
  induction l with
  | nil => rfl
  | cons a r ih => simp [ih]; omega

theorem levels_leaves : ∀ (fuel : Nat) (ns : List Node), (∀ n ∈ ns, n.height ≤ fuel) →
    (((nodeLevels fuel ns).flatten).map (fun n => (Entries.values n.entries).length)).sum = (ns.map leavesN).sum
  | 0, ns, h => by
    have : ns = [] := by
      cases ns with
      | nil => rfl
      | cons n r => have := h n (List.mem_cons_self ..); have := height_pos n; omega
    subst this; rfl
  | fuel + 1, [], _ => rfl
  | fuel + 1, m :: ms, h => by
    have hcs := childrenOf_height h
    simp only [nodeLevels, List.flatten_cons, List.map_append, List.sum_append]
    rw [levels_leaves fuel _ hcs]
    have hsplit : ((m :: ms).map leavesN) = (m :: ms).map (fun n => (Entries.values n.entries).length +
        ((Entries.children n.entries).map leavesN).sum) := by
      apply List.map_congr_left
      intro n _
      cases n with
      | mk p es => simp only [leavesN, Node.entries]; exact leavesE_split es
    rw [hsplit, sum_map_add]
    congr 1
    unfold childrenOf
    exact sum_map_flatMap _ _ _

theorem values_length_eq (t : Node) : (encode t).values.length = (iterNode [] t).length := by
  rw [iterNode_length]
  unfold encode flatten levelsOf
  simp only []
  rw [flatMap_levels _ (·.values) (fun n => Entries.values n.entries) (fun ns => rfl)]
  have := levels_leaves t.height [t] (by simp)
  simp only [List.map_cons, List.map_nil, List.sum_cons, List.sum_nil, Nat.add_zero] at this
  rw [← this]
  generalize (nodeLevels t.height [t]).flatten = N
  induction N with
  | nil => rfl
  | cons n r ih => simp [List.flatMap_cons, ih]

/-- **forward iteration of the stack machine over the vectors = in-order traversal of the tree** -/
theorem iterAll_eq_iter {t : Node} (hwf : WFNode t) : iterAll (encode t) = iter t := by
  unfold iterAll iter
  exact iter_machine_spec hwf _ (by rw [values_length_eq]; omega)

/-! ### the empty-prefix iterator (`NewPrefixIterator(nil)`) -/

theorem keyCmp_nil_right_ne_lt (a : Key) : (keyCmp a [] == Ordering.lt) = false := by
  cases a <;> simp [keyCmp]

theorem collect_prefix_nil (f : Flat) : ∀ (fuel : Nat) (it : It),
    prefixCollect f [] fuel it = collect f (next f) fuel it
  | 0, _ => rfl
  | fuel + 1, it => by
    simp only [prefixCollect, collect, List.isEmpty_nil, Bool.true_or, Bool.and_true]
    cases it.valid with
    | false => rfl
    | true => simp only [if_true]; rw [collect_prefix_nil f fuel]

/-- `Seek(nil)` is `SeekToFirst` (both source variants of `Seek`) -/
theorem seek_nil_eq_first {t : Node} (hwf : WFNode t) (step : Bool) :
    (LoudsIter.seek step (encode t) []).1 = seekToFirst (encode t) := by
  have hH : 0 < (encode t).height := by
    have := encode_height_ge t
    have := height_pos t
    omega
  have hH0 : ((encode t).height == 0) = false := by simp; omega
  have hbfs0 : 0 < (bfs t).length := by rw [bfs_eq t]; simp
  have hfirst : firstLabelPos (encode t) 0 = 0 := by
    rw [firstLabelPos_eq_offset hwf 0 hbfs0, offset_zero]
  obtain ⟨top, rest, _, hrep⟩ := seekToFirst_spec hwf
  have hloop : seekLoop (encode t) ((encode t).height + 1) (reset (init (encode t))) 0 0 [] =
      (seekToFirst (encode t), false) := by
    rw [seekLoop]
    have hl : (reset (init (encode t))).level < (encode t).height := by simp [reset, init]; exact hH
    simp only [hl, if_true, List.take_nil, List.drop_nil, List.isEmpty_nil, Bool.true_or, cmp]
    have hc : ((if (prefixOf (encode t) 0).isEmpty = true then Ordering.eq else keyCmp (prefixOf (encode t) 0) []) == Ordering.lt) = false := by
      split
      · rfl
      · exact keyCmp_nil_right_ne_lt _
    simp only [hc, Bool.false_eq_true, if_false]
    unfold seekToFirst
    simp [hH]
  unfold LoudsIter.seek
  simp only [hH0, Bool.false_eq_true, if_false, hfirst, hloop]
  have hv := hrep.valid
  simp only [hv, Bool.not_true, Bool.false_eq_true, if_false, keyLt_nil_right, Bool.and_false]

theorem prefixAll_nil_eq_iter {t : Node} (hwf : WFNode t) (step : Bool) :
    prefixAll step (encode t) [] = iter t := by
  unfold prefixAll
  rw [collect_prefix_nil, seek_nil_eq_first hwf step]
  exact iterAll_eq_iter hwf

end LinVerif.Lemmas.C20
