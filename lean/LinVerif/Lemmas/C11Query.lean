/-
C11 helper lemmas, part 4: the down-sampling loop, the leaf reduce (one agg type) and the
month-type family selection.
-/
import LinVerif.Lemmas.C11Buf

namespace LinVerif.Lemmas.C11
open LinVerif LinVerif.NaiveQuery LinVerif.MemDB

/-- fold of `ocomb A` over a list of optional values, in list order. -/
def fsum {ι : Type} (A : AggType) (l : List ι) (f : ι → Option Int) : Option Int :=
  l.foldl (fun acc i => ocomb A acc (f i)) none

theorem foldl_ocomb_acc {ι : Type} (A : AggType) (l : List ι) (f : ι → Option Int) (acc : Option Int) :
    l.foldl (fun acc i => ocomb A acc (f i)) acc = ocomb A acc (fsum A l f) := by
  unfold fsum
  induction l generalizing acc with
  | nil => simp
  | cons x rest ih =>
    simp only [List.foldl_cons]
    rw [ih, ih (ocomb A none (f x))]
    simp [ocomb_assoc]

theorem fsum_cons {ι : Type} (A : AggType) (x : ι) (l : List ι) (f : ι → Option Int) :
    fsum A (x :: l) f = ocomb A (f x) (fsum A l f) := by
  show (x :: l).foldl (fun acc i => ocomb A acc (f i)) none = _
  simp only [List.foldl_cons]
  rw [foldl_ocomb_acc]
  simp

theorem fsum_all_none {ι : Type} (A : AggType) (l : List ι) (f : ι → Option Int) (h : ∀ i ∈ l, f i = none) :
    fsum A l f = none := by
  induction l with
  | nil => rfl
  | cons x rest ih =>
    rw [fsum_cons, h x (by simp), ih (fun i hi => h i (by simp [hi]))]
    rfl

/-! ### arrays with one agg type -/

/-- well-formed single-agg-type arrays: one association list with distinct target slots. -/
def WF1 (A : AggType) (a : Arrays) : Prop := ∃ m : List (Nat × Int), a = [(A, m)] ∧ (m.map Prod.fst).Nodup

theorem WF1_init (A : AggType) : WF1 A (Arrays.init [A]) := ⟨[], rfl, by simp⟩

theorem arrGet_single (A : AggType) (m : List (Nat × Int)) (t : Nat) : arrGet [(A, m)] A t = Map.lookup m t := by
  simp [arrGet, Map.lookup]

theorem keys_upsert_of_mem (m : List (Nat × Int)) (k : Nat) (v : Int) (h : k ∈ m.map Prod.fst) :
    (Map.upsert m k v).map Prod.fst = m.map Prod.fst := by
  induction m with
  | nil => simp at h
  | cons p rest ih =>
    obtain ⟨k', v'⟩ := p
    by_cases h1 : k' = k
    · subst h1; simp [Map.upsert]
    · have : k ∈ rest.map Prod.fst := by
        simp only [List.map_cons, List.mem_cons] at h
        rcases h with e | e
        · exact absurd e.symm h1
        · exact e
      simp [Map.upsert, h1, ih this]

theorem keys_upsert_of_not_mem (m : List (Nat × Int)) (k : Nat) (v : Int) (h : k ∉ m.map Prod.fst) :
    (Map.upsert m k v).map Prod.fst = m.map Prod.fst ++ [k] := by
  induction m with
  | nil => simp [Map.upsert]
  | cons p rest ih =>
    obtain ⟨k', v'⟩ := p
    simp only [List.map_cons, List.mem_cons, not_or] at h
    have h1 : ¬(k' = k) := fun e => h.1 e.symm
    simp [Map.upsert, h1, ih h.2]

theorem lookup_none_iff_not_mem (m : List (Nat × Int)) (k : Nat) :
    Map.lookup m k = none ↔ k ∉ m.map Prod.fst := by
  induction m with
  | nil => simp [Map.lookup]
  | cons p rest ih =>
    obtain ⟨k', v'⟩ := p
    by_cases h1 : k' = k
    · subst h1; simp [Map.lookup]
    · simp only [Map.lookup, h1, if_false, List.map_cons, List.mem_cons, not_or]
      rw [ih]
      constructor
      · intro h; exact ⟨fun e => h1 e.symm, h⟩
      · intro h; exact h.2

theorem nodup_upsert (m : List (Nat × Int)) (k : Nat) (v : Int) (h : (m.map Prod.fst).Nodup) :
    ((Map.upsert m k v).map Prod.fst).Nodup := by
  by_cases hk : k ∈ m.map Prod.fst
  · rw [keys_upsert_of_mem m k v hk]; exact h
  · rw [keys_upsert_of_not_mem m k v hk]
    rw [List.nodup_append]
    refine ⟨h, by simp, ?_⟩
    intro a ha b hb
    simp at hb
    subst hb
    intro e; subst e; exact hk ha

/-- `AggregateBySlot` on single-agg-type arrays. -/
theorem aggregateBySlot_single (A : AggType) (a : Arrays) (hw : WF1 A a) (t : Nat) (v : Int) :
    WF1 A (aggregateBySlot a t v) ∧
    ∀ t', arrGet (aggregateBySlot a t v) A t' =
      if t = t' then ocomb A (arrGet a A t) (some v) else arrGet a A t' := by
  obtain ⟨m, rfl, hn⟩ := hw
  constructor
  · refine ⟨_, by simp [aggregateBySlot]; rfl, ?_⟩
    cases hl : Map.lookup m t <;> simp only [hl] <;> exact nodup_upsert m t _ hn
  · intro t'
    simp only [aggregateBySlot, List.map_cons, List.map_nil, arrGet_single]
    by_cases ht : t = t'
    · subst ht
      cases hl : Map.lookup m t <;> simp [hl, Map.lookup_upsert_self, ocomb]
    · cases hl : Map.lookup m t <;> simp [hl, ht, Map.lookup_upsert_ne _ _ _ _ ht]

/-! ### the down-sampling loop -/

theorem dsLoop_spec (A : AggType) (get : Nat → Option Int) (tLo tHi g0 qs ratio : Nat) :
    ∀ (slots : List Nat) (a : Arrays), WF1 A a → slots.Pairwise (· < ·) →
      WF1 A (dsLoop get tLo tHi g0 qs ratio slots a) ∧
      ∀ t, arrGet (dsLoop get tLo tHi g0 qs ratio slots a) A t =
        ocomb A (arrGet a A t)
          (fsum A slots (fun s => if tLo ≤ s ∧ s ≤ tHi ∧ (g0 + s - qs) / ratio = t then get s else none)) := by
  intro slots
  induction slots with
  | nil => intro a hw _; exact ⟨hw, by intro t; simp [dsLoop, fsum]⟩
  | cons s rest ih =>
    intro a hw hp
    rw [List.pairwise_cons] at hp
    cases hg : get s with
    | none =>
      -- no value: continue
      have := ih a hw hp.2
      simp only [dsLoop, hg]
      refine ⟨this.1, ?_⟩
      intro t
      rw [this.2 t, fsum_cons]
      simp [hg]
    | some v =>
      simp only [dsLoop, hg]
      by_cases h1 : s < tLo
      · -- before the query range: continue
        have := ih a hw hp.2
        simp only [h1, if_true]
        refine ⟨this.1, ?_⟩
        intro t
        rw [this.2 t, fsum_cons]
        have : ¬(tLo ≤ s ∧ s ≤ tHi ∧ (g0 + s - qs) / ratio = t) := by omega
        simp [this]
      · simp only [h1, if_false]
        by_cases h2 : s > tHi
        · -- beyond the query range: break; all remaining slots are beyond it, too
          simp only [h2, if_true]
          refine ⟨hw, ?_⟩
          intro t
          have hnone : fsum A (s :: rest)
              (fun s => if tLo ≤ s ∧ s ≤ tHi ∧ (g0 + s - qs) / ratio = t then get s else none) = none := by
            apply fsum_all_none
            intro i hi
            have : tHi < i := by
              rcases List.mem_cons.mp hi with e | e
              · omega
              · have := hp.1 i e; omega
            have : ¬(tLo ≤ i ∧ i ≤ tHi ∧ (g0 + i - qs) / ratio = t) := by omega
            simp [this]
          rw [hnone]; simp
        · -- inside: emit into the bucket
          simp only [h2, if_false]
          obtain ⟨hw', hv'⟩ := aggregateBySlot_single A a hw ((g0 + s - qs) / ratio) v
          have := ih _ hw' hp.2
          refine ⟨this.1, ?_⟩
          intro t
          rw [this.2 t, hv' t, fsum_cons, hg]
          by_cases hb : (g0 + s - qs) / ratio = t
          · have : tLo ≤ s ∧ s ≤ tHi ∧ (g0 + s - qs) / ratio = t := ⟨by omega, by omega, hb⟩
            simp [hb, this, ocomb_assoc]
          · have : ¬(tLo ≤ s ∧ s ≤ tHi ∧ (g0 + s - qs) / ratio = t) := fun h => hb h.2.2
            simp [hb, this]

theorem slotsOf_pairwise (lo hi : Nat) : (slotsOf lo hi).Pairwise (· < ·) := by
  unfold slotsOf
  rw [List.pairwise_map]
  exact List.Pairwise.imp (fun h => by omega) List.pairwise_lt_range

theorem dsCall_wf (A : AggType) (get : Nat → Option Int) (srcLo srcHi tLo tHi g0 qs ratio : Nat) :
    WF1 A (dsCall [A] get srcLo srcHi tLo tHi g0 qs ratio) :=
  (dsLoop_spec A get tLo tHi g0 qs ratio _ _ (WF1_init A) (slotsOf_pairwise srcLo srcHi)).1

theorem dsCall_spec (A : AggType) (get : Nat → Option Int) (srcLo srcHi tLo tHi g0 qs ratio t : Nat) :
    arrGet (dsCall [A] get srcLo srcHi tLo tHi g0 qs ratio) A t =
      fsum A (slotsOf srcLo srcHi)
        (fun s => if tLo ≤ s ∧ s ≤ tHi ∧ (g0 + s - qs) / ratio = t then get s else none) := by
  have := (dsLoop_spec A get tLo tHi g0 qs ratio _ _ (WF1_init A) (slotsOf_pairwise srcLo srcHi)).2 t
  unfold dsCall
  rw [this]
  simp [Arrays.init, arrGet, Map.lookup]

/-! ### leaf reduce, one agg type -/

theorem reduce_pairs (A : AggType) :
    ∀ (m : List (Nat × Int)) (acc : Arrays), WF1 A acc → (m.map Prod.fst).Nodup →
      WF1 A (m.foldl (fun acc (tv : Nat × Int) => aggregateBySlot acc tv.1 tv.2) acc) ∧
      ∀ t, arrGet (m.foldl (fun acc (tv : Nat × Int) => aggregateBySlot acc tv.1 tv.2) acc) A t =
        ocomb A (arrGet acc A t) (Map.lookup m t) := by
  intro m
  induction m with
  | nil => intro acc hw _; exact ⟨hw, by intro t; simp [Map.lookup]⟩
  | cons p rest ih =>
    obtain ⟨k, v⟩ := p
    intro acc hw hn
    simp only [List.map_cons, List.nodup_cons] at hn
    obtain ⟨hw1, hv1⟩ := aggregateBySlot_single A acc hw k v
    obtain ⟨hw2, hv2⟩ := ih _ hw1 hn.2
    simp only [List.foldl_cons]
    refine ⟨hw2, ?_⟩
    intro t
    rw [hv2 t, hv1 t]
    by_cases hk : k = t
    · subst hk
      have : Map.lookup rest k = none := (lookup_none_iff_not_mem rest k).mpr hn.1
      simp [Map.lookup, this]
    · simp [Map.lookup, hk]

/-- on single-agg-type arrays the by-type step is the plain step. -/
theorem ofType_eq_single (A : AggType) (a : Arrays) (hw : WF1 A a) (t : Nat) (v : Int) :
    aggregateBySlotOfType a A t v = aggregateBySlot a t v := by
  obtain ⟨m, rfl, _⟩ := hw
  simp [aggregateBySlotOfType, aggregateBySlot]

theorem foldl_ofType_eq (A : AggType) :
    ∀ (m : List (Nat × Int)) (acc : Arrays), WF1 A acc →
      m.foldl (fun acc (tv : Nat × Int) => aggregateBySlotOfType acc A tv.1 tv.2) acc =
      m.foldl (fun acc (tv : Nat × Int) => aggregateBySlot acc tv.1 tv.2) acc := by
  intro m
  induction m with
  | nil => intro acc _; rfl
  | cons p rest ih =>
    intro acc hw
    simp only [List.foldl_cons]
    rw [ofType_eq_single A acc hw]
    exact ih _ (aggregateBySlot_single A acc hw p.1 p.2).1

theorem reduceInto_single (A : AggType) (acc inc : Arrays) (hwa : WF1 A acc) (hwi : WF1 A inc) :
    WF1 A (reduceInto acc inc) ∧
    ∀ t, arrGet (reduceInto acc inc) A t = ocomb A (arrGet acc A t) (arrGet inc A t) := by
  obtain ⟨m, rfl, hn⟩ := hwi
  have := reduce_pairs A m acc hwa hn
  have hany : (acc.any fun (x : AggType × List (Nat × Int)) => decide (x.1 = A)) = true := by
    obtain ⟨m', rfl, _⟩ := hwa
    simp
  simp only [reduceInto, List.foldl_cons, List.foldl_nil, hany, if_true]
  rw [foldl_ofType_eq A m acc hwa]
  refine ⟨this.1, ?_⟩
  intro t
  rw [this.2 t, arrGet_single]

theorem reduce_spec_acc (A : AggType) :
    ∀ (calls : List Arrays) (acc : Arrays), WF1 A acc → (∀ c ∈ calls, WF1 A c) →
      WF1 A (calls.foldl reduceInto acc) ∧
      ∀ t, arrGet (calls.foldl reduceInto acc) A t = ocomb A (arrGet acc A t) (fsum A calls (fun c => arrGet c A t)) := by
  intro calls
  induction calls with
  | nil => intro acc hw _; exact ⟨hw, by intro t; simp [fsum]⟩
  | cons c rest ih =>
    intro acc hw hc
    obtain ⟨hw1, hv1⟩ := reduceInto_single A acc c hw (hc c (by simp))
    obtain ⟨hw2, hv2⟩ := ih _ hw1 (fun c' h => hc c' (by simp [h]))
    simp only [List.foldl_cons]
    refine ⟨hw2, ?_⟩
    intro t
    rw [hv2 t, hv1 t, fsum_cons, ocomb_assoc]

theorem reduce_spec (A : AggType) (calls : List Arrays) (hw : ∀ c ∈ calls, WF1 A c) (t : Nat) :
    arrGet (calls.foldl reduceInto (Arrays.init [A])) A t = fsum A calls (fun c => arrGet c A t) := by
  rw [(reduce_spec_acc A calls _ (WF1_init A) hw).2 t]
  simp [Arrays.init, arrGet, Map.lookup]

/-! ### the memory query of one page, end to end -/

theorem curValue_noData' {w : Nat} {b : Buf} (hi : BufInv w b) (hd : b.hasData = false) (t : Nat) :
    curValue b t = none := by
  unfold curValue
  split
  · rfl
  · exact hi.empty hd _

theorem fsum_add {ι : Type} {A : AggType} (hc : AggComm A) (l : List ι) (f g : ι → Option Int) :
    fsum A l (fun i => ocomb A (f i) (g i)) = ocomb A (fsum A l f) (fsum A l g) := by
  induction l with
  | nil => rfl
  | cons x rest ih =>
    rw [fsum_cons, fsum_cons, fsum_cons, ih]
    -- (a ⊕ b) ⊕ (F ⊕ G) = (a ⊕ F) ⊕ (b ⊕ G)
    rw [ocomb_assoc, ocomb_assoc]
    congr 1
    rw [← ocomb_assoc, ← ocomb_assoc, ocomb_comm hc (g x) (fsum A rest f)]

theorem fsum_congr {ι : Type} (A : AggType) (l : List ι) (f g : ι → Option Int) (h : ∀ i ∈ l, f i = g i) :
    fsum A l f = fsum A l g := by
  induction l with
  | nil => rfl
  | cons x rest ih =>
    rw [fsum_cons, fsum_cons, h x (by simp), ih (fun i hi => h i (by simp [hi]))]

theorem pageCalls_wf (A : AggType) (b : Buf) (lo hi tLo tHi g0 qs ratio : Nat) :
    ∀ c ∈ pageCalls [A] b lo hi tLo tHi g0 qs ratio, WF1 A c := by
  intro c hc
  unfold pageCalls at hc
  cases hcomp : b.compress with
  | none => simp [hcomp] at hc; subst hc; exact dsCall_wf A _ _ _ _ _ _ _ _
  | some cc =>
    simp [hcomp] at hc
    rcases hc with e | e <;> subst e <;> exact dsCall_wf A _ _ _ _ _ _ _ _

/-- what a memory query computes from one page, whatever its window/compress state:
the bucket-wise fold of the page's memory view. -/
theorem pageCalls_spec {w : Nat} {A : AggType} (hc : AggComm A) (b : Buf) (hi' : BufInv w b)
    (lo hi tLo tHi g0 qs ratio t : Nat) :
    arrGet ((pageCalls [A] b lo hi tLo tHi g0 qs ratio).foldl reduceInto (Arrays.init [A])) A t =
      fsum A (slotsOf lo hi)
        (fun s => if tLo ≤ s ∧ s ≤ tHi ∧ (g0 + s - qs) / ratio = t then memView A b s else none) := by
  rw [reduce_spec A _ (pageCalls_wf A b lo hi tLo tHi g0 qs ratio) t]
  have hcur : ∀ s, (if b.hasData then curValue b s else none) = curValue b s := by
    intro s
    cases hd : b.hasData with
    | true => simp
    | false => simp [curValue_noData' hi' hd s]
  unfold pageCalls
  cases hcomp : b.compress with
  | none =>
    simp only [List.nil_append]
    rw [fsum_cons]
    simp only [fsum, List.foldl_nil, ocomb_none_right]
    rw [dsCall_spec]
    apply fsum_congr
    intro s _
    simp [memView, hcomp, oldValue, hcur]
  | some cc =>
    simp only [List.singleton_append]
    rw [fsum_cons, fsum_cons]
    simp only [fsum, List.foldl_nil, ocomb_none_right]
    rw [dsCall_spec, dsCall_spec, ← hcomp]
    have := fsum_add hc (slotsOf lo hi)
      (fun s => if tLo ≤ s ∧ s ≤ tHi ∧ (g0 + s - qs) / ratio = t then oldValue b.compress s else none)
      (fun s => if tLo ≤ s ∧ s ≤ tHi ∧ (g0 + s - qs) / ratio = t then
          (if b.hasData then curValue b s else none) else none)
    unfold fsum at this ⊢
    rw [← this]
    apply fsum_congr
    intro s _
    by_cases hcond : tLo ≤ s ∧ s ≤ tHi ∧ (g0 + s - qs) / ratio = t
    · simp [hcond, memView]
    · simp [hcond]

/-! ### month-type family selection -/

theorem monthStart_zero (lens : List Nat) : monthStart lens 0 = 0 := by
  cases lens <;> rfl

theorem monthOfDay_spec :
    ∀ (lens : List Nat) (d : Nat), (∀ l ∈ lens, 0 < l) → d < monthStart lens lens.length →
      (monthOfDay lens d).1 < lens.length ∧
      monthStart lens (monthOfDay lens d).1 + (monthOfDay lens d).2 = d + 1 ∧
      1 ≤ (monthOfDay lens d).2 ∧
      d < monthStart lens ((monthOfDay lens d).1 + 1) := by
  intro lens
  induction lens with
  | nil => intro d _ h; simp [monthStart] at h
  | cons l ls ih =>
    intro d hpos hd
    have hd' : d < l + monthStart ls ls.length := by simpa [monthStart] using hd
    unfold monthOfDay
    by_cases h : d < l
    · simp only [h, if_true]
      refine ⟨by simp, by simp [monthStart_zero], by omega, ?_⟩
      simp [monthStart, monthStart_zero]; exact h
    · simp only [h, if_false]
      have hpos' : ∀ x ∈ ls, 0 < x := fun x hx => hpos x (by simp [hx])
      obtain ⟨h1, h2, h3, h4⟩ := ih (d - l) hpos' (by omega)
      refine ⟨by simp; omega, ?_, h3, ?_⟩
      · simp only [monthStart]; omega
      · simp only [monthStart]; omega

theorem monthStart_succ_le :
    ∀ (lens : List Nat) (m : Nat), (∀ l ∈ lens, 0 < l) → m < lens.length →
      monthStart lens m < monthStart lens (m + 1) := by
  intro lens
  induction lens with
  | nil => intro m _ h; simp at h
  | cons l ls ih =>
    intro m hpos hm
    cases m with
    | zero => simp [monthStart, monthStart_zero]; exact hpos l (by simp)
    | succ k =>
      have := ih k (fun x hx => hpos x (by simp [hx])) (by simpa using hm)
      simp only [monthStart]; omega

theorem monthStart_mono (lens : List Nat) (hpos : ∀ l ∈ lens, 0 < l) :
    ∀ (b a : Nat), a ≤ b → b ≤ lens.length → monthStart lens a ≤ monthStart lens b := by
  intro b
  induction b with
  | zero => intro a ha _; have : a = 0 := by omega
            subst this; exact Nat.le_refl _
  | succ k ih =>
    intro a ha hb
    by_cases h : a = k + 1
    · subst h; exact Nat.le_refl _
    · have h1 := ih a (by omega) (by omega)
      have h2 := monthStart_succ_le lens k hpos (by omega)
      omega

/-- the repaired month-type selection is exact for every query range. -/
theorem monthFamilySelected_exact (lens : List Nat) (hpos : ∀ l ∈ lens, 0 < l) (qs qe f : Nat)
    (hle : qs ≤ qe) (hqe : qe < monthStart lens lens.length) (hf : f < monthStart lens lens.length) :
    monthFamilySelected lens qs qe f = (decide (qs ≤ f) && decide (f ≤ qe)) := by
  obtain ⟨q1, q2, q3, q4⟩ := monthOfDay_spec lens qs hpos (by omega)
  obtain ⟨f1, f2, f3, f4⟩ := monthOfDay_spec lens f hpos hf
  unfold monthFamilySelected
  simp only
  by_cases hin : qs ≤ f ∧ f ≤ qe
  · -- in range: its segment is walked
    have hseg : ¬(monthStart lens (monthOfDay lens f).1 < monthStart lens (monthOfDay lens qs).1 ∨
        monthStart lens (monthOfDay lens f).1 > qe) := by
      intro h
      rcases h with h | h
      · rcases Nat.lt_or_ge (monthOfDay lens f).1 (monthOfDay lens qs).1 with hlt | hge
        · have := monthStart_mono lens hpos (monthOfDay lens qs).1 ((monthOfDay lens f).1 + 1) (by omega) (by omega)
          omega
        · have := monthStart_mono lens hpos (monthOfDay lens f).1 (monthOfDay lens qs).1 hge (by omega)
          omega
      · omega
    simp only [hseg, if_false]
    simp [hin.1, hin.2]
  · have hrhs : (decide (qs ≤ f) && decide (f ≤ qe)) = false := by
      by_cases ha : qs ≤ f <;> by_cases hb : f ≤ qe <;> simp [ha, hb]
      exact hin ⟨ha, hb⟩
    rw [hrhs]
    split
    · rfl
    · have h1 : ¬(f ≥ qs ∧ f ≤ qe) := hin
      have h2 : ¬(f = qs) := fun e => hin ⟨by omega, by omega⟩
      by_cases ha : f ≥ qs <;> by_cases hb : f ≤ qe <;> simp [ha, hb, h2]
      all_goals first | omega | exact absurd ⟨ha, hb⟩ hin

end LinVerif.Lemmas.C11
