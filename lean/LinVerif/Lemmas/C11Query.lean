/-
C11 helper lemmas, part 4: the down-sampling loop, the leaf reduce (one agg type) and the
month-type family selection.
-/
import LinVerif.Lemmas.C11Buf

namespace LinVerif.Lemmas.C11
open LinVerif LinVerif.NaiveQuery LinVerif.MemDB

/-- fold of `ocomb A` over a list of optional values, in list order. -/
def fsum {ι : Type} (A : AggType) (l : List ι) (f : ι → Option Int) : Option Int :=
  l.foldl (fun acc i => ocomb A acc (f i)) none

theorem foldl_ocomb_acc {ι : Type} (A : AggType) (l : List ι) (f : ι → Option Int) (acc : Option Int) :
    l.foldl (fun acc i => ocomb A acc (f i)) acc = ocomb A acc (fsum A l f) := by
  unfold fsum
  induction l generalizing acc with
  | nil => simp
  | cons x rest ih =>
    simp only [List.foldl_cons]
    rw [ih, ih (ocomb A none (f x))]
    simp [ocomb_assoc]

theorem fsum_cons {ι : Type} (A : AggType) (x : ι) (l : List ι) (f : ι → Option Int) :
    fsum A (x :: l) f = ocomb A (f x) (fsum A l f) := by
  show (x :: l).foldl (fun acc i => ocomb A acc (f i)) none = _
  simp only [List.foldl_cons]
  rw [foldl_ocomb_acc]
  simp

theorem fsum_all_none {ι : Type} (A : AggType) (l : List ι) (f : ι → Option Int) (h : ∀ i ∈ l, f i = none) :
    fsum A l f = none := by
  induction l with
  | nil => rfl
  | cons x rest ih =>
    rw [fsum_cons, h x (by simp), ih (fun i hi => h i (by simp [hi]))]
    rfl

theorem fsum_add {ι : Type} {A : AggType} (hc : AggComm A) (l : List ι) (f g : ι → Option Int) :
    fsum A l (fun i => ocomb A (f i) (g i)) = ocomb A (fsum A l f) (fsum A l g) := by
  induction l with
  | nil => rfl
  | cons x rest ih =>
    rw [fsum_cons, fsum_cons, fsum_cons, ih]
    -- (a ⊕ b) ⊕ (F ⊕ G) = (a ⊕ F) ⊕ (b ⊕ G)
    rw [ocomb_assoc, ocomb_assoc]
    congr 1
    rw [← ocomb_assoc, ← ocomb_assoc, ocomb_comm hc (g x) (fsum A rest f)]

theorem fsum_congr {ι : Type} (A : AggType) (l : List ι) (f g : ι → Option Int) (h : ∀ i ∈ l, f i = g i) :
    fsum A l f = fsum A l g := by
  induction l with
  | nil => rfl
  | cons x rest ih =>
    rw [fsum_cons, fsum_cons, h x (by simp), ih (fun i hi => h i (by simp [hi]))]

/-! ### arrays with several agg types -/

theorem keys_upsert_of_mem (m : List (Nat × Int)) (k : Nat) (v : Int) (h : k ∈ m.map Prod.fst) :
    (Map.upsert m k v).map Prod.fst = m.map Prod.fst := by
  induction m with
  | nil => simp at h
  | cons p rest ih =>
    obtain ⟨k', v'⟩ := p
    by_cases h1 : k' = k
    · subst h1; simp [Map.upsert]
    · have : k ∈ rest.map Prod.fst := by
        simp only [List.map_cons, List.mem_cons] at h
        rcases h with e | e
        · exact absurd e.symm h1
        · exact e
      simp [Map.upsert, h1, ih this]

theorem keys_upsert_of_not_mem (m : List (Nat × Int)) (k : Nat) (v : Int) (h : k ∉ m.map Prod.fst) :
    (Map.upsert m k v).map Prod.fst = m.map Prod.fst ++ [k] := by
  induction m with
  | nil => simp [Map.upsert]
  | cons p rest ih =>
    obtain ⟨k', v'⟩ := p
    simp only [List.map_cons, List.mem_cons, not_or] at h
    have h1 : ¬(k' = k) := fun e => h.1 e.symm
    simp [Map.upsert, h1, ih h.2]

theorem lookup_none_iff_not_mem (m : List (Nat × Int)) (k : Nat) :
    Map.lookup m k = none ↔ k ∉ m.map Prod.fst := by
  induction m with
  | nil => simp [Map.lookup]
  | cons p rest ih =>
    obtain ⟨k', v'⟩ := p
    by_cases h1 : k' = k
    · subst h1; simp [Map.lookup]
    · simp only [Map.lookup, h1, if_false, List.map_cons, List.mem_cons, not_or]
      rw [ih]
      constructor
      · intro h; exact ⟨fun e => h1 e.symm, h⟩
      · intro h; exact h.2

theorem nodup_upsert (m : List (Nat × Int)) (k : Nat) (v : Int) (h : (m.map Prod.fst).Nodup) :
    ((Map.upsert m k v).map Prod.fst).Nodup := by
  by_cases hk : k ∈ m.map Prod.fst
  · rw [keys_upsert_of_mem m k v hk]; exact h
  · rw [keys_upsert_of_not_mem m k v hk]
    rw [List.nodup_append]
    refine ⟨h, by simp, ?_⟩
    intro a ha b hb
    simp at hb
    subst hb
    intro e; subst e; exact hk ha

/-- every array has distinct target slots. -/
def KeysOK (a : Arrays) : Prop := ∀ p ∈ a, (p.2.map Prod.fst).Nodup

/-- well-formed arrays for the agg types `L` (a field aggregator: one array per agg type). -/
def WFL (L : List AggType) (a : Arrays) : Prop := a.map Prod.fst = L ∧ L.Nodup ∧ KeysOK a

theorem WFL_init (L : List AggType) (hL : L.Nodup) : WFL L (Arrays.init L) := by
  have hid : (Prod.fst ∘ fun (A : AggType) => (A, ([] : List (Nat × Int)))) = id := rfl
  refine ⟨by simp [Arrays.init, List.map_map, hid], hL, ?_⟩
  intro p hp
  simp only [Arrays.init, List.mem_map] at hp
  obtain ⟨A, _, rfl⟩ := hp
  simp

/-- the aggregator has an array of type `A`. -/
def Has (a : Arrays) (A : AggType) : Bool := (Map.lookup a A).isSome

theorem has_of_mem_types (a : Arrays) (A : AggType) (h : A ∈ a.map Prod.fst) : Has a A = true := by
  unfold Has
  induction a with
  | nil => simp at h
  | cons p rest ih =>
    obtain ⟨B, m⟩ := p
    by_cases hb : B = A
    · simp [Map.lookup, hb]
    · simp only [List.map_cons, List.mem_cons] at h
      rcases h with e | e
      · exact absurd e.symm hb
      · simp [Map.lookup, hb, ih e]

theorem has_of_WFL {L : List AggType} {a : Arrays} (hw : WFL L a) {A : AggType} (hA : A ∈ L) : Has a A = true :=
  has_of_mem_types a A (by rw [hw.1]; exact hA)

theorem not_has_of_not_mem (a : Arrays) (A : AggType) (h : A ∉ a.map Prod.fst) : Has a A = false := by
  unfold Has
  induction a with
  | nil => rfl
  | cons p rest ih =>
    obtain ⟨B, m⟩ := p
    simp only [List.map_cons, List.mem_cons, not_or] at h
    have hb : ¬(B = A) := fun e => h.1 e.symm
    simp [Map.lookup, hb, ih h.2]

theorem arrGet_none_of_not_has (a : Arrays) (A : AggType) (t : Nat) (h : Has a A = false) : arrGet a A t = none := by
  unfold Has at h
  unfold arrGet
  cases hl : Map.lookup a A with
  | none => rfl
  | some m => rw [hl] at h; cases h

theorem any_type_eq_has (a : Arrays) (B : AggType) :
    (a.any fun (x : AggType × List (Nat × Int)) => decide (x.1 = B)) = Has a B := by
  unfold Has
  induction a with
  | nil => rfl
  | cons p rest ih =>
    obtain ⟨C, m⟩ := p
    by_cases hc : C = B
    · simp [Map.lookup, hc]
    · simp [Map.lookup, hc, ih]

/-- one updated array. -/
def upd (A : AggType) (m : List (Nat × Int)) (t : Nat) (v : Int) : List (Nat × Int) :=
  match Map.lookup m t with
  | some old => Map.upsert m t (A.agg old v)
  | none => Map.upsert m t v

theorem lookup_upd (A : AggType) (m : List (Nat × Int)) (t t' : Nat) (v : Int) :
    Map.lookup (upd A m t v) t' = if t = t' then ocomb A (Map.lookup m t) (some v) else Map.lookup m t' := by
  unfold upd
  by_cases ht : t = t'
  · subst ht
    cases hl : Map.lookup m t <;> simp [Map.lookup_upsert_self, ocomb]
  · cases hl : Map.lookup m t <;> simp [ht, Map.lookup_upsert_ne _ _ _ _ ht]

theorem nodup_upd (A : AggType) (m : List (Nat × Int)) (t : Nat) (v : Int) (h : (m.map Prod.fst).Nodup) :
    ((upd A m t v).map Prod.fst).Nodup := by
  unfold upd
  cases Map.lookup m t <;> exact nodup_upsert m t _ h

/-- `AggregateBySlot`: every array of the aggregator gets the value, each with its own aggregate. -/
theorem arrGet_aggregateBySlot (a : Arrays) (A : AggType) (t t' : Nat) (v : Int) :
    arrGet (aggregateBySlot a t v) A t' =
      if t = t' ∧ Has a A = true then ocomb A (arrGet a A t) (some v) else arrGet a A t' := by
  unfold arrGet Has
  induction a with
  | nil => simp [aggregateBySlot, Map.lookup]
  | cons p rest ih =>
    obtain ⟨B, m⟩ := p
    by_cases hb : B = A
    · subst hb
      simp only [aggregateBySlot, List.map_cons, Map.lookup, if_true, Option.isSome_some, and_true]
      exact lookup_upd B m t t' v
    · simp only [aggregateBySlot, List.map_cons, Map.lookup, hb, if_false] at ih ⊢
      exact ih

theorem types_aggregateBySlot (a : Arrays) (t : Nat) (v : Int) :
    (aggregateBySlot a t v).map Prod.fst = a.map Prod.fst := by
  simp [aggregateBySlot, List.map_map, Function.comp]

theorem keysOK_aggregateBySlot (a : Arrays) (t : Nat) (v : Int) (h : KeysOK a) : KeysOK (aggregateBySlot a t v) := by
  intro p hp
  simp only [aggregateBySlot, List.mem_map] at hp
  obtain ⟨p0, hp0, rfl⟩ := hp
  exact nodup_upd p0.1 p0.2 t v (h p0 hp0)

theorem WFL_aggregateBySlot {L : List AggType} {a : Arrays} (hw : WFL L a) (t : Nat) (v : Int) :
    WFL L (aggregateBySlot a t v) :=
  ⟨by rw [types_aggregateBySlot]; exact hw.1, hw.2.1, keysOK_aggregateBySlot a t v hw.2.2⟩

theorem has_aggregateBySlot (a : Arrays) (A : AggType) (t : Nat) (v : Int) :
    Has (aggregateBySlot a t v) A = Has a A := by
  by_cases h : A ∈ a.map Prod.fst
  · rw [has_of_mem_types a A h, has_of_mem_types _ A (by rw [types_aggregateBySlot]; exact h)]
  · rw [not_has_of_not_mem a A h, not_has_of_not_mem _ A (by rw [types_aggregateBySlot]; exact h)]

/-- `aggregateBySlotOfType`: only the arrays of type `B` get the value. -/
theorem arrGet_ofType (a : Arrays) (A B : AggType) (t t' : Nat) (v : Int) :
    arrGet (aggregateBySlotOfType a B t v) A t' =
      if A = B ∧ t = t' ∧ Has a A = true then ocomb A (arrGet a A t) (some v) else arrGet a A t' := by
  unfold arrGet Has
  induction a with
  | nil => simp [aggregateBySlotOfType, Map.lookup]
  | cons p rest ih =>
    obtain ⟨C, m⟩ := p
    by_cases hc : C = A
    · subst hc
      by_cases hb : C = B
      · subst hb
        simp only [aggregateBySlotOfType, List.map_cons, if_true, Map.lookup, Option.isSome_some, and_true, true_and]
        exact lookup_upd C m t t' v
      · simp [aggregateBySlotOfType, Map.lookup, hb]
    · by_cases hb : C = B
      · subst hb
        simp only [aggregateBySlotOfType, List.map_cons, if_true, Map.lookup, hc, if_false] at ih ⊢
        exact ih
      · simp only [aggregateBySlotOfType, List.map_cons, hb, if_false, Map.lookup, hc] at ih ⊢
        exact ih

theorem types_ofType (a : Arrays) (B : AggType) (t : Nat) (v : Int) :
    (aggregateBySlotOfType a B t v).map Prod.fst = a.map Prod.fst := by
  simp only [aggregateBySlotOfType, List.map_map]
  apply List.map_congr_left
  intro p _
  simp only [Function.comp]
  split <;> rfl

theorem keysOK_ofType (a : Arrays) (B : AggType) (t : Nat) (v : Int) (h : KeysOK a) :
    KeysOK (aggregateBySlotOfType a B t v) := by
  intro p hp
  simp only [aggregateBySlotOfType, List.mem_map] at hp
  obtain ⟨p0, hp0, rfl⟩ := hp
  split
  · exact nodup_upd p0.1 p0.2 t v (h p0 hp0)
  · exact h p0 hp0

theorem has_ofType (a : Arrays) (A B : AggType) (t : Nat) (v : Int) :
    Has (aggregateBySlotOfType a B t v) A = Has a A := by
  by_cases h : A ∈ a.map Prod.fst
  · rw [has_of_mem_types a A h, has_of_mem_types _ A (by rw [types_ofType]; exact h)]
  · rw [not_has_of_not_mem a A h, not_has_of_not_mem _ A (by rw [types_ofType]; exact h)]

/-! ### the down-sampling loop -/

theorem dsLoop_spec (L : List AggType) (A : AggType) (hA : A ∈ L) (get : Nat → Option Int) (tLo tHi g0 qs ratio : Nat) :
    ∀ (slots : List Nat) (a : Arrays), WFL L a → slots.Pairwise (· < ·) →
      WFL L (dsLoop get tLo tHi g0 qs ratio slots a) ∧
      ∀ t, arrGet (dsLoop get tLo tHi g0 qs ratio slots a) A t =
        ocomb A (arrGet a A t)
          (fsum A slots (fun s => if tLo ≤ s ∧ s ≤ tHi ∧ (g0 + s - qs) / ratio = t then get s else none)) := by
  intro slots
  induction slots with
  | nil => intro a hw _; exact ⟨hw, by intro t; simp [dsLoop, fsum]⟩
  | cons s rest ih =>
    intro a hw hp
    rw [List.pairwise_cons] at hp
    cases hg : get s with
    | none =>
      have := ih a hw hp.2
      simp only [dsLoop, hg]
      refine ⟨this.1, ?_⟩
      intro t
      rw [this.2 t, fsum_cons]
      simp [hg]
    | some v =>
      simp only [dsLoop, hg]
      by_cases h1 : s < tLo
      · have := ih a hw hp.2
        simp only [h1, if_true]
        refine ⟨this.1, ?_⟩
        intro t
        rw [this.2 t, fsum_cons]
        have : ¬(tLo ≤ s ∧ s ≤ tHi ∧ (g0 + s - qs) / ratio = t) := by omega
        simp [this]
      · simp only [h1, if_false]
        by_cases h2 : s > tHi
        · simp only [h2, if_true]
          refine ⟨hw, ?_⟩
          intro t
          have hnone : fsum A (s :: rest)
              (fun s => if tLo ≤ s ∧ s ≤ tHi ∧ (g0 + s - qs) / ratio = t then get s else none) = none := by
            apply fsum_all_none
            intro i hi
            have : tHi < i := by
              rcases List.mem_cons.mp hi with e | e
              · omega
              · have := hp.1 i e; omega
            have : ¬(tLo ≤ i ∧ i ≤ tHi ∧ (g0 + i - qs) / ratio = t) := by omega
            simp [this]
          rw [hnone]; simp
        · simp only [h2, if_false]
          have hw' := WFL_aggregateBySlot hw ((g0 + s - qs) / ratio) v
          have := ih _ hw' hp.2
          refine ⟨this.1, ?_⟩
          intro t
          rw [this.2 t, arrGet_aggregateBySlot, fsum_cons, hg, has_of_WFL hw hA]
          by_cases hb : (g0 + s - qs) / ratio = t
          · have : tLo ≤ s ∧ s ≤ tHi ∧ (g0 + s - qs) / ratio = t := ⟨by omega, by omega, hb⟩
            simp [hb, this, ocomb_assoc]
          · have : ¬(tLo ≤ s ∧ s ≤ tHi ∧ (g0 + s - qs) / ratio = t) := fun h => hb h.2.2
            simp [hb, this]

theorem slotsOf_pairwise (lo hi : Nat) : (slotsOf lo hi).Pairwise (· < ·) := by
  unfold slotsOf
  rw [List.pairwise_map]
  exact List.Pairwise.imp (fun h => by omega) List.pairwise_lt_range

theorem arrGet_init (L : List AggType) (A : AggType) (t : Nat) : arrGet (Arrays.init L) A t = none := by
  unfold arrGet Arrays.init
  induction L with
  | nil => rfl
  | cons B rest ih =>
    by_cases hb : B = A
    · simp [Map.lookup, hb]
    · simp only [List.map_cons, Map.lookup, hb, if_false]; exact ih

theorem dsLoop_wf (L : List AggType) (get : Nat → Option Int) (tLo tHi g0 qs ratio : Nat) :
    ∀ (slots : List Nat) (a : Arrays), WFL L a → WFL L (dsLoop get tLo tHi g0 qs ratio slots a) := by
  intro slots
  induction slots with
  | nil => intro a hw; exact hw
  | cons s rest ih =>
    intro a hw
    simp only [dsLoop]
    cases get s with
    | none => exact ih a hw
    | some v =>
      simp only []
      split
      · exact ih a hw
      · split
        · exact hw
        · exact ih _ (WFL_aggregateBySlot hw _ v)

theorem dsCall_wf (L : List AggType) (hL : L.Nodup) (get : Nat → Option Int) (srcLo srcHi tLo tHi g0 qs ratio : Nat) :
    WFL L (dsCall L get srcLo srcHi tLo tHi g0 qs ratio) :=
  dsLoop_wf L get tLo tHi g0 qs ratio _ _ (WFL_init L hL)

theorem dsCall_spec (L : List AggType) (hL : L.Nodup) (A : AggType) (hA : A ∈ L) (get : Nat → Option Int)
    (srcLo srcHi tLo tHi g0 qs ratio t : Nat) :
    arrGet (dsCall L get srcLo srcHi tLo tHi g0 qs ratio) A t =
      fsum A (slotsOf srcLo srcHi)
        (fun s => if tLo ≤ s ∧ s ≤ tHi ∧ (g0 + s - qs) / ratio = t then get s else none) := by
  have := (dsLoop_spec L A hA get tLo tHi g0 qs ratio _ _ (WFL_init L hL) (slotsOf_pairwise srcLo srcHi)).2 t
  unfold dsCall
  rw [this, arrGet_init]
  simp

/-! ### leaf reduce: a primitive series is merged into the values of its own agg type -/

/-- merging the (slot, value) pairs of one primitive series of type `B` by type. -/
theorem reduce_pairs_ofType (B : AggType) :
    ∀ (m : List (Nat × Int)) (acc : Arrays), KeysOK acc → (m.map Prod.fst).Nodup →
      KeysOK (m.foldl (fun acc (tv : Nat × Int) => aggregateBySlotOfType acc B tv.1 tv.2) acc) ∧
      (m.foldl (fun acc (tv : Nat × Int) => aggregateBySlotOfType acc B tv.1 tv.2) acc).map Prod.fst = acc.map Prod.fst ∧
      ∀ A t, Has acc A = true →
        arrGet (m.foldl (fun acc (tv : Nat × Int) => aggregateBySlotOfType acc B tv.1 tv.2) acc) A t =
          if A = B then ocomb A (arrGet acc A t) (Map.lookup m t) else arrGet acc A t := by
  intro m
  induction m with
  | nil => intro acc hk _; exact ⟨hk, rfl, by intro A t _; by_cases h : A = B <;> simp [h, Map.lookup]⟩
  | cons p rest ih =>
    obtain ⟨k, v⟩ := p
    intro acc hk hn
    simp only [List.map_cons, List.nodup_cons] at hn
    obtain ⟨h1, h2, h3⟩ := ih (aggregateBySlotOfType acc B k v) (keysOK_ofType acc B k v hk) hn.2
    simp only [List.foldl_cons]
    refine ⟨h1, by rw [h2, types_ofType], ?_⟩
    intro A t hA
    rw [h3 A t (by rw [has_ofType]; exact hA), arrGet_ofType, hA]
    by_cases hab : A = B
    · subst hab
      by_cases hkt : k = t
      · subst hkt
        have : Map.lookup rest k = none := (lookup_none_iff_not_mem rest k).mpr hn.1
        simp [Map.lookup, this]
      · simp [Map.lookup, hkt]
    · simp [hab]

/-- the fallback: the aggregator has no array of the series' type, the values go into all arrays. -/
theorem reduce_pairs_all :
    ∀ (m : List (Nat × Int)) (acc : Arrays), KeysOK acc → (m.map Prod.fst).Nodup →
      KeysOK (m.foldl (fun acc (tv : Nat × Int) => aggregateBySlot acc tv.1 tv.2) acc) ∧
      (m.foldl (fun acc (tv : Nat × Int) => aggregateBySlot acc tv.1 tv.2) acc).map Prod.fst = acc.map Prod.fst ∧
      ∀ A t, Has acc A = true →
        arrGet (m.foldl (fun acc (tv : Nat × Int) => aggregateBySlot acc tv.1 tv.2) acc) A t =
          ocomb A (arrGet acc A t) (Map.lookup m t) := by
  intro m
  induction m with
  | nil => intro acc hk _; exact ⟨hk, rfl, by intro A t _; simp [Map.lookup]⟩
  | cons p rest ih =>
    obtain ⟨k, v⟩ := p
    intro acc hk hn
    simp only [List.map_cons, List.nodup_cons] at hn
    obtain ⟨h1, h2, h3⟩ := ih (aggregateBySlot acc k v) (keysOK_aggregateBySlot acc k v hk) hn.2
    simp only [List.foldl_cons]
    refine ⟨h1, by rw [h2, types_aggregateBySlot], ?_⟩
    intro A t hA
    rw [h3 A t (by rw [has_aggregateBySlot]; exact hA), arrGet_aggregateBySlot, hA]
    by_cases hkt : k = t
    · subst hkt
      have : Map.lookup rest k = none := (lookup_none_iff_not_mem rest k).mpr hn.1
      simp [Map.lookup, this]
    · simp [Map.lookup, hkt]

/-- **`fieldAggregator.Aggregate`, any agg types on both sides**: the array of type `A` of the
aggregator gets, in the order of the incoming primitive series, the series of type `A` and — the
fallback — the series whose type the aggregator has no array for; series of the aggregator's
other types do not touch it. -/
theorem reduceInto_general :
    ∀ (inc acc : Arrays), KeysOK acc → KeysOK inc →
      KeysOK (reduceInto acc inc) ∧ (reduceInto acc inc).map Prod.fst = acc.map Prod.fst ∧
      ∀ A t, Has acc A = true →
        arrGet (reduceInto acc inc) A t =
          ocomb A (arrGet acc A t)
            (fsum A inc (fun (p : AggType × List (Nat × Int)) =>
              if p.1 = A ∨ Has acc p.1 = false then Map.lookup p.2 t else none)) := by
  intro inc
  induction inc with
  | nil => intro acc hk _; exact ⟨hk, rfl, by intro A t _; simp [reduceInto, fsum]⟩
  | cons p rest ih =>
    obtain ⟨B, m⟩ := p
    intro acc hk hki
    have hm : (m.map Prod.fst).Nodup := hki (B, m) (by simp)
    have hkr : KeysOK rest := fun x hx => hki x (by simp [hx])
    have hstep : reduceInto acc ((B, m) :: rest) =
        reduceInto (if Has acc B then m.foldl (fun acc (tv : Nat × Int) => aggregateBySlotOfType acc B tv.1 tv.2) acc
          else m.foldl (fun acc (tv : Nat × Int) => aggregateBySlot acc tv.1 tv.2) acc) rest := by
      simp only [reduceInto, List.foldl_cons, any_type_eq_has]
    rw [hstep]
    cases hb : Has acc B with
    | true =>
      simp only [if_true]
      obtain ⟨p1, p2, p3⟩ := reduce_pairs_ofType B m acc hk hm
      obtain ⟨q1, q2, q3⟩ := ih _ p1 hkr
      refine ⟨q1, by rw [q2, p2], ?_⟩
      intro A t hA
      have hA' : Has (m.foldl (fun acc (tv : Nat × Int) => aggregateBySlotOfType acc B tv.1 tv.2) acc) A = true := by
        by_cases hmem : A ∈ acc.map Prod.fst
        · exact has_of_mem_types _ A (by rw [p2]; exact hmem)
        · rw [not_has_of_not_mem acc A hmem] at hA; cases hA
      rw [q3 A t hA', p3 A t hA, fsum_cons]
      -- the Has-tests of the rest see the same types
      have hsame : ∀ C, Has (m.foldl (fun acc (tv : Nat × Int) => aggregateBySlotOfType acc B tv.1 tv.2) acc) C = Has acc C := by
        intro C
        by_cases hmem : C ∈ acc.map Prod.fst
        · rw [has_of_mem_types acc C hmem, has_of_mem_types _ C (by rw [p2]; exact hmem)]
        · rw [not_has_of_not_mem acc C hmem, not_has_of_not_mem _ C (by rw [p2]; exact hmem)]
      simp only [hsame]
      by_cases hab : A = B
      · subst hab
        simp [hb, ocomb_assoc]
      · have : ¬(B = A) := fun e => hab e.symm
        simp [hab, this, hb]
    | false =>
      simp only [Bool.false_eq_true, if_false]
      obtain ⟨p1, p2, p3⟩ := reduce_pairs_all m acc hk hm
      obtain ⟨q1, q2, q3⟩ := ih _ p1 hkr
      refine ⟨q1, by rw [q2, p2], ?_⟩
      intro A t hA
      have hsame : ∀ C, Has (m.foldl (fun acc (tv : Nat × Int) => aggregateBySlot acc tv.1 tv.2) acc) C = Has acc C := by
        intro C
        by_cases hmem : C ∈ acc.map Prod.fst
        · rw [has_of_mem_types acc C hmem, has_of_mem_types _ C (by rw [p2]; exact hmem)]
        · rw [not_has_of_not_mem acc C hmem, not_has_of_not_mem _ C (by rw [p2]; exact hmem)]
      rw [q3 A t (by rw [hsame]; exact hA), p3 A t hA, fsum_cons]
      simp only [hsame]
      simp [hb, ocomb_assoc]

/-- incoming arrays of the same agg types: the array of type `A` gets exactly the series of type `A`. -/
theorem fsum_entries_eq_arrGet (A : AggType) (t : Nat) :
    ∀ (inc : Arrays), (inc.map Prod.fst).Nodup →
      fsum A inc (fun (p : AggType × List (Nat × Int)) => if p.1 = A then Map.lookup p.2 t else none) = arrGet inc A t := by
  intro inc
  induction inc with
  | nil => intro _; rfl
  | cons p rest ih =>
    obtain ⟨B, m⟩ := p
    intro hn
    simp only [List.map_cons, List.nodup_cons] at hn
    rw [fsum_cons, ih hn.2]
    by_cases hb : B = A
    · subst hb
      have : arrGet rest B t = none := arrGet_none_of_not_has rest B t (not_has_of_not_mem rest B hn.1)
      rw [this]
      simp [arrGet, Map.lookup]
    · simp [arrGet, Map.lookup, hb]

theorem reduceInto_same_types (L : List AggType) (acc inc : Arrays) (hwa : WFL L acc) (hwi : WFL L inc) :
    WFL L (reduceInto acc inc) ∧
    ∀ A, A ∈ L → ∀ t, arrGet (reduceInto acc inc) A t = ocomb A (arrGet acc A t) (arrGet inc A t) := by
  obtain ⟨g1, g2, g3⟩ := reduceInto_general inc acc hwa.2.2 hwi.2.2
  refine ⟨⟨by rw [g2]; exact hwa.1, hwa.2.1, g1⟩, ?_⟩
  intro A hA t
  rw [g3 A t (has_of_WFL hwa hA)]
  congr 1
  rw [← fsum_entries_eq_arrGet A t inc (by rw [hwi.1]; exact hwi.2.1)]
  apply fsum_congr
  intro p hp
  have hpL : p.1 ∈ L := by rw [← hwi.1]; exact List.mem_map_of_mem hp
  rw [has_of_WFL hwa hpL]
  simp

theorem reduce_spec_acc (L : List AggType) :
    ∀ (calls : List Arrays) (acc : Arrays), WFL L acc → (∀ c ∈ calls, WFL L c) →
      WFL L (calls.foldl reduceInto acc) ∧
      ∀ A, A ∈ L → ∀ t,
        arrGet (calls.foldl reduceInto acc) A t = ocomb A (arrGet acc A t) (fsum A calls (fun c => arrGet c A t)) := by
  intro calls
  induction calls with
  | nil => intro acc hw _; exact ⟨hw, by intro A _ t; simp [fsum]⟩
  | cons c rest ih =>
    intro acc hw hc
    obtain ⟨hw1, hv1⟩ := reduceInto_same_types L acc c hw (hc c (by simp))
    obtain ⟨hw2, hv2⟩ := ih _ hw1 (fun c' h => hc c' (by simp [h]))
    simp only [List.foldl_cons]
    refine ⟨hw2, ?_⟩
    intro A hA t
    rw [hv2 A hA t, hv1 A hA t, fsum_cons, ocomb_assoc]

theorem reduce_spec (L : List AggType) (hL : L.Nodup) (A : AggType) (hA : A ∈ L) (calls : List Arrays)
    (hw : ∀ c ∈ calls, WFL L c) (t : Nat) :
    arrGet (calls.foldl reduceInto (Arrays.init L)) A t = fsum A calls (fun c => arrGet c A t) := by
  rw [(reduce_spec_acc L calls _ (WFL_init L hL) hw).2 A hA t, arrGet_init]
  simp

/-! ### several fields -/

theorem reduceInto_append (acc x y : Arrays) : reduceInto acc (x ++ y) = reduceInto (reduceInto acc x) y := by
  simp only [reduceInto, List.foldl_append]

theorem lookup_groupReduce (f : Nat) :
    ∀ (inc acc : List (Nat × Arrays)) (a0 : Arrays), Map.lookup acc f = some a0 →
      Map.lookup (groupReduce acc inc) f =
        some (reduceInto a0 ((inc.filter (fun p => p.1 = f)).flatMap Prod.snd)) := by
  intro inc
  induction inc with
  | nil => intro acc a0 h; simpa [groupReduce, reduceInto] using h
  | cons p rest ih =>
    intro acc a0 h
    have hstep : groupReduce acc (p :: rest) =
        groupReduce (match Map.lookup acc p.1 with
          | some a => Map.upsert acc p.1 (reduceInto a p.2)
          | none => acc) rest := rfl
    rw [hstep]
    by_cases hpf : p.1 = f
    · rw [hpf, h]
      simp only
      rw [ih _ (reduceInto a0 p.2) (Map.lookup_upsert_self acc f _)]
      simp [List.filter_cons, hpf, reduceInto_append]
    · cases hl : Map.lookup acc p.1 with
      | none =>
        simp only
        rw [ih acc a0 h]
        simp [List.filter_cons, hpf]
      | some a =>
        simp only
        rw [ih _ a0 (by rw [Map.lookup_upsert_ne _ _ _ _ hpf]; exact h)]
        simp [List.filter_cons, hpf]

theorem groupReduce_spec (acc inc : List (Nat × Arrays)) (f : Nat) (a0 : Arrays)
    (hf : Map.lookup acc f = some a0) (hka : KeysOK a0) (hki : ∀ p ∈ inc, KeysOK p.2) (A : AggType)
    (hA : Has a0 A = true) (t : Nat) :
    fieldGet (groupReduce acc inc) f A t =
      ocomb A (arrGet a0 A t)
        (fsum A ((inc.filter (fun p => p.1 = f)).flatMap Prod.snd) (fun (p : AggType × List (Nat × Int)) =>
          if p.1 = A ∨ Has a0 p.1 = false then Map.lookup p.2 t else none)) := by
  unfold fieldGet
  rw [lookup_groupReduce f inc acc a0 hf]
  simp only
  apply (reduceInto_general _ a0 hka _).2.2 A t hA
  intro x hx
  rw [List.mem_flatMap] at hx
  obtain ⟨p, hp, hxp⟩ := hx
  exact hki p (List.mem_filter.mp hp).1 x hxp

/-! ### the memory query of one page, end to end -/

theorem curValue_noData' {w : Nat} {b : Buf} (hi : BufInv w b) (hd : b.hasData = false) (t : Nat) :
    curValue b t = none := by
  unfold curValue
  split
  · rfl
  · exact hi.empty hd _

theorem pageCalls_wf (L : List AggType) (hL : L.Nodup) (b : Buf) (lo hi tLo tHi g0 qs ratio : Nat) :
    ∀ c ∈ pageCalls L b lo hi tLo tHi g0 qs ratio, WFL L c := by
  intro c hc
  unfold pageCalls at hc
  cases hcomp : b.compress with
  | none => simp [hcomp] at hc; subst hc; exact dsCall_wf L hL _ _ _ _ _ _ _ _
  | some cc =>
    simp [hcomp] at hc
    rcases hc with e | e <;> subst e <;> exact dsCall_wf L hL _ _ _ _ _ _ _ _

/-- what a memory query computes from one page, whatever its window/compress state:
the bucket-wise fold of the page's memory view. -/
theorem pageCalls_spec {w : Nat} {A : AggType} (hc : AggComm A) (L : List AggType) (hL : L.Nodup) (hAL : A ∈ L)
    (b : Buf) (hi' : BufInv w b) (lo hi tLo tHi g0 qs ratio t : Nat) :
    arrGet ((pageCalls L b lo hi tLo tHi g0 qs ratio).foldl reduceInto (Arrays.init L)) A t =
      fsum A (slotsOf lo hi)
        (fun s => if tLo ≤ s ∧ s ≤ tHi ∧ (g0 + s - qs) / ratio = t then memView A b s else none) := by
  rw [reduce_spec L hL A hAL _ (pageCalls_wf L hL b lo hi tLo tHi g0 qs ratio) t]
  have hcur : ∀ s, (if b.hasData then curValue b s else none) = curValue b s := by
    intro s
    cases hd : b.hasData with
    | true => simp
    | false => simp [curValue_noData' hi' hd s]
  unfold pageCalls
  cases hcomp : b.compress with
  | none =>
    simp only [List.nil_append]
    rw [fsum_cons]
    simp only [fsum, List.foldl_nil, ocomb_none_right]
    rw [dsCall_spec L hL A hAL]
    apply fsum_congr
    intro s _
    simp [memView, hcomp, oldValue, hcur]
  | some cc =>
    simp only [List.singleton_append]
    rw [fsum_cons, fsum_cons]
    simp only [fsum, List.foldl_nil, ocomb_none_right]
    rw [dsCall_spec L hL A hAL, dsCall_spec L hL A hAL, ← hcomp]
    have := fsum_add hc (slotsOf lo hi)
      (fun s => if tLo ≤ s ∧ s ≤ tHi ∧ (g0 + s - qs) / ratio = t then oldValue b.compress s else none)
      (fun s => if tLo ≤ s ∧ s ≤ tHi ∧ (g0 + s - qs) / ratio = t then
          (if b.hasData then curValue b s else none) else none)
    unfold fsum at this ⊢
    rw [← this]
    apply fsum_congr
    intro s _
    by_cases hcond : tLo ≤ s ∧ s ≤ tHi ∧ (g0 + s - qs) / ratio = t
    · simp [hcond, memView]
    · simp [hcond]

/-! ### month-type family selection -/

theorem monthStart_zero (lens : List Nat) : monthStart lens 0 = 0 := by
  cases lens <;> rfl

theorem monthOfDay_spec :
    ∀ (lens : List Nat) (d : Nat), (∀ l ∈ lens, 0 < l) → d < monthStart lens lens.length →
      (monthOfDay lens d).1 < lens.length ∧
      monthStart lens (monthOfDay lens d).1 + (monthOfDay lens d).2 = d + 1 ∧
      1 ≤ (monthOfDay lens d).2 ∧
      d < monthStart lens ((monthOfDay lens d).1 + 1) := by
  intro lens
  induction lens with
  | nil => intro d _ h; simp [monthStart] at h
  | cons l ls ih =>
    intro d hpos hd
    have hd' : d < l + monthStart ls ls.length := by simpa [monthStart] using hd
    unfold monthOfDay
    by_cases h : d < l
    · simp only [h, if_true]
      refine ⟨by simp, by simp [monthStart_zero], by omega, ?_⟩
      simp [monthStart, monthStart_zero]; exact h
    · simp only [h, if_false]
      have hpos' : ∀ x ∈ ls, 0 < x := fun x hx => hpos x (by simp [hx])
      obtain ⟨h1, h2, h3, h4⟩ := ih (d - l) hpos' (by omega)
      refine ⟨by simp; omega, ?_, h3, ?_⟩
      · simp only [monthStart]; omega
      · simp only [monthStart]; omega

theorem monthStart_succ_le :
    ∀ (lens : List Nat) (m : Nat), (∀ l ∈ lens, 0 < l) → m < lens.length →
      monthStart lens m < monthStart lens (m + 1) := by
  intro lens
  induction lens with
  | nil => intro m _ h; simp at h
  | cons l ls ih =>
    intro m hpos hm
    cases m with
    | zero => simp [monthStart, monthStart_zero]; exact hpos l (by simp)
    | succ k =>
      have := ih k (fun x hx => hpos x (by simp [hx])) (by simpa using hm)
      simp only [monthStart]; omega

theorem monthStart_mono (lens : List Nat) (hpos : ∀ l ∈ lens, 0 < l) :
    ∀ (b a : Nat), a ≤ b → b ≤ lens.length → monthStart lens a ≤ monthStart lens b := by
  intro b
  induction b with
  | zero => intro a ha _; have : a = 0 := by omega
            subst this; exact Nat.le_refl _
  | succ k ih =>
    intro a ha hb
    by_cases h : a = k + 1
    · subst h; exact Nat.le_refl _
    · have h1 := ih a (by omega) (by omega)
      have h2 := monthStart_succ_le lens k hpos (by omega)
      omega

/-- the repaired month-type selection is exact for every query range. -/
theorem monthFamilySelected_exact (lens : List Nat) (hpos : ∀ l ∈ lens, 0 < l) (qs qe f : Nat)
    (hle : qs ≤ qe) (hqe : qe < monthStart lens lens.length) (hf : f < monthStart lens lens.length) :
    monthFamilySelected lens qs qe f = (decide (qs ≤ f) && decide (f ≤ qe)) := by
  obtain ⟨q1, q2, q3, q4⟩ := monthOfDay_spec lens qs hpos (by omega)
  obtain ⟨f1, f2, f3, f4⟩ := monthOfDay_spec lens f hpos hf
  unfold monthFamilySelected
  simp only
  by_cases hin : qs ≤ f ∧ f ≤ qe
  · -- in range: its segment is walked
    have hseg : ¬(monthStart lens (monthOfDay lens f).1 < monthStart lens (monthOfDay lens qs).1 ∨
        monthStart lens (monthOfDay lens f).1 > qe) := by
      intro h
      rcases h with h | h
      · rcases Nat.lt_or_ge (monthOfDay lens f).1 (monthOfDay lens qs).1 with hlt | hge
        · have := monthStart_mono lens hpos (monthOfDay lens qs).1 ((monthOfDay lens f).1 + 1) (by omega) (by omega)
          omega
        · have := monthStart_mono lens hpos (monthOfDay lens f).1 (monthOfDay lens qs).1 hge (by omega)
          omega
      · omega
    simp only [hseg, if_false]
    simp [hin.1, hin.2]
  · have hrhs : (decide (qs ≤ f) && decide (f ≤ qe)) = false := by
      by_cases ha : qs ≤ f <;> by_cases hb : f ≤ qe <;> simp [ha, hb]
      exact hin ⟨ha, hb⟩
    rw [hrhs]
    split
    · rfl
    · have h1 : ¬(f ≥ qs ∧ f ≤ qe) := hin
      have h2 : ¬(f = qs) := fun e => hin ⟨by omega, by omega⟩
      by_cases ha : f ≥ qs <;> by_cases hb : f ≤ qe <;> simp [ha, hb, h2]
      all_goals first | omega | exact absurd ⟨ha, hb⟩ hin

end LinVerif.Lemmas.C11
