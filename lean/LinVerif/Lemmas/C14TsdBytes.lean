/-
TSD block codec at the byte level: header + flushed bit buffer, `Reset` / `ResetWithTimeRange`
of an arbitrary (fresh, used, pooled) decoder put it in front of slot 0 of the block.
-/
import LinVerif.Lemmas.C14Tsd

namespace LinVerif.Tsd
open LinVerif.Bits LinVerif.Xor
open LinVerif.Varint (two64)

theorem le16_lt (x : Nat) : ∀ b ∈ le16 x, b < 256 := by
  intro b hb
  simp only [le16, List.mem_cons, List.mem_nil_iff, or_false] at hb
  rcases hb with h | h <;> omega

theorem rd16_header (st en : Nat) (out : List Nat) (hst : st < 65536) (hen : en < 65536) :
    rd16 (le16 st ++ le16 en ++ out) 0 = st ∧ rd16 (le16 st ++ le16 en ++ out) 2 = en := by
  simp only [rd16, le16, List.cons_append, List.nil_append, List.getD_cons_zero, List.getD_cons_succ]
  constructor <;> omega

theorem slotBits_ne_nil (x : Xor.Enc) (slots : Slots) (h : slots ≠ []) : slotBits x slots ≠ [] := by
  cases slots with
  | nil => exact absurd rfl h
  | cons s rest => cases s <;> simp [slotBits]

/-- `Reset(data)` on ANY decoder object (zero value, fresh, used, taken from the pool) -/
theorem Dec.reset_at (d : Dec) (st en : Nat) (out : List Nat) (hst : st < 65536) (hen : en < 65536)
    (hout : out ≠ []) (hlt : ∀ b ∈ out, b < 256) :
    DecAt (d.reset (le16 st ++ le16 en ++ out)) st en 0 Xor.Enc.fresh (bytesBits out) := by
  have hlen : ¬ (le16 st ++ le16 en ++ out).length ≤ 4 := by
    cases out with
    | nil => exact absurd rfl hout
    | cons a t => simp [le16]
  obtain ⟨h0, h2⟩ := rd16_header st en out hst hen
  have hbytes : ∀ b ∈ le16 st ++ le16 en ++ out, b < 256 := by
    intro b hb
    simp only [List.mem_append] at hb
    rcases hb with (hb | hb) | hb
    · exact le16_lt st b hb
    · exact le16_lt en b hb
    · exact hlt b hb
  have hdrop : (le16 st ++ le16 en ++ out).drop 4 = out := by simp [le16]
  unfold Dec.reset
  rw [if_neg hlen]
  by_cases hi : d.inited
  · simp only [Dec.reset', hi, Bool.not_true, Bool.false_eq_true, if_false, h0, h2]
    refine ⟨rfl, rfl, rfl, rfl, ?_, ?_, Xor.Enc.fresh_inv, ?_⟩
    · exact Reader.ok_of_aligned _ 4 hbytes
    · exact sim_fresh
    · simp only [Reader.setIdx, Reader.setBuf, Reader.reset]
      rw [Reader.rest_of_aligned, hdrop]
  · simp only [Dec.reset', hi, Bool.not_false, if_true, h0, h2]
    refine ⟨rfl, rfl, rfl, rfl, ?_, ?_, Xor.Enc.fresh_inv, ?_⟩
    · exact Reader.ok_of_aligned _ 4 hbytes
    · exact sim_fresh
    · simp only [Reader.setIdx, Reader.fresh, Reader.reset]
      rw [Reader.rest_of_aligned, hdrop]

/-- `ResetWithTimeRange(data, st, en)` on ANY decoder object -/
theorem Dec.resetWithTimeRange_at (d : Dec) (st en : Nat) (out : List Nat) (hlt : ∀ b ∈ out, b < 256) :
    DecAt (d.resetWithTimeRange out st en) st en 0 Xor.Enc.fresh (bytesBits out) := by
  unfold Dec.resetWithTimeRange
  by_cases hi : d.inited
  · simp only [Dec.reset', hi, Bool.not_true, Bool.false_eq_true, if_false]
    refine ⟨rfl, rfl, rfl, rfl, ?_, sim_fresh, Xor.Enc.fresh_inv, ?_⟩
    · exact Reader.ok_of_aligned _ 0 hlt
    · simp only [Reader.setBuf, Reader.reset]
      rw [Reader.rest_of_aligned]; simp
  · simp only [Dec.reset', hi, Bool.not_false, if_true]
    refine ⟨rfl, rfl, rfl, rfl, ?_, sim_fresh, Xor.Enc.fresh_inv, ?_⟩
    · exact Reader.ok_of_aligned _ 0 hlt
    · simp only [Reader.fresh, Reader.reset]
      rw [Reader.rest_of_aligned]; simp

/-- what `Bytes()` returns for a non-empty block written into a fresh encoder -/
theorem Enc.bytes_spec (start : Nat) (slots : Slots) (hs : slotsOk slots) (hne : slots ≠ [])
    (hstart : start < 65536) (hb : start + slots.length ≤ 65536) (hn : slots.length ≤ 65535) :
    ∃ out, ((Enc.fresh start).appendAll slots).bytes.1
        = some (le16 start ++ le16 (start + slots.length - 1) ++ out) ∧
      ((Enc.fresh start).appendAll slots).bytesWithoutTime.1 = out ∧
      out ≠ [] ∧ (∀ b ∈ out, b < 256) ∧
      ∃ pad, bytesBits out = slotBits Xor.Enc.fresh slots ++ List.replicate pad false := by
  obtain ⟨ok, hbits, hcount, hst⟩ := Enc.appendAll_spec slots (Enc.fresh start) (Enc.fresh_ok start) hs
  have hlen : slots.length ≠ 0 := by
    intro h; exact hne (List.eq_nil_of_length_eq_zero h)
  have hcnt : ((Enc.fresh start).appendAll slots).count = slots.length := by
    rw [hcount]; simp only [Enc.fresh, u16]; omega
  have hflush := Writer.flush_bits _ ok.w
  have hfl := Writer.flush_out_lt _ ok.w
  have h0 : (Enc.fresh start).w.bits = [] := Writer.fresh_bits
  have hv0 : (Enc.fresh start).values = Xor.Enc.fresh := rfl
  rw [hbits, h0, hv0, List.nil_append] at hflush
  refine ⟨((Enc.fresh start).appendAll slots).w.flush.out, ?_, rfl, ?_, hfl, ⟨_, hflush⟩⟩
  · unfold Enc.bytes
    simp only [hcnt, hlen, if_false, hst]
    have : u16 (start + slots.length + 65535) = start + slots.length - 1 := by unfold u16; omega
    simp [Enc.fresh, this]
  · intro hnil
    rw [hnil] at hflush
    have h1 := congrArg List.length hflush
    have h2 := slotBits_ne_nil Xor.Enc.fresh slots hne
    simp at h1
    exact h2 (List.eq_nil_of_length_eq_zero (by omega))

/-- the stated guard: an encoder into which no slot was appended returns `nil` -/
theorem Enc.bytes_empty (start : Nat) : ((Enc.fresh start).appendAll []).bytes.1 = none := by
  simp [Enc.appendAll, Enc.bytes, Enc.fresh]


/-! ### the empty block -/

/-- a decoder over zero bytes: nothing buffered, and either no partial byte or the error already recorded -/
structure EmptyDec (d : Dec) : Prop where
  inited : d.inited = true
  buf : d.r.buf = []
  b : d.r.b = 0
  state : d.r.count = 0 ∨ d.r.err = true

theorem EmptyDec.hasValue {d : Dec} (h : EmptyDec d) :
    d.hasValue.1 = false ∧ EmptyDec d.hasValue.2 ∧ d.hasValue.2.startTime = d.startTime ∧
    d.hasValue.2.endTime = d.endTime ∧ d.hasValue.2.idx = d.idx := by
  obtain ⟨hi, hb, hz, hs⟩ := h
  have hg : d.r.buf[d.r.idx]? = none := by rw [hb]; simp
  by_cases hc : d.r.count = 0
  · have e : d.hasValue = (false, { d with r := { d.r with b := (0 <<< 1) % 256, count := 8 - 1, err := true }, err := true }) := by
      simp [Dec.hasValue, hi, Reader.readBit, Reader.getByte, hc, hg]
    rw [e]
    exact ⟨rfl, ⟨hi, hb, rfl, Or.inr rfl⟩, rfl, rfl, rfl⟩
  · have he : d.r.err = true := by
      rcases hs with h | h
      · exact absurd h hc
      · exact h
    have e : d.hasValue = (false, { d with r := { d.r with b := (d.r.b <<< 1) % 256, count := d.r.count - 1 }, err := true }) := by
      simp [Dec.hasValue, hi, Reader.readBit, hc, he, hz]
    rw [e]
    exact ⟨rfl, ⟨hi, hb, by simp [hz], Or.inr he⟩, rfl, rfl, rfl⟩

theorem EmptyDec.hasValueWithSlot {d : Dec} (h : EmptyDec d) (q : Nat) :
    (d.hasValueWithSlot q).1 = false ∧ EmptyDec (d.hasValueWithSlot q).2 := by
  unfold Dec.hasValueWithSlot
  by_cases c1 : q < d.startTime ∨ q > d.endTime
  · rw [if_pos c1]; exact ⟨rfl, h⟩
  · rw [if_neg c1]
    by_cases c2 : q = u16 (d.idx + d.startTime)
    · rw [if_pos c2]
      have h' : EmptyDec { d with idx := u16 (d.idx + 1) } := ⟨h.inited, h.buf, h.b, h.state⟩
      exact ⟨h'.hasValue.1, h'.hasValue.2.1⟩
    · rw [if_neg c2]; exact ⟨rfl, h⟩

theorem EmptyDec.getValue {d : Dec} (h : EmptyDec d) (q : Nat) :
    (d.getValue q).1 = none ∧ EmptyDec (d.getValue q).2 := by
  obtain ⟨h1, h2⟩ := h.hasValueWithSlot q
  unfold Dec.getValue
  generalize d.hasValueWithSlot q = p at h1 h2
  obtain ⟨v, d'⟩ := p
  simp only at h1 h2
  subst h1
  exact ⟨rfl, h2⟩

theorem EmptyDec.getValues : ∀ (qs : List Nat) (d : Dec), EmptyDec d → (d.getValues qs).1 = qs.map (fun _ => none) := by
  intro qs
  induction qs with
  | nil => intro d _; rfl
  | cons q qs ih =>
    intro d h
    obtain ⟨h1, h2⟩ := h.getValue q
    simp only [Dec.getValues, List.map_cons]
    generalize d.getValue q = p at h1 h2
    obtain ⟨o, d'⟩ := p
    simp only at h1 h2
    subst h1
    rw [ih d' h2]

theorem EmptyDec.readSeq : ∀ (fuel : Nat) (d : Dec), EmptyDec d → (d.readSeq fuel).1 = [] := by
  intro fuel
  induction fuel with
  | zero => intro d _; rfl
  | succ f ih =>
    intro d h
    simp only [Dec.readSeq]
    unfold Dec.next
    split
    · have h' : EmptyDec { d with idx := u16 (d.idx + 1) } := ⟨h.inited, h.buf, h.b, h.state⟩
      obtain ⟨h1, h2, _⟩ := h'.hasValue
      generalize ({ d with idx := u16 (d.idx + 1) } : Dec).hasValue = p at h1 h2
      obtain ⟨v, d'⟩ := p
      simp only at h1 h2
      subst h1
      simpa using ih d' h2
    · simp

/-- `ResetWithTimeRange([], s, e)` on ANY decoder object -/
theorem Dec.resetWithTimeRange_empty (d : Dec) (s e : Nat) : EmptyDec (d.resetWithTimeRange [] s e) := by
  unfold Dec.resetWithTimeRange
  by_cases hi : d.inited
  · simp only [Dec.reset', hi, Bool.not_true, Bool.false_eq_true, if_false]
    exact ⟨rfl, rfl, rfl, Or.inl rfl⟩
  · simp only [Dec.reset', hi, Bool.not_false, if_true]
    exact ⟨rfl, rfl, rfl, Or.inl rfl⟩

theorem slotsOk_of (slots : Slots) (h : ∀ v, some v ∈ slots → v < 2 ^ 64) : slotsOk slots :=
  fun v hv => by simpa [two64] using h v hv


/-- a reuse history of one pooled TSD encoder -/
inductive EncOp
  | get (start : Nat)       -- GetTSDEncoder(start) returning this object / RestWithStartTime(start)
  | slot (s : Option Nat)   -- AppendTime (+ AppendValue)
  | bytes                   -- Bytes()

def runEnc : Enc → List EncOp → Enc × List (Option (List Nat))
  | e, [] => (e, [])
  | e, .get s :: ops => runEnc (e.resetWithStartTime s) ops
  | e, .slot s :: ops => runEnc (e.appendSlot s) ops
  | e, .bytes :: ops =>
    let (b, e1) := e.bytes
    let (e2, bs) := runEnc e1 ops
    (e2, b :: bs)


end LinVerif.Tsd
