/-
C13 — calendar lemmas: the era table lifted to all days, round trip in both directions,
month succession and monotonicity.
-/
import LinVerif.Model.Calendar
import LinVerif.Lemmas.C13TableA
import LinVerif.Lemmas.C13TableB
import LinVerif.Lemmas.C13TableC
import LinVerif.Lemmas.C13TableD
import LinVerif.Lemmas.C13TableE
import Mathlib.Tactic.SplitIfs
import Mathlib.Tactic.IntervalCases

namespace LinVerif.Lemmas.C13
open LinVerif.Calendar

/-- the complete table: every day of the era satisfies the row predicate -/
theorem okN_all (i : Nat) (h : i < 146097) : okN i = true := by
  by_cases h1 : i < 32768
  · exact checkRange_sound okN 15 0 tableA i (by omega) (by norm_num; omega)
  by_cases h2 : i < 65536
  · exact checkRange_sound okN 15 32768 tableB i (by omega) (by norm_num; omega)
  by_cases h3 : i < 98304
  · exact checkRange_sound okN 15 65536 tableC i (by omega) (by norm_num; omega)
  by_cases h4 : i < 131072
  · exact checkRange_sound okN 15 98304 tableD i (by omega) (by norm_num; omega)
  by_cases h5 : i < 139264
  · exact checkRange_sound okN 13 131072 tableE13 i (by omega) (by norm_num; omega)
  by_cases h6 : i < 143360
  · exact checkRange_sound okN 12 139264 tableE12 i (by omega) (by norm_num; omega)
  by_cases h7 : i < 145408
  · exact checkRange_sound okN 11 143360 tableE11 i (by omega) (by norm_num; omega)
  by_cases h8 : i < 145920
  · exact checkRange_sound okN 9 145408 tableE9 i (by omega) (by norm_num; omega)
  by_cases h9 : i < 146048
  · exact checkRange_sound okN 7 145920 tableE7 i (by omega) (by norm_num; omega)
  by_cases h10 : i < 146080
  · exact checkRange_sound okN 5 146048 tableE5 i (by omega) (by norm_num; omega)
  by_cases h11 : i < 146096
  · exact checkRange_sound okN 4 146080 tableE4 i (by omega) (by norm_num; omega)
  · exact checkRange_sound okN 0 146096 tableE0 i (by omega) (by norm_num; omega)

/-- the two facts `omega` cannot derive, for every day-of-era -/
theorem era_fact (doe : Int) (h0 : 0 ≤ doe) (h1 : doe < 146097) :
    yearStart (yoeOf doe) ≤ doe ∧
      doe < yearStart (yoeOf doe + 1) + (yoeOf doe + 1) / 400 := by
  obtain ⟨n, rfl⟩ := Int.eq_ofNat_of_zero_le h0
  have hn : n < 146097 := by omega
  have h := okN_all n hn
  simp only [okN, yoeN, Bool.and_eq_true, Nat.ble_eq, Nat.blt_eq] at h
  simp only [yearStart, yoeOf]
  have hq : ((n - n / 1460 + n / 36524 - n / 146096 : Nat) : Int)
      = (n : Int) - (n : Int) / 1460 + (n : Int) / 36524 - (n : Int) / 146096 := by omega
  rw [← hq]
  generalize (n - n / 1460 + n / 36524 - n / 146096 : Nat) = q at *
  have hy : ((q / 365 : Nat) : Int) = (q : Int) / 365 := by omega
  rw [← hy]
  generalize q / 365 = y at *
  have h1 : 365 * (y : Int) + (y : Int) / 4 ≤ (n : Int) + (y : Int) / 100 := by exact_mod_cast h.1
  have h2 : (n : Int) + ((y : Int) + 1) / 100
      < 365 * ((y : Int) + 1) + ((y : Int) + 1) / 4 + ((y : Int) + 1) / 400 := by exact_mod_cast h.2
  omega

/-- year-of-era is in `0..399` (linear consequence of the division bounds) -/
theorem yoe_range (doe : Int) (h0 : 0 ≤ doe) (h1 : doe < 146097) :
    0 ≤ yoeOf doe ∧ yoeOf doe ≤ 399 := by
  simp only [yoeOf]; omega

/-- the arithmetic core of `civil_spec`, with the intermediate values of `civilFromDays` named -/
theorem civil_core (z era doe yoe mp : Int)
    (hz : z + 719468 = 146097 * era + doe) (h1 : doe < 146097)
    (hy0 : 0 ≤ yoe) (hy1 : yoe ≤ 399)
    (hf1 : yearStart yoe ≤ doe) (hf2 : doe < yearStart (yoe + 1) + (yoe + 1) / 400)
    (hmp : mp = (5 * (doe - yearStart yoe) + 2) / 153) :
    1 ≤ (if mp < 10 then mp + 3 else mp - 9) ∧ (if mp < 10 then mp + 3 else mp - 9) ≤ 12 ∧
    1 ≤ doe - yearStart yoe - (153 * mp + 2) / 5 + 1 ∧
    daysFromCivil
      (if (if mp < 10 then mp + 3 else mp - 9) ≤ 2 then yoe + era * 400 + 1 else yoe + era * 400)
      (if mp < 10 then mp + 3 else mp - 9) (doe - yearStart yoe - (153 * mp + 2) / 5 + 1) = z ∧
    z < daysFromCivil
      (nextMonth
        (if (if mp < 10 then mp + 3 else mp - 9) ≤ 2 then yoe + era * 400 + 1 else yoe + era * 400)
        (if mp < 10 then mp + 3 else mp - 9)).1
      (nextMonth
        (if (if mp < 10 then mp + 3 else mp - 9) ≤ 2 then yoe + era * 400 + 1 else yoe + era * 400)
        (if mp < 10 then mp + 3 else mp - 9)).2 1 := by
  simp only [yearStart] at hf1 hf2 hmp
  have hmp0 : 0 ≤ mp := by omega
  have hmp1 : mp ≤ 11 := by omega
  simp only [daysFromCivil, nextMonth, normMonth, eraDays, epochShift, yearStart]
  interval_cases mp <;> norm_num <;> omega

/-- What `civilFromDays` returns: a month in 1..12, a day ≥ 1, whose day number is `z`
(round trip), and `z` lies before the first day of the following month. -/
theorem civil_spec (z : Int) :
    1 ≤ (civilFromDays z).2.1 ∧ (civilFromDays z).2.1 ≤ 12 ∧ 1 ≤ (civilFromDays z).2.2 ∧
    daysFromCivil (civilFromDays z).1 (civilFromDays z).2.1 (civilFromDays z).2.2 = z ∧
    z < daysFromCivil (nextMonth (civilFromDays z).1 (civilFromDays z).2.1).1
          (nextMonth (civilFromDays z).1 (civilFromDays z).2.1).2 1 := by
  have hdoe0 : 0 ≤ (z + 719468) % 146097 := Int.emod_nonneg _ (by decide)
  have hdoe1 : (z + 719468) % 146097 < 146097 := Int.emod_lt_of_pos _ (by decide)
  have hf := era_fact _ hdoe0 hdoe1
  have hy := yoe_range _ hdoe0 hdoe1
  have hz : z + 719468 = 146097 * ((z + 719468) / 146097) + (z + 719468) % 146097 :=
    (Int.mul_ediv_add_emod _ _).symm
  exact civil_core z _ _ _ _ hz hdoe1 hy.1 hy.2 hf.1 hf.2 rfl

/-- `daysFromCivil` is linear in the day argument (how `time.Date` rolls an out-of-range day) -/
theorem days_linear (y m d : Int) : daysFromCivil y m d = daysFromCivil y m 1 + (d - 1) := by
  simp only [daysFromCivil]; omega

/-- every month has 28..31 days -/
theorem month_step (y m : Int) (hm1 : 1 ≤ m) (hm2 : m ≤ 12) :
    28 ≤ daysFromCivil (nextMonth y m).1 (nextMonth y m).2 1 - daysFromCivil y m 1 ∧
    daysFromCivil (nextMonth y m).1 (nextMonth y m).2 1 - daysFromCivil y m 1 ≤ 31 := by
  simp only [daysFromCivil, nextMonth, normMonth, eraDays, epochShift]
  interval_cases m <;> norm_num <;> omega

/-- first day of the month with index `k = 12·year + (month − 1)` -/
def monthStartK (k : Int) : Int := daysFromCivil (k / 12) (k % 12 + 1) 1

theorem monthStartK_of (y m : Int) (hm1 : 1 ≤ m) (hm2 : m ≤ 12) :
    monthStartK (12 * y + (m - 1)) = daysFromCivil y m 1 := by
  have h1 : (12 * y + (m - 1)) / 12 = y := by omega
  have h2 : (12 * y + (m - 1)) % 12 + 1 = m := by omega
  simp only [monthStartK, h1, h2]

theorem nextMonth_index (k : Int) :
    nextMonth (k / 12) (k % 12 + 1) = ((k + 1) / 12, (k + 1) % 12 + 1) := by
  simp only [nextMonth, normMonth]
  refine Prod.ext ?_ ?_ <;> simp only <;> omega

theorem monthStartK_step (k : Int) :
    28 ≤ monthStartK (k + 1) - monthStartK k ∧ monthStartK (k + 1) - monthStartK k ≤ 31 := by
  have h := month_step (k / 12) (k % 12 + 1) (by omega) (by omega)
  rw [nextMonth_index] at h
  exact h

theorem monthStartK_add (k : Int) (n : Nat) : monthStartK k + 28 * (n : Int) ≤ monthStartK (k + n) := by
  induction n with
  | zero => simp
  | succ n ih =>
    have h := monthStartK_step (k + n)
    have e : k + ((n + 1 : Nat) : Int) = k + (n : Int) + 1 := by push_cast; omega
    rw [e]; push_cast; omega

theorem monthStartK_mono {k1 k2 : Int} (h : k1 < k2) : monthStartK (k1 + 1) ≤ monthStartK k2 := by
  have h' := monthStartK_add (k1 + 1) (k2 - k1 - 1).toNat
  have e : k1 + 1 + ((k2 - k1 - 1).toNat : Int) = k2 := by omega
  rw [e] at h'
  omega

/-- a day lies in at most one month -/
theorem month_unique (y1 m1 y2 m2 z : Int)
    (a1 : 1 ≤ m1) (a2 : m1 ≤ 12) (b1 : 1 ≤ m2) (b2 : m2 ≤ 12)
    (l1 : daysFromCivil y1 m1 1 ≤ z)
    (u1 : z < daysFromCivil (nextMonth y1 m1).1 (nextMonth y1 m1).2 1)
    (l2 : daysFromCivil y2 m2 1 ≤ z)
    (u2 : z < daysFromCivil (nextMonth y2 m2).1 (nextMonth y2 m2).2 1) :
    y1 = y2 ∧ m1 = m2 := by
  have e1 := monthStartK_of y1 m1 a1 a2
  have e2 := monthStartK_of y2 m2 b1 b2
  have n1 : daysFromCivil (nextMonth y1 m1).1 (nextMonth y1 m1).2 1 = monthStartK (12 * y1 + (m1 - 1) + 1) := by
    have h := nextMonth_index (12 * y1 + (m1 - 1))
    have h1 : (12 * y1 + (m1 - 1)) / 12 = y1 := by omega
    have h2 : (12 * y1 + (m1 - 1)) % 12 + 1 = m1 := by omega
    rw [h1, h2] at h
    rw [h]; rfl
  have n2 : daysFromCivil (nextMonth y2 m2).1 (nextMonth y2 m2).2 1 = monthStartK (12 * y2 + (m2 - 1) + 1) := by
    have h := nextMonth_index (12 * y2 + (m2 - 1))
    have h1 : (12 * y2 + (m2 - 1)) / 12 = y2 := by omega
    have h2 : (12 * y2 + (m2 - 1)) % 12 + 1 = m2 := by omega
    rw [h1, h2] at h
    rw [h]; rfl
  rw [n1] at u1; rw [n2] at u2; rw [← e1] at l1; rw [← e2] at l2
  have hk : 12 * y1 + (m1 - 1) = 12 * y2 + (m2 - 1) := by
    rcases Int.lt_trichotomy (12 * y1 + (m1 - 1)) (12 * y2 + (m2 - 1)) with h | h | h
    · have := monthStartK_mono h; omega
    · exact h
    · have := monthStartK_mono h; omega
  omega

/-- round trip, second direction: a valid civil date is recovered from its day number -/
theorem civil_of_days (y m d : Int) (hm1 : 1 ≤ m) (hm2 : m ≤ 12) (hd1 : 1 ≤ d)
    (hd2 : daysFromCivil y m d < daysFromCivil (nextMonth y m).1 (nextMonth y m).2 1) :
    civilFromDays (daysFromCivil y m d) = (y, m, d) := by
  obtain ⟨c1, c2, c3, c4, c5⟩ := civil_spec (daysFromCivil y m d)
  generalize civilFromDays (daysFromCivil y m d) = c at *
  obtain ⟨y', m', d'⟩ := c
  simp only at c1 c2 c3 c4 c5
  have l1 := days_linear y m d
  have l2 := days_linear y' m' d'
  have hu := month_unique y' m' y m (daysFromCivil y m d) c1 c2 hm1 hm2 (by omega) c5 (by omega) hd2
  obtain ⟨rfl, rfl⟩ := hu
  have : d' = d := by omega
  subst this; rfl

end LinVerif.Lemmas.C13
