/-
C09, ids used by index entries: tag value ids handed out in one run of the node are either ids the
tag value dictionary already had at the start of the run, or lie at or above the in-memory counter
the run started with. (Used for `fresh_after_recover_index_partial`.)
-/
import LinVerif.Lemmas.C09Run

namespace LinVerif.IdAssign

/-- what one run does to the tag value dictionary: the counter grows; an id in the later view is an
id of the earlier view or a new one, i.e. ≥ the earlier counter -/
def TvStep (nd nd' : Node) : Prop :=
  nd.seqMem.tagValue ≤ nd'.seqMem.tagValue ∧
  ∀ tk v j, nd'.tagValue.lookup tk v = some j → nd.tagValue.lookup tk v = some j ∨ nd.seqMem.tagValue ≤ j

theorem TvStep.refl (nd : Node) : TvStep nd nd := ⟨Nat.le_refl _, fun _ _ _ h => Or.inl h⟩

theorem TvStep.trans {a b c : Node} (h1 : TvStep a b) (h2 : TvStep b c) : TvStep a c := by
  refine ⟨Nat.le_trans h1.1 h2.1, ?_⟩
  intro tk v j h
  rcases h2.2 tk v j h with h | h
  · exact h1.2 tk v j h
  · exact Or.inr (Nat.le_trans h1.1 h)

theorem tvStep_of_eq {nd nd' : Node} (h1 : nd'.tagValue = nd.tagValue) (h2 : nd'.seqMem.tagValue = nd.seqMem.tagValue) :
    TvStep nd nd' := by
  refine ⟨by rw [h2]; exact Nat.le_refl _, ?_⟩
  intro tk v j h; rw [h1] at h; exact Or.inl h

theorem afterAlloc_tagValue (c : Cfg) (nd : Node) : (Node.afterAlloc c nd).tagValue = nd.tagValue := by
  unfold Node.afterAlloc; split <;> rfl
theorem afterAlloc_seqMem (c : Cfg) (nd : Node) : (Node.afterAlloc c nd).seqMem = nd.seqMem := by
  unfold Node.afterAlloc; split <;> rfl

theorem tvStep_genTagValueID (c : Cfg) (nd : Node) (tk v : Nat) : TvStep nd (nd.genTagValueID c tk v).1 := by
  cases hl : nd.tagValue.lookup tk v with
  | some i =>
    have e : (nd.genTagValueID c tk v).1 = Node.afterAlloc c (nd.withTagValue nd.tagValue nd.seqMem.tagValue) := by
      unfold Node.genTagValueID; rw [getOrCreate_hit c.kv _ _ _ _ i hl]; rfl
    rw [e]
    exact tvStep_of_eq (by rw [afterAlloc_tagValue]; rfl) (by rw [afterAlloc_seqMem]; rfl)
  | none =>
    have e : (nd.genTagValueID c tk v).1 =
        Node.afterAlloc c (nd.withTagValue (nd.tagValue.insert tk v nd.seqMem.tagValue) (nd.seqMem.tagValue + 1)) := by
      unfold Node.genTagValueID; rw [getOrCreate_miss c.kv _ _ _ _ hl]; rfl
    rw [e]
    refine ⟨by rw [afterAlloc_seqMem]; exact Nat.le_succ _, ?_⟩
    intro tk' v' j h
    rw [afterAlloc_tagValue] at h
    simp only [Node.withTagValue] at h
    have h' : (nd.tagValue.insert tk v nd.seqMem.tagValue).lookup tk' v' = some j := h
    rw [lookup_insert] at h'
    by_cases hk : tk' = tk ∧ v' = v
    · simp [hk] at h'; right; omega
    · simp [hk] at h'; left; exact h'

theorem tvStep_genTagKeyID (c : Cfg) (nd : Node) (m k : Nat) : TvStep nd (nd.genTagKeyID c m k).1 := by
  unfold Node.genTagKeyID
  simp only []
  exact tvStep_of_eq (by rw [afterAlloc_tagValue]) (by rw [afterAlloc_seqMem])

theorem tvStep_genFieldID (c : Cfg) (nd : Node) (m f : Nat) : TvStep nd (nd.genFieldID c m f).1 :=
  tvStep_of_eq rfl rfl

theorem tvStep_genMetric (c : Cfg) (nd : Node) (nb ns name : Nat) : TvStep nd (nd.genMetric c nb ns name).1 := by
  unfold Node.genMetric
  simp only []
  cases (getOrCreate c.kv nd.ns nd.seqMem.ns nb ns).2.2 with
  | none => exact tvStep_of_eq (by rw [afterAlloc_tagValue]) (by rw [afterAlloc_seqMem])
  | some nsID =>
    simp only []
    split
    · apply tvStep_of_eq
      · rw [afterAlloc_tagValue]; show (Node.afterAlloc c _).tagValue = _; rw [afterAlloc_tagValue]
      · rw [afterAlloc_seqMem]; show (Node.afterAlloc c _).seqMem.tagValue = _; rw [afterAlloc_seqMem]
    · apply tvStep_of_eq
      · rw [afterAlloc_tagValue]; show (Node.afterAlloc c _).tagValue = _; rw [afterAlloc_tagValue]
      · rw [afterAlloc_seqMem]; show (Node.afterAlloc c _).seqMem.tagValue = _; rw [afterAlloc_seqMem]

theorem tvStep_setShard (nd : Node) (k : Nat) (sh : Shard) : TvStep nd (nd.setShard k sh) := tvStep_of_eq rfl rfl

theorem tvStep_buildInverted (c : Cfg) (shard m sid : Nat) (tags : List (Nat × Nat)) :
    ∀ nd : Node, TvStep nd (Node.buildInverted c shard m sid nd tags) := by
  induction tags with
  | nil => intro nd; exact TvStep.refl _
  | cons kv rest ih =>
    intro nd
    obtain ⟨k, v⟩ := kv
    have g1 := tvStep_genTagKeyID c nd m k
    cases h1 : (nd.genTagKeyID c m k).2 with
    | id tk =>
      have g2 := tvStep_genTagValueID c (nd.genTagKeyID c m k).1 tk v
      cases h2 : ((nd.genTagKeyID c m k).1.genTagValueID c tk v).2 with
      | id tv =>
        simp only [Node.buildInverted, h1, h2]
        exact (g1.trans g2).trans ((tvStep_setShard _ _ _).trans (ih _))
      | tooManyFields | tooManyTags | tooManySeries | stuck =>
        simp only [Node.buildInverted, h1, h2]
        exact (g1.trans g2).trans (ih _)
    | tooManyFields | tooManyTags | tooManySeries | stuck =>
      simp only [Node.buildInverted, h1]
      exact g1.trans (ih _)

theorem tvStep_genSeries (c : Cfg) (nd : Node) (shard m ts : Nat) (tags : List (Nat × Nat)) :
    TvStep nd (nd.genSeries c shard m ts tags).1 := by
  unfold Node.genSeries
  simp only []
  cases (nd.shards shard).series.lookup m ts with
  | some i => exact TvStep.refl _
  | none =>
    simp only []
    split
    · exact tvStep_setShard _ _ _
    · split
      · exact tvStep_setShard _ _ _
      · exact (tvStep_setShard _ _ _).trans (tvStep_buildInverted c shard m _ tags _)

theorem metaFlushStep_tv {nd : Node} (inv : MetaInv nd) (j : Nat) :
    (nd.metaFlushStep j).seqMem = nd.seqMem ∧ ∀ tk v, (nd.metaFlushStep j).tagValue.lookup tk v = nd.tagValue.lookup tk v := by
  match j with
  | 0 | 1 | 2 | 3 => exact ⟨rfl, fun _ _ => rfl⟩
  | 4 => exact ⟨rfl, fun tk v => lookup_flush nd.tagValue inv.tagValue.snapDisk tk v⟩
  | (n + 5) => exact ⟨rfl, fun _ _ => rfl⟩

theorem metaFlushPrefix_tv {nd : Node} (inv : MetaInv nd) (k : Nat) :
    (nd.metaFlushPrefix k).seqMem = nd.seqMem ∧ ∀ tk v, (nd.metaFlushPrefix k).tagValue.lookup tk v = nd.tagValue.lookup tk v := by
  induction k with
  | zero => exact ⟨rfl, fun _ _ => rfl⟩
  | succ k ih =>
    rw [metaFlushPrefix_succ]
    have i1 := (metaFlushPrefix_spec inv k).1
    obtain ⟨a, b⟩ := metaFlushStep_tv i1 k
    exact ⟨by rw [a, ih.1], fun tk v => by rw [b, ih.2]⟩

/-- every operation that is not a reopen / crash -/
theorem tvStep_step {nd : Node} (c : Cfg) (inv : NodeInv nd) (op : Op) (hr : op.isRecover = false) :
    TvStep nd (step c nd op).1 := by
  cases op with
  | metric nb ns name => exact tvStep_genMetric c nd nb ns name
  | field m f => exact tvStep_genFieldID c nd m f
  | tagKey m k => exact tvStep_genTagKeyID c nd m k
  | tagValue tk v => exact tvStep_genTagValueID c nd tk v
  | series sh m ts tags => exact tvStep_genSeries c nd sh m ts tags
  | metaPrepare =>
    obtain ⟨_, v, _, sm, _⟩ := metaPrepareE_spec inv.md c.prepareSwapsEmpty
    refine ⟨by show nd.seqMem.tagValue ≤ (nd.metaPrepareE c.prepareSwapsEmpty).seqMem.tagValue; rw [sm]; exact Nat.le_refl _, ?_⟩
    intro tk v' j h
    have h' : (nd.metaPrepareE c.prepareSwapsEmpty).mview (.tagValue tk v') = some j := h
    rw [v] at h'; exact Or.inl h'
  | metaFlush =>
    obtain ⟨a, b⟩ := metaFlushPrefix_tv inv.md 5
    refine ⟨by show nd.seqMem.tagValue ≤ (nd.metaFlushPrefix 5).seqMem.tagValue; rw [a]; exact Nat.le_refl _, ?_⟩
    intro tk v j h
    have h' : (nd.metaFlushPrefix 5).tagValue.lookup tk v = some j := h
    rw [b] at h'; exact Or.inl h'
  | indexPrepare sh =>
    show TvStep nd (nd.indexPrepareE sh c.prepareSwapsEmpty)
    unfold Node.indexPrepareE
    cases c.prepareSwapsEmpty <;> exact tvStep_of_eq rfl rfl
  | indexFlush sh => exact tvStep_setShard _ _ _
  | metaFlushFail k =>
    obtain ⟨a, b⟩ := metaFlushPrefix_tv inv.md k
    refine ⟨by show nd.seqMem.tagValue ≤ (nd.metaFlushPrefix k).seqMem.tagValue; rw [a]; exact Nat.le_refl _, ?_⟩
    intro tk v j h
    have h' : (nd.metaFlushPrefix k).tagValue.lookup tk v = some j := h
    rw [b] at h'; exact Or.inl h'
  | reopen => cases hr
  | metaFlushCrash k => cases hr
  | indexFlushCrash sh k => cases hr

/-- every tag value id used by an entry of the tag-value→series or the forward index of some shard
lies below `bound` -/
def IdxTvBelow (nd : Node) (bound : Nat) : Prop :=
  ∀ sh, (∀ p, p ∈ (nd.shards sh).inv.all → p.1 < bound) ∧ (∀ q, q ∈ (nd.shards sh).fwd.all → q.2.1 < bound)

theorem idxTvBelow_mono {nd : Node} {a b : Nat} (h : IdxTvBelow nd a) (hab : a ≤ b) : IdxTvBelow nd b :=
  fun sh => ⟨fun p hp => Nat.lt_of_lt_of_le ((h sh).1 p hp) hab, fun q hq => Nat.lt_of_lt_of_le ((h sh).2 q hq) hab⟩

theorem idxTvBelow_shards {nd nd' : Node} {a : Nat} (h : IdxTvBelow nd a) (hs : nd'.shards = nd.shards) : IdxTvBelow nd' a := by
  intro sh; rw [hs]; exact h sh

/-! ### the write-through repair: the mmap copy follows every allocation -/

theorem synced_afterAlloc {c : Cfg} (hc : c.seqWriteThrough = true) (nd : Node) : (Node.afterAlloc c nd).Synced := by
  unfold Node.afterAlloc Node.Synced; rw [if_pos hc]

theorem synced_genTagValueID {c : Cfg} (hc : c.seqWriteThrough = true) (nd : Node) (tk v : Nat) :
    (nd.genTagValueID c tk v).1.Synced := by
  unfold Node.genTagValueID
  simp only []
  split <;> exact synced_afterAlloc hc _

theorem synced_genTagKeyID {c : Cfg} (hc : c.seqWriteThrough = true) (nd : Node) (m k : Nat) :
    (nd.genTagKeyID c m k).1.Synced := synced_afterAlloc hc _

theorem synced_genMetric {c : Cfg} (hc : c.seqWriteThrough = true) (nd : Node) (nb ns name : Nat) :
    (nd.genMetric c nb ns name).1.Synced := by
  unfold Node.genMetric
  simp only []
  split
  · exact synced_afterAlloc hc _
  · split <;> exact synced_afterAlloc hc _

theorem synced_setShard {nd : Node} (h : nd.Synced) (k : Nat) (sh : Shard) : (nd.setShard k sh).Synced := h

/-- `buildInvertIndex` under the write-through repair: counters stay synced, and every tag value id it
puts into an index entry is below the counter -/
theorem idx_buildInverted {c : Cfg} (hc : c.seqWriteThrough = true) (shard m sid : Nat) (tags : List (Nat × Nat)) :
    ∀ nd : Node, MetaInv nd → nd.Synced → IdxTvBelow nd nd.seqMem.tagValue →
      (Node.buildInverted c shard m sid nd tags).Synced ∧
      IdxTvBelow (Node.buildInverted c shard m sid nd tags) (Node.buildInverted c shard m sid nd tags).seqMem.tagValue := by
  induction tags with
  | nil => intro nd _ hs hi; exact ⟨hs, hi⟩
  | cons kv rest ih =>
    intro nd inv hs hi
    obtain ⟨k, v⟩ := kv
    have g1 := genTagKeyID_spec c inv m k
    have t1 := tvStep_genTagKeyID c nd m k
    have s1 := synced_genTagKeyID hc nd m k
    have i1 : IdxTvBelow (nd.genTagKeyID c m k).1 (nd.genTagKeyID c m k).1.seqMem.tagValue :=
      idxTvBelow_mono (idxTvBelow_shards hi g1.shards) t1.1
    cases h1 : (nd.genTagKeyID c m k).2 with
    | id tk =>
      have g2 := genTagValueID_spec c g1.inv tk v
      have t2 := tvStep_genTagValueID c (nd.genTagKeyID c m k).1 tk v
      have s2 := synced_genTagValueID hc (nd.genTagKeyID c m k).1 tk v
      have i2 : IdxTvBelow ((nd.genTagKeyID c m k).1.genTagValueID c tk v).1 ((nd.genTagKeyID c m k).1.genTagValueID c tk v).1.seqMem.tagValue :=
        idxTvBelow_mono (idxTvBelow_shards i1 g2.shards) t2.1
      cases h2 : ((nd.genTagKeyID c m k).1.genTagValueID c tk v).2 with
      | id tv =>
        simp only [Node.buildInverted, h1, h2]
        have htv : tv < ((nd.genTagKeyID c m k).1.genTagValueID c tk v).1.seqMem.tagValue :=
          g2.inv.tagValue.bnd _ _ _ (g2.ret tv h2)
        apply ih _ (metaInv_setShard g2.inv _ _) (synced_setShard s2 _ _)
        intro sh
        show (∀ p, p ∈ ((Node.setShard _ shard _).shards sh).inv.all → _) ∧ (∀ q, q ∈ ((Node.setShard _ shard _).shards sh).fwd.all → _)
        unfold Node.setShard
        by_cases hk : sh = shard
        · subst hk
          simp only [if_true]
          refine ⟨?_, ?_⟩
          · intro p hp
            rw [put_all] at hp
            rcases hp with rfl | hp
            · exact htv
            · exact (i2 sh).1 p hp
          · intro q hq
            rw [put_all] at hq
            rcases hq with rfl | hq
            · exact htv
            · exact (i2 sh).2 q hq
        · simp only [hk, if_false]; exact i2 sh
      | tooManyFields | tooManyTags | tooManySeries | stuck =>
        simp only [Node.buildInverted, h1, h2]
        exact ih _ g2.inv s2 i2
    | tooManyFields | tooManyTags | tooManySeries | stuck =>
      simp only [Node.buildInverted, h1]
      exact ih _ g1.inv s1 i1

/-- replacing a shard by one whose index entries are among the old ones -/
theorem idx_setShard {nd : Node} {a : Nat} (h : IdxTvBelow nd a) (k : Nat) (s : Shard)
    (h1 : ∀ p, p ∈ s.inv.all → p ∈ (nd.shards k).inv.all) (h2 : ∀ q, q ∈ s.fwd.all → q ∈ (nd.shards k).fwd.all) :
    IdxTvBelow (nd.setShard k s) a := by
  intro sh
  by_cases hk : sh = k
  · subst hk
    have e : (nd.setShard sh s).shards sh = s := by simp [Node.setShard]
    rw [e]
    exact ⟨fun p hp => (h sh).1 p (h1 p hp), fun q hq => (h sh).2 q (h2 q hq)⟩
  · have e : (nd.setShard k s).shards sh = nd.shards sh := by simp [Node.setShard, hk]
    rw [e]; exact h sh

/-- membership in the posting layers survives PrepareFlush / flush -/
theorem idx_layers_prepare {nd : Node} {a : Nat} (h : IdxTvBelow nd a) (shard : Nat) :
    IdxTvBelow (nd.indexPrepare shard) a :=
  idx_setShard h shard _ (fun p hp => (layers_prepare_all _ _).1 hp) (fun q hq => (layers_prepare_all _ _).1 hq)

theorem idx_indexDropEmpty {nd : Node} {a : Nat} (h : IdxTvBelow nd a) (shard : Nat) :
    IdxTvBelow (nd.indexDropEmpty shard) a :=
  idx_setShard h shard _ (fun p hp => (layers_dropEmpty_all _ _).1 hp) (fun q hq => (layers_dropEmpty_all _ _).1 hq)

theorem idx_indexPrepareE {nd : Node} {a : Nat} (h : IdxTvBelow nd a) (shard : Nat) (se : Bool) :
    IdxTvBelow (nd.indexPrepareE shard se) a := by
  unfold Node.indexPrepareE
  cases se with
  | false => simpa using idx_layers_prepare h shard
  | true => simpa using idx_layers_prepare (idx_indexDropEmpty h shard) shard

theorem flushSteps_inv_fwd (sh : Shard) (k : Nat) :
    (∀ p, p ∈ ((List.range k).foldl Shard.flushStep sh).inv.all → p ∈ sh.inv.all) ∧
    (∀ q, q ∈ ((List.range k).foldl Shard.flushStep sh).fwd.all → q ∈ sh.fwd.all) := by
  induction k with
  | zero => exact ⟨fun _ h => h, fun _ h => h⟩
  | succ k ih =>
    rw [List.range_succ, List.foldl_append]
    simp only [List.foldl]
    have step : ∀ s : Shard, (∀ p, p ∈ (s.flushStep k).inv.all → p ∈ s.inv.all) ∧ (∀ q, q ∈ (s.flushStep k).fwd.all → q ∈ s.fwd.all) := by
      intro s
      match k with
      | 0 | 3 => exact ⟨fun _ h => h, fun _ h => h⟩
      | 1 => exact ⟨fun _ h => h, fun q h => (layers_flush_all _ _).1 h⟩
      | 2 => exact ⟨fun p h => (layers_flush_all _ _).1 h, fun _ h => h⟩
      | (n + 4) => exact ⟨fun _ h => h, fun _ h => h⟩
    exact ⟨fun p hp => ih.1 p ((step _).1 p hp), fun q hq => ih.2 q ((step _).2 q hq)⟩

theorem idx_indexFlushPrefix {nd : Node} {a : Nat} (h : IdxTvBelow nd a) (shard k : Nat) :
    IdxTvBelow (nd.indexFlushPrefix shard k) a :=
  idx_setShard h shard _ (flushSteps_inv_fwd (nd.shards shard) k).1 (flushSteps_inv_fwd (nd.shards shard) k).2

theorem idx_recover {nd : Node} {a : Nat} (h : IdxTvBelow nd a) : IdxTvBelow nd.recover a := by
  intro sh
  show (∀ p, p ∈ ((nd.shards sh).recover).inv.all → _) ∧ (∀ q, q ∈ ((nd.shards sh).recover).fwd.all → _)
  refine ⟨?_, ?_⟩
  · intro p hp
    apply (h sh).1
    simp [Shard.recover, Layers.recover, Layers.all] at hp
    simp [Layers.all, hp]
  · intro q hq
    apply (h sh).2
    simp [Shard.recover, Layers.recover, Layers.all] at hq
    simp [Layers.all, hq]

theorem metaFlushPrefix_seq (nd : Node) (k : Nat) (hs : nd.Synced) :
    (nd.metaFlushPrefix k).Synced ∧ (nd.metaFlushPrefix k).seqMem = nd.seqMem := by
  induction k with
  | zero => exact ⟨hs, rfl⟩
  | succ k ih =>
    rw [metaFlushPrefix_succ]
    have step : ∀ s : Node, s.Synced → (s.metaFlushStep k).Synced ∧ (s.metaFlushStep k).seqMem = s.seqMem := by
      intro s h
      match k with
      | 0 => exact ⟨rfl, rfl⟩
      | 1 | 2 | 3 | 4 => exact ⟨h, rfl⟩
      | (n + 5) => exact ⟨h, rfl⟩
    obtain ⟨a, b⟩ := step _ ih.1
    exact ⟨a, by rw [b, ih.2]⟩

/-- with the write-through repair, along every history: the counters in the sequence file equal the
in-memory ones and every tag value id used by an index entry lies below them -/
structure WtInv (nd : Node) : Prop where
  synced : nd.Synced
  idx : IdxTvBelow nd nd.seqMem.tagValue

theorem wtInv_step {c : Cfg} (hc : c.seqWriteThrough = true) {nd : Node} (inv : NodeInv nd) (w : WtInv nd) (op : Op)
    (hno : (step c nd op).2 ≠ some .tooManySeries) : WtInv (step c nd op).1 := by
  cases op with
  | metric nb ns name =>
    have g := genMetric_spec c inv.md nb ns name
    exact ⟨synced_genMetric hc nd nb ns name, idxTvBelow_mono (idxTvBelow_shards w.idx g.shards) (tvStep_genMetric c nd nb ns name).1⟩
  | field m f =>
    have g := genFieldID_spec c inv.md m f
    exact ⟨w.synced, idxTvBelow_shards w.idx g.shards⟩
  | tagKey m k =>
    have g := genTagKeyID_spec c inv.md m k
    exact ⟨synced_genTagKeyID hc nd m k, idxTvBelow_mono (idxTvBelow_shards w.idx g.shards) (tvStep_genTagKeyID c nd m k).1⟩
  | tagValue tk v =>
    have g := genTagValueID_spec c inv.md tk v
    exact ⟨synced_genTagValueID hc nd tk v, idxTvBelow_mono (idxTvBelow_shards w.idx g.shards) (tvStep_genTagValueID c nd tk v).1⟩
  | series sh m ts tags =>
    show WtInv (nd.genSeries c sh m ts tags).1
    unfold Node.genSeries
    simp only []
    cases (nd.shards sh).series.lookup m ts with
    | some i => exact w
    | none =>
      simp only []
      have frame : ∀ s : Shard, s.inv = (nd.shards sh).inv → s.fwd = (nd.shards sh).fwd → WtInv (nd.setShard sh s) := by
        intro s h1 h2
        exact ⟨w.synced, idx_setShard w.idx sh s (fun p hp => by rw [h1] at hp; exact hp) (fun q hq => by rw [h2] at hq; exact hq)⟩
      split
      · exact frame _ rfl rfl
      · split
        · exact frame _ rfl rfl
        · have f := frame ((nd.shards sh).created m ts ((nd.shards sh).createSeriesID m)) rfl rfl
          obtain ⟨a, b⟩ := idx_buildInverted hc sh m ((nd.shards sh).createSeriesID m) tags _ (metaInv_setShard inv.md _ _) f.synced f.idx
          exact ⟨a, b⟩
  | metaPrepare =>
    obtain ⟨_, _, sh, sm, sp⟩ := metaPrepareE_spec inv.md c.prepareSwapsEmpty
    refine ⟨by show (nd.metaPrepareE c.prepareSwapsEmpty).seqMmap = (nd.metaPrepareE c.prepareSwapsEmpty).seqMem; rw [sm, sp]; exact w.synced, ?_⟩
    show IdxTvBelow (nd.metaPrepareE c.prepareSwapsEmpty) (nd.metaPrepareE c.prepareSwapsEmpty).seqMem.tagValue
    rw [sm]; exact idxTvBelow_shards w.idx sh
  | metaFlush =>
    obtain ⟨a, b⟩ := metaFlushPrefix_seq nd 5 w.synced
    obtain ⟨_, _, _, s, _⟩ := metaFlushPrefix_spec inv.md 5
    refine ⟨a, ?_⟩
    show IdxTvBelow (nd.metaFlushPrefix 5) (nd.metaFlushPrefix 5).seqMem.tagValue
    rw [b]; exact idxTvBelow_shards w.idx s
  | indexPrepare sh =>
    have e : (nd.indexPrepareE sh c.prepareSwapsEmpty).seqMem = nd.seqMem ∧ (nd.indexPrepareE sh c.prepareSwapsEmpty).seqMmap = nd.seqMmap := by
      unfold Node.indexPrepareE; cases c.prepareSwapsEmpty <;> exact ⟨rfl, rfl⟩
    refine ⟨by show (nd.indexPrepareE sh c.prepareSwapsEmpty).seqMmap = (nd.indexPrepareE sh c.prepareSwapsEmpty).seqMem; rw [e.1, e.2]; exact w.synced, ?_⟩
    show IdxTvBelow (nd.indexPrepareE sh c.prepareSwapsEmpty) (nd.indexPrepareE sh c.prepareSwapsEmpty).seqMem.tagValue
    rw [e.1]; exact idx_indexPrepareE w.idx sh _
  | indexFlush sh => exact ⟨w.synced, idx_indexFlushPrefix w.idx sh 4⟩
  | reopen =>
    refine ⟨rfl, ?_⟩
    show IdxTvBelow nd.recover nd.seqMmap.tagValue
    rw [w.synced]; exact idx_recover w.idx
  | metaFlushCrash k =>
    obtain ⟨a, b⟩ := metaFlushPrefix_seq nd k w.synced
    obtain ⟨_, _, _, s, _⟩ := metaFlushPrefix_spec inv.md k
    refine ⟨rfl, ?_⟩
    show IdxTvBelow (nd.metaFlushPrefix k).recover (nd.metaFlushPrefix k).seqMmap.tagValue
    rw [a, b]; exact idx_recover (idxTvBelow_shards w.idx s)
  | indexFlushCrash sh k =>
    refine ⟨rfl, ?_⟩
    show IdxTvBelow (nd.indexFlushPrefix sh k).recover nd.seqMmap.tagValue
    rw [w.synced]; exact idx_recover (idx_indexFlushPrefix w.idx sh k)
  | metaFlushFail k =>
    obtain ⟨a, b⟩ := metaFlushPrefix_seq nd k w.synced
    obtain ⟨_, _, _, s, _⟩ := metaFlushPrefix_spec inv.md k
    refine ⟨a, ?_⟩
    show IdxTvBelow (nd.metaFlushPrefix k) (nd.metaFlushPrefix k).seqMem.tagValue
    rw [b]; exact idxTvBelow_shards w.idx s

end LinVerif.IdAssign
