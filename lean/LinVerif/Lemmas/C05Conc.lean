/-
C05 helper lemmas, part 4: the interleaving model. Generic "invariant + Pres ⇒ every
returned Put stays readable" argument, instantiated for
  * the atomic shape (every schedule; the queue part evolves by sequential steps), and
  * the three-step shape restricted to schedules without reopen / crash / gc.
-/
import LinVerif.Lemmas.C05Gc

namespace LinVerif.Queue

/-- what holds right after a Put of `m` returned sequence `s` in state `σ` -/
def RetOK (σ : CSt) (s : Int) (m : Msg) : Prop :=
  ∃ n : Nat, (n : Int) = s ∧ s ≤ σ.q.appended ∧ σ.q.acked < s ∧ content σ.mem n = m.bytes

/-- the full-strength property of the interleaving model, relative to a set of allowed events:
whenever some event of a schedule makes a Put of message `m` return sequence `s`, then after
any continuation of the schedule, as long as `s` is above the acknowledged position,
`Get s` returns exactly the bytes of `m`. -/
def ConcurrentPut (shape : Shape) (allowed : Ev → Prop) : Prop :=
  ∀ (pre post : List Ev) (e : Ev) (σ1 σ2 σ3 : CSt) (s : Int) (m : Msg),
    (∀ x ∈ pre, allowed x) → allowed e → (∀ x ∈ post, allowed x) →
    crun shape CSt.init pre = some σ1 →
    cstep shape σ1 e = some (σ2, .ret s m) →
    crun shape σ2 post = some σ3 →
    σ3.q.acked < s → get σ3.st s = .ok m.bytes

theorem concurrentPut_of_inv (shape : Shape) (allowed : Ev → Prop) (J : CSt → Prop)
    (hinit : J CSt.init)
    (hget : ∀ σ n, J σ → Readable σ.q n → get σ.st (n : Int) = .ok (content σ.mem n))
    (hstep : ∀ σ e σ' out, J σ → allowed e → cstep shape σ e = some (σ', out) →
      J σ' ∧ Pres σ.st σ'.st ∧ ∀ s m, out = .ret s m → RetOK σ' s m) :
    ConcurrentPut shape allowed := by
  have hrun : ∀ (es : List Ev) (σ σ' : CSt), J σ → (∀ x ∈ es, allowed x) → crun shape σ es = some σ' →
      J σ' ∧ Pres σ.st σ'.st := by
    intro es
    induction es with
    | nil =>
      intro σ σ' hj _ h
      simp only [crun, Option.some.injEq] at h
      subst h; exact ⟨hj, Pres.refl _⟩
    | cons e es ih =>
      intro σ σ' hj ha h
      simp only [crun] at h
      split at h
      · rename_i σ1 out hs
        obtain ⟨j1, p1, _⟩ := hstep σ e σ1 out hj (ha e (by simp)) hs
        obtain ⟨j2, p2⟩ := ih σ1 σ' j1 (fun x hx => ha x (by simp [hx])) h
        exact ⟨j2, p1.trans p2⟩
      · exact absurd h (by simp)
  intro pre post e σ1 σ2 σ3 s m hpre he hpost h1 h2 h3 hack
  obtain ⟨j1, _⟩ := hrun pre _ _ hinit hpre h1
  obtain ⟨j2, _, hret⟩ := hstep σ1 e σ2 _ j1 he h2
  obtain ⟨n, hn, happ, hak, hc⟩ := hret s m rfl
  obtain ⟨j3, p1, p2, p3⟩ := hrun post _ _ j2 hpost h3
  have hr2 : Readable σ2.q n := by unfold Readable; omega
  have hr3 : Readable σ3.q n := by
    unfold Readable
    have : σ2.st.q.appended ≤ σ3.st.q.appended := p2
    have e2 : σ2.st.q = σ2.q := rfl
    have e3 : σ3.st.q = σ3.q := rfl
    rw [e2, e3] at this
    omega
  have := hget σ3 n j3 hr3
  rw [hn] at this
  rw [this, ← hc]
  congr 1
  exact p3 n hr2 hr3

/-! ### atomic shape -/

theorem noret_of {σ' : CSt} {o : Out}
    (ho : o = .none ∨ o = .tooLarge ∨ o = .failed ∨ (∃ r, o = .got r)) :
    ∀ s m, o = .ret s m → RetOK σ' s m := by
  intro s m h
  rcases ho with rfl | rfl | rfl | ⟨r, rfl⟩ <;> cases h

/-- invariant of the atomic shape: the sequential invariant of the queue part plus what the
GC caller's locals satisfy -/
def JA (σ : CSt) : Prop := Inv σ.st ∧ GcOK σ.st σ.gc

theorem cstepAlloc_atomic_inv (σ : CSt) (t : Nat) (m : Msg) (σ' : CSt) (out : Out) (J : JA σ)
    (h : cstepAlloc .atomic σ t m = some (σ', out)) :
    JA σ' ∧ Pres σ.st σ'.st ∧ ∀ s m, out = .ret s m → RetOK σ' s m := by
  obtain ⟨I, G⟩ := J
  have C := I.core
  simp only [cstepAlloc] at h
  split at h
  · split at h
    · simp only [Option.some.injEq, Prod.mk.injEq] at h
      obtain ⟨rfl, rfl⟩ := h
      exact ⟨⟨I, G⟩, Pres.refl _, noret_of (Or.inr (Or.inl rfl))⟩
    · rename_i hl
      have hl : m.len ≤ dataPageSize := by omega
      obtain ⟨I', r2, r3, r4, c, cn⟩ := put_inv I m hl
      have G' := gcok_put I m σ.gc G
      split at h
      · rename_i st' s hp
        simp only [Option.some.injEq, Prod.mk.injEq] at h
        obtain ⟨rfl, rfl⟩ := h
        have e1 : st' = (put σ.st m).1 := by rw [hp]
        have e2 : s = σ.st.q.appended + 1 := by
          have : (put σ.st m).2 = .ok s := by rw [hp]
          rw [r2] at this; injection this with this; exact this.symm
        subst e1
        have hap : -1 ≤ σ.st.q.appended := Int.le_trans C.ackLo C.ackHi
        have hns := nextSeq_cast hap
        refine ⟨⟨I', G'⟩, ⟨by show σ.st.q.acked ≤ (put σ.st m).1.q.acked; omega,
          by show σ.st.q.appended ≤ (put σ.st m).1.q.appended; omega, fun n hn _ => c n hn⟩, ?_⟩
        intro s' m' hr
        injection hr with hs hm
        subst hs hm
        refine ⟨nextSeq σ.st.q, by omega, ?_, ?_, cn⟩
        · show s ≤ (put σ.st m).1.q.appended; omega
        · show (put σ.st m).1.q.acked < s; have := C.ackHi; omega
      · rename_i hp
        have : (put σ.st m).2 = .tooLarge := by rw [hp]
        rw [r2] at this; cases this
      · rename_i hp
        have : (put σ.st m).2 = .acquireFailed := by rw [hp]
        rw [r2] at this; cases this
  · cases h

theorem cstep_atomic_inv (σ : CSt) (e : Ev) (σ' : CSt) (out : Out) (J : JA σ)
    (h : cstep .atomic σ e = some (σ', out)) :
    JA σ' ∧ Pres σ.st σ'.st ∧ ∀ s m, out = .ret s m → RetOK σ' s m := by
  have I := J.1
  have G := J.2
  have C := I.core
  cases e with
  | alloc t m => exact cstepAlloc_atomic_inv σ t m σ' out J h
  | allocFail t m =>
    simp only [cstep] at h
    split at h
    · split at h
      · simp only [Option.some.injEq, Prod.mk.injEq] at h
        obtain ⟨rfl, rfl⟩ := h
        exact ⟨J, Pres.refl _, noret_of (Or.inr (Or.inr (Or.inl rfl)))⟩
      · cases h
    · exact cstepAlloc_atomic_inv σ t m σ' out J h
  | write t => simp [cstep] at h
  | persist t => simp [cstep] at h
  | get s =>
    simp only [cstep, Option.some.injEq, Prod.mk.injEq] at h
    obtain ⟨rfl, rfl⟩ := h
    exact ⟨J, Pres.refl _, noret_of (Or.inr (Or.inr (Or.inr ⟨_, rfl⟩)))⟩
  | ack s =>
    simp only [cstep, Option.some.injEq, Prod.mk.injEq] at h
    obtain ⟨rfl, rfl⟩ := h
    obtain ⟨I', p⟩ := step_inv I (.ack s) trivial
    exact ⟨⟨I', gcok_ack I s σ.gc G⟩, p, noret_of (Or.inl rfl)⟩
  | gc =>
    simp only [cstep] at h
    split at h
    · rename_i hg
      split at h
      · simp only [Option.some.injEq, Prod.mk.injEq] at h
        obtain ⟨rfl, rfl⟩ := h
        obtain ⟨I', p⟩ := step_inv I .gc trivial
        refine ⟨⟨I', ?_⟩, p, noret_of (Or.inl rfl)⟩
        show GcOK _ σ.gc
        rw [hg]; trivial
      · cases h
    · cases h
  | reopen =>
    simp only [cstep] at h
    split at h
    · rename_i hg
      split at h
      · simp only [Option.some.injEq, Prod.mk.injEq] at h
        obtain ⟨rfl, rfl⟩ := h
        obtain ⟨I', p⟩ := step_inv I .reopen trivial
        refine ⟨⟨I', ?_⟩, p, noret_of (Or.inl rfl)⟩
        show GcOK _ σ.gc
        rw [hg]; trivial
      · cases h
    · cases h
  | crash =>
    simp only [cstep, Option.some.injEq, Prod.mk.injEq] at h
    obtain ⟨rfl, rfl⟩ := h
    obtain ⟨I', p⟩ := step_inv I .reopen trivial
    exact ⟨⟨I', trivial⟩, p, noret_of (Or.inl rfl)⟩
  | crashPut t m k =>
    simp only [cstep] at h
    split at h
    · simp only [Option.some.injEq, Prod.mk.injEq] at h
      obtain ⟨rfl, rfl⟩ := h
      obtain ⟨I', p⟩ := step_inv I (.crashPut m k) trivial
      exact ⟨⟨I', trivial⟩, p, noret_of (Or.inl rfl)⟩
    · cases h
  | gcSnap =>
    simp only [cstep] at h
    split at h
    · split at h
      · simp only [Option.some.injEq, Prod.mk.injEq] at h
        obtain ⟨rfl, rfl⟩ := h
        exact ⟨J, Pres.refl _, noret_of (Or.inl rfl)⟩
      · rename_i hneg
        simp only [Option.some.injEq, Prod.mk.injEq] at h
        obtain ⟨rfl, rfl⟩ := h
        exact ⟨⟨I, gc_snap_ok I hneg⟩, Pres.refl _, noret_of (Or.inl rfl)⟩
    · cases h
  | gcRead =>
    simp only [cstep] at h
    split at h
    · rename_i a hg
      rw [hg] at G
      split at h
      · simp only [Option.some.injEq, Prod.mk.injEq] at h
        obtain ⟨rfl, rfl⟩ := h
        exact ⟨⟨I, trivial⟩, Pres.refl _, noret_of (Or.inl rfl)⟩
      · simp only [Option.some.injEq, Prod.mk.injEq] at h
        obtain ⟨rfl, rfl⟩ := h
        exact ⟨⟨I, gc_read_ok G⟩, Pres.refl _, noret_of (Or.inl rfl)⟩
    · cases h
  | gcTruncData =>
    simp only [cstep] at h
    split at h
    · rename_i a b hg
      rw [hg] at G
      simp only [Option.some.injEq, Prod.mk.injEq] at h
      obtain ⟨rfl, rfl⟩ := h
      obtain ⟨I', p, G'⟩ := gc_truncData_inv I G
      exact ⟨⟨I', G'⟩, p, noret_of (Or.inl rfl)⟩
    · cases h
  | gcTruncIndex =>
    simp only [cstep] at h
    split at h
    · rename_i a hg
      rw [hg] at G
      simp only [Option.some.injEq, Prod.mk.injEq] at h
      obtain ⟨rfl, rfl⟩ := h
      obtain ⟨I', p⟩ := gc_truncIndex_inv I G
      exact ⟨⟨I', trivial⟩, p, noret_of (Or.inl rfl)⟩
    · cases h

/-! ### three-step shape without reopen / crash / gc -/

/-- events of a schedule that never restarts the queue and never truncates pages -/
def Ev.noRestart : Ev → Prop
  | .alloc _ _ | .allocFail _ _ | .write _ | .persist _ | .get _ | .ack _ => True
  | .gc | .reopen | .crash | .crashPut _ _ _ | .gcSnap | .gcRead | .gcTruncData | .gcTruncIndex => False

theorem cstepAlloc_three_inv (σ : CSt) (t : Nat) (m : Msg) (σ' : CSt) (out : Out)
    (I : InvC σ.mem σ.q σ.ths) (h : cstepAlloc .threeStep σ t m = some (σ', out)) :
    InvC σ'.mem σ'.q σ'.ths ∧ Pres σ.st σ'.st ∧ ∀ s m, out = .ret s m → RetOK σ' s m := by
  simp only [cstepAlloc] at h
  split at h
  · rename_i hth
    split at h
    · simp only [Option.some.injEq, Prod.mk.injEq] at h
      obtain ⟨rfl, rfl⟩ := h
      exact ⟨I, Pres.refl _, noret_of (Or.inr (Or.inl rfl))⟩
    · rename_i hl
      simp only [Option.some.injEq, Prod.mk.injEq] at h
      obtain ⟨rfl, rfl⟩ := h
      refine ⟨alloc_inv I t m hth (by omega), ⟨?_, ?_, ?_⟩, noret_of (Or.inl rfl)⟩
      · show σ.q.acked ≤ (alloc σ.mem σ.q m.len).q.acked; simp
      · show σ.q.appended ≤ (alloc σ.mem σ.q m.len).q.appended; simp
      · intro n _ _
        show content (alloc σ.mem σ.q m.len).mem n = content σ.mem n
        unfold content; rw [alloc_entry]
        apply readBytes_congr; intro i _; simp
  · cases h

theorem cstep_three_inv (σ : CSt) (e : Ev) (σ' : CSt) (out : Out) (I : InvC σ.mem σ.q σ.ths)
    (ha : e.noRestart) (h : cstep .threeStep σ e = some (σ', out)) :
    InvC σ'.mem σ'.q σ'.ths ∧ Pres σ.st σ'.st ∧ ∀ s m, out = .ret s m → RetOK σ' s m := by
  cases e with
  | alloc t m => exact cstepAlloc_three_inv σ t m σ' out I h
  | allocFail t m =>
    simp only [cstep] at h
    split at h
    · split at h
      · simp only [Option.some.injEq, Prod.mk.injEq] at h
        obtain ⟨rfl, rfl⟩ := h
        exact ⟨I, Pres.refl _, noret_of (Or.inr (Or.inr (Or.inl rfl)))⟩
      · cases h
    · exact cstepAlloc_three_inv σ t m σ' out I h
  | write t =>
    simp only [cstep] at h
    split at h
    · rename_i m pg off _ hth
      simp only [Option.some.injEq, Prod.mk.injEq] at h
      obtain ⟨rfl, rfl⟩ := h
      obtain ⟨I', c⟩ := write_inv I t m pg off hth
      exact ⟨I', ⟨Int.le_refl _, Int.le_refl _, fun n hn _ => c n hn⟩, noret_of (Or.inl rfl)⟩
    · cases h
  | persist t =>
    simp only [cstep] at h
    split at h
    · rename_i m pg off _ hth
      simp only [Option.some.injEq, Prod.mk.injEq] at h
      obtain ⟨rfl, rfl⟩ := h
      obtain ⟨I', c, cn, _⟩ := persist_inv I t m pg off hth
      have hap : -1 ≤ σ.q.appended := Int.le_trans I.ackLo I.ackHi
      have hns := nextSeq_cast hap
      refine ⟨I', ⟨Int.le_refl _, by show σ.q.appended ≤ σ.q.appended + 1; omega, fun n hn _ => c n hn⟩, ?_⟩
      intro s' m' hr
      injection hr with hs hm
      subst hs hm
      refine ⟨nextSeq σ.q, hns, ?_, ?_, cn⟩
      · show σ.q.appended + 1 ≤ σ.q.appended + 1; exact Int.le_refl _
      · show σ.q.acked < σ.q.appended + 1; have := I.ackHi; omega
    · cases h
  | get s =>
    simp only [cstep, Option.some.injEq, Prod.mk.injEq] at h
    obtain ⟨rfl, rfl⟩ := h
    exact ⟨I, Pres.refl _, noret_of (Or.inr (Or.inr (Or.inr ⟨_, rfl⟩)))⟩
  | ack s =>
    simp only [cstep, Option.some.injEq, Prod.mk.injEq] at h
    obtain ⟨rfl, rfl⟩ := h
    have I0 : InvC σ.st.mem σ.st.q σ.ths := I
    obtain ⟨I', c, _, h4, h5⟩ := ack_inv I0 s
    exact ⟨I', ⟨h5, by show σ.st.q.appended ≤ (ack σ.st s).q.appended; omega, fun n _ _ => c n⟩, noret_of (Or.inl rfl)⟩
  | gc => exact absurd ha (by simp [Ev.noRestart])
  | reopen => exact absurd ha (by simp [Ev.noRestart])
  | crash => exact absurd ha (by simp [Ev.noRestart])
  | crashPut t m k => exact absurd ha (by simp [Ev.noRestart])
  | gcSnap => exact absurd ha (by simp [Ev.noRestart])
  | gcRead => exact absurd ha (by simp [Ev.noRestart])
  | gcTruncData => exact absurd ha (by simp [Ev.noRestart])
  | gcTruncIndex => exact absurd ha (by simp [Ev.noRestart])

theorem cinit_inv : JA CSt.init := ⟨init_inv, trivial⟩

theorem cinit_invC : InvC CSt.init.mem CSt.init.q CSt.init.ths := init_inv.core

end LinVerif.Queue
