/-
Lemmas about the variable-length integer codecs (Model/Varint.lean): round trips of
PutUvarint/readUvarint, PutVarint/readVarint, binary.Uvarint, zig-zag, UvariantSize.
-/
import LinVerif.Model.Varint

namespace LinVerif.Varint

theorem or_shift_eq_add {acc s : Nat} (b : Nat) (h : acc < 2 ^ s) : acc ||| (b <<< s) = acc + b * 2 ^ s := by
  rw [Nat.or_comm, ← Nat.shiftLeft_add_eq_or_of_lt h, Nat.shiftLeft_eq, Nat.add_comm]

theorem or_shift_mod {acc s : Nat} (b : Nat) (h : acc < 2 ^ s) (h2 : acc + b * 2 ^ s < two64) :
    acc ||| ((b <<< s) % two64) = acc + b * 2 ^ s := by
  have h3 : (b <<< s) % two64 = b <<< s := by
    rw [Nat.shiftLeft_eq]; exact Nat.mod_eq_of_lt (by omega)
  rw [h3, or_shift_eq_add b h]

theorem pow63 : (2:Nat) ^ (7 * 9) = 9223372036854775808 := by decide

theorem split128 (x P : Nat) : x % 128 * P + x / 128 * (128 * P) = x * P := by
  have h := Nat.div_add_mod x 128
  calc x % 128 * P + x / 128 * (128 * P) = (128 * (x / 128) + x % 128) * P := by
        rw [Nat.add_mul, Nat.mul_comm 128 (x / 128), Nat.mul_assoc, Nat.add_comm]
    _ = x * P := by rw [h]

theorem pow7succ (i : Nat) : 2 ^ (7 * (i + 1)) = 128 * 2 ^ (7 * i) := by
  rw [Nat.mul_succ, Nat.pow_add]; omega

/-- reading back what `PutUvarint` wrote, from any loop state that is consistent with it -/
theorem readUvarintAux_put (rest : List Nat) : ∀ (fuel x i acc : Nat),
    acc < 2 ^ (7 * i) → acc + x * 2 ^ (7 * i) < two64 → i + fuel = 9 →
    readUvarintAux (putUvarintAux fuel x ++ rest) i (7 * i) acc = (acc + x * 2 ^ (7 * i), rest, .none) := by
  intro fuel
  induction fuel with
  | zero =>
    intro x i acc hacc hlt hi
    have hi9 : i = 9 := by omega
    subst hi9
    have hx : x < 2 := by
      simp only [two64] at hlt
      rw [pow63] at hlt; omega
    have hx256 : x % 256 = x := by omega
    simp only [putUvarintAux, hx256, List.cons_append, List.nil_append, readUvarintAux]
    have h1 : x < 128 := by omega
    rw [if_pos h1]
    split
    · omega
    · rw [or_shift_mod x hacc hlt]
  | succ fuel ih =>
    intro x i acc hacc hlt hi
    unfold putUvarintAux
    by_cases hx : x ≥ 128
    · rw [if_pos hx]
      simp only [List.cons_append, readUvarintAux]
      have hb : ¬ (x % 128 + 128 < 128) := by omega
      rw [if_neg hb]
      have hb2 : (x % 128 + 128) % 128 = x % 128 := by omega
      rw [hb2]
      have hP : 2 ^ (7 * (i + 1)) = 128 * 2 ^ (7 * i) := pow7succ i
      have hle : x % 128 * 2 ^ (7 * i) ≤ 127 * 2 ^ (7 * i) := Nat.mul_le_mul_right _ (by omega)
      have hsp := split128 x (2 ^ (7 * i))
      have hx1 : x / 128 * (128 * 2 ^ (7 * i)) ≥ 0 := Nat.zero_le _
      rw [or_shift_mod (x % 128) hacc (by omega)]
      have h7 : 7 * i + 7 = 7 * (i + 1) := by omega
      rw [h7, ih (x / 128) (i + 1) (acc + x % 128 * 2 ^ (7 * i)) (by omega) (by rw [hP]; omega) (by omega)]
      rw [hP]
      congr 1
      omega
    · rw [if_neg hx]
      simp only [List.cons_append, List.nil_append, readUvarintAux]
      have h1 : x < 128 := by omega
      rw [if_pos h1]
      have h2 : ¬ (i > 9 ∨ i = 9 ∧ x > 1) := by
        intro h
        rcases h with h | ⟨h, h'⟩
        · omega
        · subst h
          simp only [two64] at hlt
          rw [pow63] at hlt; omega
      rw [if_neg h2, or_shift_mod x hacc hlt]

theorem readUvarint_put (x : Nat) (rest : List Nat) (hx : x < two64) :
    readUvarint (putUvarint x ++ rest) = (x, rest, .none) := by
  have h := readUvarintAux_put rest 9 x 0 0 (by simp) (by simpa using hx) (by omega)
  simpa [readUvarint, putUvarint] using h

/-- `binary.Uvarint` agrees (value and positive byte count) -/
theorem stdUvarintAux_put (rest : List Nat) : ∀ (fuel x i acc : Nat),
    acc < 2 ^ (7 * i) → acc + x * 2 ^ (7 * i) < two64 → i + fuel = 9 →
    stdUvarintAux (putUvarintAux fuel x ++ rest) i (7 * i) acc
      = (acc + x * 2 ^ (7 * i), ((i + (putUvarintAux fuel x).length : Nat) : Int)) := by
  intro fuel
  induction fuel with
  | zero =>
    intro x i acc hacc hlt hi
    have hi9 : i = 9 := by omega
    subst hi9
    have hx : x < 2 := by
      simp only [two64] at hlt
      rw [pow63] at hlt; omega
    have hx256 : x % 256 = x := by omega
    simp only [putUvarintAux, hx256, List.cons_append, List.nil_append, stdUvarintAux]
    have h1 : x < 128 := by omega
    have h2 : ¬ (x > 1) := by omega
    simp [h1, h2, or_shift_mod x hacc hlt]
  | succ fuel ih =>
    intro x i acc hacc hlt hi
    unfold putUvarintAux
    have h0 : ¬ (i = 10) := by omega
    by_cases hx : x ≥ 128
    · rw [if_pos hx]
      simp only [List.cons_append, stdUvarintAux]
      have hb : ¬ (x % 128 + 128 < 128) := by omega
      rw [if_neg h0, if_neg hb]
      have hb2 : (x % 128 + 128) % 128 = x % 128 := by omega
      rw [hb2]
      have hP : 2 ^ (7 * (i + 1)) = 128 * 2 ^ (7 * i) := pow7succ i
      have hle : x % 128 * 2 ^ (7 * i) ≤ 127 * 2 ^ (7 * i) := Nat.mul_le_mul_right _ (by omega)
      have hsp := split128 x (2 ^ (7 * i))
      rw [or_shift_mod (x % 128) hacc (by omega)]
      have h7 : 7 * i + 7 = 7 * (i + 1) := by omega
      rw [h7, ih (x / 128) (i + 1) (acc + x % 128 * 2 ^ (7 * i)) (by omega) (by rw [hP]; omega) (by omega)]
      rw [hP]
      simp only [List.length_cons]
      congr 1
      · omega
      · congr 1; omega
    · rw [if_neg hx]
      simp only [List.cons_append, List.nil_append, stdUvarintAux]
      have h1 : x < 128 := by omega
      rw [if_neg h0, if_pos h1]
      have h2 : ¬ (i = 9 ∧ x > 1) := by
        intro ⟨h, h'⟩
        subst h
        simp only [two64] at hlt
        rw [pow63] at hlt; omega
      rw [if_neg h2, or_shift_mod x hacc hlt]
      simp

theorem stdUvarint_put (x : Nat) (rest : List Nat) (hx : x < two64) :
    stdUvarint (putUvarint x ++ rest) = (x, ((putUvarint x).length : Int)) := by
  have h := stdUvarintAux_put rest 9 x 0 0 (by simp) (by simpa using hx) (by omega)
  simpa [stdUvarint, putUvarint] using h

theorem putUvarintAux_length_pos (fuel x : Nat) : 0 < (putUvarintAux fuel x).length := by
  cases fuel <;> simp [putUvarintAux] <;> split <;> simp

theorem putUvarint_length_pos (x : Nat) : 0 < (putUvarint x).length := putUvarintAux_length_pos 9 x

/-- `stream.UvariantSize` is the length of what `PutUvarint` writes -/
theorem uvariantSizeAux_eq (fuel x : Nat) : uvariantSizeAux fuel x = (putUvarintAux fuel x).length := by
  induction fuel generalizing x with
  | zero => simp [uvariantSizeAux, putUvarintAux]
  | succ f ih =>
    unfold uvariantSizeAux putUvarintAux
    split
    · simp [ih]; omega
    · simp

theorem uvariantSize_eq (x : Nat) : uvariantSize x = (putUvarint x).length := uvariantSizeAux_eq 9 x

/-- all bytes written are bytes -/
theorem putUvarintAux_lt (fuel x : Nat) : ∀ b ∈ putUvarintAux fuel x, b < 256 := by
  induction fuel generalizing x with
  | zero => intro b hb; simp [putUvarintAux] at hb; omega
  | succ f ih =>
    intro b hb
    unfold putUvarintAux at hb
    split at hb
    · simp at hb
      rcases hb with h | h
      · omega
      · exact ih _ b h
    · simp at hb; omega

/-- `PutVarint`'s transform to unsigned and `readVarint`'s inverse transform -/
theorem uToVarint_varintToU (x : Int) (h1 : -(two63 : Int) ≤ x) (h2 : x < (two63 : Int)) :
    uToVarint (varintToU x) = x := by
  simp only [two63] at h1 h2
  unfold uToVarint varintToU toI64 toU64
  simp only [two64, two63]
  split <;> split <;> omega

theorem varintToU_lt (x : Int) : varintToU x < two64 := by
  unfold varintToU toU64
  simp only [two64]
  split <;> omega

theorem readVarint_put (x : Int) (rest : List Nat) (h1 : -(two63 : Int) ≤ x) (h2 : x < (two63 : Int)) :
    readVarint (putVarint x ++ rest) = (x, rest, .none) := by
  unfold readVarint putVarint
  rw [readUvarint_put _ _ (varintToU_lt x)]
  simp [uToVarint_varintToU x h1 h2]

theorem zigzagDec_zigzagEnc (x : Int) (h1 : -(two63 : Int) ≤ x) (h2 : x < (two63 : Int)) :
    zigzagDec (zigzagEnc x) = x := by
  simp only [two63] at h1 h2
  unfold zigzagDec zigzagEnc toI64 toU64
  simp only [two64, two63]
  split <;> split <;> omega

theorem zigzagEnc_zigzagDec (v : Nat) (h : v < two64) : zigzagEnc (zigzagDec v) = v := by
  simp only [two64] at h
  unfold zigzagDec zigzagEnc toI64 toU64
  simp only [two64, two63]
  split <;> split <;> omega

theorem zigzagEnc_lt (x : Int) : zigzagEnc x < two64 := by
  unfold zigzagEnc toU64
  simp only [two64]
  split <;> omega

end LinVerif.Varint
