/-
C04 — arithmetic of the slots of ONE year-type family (a calendar month of 28..31 days) and of the
"offset modulo a constant" shape of a slot rule. Helper lemmas of Props/C04Family.lean.
-/
import LinVerif.Lemmas.C04Arith
import LinVerif.Lemmas.C04Calendar

namespace LinVerif.Lemmas.C04
open LinVerif.Rollup LinVerif.Calendar LinVerif.Lemmas.C13

/-- the slot rule "offset modulo a constant `K`, then divide" (`((ts - base) % K) / interval`: the day
calculator's shape with `K = OneHour`, the old month shape with `K = OneDay`) -/
def modSlot (K : Nat) (x iv : Nat) : Nat := (x % K) / iv

/-- inside the modulus the two shapes are the same function -/
theorem modSlot_eq_of_lt (K x iv : Nat) (h : x < K) : modSlot K x iv = x / iv := by
  unfold modSlot; rw [Nat.mod_eq_of_lt h]

/-- one modulus further the modded slot is the slot of the offset `x - K` -/
theorem modSlot_wraps (K x iv : Nat) (h1 : K ≤ x) (h2 : x < 2 * K) :
    modSlot K x iv = (x - K) / iv := by
  unfold modSlot
  have : x % K = x - K := by
    rw [Nat.mod_eq_sub_mod h1, Nat.mod_eq_of_lt (by omega)]
  rw [this]

/-- EXACT condition: the modded rule is the quotient rule on every offset of a family of length `F`
iff the family is not longer than the modulus (for intervals not longer than the modulus). -/
theorem modSlot_agrees_iff (K F iv : Nat) (hiv : 0 < iv) (hK : iv ≤ K) :
    (∀ x, x < F → modSlot K x iv = x / iv) ↔ F ≤ K := by
  constructor
  · intro h
    by_contra hc
    have := h K (by omega)
    unfold modSlot at this
    rw [Nat.mod_self, Nat.zero_div] at this
    have h1 : 0 < K / iv := Nat.div_pos hK hiv
    omega
  · intro h x hx
    exact modSlot_eq_of_lt K x iv (by omega)

/-- quotient slot of an offset written as (whole days, rest of the day), interval dividing a day:
every day owns its own block of `1d / iv` slots -/
theorem day_block_slot (k x iv : Nat) (hiv : 0 < iv) (hd : iv ∣ 86400000) (hx : x < 86400000) :
    (k * 86400000 + x) / iv = k * (86400000 / iv) + x / iv ∧ x / iv < 86400000 / iv := by
  obtain ⟨n, hn⟩ := hd
  have hn0 : 0 < n := by
    rcases Nat.eq_zero_or_pos n with h | h
    · subst h; omega
    · exact h
  have e1 : 86400000 / iv = n := by rw [hn]; exact Nat.mul_div_cancel_left n hiv
  rw [e1]
  constructor
  · have : k * 86400000 + x = x + iv * (n * k) := by rw [hn]; ring
    rw [this, Nat.add_mul_div_left _ _ hiv]; ring
  · apply Nat.div_lt_of_lt_mul; rw [← hn]; exact hx

/-- quotient slot of an offset in general: bounds of the block of the `k`-th day -/
theorem day_block_bounds (k x iv : Nat) (_hiv : 0 < iv) (hx : x < 86400000) :
    k * 86400000 / iv ≤ (k * 86400000 + x) / iv ∧
    (k * 86400000 + x) / iv ≤ ((k + 1) * 86400000 - 1) / iv :=
  ⟨Nat.div_le_div_right (by omega), Nat.div_le_div_right (by
    have : (k + 1) * 86400000 = k * 86400000 + 86400000 := by ring
    omega)⟩

/-- two offsets have the same quotient slot iff they lie in the same window -/
theorem same_slot_iff_same_window (x y iv : Nat) (hiv : 0 < iv) :
    x / iv = y / iv ↔ ∃ q, iv * q ≤ x ∧ x < iv * (q + 1) ∧ iv * q ≤ y ∧ y < iv * (q + 1) := by
  constructor
  · intro h
    refine ⟨x / iv, Nat.mul_div_le x iv, Nat.lt_mul_div_succ x hiv, ?_, ?_⟩
    · rw [h]; exact Nat.mul_div_le y iv
    · rw [h]; exact Nat.lt_mul_div_succ y hiv
  · rintro ⟨q, h1, h2, h3, h4⟩
    have hx : x / iv = q := by
      apply Nat.div_eq_of_lt_le
      · rw [Nat.mul_comm]; exact h1
      · rw [Nat.mul_comm]; exact h2
    have hy : y / iv = q := by
      apply Nat.div_eq_of_lt_le
      · rw [Nat.mul_comm]; exact h3
      · rw [Nat.mul_comm]; exact h4
    rw [hx, hy]

/-- Gregorian month of a day: start `M`, next month's start `N`, `28 ≤ N - M ≤ 31`, `M ≤ d < N`,
and `N` is itself a month start. -/
theorem stdCal_month_length (d : Int) :
    28 ≤ stdCal.monthNext (stdCal.monthStart d) - stdCal.monthStart d ∧
    stdCal.monthNext (stdCal.monthStart d) - stdCal.monthStart d ≤ 31 ∧
    stdCal.monthStart d ≤ d ∧ d < stdCal.monthNext (stdCal.monthStart d) ∧
    stdCal.monthStart (stdCal.monthNext (stdCal.monthStart d)) = stdCal.monthNext (stdCal.monthStart d) := by
  obtain ⟨c1, c2, c3, c4, c5⟩ := civil_spec d
  have hok := stdCal_okAt d
  generalize hc : civilFromDays d = c at *
  obtain ⟨y, m, dd⟩ := c
  simp only at c1 c2 c3 c4 c5
  have hs := month_step y m c1 c2
  have hms := civil_month_start y m c1 c2
  have hM : stdCal.monthStart d = daysFromCivil y m 1 := by
    show daysFromCivil (civilFromDays d).1 (civilFromDays d).2.1 1 = _
    rw [hc]
  have hN : stdCal.monthNext (daysFromCivil y m 1) =
      daysFromCivil (nextMonth y m).1 (nextMonth y m).2 1 := by
    show daysFromCivil (nextMonth (civilFromDays (daysFromCivil y m 1)).1
      (civilFromDays (daysFromCivil y m 1)).2.1).1 (nextMonth (civilFromDays (daysFromCivil y m 1)).1
      (civilFromDays (daysFromCivil y m 1)).2.1).2 1 = _
    rw [hms]
  have hnm : 1 ≤ (nextMonth y m).2 ∧ (nextMonth y m).2 ≤ 12 := by
    simp only [nextMonth, normMonth]; omega
  have hns := civil_month_start (nextMonth y m).1 (nextMonth y m).2 hnm.1 hnm.2
  rw [hM, hN]
  refine ⟨hs.1, hs.2, ?_, c5, ?_⟩
  · have := hok.le; rw [hM] at this; exact this
  · show daysFromCivil (civilFromDays (daysFromCivil (nextMonth y m).1 (nextMonth y m).2 1)).1
      (civilFromDays (daysFromCivil (nextMonth y m).1 (nextMonth y m).2 1)).2.1 1 = _
    rw [hns]

end LinVerif.Lemmas.C04
