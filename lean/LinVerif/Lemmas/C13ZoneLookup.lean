/-
C13 — the range lookup (`GetDataFamilies`) under a fixed-offset zone: the selection predicate is the
UTC predicate at the local times, hence "the family's range intersects the query range".
-/
import LinVerif.Lemmas.C13Zone
import LinVerif.Lemmas.C13Lookup

namespace LinVerif.Lemmas.C13
open LinVerif.Calendar LinVerif.Interval

theorem intersect_seg (a qs qe : Int) (h : a ≤ qs) :
    (TimeRange.mk a qe).intersect ⟨qs, qe⟩ = ⟨qs, qe⟩ := by
  simp only [TimeRange.intersect]
  congr 1
  · split <;> omega
  · split <;> omega

/-- the selection predicate of `getDataFamiliesZ` in a fixed-offset zone -/
theorem lookup_predZ (off : Int) (c : Calc) (q : TimeRange) {t : Int} (hq0 : 0 ≤ q.start)
    (hq1 : 0 ≤ q.start + 1000 * off) (hq : q.start ≤ q.stop) (ht0 : 0 ≤ t) (ht1 : 0 ≤ t + 1000 * off) :
    (((TimeRange.mk (calcSegmentTimeZ (Zone.fixed off) c q.start) q.stop).contains
        (calcSegmentTimeZ (Zone.fixed off) c t) &&
      (TimeRange.mk
        (calcFamilyTimeZ (Zone.fixed off) c
          ((TimeRange.mk (calcSegmentTimeZ (Zone.fixed off) c q.start) q.stop).intersect q).start)
        (calcFamilyTimeZ (Zone.fixed off) c
          ((TimeRange.mk (calcSegmentTimeZ (Zone.fixed off) c q.start) q.stop).intersect q).stop)).overlap
          (timeRangeOfTimestampZ (Zone.fixed off) c t)) = true) ↔
    (calcFamilyTimeZ (Zone.fixed off) c t ≤ q.stop ∧
      q.start ≤ calcFamilyEndTimeZ (Zone.fixed off) c (calcFamilyTimeZ (Zone.fixed off) c t)) := by
  cases q with
  | mk qs qe =>
  simp only at hq0 hq1 hq ⊢
  have hqe0 : 0 ≤ qe := by omega
  have hqe1 : 0 ≤ qe + 1000 * off := by omega
  have sq := segment_shift off c qs (Or.inl ⟨hq0, hq1⟩)
  have st := segment_shift off c t (Or.inl ⟨ht0, ht1⟩)
  have fa := familyTime_shift off c hq0 hq1
  have fb := familyTime_shift off c hqe0 hqe1
  have ft := familyTime_shift off c ht0 ht1
  have fe := familyEndOfFamilyTime_shift off c ht0 ht1
  have sle := segment_le_family c hq1
  have fle := (family_contains c hq1).1
  have hseg : calcSegmentTimeZ (Zone.fixed off) c qs ≤ qs := by rw [sq]; omega
  rw [intersect_seg _ qs qe hseg]
  -- the UTC statement at the local times
  have L := lookup_pred c ⟨qs + 1000 * off, qe + 1000 * off⟩ (t := t + 1000 * off) hq1 (by simpa using hq) ht1
  rw [intersect_seg _ _ _ (by simpa using Int.le_trans sle fle)] at L
  simp only [familyQueryTimeRange, timeRangeOfTimestamp_eq, TimeRange.overlap,
    Bool.and_eq_true, Bool.or_eq_true, contains_iff] at L
  simp only [timeRangeOfTimestampZ, TimeRange.overlap, Bool.and_eq_true, Bool.or_eq_true, contains_iff]
  omega

theorem getDataFamiliesZ_mem (off : Int) (c : Calc) (q : TimeRange) (ts : List Int) (hq0 : 0 ≤ q.start)
    (hq1 : 0 ≤ q.start + 1000 * off) (hq : q.start ≤ q.stop)
    (hts : ∀ t ∈ ts, 0 ≤ t ∧ 0 ≤ t + 1000 * off) (x : Int) :
    x ∈ getDataFamiliesZ (Zone.fixed off) c q ts ↔
      ∃ t ∈ ts, x = calcFamilyTimeZ (Zone.fixed off) c t ∧ calcFamilyTimeZ (Zone.fixed off) c t ≤ q.stop ∧
        q.start ≤ calcFamilyEndTimeZ (Zone.fixed off) c (calcFamilyTimeZ (Zone.fixed off) c t) := by
  simp only [getDataFamiliesZ, List.mem_map, List.mem_filter]
  constructor
  · rintro ⟨t, ⟨hm, hp⟩, rfl⟩
    exact ⟨t, hm, rfl, (lookup_predZ off c q hq0 hq1 hq (hts t hm).1 (hts t hm).2).1 hp⟩
  · rintro ⟨t, hm, rfl, hp⟩
    exact ⟨t, ⟨hm, (lookup_predZ off c q hq0 hq1 hq (hts t hm).1 (hts t hm).2).2 hp⟩, rfl⟩

end LinVerif.Lemmas.C13
