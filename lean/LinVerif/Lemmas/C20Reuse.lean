/-
C20 helper lemmas: a re-used builder serialises exactly what a fresh one does.
-/
import LinVerif.Model.TrieReuse
import LinVerif.Lemmas.C20Bits
import LinVerif.Lemmas.C20Wire

set_option linter.unusedSimpArgs false
set_option linter.unusedVariables false

namespace LinVerif.Lemmas.C20
open LinVerif.Louds LinVerif.TrieWire LinVerif.TrieReuse

theorem bufInit_eq (prev bits : List Bool) : ∃ m, bufInit prev bits = bits ++ List.replicate m false := by
  unfold bufInit
  simp only []
  split
  · exact ⟨_, rfl⟩
  · exact ⟨_, rfl⟩

theorem popcount_append_zeros (bits : List Bool) (m : Nat) : popcount (bits ++ List.replicate m false) = popcount bits := by
  rw [popcount_append, popcount_replicate_false]; omega

theorem select_append_zeros : ∀ (bits : List Bool) (m k : Nat), 1 ≤ k → k ≤ popcount bits →
    select (bits ++ List.replicate m false) k = select bits k
  | [], m, k, h1, h2 => by simp [popcount] at h2; omega
  | true :: t, m, k, h1, h2 => by
    rw [popcount_cons] at h2
    simp only [if_true] at h2
    by_cases hk : k = 1
    · subst hk; simp [select]
    · rw [List.cons_append, select_true_succ _ _ (by omega), select_true_succ _ _ (by omega),
        select_append_zeros t m (k - 1) (by omega) (by omega)]
  | false :: t, m, k, h1, h2 => by
    rw [popcount_cons] at h2
    simp only [Bool.false_eq_true, if_false, Nat.zero_add] at h2
    rw [List.cons_append, select_false, select_false, select_append_zeros t m k h1 h2]

theorem selectLut_append_zeros (bits : List Bool) (m : Nat) :
    selectLut (bits ++ List.replicate m false) = selectLut bits := by
  unfold selectLut
  rw [popcount_append_zeros]
  congr 1
  apply List.map_congr_left
  intro j hj
  have hj' := List.mem_range.1 hj
  have hS : selectSampleInterval = 64 := rfl
  apply select_append_zeros
  · rw [hS]; omega
  · rw [hS] at hj' ⊢; omega

theorem take_append_zeros (bits : List Bool) (m : Nat) : (bits ++ List.replicate m false).take bits.length = bits := by
  simp

theorem rankInitReuse_take (prevLut : List Nat) (bits : List Bool) (m : Nat) :
    (rankInitReuse prevLut bits.length (bits ++ List.replicate m false)).take (bits.length / rankSparseBlockSize + 1)
      = rankLut bits := by
  unfold rankInitReuse rankLut
  simp only []
  rw [List.take_left' (by simp)]
  apply List.map_congr_left
  intro i hi
  have hi' := List.mem_range.1 hi
  have hle : i * rankSparseBlockSize ≤ bits.length := by
    have := Nat.div_mul_le_self bits.length rankSparseBlockSize
    have h2 : i * rankSparseBlockSize ≤ bits.length / rankSparseBlockSize * rankSparseBlockSize :=
      Nat.mul_le_mul_right _ (by omega)
    omega
  rw [List.take_append_of_le_length hle]

theorem rankWire_eq (prevBuf : List Bool) (prevLut : List Nat) (bits : List Bool) :
    rankWire prevBuf prevLut bits = { bits := bits, blockSize := rankSparseBlockSize, lut := rankLut bits } := by
  obtain ⟨m, hm⟩ := bufInit_eq prevBuf bits
  unfold rankWire
  simp only [hm, take_append_zeros, rankInitReuse_take]

theorem selWire_eq (prevBuf : List Bool) (bits : List Bool) :
    selWire prevBuf bits = { bits := bits, numOnes := popcount bits, lut := selectLut bits } := by
  obtain ⟨m, hm⟩ := bufInit_eq prevBuf bits
  unfold selWire selInitReuse
  simp only [hm, take_append_zeros, popcount_append_zeros, selectLut_append_zeros]
  congr 1
  rw [List.take_of_length_le]
  rw [selectLut_length]; omega

/-- whatever the builder's buffers held before, `Write` serialises the vectors of the current
dictionary only -/
theorem toWireReuse_eq (prev : Bufs) (t : TrieTree.Node) : toWireReuse prev (encode t) = toWire (encode t) := by
  unfold toWireReuse toWire
  simp only [rankWire_eq, selWire_eq]
  rfl

end LinVerif.Lemmas.C20
