/-
C06 helper lemmas, part 3: what `Consume` hands out along a history.
-/
import LinVerif.Lemmas.C06Inv

set_option linter.unusedSimpArgs false
set_option linter.unusedVariables false

namespace LinVerif.FanOut
open LinVerif.Map

/-- the sequence a step handed to group `g`, if it is a successful `Consume` of `g` -/
def consumed? (g : Nat) : Op → Res → Option Int
  | .consume g', .val n => if g' = g ∧ n ≠ noSeq then some n else none
  | _, _ => none

/-- all sequences handed to group `g` along a history, in order -/
def handedOut (v : Variant) (g : Nat) : State → List Op → List Int
  | _, [] => []
  | s, o :: os =>
    match consumed? g o (step v s o).2 with
    | some n => n :: handedOut v g (step v s o).1 os
    | none => handedOut v g (step v s o).1 os

/-- `c+1, c+2, ...` -/
def Consecutive : Int → List Int → Prop
  | _, [] => True
  | c, x :: xs => x = c + 1 ∧ Consecutive x xs

/-- operations that neither reposition group `g` nor replace its handle -/
def Op.keeps (g : Nat) : Op → Prop
  | .setConsumed g' _ => g' ≠ g
  | .setSeq g' _ => g' ≠ g
  | .setAppended _ => False
  | .stop g' => g' ≠ g
  | .reopen => False
  | _ => True

theorem putGroup_live_self (s : State) (g : Nat) (grp : Group) : lookup (s.putGroup g grp).live g = some grp :=
  lookup_upsert_self _ _ _

theorem putGroup_live_ne (s : State) (g g2 : Nat) (grp : Group) (h : g ≠ g2) :
    lookup (s.putGroup g grp).live g2 = lookup s.live g2 :=
  lookup_upsert_ne _ _ _ _ h

/-- one step: either nothing is handed to `g` and its consumed position stays, or exactly
consumed+1 is handed out and becomes the consumed position -/
theorem step_keeps {v : Variant} {s : State} {g : Nat} {grp : Group} {o : Op}
    (h : lookup s.live g = some grp) (hk : o.keeps g) (hc : -1 ≤ grp.consumed) :
    ∃ grp', lookup (step v s o).1.live g = some grp' ∧
      ((consumed? g o (step v s o).2 = none ∧ grp'.consumed = grp.consumed) ∨
       (consumed? g o (step v s o).2 = some (grp.consumed + 1) ∧ grp'.consumed = grp.consumed + 1 ∧
          grp.consumed + 1 ≤ s.q.appended)) := by
  cases o with
  | append len =>
    refine ⟨grp, ?_, Or.inl ⟨rfl, rfl⟩⟩
    show lookup (if len > dataPageSize then (s, Res.tooLarge) else ({ s with q := s.q.put len }, Res.done)).1.live g = _
    split <;> exact h
  | consume g' =>
    by_cases hg : g' = g
    · subst hg
      simp only [FanOut.step]
      unfold State.consume
      rw [h]
      simp only
      by_cases hp : grp.paused = true
      · simp only [hp, if_true]
        exact ⟨grp, h, Or.inl ⟨by simp [consumed?], rfl⟩⟩
      · simp only [hp, if_false]
        by_cases hh : grp.consumed + 1 ≤ s.q.appended
        · simp only [hh, if_true]
          refine ⟨_, putGroup_live_self _ _ _, Or.inr ⟨?_, rfl, trivial⟩⟩
          have : grp.consumed + 1 ≠ noSeq := by simp only [noSeq]; omega
          simp [consumed?, this]
        · simp only [hh, if_false]
          exact ⟨grp, h, Or.inl ⟨by simp [consumed?], rfl⟩⟩
    · refine ⟨grp, ?_, Or.inl ⟨?_, rfl⟩⟩
      · show lookup (s.consume g').1.live g = some grp
        unfold State.consume
        split
        · exact h
        · split
          · exact h
          · split
            · rw [putGroup_live_ne _ _ _ _ hg]; exact h
            · exact h
      · show consumed? g (.consume g') (s.consume g').2 = none
        cases (s.consume g').2 <;> simp [consumed?, hg]
  | ack g' n =>
    simp only [FanOut.step]
    by_cases hg : g' = g
    · subst hg
      unfold State.ackGroup
      rw [h]
      simp only
      split
      · exact ⟨_, putGroup_live_self _ _ _, Or.inl ⟨rfl, rfl⟩⟩
      · exact ⟨grp, h, Or.inl ⟨rfl, rfl⟩⟩
    · refine ⟨grp, ?_, Or.inl ⟨rfl, rfl⟩⟩
      unfold State.ackGroup
      split
      · exact h
      · split
        · rw [putGroup_live_ne _ _ _ _ hg]; exact h
        · exact h
  | setConsumed g' n =>
    have hg : g' ≠ g := hk
    refine ⟨grp, ?_, Or.inl ⟨rfl, rfl⟩⟩
    simp only [FanOut.step]
    split
    · exact h
    · rw [putGroup_live_ne _ _ _ _ hg]; exact h
  | setSeq g' n =>
    have hg : g' ≠ g := hk
    refine ⟨grp, ?_, Or.inl ⟨rfl, rfl⟩⟩
    simp only [FanOut.step]
    split
    · exact h
    · rw [putGroup_live_ne _ _ _ _ hg]; exact h
  | setAppended n => exact absurd hk (by simp [Op.keeps])
  | sync =>
    refine ⟨grp, ?_, Or.inl ⟨rfl, rfl⟩⟩
    show lookup s.sync.live g = some grp
    unfold State.sync
    split
    · exact h
    · split <;> exact h
  | gc => exact ⟨grp, h, Or.inl ⟨rfl, rfl⟩⟩
  | create g' =>
    refine ⟨grp, ?_, Or.inl ⟨rfl, rfl⟩⟩
    show lookup (s.create v g').live g = some grp
    unfold State.create
    split
    · exact h
    · rename_i hnone
      have hg : g' ≠ g := by
        intro e; subst e; rw [h] at hnone; cases hnone
      show lookup (upsert s.live g' _) g = some grp
      rw [lookup_upsert_ne _ _ _ _ hg]; exact h
  | stop g' =>
    have hg : g' ≠ g := hk
    refine ⟨grp, ?_, Or.inl ⟨rfl, rfl⟩⟩
    show lookup (erase s.live g') g = some grp
    rw [lookup_erase_ne _ _ _ hg]; exact h
  | pause g' =>
    by_cases hg : g' = g
    · subst hg
      refine ⟨{ grp with paused := true }, ?_, Or.inl ⟨rfl, rfl⟩⟩
      simp only [FanOut.step, h]
      exact lookup_upsert_self _ _ _
    · refine ⟨grp, ?_, Or.inl ⟨rfl, rfl⟩⟩
      simp only [FanOut.step]
      split
      · exact h
      · show lookup (upsert s.live g' _) g = some grp
        rw [lookup_upsert_ne _ _ _ _ hg]; exact h
  | reopen => exact absurd hk (by simp [Op.keeps])

/-- clause (2) over histories -/
theorem handedOut_consecutive (v : Variant) (g : Nat) :
    ∀ (ops : List Op) (s : State) (grp : Group), lookup s.live g = some grp → -1 ≤ grp.consumed →
      (∀ o ∈ ops, o.keeps g) → Consecutive grp.consumed (handedOut v g s ops)
  | [], _, _, _, _, _ => trivial
  | o :: os, s, grp, h, hc, hk => by
    obtain ⟨grp', hl, hcase⟩ := step_keeps (v := v) h (hk o List.mem_cons_self) hc
    have hk' : ∀ o' ∈ os, o'.keeps g := fun o' ho' => hk o' (List.mem_cons_of_mem _ ho')
    rcases hcase with ⟨hn, he⟩ | ⟨hs, he, _⟩
    · have ih := handedOut_consecutive v g os _ grp' hl (by omega) hk'
      simp only [handedOut, hn]
      rw [he] at ih; exact ih
    · have ih := handedOut_consecutive v g os _ grp' hl (by omega) hk'
      simp only [handedOut, hs]
      rw [he] at ih
      exact ⟨rfl, ih⟩

end LinVerif.FanOut
