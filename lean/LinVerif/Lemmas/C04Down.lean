/-
Down-sampling lemmas for C04: what `DownSamplingMultiSeriesInto` leaves in each target position.
-/
import Mathlib.Tactic.Linarith
import LinVerif.Model.Rollup

set_option linter.unusedSimpArgs false
namespace LinVerif.Lemmas.C04
open LinVerif.Rollup

/-- one aggregation step on a (slot, value) pair -/
def aggF (ft : Nat) (acc : Option Int) (sv : Nat × Int) : Option Int := aggInto ft acc sv.2

/-- all positions of a decoder fall inside the target array: neither `continue` nor `break` -/
def InWindow (posOf : Nat → Int) (length : Nat) (d : List (Nat × Int)) : Prop :=
  ∀ sv ∈ d, 0 ≤ posOf sv.1 ∧ posOf sv.1 < length

theorem placeDec_spec (ft : Nat) (posOf : Nat → Int) (length : Nat) (d : List (Nat × Int)) :
    ∀ (tv : TV), InWindow posOf length d → ∀ p : Nat,
      placeDec ft posOf length tv d p =
        (d.filter (fun sv => decide (posOf sv.1 = (p : Int)))).foldl (aggF ft) (tv p) := by
  induction d with
  | nil => intro tv _ p; simp [placeDec]
  | cons sv rest ih =>
    intro tv hw p
    obtain ⟨s, v⟩ := sv
    have hsv := hw (s, v) (List.mem_cons_self)
    have hrest : InWindow posOf length rest := fun x hx => hw x (List.mem_cons_of_mem _ hx)
    have h0 : ¬ posOf s < 0 := by have := hsv.1; simp at this; omega
    have h1 : ¬ posOf s ≥ (length : Int) := by have := hsv.2; simp at this; omega
    rw [placeDec]
    simp only [h0, h1, if_false]
    rw [ih _ hrest p]
    by_cases hp : posOf s = (p : Int)
    · have hpn : (posOf s).toNat = p := by omega
      simp [List.filter_cons, hp, TV.upd, hpn, aggF]
    · have hpn : ¬ p = (posOf s).toNat := by
        have := hsv.1; simp at this; omega
      simp [List.filter_cons, hp, TV.upd, hpn]

/-- `DownSamplingMultiSeriesInto`, window case: position `p` holds the field-type aggregate (in
decoder order, then slot order) of exactly the source values whose position is `p`; `none` (the
Inf marker: nothing is emitted) when there is none. -/
theorem downSample_spec (ft : Nat) (posOf : Nat → Int) (length : Nat) (decs : List (List (Nat × Int)))
    (hw : ∀ d ∈ decs, InWindow posOf length d) (p : Nat) :
    downSample ft posOf length decs p =
      (decs.flatten.filter (fun sv => decide (posOf sv.1 = (p : Int)))).foldl (aggF ft) none := by
  unfold downSample
  suffices h : ∀ (tv : TV), decs.foldl (placeDec ft posOf length) tv p =
      (decs.flatten.filter (fun sv => decide (posOf sv.1 = (p : Int)))).foldl (aggF ft) (tv p) by
    exact h _
  induction decs with
  | nil => intro tv; simp
  | cons d rest ih =>
    intro tv
    have hd := hw d (List.mem_cons_self)
    have hr : ∀ d ∈ rest, InWindow posOf length d := fun x hx => hw x (List.mem_cons_of_mem _ hx)
    rw [List.foldl_cons, ih hr, placeDec_spec ft posOf length d tv hd p]
    simp [List.flatten_cons, List.filter_append, List.foldl_append]

theorem downSample_nil_of_empty (ft : Nat) (posOf : Nat → Int) (length : Nat) (decs : List (List (Nat × Int)))
    (hall : ∀ d ∈ decs, d = []) (q : Nat) : downSample ft posOf length decs q = none := by
  unfold downSample
  suffices h : ∀ (tv : TV), decs.foldl (placeDec ft posOf length) tv = tv by rw [h]
  induction decs with
  | nil => intro tv; rfl
  | cons d rest ih =>
    intro tv
    rw [List.foldl_cons, hall d (List.mem_cons_self)]
    simp only [placeDec]
    exact ih (fun x hx => hall x (List.mem_cons_of_mem _ hx)) tv

theorem flatten_nil_of_empty {α : Type} (decs : List (List α)) (hall : ∀ d ∈ decs, d = []) : decs.flatten = [] := by
  apply List.eq_nil_iff_forall_not_mem.2
  intro sv hsv
  obtain ⟨d, hd, hsvd⟩ := List.mem_flatten.1 hsv
  rw [hall d hd] at hsvd
  exact absurd hsvd (List.not_mem_nil)

/-- Placement by the slot of the timestamp: if the position of every source slot that carries a
value is `cs s - tstart` for its target slot `cs s`, and those slots lie in the target range, then
target slot `tstart + p` aggregates exactly the source values with `cs s = tstart + p`. -/
theorem downSample_by_slot (ft : Nat) (posOf : Nat → Int) (tstart : Int) (length : Nat) (decs : List (List (Nat × Int)))
    (cs : Nat → Int)
    (hplace : ∀ d ∈ decs, ∀ sv ∈ d, posOf sv.1 = cs sv.1 - tstart ∧ tstart ≤ cs sv.1 ∧ cs sv.1 < tstart + length)
    (p : Nat) :
    downSample ft posOf length decs p =
      (decs.flatten.filter (fun sv => decide (cs sv.1 = tstart + (p : Int)))).foldl (aggF ft) none := by
  have hw : ∀ d ∈ decs, InWindow posOf length d := by
    intro d hd sv hsv
    obtain ⟨h1, h2, h3⟩ := hplace d hd sv hsv
    constructor <;> omega
  rw [downSample_spec ft posOf length decs hw p]
  congr 1
  apply List.filter_congr
  intro sv hsv
  obtain ⟨d, hd, hsvd⟩ := List.mem_flatten.1 hsv
  obtain ⟨h1, _, _⟩ := hplace d hd sv hsvd
  simp only [decide_eq_decide]
  constructor <;> intro h <;> omega

end LinVerif.Lemmas.C04
