/-
C08, round 9: the TOKEN shape of the suspend / wake-up handshake (`Cfg.tok`, candidate repair
fixes/C08-suspend-token.patch) in the MAIN model: over every event sequence a registered replicator's loop
is parked only while its follower is offline (`PL`), and the flag is set exactly while the loop is parked
(`SP` with `WK`). In the blocking shape `PL` is false (`Neg.online_before_suspend_mark_parks`).
-/
import LinVerif.Lemmas.C08Live

namespace LinVerif.Replication

/-- `isSuspend` is set only while the loop is parked (blocking and token shape) -/
structure SP (s : St) : Prop where
  a : s.susp = true → s.parked = true
  b : s.susp2 = true → s.parked2 = true

/-- a registered replicator's loop is parked only while its follower is offline -/
structure PL (s : St) : Prop where
  a : s.stopped = false → s.parked = true → s.live = false
  b : s.stopped2 = false → s.parked2 = true → s.live2 = false

theorem sp_swap {s : St} (h : SP s) : SP s.swap := ⟨h.b, h.a⟩
theorem pl_swap {s : St} (h : PL s) : PL s.swap := ⟨h.b, h.a⟩

theorem ackGroup_live (t : St) (a : Int) : (ackGroup t a).live = t.live := (ackGroup_flags t a).1

/-- a replica call never changes the follower's liveness -/
theorem replicaStep_live (cfg : Cfg) (s : St) (f : Fault) : (replicaStep cfg s f).1.live = s.live := by
  have hhs : (handshake cfg s f).1.live = s.live := by
    unfold handshake resetReplicaIndex followerReset
    dsimp only
    split
    · rfl
    split
    · rfl
    split
    · rfl
    split
    · split <;> rfl
    · split
      · split
        · simp [ackGroup_live, resetAppendIndex]
        · simp [ackGroup_live, resetAppendIndex]
      · split
        · simp [ackGroup_live]
        · simp [ackGroup_live]
  have hir : (isReady cfg s f).1.live = s.live := by
    unfold isReady
    split
    · rfl
    split
    · rfl
    · exact hhs
  have hcn : ∀ t : St, (connect t f).1.live = t.live := by
    intro t; unfold connect
    split
    · rfl
    split <;> rfl
  have hsp : ∀ t : St, (sendPhase cfg t f).1.live = t.live := by
    intro t
    have hrs : ∀ (u : St) (idx : Int) (m : Msg), (replicaSend cfg u idx m f).1.live = u.live := by
      intro u idx m
      unfold replicaSend replicaLog
      dsimp only
      repeat' split
      all_goals (first | rfl | simp [ackGroup_live])
    unfold sendPhase consume
    dsimp only
    split
    · dsimp only
      split
      · rfl
      · split
        · unfold ignoreMessage
          split
          · simp [ackGroup_live]
          · rfl
        · exact hrs _ _ _
    · dsimp only
      split
      · rfl
      · split
        · unfold ignoreMessage
          split
          · simp [ackGroup_live]
          · rfl
        · exact hrs _ _ _
  unfold replicaStep
  generalize isReady cfg s f = r at hir
  obtain ⟨s1, ok⟩ := r
  dsimp only at hir ⊢
  cases ok
  · simp only [Bool.false_eq_true, if_false]
    exact hir
  · simp only [if_true]
    have h2 := hcn s1
    generalize connect s1 f = r2 at h2
    obtain ⟨s2, ok2⟩ := r2
    dsimp only at h2 ⊢
    cases ok2
    · simp only [Bool.false_eq_true, if_false]
      exact h2.trans hir
    · simp only [if_true]
      exact (hsp s2).trans (h2.trans hir)

/-- a replica call sets the flag only together with parking the loop -/
theorem replicaStep_sp' (cfg : Cfg) (s : St) (f : Fault) (h : s.susp = true → s.parked = true) :
    (replicaStep cfg s f).1.susp = true → (replicaStep cfg s f).1.parked = true := by
  rcases replicaStep_sp cfg s f with x | x
  · rw [x.1, x.2]; exact h
  · intro _; exact x.1

/-- the step of a loop that is not parked: parked afterwards only if the follower is offline -/
theorem replicaStep_pl (cfg : Cfg) (s : St) (f : Fault) (hp : s.parked = false) (hs : s.susp = false) :
    (replicaStep cfg s f).1.parked = true → (replicaStep cfg s f).1.live = false := by
  intro hpk
  rw [replicaStep_live]
  cases hl : s.live with
  | false => rfl
  | true =>
    have := (replicaStep_parked cfg s f hl hp hs).1
    rw [this] at hpk; cases hpk

/-- token shape, both followers: the flag is set exactly while the loop is parked, and a registered
replicator's loop is parked only while its follower is offline -/
structure TK (s : St) : Prop where
  eqa : s.susp = s.parked
  eqb : s.susp2 = s.parked2
  pla : s.stopped = false → s.parked = true → s.live = false
  plb : s.stopped2 = false → s.parked2 = true → s.live2 = false

theorem tk_swap {s : St} (h : TK s) : TK s.swap := ⟨h.eqb, h.eqa, h.plb, h.pla⟩

theorem replicaStep_eq (cfg : Cfg) (s : St) (f : Fault) (h : s.susp = s.parked) :
    (replicaStep cfg s f).1.susp = (replicaStep cfg s f).1.parked := by
  rcases replicaStep_sp cfg s f with x | x
  · rw [x.1, x.2]; exact h
  · rw [x.1, x.2]

theorem tk_peerEv (cfg : Cfg) (ht : cfg.tok = true) (s : St) (e : Ev) (hf : Full s) (h : TK s) :
    TK (peerEv cfg s e).1 := by
  have hp := peerEv_spec cfg s e hf.a hf.bndA hf.stA hf.ubA
  have hs2 := frameSame hp.frame
  refine ⟨?_, by rw [hs2.parked2, hs2.susp2]; exact h.eqb, ?_, by rw [hs2.parked2, hs2.stopped2, hs2.live2]; exact h.plb⟩
  all_goals skip
  -- (1) flag = parked
  · have honl : ∀ f : Fault, (onlineEv cfg s f).1.susp = (onlineEv cfg s f).1.parked := by
      intro f
      unfold onlineEv
      dsimp only
      split
      · exact h.eqa
      · split
        · exact replicaStep_eq cfg _ f rfl
        · exact h.eqa
    cases e with
    | step w f =>
      simp only [peerEv]
      split
      · exact h.eqa
      · split
        · exact h.eqa
        · exact replicaStep_eq cfg s f h.eqa
    | frestart w => simp only [peerEv]; exact h.eqa
    | flose w => simp only [peerEv]; exact h.eqa
    | fclose w => simp only [peerEv]; exact h.eqa
    | offline w => simp only [peerEv]; exact h.eqa
    | online w f => simp only [peerEv]; exact honl f
    | steponl w f =>
      simp only [peerEv, ht, Bool.true_or, if_true]
      split
      · rename_i hc
        exact replicaStep_eq cfg _ f hc.2.1.symm
      · exact honl f
    | steppre w f =>
      simp only [peerEv, ht, if_true]
      split
      · rename_i hc
        exact replicaStep_eq cfg _ f hc.2.1.symm
      · exact honl f
    | join w =>
      simp only [peerEv]
      split
      · exact h.eqa
      · split <;> rfl
    | append m => simp only [peerEv]; exact h.eqa
    | lsnap => simp only [peerEv]; exact h.eqa
    | lrestore k => simp only [peerEv]; exact h.eqa
    | lrestart => simp only [peerEv]; exact h.eqa
    | gc => simp only [peerEv]; exact h.eqa
    | expire => simp only [peerEv]; exact h.eqa
  -- (2) parked only while offline
  · have honl : ∀ f : Fault, (onlineEv cfg s f).1.stopped = false → (onlineEv cfg s f).1.parked = true → (onlineEv cfg s f).1.live = false := by
      intro f
      unfold onlineEv
      dsimp only
      split
      · rename_i hst; intro x; rw [hst] at x; cases x
      · split
        · intro _; exact replicaStep_pl cfg _ f rfl rfl
        · rename_i hsu
          intro _ hpk
          have : s.susp = true := by rw [h.eqa]; exact hpk
          exact absurd this hsu
    cases e with
    | step w f =>
      simp only [peerEv]
      split
      · exact h.pla
      · split
        · exact h.pla
        · rename_i hpk
          have hpk' : s.parked = false := by simpa using hpk
          intro _
          exact replicaStep_pl cfg s f hpk' (by rw [h.eqa]; exact hpk')
    | frestart w => simp only [peerEv]; exact h.pla
    | flose w => simp only [peerEv]; exact h.pla
    | fclose w => simp only [peerEv]; exact h.pla
    | offline w => simp only [peerEv]; intro _ _; trivial
    | online w f => simp only [peerEv]; exact honl f
    | steponl w f =>
      simp only [peerEv, ht, Bool.true_or, if_true]
      split
      · rename_i hc
        intro _
        exact replicaStep_pl cfg _ f hc.2.1 rfl
      · exact honl f
    | steppre w f =>
      simp only [peerEv, ht, if_true]
      split
      · rename_i hc
        intro _
        exact replicaStep_pl cfg _ f hc.2.1 rfl
      · exact honl f
    | join w =>
      simp only [peerEv]
      split
      · exact h.pla
      · split <;> (intro _ x; cases x)
    | append m => simp only [peerEv]; exact h.pla
    | lsnap => simp only [peerEv]; exact h.pla
    | lrestore k => simp only [peerEv]; exact h.pla
    | lrestart => simp only [peerEv]; exact h.pla
    | gc => simp only [peerEv]; exact h.pla
    | expire => simp only [peerEv]; exact h.pla

theorem syncGC_live (s : St) : (syncGC s).live = s.live ∧ (syncGC s).live2 = s.live2 ∧
    (syncGC s).stopped = s.stopped ∧ (syncGC s).stopped2 = s.stopped2 := by
  have key : ∀ a : Int, (if 0 ≤ a then { s with L := s.L.setAck a } else s).live = s.live ∧
      (if 0 ≤ a then { s with L := s.L.setAck a } else s).live2 = s.live2 ∧
      (if 0 ≤ a then { s with L := s.L.setAck a } else s).stopped = s.stopped ∧
      (if 0 ≤ a then { s with L := s.L.setAck a } else s).stopped2 = s.stopped2 := by
    intro a; split <;> exact ⟨rfl, rfl, rfl, rfl⟩
  unfold syncGC
  split
  · exact ⟨rfl, rfl, rfl, rfl⟩
  · exact key _

/-- the expiry check never changes liveness and never re-registers a group -/
theorem expire_live (s : St) : (expire s).1.live = s.live ∧ (expire s).1.live2 = s.live2 ∧
    ((expire s).1.stopped = false → s.stopped = false) ∧ ((expire s).1.stopped2 = false → s.stopped2 = false) := by
  have hg := syncGC_live s
  unfold expire
  generalize syncGC s = t at hg
  dsimp only
  have h1 : ∀ (c : Prop) [Decidable c] (u : St), (if c then stopA u else u).live = u.live ∧ (if c then stopA u else u).live2 = u.live2 ∧
      ((if c then stopA u else u).stopped = false → u.stopped = false) ∧ (if c then stopA u else u).stopped2 = u.stopped2 := by
    intro c _ u; split
    · exact ⟨rfl, rfl, (fun x => by cases x), rfl⟩
    · exact ⟨rfl, rfl, id, rfl⟩
  have h2 : ∀ (c : Prop) [Decidable c] (u : St), (if c then stopB u else u).live = u.live ∧ (if c then stopB u else u).live2 = u.live2 ∧
      (if c then stopB u else u).stopped = u.stopped ∧ ((if c then stopB u else u).stopped2 = false → u.stopped2 = false) := by
    intro c _ u; split
    · exact ⟨rfl, rfl, rfl, (fun x => by cases x)⟩
    · exact ⟨rfl, rfl, rfl, id⟩
  have a1 := h1 (t.stopped = false ∧ t.L.app ≤ t.gack) t
  generalize (if t.stopped = false ∧ t.L.app ≤ t.gack then stopA t else t) = u at a1
  have a2 := h2 (t.stopped2 = false ∧ t.L.app ≤ t.gack2) u
  generalize (if t.stopped2 = false ∧ t.L.app ≤ t.gack2 then stopB u else u) = v at a2
  have key : v.live = s.live ∧ v.live2 = s.live2 ∧ (v.stopped = false → s.stopped = false) ∧ (v.stopped2 = false → s.stopped2 = false) :=
    ⟨a2.1.trans (a1.1.trans hg.1), a2.2.1.trans (a1.2.1.trans hg.2.1),
     (fun x => by rw [← hg.2.2.1]; exact a1.2.2.1 (by rw [← a2.2.2.1]; exact x)),
     (fun x => by rw [← hg.2.2.2, ← a1.2.2.2]; exact a2.2.2.2 x)⟩
  split
  · exact key
  · exact key

theorem tk_next (cfg : Cfg) (ht : cfg.tok = true) (s : St) (e : Ev) (hf : Full s) (h : TK s) :
    TK (next cfg s e).1 := by
  unfold next
  split
  · exact h
  · cases e with
    | step w f => cases w <;> simp only [Ev.who]
                  · exact tk_peerEv cfg ht s _ hf h
                  · exact tk_swap (tk_peerEv cfg ht s.swap _ (full_swap hf) (tk_swap h))
    | frestart w => cases w <;> simp only [Ev.who]
                    · exact tk_peerEv cfg ht s _ hf h
                    · exact tk_swap (tk_peerEv cfg ht s.swap _ (full_swap hf) (tk_swap h))
    | flose w => cases w <;> simp only [Ev.who]
                 · exact tk_peerEv cfg ht s _ hf h
                 · exact tk_swap (tk_peerEv cfg ht s.swap _ (full_swap hf) (tk_swap h))
    | fclose w => cases w <;> simp only [Ev.who]
                  · exact tk_peerEv cfg ht s _ hf h
                  · exact tk_swap (tk_peerEv cfg ht s.swap _ (full_swap hf) (tk_swap h))
    | offline w => cases w <;> simp only [Ev.who]
                   · exact tk_peerEv cfg ht s _ hf h
                   · exact tk_swap (tk_peerEv cfg ht s.swap _ (full_swap hf) (tk_swap h))
    | online w f => cases w <;> simp only [Ev.who]
                    · exact tk_peerEv cfg ht s _ hf h
                    · exact tk_swap (tk_peerEv cfg ht s.swap _ (full_swap hf) (tk_swap h))
    | steponl w f => cases w <;> simp only [Ev.who]
                     · exact tk_peerEv cfg ht s _ hf h
                     · exact tk_swap (tk_peerEv cfg ht s.swap _ (full_swap hf) (tk_swap h))
    | steppre w f => cases w <;> simp only [Ev.who]
                     · exact tk_peerEv cfg ht s _ hf h
                     · exact tk_swap (tk_peerEv cfg ht s.swap _ (full_swap hf) (tk_swap h))
    | join w => cases w <;> simp only [Ev.who]
                · exact tk_peerEv cfg ht s _ hf h
                · exact tk_swap (tk_peerEv cfg ht s.swap _ (full_swap hf) (tk_swap h))
    | append m => simp only [Ev.who]; split <;> exact ⟨h.eqa, h.eqb, h.pla, h.plb⟩
    | lsnap => simp only [Ev.who]; exact ⟨h.eqa, h.eqb, h.pla, h.plb⟩
    | lrestore k =>
      simp only [Ev.who]
      cases s.imgs.drop k with
      | nil => exact h
      | cons im rest => exact ⟨rfl, rfl, (fun _ x => by cases x), (fun _ x => by cases x)⟩
    | lrestart => simp only [Ev.who]; exact ⟨rfl, rfl, (fun _ x => by cases x), (fun _ x => by cases x)⟩
    | gc =>
      simp only [Ev.who]
      have hg := syncGC_flags s
      have hl := syncGC_live s
      exact ⟨by rw [hg.1, hg.2.1]; exact h.eqa, by rw [hg.2.2.1, hg.2.2.2]; exact h.eqb,
        by rw [hg.1, hl.1, hl.2.2.1]; exact h.pla, by rw [hg.2.2.1, hl.2.1, hl.2.2.2]; exact h.plb⟩
    | expire =>
      simp only [Ev.who]
      have hg := expire_flags s
      have hl := expire_live s
      exact ⟨by rw [hg.1, hg.2.1]; exact h.eqa, by rw [hg.2.2.1, hg.2.2.2]; exact h.eqb,
        by rw [hg.1, hl.1]; exact fun x => h.pla (hl.2.2.1 x), by rw [hg.2.2.1, hl.2.1]; exact fun x => h.plb (hl.2.2.2 x)⟩

theorem tk_foldl (cfg : Cfg) (ht : cfg.tok = true) (evs : List Ev) : ∀ s, Full s → TK s →
    TK (evs.foldl (fun s e => (next cfg s e).1) s) := by
  induction evs with
  | nil => intro s _ h; exact h
  | cons e t ih => intro s hf h; exact ih _ (next_spec cfg s e hf).full (tk_next cfg ht s e hf h)

theorem tk_run (cfg : Cfg) (ht : cfg.tok = true) (evs : List Ev) : TK (run cfg evs) :=
  tk_foldl cfg ht evs _ full_init ⟨rfl, rfl, (fun _ x => by cases x), (fun _ x => by cases x)⟩

end LinVerif.Replication
