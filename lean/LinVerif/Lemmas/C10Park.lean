/-
C10 helper lemmas, part 7: a reader parked between taking a store's file snapshot and reading its
memory tables while placement steps (a whole flush, a compaction) run; the abstract `like` matcher.
-/
import LinVerif.Lemmas.C10Group

set_option linter.unusedSimpArgs false
set_option linter.unusedVariables false

namespace LinVerif.TagFilter
open LinVerif

/-- what a run of placement steps keeps: the query-relevant core, every view as a set, and every
entry that was in a FILE stays in a file (files are only added or merged) -/
structure StepsKeep (s1 s2 : State) : Prop where
  core : s2.core = s1.core
  valSeq : s2.valSeq = s1.valSeq
  dict : ∀ e, e ∈ s2.dict.all ↔ e ∈ s1.dict.all
  inv : ∀ e, e ∈ s2.inv.all ↔ e ∈ s1.inv.all
  fwd : ∀ e, e ∈ s2.fwd.all ↔ e ∈ s1.fwd.all
  dictFiles : ∀ e, e ∈ s1.dict.files.flatten → e ∈ s2.dict.files.flatten
  invFiles : ∀ e, e ∈ s1.inv.files.flatten → e ∈ s2.inv.files.flatten
  fwdFiles : ∀ e, (∃ f ∈ s1.fwd.files, e ∈ fileEntries f) → (∃ f ∈ s2.fwd.files, e ∈ fileEntries f)

theorem stepsKeep_refl (s : State) : StepsKeep s s :=
  ⟨rfl, rfl, fun _ => Iff.rfl, fun _ => Iff.rfl, fun _ => Iff.rfl, fun _ h => h, fun _ h => h, fun _ h => h⟩

theorem stepsKeep_trans {a b c : State} (h1 : StepsKeep a b) (h2 : StepsKeep b c) : StepsKeep a c :=
  ⟨h2.core.trans h1.core, h2.valSeq.trans h1.valSeq,
   fun e => (h2.dict e).trans (h1.dict e), fun e => (h2.inv e).trans (h1.inv e), fun e => (h2.fwd e).trans (h1.fwd e),
   fun e h => h2.dictFiles e (h1.dictFiles e h), fun e h => h2.invFiles e (h1.invFiles e h),
   fun e h => h2.fwdFiles e (h1.fwdFiles e h)⟩

theorem dict_files_step (d : Dict) (b : Bool) :
    (∀ e, e ∈ d.files.flatten → e ∈ (d.prepare b).files.flatten) ∧
    (∀ e, e ∈ d.files.flatten → e ∈ d.flush.files.flatten) ∧
    (∀ e, e ∈ d.files.flatten → e ∈ d.compact.files.flatten) := by
  refine ⟨?_, ?_, ?_⟩
  · intro e h
    unfold Dict.prepare
    cases hi : d.imm with
    | none => simpa [Dict.files] using h
    | some p => cases p with
      | nil => cases b <;> simpa [Dict.files] using h
      | cons x t => simpa [Dict.files] using h
  · intro e h
    unfold Dict.flush
    cases hi : d.imm with
    | none => simpa using h
    | some p => cases p with
      | nil => simpa using h
      | cons x t =>
        simp only [Dict.files, List.flatten_append, List.mem_append] at h ⊢
        rcases h with h | h
        · exact Or.inl (Or.inl h)
        · exact Or.inr h
  · intro e h
    unfold Dict.compact
    split
    · simpa [Dict.files] using h
    · exact h

theorem inv_files_step (d : Inv) (b : Bool) :
    (∀ e, e ∈ d.files.flatten → e ∈ (d.prepare b).files.flatten) ∧
    (∀ e, e ∈ d.files.flatten → e ∈ d.flush.files.flatten) ∧
    (∀ e, e ∈ d.files.flatten → e ∈ d.compact.files.flatten) ∧
    (∀ e, e ∈ d.files.flatten → e ∈ d.flushWrite.files.flatten) ∧
    (∀ e, e ∈ d.files.flatten → e ∈ d.flushFail.files.flatten) ∧
    (∀ e, e ∈ d.files.flatten → e ∈ d.flushCommit.files.flatten) ∧
    (∀ e, e ∈ d.files.flatten → e ∈ d.flushDrop.files.flatten) := by
  refine ⟨?_, ?_, ?_, ?_, ?_, ?_, ?_⟩
  · intro e h
    unfold Inv.prepare
    cases hi : d.imm with
    | none => simpa [Inv.files] using h
    | some p => cases p with
      | nil => cases b <;> simpa [Inv.files] using h
      | cons x t => simpa [Inv.files] using h
  · intro e h
    unfold Inv.flush
    split
    · exact h
    · unfold Inv.flushNow
      cases hi : d.imm with
      | none => simpa using h
      | some p => cases p with
        | nil => simpa using h
        | cons x t =>
          simp only [Inv.files, List.flatten_append, List.mem_append] at h ⊢
          rcases h with h | h
          · exact Or.inl (Or.inl h)
          · exact Or.inr h
  · intro e h
    unfold Inv.compact
    split
    · simpa [Inv.files] using h
    · exact h
  · intro e h
    unfold Inv.flushWrite
    split
    · exact h
    · split <;> exact h
  · intro e h
    unfold Inv.flushFail
    split <;> exact h
  · intro e h
    unfold Inv.flushCommit
    split
    · cases hi : d.imm with
      | none => simpa using h
      | some p =>
        simp only [Inv.files, List.flatten_append, List.mem_append] at h ⊢
        rcases h with h | h
        · exact Or.inl (Or.inl h)
        · exact Or.inr h
    · exact h
  · intro e h
    unfold Inv.flushDrop
    split <;> exact h

theorem fwd_files_mono_of_subset {d d' : Fwd} (h : ∀ f, f ∈ d.files → f ∈ d'.files) (e : KeyId × SeriesId × ValId) :
    (∃ f ∈ d.files, e ∈ fileEntries f) → (∃ f ∈ d'.files, e ∈ fileEntries f) := by
  rintro ⟨f, hf, he⟩
  exact ⟨f, h f hf, he⟩

/-- one placement step keeps views, core and file contents -/
theorem step_keeps {F : Flags} {st : State} (hl : LutSafe F st) (hp : PhaseOK st) (s : Step) :
    StepsKeep st (st.step F s) := by
  have hcore := step_core F st s
  have hval : (st.step F s).valSeq = st.valSeq := by cases s <;> rfl
  cases s with
  | prepareMeta =>
    exact ⟨hcore, hval, dict_prepare_all _ _, fun _ => Iff.rfl, fun _ => Iff.rfl,
      (dict_files_step st.dict _).1, fun _ h => h, fun _ h => h⟩
  | flushMeta =>
    exact ⟨hcore, hval, dict_flush_all _, fun _ => Iff.rfl, fun _ => Iff.rfl,
      (dict_files_step st.dict true).2.1, fun _ h => h, fun _ h => h⟩
  | compactMeta =>
    exact ⟨hcore, hval, dict_compact_all _, fun _ => Iff.rfl, fun _ => Iff.rfl,
      (dict_files_step st.dict true).2.2, fun _ h => h, fun _ h => h⟩
  | prepareIndex =>
    refine ⟨hcore, hval, fun _ => Iff.rfl, inv_prepare_all _ _, fwd_prepare_all _ _, fun _ h => h,
      (inv_files_step st.inv _).1, ?_⟩
    intro e
    apply fwd_files_mono_of_subset
    intro f hf
    simp only [State.step, Fwd.prepare]
    cases hi : st.fwd.imm with
    | none => simpa [Fwd.files] using hf
    | some p => cases p with
      | nil => cases F.prepareOnEmpty <;> simpa [Fwd.files] using hf
      | cons x t => simpa [Fwd.files] using hf
  | flushIndex =>
    refine ⟨hcore, hval, fun _ => Iff.rfl, inv_flush_all _, fwd_flush_all _, fun _ h => h,
      (inv_files_step st.inv true).2.1, ?_⟩
    intro e
    apply fwd_files_mono_of_subset
    intro f hf
    simp only [State.step, Fwd.flush]
    split
    · exact hf
    · unfold Fwd.flushNow
      cases hi : st.fwd.imm with
      | none => simpa using hf
      | some p => cases p with
        | nil => simpa using hf
        | cons x t =>
          simp only [Fwd.files, List.mem_append] at hf ⊢
          rcases hf with hf | hf
          · exact Or.inl (Or.inl hf)
          · exact Or.inr hf
  | compactIndex =>
    refine ⟨hcore, hval, fun _ => Iff.rfl, inv_compact_all _, fwd_compact_all _ hl.files, fun _ h => h,
      (inv_files_step st.inv true).2.2.1, ?_⟩
    intro e he
    simp only [State.step, Fwd.compact]
    split
    · refine ⟨mergeFwdFiles F.lutCumulative (st.fwd.l0 ++ st.fwd.l1), by simp [Fwd.files], ?_⟩
      have hok' : ∀ f ∈ st.fwd.l0 ++ st.fwd.l1, FileOK F.lutCumulative f := hl.files
      rw [mem_mergeFwdFiles hok']
      exact he
    · exact he
  | fwdWrite =>
    refine ⟨hcore, hval, fun _ => Iff.rfl, fun _ => Iff.rfl, fwd_flushWrite_all _, fun _ h => h, fun _ h => h, ?_⟩
    intro e
    apply fwd_files_mono_of_subset
    intro f hf
    simp only [State.step, Fwd.flushWrite]
    split
    · exact hf
    · split <;> exact hf
  | fwdFail =>
    refine ⟨hcore, hval, fun _ => Iff.rfl, fun _ => Iff.rfl, fwd_flushFail_all _, fun _ h => h, fun _ h => h, ?_⟩
    intro e
    apply fwd_files_mono_of_subset
    intro f hf
    simp only [State.step, Fwd.flushFail]
    split <;> exact hf
  | fwdCommit =>
    refine ⟨hcore, hval, fun _ => Iff.rfl, fun _ => Iff.rfl, fwd_flushCommit_all _, fun _ h => h, fun _ h => h, ?_⟩
    intro e
    apply fwd_files_mono_of_subset
    intro f hf
    simp only [State.step, Fwd.flushCommit]
    split
    · cases hi : st.fwd.imm with
      | none => simpa using hf
      | some p =>
        simp only [Fwd.files, List.mem_append] at hf ⊢
        rcases hf with hf | hf
        · exact Or.inl (Or.inl hf)
        · exact Or.inr hf
    · exact hf
  | fwdDrop =>
    refine ⟨hcore, hval, fun _ => Iff.rfl, fun _ => Iff.rfl, fwd_flushDrop_all hp.fwd, fun _ h => h, fun _ h => h, ?_⟩
    intro e
    apply fwd_files_mono_of_subset
    intro f hf
    simp only [State.step, Fwd.flushDrop]
    split <;> exact hf
  | invWrite =>
    exact ⟨hcore, hval, fun _ => Iff.rfl, inv_flushWrite_all _, fun _ => Iff.rfl, fun _ h => h,
      (inv_files_step st.inv true).2.2.2.1, fun _ h => h⟩
  | invFail =>
    exact ⟨hcore, hval, fun _ => Iff.rfl, inv_flushFail_all _, fun _ => Iff.rfl, fun _ h => h,
      (inv_files_step st.inv true).2.2.2.2.1, fun _ h => h⟩
  | invCommit =>
    exact ⟨hcore, hval, fun _ => Iff.rfl, inv_flushCommit_all _, fun _ => Iff.rfl, fun _ h => h,
      (inv_files_step st.inv true).2.2.2.2.2.1, fun _ h => h⟩
  | invDrop =>
    exact ⟨hcore, hval, fun _ => Iff.rfl, inv_flushDrop_all hp.inv, fun _ => Iff.rfl, fun _ h => h,
      (inv_files_step st.inv true).2.2.2.2.2.2, fun _ h => h⟩

/-- the placement steps as a history -/
def placeOps (steps : List Step) : List Op := steps.map Op.place

theorem placeOps_numWrites (steps : List Step) : numWrites (placeOps steps) = 0 := by
  induction steps with
  | nil => rfl
  | cons s t ih => simpa [placeOps, numWrites] using ih

theorem placeOps_valid (steps : List Step) : ValidOps (placeOps steps) := by
  intro m t h
  simp [placeOps] at h

/-- a run of placement steps from a reachable state keeps views, core and file contents -/
theorem steps_keep {F : Flags} (steps : List Step) {n : Nat} {st : State} (h : Reach F n st) :
    StepsKeep st (run F (placeOps steps) st) ∧ Reach F n (run F (placeOps steps) st) := by
  induction steps generalizing st with
  | nil => exact ⟨stepsKeep_refl st, h⟩
  | cons s t ih =>
    have h1 : Reach F n (st.step F s) :=
      ⟨step_good h.good h.lut h.phase s, step_lutSafe h.lut h.phase s, step_phaseOK h.lut h.phase s, by
        cases s <;> exact h.count⟩
    obtain ⟨k2, r2⟩ := ih h1
    simp only [placeOps, List.map_cons, run, List.foldl_cons, applyOp] at k2 r2 ⊢
    exact ⟨stepsKeep_trans (step_keeps h.lut h.phase s) k2, r2⟩

/-- the views of the hybrid stores a memory-first reader observes -/
theorem hybridDict_all {d1 d2 : Dict} (hall : ∀ e, e ∈ d2.all ↔ e ∈ d1.all)
    (hfiles : ∀ e, e ∈ d1.files.flatten → e ∈ d2.files.flatten) (e : KeyId × Bytes × ValId) :
    e ∈ (hybridDict true d1 d2).all ↔ e ∈ d1.all := by
  simp only [hybridDict, ite_true, mem_dict_all, Dict.files]
  constructor
  · rintro (h | h | h)
    · exact Or.inl h
    · exact Or.inr (Or.inl h)
    · exact mem_dict_all.mp ((hall e).mp (mem_dict_all.mpr (Or.inr (Or.inr h))))
  · rintro (h | h | h)
    · exact Or.inl h
    · exact Or.inr (Or.inl h)
    · exact Or.inr (Or.inr (hfiles e h))

theorem hybridInv_all {d1 d2 : Inv} (hall : ∀ e, e ∈ d2.all ↔ e ∈ d1.all)
    (hfiles : ∀ e, e ∈ d1.files.flatten → e ∈ d2.files.flatten) (e : ValId × SeriesId) :
    e ∈ (hybridInv true d1 d2).all ↔ e ∈ d1.all := by
  simp only [hybridInv, ite_true, mem_inv_all, Inv.files]
  constructor
  · rintro (h | h | h)
    · exact Or.inl h
    · exact Or.inr (Or.inl h)
    · exact mem_inv_all.mp ((hall e).mp (mem_inv_all.mpr (Or.inr (Or.inr h))))
  · rintro (h | h | h)
    · exact Or.inl h
    · exact Or.inr (Or.inl h)
    · exact Or.inr (Or.inr (hfiles e h))

theorem hybridFwd_all {d1 d2 : Fwd} (hall : ∀ e, e ∈ d2.all ↔ e ∈ d1.all)
    (hfiles : ∀ e, (∃ f ∈ d1.files, e ∈ fileEntries f) → (∃ f ∈ d2.files, e ∈ fileEntries f))
    (e : KeyId × SeriesId × ValId) :
    e ∈ (hybridFwd true d1 d2).all ↔ e ∈ d1.all := by
  simp only [hybridFwd, ite_true, mem_fwd_all, Fwd.files]
  constructor
  · rintro (h | h | h)
    · exact Or.inl h
    · exact Or.inr (Or.inl h)
    · exact mem_fwd_all.mp ((hall e).mp (mem_fwd_all.mpr (Or.inr (Or.inr h))))
  · rintro (h | h | h)
    · exact Or.inl h
    · exact Or.inr (Or.inl h)
    · exact Or.inr (Or.inr (hfiles e h))

/-- what a memory-first reader parked across placement steps observes is a well-formed index for the
same written series -/
theorem parked_wf {F : Flags} {n : Nat} {s1 : State} (h : Reach F n s1) (steps : List Step) (ro : ReadOrder)
    (pt : ParkPoint) (hro : ro.memFirstAt pt = true) :
    WF (parkedState ro pt s1 (run F (placeOps steps) s1)) ∧
    (parkedState ro pt s1 (run F (placeOps steps) s1)).core = s1.core := by
  obtain ⟨k, r⟩ := steps_keep (F := F) steps h
  obtain ⟨hsch, hks, hser, hwr⟩ := core_eq_iff.mp k.core
  cases pt with
  | dictFind =>
    refine ⟨(good_of_views (st' := parkedState ro .dictFind s1 (run F (placeOps steps) s1)) h.good hsch hks k.valSeq hser hwr
      (fun _ => Iff.rfl) k.inv k.fwd).wf, ?_⟩
    rw [core_eq_iff]; exact ⟨hsch, hks, hser, hwr⟩
  | dictScan =>
    simp only [ReadOrder.memFirstAt] at hro
    refine ⟨(good_of_views (st' := parkedState ro .dictScan s1 (run F (placeOps steps) s1)) h.good hsch hks k.valSeq hser hwr
      (by simp only [parkedState, hro]; exact hybridDict_all k.dict k.dictFiles) k.inv k.fwd).wf, ?_⟩
    rw [core_eq_iff]; exact ⟨hsch, hks, hser, hwr⟩
  | inverted =>
    simp only [ReadOrder.memFirstAt] at hro
    refine ⟨(good_of_views (st' := parkedState ro .inverted s1 (run F (placeOps steps) s1)) h.good hsch hks k.valSeq hser hwr
      k.dict (by simp only [parkedState, hro]; exact hybridInv_all k.inv k.invFiles) k.fwd).wf, ?_⟩
    rw [core_eq_iff]; exact ⟨hsch, hks, hser, hwr⟩
  | forward =>
    simp only [ReadOrder.memFirstAt] at hro
    refine ⟨(good_of_views (st' := parkedState ro .forward s1 (run F (placeOps steps) s1)) h.good hsch hks k.valSeq hser hwr
      k.dict k.inv (by simp only [parkedState, hro]; exact hybridFwd_all k.fwd k.fwdFiles)).wf, ?_⟩
    rw [core_eq_iff]; exact ⟨hsch, hks, hser, hwr⟩
  | values =>
    simp only [ReadOrder.memFirstAt] at hro
    refine ⟨(good_of_views (st' := parkedState ro .values s1 (run F (placeOps steps) s1)) h.good hsch hks k.valSeq hser hwr
      (by simp only [parkedState, hro]; exact hybridDict_all k.dict k.dictFiles) k.inv k.fwd).wf, ?_⟩
    rw [core_eq_iff]; exact ⟨hsch, hks, hser, hwr⟩
  | collect =>
    simp only [ReadOrder.memFirstAt] at hro
    refine ⟨(good_of_views (st' := parkedState ro .collect s1 (run F (placeOps steps) s1)) h.good hsch hks k.valSeq hser hwr
      (by simp only [parkedState, hro]; exact hybridDict_all k.dict k.dictFiles) k.inv k.fwd).wf, ?_⟩
    rw [core_eq_iff]; exact ⟨hsch, hks, hser, hwr⟩
  | suggest =>
    simp only [ReadOrder.memFirstAt] at hro
    refine ⟨(good_of_views (st' := parkedState ro .suggest s1 (run F (placeOps steps) s1)) h.good hsch hks k.valSeq hser hwr
      (by simp only [parkedState, hro]; exact hybridDict_all k.dict k.dictFiles) k.inv k.fwd).wf, ?_⟩
    rw [core_eq_iff]; exact ⟨hsch, hks, hser, hwr⟩
  | invGet =>
    simp only [ReadOrder.memFirstAt] at hro
    refine ⟨(good_of_views (st' := parkedState ro .invGet s1 (run F (placeOps steps) s1)) h.good hsch hks k.valSeq hser hwr
      k.dict (by simp only [parkedState, hro]; exact hybridInv_all k.inv k.invFiles) k.fwd).wf, ?_⟩
    rw [core_eq_iff]; exact ⟨hsch, hks, hser, hwr⟩
  | grouping =>
    simp only [ReadOrder.memFirstAt] at hro
    refine ⟨(good_of_views (st' := parkedState ro .grouping s1 (run F (placeOps steps) s1)) h.good hsch hks k.valSeq hser hwr
      k.dict k.inv (by simp only [parkedState, hro]; exact hybridFwd_all k.fwd k.fwdFiles)).wf, ?_⟩
    rw [core_eq_iff]; exact ⟨hsch, hks, hser, hwr⟩

/-- ... and its forward files are readable (`LutSafe`) -/
theorem parked_lutSafe {F : Flags} {n : Nat} {s1 : State} (h : Reach F n s1) (steps : List Step) (ro : ReadOrder)
    (pt : ParkPoint) (hro : ro.memFirstAt pt = true) :
    LutSafe F (parkedState ro pt s1 (run F (placeOps steps) s1)) := by
  obtain ⟨k, r⟩ := steps_keep (F := F) steps h
  have hyb : ∀ st' : State, st'.fwd = hybridFwd true s1.fwd (run F (placeOps steps) s1).fwd → LutSafe F st' := by
    intro st' hst
    constructor
    · intro f hf
      rw [hst] at hf
      exact r.lut.files f (by simpa [hybridFwd, Fwd.files] using hf)
    · intro hc e he
      rw [hst] at he
      exact h.lut.small hc e ((hybridFwd_all k.fwd k.fwdFiles e).mp he)
  have same : ∀ st' : State, st'.fwd = (run F (placeOps steps) s1).fwd → LutSafe F st' := by
    intro st' hst
    exact ⟨by rw [hst]; exact r.lut.files, by rw [hst]; exact r.lut.small⟩
  cases pt with
  | forward => simp only [ReadOrder.memFirstAt] at hro; exact hyb _ (by simp [parkedState, hro])
  | grouping => simp only [ReadOrder.memFirstAt] at hro; exact hyb _ (by simp [parkedState, hro])
  | dictFind => exact same _ rfl
  | dictScan => exact same _ rfl
  | inverted => exact same _ rfl
  | values => exact same _ rfl
  | collect => exact same _ rfl
  | suggest => exact same _ rfl
  | invGet => exact same _ rfl

theorem mem_dict_values {d : Dict} {kid : KeyId} {id : ValId} :
    id ∈ d.values kid ↔ ∃ v, (kid, v, id) ∈ d.all := by
  unfold Dict.values
  simp only [List.mem_map, List.mem_filter, List.mem_append, beq_iff_eq, mem_dict_all]
  constructor
  · rintro ⟨⟨a, b, c⟩, ⟨hm, hk⟩, rfl⟩
    simp at hk; subst hk
    rcases hm with (hm | hm) | hm
    · exact ⟨b, Or.inr (Or.inr hm)⟩
    · exact ⟨b, Or.inl hm⟩
    · exact ⟨b, Or.inr (Or.inl hm)⟩
  · rintro ⟨v, hm⟩
    refine ⟨(kid, v, id), ⟨?_, rfl⟩, rfl⟩
    rcases hm with hm | hm | hm
    · exact Or.inl (Or.inr hm)
    · exact Or.inr hm
    · exact Or.inl (Or.inl hm)

/-! ### the abstract `like` matcher -/

theorem isInfix_iff (sub v : Bytes) : isInfix sub v = true ↔ ∃ pre suf, v = pre ++ sub ++ suf := by
  induction v with
  | nil =>
    simp only [isInfix, List.isEmpty_iff]
    constructor
    · intro h; subst h; exact ⟨[], [], rfl⟩
    · rintro ⟨pre, suf, h⟩
      have := congrArg List.length h
      simp at this
      exact List.eq_nil_of_length_eq_zero (by omega)
  | cons x xs ih =>
    simp only [isInfix, Bool.or_eq_true, ih]
    constructor
    · rintro (h | ⟨pre, suf, h⟩)
      · obtain ⟨suf, hs⟩ := List.isPrefixOf_iff_prefix.mp h
        exact ⟨[], suf, by simpa using hs.symm⟩
      · exact ⟨x :: pre, suf, by simp [h]⟩
    · rintro ⟨pre, suf, h⟩
      cases pre with
      | nil =>
        left
        exact List.isPrefixOf_iff_prefix.mpr ⟨suf, by simpa using h.symm⟩
      | cons y pre' =>
        right
        simp at h
        exact ⟨pre', suf, by simpa using h.2⟩

theorem isSuffixOf_iff (a v : Bytes) : a.isSuffixOf v = true ↔ ∃ pre, v = pre ++ a := by
  rw [List.isSuffixOf_iff_suffix]
  constructor
  · rintro ⟨pre, h⟩; exact ⟨pre, h.symm⟩
  · rintro ⟨pre, h⟩; exact ⟨pre, h.symm⟩

theorem isPrefixOf_iff (a v : Bytes) : a.isPrefixOf v = true ↔ ∃ suf, v = a ++ suf := by
  rw [List.isPrefixOf_iff_prefix]
  constructor
  · rintro ⟨suf, h⟩; exact ⟨suf, h.symm⟩
  · rintro ⟨suf, h⟩; exact ⟨suf, h.symm⟩

/-- the executable reference matcher decides the abstract `like` -/
theorem likeRef_iff (p v : Bytes) : likeRef p v = true ↔ LikeMatch p v := by
  unfold LikeMatch
  by_cases hp : p = []
  · subst hp; simp [likeRef]
  · have hne : (p == []) = false := by simpa using hp
    simp only [likeRef, hne, Bool.false_eq_true, ite_false, ne_eq, hp, not_false_eq_true, true_and]
    cases hl : likeLead p <;> cases ht : likeTrail p
    · -- exact
      have h1 : (p.head? == some star) = false := hl
      have h2 : (p.getLast? == some star) = false := by simpa [likeTrail, hl] using ht
      simp only [h1, h2, likeCore, hl, ht, Bool.false_eq_true, ite_false]
      constructor
      · intro h; exact ⟨[], [], by simpa using h, fun _ => rfl, fun _ => rfl⟩
      · rintro ⟨pre, suf, h, h3, h4⟩
        rw [h3 trivial, h4 trivial] at h
        simpa using h
    · -- prefix*
      have h1 : (p.head? == some star) = false := hl
      have h2 : (p.getLast? == some star) = true := by simpa [likeTrail, hl] using ht
      simp only [h1, h2, likeCore, hl, ht, Bool.false_eq_true, ite_false, ite_true]
      rw [isPrefixOf_iff]
      constructor
      · rintro ⟨suf, h⟩; exact ⟨[], suf, by simpa using h, fun _ => rfl, (fun h => (by cases h))⟩
      · rintro ⟨pre, suf, h, h3, _⟩
        rw [h3 trivial] at h
        exact ⟨suf, by simpa using h⟩
    · -- *suffix
      have h1 : (p.head? == some star) = true := hl
      have h2 : (p.tail.getLast? == some star) = false := by simpa [likeTrail, hl] using ht
      simp only [h1, h2, likeCore, hl, ht, Bool.false_eq_true, ite_false, ite_true]
      rw [isSuffixOf_iff]
      constructor
      · rintro ⟨pre, h⟩; exact ⟨pre, [], by simpa using h, (fun h => (by cases h)), fun _ => rfl⟩
      · rintro ⟨pre, suf, h, _, h4⟩
        rw [h4 trivial] at h
        exact ⟨pre, by simpa using h⟩
    · -- *middle*
      have h1 : (p.head? == some star) = true := hl
      have h2 : (p.tail.getLast? == some star) = true := by simpa [likeTrail, hl] using ht
      simp only [h1, h2, likeCore, hl, ht, ite_true]
      rw [isInfix_iff]
      constructor
      · rintro ⟨pre, suf, h⟩; exact ⟨pre, suf, h, (fun h => (by cases h)), (fun h => (by cases h))⟩
      · rintro ⟨pre, suf, h, _, _⟩; exact ⟨pre, suf, h⟩

/-! ### trie blocks: the split loses no key and reads do not depend on it -/

theorem numBlocks_mul_ge (len bs : Nat) (hbs : 0 < bs) : len ≤ numBlocks len bs * bs := by
  unfold numBlocks
  have h := Nat.div_add_mod len bs
  have hm := Nat.mod_lt len hbs
  by_cases h0 : len % bs = 0
  · simp only [h0, ne_eq, not_true_eq_false, ite_false, Nat.add_zero]
    rw [h0, Nat.add_zero] at h
    rw [Nat.mul_comm]; omega
  · simp only [h0, ne_eq, not_false_eq_true, ite_true]
    rw [Nat.add_mul, Nat.one_mul, Nat.mul_comm (len / bs) bs]
    omega

theorem flatten_range_blocks {α : Type} (bs : Nat) (l : List α) (j : Nat) :
    ((List.range j).map (fun i => (l.drop (i * bs)).take bs)).flatten = l.take (j * bs) := by
  induction j with
  | zero => simp
  | succ j ih =>
    rw [List.range_succ, List.map_append, List.flatten_append, ih]
    simp only [List.map_cons, List.map_nil, List.flatten_cons, List.flatten_nil, List.append_nil]
    rw [Nat.succ_mul, List.take_add]

/-- **blocks_cover**: cutting a bucket's sorted entries into blocks of `bs > 0` keys keeps every
entry, in order (with `numBlocks = len / bs` alone the tail `len % bs` would be lost) -/
theorem blocks_cover {α : Type} (bs : Nat) (hbs : 0 < bs) (l : List α) : (blocksOf bs l).flatten = l := by
  unfold blocksOf
  rw [flatten_range_blocks]
  exact List.take_of_length_le (numBlocks_mul_ge l.length bs hbs)

theorem partFind_append (a b : DictPart) (kid : KeyId) (v : Bytes) :
    partFind (a ++ b) kid v = match partFind a kid v with
      | some id => some id
      | none => partFind b kid v := by
  unfold partFind
  rw [List.find?_append]
  cases List.find? (fun e => e.1 == kid && e.2.1 == v) a <;> simp

/-- block-by-block `GetValue` = lookup in the concatenation -/
theorem blocksFind_flatten (blocks : List DictPart) (kid : KeyId) (v : Bytes) :
    blocksFind blocks kid v = partFind blocks.flatten kid v := by
  induction blocks with
  | nil => simp [blocksFind, partFind]
  | cons b t ih =>
    simp only [blocksFind, List.flatten_cons, partFind_append, ih]
    cases partFind b kid v <;> rfl

/-- block-by-block scan = scan of the concatenation -/
theorem blocksScan_flatten (blocks : List DictPart) (kid : KeyId) (pre : Bytes) (check : Bytes → Bool) :
    blocksScan blocks kid pre check =
      (blocks.flatten.filter (fun e => e.1 == kid && pre.isPrefixOf e.2.1 && check e.2.1)).map (·.2.2) := by
  induction blocks with
  | nil => simp [blocksScan]
  | cons b t ih =>
    unfold blocksScan at ih ⊢
    simp only [List.flatMap_cons, List.flatten_cons, List.filter_append, List.map_append, ih]

end LinVerif.TagFilter
