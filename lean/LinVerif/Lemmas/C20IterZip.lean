/-
C20 helper lemmas, iteration: a zipper view of the in-order traversal of a trie tree. A stack of
frames (one per level, deepest first) names the current leaf; `zNext` is the successor step the Go
iterator performs (`Next`: climb while at the end of a node, step right, descend leftmost), and
`remAfter` is what is still to be enumerated after the current leaf.
-/
import LinVerif.Lemmas.C20LoudsGet

set_option linter.unusedSimpArgs false
set_option linter.unusedVariables false

namespace LinVerif.Lemmas.C20
open LinVerif.TrieTree LinVerif.Louds

/-- one level of the iterator's stack: the node (with its level-order index `n`), the key bytes
up to and including the node's prefix, and the position inside the node's row -/
structure Frame where
  node : Node
  n : Nat
  kb : Key
  before : List Item
  cur : Item
  after : Entries

/-- the label position of the frame in the label vector -/
def Frame.pos (t : Node) (fr : Frame) : Nat := offset t fr.n + fr.before.length

/-- the pair a frame standing on a leaf denotes (`Iterator.Key` / `Value`) -/
def Frame.kv (fr : Frame) : KV :=
  match fr.cur with
  | .leaf l suf v => if l == labelTerminator && !fr.after.isNil then (fr.kb ++ suf, v) else (fr.kb ++ l :: suf, v)
  | .child _ _ => (fr.kb, 0)

/-- everything still to come after the current item of each frame, deepest frame first -/
def remAfter : List Frame → List KV
  | [] => []
  | fr :: below => iterEntries fr.kb fr.after ++ remAfter below

theorem remAfter_append (a b : List Frame) : remAfter (a ++ b) = remAfter a ++ remAfter b := by
  induction a with
  | nil => rfl
  | cons fr r ih => simp [remAfter, ih]

/-- the frames pushed by `moveToLeftMostKey` below a node (deepest first); `n` = the node's
level-order index -/
def leftmost (t : Node) : Node → Nat → Key → List Frame
  | .mk pfx .nil, _, _ => []
  | .mk pfx (.leaf l s v r), n, base =>
    [{ node := .mk pfx (.leaf l s v r), n := n, kb := base ++ pfx, before := [], cur := .leaf l s v, after := r }]
  | .mk pfx (.child l c r), n, base =>
    leftmost t c (childNodeID (encode t) (offset t n)) (base ++ pfx ++ [l]) ++
      [{ node := .mk pfx (.child l c r), n := n, kb := base ++ pfx, before := [], cur := .child l c, after := r }]

/-- step right inside the node of frame `fr` (whose `after` starts with the given entry) -/
def Frame.advance (fr : Frame) (it : Item) (r : Entries) : Frame :=
  { fr with before := fr.before ++ [fr.cur], cur := it, after := r }

/-- `Iterator.Next` on the zipper -/
def zNext (t : Node) : List Frame → Option (List Frame)
  | [] => none
  | fr :: below =>
    match fr.after with
    | .nil => zNext t below
    | .leaf l s v r => some (fr.advance (.leaf l s v) r :: below)
    | .child l c r =>
      some (leftmost t c (childNodeID (encode t) (fr.pos t + 1)) (fr.kb ++ [l]) ++ (fr.advance (.child l c) r :: below))

/-- a stack whose deepest frame stands on a leaf -/
def topKV : List Frame → Option KV
  | [] => none
  | fr :: _ => some fr.kv

/-! ### leftmost descent enumerates the node -/

theorem leftmost_spec (t : Node) : ∀ (c : Node) (n : Nat) (base : Key), WFNode c →
    ∃ top rest, leftmost t c n base = top :: rest ∧ (∃ l s v, top.cur = .leaf l s v) ∧
      iterNode base c = top.kv :: remAfter (leftmost t c n base)
  | .mk pfx .nil, _, _, h => by simp [WFNode, WFRow] at h
  | .mk pfx (.leaf l s v r), n, base, h => by
    refine ⟨_, [], rfl, ⟨l, s, v, rfl⟩, ?_⟩
    simp only [iterNode, iterEntries, leftmost, remAfter, Frame.kv, List.append_nil]
  | .mk pfx (.child l c r), n, base, h => by
    unfold WFNode WFRow at h
    obtain ⟨top, rest, h1, h2, h3⟩ := leftmost_spec t c (childNodeID (encode t) (offset t n)) (base ++ pfx ++ [l]) h.2.2.1
    refine ⟨top, rest ++ [_], by rw [leftmost, h1]; rfl, h2, ?_⟩
    simp only [iterNode, iterEntries, leftmost, remAfter_append, remAfter, List.append_nil]
    rw [h3]
    simp

/-- one `Next` step consumes exactly the head of what was still to come -/
theorem zNext_spec (t : Node) : ∀ (frames : List Frame),
    (∀ fr ∈ frames, ∀ l c r, fr.after = .child l c r → WFNode c) →
    match zNext t frames with
    | none => remAfter frames = []
    | some frames' => ∃ top rest, frames' = top :: rest ∧ (∃ l s v, top.cur = .leaf l s v) ∧
        remAfter frames = top.kv :: remAfter frames'
  | [], _ => by simp [zNext, remAfter]
  | fr :: below, hwf => by
    have ih := zNext_spec t below (fun f hf => hwf f (List.mem_cons_of_mem _ hf))
    cases hfa : fr.after with
    | nil =>
      simp only [zNext, hfa, remAfter, iterEntries, List.nil_append]
      exact ih
    | leaf l s v r =>
      simp only [zNext, hfa]
      refine ⟨_, below, rfl, ⟨l, s, v, rfl⟩, ?_⟩
      simp only [remAfter, hfa, iterEntries, Frame.advance, Frame.kv, List.cons_append]
      rfl
    | child l c r =>
      simp only [zNext, hfa]
      have hc : WFNode c := hwf fr (List.mem_cons_self ..) l c r hfa
      obtain ⟨top, rest, h1, h2, h3⟩ := leftmost_spec t c (childNodeID (encode t) (fr.pos t + 1)) (fr.kb ++ [l]) hc
      refine ⟨top, rest ++ (fr.advance (.child l c) r :: below), by rw [h1]; rfl, h2, ?_⟩
      simp only [remAfter, hfa, iterEntries, remAfter_append, Frame.advance]
      rw [h3]
      simp

end LinVerif.Lemmas.C20
