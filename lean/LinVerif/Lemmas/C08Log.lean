/-
C08 helper lemmas, part 1: the queue abstraction (`Log`): `get` under `put`, `setAppended`,
`setAck`; the "no holes" predicate.
-/
import LinVerif.Model.Replication

namespace LinVerif.Replication

/-- every position the queue claims to hold (`ack < i ≤ app`) is readable -/
def NoHoles (l : Log) : Prop := ∀ i, l.ack < i → i ≤ l.app → ∃ m, l.get i = some m

theorem lookup_cons_ne {k i : Int} {m : Msg} {t : List (Int × Msg)} (h : k ≠ i) :
    lookup i ((k, m) :: t) = lookup i t := by
  simp [lookup, h]

theorem lookup_cons_eq {i : Int} {m : Msg} {t : List (Int × Msg)} :
    lookup i ((i, m) :: t) = some m := by
  simp [lookup]

theorem get_eq_lookup {l : Log} {i : Int} (h1 : l.ack < i) (h2 : i ≤ l.app) :
    l.get i = lookup i l.store := by
  simp [Log.get, h1, h2]

theorem get_some {l : Log} {i : Int} {m : Msg} (h : l.get i = some m) :
    l.ack < i ∧ i ≤ l.app ∧ lookup i l.store = some m := by
  unfold Log.get at h
  split at h
  · rename_i hc; exact ⟨hc.1, hc.2, h⟩
  · cases h

theorem get_none_of_gt {l : Log} {i : Int} (h : l.app < i) : l.get i = none := by
  unfold Log.get
  split
  · rename_i hc; omega
  · rfl

theorem get_put_ne {l : Log} {m : Msg} {i : Int} (h : i ≠ l.app + 1) :
    (l.put m).get i = l.get i := by
  unfold Log.get Log.put
  simp only
  by_cases h1 : l.ack < i ∧ i ≤ l.app
  · have h2 : l.ack < i ∧ i ≤ l.app + 1 := ⟨h1.1, by omega⟩
    rw [if_pos h1, if_pos h2, lookup_cons_ne (by omega)]
  · have h2 : ¬ (l.ack < i ∧ i ≤ l.app + 1) := by
      intro hc; apply h1; exact ⟨hc.1, by omega⟩
    rw [if_neg h1, if_neg h2]

theorem get_put_eq {l : Log} {m : Msg} (h : l.ack ≤ l.app) :
    (l.put m).get (l.app + 1) = some m := by
  unfold Log.get Log.put
  simp only
  rw [if_pos ⟨by omega, by omega⟩, lookup_cons_eq]

theorem get_setAppended {l : Log} {k i : Int} : (l.setAppended k).get i = none := by
  unfold Log.get Log.setAppended
  simp only
  split
  · rename_i hc; omega
  · rfl

theorem get_setAck_some {l : Log} {a i : Int} {m : Msg} (h : (l.setAck a).get i = some m) :
    l.get i = some m := by
  unfold Log.setAck at h
  split at h
  · rename_i hc
    have hb := get_some h
    simp only at hb
    rw [get_eq_lookup (by omega) hb.2.1]; exact hb.2.2
  · exact h

theorem setAck_app {l : Log} {a : Int} : (l.setAck a).app = l.app := by
  unfold Log.setAck; split <;> rfl

theorem setAck_store {l : Log} {a : Int} : (l.setAck a).store = l.store := by
  unfold Log.setAck; split <;> rfl

theorem setAck_ack_cases {l : Log} {a : Int} :
    ((l.setAck a).ack = a ∧ l.ack < a ∧ a ≤ l.app) ∨ (l.setAck a).ack = l.ack := by
  unfold Log.setAck
  split
  · rename_i hc; exact Or.inl ⟨rfl, hc.1, hc.2⟩
  · exact Or.inr rfl

theorem noHoles_empty : NoHoles Log.empty := by
  intro i h1 h2; simp [Log.empty] at h1 h2; omega

theorem noHoles_put {l : Log} {m : Msg} (h : NoHoles l) (hle : l.ack ≤ l.app) : NoHoles (l.put m) := by
  intro i h1 h2
  by_cases hi : i = l.app + 1
  · subst hi; exact ⟨m, get_put_eq hle⟩
  · rw [get_put_ne hi]
    simp only [Log.put] at h1 h2
    exact h i h1 (by omega)

theorem noHoles_setAppended {l : Log} {k : Int} : NoHoles (l.setAppended k) := by
  intro i h1 h2; simp only [Log.setAppended] at h1 h2; omega

theorem noHoles_setAck {l : Log} {a : Int} (h : NoHoles l) : NoHoles (l.setAck a) := by
  intro i h1 h2
  unfold Log.setAck at h1 h2 ⊢
  split
  · rename_i hc
    rw [if_pos hc] at h1 h2
    simp only at h1 h2
    obtain ⟨m, hm⟩ := h i (by omega) h2
    refine ⟨m, ?_⟩
    have hb := get_some hm
    rw [get_eq_lookup (by simpa using h1) (by simpa using h2)]
    exact hb.2.2
  · rename_i hc
    rw [if_neg hc] at h1 h2
    exact h i h1 h2

end LinVerif.Replication
