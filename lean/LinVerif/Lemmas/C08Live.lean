/-
C08 helper lemmas, part 3: post-conditions of a fault-free `partition.replica` call
("the channel resynchronises without operator action").
-/
import LinVerif.Lemmas.C08Inv

namespace LinVerif.Replication

/-- without an injected fault the handshake always succeeds (the double check cannot fail) -/
theorem handshake_none_ok (cfg : Cfg) (s : St) : (handshake cfg s .none).2 = true := by
  unfold handshake
  dsimp only
  rw [if_neg (by intro e; cases e), if_neg (by intro e; cases e)]
  split
  · rfl
  split
  · rw [if_neg (by intro e; cases e)]
  · have hc : ∀ t : St, ∀ a : Int, (ackGroup t a).cons = t.cons := by
      intro t a; unfold ackGroup; split <;> rfl
    rw [if_pos]
    rw [hc]
    simp only [resetReplicaIndex]
    omega

theorem sendPhase_none_keeps (s : St) (hr : s.chan = .ready) (hu : s.stream = .up) :
    (sendPhase s .none).1.chan = .ready ∧ (sendPhase s .none).1.stream = .up := by
  have hag : ∀ t : St, ∀ a : Int, (ackGroup t a).chan = t.chan ∧ (ackGroup t a).stream = t.stream := by
    intro t a; unfold ackGroup; split <;> exact ⟨rfl, rfl⟩
  unfold sendPhase consume
  dsimp only
  split
  · dsimp only
    split
    · exact ⟨hr, hu⟩
    · split
      · unfold ignoreMessage
        split
        · rw [(hag _ _).1, (hag _ _).2]; exact ⟨hr, hu⟩
        · exact ⟨hr, hu⟩
      · unfold replicaSend replicaLog
        dsimp only
        rw [if_neg (by rw [hu]; simp)]
        rw [if_neg (by intro e; cases e)]
        split
        · split
          · rw [(hag _ _).1, (hag _ _).2]; exact ⟨hr, hu⟩
          · exact ⟨hr, hu⟩
        · split
          · rw [(hag _ _).1, (hag _ _).2]; exact ⟨hr, hu⟩
          · exact ⟨hr, hu⟩
  · dsimp only
    split
    · exact ⟨hr, hu⟩
    · split <;> simp_all

/-- a fault-free `partition.replica` call on a non-ready channel whose follower is live ends synced -/
theorem replicaStep_none_syncs (cfg : Cfg) (s : St) (h : Inv s) (hn : s.chan ≠ .ready) (hl : s.live = true) :
    Synced (replicaStep cfg s .none).1 := by
  have hs := handshake_spec cfg s .none h
  have hok := handshake_none_ok cfg s
  have h1 := hs.ok_ready hok
  have hir : isReady cfg s .none = handshake cfg s .none := by
    unfold isReady; rw [if_neg hn, if_neg (by rw [hl]; simp)]
  unfold replicaStep
  rw [hir]
  generalize handshake cfg s .none = r at hok h1
  obtain ⟨s1, ok⟩ := r
  dsimp only at hok h1 ⊢
  subst hok
  rw [if_pos rfl]
  have hc : connect s1 .none = ({ s1 with stream := .up, chan := .ready }, true) := by
    unfold connect
    rw [if_neg (by rw [h1.2.1]; simp), if_neg (by intro e; cases e)]
  rw [hc]
  dsimp only
  rw [if_pos rfl]
  exact sendPhase_none_keeps _ rfl rfl

/-- a fault-free call on a synced channel stays synced -/
theorem replicaStep_none_stays (cfg : Cfg) (s : St) (hs : Synced s) : Synced (replicaStep cfg s .none).1 := by
  have hir : isReady cfg s .none = (s, true) := by unfold isReady; rw [if_pos hs.1]
  have hc : connect s .none = (s, true) := by
    unfold connect; rw [if_pos (by rw [hs.2]; simp)]
  unfold replicaStep
  rw [hir]
  dsimp only
  rw [if_pos rfl, hc]
  dsimp only
  rw [if_pos rfl]
  exact sendPhase_none_keeps s hs.1 hs.2

end LinVerif.Replication
