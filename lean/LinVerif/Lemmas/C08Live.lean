/-
C08 helper lemmas, part 5: post-conditions of a fault-free `partition.replica` call
("the channel resynchronises without operator action").
-/
import LinVerif.Lemmas.C08Run

namespace LinVerif.Replication

/-- without an injected fault the handshake always succeeds (the double check cannot fail) -/
theorem handshake_none_ok (cfg : Cfg) (s : St) : (handshake cfg s .none).2 = true := by
  unfold handshake
  dsimp only
  rw [if_neg (by intro e; cases e), if_neg (by intro e; cases e)]
  split
  · rfl
  split
  · rw [if_neg (by intro e; cases e)]
  · have hc : ∀ t : St, ∀ a : Int, (ackGroup t a).cons = t.cons := by
      intro t a; unfold ackGroup; split <;> rfl
    rw [if_pos]
    rw [hc]
    simp only [resetReplicaIndex]
    omega

theorem ackGroup_flags (t : St) (a : Int) :
    (ackGroup t a).live = t.live ∧ (ackGroup t a).susp = t.susp ∧ (ackGroup t a).stopped = t.stopped ∧
    (ackGroup t a).gone = t.gone ∧ (ackGroup t a).L = t.L ∧ (ackGroup t a).chan = t.chan ∧
    (ackGroup t a).stream = t.stream ∧ (ackGroup t a).F = t.F ∧ (ackGroup t a).cons = t.cons := by
  unfold ackGroup; split <;> exact ⟨rfl, rfl, rfl, rfl, rfl, rfl, rfl, rfl, rfl⟩

/-- a fault-free send phase on a channel that is ready on a live stream with the replica index at the
follower's next index keeps all three (either shape of Replica's else-branch: it is not reached) -/
theorem sendPhase_none_sync (cfg : Cfg) (s : St) (hr : s.chan = .ready) (hu : s.stream = .up) (hc : s.cons = s.F.app)
    (hcl : s.closed = false) (hc1 : -1 ≤ s.cons) (hget : s.cons + 1 ≤ s.L.app → ∃ m, s.L.get (s.cons + 1) = some m) :
    (sendPhase cfg s .none).1.chan = .ready ∧ (sendPhase cfg s .none).1.stream = .up ∧
    (sendPhase cfg s .none).1.cons = (sendPhase cfg s .none).1.F.app ∧ (sendPhase cfg s .none).1.closed = false := by
  have hag := ackGroup_flags
  have hagc : ∀ (t : St) (a : Int), (ackGroup t a).closed = t.closed := fun t a => by unfold ackGroup; split <;> rfl
  unfold sendPhase consume
  by_cases hd : s.cons + 1 ≤ s.L.app
  · obtain ⟨m, hm⟩ := hget hd
    rw [if_pos hd]
    dsimp only
    rw [if_neg (by omega : ¬ s.cons + 1 < 0), hm]
    dsimp only
    unfold replicaSend replicaLog
    dsimp only
    rw [if_neg (by rw [hu]; simp)]
    have eor : ∀ b : Bool, (s.closed || b) = b := fun b => by rw [hcl]; rfl
    simp only [if_neg (by rw [hcl]; simp : ¬ s.closed = true), eor, Bool.false_eq_true, if_false, reduceCtorEq,
      decide_false, false_and, true_and]
    rw [if_neg (by omega : ¬ (s.cons + 1 ≠ s.F.app + 1))]
    dsimp only
    rw [if_pos (by omega : s.F.app + 1 = s.cons + 1)]
    simp only [(hag _ _).2.2.2.2.2.1, (hag _ _).2.2.2.2.2.2.1, (hag _ _).2.2.2.2.2.2.2.1, (hag _ _).2.2.2.2.2.2.2.2, hagc]
    exact ⟨hr, hu, by simp only [Log.put]; omega, hcl⟩
  · rw [if_neg hd]
    dsimp only
    rw [if_pos (by decide)]
    exact ⟨hr, hu, hc, hcl⟩

/-- what `sendPhase_none_sync` needs about the leader's log, from the invariant -/
theorem hget_of_inv {s : St} (h : InvA s) (hst : s.stopped = false) :
    -1 ≤ s.cons ∧ (s.cons + 1 ≤ s.L.app → ∃ m, s.L.get (s.cons + 1) = some m) :=
  ⟨lint_cons_ge h.lint, fun hd => h.lint.holes (s.cons + 1) (by have := h.ackg hst; have := h.lint.gack_cons; omega) hd⟩

/-- the tree as it is (Replica's else-branch keeps the state): a fault-free send phase keeps
`ready` on a live stream whatever the replica index is -/
theorem sendPhase_none_keeps (cfg : Cfg) (s : St) (hr : s.chan = .ready) (hu : s.stream = .up) (hm : cfg.mfail = false) :
    (sendPhase cfg s .none).1.chan = .ready ∧ (sendPhase cfg s .none).1.stream = .up := by
  have hag : ∀ t : St, ∀ a : Int, (ackGroup t a).chan = t.chan ∧ (ackGroup t a).stream = t.stream := by
    intro t a; exact ⟨(ackGroup_flags t a).2.2.2.2.2.1, (ackGroup_flags t a).2.2.2.2.2.2.1⟩
  unfold sendPhase consume
  dsimp only
  split
  · dsimp only
    split
    · exact ⟨hr, hu⟩
    · split
      · unfold ignoreMessage
        split
        · rw [(hag _ _).1, (hag _ _).2]; exact ⟨hr, hu⟩
        · exact ⟨hr, hu⟩
      · unfold replicaSend replicaLog
        dsimp only
        rw [if_neg (by rw [hu]; simp)]
        simp only [hm, Bool.false_eq_true, if_false, reduceCtorEq, decide_false]
        repeat' split
        all_goals (first | exact ⟨hr, hu⟩ | (rw [(hag _ _).1, (hag _ _).2]; exact ⟨hr, hu⟩))
  · dsimp only
    split
    · exact ⟨hr, hu⟩
    · split <;> simp_all

/-- a fault-free `partition.replica` call on a non-ready channel whose follower is live ends synced -/
theorem replicaStep_none_syncs' (cfg : Cfg) (s : St) (h : InvA s) (hst : s.stopped = false) (hn : s.chan ≠ .ready) (hl : s.live = true) :
    Synced (replicaStep cfg s .none).1 ∧ (replicaStep cfg s .none).1.cons = (replicaStep cfg s .none).1.F.app ∧
    (replicaStep cfg s .none).1.closed = false := by
  have hs := handshake_spec cfg s .none h
  have hok := handshake_none_ok cfg s
  have h1 := hs.ok_ready hok
  have hir : isReady cfg s .none = handshake cfg s .none := by
    unfold isReady; rw [if_neg hn, if_neg (by rw [hl]; simp)]
  unfold replicaStep
  rw [hir]
  have hs1inv := hs.inv
  have hs1own := hs.own.1
  generalize handshake cfg s .none = r at hok h1 hs1inv hs1own
  obtain ⟨s1, ok⟩ := r
  dsimp only at hok h1 hs1inv hs1own ⊢
  subst hok
  rw [if_pos rfl]
  have hc : connect s1 .none = ({ s1 with stream := .up, chan := .ready, closed := false }, true) := by
    unfold connect
    rw [if_neg (by rw [h1.2.1]; simp), if_neg (by intro e; cases e)]
  rw [hc]
  dsimp only
  rw [if_pos rfl]
  have hg := hget_of_inv hs1inv (hs1own.trans hst)
  have := sendPhase_none_sync cfg { s1 with stream := .up, chan := .ready, closed := false } rfl rfl h1.2.2.1 rfl hg.1 hg.2
  exact ⟨⟨this.1, this.2.1⟩, this.2.2.1, this.2.2.2⟩

theorem replicaStep_none_syncs (cfg : Cfg) (s : St) (h : InvA s) (hst : s.stopped = false) (hn : s.chan ≠ .ready) (hl : s.live = true) :
    Synced (replicaStep cfg s .none).1 := (replicaStep_none_syncs' cfg s h hst hn hl).1

/-- a fault-free call on a synced channel whose replica index is the follower's next index stays so -/
theorem replicaStep_none_stays' (cfg : Cfg) (s : St) (h : InvA s) (hst : s.stopped = false) (hs : Synced s) (hc : s.cons = s.F.app)
    (hcl : s.closed = false) :
    Synced (replicaStep cfg s .none).1 ∧ (replicaStep cfg s .none).1.cons = (replicaStep cfg s .none).1.F.app := by
  have hir : isReady cfg s .none = (s, true) := by unfold isReady; rw [if_pos hs.1]
  have hcn : connect s .none = (s, true) := by
    unfold connect; rw [if_pos (by rw [hs.2]; simp)]
  unfold replicaStep
  rw [hir]
  dsimp only
  rw [if_pos rfl, hcn]
  dsimp only
  rw [if_pos rfl]
  have hg := hget_of_inv h hst
  have := sendPhase_none_sync cfg s hs.1 hs.2 hc hcl hg.1 hg.2
  exact ⟨⟨this.1, this.2.1⟩, this.2.2.1⟩

/-- a fault-free call on a synced channel stays synced: always in the tree as it is; in the repaired
shape when the replica index is the follower's next index -/
theorem replicaStep_none_stays (cfg : Cfg) (s : St) (h : InvA s) (hst : s.stopped = false) (hs : Synced s)
    (hm : cfg.mfail = false ∨ (s.cons = s.F.app ∧ s.closed = false)) :
    Synced (replicaStep cfg s .none).1 := by
  rcases hm with hm | hm
  · have hir : isReady cfg s .none = (s, true) := by unfold isReady; rw [if_pos hs.1]
    have hcn : connect s .none = (s, true) := by
      unfold connect; rw [if_pos (by rw [hs.2]; simp)]
    unfold replicaStep
    rw [hir]
    dsimp only
    rw [if_pos rfl, hcn]
    dsimp only
    rw [if_pos rfl]
    exact sendPhase_none_keeps cfg s hs.1 hs.2 hm
  · exact (replicaStep_none_stays' cfg s h hst hs hm.1 hm.2).1

/-! ### flags a replica call leaves alone -/

/-- a replica call never changes `live`, `stopped`, `gone`; with a live follower it does not park -/
theorem replicaStep_flags (cfg : Cfg) (s : St) (f : Fault) (hl : s.live = true) (hs : s.susp = false) :
    (replicaStep cfg s f).1.live = true ∧ (replicaStep cfg s f).1.susp = false ∧
    (replicaStep cfg s f).1.stopped = s.stopped ∧ (replicaStep cfg s f).1.gone = s.gone := by
  have hhs : (handshake cfg s f).1.live = s.live ∧ (handshake cfg s f).1.susp = s.susp ∧
      (handshake cfg s f).1.stopped = s.stopped ∧ (handshake cfg s f).1.gone = s.gone := by
    unfold handshake resetReplicaIndex followerReset
    dsimp only
    split
    · exact ⟨rfl, rfl, rfl, rfl⟩
    split
    · exact ⟨rfl, rfl, rfl, rfl⟩
    split
    · exact ⟨rfl, rfl, rfl, rfl⟩
    split
    · split <;> exact ⟨rfl, rfl, rfl, rfl⟩
    · have hag := ackGroup_flags
      split
      · split
        · simp [(hag _ _).1, (hag _ _).2.1, (hag _ _).2.2.1, (hag _ _).2.2.2.1, resetAppendIndex]
        · simp [(hag _ _).1, (hag _ _).2.1, (hag _ _).2.2.1, (hag _ _).2.2.2.1, resetAppendIndex]
      · split
        · simp [(hag _ _).1, (hag _ _).2.1, (hag _ _).2.2.1, (hag _ _).2.2.2.1]
        · simp [(hag _ _).1, (hag _ _).2.1, (hag _ _).2.2.1, (hag _ _).2.2.2.1]
  have hir : (isReady cfg s f).1.live = s.live ∧ (isReady cfg s f).1.susp = s.susp ∧
      (isReady cfg s f).1.stopped = s.stopped ∧ (isReady cfg s f).1.gone = s.gone := by
    unfold isReady
    split
    · exact ⟨rfl, rfl, rfl, rfl⟩
    split
    · rename_i x; rw [hl] at x; cases x
    · exact hhs
  have hcn : ∀ t : St, (connect t f).1.live = t.live ∧ (connect t f).1.susp = t.susp ∧
      (connect t f).1.stopped = t.stopped ∧ (connect t f).1.gone = t.gone := by
    intro t; unfold connect
    split
    · exact ⟨rfl, rfl, rfl, rfl⟩
    split <;> exact ⟨rfl, rfl, rfl, rfl⟩
  have hsp : ∀ t : St, (sendPhase cfg t f).1.live = t.live ∧ (sendPhase cfg t f).1.susp = t.susp ∧
      (sendPhase cfg t f).1.stopped = t.stopped ∧ (sendPhase cfg t f).1.gone = t.gone := by
    intro t
    have hag := ackGroup_flags
    have hrs : ∀ (u : St) (idx : Int) (m : Msg), (replicaSend cfg u idx m f).1.live = u.live ∧ (replicaSend cfg u idx m f).1.susp = u.susp ∧
        (replicaSend cfg u idx m f).1.stopped = u.stopped ∧ (replicaSend cfg u idx m f).1.gone = u.gone := by
      intro u idx m
      unfold replicaSend replicaLog
      dsimp only
      repeat' split
      all_goals (first | exact ⟨rfl, rfl, rfl, rfl⟩ | simp [(hag _ _).1, (hag _ _).2.1, (hag _ _).2.2.1, (hag _ _).2.2.2.1])
    unfold sendPhase consume
    dsimp only
    split
    · dsimp only
      split
      · exact ⟨rfl, rfl, rfl, rfl⟩
      · split
        · unfold ignoreMessage
          split
          · simp [(hag _ _).1, (hag _ _).2.1, (hag _ _).2.2.1, (hag _ _).2.2.2.1]
          · exact ⟨rfl, rfl, rfl, rfl⟩
        · exact hrs _ _ _
    · dsimp only
      split
      · exact ⟨rfl, rfl, rfl, rfl⟩
      · split
        · unfold ignoreMessage
          split
          · simp [(hag _ _).1, (hag _ _).2.1, (hag _ _).2.2.1, (hag _ _).2.2.2.1]
          · exact ⟨rfl, rfl, rfl, rfl⟩
        · exact hrs _ _ _
  unfold replicaStep
  generalize isReady cfg s f = r at hir
  obtain ⟨s1, ok⟩ := r
  dsimp only at hir ⊢
  cases ok
  · simp only [Bool.false_eq_true, if_false]
    exact ⟨hir.1.trans hl, hir.2.1.trans hs, hir.2.2.1, hir.2.2.2⟩
  · simp only [if_true]
    have h2 := hcn s1
    generalize connect s1 f = r2 at h2
    obtain ⟨s2, ok2⟩ := r2
    dsimp only at h2 ⊢
    cases ok2
    · simp only [Bool.false_eq_true, if_false]
      exact ⟨h2.1.trans (hir.1.trans hl), h2.2.1.trans (hir.2.1.trans hs), h2.2.2.1.trans hir.2.2.1, h2.2.2.2.trans hir.2.2.2⟩
    · simp only [if_true]
      have h3 := hsp s2
      exact ⟨h3.1.trans (h2.1.trans (hir.1.trans hl)), h3.2.1.trans (h2.2.1.trans (hir.2.1.trans hs)),
        h3.2.2.1.trans (h2.2.2.1.trans hir.2.2.1), h3.2.2.2.trans (h2.2.2.2.trans hir.2.2.2)⟩

theorem ackGroup_parked (t : St) (a : Int) : (ackGroup t a).parked = t.parked := by
  unfold ackGroup; split <;> rfl

/-- with a live follower a replica call never parks the loop -/
theorem replicaStep_parked (cfg : Cfg) (s : St) (f : Fault) (hl : s.live = true) (hp : s.parked = false) (hs : s.susp = false) :
    (replicaStep cfg s f).1.parked = false ∧ (replicaStep cfg s f).1.susp = false ∧
    (replicaStep cfg s f).1.stopped = s.stopped ∧ (replicaStep cfg s f).1.gone = s.gone := by
  have hhs : (handshake cfg s f).1.parked = s.parked ∧ (handshake cfg s f).1.susp = s.susp ∧
      (handshake cfg s f).1.stopped = s.stopped ∧ (handshake cfg s f).1.gone = s.gone := by
    unfold handshake resetReplicaIndex followerReset
    dsimp only
    split
    · exact ⟨rfl, rfl, rfl, rfl⟩
    split
    · exact ⟨rfl, rfl, rfl, rfl⟩
    split
    · exact ⟨rfl, rfl, rfl, rfl⟩
    split
    · split <;> exact ⟨rfl, rfl, rfl, rfl⟩
    · have hag := ackGroup_flags
      split
      · split
        · simp [(ackGroup_parked _ _), (hag _ _).2.1, (hag _ _).2.2.1, (hag _ _).2.2.2.1, resetAppendIndex]
        · simp [(ackGroup_parked _ _), (hag _ _).2.1, (hag _ _).2.2.1, (hag _ _).2.2.2.1, resetAppendIndex]
      · split
        · simp [(ackGroup_parked _ _), (hag _ _).2.1, (hag _ _).2.2.1, (hag _ _).2.2.2.1]
        · simp [(ackGroup_parked _ _), (hag _ _).2.1, (hag _ _).2.2.1, (hag _ _).2.2.2.1]
  have hir : (isReady cfg s f).1.parked = s.parked ∧ (isReady cfg s f).1.susp = s.susp ∧
      (isReady cfg s f).1.stopped = s.stopped ∧ (isReady cfg s f).1.gone = s.gone := by
    unfold isReady
    split
    · exact ⟨rfl, rfl, rfl, rfl⟩
    split
    · rename_i x; rw [hl] at x; cases x
    · exact hhs
  have hcn : ∀ t : St, (connect t f).1.parked = t.parked ∧ (connect t f).1.susp = t.susp ∧
      (connect t f).1.stopped = t.stopped ∧ (connect t f).1.gone = t.gone := by
    intro t; unfold connect
    split
    · exact ⟨rfl, rfl, rfl, rfl⟩
    split <;> exact ⟨rfl, rfl, rfl, rfl⟩
  have hsp : ∀ t : St, (sendPhase cfg t f).1.parked = t.parked ∧ (sendPhase cfg t f).1.susp = t.susp ∧
      (sendPhase cfg t f).1.stopped = t.stopped ∧ (sendPhase cfg t f).1.gone = t.gone := by
    intro t
    have hag := ackGroup_flags
    have hrs : ∀ (u : St) (idx : Int) (m : Msg), (replicaSend cfg u idx m f).1.parked = u.parked ∧ (replicaSend cfg u idx m f).1.susp = u.susp ∧
        (replicaSend cfg u idx m f).1.stopped = u.stopped ∧ (replicaSend cfg u idx m f).1.gone = u.gone := by
      intro u idx m
      unfold replicaSend replicaLog
      dsimp only
      repeat' split
      all_goals (first | exact ⟨rfl, rfl, rfl, rfl⟩ | simp [(ackGroup_parked _ _), (hag _ _).2.1, (hag _ _).2.2.1, (hag _ _).2.2.2.1])
    unfold sendPhase consume
    dsimp only
    split
    · dsimp only
      split
      · exact ⟨rfl, rfl, rfl, rfl⟩
      · split
        · unfold ignoreMessage
          split
          · simp [(ackGroup_parked _ _), (hag _ _).2.1, (hag _ _).2.2.1, (hag _ _).2.2.2.1]
          · exact ⟨rfl, rfl, rfl, rfl⟩
        · exact hrs _ _ _
    · dsimp only
      split
      · exact ⟨rfl, rfl, rfl, rfl⟩
      · split
        · unfold ignoreMessage
          split
          · simp [(ackGroup_parked _ _), (hag _ _).2.1, (hag _ _).2.2.1, (hag _ _).2.2.2.1]
          · exact ⟨rfl, rfl, rfl, rfl⟩
        · exact hrs _ _ _
  unfold replicaStep
  generalize isReady cfg s f = r at hir
  obtain ⟨s1, ok⟩ := r
  dsimp only at hir ⊢
  cases ok
  · simp only [Bool.false_eq_true, if_false]
    exact ⟨hir.1.trans hp, hir.2.1.trans hs, hir.2.2.1, hir.2.2.2⟩
  · simp only [if_true]
    have h2 := hcn s1
    generalize connect s1 f = r2 at h2
    obtain ⟨s2, ok2⟩ := r2
    dsimp only at h2 ⊢
    cases ok2
    · simp only [Bool.false_eq_true, if_false]
      exact ⟨h2.1.trans (hir.1.trans hp), h2.2.1.trans (hir.2.1.trans hs), h2.2.2.1.trans hir.2.2.1, h2.2.2.2.trans hir.2.2.2⟩
    · simp only [if_true]
      have h3 := hsp s2
      exact ⟨h3.1.trans (h2.1.trans (hir.1.trans hp)), h3.2.1.trans (h2.2.1.trans (hir.2.1.trans hs)),
        h3.2.2.1.trans (h2.2.2.1.trans hir.2.2.1), h3.2.2.2.trans (h2.2.2.2.trans hir.2.2.2)⟩

/-- a replica call changes `isSuspend` and "parked" only together, in IsReady's follower-offline branch -/
theorem replicaStep_sp (cfg : Cfg) (s : St) (f : Fault) :
    ((replicaStep cfg s f).1.parked = s.parked ∧ (replicaStep cfg s f).1.susp = s.susp) ∨
    ((replicaStep cfg s f).1.parked = true ∧ (replicaStep cfg s f).1.susp = true) := by
  have hhs : (handshake cfg s f).1.parked = s.parked ∧ (handshake cfg s f).1.susp = s.susp ∧
      (handshake cfg s f).1.stopped = s.stopped ∧ (handshake cfg s f).1.gone = s.gone := by
    unfold handshake resetReplicaIndex followerReset
    dsimp only
    split
    · exact ⟨rfl, rfl, rfl, rfl⟩
    split
    · exact ⟨rfl, rfl, rfl, rfl⟩
    split
    · exact ⟨rfl, rfl, rfl, rfl⟩
    split
    · split <;> exact ⟨rfl, rfl, rfl, rfl⟩
    · have hag := ackGroup_flags
      split
      · split
        · simp [(ackGroup_parked _ _), (hag _ _).2.1, (hag _ _).2.2.1, (hag _ _).2.2.2.1, resetAppendIndex]
        · simp [(ackGroup_parked _ _), (hag _ _).2.1, (hag _ _).2.2.1, (hag _ _).2.2.2.1, resetAppendIndex]
      · split
        · simp [(ackGroup_parked _ _), (hag _ _).2.1, (hag _ _).2.2.1, (hag _ _).2.2.2.1]
        · simp [(ackGroup_parked _ _), (hag _ _).2.1, (hag _ _).2.2.1, (hag _ _).2.2.2.1]
  have hcn : ∀ t : St, (connect t f).1.parked = t.parked ∧ (connect t f).1.susp = t.susp ∧
      (connect t f).1.stopped = t.stopped ∧ (connect t f).1.gone = t.gone := by
    intro t; unfold connect
    split
    · exact ⟨rfl, rfl, rfl, rfl⟩
    split <;> exact ⟨rfl, rfl, rfl, rfl⟩
  have hsp : ∀ t : St, (sendPhase cfg t f).1.parked = t.parked ∧ (sendPhase cfg t f).1.susp = t.susp ∧
      (sendPhase cfg t f).1.stopped = t.stopped ∧ (sendPhase cfg t f).1.gone = t.gone := by
    intro t
    have hag := ackGroup_flags
    have hrs : ∀ (u : St) (idx : Int) (m : Msg), (replicaSend cfg u idx m f).1.parked = u.parked ∧ (replicaSend cfg u idx m f).1.susp = u.susp ∧
        (replicaSend cfg u idx m f).1.stopped = u.stopped ∧ (replicaSend cfg u idx m f).1.gone = u.gone := by
      intro u idx m
      unfold replicaSend replicaLog
      dsimp only
      repeat' split
      all_goals (first | exact ⟨rfl, rfl, rfl, rfl⟩ | simp [(ackGroup_parked _ _), (hag _ _).2.1, (hag _ _).2.2.1, (hag _ _).2.2.2.1])
    unfold sendPhase consume
    dsimp only
    split
    · dsimp only
      split
      · exact ⟨rfl, rfl, rfl, rfl⟩
      · split
        · unfold ignoreMessage
          split
          · simp [(ackGroup_parked _ _), (hag _ _).2.1, (hag _ _).2.2.1, (hag _ _).2.2.2.1]
          · exact ⟨rfl, rfl, rfl, rfl⟩
        · exact hrs _ _ _
    · dsimp only
      split
      · exact ⟨rfl, rfl, rfl, rfl⟩
      · split
        · unfold ignoreMessage
          split
          · simp [(ackGroup_parked _ _), (hag _ _).2.1, (hag _ _).2.2.1, (hag _ _).2.2.2.1]
          · exact ⟨rfl, rfl, rfl, rfl⟩
        · exact hrs _ _ _
  have hir : ((isReady cfg s f).1.parked = s.parked ∧ (isReady cfg s f).1.susp = s.susp) ∨
      ((isReady cfg s f).1.parked = true ∧ (isReady cfg s f).1.susp = true ∧ (isReady cfg s f).2 = false) := by
    unfold isReady
    split
    · exact Or.inl ⟨rfl, rfl⟩
    split
    · exact Or.inr ⟨rfl, rfl, rfl⟩
    · exact Or.inl ⟨hhs.1, hhs.2.1⟩
  unfold replicaStep
  generalize isReady cfg s f = r at hir
  obtain ⟨s1, ok⟩ := r
  dsimp only at hir ⊢
  cases ok
  · simp only [Bool.false_eq_true, if_false]
    rcases hir with x | x
    · exact Or.inl x
    · exact Or.inr ⟨x.1, x.2.1⟩
  · simp only [if_true]
    have hir' : s1.parked = s.parked ∧ s1.susp = s.susp := by
      rcases hir with x | x
      · exact x
      · cases x.2.2
    have h2 := hcn s1
    generalize connect s1 f = r2 at h2
    obtain ⟨s2, ok2⟩ := r2
    dsimp only at h2 ⊢
    cases ok2
    · simp only [Bool.false_eq_true, if_false]
      exact Or.inl ⟨h2.1.trans hir'.1, h2.2.1.trans hir'.2⟩
    · simp only [if_true]
      have h3 := hsp s2
      exact Or.inl ⟨h3.1.trans (h2.1.trans hir'.1), h3.2.1.trans (h2.2.1.trans hir'.2)⟩

/-- a ready channel whose stream is dead and that has something to send notices it: the call ends in `failure` -/
theorem replicaStep_broken_fails (cfg : Cfg) (s : St) (f : Fault) (h : InvA s) (hst : s.stopped = false)
    (hr : s.chan = .ready) (hb : s.stream = .broken) (hd : s.cons < s.L.app) :
    (replicaStep cfg s f).1.chan = .failure := by
  have hir : isReady cfg s f = (s, true) := by unfold isReady; rw [if_pos hr]
  have hc : connect s f = (s, true) := by
    unfold connect; rw [if_pos (by rw [hb]; simp)]
  have hl := h.lint
  obtain ⟨m, hm⟩ := hl.holes (s.cons + 1) (by have := h.ackg hst; have := hl.gack_cons; omega) (by omega)
  unfold replicaStep
  rw [hir]
  dsimp only
  rw [if_pos rfl, hc]
  dsimp only
  rw [if_pos rfl]
  unfold sendPhase consume
  rw [if_pos (by omega : s.cons + 1 ≤ s.L.app)]
  dsimp only
  rw [if_neg (by have := lint_cons_ge hl; omega : ¬ s.cons + 1 < 0), hm]
  dsimp only
  unfold replicaSend
  rw [if_pos (Or.inl (by rw [hb]; simp))]

/-- a ready channel whose stream is dead and that has nothing to send stays as it is -/
theorem replicaStep_broken_idle (cfg : Cfg) (s : St) (f : Fault)
    (hr : s.chan = .ready) (hb : s.stream = .broken) (hd : ¬ s.cons < s.L.app) :
    (replicaStep cfg s f).1 = s := by
  have hir : isReady cfg s f = (s, true) := by unfold isReady; rw [if_pos hr]
  have hc : connect s f = (s, true) := by
    unfold connect; rw [if_pos (by rw [hb]; simp)]
  unfold replicaStep
  rw [hir]
  dsimp only
  rw [if_pos rfl, hc]
  dsimp only
  rw [if_pos rfl]
  unfold sendPhase consume
  rw [if_neg (by omega : ¬ s.cons + 1 ≤ s.L.app)]
  dsimp only
  rw [if_pos (by decide)]

/-- repaired shape: a fault-free call on a ready channel over a live stream that is out of step — the
replica index is not the follower's next index, or the handler holds a closed partition — with data
pending is refused and the state becomes `failure` -/
theorem replicaStep_out_of_step_fails (cfg : Cfg) (s : St) (h : InvA s) (hst : s.stopped = false)
    (hr : s.chan = .ready) (hstm : s.stream = .up) (hmf : cfg.mfail = true)
    (hc : ¬ (s.cons = s.F.app ∧ s.closed = false)) (hd : s.cons + 1 ≤ s.L.app) :
    (replicaStep cfg s .none).1.chan = .failure := by
  have hir : isReady cfg s .none = (s, true) := by unfold isReady; rw [if_pos hr]
  have hcn : connect s .none = (s, true) := by
    unfold connect; rw [if_pos (by rw [hstm]; simp)]
  obtain ⟨m, hm⟩ := (hget_of_inv h hst).2 hd
  unfold replicaStep
  rw [hir]
  dsimp only
  rw [if_pos rfl, hcn]
  dsimp only
  rw [if_pos rfl]
  unfold sendPhase consume
  rw [if_pos hd]
  dsimp only
  rw [if_neg (by have := (hget_of_inv h hst).1; omega : ¬ s.cons + 1 < 0), hm]
  dsimp only
  unfold replicaSend replicaLog
  dsimp only
  rw [if_neg (by rw [hstm]; simp), if_neg (show ¬ Fault.none = Fault.recv by intro e; cases e)]
  by_cases hcl : s.closed = true
  · have eor : ∀ b : Bool, (s.closed || b) = true := fun b => by rw [hcl]; rfl
    simp only [if_pos hcl, eor, Bool.true_eq_false, false_and, if_false, hmf, if_true]
  · have hclf : s.closed = false := by cases hx : s.closed with
      | true => exact absurd hx hcl
      | false => rfl
    have eor : ∀ b : Bool, (s.closed || b) = b := fun b => by rw [hclf]; rfl
    have hne : s.cons + 1 ≠ s.F.app + 1 := fun e => hc ⟨by omega, hclf⟩
    simp only [if_neg hcl, eor, reduceCtorEq, false_and, decide_false, true_and, if_pos hne]
    rw [if_neg (by omega : ¬ (s.F.app + 1 = s.cons + 1))]
    simp only [hmf, if_true]

/-- Repeated faults: whatever happened before, two consecutive fault-free replica calls of a live,
non-parked follower end with the channel synced — unless the channel is `ready` on a dead stream
with nothing to send (then nothing is pending and the first later message triggers the resync). -/
theorem two_steps_sync (cfg : Cfg) (s : St) (h : InvA s) (hb : s.chan = .ready → s.stream ≠ .none)
    (hst : s.stopped = false) (hl : s.live = true) (hs : s.susp = false) :
    Synced (replicaStep cfg (replicaStep cfg s .none).1 .none).1 ∨
    (s.chan = .ready ∧ s.stream = .broken ∧ s.L.app ≤ s.cons) := by
  have hf := replicaStep_flags cfg s .none hl hs
  have hsp := replicaStep_spec cfg s .none h hst
  have hst1 : (replicaStep cfg s .none).1.stopped = false := hf.2.2.1.trans hst
  by_cases hr : s.chan = .ready
  · cases hstm : s.stream with
    | none => exact absurd hstm (hb hr)
    | up =>
      cases hmf : cfg.mfail with
      | false =>
        exact Or.inl (replicaStep_none_stays cfg _ hsp.inv hst1 (replicaStep_none_stays cfg s h hst ⟨hr, hstm⟩ (Or.inl hmf)) (Or.inl hmf))
      | true =>
        -- repaired shape: the first call keeps the channel in step, or runs into the mismatch and fails
        by_cases hc : s.cons = s.F.app ∧ s.closed = false
        · have h1 := replicaStep_none_stays' cfg s h hst ⟨hr, hstm⟩ hc.1 hc.2
          exact Or.inl (replicaStep_none_stays cfg _ hsp.inv hst1 h1.1 (Or.inr ⟨h1.2, hsp.cl hc.2⟩))
        · by_cases hd : s.cons + 1 ≤ s.L.app
          · -- something to send: refused, the state becomes `failure`, the second call shakes hands
            have hfail := replicaStep_out_of_step_fails cfg s h hst hr hstm hmf hc hd
            refine Or.inl (replicaStep_none_syncs cfg _ hsp.inv hst1 ?_ hf.1)
            rw [hfail]; intro e; cases e
          · -- nothing to send: nothing changes, twice
            have hid : (replicaStep cfg s .none).1 = s := by
              have hir : isReady cfg s .none = (s, true) := by unfold isReady; rw [if_pos hr]
              have hcn : connect s .none = (s, true) := by
                unfold connect; rw [if_pos (by rw [hstm]; simp)]
              unfold replicaStep
              rw [hir]
              dsimp only
              rw [if_pos rfl, hcn]
              dsimp only
              rw [if_pos rfl]
              unfold sendPhase consume
              rw [if_neg hd]
              dsimp only
              rw [if_pos (by decide)]
            rw [hid, hid]
            exact Or.inl ⟨hr, hstm⟩
    | broken =>
      by_cases hd : s.cons < s.L.app
      · have hfail := replicaStep_broken_fails cfg s .none h hst hr hstm hd
        refine Or.inl (replicaStep_none_syncs cfg _ hsp.inv hst1 ?_ hf.1)
        rw [hfail]; intro e; cases e
      · exact Or.inr ⟨hr, rfl, by omega⟩
  · have h1 := replicaStep_none_syncs' cfg s h hst hr hl
    cases hmf : cfg.mfail with
    | false => exact Or.inl (replicaStep_none_stays cfg _ hsp.inv hst1 h1.1 (Or.inl hmf))
    | true => exact Or.inl (replicaStep_none_stays cfg _ hsp.inv hst1 h1.1 (Or.inr ⟨h1.2.1, h1.2.2⟩))

/-- one fault-free call on a synced, undisturbed channel: either the next message is appended by the
follower and acknowledged, or there was nothing to send and nothing changes -/
theorem replicaStep_none_progress' (cfg : Cfg) (s : St) (h : InvA s) (hst : s.stopped = false)
    (hsy : Synced s) (hc : s.cons = s.F.app) (hcl : s.closed = false) :
    Synced (replicaStep cfg s .none).1 ∧ ((replicaStep cfg s .none).1.dz = s.dz ∧
      (replicaStep cfg s .none).1.cons = (replicaStep cfg s .none).1.F.app ∧ (replicaStep cfg s .none).1.closed = false) ∧
    (replicaStep cfg s .none).1.L = s.L ∧
    (replicaStep cfg s .none).1.F.app = (if s.F.app < s.L.app then s.F.app + 1 else s.F.app) ∧
    (s.F.app < s.L.app → (replicaStep cfg s .none).1.gack = s.F.app + 1 ∧
      (replicaStep cfg s .none).1.F.get (s.F.app + 1) = s.L.get (s.F.app + 1)) := by
  have hir : isReady cfg s .none = (s, true) := by unfold isReady; rw [if_pos hsy.1]
  have hcn : connect s .none = (s, true) := by
    unfold connect; rw [if_pos (by rw [hsy.2]; simp)]
  have hl := h.lint
  have hf := h.fint
  unfold replicaStep
  rw [hir]
  dsimp only
  rw [if_pos rfl, hcn]
  dsimp only
  rw [if_pos rfl]
  by_cases hd : s.F.app < s.L.app
  · rw [if_pos hd]
    obtain ⟨m, hm⟩ := hl.holes (s.cons + 1) (by have := h.ackg hst; have := hl.gack_cons; omega) (by omega)
    have hup : ¬ (s.stream ≠ .up ∨ Fault.none = Fault.send) := by rw [hsy.2]; simp
    have hg : s.gack ≤ s.F.app + 1 ∧ s.F.app + 1 ≤ s.cons + 1 := by have := hl.gack_cons; omega
    have h3 : sendPhase cfg s .none =
        ({ s with cons := s.cons + 1, F := s.F.put m, gack := s.F.app + 1 }, Out.acked) := by
      unfold sendPhase consume
      rw [if_pos (by omega : s.cons + 1 ≤ s.L.app)]
      dsimp only
      rw [if_neg (by have := lint_cons_ge hl; omega : ¬ s.cons + 1 < 0), hm]
      dsimp only
      unfold replicaSend replicaLog
      dsimp only
      rw [if_neg hup, if_neg (by omega : ¬ s.cons + 1 ≠ s.F.app + 1)]
      simp only [show decide (Fault.none = Fault.put) = false from by decide, Bool.false_eq_true, if_false]
      have eor : ∀ b : Bool, (s.closed || b) = b := fun b => by rw [hcl]; rfl
      simp only [if_neg (by rw [hcl]; simp : ¬ s.closed = true), eor, reduceCtorEq, false_and, decide_false, true_and, if_false]
      rw [if_pos (by omega : s.F.app + 1 = s.cons + 1)]
      unfold ackGroup
      dsimp only
      rw [if_pos hg]
    rw [h3]
    dsimp only
    refine ⟨⟨hsy.1, hsy.2⟩, ⟨rfl, by simp only [Log.put]; omega, hcl⟩, rfl, by simp only [Log.put], fun _ => ⟨rfl, ?_⟩⟩
    rw [get_put_eq hf.ack_app, ← hc, hm]
  · rw [if_neg hd]
    have h3 : sendPhase cfg s .none = (s, Out.idle) := by
      unfold sendPhase consume
      rw [if_neg (by omega : ¬ s.cons + 1 ≤ s.L.app)]
      dsimp only
      rw [if_pos (by decide)]
    rw [h3]
    exact ⟨hsy, ⟨rfl, hc, hcl⟩, rfl, rfl, fun x => absurd x hd⟩

theorem replicaStep_none_progress (cfg : Cfg) (s : St) (h : InvA s) (hst : s.stopped = false)
    (hsy : Synced s) (hdz : s.dz = false) (hcl : s.closed = false) :
    Synced (replicaStep cfg s .none).1 ∧ (replicaStep cfg s .none).1.dz = false ∧
    (replicaStep cfg s .none).1.L = s.L ∧
    (replicaStep cfg s .none).1.F.app = (if s.F.app < s.L.app then s.F.app + 1 else s.F.app) ∧
    (s.F.app < s.L.app → (replicaStep cfg s .none).1.gack = s.F.app + 1 ∧
      (replicaStep cfg s .none).1.F.get (s.F.app + 1) = s.L.get (s.F.app + 1)) := by
  have hc : s.cons = s.F.app := h.sync hsy.1 hdz (by rw [hsy.2]; intro e; cases e)
  have := replicaStep_none_progress' cfg s h hst hsy hc hcl
  exact ⟨this.1, this.2.1.1.trans hdz, this.2.2.1, this.2.2.2.1, this.2.2.2.2⟩

/-! ### a follower partition closed under the open stream -/

/-- `remoteReplicator.Replica` against a handler whose partition is closed: whatever the fault, nothing
is appended, the group's ack does not move, the outcome is never `acked`; repaired shape of the
else-branch: the state becomes `failure` -/
theorem replicaSend_closed (cfg : Cfg) (s : St) (idx : Int) (m : Msg) (f : Fault) (hcl : s.closed = true) :
    (replicaSend cfg s idx m f).1.gack = s.gack ∧ (replicaSend cfg s idx m f).1.F = s.F ∧
    (replicaSend cfg s idx m f).2 ≠ .acked ∧ (cfg.mfail = true → (replicaSend cfg s idx m f).1.chan = .failure) := by
  unfold replicaSend
  have eor : ∀ b : Bool, (s.closed || b) = true := fun b => by rw [hcl]; rfl
  simp only [if_pos hcl, eor, Bool.true_eq_false, false_and, if_false]
  split
  · exact ⟨rfl, rfl, (by intro e; cases e), fun _ => rfl⟩
  · split
    · exact ⟨rfl, rfl, (by intro e; cases e), fun _ => rfl⟩
    · split
      · exact ⟨rfl, rfl, (by intro e; cases e), fun _ => rfl⟩
      · rename_i hmf
        exact ⟨rfl, rfl, (by intro e; cases e), fun h => absurd h hmf⟩

/-- a replica call on a ready channel over an existing stream whose handler holds a closed partition:
no ack, no append, never `acked`; with data pending the repaired shape ends in `failure` -/
theorem replicaStep_closed_no_ack (cfg : Cfg) (s : St) (f : Fault) (h : InvA s) (hst : s.stopped = false)
    (hcl : s.closed = true) (hr : s.chan = .ready) (hu : s.stream ≠ .none) :
    (replicaStep cfg s f).1.gack = s.gack ∧ (replicaStep cfg s f).1.F = s.F ∧ (replicaStep cfg s f).2 ≠ .acked ∧
    (cfg.mfail = true → s.cons < s.L.app → (replicaStep cfg s f).1.chan = .failure) := by
  have hir : isReady cfg s f = (s, true) := by unfold isReady; rw [if_pos hr]
  have hcn : connect s f = (s, true) := by unfold connect; rw [if_pos hu]
  unfold replicaStep
  rw [hir]
  dsimp only
  rw [if_pos rfl, hcn]
  dsimp only
  rw [if_pos rfl]
  unfold sendPhase consume
  by_cases hd : s.cons + 1 ≤ s.L.app
  · obtain ⟨m, hm⟩ := (hget_of_inv h hst).2 hd
    rw [if_pos hd]
    dsimp only
    rw [if_neg (by have := (hget_of_inv h hst).1; omega : ¬ s.cons + 1 < 0), hm]
    dsimp only
    have := replicaSend_closed cfg { s with cons := s.cons + 1 } (s.cons + 1) m f hcl
    exact ⟨this.1, this.2.1, this.2.2.1, fun hm _ => this.2.2.2 hm⟩
  · rw [if_neg hd]
    dsimp only
    rw [if_pos (by decide)]
    exact ⟨rfl, rfl, (by intro e; cases e), fun _ hlt => absurd (by omega) hd⟩

/-! ### in step: synced, the next index sent is the follower's next index, the handler's partition is open -/

/-- the channel is synced AND in step -/
def InStep (s : St) : Prop := Synced s ∧ s.cons = s.F.app ∧ s.closed = false

theorem instep_stays (cfg : Cfg) (s : St) (h : InvA s) (hst : s.stopped = false) (hi : InStep s) :
    InStep (replicaStep cfg s .none).1 := by
  have := replicaStep_none_progress' cfg s h hst hi.1 hi.2.1 hi.2.2
  exact ⟨this.1, this.2.1.2.1, this.2.1.2.2⟩

theorem instep_of_notready (cfg : Cfg) (s : St) (h : InvA s) (hst : s.stopped = false) (hn : s.chan ≠ .ready)
    (hl : s.live = true) : InStep (replicaStep cfg s .none).1 := by
  have := replicaStep_none_syncs' cfg s h hst hn hl
  exact ⟨this.1, this.2.1, this.2.2⟩

/-- Repaired shape of the else-branch: whatever happened before — lost requests, a follower that lost or
re-created its log or partition, a leader that lost its tail, a Put fault — two consecutive fault-free
calls of a live, non-parked follower with something to send (or a channel that is not ready) end IN STEP. -/
theorem two_steps_in_step (cfg : Cfg) (hmf : cfg.mfail = true) (s : St) (h : InvA s)
    (hb : s.chan = .ready → s.stream ≠ .none) (hst : s.stopped = false) (hl : s.live = true) (hs : s.susp = false)
    (hd : s.cons < s.L.app ∨ s.chan ≠ .ready) :
    InStep (replicaStep cfg (replicaStep cfg s .none).1 .none).1 := by
  have hf := replicaStep_flags cfg s .none hl hs
  have hsp := replicaStep_spec cfg s .none h hst
  have hst1 : (replicaStep cfg s .none).1.stopped = false := hf.2.2.1.trans hst
  by_cases hr : s.chan = .ready
  · have hd' : s.cons < s.L.app := by
      rcases hd with hd | hd
      · exact hd
      · exact absurd hr hd
    cases hstm : s.stream with
    | none => exact absurd hstm (hb hr)
    | up =>
      by_cases hc : s.cons = s.F.app ∧ s.closed = false
      · exact instep_stays cfg _ hsp.inv hst1 (instep_stays cfg s h hst ⟨⟨hr, hstm⟩, hc.1, hc.2⟩)
      · have hfail := replicaStep_out_of_step_fails cfg s h hst hr hstm hmf hc (by omega)
        refine instep_of_notready cfg _ hsp.inv hst1 ?_ hf.1
        rw [hfail]; intro e; cases e
    | broken =>
      have hfail := replicaStep_broken_fails cfg s .none h hst hr hstm hd'
      refine instep_of_notready cfg _ hsp.inv hst1 ?_ hf.1
      rw [hfail]; intro e; cases e
  · exact instep_stays cfg _ hsp.inv hst1 (instep_of_notready cfg s h hst hr hl)

/-! ### the repaired shape of Replica's else-branch (`cfg.mfail = true`) -/

/-- a follower Put fault on a synced, undisturbed channel with data pending: the message is consumed,
nothing is appended nor acknowledged, and — repaired shape — the state becomes `failure` -/
theorem replicaStep_put_fails (cfg : Cfg) (s : St) (h : InvA s) (hst : s.stopped = false) (hsy : Synced s)
    (hdz : s.dz = false) (hcl : s.closed = false) (hd : s.F.app < s.L.app) (hm : cfg.mfail = true) :
    (replicaStep cfg s .put).1 = { s with cons := s.cons + 1, chan := .failure } := by
  have hc : s.cons = s.F.app := h.sync hsy.1 hdz (by rw [hsy.2]; intro e; cases e)
  have hir : isReady cfg s .put = (s, true) := by unfold isReady; rw [if_pos hsy.1]
  have hcn : connect s .put = (s, true) := by
    unfold connect; rw [if_pos (by rw [hsy.2]; simp)]
  have hg := hget_of_inv h hst
  obtain ⟨m, hmm⟩ := hg.2 (by omega)
  unfold replicaStep
  rw [hir]
  dsimp only
  rw [if_pos rfl, hcn]
  dsimp only
  rw [if_pos rfl]
  unfold sendPhase consume
  rw [if_pos (by omega : s.cons + 1 ≤ s.L.app)]
  dsimp only
  rw [if_neg (by omega : ¬ s.cons + 1 < 0), hmm]
  dsimp only
  unfold replicaSend replicaLog
  dsimp only
  rw [if_neg (by rw [hsy.2]; simp), if_neg (by omega : ¬ s.cons + 1 ≠ s.F.app + 1)]
  simp only [decide_true, if_true, reduceCtorEq, if_false]
  have eor : ∀ b : Bool, (s.closed || b) = b := fun b => by rw [hcl]; rfl
  simp only [if_neg (by rw [hcl]; simp : ¬ s.closed = true), eor, true_and]
  rw [if_neg (by omega : ¬ (decide (s.cons + 1 = s.F.app + 1) = false ∧ (-1 : Int) = s.cons + 1)), hm]
  rfl

/-- ... and the next fault-free call shakes hands again, re-sends that message and the follower appends it:
the channel resynchronises without a stream fault -/
theorem replicaStep_after_put_fault (cfg : Cfg) (s : St) (h : InvA s) (hst : s.stopped = false) (hsy : Synced s)
    (hdz : s.dz = false) (hcl : s.closed = false) (hd : s.F.app < s.L.app) (hl : s.live = true) (hm : cfg.mfail = true) :
    Synced (replicaStep cfg (replicaStep cfg s .put).1 .none).1 ∧
    (replicaStep cfg (replicaStep cfg s .put).1 .none).1.F.app = s.F.app + 1 ∧
    (replicaStep cfg (replicaStep cfg s .put).1 .none).1.gack = s.F.app + 1 ∧
    (replicaStep cfg (replicaStep cfg s .put).1 .none).1.F.get (s.F.app + 1) = s.L.get (s.F.app + 1) := by
  have hc : s.cons = s.F.app := h.sync hsy.1 hdz (by rw [hsy.2]; intro e; cases e)
  have hgc := h.lint.gack_cons
  have hp := replicaStep_put_fails cfg s h hst hsy hdz hcl hd hm
  have hinv1 : InvA (replicaStep cfg s .put).1 := (replicaStep_spec cfg s .put h hst).inv
  rw [hp] at hinv1 ⊢
  generalize hs1 : ({ s with cons := s.cons + 1, chan := Chan.failure } : St) = s1 at hinv1 ⊢
  have e1 : s1.F = s.F ∧ s1.L = s.L ∧ s1.gack = s.gack ∧ s1.cons = s.cons + 1 ∧ s1.chan = .failure ∧ s1.live = s.live ∧
      s1.stopped = s.stopped := by subst hs1; exact ⟨rfl, rfl, rfl, rfl, rfl, rfl, rfl⟩
  -- the handshake on s1
  have hs := handshake_spec cfg s1 .none hinv1
  have hok := handshake_none_ok cfg s1
  have hrd := hs.ok_ready hok
  have hidx := hs.ok_idx hok
  have hfk := hs.fkeep (by rw [e1.1, e1.2.2.1]; omega)
  have hlk := hs.lkeep (by rw [e1.1, e1.2.1]; omega)
  have hir : isReady cfg s1 .none = handshake cfg s1 .none := by
    unfold isReady; rw [if_neg (by rw [e1.2.2.2.2.1]; intro e; cases e), if_neg (by rw [e1.2.2.2.2.2.1, hl]; simp)]
  have hinv2 := hs.inv
  have hown := hs.own.1
  have hdz2 := hs.dz
  generalize handshake cfg s1 .none = r at hok hrd hidx hfk hlk hir hinv2 hown hdz2
  obtain ⟨s2, ok⟩ := r
  dsimp only at hok hrd hidx hfk hlk hinv2 hown hdz2
  subst hok
  -- connect
  let t : St := { s2 with stream := .up, chan := .ready, closed := false }
  have hcn : connect s2 .none = (t, true) := by
    unfold connect
    rw [if_neg (by rw [hrd.2.1]; simp), if_neg (by intro e; cases e)]
  have hinvt : InvA t := by
    have h' : InvC s2.L s2.cons s2.gack s2.F .ready .none s2.dz s2.stopped (s2.imgs.map Img.va) := by
      have h0 := hinv2
      unfold InvA at h0
      rw [hrd.1, hrd.2.1] at h0
      exact h0
    exact invA_mk (invc_connect h') rfl rfl rfl rfl rfl rfl rfl rfl
  have e2 : t.F = s.F ∧ t.L = s.L ∧ t.cons = s.F.app ∧ t.dz = false ∧ t.stopped = false := by
    refine ⟨by show s2.F = s.F; rw [hfk, e1.1], by show s2.L = s.L; rw [hlk, e1.2.1], ?_, hdz2, ?_⟩
    · show s2.cons = s.F.app
      rw [hidx, e1.1, e1.2.2.1]
      rw [if_neg (by omega)]
    · show s2.stopped = false
      rw [hown, e1.2.2.2.2.2.2, hst]
  have hsyt : Synced t := ⟨rfl, rfl⟩
  -- the call from s1 is the send phase from t, and so is a call from t
  have hstep : replicaStep cfg s1 .none = replicaStep cfg t .none := by
    have a1 : replicaStep cfg s1 .none = sendPhase cfg t .none := by
      unfold replicaStep
      rw [hir]
      dsimp only
      rw [if_pos rfl, hcn]
      dsimp only
      rw [if_pos rfl]
    have a2 : replicaStep cfg t .none = sendPhase cfg t .none := by
      have hirt : isReady cfg t .none = (t, true) := by unfold isReady; rw [if_pos rfl]
      have hcnt : connect t .none = (t, true) := by unfold connect; rw [if_pos (by simp [t])]
      unfold replicaStep
      rw [hirt]
      dsimp only
      rw [if_pos rfl, hcnt]
      dsimp only
      rw [if_pos rfl]
    rw [a1, a2]
  rw [hstep]
  have hpr := replicaStep_none_progress cfg t hinvt e2.2.2.2.2 hsyt e2.2.2.2.1 rfl
  rw [e2.1, e2.2.1] at hpr
  rw [if_pos hd] at hpr
  exact ⟨hpr.1, hpr.2.2.2.1, (hpr.2.2.2.2 hd).1, (hpr.2.2.2.2 hd).2⟩

/-- repaired shape: whenever a replica call ends in the mismatched-answer branch, the channel is in
`failure` afterwards (so the next call runs the handshake) -/
theorem replicaStep_mismatch_fails (cfg : Cfg) (s : St) (f : Fault) (hm : cfg.mfail = true)
    (ho : (replicaStep cfg s f).2 = .mismatch) : (replicaStep cfg s f).1.chan = .failure := by
  have hrs : ∀ (u : St) (idx : Int) (m : Msg), (replicaSend cfg u idx m f).2 = .mismatch →
      (replicaSend cfg u idx m f).1.chan = .failure := by
    intro u idx m
    unfold replicaSend replicaLog
    dsimp only
    simp only [hm, if_true]
    repeat' split
    all_goals (first | (intro x; cases x; done) | (intro _; rfl))
  have hsp : ∀ t : St, (sendPhase cfg t f).2 = .mismatch → (sendPhase cfg t f).1.chan = .failure := by
    intro t
    unfold sendPhase consume
    dsimp only
    split
    · dsimp only
      split
      · intro x; cases x
      · split
        · intro x; cases x
        · exact hrs _ _ _
    · dsimp only
      split
      · intro x; cases x
      · split
        · intro x; cases x
        · exact hrs _ _ _
  revert ho
  unfold replicaStep
  generalize isReady cfg s f = r
  obtain ⟨s1, ok⟩ := r
  dsimp only
  cases ok
  · simp only [Bool.false_eq_true, if_false]
    split <;> (intro x; cases x)
  · simp only [if_true]
    generalize connect s1 f = r2
    obtain ⟨s2, ok2⟩ := r2
    dsimp only
    cases ok2
    · simp only [Bool.false_eq_true, if_false]
      intro x; cases x
    · simp only [if_true]
      exact hsp s2

/-! ### the wake-up is never lost (plain blocking send in `handleNodeStateChangeEvent`) -/

/-- a loop that is (about to be) blocked in `<-r.suspend` still has its suspend flag set: the next
online notification will find `isSuspend = true`, win the CAS and hand the loop its wake-up -/
structure WK (s : St) : Prop where
  a : s.parked = true → s.susp = true
  b : s.parked2 = true → s.susp2 = true

theorem wk_swap {s : St} (h : WK s) : WK s.swap := ⟨h.b, h.a⟩

theorem wk_peerEv (cfg : Cfg) (hw : (cfg.tok || cfg.wake) = true) (s : St) (e : Ev) (hf : Full s) (h : WK s) :
    WK (peerEv cfg s e).1 := by
  have hp := peerEv_spec cfg s e hf.a hf.bndA hf.stA hf.ubA
  have hs2 := frameSame hp.frame
  refine ⟨?_, by rw [hs2.parked2, hs2.susp2]; exact h.b⟩
  have hstep : ∀ (t : St) (f : Fault), (t.parked = true → t.susp = true) →
      ((replicaStep cfg t f).1.parked = true → (replicaStep cfg t f).1.susp = true) := by
    intro t f ht
    rcases replicaStep_sp cfg t f with x | x
    · rw [x.1, x.2]; exact ht
    · intro _; exact x.2
  have honl : ∀ f : Fault, (onlineEv cfg s f).1.parked = true → (onlineEv cfg s f).1.susp = true := by
    intro f
    unfold onlineEv
    dsimp only
    split
    · exact h.a
    · split
      · exact hstep _ f (fun x => by cases x)
      · exact h.a
  cases e with
  | step w f =>
    simp only [peerEv]
    split
    · exact h.a
    · split
      · exact h.a
      · exact hstep s f h.a
  | frestart w => simp only [peerEv]; exact h.a
  | flose w => simp only [peerEv]; exact h.a
  | fclose w => simp only [peerEv]; exact h.a
  | offline w => simp only [peerEv]; exact h.a
  | online w f => simp only [peerEv]; exact honl f
  | steponl w f =>
    simp only [peerEv, hw, if_true]
    split
    · rename_i hc
      exact hstep _ f (fun x => by rw [hc.2.1] at x; cases x)
    · exact honl f
  | steppre w f =>
    simp only [peerEv]
    split
    · rename_i hc
      split
      · exact hstep _ f (fun x => by rw [hc.2.1] at x; cases x)
      · intro _; rfl
    · exact honl f
  | join w =>
    simp only [peerEv]
    split
    · exact h.a
    · split <;> (intro x; cases x)
  | append m => simp only [peerEv]; exact h.a
  | lsnap => simp only [peerEv]; exact h.a
  | lrestore k => simp only [peerEv]; exact h.a
  | lrestart => simp only [peerEv]; exact h.a
  | gc => simp only [peerEv]; exact h.a
  | expire => simp only [peerEv]; exact h.a

theorem syncGC_flags (s : St) : (syncGC s).parked = s.parked ∧ (syncGC s).susp = s.susp ∧
    (syncGC s).parked2 = s.parked2 ∧ (syncGC s).susp2 = s.susp2 := by
  have key : ∀ a : Int, (if 0 ≤ a then { s with L := s.L.setAck a } else s).parked = s.parked ∧
      (if 0 ≤ a then { s with L := s.L.setAck a } else s).susp = s.susp ∧
      (if 0 ≤ a then { s with L := s.L.setAck a } else s).parked2 = s.parked2 ∧
      (if 0 ≤ a then { s with L := s.L.setAck a } else s).susp2 = s.susp2 := by
    intro a; split <;> exact ⟨rfl, rfl, rfl, rfl⟩
  unfold syncGC
  split
  · exact ⟨rfl, rfl, rfl, rfl⟩
  · exact key _

theorem expire_flags (s : St) : (expire s).1.parked = s.parked ∧ (expire s).1.susp = s.susp ∧
    (expire s).1.parked2 = s.parked2 ∧ (expire s).1.susp2 = s.susp2 := by
  have hg := syncGC_flags s
  unfold expire
  generalize syncGC s = t at hg
  dsimp only
  have h1 : ∀ (c : Prop) [Decidable c] (u : St), (if c then stopA u else u).parked = u.parked ∧ (if c then stopA u else u).susp = u.susp ∧
      (if c then stopA u else u).parked2 = u.parked2 ∧ (if c then stopA u else u).susp2 = u.susp2 := by
    intro c _ u; split <;> exact ⟨rfl, rfl, rfl, rfl⟩
  have h2 : ∀ (c : Prop) [Decidable c] (u : St), (if c then stopB u else u).parked = u.parked ∧ (if c then stopB u else u).susp = u.susp ∧
      (if c then stopB u else u).parked2 = u.parked2 ∧ (if c then stopB u else u).susp2 = u.susp2 := by
    intro c _ u; split <;> exact ⟨rfl, rfl, rfl, rfl⟩
  have a1 := h1 (t.stopped = false ∧ t.L.app ≤ t.gack) t
  generalize (if t.stopped = false ∧ t.L.app ≤ t.gack then stopA t else t) = u at a1
  have a2 := h2 (t.stopped2 = false ∧ t.L.app ≤ t.gack2) u
  generalize (if t.stopped2 = false ∧ t.L.app ≤ t.gack2 then stopB u else u) = v at a2
  split
  · exact ⟨a2.1.trans (a1.1.trans hg.1), a2.2.1.trans (a1.2.1.trans hg.2.1), a2.2.2.1.trans (a1.2.2.1.trans hg.2.2.1),
      a2.2.2.2.trans (a1.2.2.2.trans hg.2.2.2)⟩
  · exact ⟨a2.1.trans (a1.1.trans hg.1), a2.2.1.trans (a1.2.1.trans hg.2.1), a2.2.2.1.trans (a1.2.2.1.trans hg.2.2.1),
      a2.2.2.2.trans (a1.2.2.2.trans hg.2.2.2)⟩

theorem wk_next (cfg : Cfg) (hw : (cfg.tok || cfg.wake) = true) (s : St) (e : Ev) (hf : Full s) (h : WK s) :
    WK (next cfg s e).1 := by
  unfold next
  split
  · exact h
  · cases e with
    | step w f => cases w <;> simp only [Ev.who]
                  · exact wk_peerEv cfg hw s _ hf h
                  · exact wk_swap (wk_peerEv cfg hw s.swap _ (full_swap hf) (wk_swap h))
    | frestart w => cases w <;> simp only [Ev.who]
                    · exact wk_peerEv cfg hw s _ hf h
                    · exact wk_swap (wk_peerEv cfg hw s.swap _ (full_swap hf) (wk_swap h))
    | flose w => cases w <;> simp only [Ev.who]
                 · exact wk_peerEv cfg hw s _ hf h
                 · exact wk_swap (wk_peerEv cfg hw s.swap _ (full_swap hf) (wk_swap h))
    | fclose w => cases w <;> simp only [Ev.who]
                  · exact wk_peerEv cfg hw s _ hf h
                  · exact wk_swap (wk_peerEv cfg hw s.swap _ (full_swap hf) (wk_swap h))
    | offline w => cases w <;> simp only [Ev.who]
                   · exact wk_peerEv cfg hw s _ hf h
                   · exact wk_swap (wk_peerEv cfg hw s.swap _ (full_swap hf) (wk_swap h))
    | online w f => cases w <;> simp only [Ev.who]
                    · exact wk_peerEv cfg hw s _ hf h
                    · exact wk_swap (wk_peerEv cfg hw s.swap _ (full_swap hf) (wk_swap h))
    | steponl w f => cases w <;> simp only [Ev.who]
                     · exact wk_peerEv cfg hw s _ hf h
                     · exact wk_swap (wk_peerEv cfg hw s.swap _ (full_swap hf) (wk_swap h))
    | steppre w f => cases w <;> simp only [Ev.who]
                     · exact wk_peerEv cfg hw s _ hf h
                     · exact wk_swap (wk_peerEv cfg hw s.swap _ (full_swap hf) (wk_swap h))
    | join w => cases w <;> simp only [Ev.who]
                · exact wk_peerEv cfg hw s _ hf h
                · exact wk_swap (wk_peerEv cfg hw s.swap _ (full_swap hf) (wk_swap h))
    | append m => simp only [Ev.who]; split <;> exact ⟨h.a, h.b⟩
    | lsnap => simp only [Ev.who]; exact ⟨h.a, h.b⟩
    | lrestore k =>
      simp only [Ev.who]
      cases s.imgs.drop k with
      | nil => exact h
      | cons im rest => exact ⟨(fun x => by cases x), (fun x => by cases x)⟩
    | lrestart => simp only [Ev.who]; exact ⟨(fun x => by cases x), (fun x => by cases x)⟩
    | gc =>
      simp only [Ev.who]
      have hg := syncGC_flags s
      exact ⟨by rw [hg.1, hg.2.1]; exact h.a, by rw [hg.2.2.1, hg.2.2.2]; exact h.b⟩
    | expire =>
      simp only [Ev.who]
      have hg := expire_flags s
      exact ⟨by rw [hg.1, hg.2.1]; exact h.a, by rw [hg.2.2.1, hg.2.2.2]; exact h.b⟩

theorem wk_foldl (cfg : Cfg) (hw : (cfg.tok || cfg.wake) = true) (evs : List Ev) : ∀ s, Full s → WK s →
    WK (evs.foldl (fun s e => (next cfg s e).1) s) := by
  induction evs with
  | nil => intro s _ h; exact h
  | cons e t ih => intro s hf h; exact ih _ (next_spec cfg s e hf).full (wk_next cfg hw s e hf h)

theorem wk_run (cfg : Cfg) (hw : (cfg.tok || cfg.wake) = true) (evs : List Ev) : WK (run cfg evs) :=
  wk_foldl cfg hw evs _ full_init ⟨(fun x => by cases x), (fun x => by cases x)⟩

end LinVerif.Replication
