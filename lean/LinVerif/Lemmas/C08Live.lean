/-
C08 helper lemmas, part 5: post-conditions of a fault-free `partition.replica` call
("the channel resynchronises without operator action").
-/
import LinVerif.Lemmas.C08Run

namespace LinVerif.Replication

/-- without an injected fault the handshake always succeeds (the double check cannot fail) -/
theorem handshake_none_ok (cfg : Cfg) (s : St) : (handshake cfg s .none).2 = true := by
  unfold handshake
  dsimp only
  rw [if_neg (by intro e; cases e), if_neg (by intro e; cases e)]
  split
  · rfl
  split
  · rw [if_neg (by intro e; cases e)]
  · have hc : ∀ t : St, ∀ a : Int, (ackGroup t a).cons = t.cons := by
      intro t a; unfold ackGroup; split <;> rfl
    rw [if_pos]
    rw [hc]
    simp only [resetReplicaIndex]
    omega

theorem sendPhase_none_keeps (s : St) (hr : s.chan = .ready) (hu : s.stream = .up) :
    (sendPhase s .none).1.chan = .ready ∧ (sendPhase s .none).1.stream = .up := by
  have hag : ∀ t : St, ∀ a : Int, (ackGroup t a).chan = t.chan ∧ (ackGroup t a).stream = t.stream := by
    intro t a; unfold ackGroup; split <;> exact ⟨rfl, rfl⟩
  unfold sendPhase consume
  dsimp only
  split
  · dsimp only
    split
    · exact ⟨hr, hu⟩
    · split
      · unfold ignoreMessage
        split
        · rw [(hag _ _).1, (hag _ _).2]; exact ⟨hr, hu⟩
        · exact ⟨hr, hu⟩
      · unfold replicaSend replicaLog
        dsimp only
        rw [if_neg (by rw [hu]; simp)]
        simp only [show decide (Fault.none = Fault.put) = false from by decide, Bool.false_eq_true, if_false, reduceCtorEq]
        repeat' split
        all_goals (first | exact ⟨hr, hu⟩ | (rw [(hag _ _).1, (hag _ _).2]; exact ⟨hr, hu⟩))
  · dsimp only
    split
    · exact ⟨hr, hu⟩
    · split <;> simp_all

/-- a fault-free `partition.replica` call on a non-ready channel whose follower is live ends synced -/
theorem replicaStep_none_syncs (cfg : Cfg) (s : St) (h : InvA s) (hn : s.chan ≠ .ready) (hl : s.live = true) :
    Synced (replicaStep cfg s .none).1 := by
  have hs := handshake_spec cfg s .none h
  have hok := handshake_none_ok cfg s
  have h1 := hs.ok_ready hok
  have hir : isReady cfg s .none = handshake cfg s .none := by
    unfold isReady; rw [if_neg hn, if_neg (by rw [hl]; simp)]
  unfold replicaStep
  rw [hir]
  generalize handshake cfg s .none = r at hok h1
  obtain ⟨s1, ok⟩ := r
  dsimp only at hok h1 ⊢
  subst hok
  rw [if_pos rfl]
  have hc : connect s1 .none = ({ s1 with stream := .up, chan := .ready }, true) := by
    unfold connect
    rw [if_neg (by rw [h1.2.1]; simp), if_neg (by intro e; cases e)]
  rw [hc]
  dsimp only
  rw [if_pos rfl]
  exact sendPhase_none_keeps _ rfl rfl

/-- a fault-free call on a synced channel stays synced -/
theorem replicaStep_none_stays (cfg : Cfg) (s : St) (hs : Synced s) : Synced (replicaStep cfg s .none).1 := by
  have hir : isReady cfg s .none = (s, true) := by unfold isReady; rw [if_pos hs.1]
  have hc : connect s .none = (s, true) := by
    unfold connect; rw [if_pos (by rw [hs.2]; simp)]
  unfold replicaStep
  rw [hir]
  dsimp only
  rw [if_pos rfl, hc]
  dsimp only
  rw [if_pos rfl]
  exact sendPhase_none_keeps s hs.1 hs.2

/-! ### flags a replica call leaves alone -/

theorem ackGroup_flags (t : St) (a : Int) :
    (ackGroup t a).live = t.live ∧ (ackGroup t a).susp = t.susp ∧ (ackGroup t a).stopped = t.stopped ∧
    (ackGroup t a).gone = t.gone ∧ (ackGroup t a).L = t.L ∧ (ackGroup t a).chan = t.chan ∧
    (ackGroup t a).stream = t.stream ∧ (ackGroup t a).F = t.F ∧ (ackGroup t a).cons = t.cons := by
  unfold ackGroup; split <;> exact ⟨rfl, rfl, rfl, rfl, rfl, rfl, rfl, rfl, rfl⟩

/-- a replica call never changes `live`, `stopped`, `gone`; with a live follower it does not park -/
theorem replicaStep_flags (cfg : Cfg) (s : St) (f : Fault) (hl : s.live = true) (hs : s.susp = false) :
    (replicaStep cfg s f).1.live = true ∧ (replicaStep cfg s f).1.susp = false ∧
    (replicaStep cfg s f).1.stopped = s.stopped ∧ (replicaStep cfg s f).1.gone = s.gone := by
  have hhs : (handshake cfg s f).1.live = s.live ∧ (handshake cfg s f).1.susp = s.susp ∧
      (handshake cfg s f).1.stopped = s.stopped ∧ (handshake cfg s f).1.gone = s.gone := by
    unfold handshake resetReplicaIndex followerReset
    dsimp only
    split
    · exact ⟨rfl, rfl, rfl, rfl⟩
    split
    · exact ⟨rfl, rfl, rfl, rfl⟩
    split
    · exact ⟨rfl, rfl, rfl, rfl⟩
    split
    · split <;> exact ⟨rfl, rfl, rfl, rfl⟩
    · have hag := ackGroup_flags
      split
      · split
        · simp [(hag _ _).1, (hag _ _).2.1, (hag _ _).2.2.1, (hag _ _).2.2.2.1, resetAppendIndex]
        · simp [(hag _ _).1, (hag _ _).2.1, (hag _ _).2.2.1, (hag _ _).2.2.2.1, resetAppendIndex]
      · split
        · simp [(hag _ _).1, (hag _ _).2.1, (hag _ _).2.2.1, (hag _ _).2.2.2.1]
        · simp [(hag _ _).1, (hag _ _).2.1, (hag _ _).2.2.1, (hag _ _).2.2.2.1]
  have hir : (isReady cfg s f).1.live = s.live ∧ (isReady cfg s f).1.susp = s.susp ∧
      (isReady cfg s f).1.stopped = s.stopped ∧ (isReady cfg s f).1.gone = s.gone := by
    unfold isReady
    split
    · exact ⟨rfl, rfl, rfl, rfl⟩
    split
    · rename_i x; rw [hl] at x; cases x
    · exact hhs
  have hcn : ∀ t : St, (connect t f).1.live = t.live ∧ (connect t f).1.susp = t.susp ∧
      (connect t f).1.stopped = t.stopped ∧ (connect t f).1.gone = t.gone := by
    intro t; unfold connect
    split
    · exact ⟨rfl, rfl, rfl, rfl⟩
    split <;> exact ⟨rfl, rfl, rfl, rfl⟩
  have hsp : ∀ t : St, (sendPhase t f).1.live = t.live ∧ (sendPhase t f).1.susp = t.susp ∧
      (sendPhase t f).1.stopped = t.stopped ∧ (sendPhase t f).1.gone = t.gone := by
    intro t
    have hag := ackGroup_flags
    unfold sendPhase consume replicaSend replicaLog ignoreMessage
    dsimp only
    repeat' split
    all_goals (first | exact ⟨rfl, rfl, rfl, rfl⟩ | simp [(hag _ _).1, (hag _ _).2.1, (hag _ _).2.2.1, (hag _ _).2.2.2.1])
  unfold replicaStep
  generalize isReady cfg s f = r at hir
  obtain ⟨s1, ok⟩ := r
  dsimp only at hir ⊢
  cases ok
  · simp only [Bool.false_eq_true, if_false]
    exact ⟨hir.1.trans hl, hir.2.1.trans hs, hir.2.2.1, hir.2.2.2⟩
  · simp only [if_true]
    have h2 := hcn s1
    generalize connect s1 f = r2 at h2
    obtain ⟨s2, ok2⟩ := r2
    dsimp only at h2 ⊢
    cases ok2
    · simp only [Bool.false_eq_true, if_false]
      exact ⟨h2.1.trans (hir.1.trans hl), h2.2.1.trans (hir.2.1.trans hs), h2.2.2.1.trans hir.2.2.1, h2.2.2.2.trans hir.2.2.2⟩
    · simp only [if_true]
      have h3 := hsp s2
      exact ⟨h3.1.trans (h2.1.trans (hir.1.trans hl)), h3.2.1.trans (h2.2.1.trans (hir.2.1.trans hs)),
        h3.2.2.1.trans (h2.2.2.1.trans hir.2.2.1), h3.2.2.2.trans (h2.2.2.2.trans hir.2.2.2)⟩

/-- a ready channel whose stream is dead and that has something to send notices it: the call ends in `failure` -/
theorem replicaStep_broken_fails (cfg : Cfg) (s : St) (f : Fault) (h : InvA s) (hst : s.stopped = false)
    (hr : s.chan = .ready) (hb : s.stream = .broken) (hd : s.cons < s.L.app) :
    (replicaStep cfg s f).1.chan = .failure := by
  have hir : isReady cfg s f = (s, true) := by unfold isReady; rw [if_pos hr]
  have hc : connect s f = (s, true) := by
    unfold connect; rw [if_pos (by rw [hb]; simp)]
  have hl := h.lint
  obtain ⟨m, hm⟩ := hl.holes (s.cons + 1) (by have := h.ackg hst; have := hl.gack_cons; omega) (by omega)
  unfold replicaStep
  rw [hir]
  dsimp only
  rw [if_pos rfl, hc]
  dsimp only
  rw [if_pos rfl]
  unfold sendPhase consume
  rw [if_pos (by omega : s.cons + 1 ≤ s.L.app)]
  dsimp only
  rw [if_neg (by have := lint_cons_ge hl; omega : ¬ s.cons + 1 < 0), hm]
  dsimp only
  unfold replicaSend
  rw [if_pos (Or.inl (by rw [hb]; simp))]

/-- a ready channel whose stream is dead and that has nothing to send stays as it is -/
theorem replicaStep_broken_idle (cfg : Cfg) (s : St) (f : Fault)
    (hr : s.chan = .ready) (hb : s.stream = .broken) (hd : ¬ s.cons < s.L.app) :
    (replicaStep cfg s f).1 = s := by
  have hir : isReady cfg s f = (s, true) := by unfold isReady; rw [if_pos hr]
  have hc : connect s f = (s, true) := by
    unfold connect; rw [if_pos (by rw [hb]; simp)]
  unfold replicaStep
  rw [hir]
  dsimp only
  rw [if_pos rfl, hc]
  dsimp only
  rw [if_pos rfl]
  unfold sendPhase consume
  rw [if_neg (by omega : ¬ s.cons + 1 ≤ s.L.app)]
  dsimp only
  rw [if_pos (by decide)]

/-- Repeated faults: whatever happened before, two consecutive fault-free replica calls of a live,
non-parked follower end with the channel synced — unless the channel is `ready` on a dead stream
with nothing to send (then nothing is pending and the first later message triggers the resync). -/
theorem two_steps_sync (cfg : Cfg) (s : St) (h : InvA s) (hb : s.chan = .ready → s.stream ≠ .none)
    (hst : s.stopped = false) (hl : s.live = true) (hs : s.susp = false) :
    Synced (replicaStep cfg (replicaStep cfg s .none).1 .none).1 ∨
    (s.chan = .ready ∧ s.stream = .broken ∧ s.L.app ≤ s.cons) := by
  have hf := replicaStep_flags cfg s .none hl hs
  have hsp := replicaStep_spec cfg s .none h hst
  by_cases hr : s.chan = .ready
  · cases hstm : s.stream with
    | none => exact absurd hstm (hb hr)
    | up => exact Or.inl (replicaStep_none_stays cfg _ (replicaStep_none_stays cfg s ⟨hr, hstm⟩))
    | broken =>
      by_cases hd : s.cons < s.L.app
      · have hfail := replicaStep_broken_fails cfg s .none h hst hr hstm hd
        refine Or.inl (replicaStep_none_syncs cfg _ hsp.inv ?_ hf.1)
        rw [hfail]; intro e; cases e
      · exact Or.inr ⟨hr, rfl, by omega⟩
  · exact Or.inl (replicaStep_none_stays cfg _ (replicaStep_none_syncs cfg s h hr hl))

/-- one fault-free call on a synced, undisturbed channel: either the next message is appended by the
follower and acknowledged, or there was nothing to send and nothing changes -/
theorem replicaStep_none_progress (cfg : Cfg) (s : St) (h : InvA s) (hst : s.stopped = false)
    (hsy : Synced s) (hdz : s.dz = false) :
    Synced (replicaStep cfg s .none).1 ∧ (replicaStep cfg s .none).1.dz = false ∧
    (replicaStep cfg s .none).1.L = s.L ∧
    (replicaStep cfg s .none).1.F.app = (if s.F.app < s.L.app then s.F.app + 1 else s.F.app) ∧
    (s.F.app < s.L.app → (replicaStep cfg s .none).1.gack = s.F.app + 1 ∧
      (replicaStep cfg s .none).1.F.get (s.F.app + 1) = s.L.get (s.F.app + 1)) := by
  have hc : s.cons = s.F.app := h.sync hsy.1 hdz (by rw [hsy.2]; intro e; cases e)
  have hir : isReady cfg s .none = (s, true) := by unfold isReady; rw [if_pos hsy.1]
  have hcn : connect s .none = (s, true) := by
    unfold connect; rw [if_pos (by rw [hsy.2]; simp)]
  have hl := h.lint
  have hf := h.fint
  unfold replicaStep
  rw [hir]
  dsimp only
  rw [if_pos rfl, hcn]
  dsimp only
  rw [if_pos rfl]
  by_cases hd : s.F.app < s.L.app
  · rw [if_pos hd]
    obtain ⟨m, hm⟩ := hl.holes (s.cons + 1) (by have := h.ackg hst; have := hl.gack_cons; omega) (by omega)
    have hup : ¬ (s.stream ≠ .up ∨ Fault.none = Fault.send) := by rw [hsy.2]; simp
    have hg : s.gack ≤ s.F.app + 1 ∧ s.F.app + 1 ≤ s.cons + 1 := by have := hl.gack_cons; omega
    have h3 : sendPhase s .none =
        ({ s with cons := s.cons + 1, F := s.F.put m, gack := s.F.app + 1 }, Out.acked) := by
      unfold sendPhase consume
      rw [if_pos (by omega : s.cons + 1 ≤ s.L.app)]
      dsimp only
      rw [if_neg (by have := lint_cons_ge hl; omega : ¬ s.cons + 1 < 0), hm]
      dsimp only
      unfold replicaSend replicaLog
      dsimp only
      rw [if_neg hup, if_neg (by omega : ¬ s.cons + 1 ≠ s.F.app + 1)]
      simp only [show decide (Fault.none = Fault.put) = false from by decide, Bool.false_eq_true, if_false]
      rw [if_neg (show ¬ Fault.none = Fault.recv by intro e; cases e), if_pos (by omega : s.F.app + 1 = s.cons + 1)]
      unfold ackGroup
      dsimp only
      rw [if_pos hg]
    rw [h3]
    dsimp only
    refine ⟨⟨hsy.1, hsy.2⟩, hdz, rfl, by simp only [Log.put], fun _ => ⟨rfl, ?_⟩⟩
    rw [get_put_eq hf.ack_app, ← hc, hm]
  · rw [if_neg hd]
    have h3 : sendPhase s .none = (s, Out.idle) := by
      unfold sendPhase consume
      rw [if_neg (by omega : ¬ s.cons + 1 ≤ s.L.app)]
      dsimp only
      rw [if_pos (by decide)]
    rw [h3]
    exact ⟨hsy, hdz, rfl, rfl, fun x => absurd x hd⟩

end LinVerif.Replication
