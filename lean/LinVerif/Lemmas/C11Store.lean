/-
C11 helper lemmas, part 2: the shard (families: mutable memory database ∪ files) refines the
reference slot map for every sequence of writes / flushes / compactions / reopens.
-/
import LinVerif.Lemmas.C11Buf

namespace LinVerif.Lemmas.C11
open LinVerif LinVerif.NaiveQuery LinVerif.MemDB

/-! ### operations -/

inductive Op where
  | write (tick fam ser fld : Nat) (ft : FieldType) (slot : Nat) (v : Int)
  | flush (fam : Nat)
  | compact (fam : Nat)
  | reopen
  deriving Repr

def flushAll (s : Shard) (fams : List Nat) : Shard := fams.foldl (fun s fam => s.flush fam) s

def applyOp (s : Shard) : Op → Shard
  | .write tick fam ser fld ft slot v => s.write tick fam ser fld ft slot v
  | .flush fam => s.flush fam
  | .compact fam => s.compact fam
  | .reopen => s.reopen

def runOps (s : Shard) (ops : List Op) : Shard := ops.foldl applyOp s

def pointOf : Op → List Point
  | .write _ fam ser fld _ slot v => [⟨fam, ser, fld, slot, v⟩]
  | _ => []

def pointsOf (ops : List Op) : List Point := ops.flatMap pointOf

/-- the memory database a write goes to. -/
def curMem (s : Shard) (tick fam : Nat) : MemDB :=
  match (s.family fam).mutable_ with
  | some md => md
  | none => ⟨s.newCreated tick, []⟩

def curPage (s : Shard) (tick fam ser fld : Nat) : Buf :=
  (Map.lookup (curMem s tick fam).pages (ser, fld)).getD (Buf.fresh s.window)

/-- the only condition left on a history: every write uses the type its field is registered with
(the schema is fixed before the writes; lindb rejects a field written with another type). -/
def goodOp (s : Shard) : Op → Bool
  | .write _ _ _ fld ft _ _ => Map.lookup s.fieldTypes fld == some ft
  | _ => true

def goodOps : Shard → List Op → Bool
  | _, [] => true
  | s, op :: rest => goodOp s op && goodOps (applyOp s op) rest

/-! ### the abstraction function -/

def pageView (s : Shard) (fam ser fld t : Nat) : Option Int :=
  match (s.family fam).mutable_ with
  | none => none
  | some md =>
    match Map.lookup md.pages (ser, fld) with
    | none => none
    | some b => memView (s.fieldAgg fld) b t

def filesView (A : AggType) (bs : List Block) (k : PageKey) (t : Nat) : Option Int :=
  bs.foldl (fun acc blk => ocomb A acc (blk.cell k t)) none

/-- abs(state): what the family holds for (series, field, slot): the files in the order they
were written, then the memory database. -/
def storeView (s : Shard) (fam ser fld t : Nat) : Option Int :=
  ocomb (s.fieldAgg fld) (filesView (s.fieldAgg fld) (s.family fam).chron (ser, fld) t) (pageView s fam ser fld t)

/-! ### small facts about maps -/

theorem family_upsert_self (s : Shard) (fam : Nat) (f : Family) (rs : List (Nat × (Nat × Nat)))
    (fts : List (Nat × FieldType)) (kn : List Nat) (nt : Nat) :
    (Shard.mk s.cfg s.window (Map.upsert s.families fam f) rs fts kn nt).family fam = f := by
  simp [Shard.family, Map.lookup_upsert_self]

theorem family_upsert_ne (s : Shard) (fam fam2 : Nat) (f : Family) (rs : List (Nat × (Nat × Nat)))
    (fts : List (Nat × FieldType)) (kn : List Nat) (nt : Nat) (h : fam ≠ fam2) :
    (Shard.mk s.cfg s.window (Map.upsert s.families fam f) rs fts kn nt).family fam2 = s.family fam2 := by
  simp [Shard.family, Map.lookup_upsert_ne _ _ _ _ h]

theorem lookup_map_val {κ : Type} [DecidableEq κ] {α β : Type} (m : List (κ × α)) (f : κ → α → β) (k : κ) :
    Map.lookup (m.map (fun p => (p.1, f p.1 p.2))) k = (Map.lookup m k).map (f k) := by
  induction m with
  | nil => rfl
  | cons p t ih =>
    obtain ⟨k', v⟩ := p
    by_cases h : k' = k
    · subst h; simp [Map.lookup]
    · simp [Map.lookup, h, ih]

theorem lookup_none_of_not_mem {κ : Type} [DecidableEq κ] {α : Type} (m : List (κ × α)) (k : κ)
    (h : k ∉ m.map Prod.fst) : Map.lookup m k = none := by
  induction m with
  | nil => rfl
  | cons p t ih =>
    obtain ⟨k', v⟩ := p
    simp only [List.map_cons, List.mem_cons, not_or] at h
    have h1 : ¬(k' = k) := fun e => h.1 e.symm
    simp [Map.lookup, h1, ih h.2]

theorem mem_keys_of_lookup_some {κ : Type} [DecidableEq κ] {α : Type} (m : List (κ × α)) (k : κ) (v : α)
    (h : Map.lookup m k = some v) : k ∈ m.map Prod.fst := by
  induction m with
  | nil => simp [Map.lookup] at h
  | cons p t ih =>
    obtain ⟨k', v'⟩ := p
    by_cases h1 : k' = k
    · simp [h1]
    · simp only [Map.lookup, h1, if_false] at h
      simp [ih h]

theorem lookup_mk_of_mem {κ : Type} [DecidableEq κ] {β : Type} (l : List κ) (g : κ → β) (k : κ) (h : k ∈ l) :
    Map.lookup (l.map (fun k => (k, g k))) k = some (g k) := by
  induction l with
  | nil => simp at h
  | cons a t ih =>
    by_cases h1 : a = k
    · subst h1; simp [Map.lookup]
    · have : k ∈ t := by
        rcases List.mem_cons.mp h with e | e
        · exact absurd e.symm h1
        · exact e
      simp [Map.lookup, h1, ih this]

theorem lookup_mk_of_not_mem {κ : Type} [DecidableEq κ] {β : Type} (l : List κ) (g : κ → β) (k : κ) (h : k ∉ l) :
    Map.lookup (l.map (fun k => (k, g k))) k = none := by
  apply lookup_none_of_not_mem
  simpa [List.map_map] using h

/-! ### `storeTimeRange` -/

theorem storeTimeRange_self (rs : List (Nat × (Nat × Nat))) (c slot : Nat) :
    ∃ lo hi, Map.lookup (storeTimeRange rs c slot) c = some (lo, hi) ∧ lo ≤ slot ∧ slot ≤ hi ∧
      ∀ lo0 hi0, Map.lookup rs c = some (lo0, hi0) → lo ≤ lo0 ∧ hi0 ≤ hi := by
  unfold storeTimeRange
  cases h : Map.lookup rs c with
  | none =>
    refine ⟨slot, slot, by simp [Map.lookup_upsert_self], Nat.le_refl _, Nat.le_refl _, ?_⟩
    intro lo0 hi0 h0; cases h0
  | some r =>
    obtain ⟨lo0, hi0⟩ := r
    refine ⟨if slot < lo0 then slot else lo0, if slot > hi0 then slot else hi0,
      by simp [Map.lookup_upsert_self], by split <;> omega, by split <;> omega, ?_⟩
    intro a b hab
    cases hab
    constructor <;> split <;> omega

theorem storeTimeRange_ne (rs : List (Nat × (Nat × Nat))) (c c2 slot : Nat) (h : c ≠ c2) :
    Map.lookup (storeTimeRange rs c slot) c2 = Map.lookup rs c2 := by
  unfold storeTimeRange
  cases hc : Map.lookup rs c with
  | none => simp [Map.lookup_upsert_ne _ _ _ _ h]
  | some r => obtain ⟨lo0, hi0⟩ := r; simp [Map.lookup_upsert_ne _ _ _ _ h]

/-! ### the reference under one more point -/

theorem streamOf_append (ps : List Point) (p : Point) (fam ser fld : Nat) :
    streamOf (ps ++ [p]) fam ser fld =
      streamOf ps fam ser fld ++
        (if p.family = fam ∧ p.series = ser ∧ p.field = fld then [(p.slot, p.value)] else []) := by
  unfold streamOf
  by_cases h : p.family = fam ∧ p.series = ser ∧ p.field = fld
  · simp [List.filter_append, h]
  · simp [List.filter_append, h]

theorem refCell_append (A : AggType) (ps : List Point) (p : Point) (fam ser fld t : Nat) :
    refCell A (ps ++ [p]) fam ser fld t =
      if p.family = fam ∧ p.series = ser ∧ p.field = fld ∧ p.slot = t
      then ocomb A (refCell A ps fam ser fld t) (some p.value)
      else refCell A ps fam ser fld t := by
  unfold refCell
  rw [streamOf_append]
  by_cases h : p.family = fam ∧ p.series = ser ∧ p.field = fld
  · simp only [h, and_self, if_true, true_and]
    rw [refSlots_append]
  · have : ¬(p.family = fam ∧ p.series = ser ∧ p.field = fld ∧ p.slot = t) := by
      intro h2; exact h ⟨h2.1, h2.2.1, h2.2.2.1⟩
    simp [h, this]

/-! ### blocks -/

theorem filesView_append (A : AggType) (bs : List Block) (blk : Block) (k : PageKey) (t : Nat) :
    filesView A (bs ++ [blk]) k t = ocomb A (filesView A bs k t) (blk.cell k t) := by
  simp [filesView, List.foldl_append]

theorem filesView_all_none (A : AggType) (bs : List Block) (k : PageKey) (t : Nat)
    (h : ∀ b ∈ bs, b.cell k t = none) : filesView A bs k t = none := by
  unfold filesView
  induction bs with
  | nil => rfl
  | cons b rest ih =>
    simp only [List.foldl_cons]
    rw [h b (by simp)]
    simpa using ih (fun b hb => h b (by simp [hb]))

/-- lower/upper bounds of the merged range. -/
theorem foldl_min_le (bs : List Block) (m0 : Nat) :
    (bs.foldl (fun m (b : Block) => if b.lo < m then b.lo else m) m0 ≤ m0) ∧
    ∀ b ∈ bs, bs.foldl (fun m (b : Block) => if b.lo < m then b.lo else m) m0 ≤ b.lo := by
  induction bs generalizing m0 with
  | nil => simp
  | cons a rest ih =>
    simp only [List.foldl_cons]
    obtain ⟨h1, h2⟩ := ih (if a.lo < m0 then a.lo else m0)
    constructor
    · have : (if a.lo < m0 then a.lo else m0) ≤ m0 := by split <;> omega
      omega
    · intro b hb
      rcases List.mem_cons.mp hb with e | e
      · subst e
        have : (if b.lo < m0 then b.lo else m0) ≤ b.lo := by split <;> omega
        omega
      · exact h2 b e

theorem foldl_max_ge (bs : List Block) (m0 : Nat) :
    (m0 ≤ bs.foldl (fun m (b : Block) => if b.hi > m then b.hi else m) m0) ∧
    ∀ b ∈ bs, b.hi ≤ bs.foldl (fun m (b : Block) => if b.hi > m then b.hi else m) m0 := by
  induction bs generalizing m0 with
  | nil => simp
  | cons a rest ih =>
    simp only [List.foldl_cons]
    obtain ⟨h1, h2⟩ := ih (if a.hi > m0 then a.hi else m0)
    constructor
    · have : m0 ≤ (if a.hi > m0 then a.hi else m0) := by split <;> omega
      omega
    · intro b hb
      rcases List.mem_cons.mp hb with e | e
      · subst e
        have : b.hi ≤ (if b.hi > m0 then b.hi else m0) := by split <;> omega
        omega
      · exact h2 b e

theorem cell_none_of_out (b : Block) (k : PageKey) (t : Nat) (h : t < b.lo ∨ t > b.hi) : b.cell k t = none := by
  unfold Block.cell
  cases Map.lookup b.pages k <;> simp [h]

/-- the merged block holds, for every page and slot, the combination of the inputs' cells. -/
theorem mergeBlocks_cell (fa : Nat → AggType) (bs : List Block) (blk : Block)
    (h : mergeBlocks fa bs = some blk) (k : PageKey) (t : Nat) :
    blk.cell k t = filesView (fa k.2) bs k t := by
  cases bs with
  | nil => simp [mergeBlocks] at h
  | cons b0 rest =>
    simp only [mergeBlocks, Option.some.injEq] at h
    subst h
    -- names for the range
    have hlo := foldl_min_le rest b0.lo
    have hhi := foldl_max_ge rest b0.hi
    have hlo_all : ∀ b ∈ b0 :: rest, rest.foldl (fun m (b : Block) => if b.lo < m then b.lo else m) b0.lo ≤ b.lo := by
      intro b hb
      rcases List.mem_cons.mp hb with e | e
      · subst e; exact hlo.1
      · exact hlo.2 b e
    have hhi_all : ∀ b ∈ b0 :: rest, b.hi ≤ rest.foldl (fun m (b : Block) => if b.hi > m then b.hi else m) b0.hi := by
      intro b hb
      rcases List.mem_cons.mp hb with e | e
      · subst e; exact hhi.1
      · exact hhi.2 b e
    by_cases hk : k ∈ ((b0 :: rest).flatMap (fun b => b.pages.map Prod.fst)).eraseDups
    · unfold Block.cell
      simp only
      rw [lookup_mk_of_mem _ _ k hk]
      simp only
      split
      · -- outside the merged range: every input is outside its own range
        rename_i hout
        symm
        apply filesView_all_none
        intro b hb
        apply cell_none_of_out
        have := hlo_all b hb; have := hhi_all b hb
        omega
      · rename_i hin
        have hin' : ¬(t < rest.foldl (fun m (b : Block) => if b.lo < m then b.lo else m) b0.lo) ∧
            ¬(t > rest.foldl (fun m (b : Block) => if b.hi > m then b.hi else m) b0.hi) := by
          constructor <;> intro hh <;> exact hin (by first | exact Or.inl hh | exact Or.inr hh)
        unfold cellAt
        rw [List.getElem?_map, List.getElem?_range (by omega)]
        simp only [Option.map_some]
        have : rest.foldl (fun m (b : Block) => if b.lo < m then b.lo else m) b0.lo +
            (t - rest.foldl (fun m (b : Block) => if b.lo < m then b.lo else m) b0.lo) = t := by omega
        rw [this]
        rfl
    · -- the page is in none of the inputs
      have hk' : k ∉ (b0 :: rest).flatMap (fun b => b.pages.map Prod.fst) := by
        intro hmem; exact hk (List.mem_eraseDups.mpr hmem)
      unfold Block.cell
      simp only
      rw [lookup_mk_of_not_mem _ _ k hk]
      symm
      apply filesView_all_none
      intro b hb
      unfold Block.cell
      have : k ∉ b.pages.map Prod.fst := by
        intro hmem
        exact hk' (List.mem_flatMap.mpr ⟨b, hb, hmem⟩)
      rw [lookup_none_of_not_mem _ _ this]

end LinVerif.Lemmas.C11
