/-
C05 helper definitions and lemmas, part 5: what the model expects of the regenerated
source facts, the appended-sequence counter along a history, the witness schedules of the
two recorded defects and a sound Boolean checker for "this schedule violates the property".
-/
import LinVerif.Lemmas.C05Conc

namespace LinVerif.Queue

/-! ### the page accesses the model mirrors (compared with LinVerif.Generated.C05) -/

def expectedPersistAccesses : List String :=
  ["indexPageFct.AcquirePage(indexPageIndex)", "indexPage = indexPage", "indexPageIndex = indexPageIndex",
   "indexPage.PutUint64(uint64(dataPageIndex), indexOffset + queueDataPageIndexOffset)",
   "indexPage.PutUint32(uint32(messageOffset), indexOffset + messageOffsetOffset)",
   "indexPage.PutUint32(uint32(dataLen), indexOffset + messageLengthOffset)",
   "metaPage.PutUint64(uint64(seq), queueAppendedSeqOffset)", "appendedSeq.Store(seq)"]

def expectedInitAccesses : List String :=
  ["dataPageIndex = 0", "messageOffset = 0", "dataPageFct.AcquirePage(0)", "indexPageFct.AcquirePage(0)",
   "indexPageIndex = previousSeq / indexItemsPerPage", "indexPageFct.AcquirePage(q.indexPageIndex)",
   "dataPageIndex = int64(q.indexPage.ReadUint64(indexOffset + queueDataPageIndexOffset))",
   "indexPage.ReadUint64(indexOffset + queueDataPageIndexOffset)",
   "indexPage.ReadUint32(indexOffset + messageOffsetOffset)",
   "indexPage.ReadUint32(indexOffset + messageLengthOffset)",
   "messageOffset = int(previousMessageOffset + previousMessageLength)",
   "dataPageFct.AcquirePage(q.dataPageIndex)"]

def expectedGetAccesses : List String :=
  ["indexPageFct.GetPage(indexPageID)", "indexPage.ReadUint64(indexOffset + queueDataPageIndexOffset)",
   "dataPageFct.GetPage(dataPageID)", "indexPage.ReadUint32(indexOffset + messageOffsetOffset)",
   "indexPage.ReadUint32(indexOffset + messageLengthOffset)", "dataPage.ReadBytes(messageOffset, messageLength)"]

def expectedGcAccesses : List String :=
  ["indexPageFct.GetPage(indexPageID)", "indexPage.ReadUint64(indexOffset + queueDataPageIndexOffset)",
   "dataPageFct.TruncatePages(dataPageID)", "indexPageFct.TruncatePages(indexPageID)"]

def expectedAllocAccesses : List String :=
  ["dataPageFct.AcquirePage(nextDataPageIndex)", "dataPage = dataPage", "dataPageIndex = nextDataPageIndex",
   "messageOffset = 0", "messageOffset += dataLen"]

def expectedInitSequenceAccesses : List String :=
  ["appendedSeq.Store(int64(q.metaPage.ReadUint64(queueAppendedSeqOffset)))",
   "metaPage.ReadUint64(queueAppendedSeqOffset)",
   "acknowledgedSeq.Store(int64(q.metaPage.ReadUint64(queueAcknowledgedSeqOffset)))",
   "metaPage.ReadUint64(queueAcknowledgedSeqOffset)"]

def expectedAckAccesses : List String :=
  ["acknowledgedSeq.Store(seq)", "metaPage.PutUint64(uint64(seq), queueAcknowledgedSeqOffset)"]

/-- GC: its two early returns, where each local comes from (the truncation bound `dataPageID`
is the data page id stored in the index item of the acknowledged sequence read at the top —
never the live write cursor), and its complete call sequence (no lock is taken). -/
def expectedGcConds : List String := ["ackSeq < 0", "!ok"]
def expectedGcAssigns : List String :=
  ["ackSeq := q.AcknowledgedSeq()", "indexPageID := ackSeq / indexItemsPerPage",
   "indexPage, ok := q.indexPageFct.GetPage(indexPageID)",
   "indexOffset := int((ackSeq % indexItemsPerPage) * indexItemLength)",
   "dataPageID := int64(indexPage.ReadUint64(indexOffset + queueDataPageIndexOffset))"]
def expectedGcCallSeq : List String :=
  ["q.AcknowledgedSeq", "indexPageFct.GetPage", "int", "indexPage.ReadUint64", "int64",
   "dataPageFct.TruncatePages", "indexPageFct.TruncatePages"]

/-- alloc: the next page id lives in a local until AcquirePage has succeeded -/
def expectedAllocConds : List String := ["q.messageOffset + dataLen > dataPageSize", "err != nil", "err != nil"]
def expectedAllocAssigns : List String :=
  ["err := q.dataPage.Sync()", "nextDataPageIndex := q.dataPageIndex + 1",
   "dataPage, err := q.dataPageFct.AcquirePage(nextDataPageIndex)", "q.dataPage = dataPage",
   "q.dataPageIndex = nextDataPageIndex", "q.messageOffset = 0", "messageOffset := q.messageOffset",
   "q.messageOffset += dataLen"]

/-- Factory.TruncatePages: one loop over the page map, a page is removed iff its ID is below
the bound (`truncateData`/`truncateIndex` filter the live ids by `bound ≤ p`) -/
def expectedTruncatePagesConds : List String :=
  ["f.closed.Load()", "pageID < index", "ok", "err != nil", "err != nil"]
def expectedTruncatePagesLoops : List String := ["for pageID, _ range f.pages"]
def expectedTruncatePagesCallSeq : List String :=
  ["mutex.Lock", "defer:mutex.Unlock", "closed.Load", "page.Close", "logger.String", "logger.Any",
   "logger.Error", "logger.Warn", "f.pageFileName", "removeFileFunc", "logger.String", "logger.Any",
   "logger.Error", "logger.Warn", "delete", "int64", "size.Sub", "logger.String", "logger.Any", "logger.Info"]

/-- SetAppendedSeq touches the two sequences and the two meta words only: no page lookup or
acquisition, no cursor / index page bookkeeping -/
def expectedSetAppendedAccesses : List String :=
  ["appendedSeq.Store(seq)", "acknowledgedSeq.Store(seq)",
   "metaPage.PutUint64(uint64(q.appendedSeq.Load()), queueAppendedSeqOffset)",
   "metaPage.PutUint64(uint64(q.acknowledgedSeq.Load()), queueAcknowledgedSeqOffset)"]
def expectedSetAppendedConds : List String := ["err != nil"]
def expectedSetAppendedAssigns : List String := ["err := q.metaPage.Sync()"]

/-- ReadBytes returns a slice of the mapping (every Get result is its own window of the page,
never a buffer held by the page object) -/
def expectedReadBytesBody : List String := ["return mp.mappedBytes[offset:offset + length]"]

def expectedWriteBytesBody : List String := ["copy(mp.mappedBytes[offset:], data)"]

/-! ### appended sequence along a history -/

/-- the operation, applied in state `st`, leaves one more message in the queue: a Put that is
not rejected, a crashed Put all of whose stores were done, a Put under an AcquirePage fault
that needed no roll-over -/
def Op.completesIn (st : St) : Op → Bool
  | .put m => decide (m.len ≤ dataPageSize)
  | .crashPut m k => decide (m.len ≤ dataPageSize) && decide (m.len + 4 ≤ k)
  | .putFail m => decide (m.len ≤ dataPageSize) && decide (st.q.messageOffset + m.len ≤ dataPageSize)
  | .putFailIdx m => decide (m.len ≤ dataPageSize) && decide (nextSeq st.q / indexItemsPerPage = st.q.indexPageIndex)
  | _ => false

/-- number of completed appends along a history -/
def appendCount (st : St) : List Op → Nat
  | [] => 0
  | op :: ops => (if op.completesIn st then 1 else 0) + appendCount (step st op) ops

theorem put_appended {st : St} (I : Inv st) (m : Msg) :
    (put st m).1.q.appended = st.q.appended + (if m.len ≤ dataPageSize then 1 else 0) := by
  by_cases hl : m.len ≤ dataPageSize
  · obtain ⟨_, _, h, _⟩ := put_inv I m hl
    simp [hl, h]
  · unfold put; rw [if_pos (by omega)]
    simp [hl]

theorem step_appended {st : St} (I : Inv st) (op : Op) (hnr : op.noReset) :
    (step st op).q.appended = st.q.appended + (if op.completesIn st then 1 else 0) := by
  cases op with
  | setAppended s => exact absurd hnr (by simp [Op.noReset])
  | put m =>
    show (put st m).1.q.appended = _
    rw [put_appended I]; simp [Op.completesIn]
  | putFail m =>
    show (putF st m).1.q.appended = _
    rw [putF_eq]
    split
    · rename_i h
      simp only [Op.completesIn]
      rcases h with h | h
      · simp [show ¬ m.len ≤ dataPageSize by omega]
      · simp [show ¬ st.q.messageOffset + m.len ≤ dataPageSize by omega]
    · rename_i h
      rw [put_appended I]
      simp only [Op.completesIn]
      simp [show m.len ≤ dataPageSize by omega, show st.q.messageOffset + m.len ≤ dataPageSize by omega]
  | putFailIdx m =>
    show (putFI st m).1.q.appended = _
    unfold putFI
    split
    · rename_i h; simp [Op.completesIn, show ¬ m.len ≤ dataPageSize by omega]
    · rename_i h
      dsimp only
      split
      · rename_i h2
        simp only [alloc_nextSeq, alloc_indexPageIndex] at h2
        simp [Op.completesIn, h2]
      · rename_i h2
        simp only [alloc_nextSeq, alloc_indexPageIndex] at h2
        rw [put_appended I]
        have h3 : nextSeq st.q / indexItemsPerPage = st.q.indexPageIndex := by omega
        simp [Op.completesIn, show m.len ≤ dataPageSize by omega, h3]
  | get s => simp [step, Op.completesIn]
  | ack s =>
    obtain ⟨_, _, _, h, _⟩ := ack_inv I.core s
    show (ack st s).q.appended = _
    simp [Op.completesIn, h]
  | gc => show (gc st).q.appended = _; rw [gc_q]; simp [Op.completesIn]
  | reopen => show (openQ st.mem).q.appended = _; rw [(reopen_inv I).2.2.1]; simp [Op.completesIn]
  | crashPut m k =>
    show (crashPut st m k).q.appended = _
    unfold crashPut
    split
    · rename_i hl
      rw [(reopen_inv I).2.2.1]; simp [Op.completesIn]; omega
    · rename_i hl
      have hl : m.len ≤ dataPageSize := by omega
      by_cases hk : k < m.len + 4
      · have := (reopen_inv (putStores_frame I m k hk).1).2.2.1
        dsimp only at this
        rw [this]; simp [Op.completesIn]; omega
      · have he : putStores (alloc st.mem st.q m.len) m k = (put st m).1.mem := by
          rw [put_eq st m hl]
          unfold putStores
          rw [if_neg (by omega), persistStores_ge4 _ _ _ _ _ _ (by omega)]
        obtain ⟨I', _, h, _⟩ := put_inv I m hl
        rw [he, (reopen_inv I').2.2.1, h]
        simp [Op.completesIn, hl]; omega

theorem run_appended {st : St} (I : Inv st) (ops : List Op) (hnr : ∀ op ∈ ops, op.noReset) :
    (run st ops).q.appended = st.q.appended + (appendCount st ops : Int) := by
  induction ops generalizing st with
  | nil => simp [run, appendCount]
  | cons op ops ih =>
    have h1 := step_appended I op (hnr op (by simp))
    have h2 := ih (step_inv I op (hnr op (by simp))).1 (fun o ho => hnr o (by simp [ho]))
    show (run (step st op) ops).q.appended = _
    rw [h2, h1]
    simp only [appendCount]
    by_cases hc : op.completesIn st <;> simp [hc] <;> omega

/-! ### witness schedules -/

def msgA : Msg := Msg.ofList [65, 65, 65, 65, 65, 65, 65, 65]
def msgB : Msg := Msg.ofList [66, 66, 66, 66, 66, 66, 66, 66, 66, 66, 66, 66]
def msgC : Msg := Msg.ofList [67, 67, 67, 67, 67, 67, 67, 67, 67, 67, 67, 67, 67, 67, 67, 67]

/-- Puts A and B overlap: A allocates first, B persists first (B gets sequence 0) -/
def wPre : List Ev := [.alloc 0 msgA, .alloc 1 msgB, .write 1]
/-- the event at which B's Put returns sequence 0 -/
def wEv : Ev := .persist 1
/-- A completes (sequence 1), the queue is closed and reopened — the cursor is restored from
sequence 1's item, i.e. to the end of A = the start of B — and C is appended -/
def wPost : List Ev := [.write 0, .persist 0, .reopen, .alloc 2 msgC, .write 2, .persist 2]
/-- the same with a process crash instead of close/reopen -/
def wPostCrash : List Ev := [.write 0, .persist 0, .crash, .alloc 2 msgC, .write 2, .persist 2]

/-- page roll-over between two overlapping Puts: X fills page 0 up to 8 bytes, A takes the
last 8 bytes of page 0, B rolls over to page 1 and persists first (sequence 1, page 1) -/
def gPre : List Ev :=
  [.alloc 9 (Msg.gen 0 134217720), .write 9, .persist 9,
   .alloc 0 msgA, .alloc 1 msgB, .write 1, .persist 1, .write 0]
/-- A's Put returns sequence 2 (page 0) -/
def gEv : Ev := .persist 0
/-- sequence 1 is acknowledged; GC truncates every data page below sequence 1's page, i.e.
page 0, which holds the unacknowledged sequence 2 -/
def gPost : List Ev := [.ack 1, .gc]

/-- GC overlapped by two Puts, the second rolling the data page (everything acknowledged when
GC reads the acknowledged sequence): X fills page 0 up to 20 bytes and is acknowledged; GC
reads ack = 0; A (8 bytes) still fits page 0; B' (64 bytes) rolls to page 1; GC finishes. -/
def msgB64 : Msg := Msg.gen 3 64
def oPre : List Ev :=
  [.alloc 9 (Msg.gen 0 134217708), .ack 0, .gcSnap]
def oEv : Ev := .alloc 0 msgA
def oPost : List Ev := [.alloc 1 msgB64, .gcRead, .gcTruncData, .gcTruncIndex]

/-- Boolean check that a schedule `pre ++ [e] ++ post` violates the property -/
def violates (shape : Shape) (pre : List Ev) (e : Ev) (post : List Ev) : Bool :=
  match crun shape CSt.init pre with
  | some σ1 =>
    match cstep shape σ1 e with
    | some (σ2, .ret s m) =>
      match crun shape σ2 post with
      | some σ3 => decide (σ3.q.acked < s) && !(decide (get σ3.st s = .ok m.bytes))
      | none => false
    | _ => false
  | none => false

theorem violates_sound {shape : Shape} {pre post : List Ev} {e : Ev}
    (h : violates shape pre e post = true) : ¬ ConcurrentPut shape (fun _ => True) := by
  intro hc
  unfold violates at h
  split at h
  · rename_i σ1 h1
    split at h
    · rename_i σ2 s m h2
      split at h
      · rename_i σ3 h3
        simp only [Bool.and_eq_true, decide_eq_true_eq, Bool.not_eq_true', decide_eq_false_iff_not] at h
        exact h.2 (hc pre post e σ1 σ2 σ3 s m (fun _ _ => trivial) trivial (fun _ _ => trivial) h1 h2 h3 h.1)
      · cases h
    · cases h
  · cases h

end LinVerif.Queue
