/-
C02: every atomic step of the model preserves `Safe` when `removeVersion` re-checks the
refcount (cfg.recheck = true).
-/
import LinVerif.Lemmas.C02Steps
set_option linter.unusedSimpArgs false

namespace LinVerif.Lemmas.C02
open LinVerif.VersionSet LinVerif.TableCache

theorem mem_insTok {t x : Nat} {l : List Nat} : x ∈ insTok t l ↔ x = t ∨ x ∈ l := by
  induction l with
  | nil => simp [insTok]
  | cons y ys ih =>
    simp only [insTok]
    split <;> simp [ih] <;> grind

theorem mem_sortNat {x : Nat} {l : List Nat} : x ∈ sortNat l ↔ x ∈ l := by
  induction l with
  | nil => simp [sortNat]
  | cons y ys ih =>
    simp only [sortNat, List.foldr_cons] at ih ⊢
    rw [mem_insTok, ih]; simp

theorem outNo_of_toList {b : Job} {m : FileMeta} (h : m ∈ b.out.toList) : m.no ∈ outNo b := by
  cases hb : b.out with
  | none => simp [hb] at h
  | some m' => simp [hb, outNo] at h ⊢; rw [h]

theorem pickL0_sub {v : VData} {t : Nat} {l0 l1 : List FileMeta} (h : pickL0 v t = some (l0, l1)) :
    ∀ m ∈ l0 ++ l1, m.no ∈ v.nos := by
  simp only [pickL0] at h
  split at h
  · simp at h
  · simp only [Option.some.injEq, Prod.mk.injEq] at h
    obtain ⟨rfl, rfl⟩ := h
    intro m hm
    simp only [List.mem_append, List.mem_filter] at hm
    simp only [VData.nos, List.mem_map]
    rcases hm with hm | hm <;> exact ⟨m, hm.1, rfl⟩

/-- tactic: all clauses of `JobOk` for a modified job record, from the clauses of the old one -/
macro "jobok" : tactic =>
  `(tactic| (constructor <;>
      simp only [compactOnly, preAlloc, outPending, outOnDisk, inCommit, ownRange, csnapRange, editRange, delRange, postSwap,
        PastPending, Dead, DeadR, outNo] at * <;> grind))

theorem safe_jAlloc {s : St} {j : Nat} (c : Content) (level : Nat) (h : Safe s) (hj : j < s.nJob)
    (hpc : (s.job j).pc = .start ∧ (s.job j).kind = .flush ∨ (s.job j).pc = .merging) (hl : s.lock = none) :
    Safe (jAlloc s j c level) := by
  unfold jAlloc
  have hnl : ∀ k, k < s.nJob → (s.job k).pc ≠ .cLocked := by
    intro k hk hc
    have := (h.jobs k hk).lock (by rw [hc]; rfl)
    rw [hl] at this; cases this
  have hb := jobOk_alloc (c := c) (h.jobs j hj) (hnl j hj)
  have hlt : ∀ k, k < s.nJob → ∀ f ∈ outNo (s.job k), f < s.nextFile := fun k hk => (h.jobs k hk).outlt
  apply safe_setJob (safe_alloc c h hnl)
  · obtain ⟨h0, hn0, hn0b, hn0c, hn1, hn2, h1, h2, h3, h4, h5, h6, h7, h8, h9, h10, hrec, hnf, hrd, h11, h12, h13, h14⟩ := hb
    rcases hpc with ⟨hpc, hk⟩ | hpc <;>
    · simp only [hpc] at *
      constructor <;>
      simp only [allocFile, compactOnly, preAlloc, outPending, outOnDisk, inCommit, ownRange, csnapRange, editRange, delRange, postSwap,
        PastPending, Dead, DeadR, outNo] at * <;> grind
  · right
    intro f hf k hk hmem
    have := hlt k hk f hmem
    simp [outNo] at hf
    simp only [allocFile] at *
    omega


theorem safe_jStartCompact {cfg : Cfg} {s : St} {j : Nat} (h : Safe s) (hj : j < s.nJob)
    (hpc : (s.job j).pc = .start) (hk : (s.job j).kind = .compact) : Safe (jStartCompact cfg s j) := by
  unfold jStartCompact
  have h1 := safe_setCompacting true (safe_acquire (some j) h)
  have hb := (h1.jobs j hj)
  have hb0 := h.jobs j hj
  have hcur := h.ver_bound.1
  apply safe_setJob h1
  · obtain ⟨h0, hn0, hn0b, hn0c, hn1, hn2, h1, h2, h3, h4, h5, h6, h7, h8, h9, h10, hrec, hnf, hrd, h11, h12, h13, h14⟩ := hb0
    cases hp : pickL0 (s.ver s.cur) cfg.threshold with
    | none =>
      simp only [hpc] at *
      constructor <;>
      simp only [setCompacting, snapAcquire, compactOnly, preAlloc, outPending, outOnDisk, inCommit, ownRange, csnapRange, editRange, delRange, postSwap,
        PastPending, Dead, DeadR, outNo] at * <;> grind [upd]
    | some p =>
      obtain ⟨l0, l1⟩ := p
      have hsub := pickL0_sub hp
      simp only [hpc] at *
      constructor <;>
      simp only [setCompacting, snapAcquire, compactOnly, preAlloc, outPending, outOnDisk, inCommit, ownRange, csnapRange, editRange, delRange, postSwap,
        PastPending, Dead, DeadR, outNo] at * <;> grind [upd]
  · left
    cases hp : pickL0 (s.ver s.cur) cfg.threshold with
    | none => simp [setCompacting, snapAcquire, outNo]
    | some p => simp [setCompacting, snapAcquire, outNo]


/-- tactic: `JobOk s j x` for a record `x` derived from `s.job j`, given `hb : JobOk s j (s.job j)`
already destructured and the pc equation rewritten -/
macro "jobok_at" : tactic =>
  `(tactic| (constructor <;>
      simp only [compactOnly, preAlloc, outPending, outOnDisk, inCommit, ownRange, csnapRange, editRange, delRange, postSwap,
        PastPending, Dead, DeadR, outNo] at * <;> grind [upd]))

theorem safe_startRollup {s : St} {j : Nat} {rd : List (Nat × Nat)} (h : Safe s) (hj : j < s.nJob) (hpc : (s.job j).pc = .start)
    (hk : (s.job j).kind = .rollupDone ∨ (s.job j).kind = .rollupJob) :
    Safe (s.setJob j { s.job j with edit := { rollDel := rd }, pc := .ready }) := by
  apply safe_setJob h
  · obtain ⟨h0, hn0, hn0b, hn0c, hn1, hn2, h1, h2, h3, h4, h5, h6, h7, h8, h9, h10, hrec, hnf, hrd, h11, h12, h13, h14⟩ := h.jobs j hj
    generalize s.job j = b at *
    obtain ⟨kind, pc, payload, snap, inputs, trivial, todoIn, out, edit, csnap, newVer, prev, prevZero, nfRead, dlist, live, todoDel⟩ := b
    simp only at hpc hk; subst hpc
    rcases hk with hk | hk <;> subst hk <;> jobok_at
  · left; rfl

theorem safe_setPc_plain {s : St} {j : Nat} {pc' : Pc} (h : Safe s)
    (hx : JobOk s j { s.job j with pc := pc' }) : Safe (setPc s j pc') := by
  unfold setPc
  exact safe_setJob h hx (Or.inl rfl)

theorem safe_jPicked {s : St} {j : Nat} (h : Safe s) (hj : j < s.nJob) (hpc : (s.job j).pc = .picked) :
    Safe (jPicked s j) := by
  unfold jPicked
  dsimp only
  obtain ⟨h0, hn0, hn0b, hn0c, hn1, hn2, h1, h2, h3, h4, h5, h6, h7, h8, h9, h10, hrec, hnf, hrd, h11, h12, h13, h14⟩ := h.jobs j hj
  split
  · apply safe_setJob h
    · generalize s.job j = b at *
      obtain ⟨kind, pc, payload, snap, inputs, trivial, todoIn, out, edit, csnap, newVer, prev, prevZero, nfRead, dlist, live, todoDel⟩ := b
      simp only at hpc; subst hpc
      jobok_at
    · left; rfl
  · apply safe_setJob h
    · generalize s.job j = b at *
      obtain ⟨kind, pc, payload, snap, inputs, trivial, todoIn, out, edit, csnap, newVer, prev, prevZero, nfRead, dlist, live, todoDel⟩ := b
      simp only at hpc; subst hpc
      jobok_at
    · left; rfl

theorem safe_jRead {s : St} {j : Nat} (h : Safe s) (hj : j < s.nJob) (hpc : (s.job j).pc = .reading) :
    Safe (jRead s j) := by
  unfold jRead
  dsimp only
  have hb := h.jobs j hj
  obtain ⟨h0, hn0, hn0b, hn0c, hn1, hn2, h1, h2, h3, h4, h5, h6, h7, h8, h9, h10, hrec, hnf, hrd, h11, h12, h13, h14⟩ := hb
  split
  next =>
    apply safe_setPc_plain h
    generalize s.job j = b at *
    obtain ⟨kind, pc, payload, snap, inputs, trivial, todoIn, out, edit, csnap, newVer, prev, prevZero, nfRead, dlist, live, todoDel⟩ := b
    simp only at hpc; subst hpc
    jobok_at
  next f rest htodo =>
    split
    · have hs1 : Safe (s.setJob j { s.job j with todoIn := rest }) := by
        apply safe_setJob h
        · generalize s.job j = b at *
          obtain ⟨kind, pc, payload, snap, inputs, trivial, todoIn, out, edit, csnap, newVer, prev, prevZero, nfRead, dlist, live, todoDel⟩ := b
          simp only at hpc htodo; subst hpc htodo
          jobok_at
        · left; rfl
      have hown := h5 (h0 (by rw [hpc]; rfl)) (by rw [hpc]; rfl)
      exact safe_getReader true hs1 hown.1 hown.2.1 (h9 hpc f (by simp [htodo]))
    · apply safe_setPc_plain h
      generalize s.job j = b at *
      obtain ⟨kind, pc, payload, snap, inputs, trivial, todoIn, out, edit, csnap, newVer, prev, prevZero, nfRead, dlist, live, todoDel⟩ := b
      simp only at hpc; subst hpc
      jobok_at

theorem flushMarks_fst (cfg : Cfg) (b : Job) : ∀ f ∈ (flushMarks cfg b).map (·.1), f ∈ outNo b := by
  intro f hf
  simp only [flushMarks, List.mem_map, List.mem_flatMap] at hf
  obtain ⟨p, ⟨g, hg, iv, _, rfl⟩, rfl⟩ := hf
  exact hg

set_option maxHeartbeats 1000000 in
theorem safe_jCreate {cfg : Cfg} {s : St} {j : Nat} (h : Safe s) (hj : j < s.nJob) (hpc : (s.job j).pc = .allocd) :
    Safe (jCreate cfg s j) := by
  unfold jCreate
  dsimp only
  have hfm := flushMarks_fst cfg (s.job j)
  have hb0 := h.jobs j hj
  have h1 := safe_create (fs := outNo (s.job j)) h hb0.outlt
  have hb := jobOk_create (fs := outNo (s.job j)) hb0
  apply safe_setJob h1
  · obtain ⟨h0, hn0, hn0b, hn0c, hn1, hn2, h1, h2, h3, h4, h5, h6, h7, h8, h9, h10, hrec, hnf, hrd, h11, h12, h13, h14⟩ := hb
    generalize s.job j = b at *
    obtain ⟨kind, pc, payload, snap, inputs, trivial, todoIn, out, edit, csnap, newVer, prev, prevZero, nfRead, dlist, live, todoDel⟩ := b
    simp only at hpc; subst hpc
    cases kind <;> cases out <;>
    · constructor <;>
      simp only [createFiles, compactOnly, preAlloc, outPending, outOnDisk, inCommit, ownRange, csnapRange, editRange, delRange, postSwap,
        PastPending, Dead, DeadR, outNo, Option.toList] at * <;> grind
  · left; rfl

end LinVerif.Lemmas.C02
