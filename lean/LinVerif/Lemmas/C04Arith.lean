/-
Arithmetic lemmas for C04 (slot placement of the rollup).
-/
import Mathlib.Tactic.Ring
import Mathlib.Tactic.Linarith
import Mathlib.Tactic.NormNum
import Mathlib.Tactic.Lift
import Mathlib.Tactic.Zify
import LinVerif.Model.Rollup

namespace LinVerif.Lemmas.C04
open LinVerif.Rollup

/-- The division identity behind `baseSlot + slot / ratio`: the source family starts `o` after the
target family, `o` is a multiple of the source family length `F`, the source slot lies inside the
source family (`s * src < F`), `src ∣ tgt`, and `tgt` divides or is a multiple of `F`. -/
theorem core_div (o s src tgt F : Nat) (hsrc : 0 < src) (htgt : 0 < tgt) (hd : src ∣ tgt)
    (hF : tgt ∣ F ∨ F ∣ tgt) (ho : F ∣ o) (hx : s * src < F) :
    (o + s * src) / tgt = o / tgt + s / (tgt / src) := by
  obtain ⟨k, rfl⟩ := hd
  have hk : 0 < k := Nat.pos_of_mul_pos_left htgt |> fun h => by
    rcases Nat.eq_zero_or_pos k with h0 | h0
    · subst h0; simp at htgt
    · exact h0
  have hratio : src * k / src = k := Nat.mul_div_cancel_left k hsrc
  rw [hratio]
  rcases hF with hF | hF
  · -- tgt ∣ F ∣ o
    obtain ⟨q, rfl⟩ := Nat.dvd_trans hF ho
    rw [Nat.mul_add_div htgt, Nat.mul_div_cancel_left q htgt]
    congr 1
    rw [Nat.mul_comm s src, Nat.mul_div_mul_left _ _ hsrc]
  · -- F ∣ tgt, the source family lies inside one target slot
    obtain ⟨m, hm⟩ := hF
    obtain ⟨j, rfl⟩ := ho
    have hFpos : 0 < F := by
      rcases Nat.eq_zero_or_pos F with h0 | h0
      · subst h0; simp at hx
      · exact h0
    have hsk : s < k := by
      have : s * src < src * k := by
        calc s * src < F := hx
          _ ≤ F * m := Nat.le_mul_of_pos_right F (by
              rcases Nat.eq_zero_or_pos m with h0 | h0
              · subst h0; simp at hm; omega
              · exact h0)
          _ = src * k := hm.symm
      rw [Nat.mul_comm s src] at this
      exact Nat.lt_of_mul_lt_mul_left this
    rw [Nat.div_eq_of_lt hsk, Nat.add_zero, hm, ← Nat.div_div_eq_div_mul, ← Nat.div_div_eq_div_mul,
      Nat.mul_add_div hFpos, Nat.div_eq_of_lt hx, Nat.add_zero, Nat.mul_div_cancel_left j hFpos]


theorem tdiv_cast (a b : Nat) : Int.tdiv (a : Int) (b : Int) = ((a / b : Nat) : Int) := rfl
theorem tmod_cast (a b : Nat) : Int.tmod (a : Int) (b : Int) = ((a % b : Nat) : Int) := rfl

theorem u16_of_lt (x : Nat) (h : x < 65536) : u16 (x : Int) = (x : Int) := by
  unfold u16; omega

theorem itype_year_iff (i : Int) : itype i = .year ↔ 3600000 ≤ i := by
  unfold itype oneHour oneMinute; split
  · simp; omega
  · split <;> simp <;> omega

theorem itype_month_iff (i : Int) : itype i = .month ↔ 300000 ≤ i ∧ i < 3600000 := by
  unfold itype oneHour oneMinute; split
  · simp; omega
  · split <;> simp <;> omega

theorem itype_day_iff (i : Int) : itype i = .day ↔ i < 300000 := by
  unfold itype oneHour oneMinute; split
  · simp; omega
  · split <;> simp <;> omega

/-- both shapes of the month slot rule give the quotient when the offset lies inside one day -/
theorem monthSlot_eq (q : Bool) (x : Nat) (hx : x < 86400000) (ts base : Int) (iv : Nat)
    (h : ts - base = (x : Int)) : monthSlot q ts base (iv : Int) = ((x / iv : Nat) : Int) := by
  have hd : oneDay = ((86400000 : Nat) : Int) := rfl
  cases q
  · simp only [monthSlot, h, hd, Bool.false_eq_true, if_false]
    rw [tmod_cast, Nat.mod_eq_of_lt hx, tdiv_cast]
  · simp only [monthSlot, h, if_true]
    rw [tdiv_cast]

/-- the two shapes agree on every timestamp of a month-type family (UTC: a family is one day) -/
theorem month_slot_variants_agree (ts base iv : Int) (h0 : 0 ≤ ts - base) (h1 : ts - base < oneDay) :
    monthSlot true ts base iv = monthSlot false ts base iv := by
  simp only [monthSlot, Bool.false_eq_true, if_false, if_true]
  rw [Int.tmod_eq_emod_of_nonneg h0, Int.emod_eq_of_lt h0 h1]

/-- the interval guard: `src ∣ tgt`, `tgt` divides or is a multiple of the source family length
`F`, and the ratio fits the `uint16` the code stores it in -/
structure Guard (src tgt F : Nat) : Prop where
  src_pos : 0 < src
  dvd : src ∣ tgt
  fam : tgt ∣ F ∨ F ∣ tgt
  ratio : tgt / src < 65536

/-- year-type target (`CalcSlot = (ts - base) / interval`): the source family starts `o` after the
target family start `tF`. -/
theorem place_year (tF : Int) (o s src tgt F : Nat) (g : Guard src tgt F)
    (hty : itype (tgt : Int) = .year) (ho : F ∣ o) (hs : s * src < F)
    (hb : (o + s * src) / tgt < 65536) :
    let r : R := ⟨src, tgt, tF + o, tF⟩
    r.baseSlot + (s : Int) / r.intervalRatio = r.calcSlot (r.getTimestamp s)
    ∧ r.calcSlot (r.getTimestamp s) = (((o + s * src) / tgt : Nat) : Int) := by
  have htgt : 0 < tgt := by
    have := (itype_year_iff tgt).1 hty; omega
  have hcore := core_div o s src tgt F g.src_pos htgt g.dvd g.fam ho hs
  have hb0 : o / tgt < 65536 := by
    have : o / tgt ≤ (o + s * src) / tgt := Nat.div_le_div_right (Nat.le_add_right _ _)
    omega
  intro r
  have e1 : r.getTimestamp s - tF = ((o + s * src : Nat) : Int) := by
    simp only [r, R.getTimestamp]; push_cast; ring
  have e2 : r.sourceFTime - tF = ((o : Nat) : Int) := by simp only [r]; ring
  have hc : r.calcSlot (r.getTimestamp s) = (((o + s * src) / tgt : Nat) : Int) := by
    rw [R.calcSlot, show itype r.target = .year from hty]
    show u16 (Int.tdiv (r.getTimestamp s - tF) (tgt : Int)) = _
    rw [e1, tdiv_cast, u16_of_lt _ hb]
  have hbs : r.baseSlot = ((o / tgt : Nat) : Int) := by
    rw [R.baseSlot, R.calcSlot, show itype r.target = .year from hty]
    show u16 (Int.tdiv (r.sourceFTime - tF) (tgt : Int)) = _
    rw [e2, tdiv_cast, u16_of_lt _ hb0]
  have hr : r.intervalRatio = ((tgt / src : Nat) : Int) := by
    simp only [R.intervalRatio, r]
    rw [tdiv_cast, u16_of_lt _ g.ratio]
  refine ⟨?_, hc⟩
  rw [hc, hbs, hr, hcore]
  push_cast
  rfl


/-- month-type target (`CalcSlot = ((ts - base) % OneDay) / interval`): as `place_year`, and the
source slot lies in the day that starts at `tF`. -/
theorem place_month (tF : Int) (o s src tgt F : Nat) (g : Guard src tgt F)
    (hty : itype (tgt : Int) = .month) (ho : F ∣ o) (hs : s * src < F)
    (hday : o + s * src < 86400000) :
    let r : R := ⟨src, tgt, tF + o, tF⟩
    r.baseSlot + (s : Int) / r.intervalRatio = r.calcSlot (r.getTimestamp s)
    ∧ r.calcSlot (r.getTimestamp s) = (((o + s * src) / tgt : Nat) : Int) := by
  have hm := (itype_month_iff tgt).1 hty
  have htgt : 0 < tgt := by omega
  have htgt' : 300000 ≤ tgt := by omega
  have hcore := core_div o s src tgt F g.src_pos htgt g.dvd g.fam ho hs
  have hb : (o + s * src) / tgt < 65536 := by
    have h1 : (o + s * src) / tgt ≤ (o + s * src) / 300000 := Nat.div_le_div_left htgt' (by norm_num)
    omega
  have hb0 : o / tgt < 65536 := by
    have : o / tgt ≤ (o + s * src) / tgt := Nat.div_le_div_right (Nat.le_add_right _ _)
    omega
  intro r
  have e1 : r.getTimestamp s - tF = ((o + s * src : Nat) : Int) := by
    simp only [r, R.getTimestamp]; push_cast; ring
  have e2 : r.sourceFTime - tF = ((o : Nat) : Int) := by simp only [r]; ring
  have hd : oneDay = ((86400000 : Nat) : Int) := rfl
  have hc : r.calcSlot (r.getTimestamp s) = (((o + s * src) / tgt : Nat) : Int) := by
    rw [R.calcSlot, show itype r.target = .month from hty]
    show u16 (monthSlot _ (r.getTimestamp s) tF (tgt : Int)) = _
    rw [monthSlot_eq _ (o + s * src) hday _ _ _ e1, u16_of_lt _ hb]
  have hbs : r.baseSlot = ((o / tgt : Nat) : Int) := by
    rw [R.baseSlot, R.calcSlot, show itype r.target = .month from hty]
    show u16 (monthSlot _ r.sourceFTime tF (tgt : Int)) = _
    rw [monthSlot_eq _ o (by omega) _ _ _ e2, u16_of_lt _ hb0]
  have hr : r.intervalRatio = ((tgt / src : Nat) : Int) := by
    simp only [R.intervalRatio, r]
    rw [tdiv_cast, u16_of_lt _ g.ratio]
  refine ⟨?_, hc⟩
  rw [hc, hbs, hr, hcore]
  push_cast
  rfl

/-- the slot of a source timestamp, year-type target; no interval guard needed -/
theorem calcSlot_year_eq (tF : Int) (o s src tgt : Nat) (hty : itype (tgt : Int) = .year)
    (hb : (o + s * src) / tgt < 65536) :
    (⟨src, tgt, tF + o, tF⟩ : R).calcSlot ((⟨src, tgt, tF + o, tF⟩ : R).getTimestamp s) =
      (((o + s * src) / tgt : Nat) : Int) := by
  set r : R := ⟨src, tgt, tF + o, tF⟩ with hr
  have e1 : r.getTimestamp s - tF = ((o + s * src : Nat) : Int) := by
    simp only [r, R.getTimestamp]; push_cast; ring
  rw [R.calcSlot, show itype r.target = .year from hty]
  show u16 (Int.tdiv (r.getTimestamp s - tF) (tgt : Int)) = _
  rw [e1, tdiv_cast, u16_of_lt _ hb]

/-- the slot of a source timestamp, month-type target; no interval guard needed -/
theorem calcSlot_month_eq (tF : Int) (o s src tgt : Nat) (hty : itype (tgt : Int) = .month)
    (hday : o + s * src < 86400000) :
    (⟨src, tgt, tF + o, tF⟩ : R).calcSlot ((⟨src, tgt, tF + o, tF⟩ : R).getTimestamp s) =
      (((o + s * src) / tgt : Nat) : Int) := by
  have hm := (itype_month_iff tgt).1 hty
  have htgt' : 300000 ≤ tgt := by omega
  have hb : (o + s * src) / tgt < 65536 := by
    have h1 : (o + s * src) / tgt ≤ (o + s * src) / 300000 := Nat.div_le_div_left htgt' (by norm_num)
    omega
  set r : R := ⟨src, tgt, tF + o, tF⟩ with hr
  have e1 : r.getTimestamp s - tF = ((o + s * src : Nat) : Int) := by
    simp only [r, R.getTimestamp]; push_cast; ring
  have hd : oneDay = ((86400000 : Nat) : Int) := rfl
  rw [R.calcSlot, show itype r.target = .month from hty]
  show u16 (monthSlot _ (r.getTimestamp s) tF (tgt : Int)) = _
  rw [monthSlot_eq _ (o + s * src) hday _ _ _ e1, u16_of_lt _ hb]

/-- the time window of a slot: `x / tgt` is the slot whose window contains offset `x` -/
theorem slot_window (x tgt : Nat) (htgt : 0 < tgt) :
    tgt * (x / tgt) ≤ x ∧ x < tgt * (x / tgt + 1) := by
  constructor
  · exact Nat.mul_div_le x tgt
  · exact Nat.lt_mul_div_succ x htgt

/-! ### locating the target family (body of `family.rollup()`), day-type source -/

theorem dayNo_mul (d : Int) : dayNo (d * oneDay) = d := by
  unfold dayNo oneDay; omega

theorem dayNo_in_day (d x : Int) (h0 : 0 ≤ x) (h1 : x < 86400000) : dayNo (d * oneDay + x) = d := by
  unfold dayNo oneDay; omega

/-- month-type target: the target family is the day of the source family -/
theorem locate_month (c : Cal) (src tgt D h : Int) (hc : c.OkAt D) (hs : itype src = .day)
    (ht : itype tgt = .month) (hh : 0 ≤ h ∧ h < 24) :
    locate c src tgt (D * oneDay) h =
      { srcFamStart := D * oneDay + h * oneHour, tSegTime := c.monthStart D * oneDay,
        tFamily := D - c.monthStart D + 1, tFamStart := D * oneDay } := by
  have hd : dayNo (D * oneDay + h * oneHour) = D := by
    apply dayNo_in_day
    · unfold oneHour; omega
    · unfold oneHour; omega
  simp only [locate, hs, ht, calcFamilyStartTime, calcSegmentTime, calcFamily, hd, dayNo_mul, hc.idem]
  congr 1
  ring

/-- year-type target: the target family is the month of the source family -/
theorem locate_year (c : Cal) (src tgt D h : Int) (hc : c.OkAt D) (hs : itype src = .day)
    (ht : itype tgt = .year) (hh : 0 ≤ h ∧ h < 24) :
    locate c src tgt (D * oneDay) h =
      { srcFamStart := D * oneDay + h * oneHour, tSegTime := c.yearStart D * oneDay,
        tFamily := c.monthNo D, tFamStart := c.monthStart D * oneDay } := by
  have hd : dayNo (D * oneDay + h * oneHour) = D := by
    apply dayNo_in_day
    · unfold oneHour; omega
    · unfold oneHour; omega
  simp only [locate, hs, ht, calcFamilyStartTime, calcSegmentTime, calcFamily, hd, dayNo_mul, hc.inYear]

/-- `place_year` in terms of natural numbers: base slot, ratio and slot of a source timestamp -/
theorem place_year_nat (tF : Int) (o s src tgt F : Nat) (g : Guard src tgt F)
    (hty : itype (tgt : Int) = .year) (ho : F ∣ o) (hs : s * src < F)
    (hb : (o + s * src) / tgt < 65536) :
    let r : R := ⟨src, tgt, tF + o, tF⟩
    r.baseSlot = ((o / tgt : Nat) : Int) ∧ r.intervalRatio = ((tgt / src : Nat) : Int) ∧
    r.calcSlot (r.getTimestamp s) = (((o + s * src) / tgt : Nat) : Int) ∧
    o / tgt + s / (tgt / src) = (o + s * src) / tgt := by
  have htgt : 0 < tgt := by
    have := (itype_year_iff tgt).1 hty; omega
  have hcore := core_div o s src tgt F g.src_pos htgt g.dvd g.fam ho hs
  have hb0 : o / tgt < 65536 := by
    have : o / tgt ≤ (o + s * src) / tgt := Nat.div_le_div_right (Nat.le_add_right _ _)
    omega
  intro r
  have e2 : r.sourceFTime - tF = ((o : Nat) : Int) := by simp only [r]; ring
  refine ⟨?_, ?_, calcSlot_year_eq tF o s src tgt hty hb, hcore.symm⟩
  · rw [R.baseSlot, R.calcSlot, show itype r.target = .year from hty]
    show u16 (Int.tdiv (r.sourceFTime - tF) (tgt : Int)) = _
    rw [e2, tdiv_cast, u16_of_lt _ hb0]
  · simp only [R.intervalRatio, r]
    rw [tdiv_cast, u16_of_lt _ g.ratio]

/-- `place_month` in terms of natural numbers -/
theorem place_month_nat (tF : Int) (o s src tgt F : Nat) (g : Guard src tgt F)
    (hty : itype (tgt : Int) = .month) (ho : F ∣ o) (hs : s * src < F)
    (hday : o + s * src < 86400000) :
    let r : R := ⟨src, tgt, tF + o, tF⟩
    r.baseSlot = ((o / tgt : Nat) : Int) ∧ r.intervalRatio = ((tgt / src : Nat) : Int) ∧
    r.calcSlot (r.getTimestamp s) = (((o + s * src) / tgt : Nat) : Int) ∧
    o / tgt + s / (tgt / src) = (o + s * src) / tgt := by
  have hm := (itype_month_iff tgt).1 hty
  have htgt : 0 < tgt := by omega
  have htgt' : 300000 ≤ tgt := by omega
  have hcore := core_div o s src tgt F g.src_pos htgt g.dvd g.fam ho hs
  have hb0 : o / tgt < 65536 := by
    have h1 : o / tgt ≤ o / 300000 := Nat.div_le_div_left htgt' (by norm_num)
    omega
  intro r
  have e2 : r.sourceFTime - tF = ((o : Nat) : Int) := by simp only [r]; ring
  have hd : oneDay = ((86400000 : Nat) : Int) := rfl
  refine ⟨?_, ?_, calcSlot_month_eq tF o s src tgt hty hday, hcore.symm⟩
  · rw [R.baseSlot, R.calcSlot, show itype r.target = .month from hty]
    show u16 (monthSlot _ r.sourceFTime tF (tgt : Int)) = _
    rw [monthSlot_eq _ o (by omega) _ _ _ e2, u16_of_lt _ hb0]
  · simp only [R.intervalRatio, r]
    rw [tdiv_cast, u16_of_lt _ g.ratio]

/-- month-type source (family = day `f` of the month starting at day number `M`), year-type target:
the target family is the month -/
theorem locate_month_to_year (c : Cal) (src tgt M f : Int) (hc : c.OkAt (M + (f - 1)))
    (hM : c.monthStart (M + (f - 1)) = M) (hs : itype src = .month) (ht : itype tgt = .year) :
    locate c src tgt (M * oneDay) f =
      { srcFamStart := (M + (f - 1)) * oneDay, tSegTime := c.yearStart (M + (f - 1)) * oneDay,
        tFamily := c.monthNo (M + (f - 1)), tFamStart := M * oneDay } := by
  have hMM : c.monthStart M = M := by
    have := hc.idem; rw [hM] at this; exact this
  simp only [locate, hs, ht, calcFamilyStartTime, calcSegmentTime, calcFamily, dayNo_mul, hMM, hc.inYear, hM]


/-- the facts about a day-type source family and a month-type target shared by the two placements -/
theorem month_setup (c : Cal) (D h src tgt : Nat) (hc : c.OkAt D) (hh : h < 24)
    (hst : itype (src : Int) = .day) (htt : itype (tgt : Int) = .month) (sEnd : Nat) (hend : sEnd * src < 3600000) :
    mkR c src tgt ((D : Int) * oneDay) h = ⟨src, tgt, (D : Int) * oneDay + ((h * 3600000 : Nat) : Int), (D : Int) * oneDay⟩
    ∧ (∀ s, s ≤ sEnd → (mkR c src tgt ((D : Int) * oneDay) h).calcSlot
          ((mkR c src tgt ((D : Int) * oneDay) h).getTimestamp s) = (((h * 3600000 + s * src) / tgt : Nat) : Int))
    ∧ (∀ s t, s ≤ t → t ≤ sEnd → (h * 3600000 + s * src) / tgt ≤ (h * 3600000 + t * src) / tgt)
    ∧ (h * 3600000 + sEnd * src) / tgt < 65536 := by
  have hloc := locate_month c src tgt D h hc hst htt ⟨by omega, by omega⟩
  have hr : mkR c src tgt ((D : Int) * oneDay) h =
      ⟨src, tgt, (D : Int) * oneDay + ((h * 3600000 : Nat) : Int), (D : Int) * oneDay⟩ := by
    simp only [mkR, hloc]; congr 1
  have hm := (itype_month_iff tgt).1 htt
  have hlt : ∀ s, s ≤ sEnd → s * src < 3600000 := fun s hs =>
    Nat.lt_of_le_of_lt (Nat.mul_le_mul_right src hs) hend
  refine ⟨hr, ?_, ?_, ?_⟩
  · intro s hs
    rw [hr]
    exact calcSlot_month_eq _ _ s src tgt htt (by have := hlt s hs; omega)
  · intro s t hst' _
    exact Nat.div_le_div_right (by have := Nat.mul_le_mul_right src hst'; omega)
  · have h1 : (h * 3600000 + sEnd * src) / tgt ≤ (h * 3600000 + sEnd * src) / 300000 :=
      Nat.div_le_div_left (by omega) (by norm_num)
    have := hlt sEnd (Nat.le_refl _)
    omega

/-- the same for a year-type target; `o` = offset of the source family in the month -/
theorem year_setup (c : Cal) (D h src tgt : Nat) (hc : c.OkAt D) (hh : h < 24)
    (hst : itype (src : Int) = .day) (htt : itype (tgt : Int) = .year) (sEnd : Nat) (hend : sEnd * src < 3600000) :
    ∃ o : Nat, (3600000 : Nat) ∣ o ∧
    mkR c src tgt ((D : Int) * oneDay) h = ⟨src, tgt, c.monthStart D * oneDay + ((o : Nat) : Int), c.monthStart D * oneDay⟩
    ∧ (∀ s, s ≤ sEnd → (mkR c src tgt ((D : Int) * oneDay) h).calcSlot
          ((mkR c src tgt ((D : Int) * oneDay) h).getTimestamp s) = (((o + s * src) / tgt : Nat) : Int))
    ∧ (∀ s t, s ≤ t → t ≤ sEnd → (o + s * src) / tgt ≤ (o + t * src) / tgt)
    ∧ (∀ s, s ≤ sEnd → (o + s * src) / tgt < 65536) := by
  have hloc := locate_year c src tgt D h hc hst htt ⟨by omega, by omega⟩
  obtain ⟨k, hk⟩ : ∃ k : Nat, (D : Int) - c.monthStart D = k :=
    ⟨((D : Int) - c.monthStart D).toNat, by have := hc.le; omega⟩
  have hk32 : k < 32 := by have := hc.span; omega
  have htgt36 : 3600000 ≤ tgt := by have := (itype_year_iff tgt).1 htt; omega
  refine ⟨k * 86400000 + h * 3600000, ⟨k * 24 + h, by omega⟩, ?_⟩
  set o : Nat := k * 86400000 + h * 3600000 with ho
  have hr : mkR c src tgt ((D : Int) * oneDay) h =
      ⟨src, tgt, c.monthStart D * oneDay + ((o : Nat) : Int), c.monthStart D * oneDay⟩ := by
    simp only [mkR, hloc]
    congr 1
    simp only [ho, oneDay, oneHour]
    push_cast
    omega
  have hlt : ∀ s, s ≤ sEnd → s * src < 3600000 := fun s hs =>
    Nat.lt_of_le_of_lt (Nat.mul_le_mul_right src hs) hend
  have hb : ∀ s, s ≤ sEnd → (o + s * src) / tgt < 65536 := by
    intro s hs
    have h1 : (o + s * src) / tgt ≤ (o + s * src) / 3600000 := Nat.div_le_div_left htgt36 (by norm_num)
    have := hlt s hs
    omega
  refine ⟨hr, ?_, ?_, hb⟩
  · intro s hs
    rw [hr]
    exact calcSlot_year_eq _ o s src tgt htt (hb s hs)
  · intro s t hst' _
    exact Nat.div_le_div_right (by have := Nat.mul_le_mul_right src hst'; omega)

end LinVerif.Lemmas.C04
