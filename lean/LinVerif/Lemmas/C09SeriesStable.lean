/-
C09 round 12 — a series keeps its id along every history of `FOp`s that has no crash / reopen in it:
get-or-create calls of every kind, PrepareFlush / Flush of both databases, failed metadata flushes, index
flushes with a fault on any step (retried or not), refused metric names, evictions from the LRU sequence cache.

`ShardInv` (lock-step of dictionary and postings) does not survive a faulted round; what the lookup needs is much
less: the snapshot is the committed content (`CoverInv.snapDisk`) and the `IsEmpty()` flags of the series
dictionary are accurate (`FlagsOk`: dropping an "empty" immutable table in PrepareFlush loses no entry).
-/
import LinVerif.Lemmas.C09FlushFault

namespace LinVerif.IdAssign

/-- the `IsEmpty()` flags of a dictionary are accurate -/
structure FlagsOk (s : KvStore) : Prop where
  mutE : s.mutEmpty = true → ∀ b n, s.mutable b n = none
  immE : ∀ d, s.immutable = some (d, true) → ∀ b n, d b n = none

theorem flagsOk_init : FlagsOk {} :=
  ⟨fun _ _ _ => rfl, fun d h => by cases h⟩

theorem flagsOk_insert {s : KvStore} (f : FlagsOk s) (b n i : Nat) : FlagsOk (s.insert b n i) :=
  ⟨fun h => by simp [KvStore.insert] at h, fun d h => f.immE d h⟩

theorem flagsOk_touched {s : KvStore} (f : FlagsOk s) : FlagsOk { s with mutEmpty := false } :=
  ⟨fun h => by simp at h, fun d h => f.immE d h⟩

theorem flagsOk_dropEmpty {s : KvStore} (f : FlagsOk s) : FlagsOk s.dropEmpty := by
  unfold KvStore.dropEmpty
  cases him : s.immutable with
  | none => exact f
  | some p =>
    obtain ⟨d, e⟩ := p
    cases e with
    | false => exact f
    | true => exact ⟨f.mutE, fun d' h => by simp at h⟩

theorem flagsOk_prepare {s : KvStore} (f : FlagsOk s) : FlagsOk s.prepareFlush := by
  unfold KvStore.prepareFlush
  cases him : s.immutable with
  | some p => exact f
  | none =>
    refine ⟨fun _ _ _ => rfl, ?_⟩
    intro d h b n
    have h' : some (s.mutable, s.mutEmpty) = some (d, true) := h
    injection h' with h'
    injection h' with h1 h2
    rw [← h1]
    exact f.mutE h2 b n

theorem flagsOk_flush {s : KvStore} (f : FlagsOk s) : FlagsOk s.flush := by
  cases h : s.immutable with
  | none =>
    have : s.flush = s := by simp [KvStore.flush, KvStore.commit, KvStore.finish, h]
    rw [this]; exact f
  | some p =>
    obtain ⟨d, e⟩ := p
    cases e with
    | true =>
      have : s.flush = s := by simp [KvStore.flush, KvStore.commit, KvStore.finish, h]
      rw [this]; exact f
    | false =>
      have e_imm : s.flush.immutable = none := by simp [KvStore.flush, KvStore.commit, KvStore.finish, h]
      have e_mut : s.flush.mutable = s.mutable := by simp [KvStore.flush, KvStore.commit, KvStore.finish, h]
      have e_me : s.flush.mutEmpty = s.mutEmpty := by simp [KvStore.flush, KvStore.commit, KvStore.finish, h]
      refine ⟨?_, ?_⟩
      · intro hm b n
        rw [e_mut]
        rw [e_me] at hm
        exact f.mutE hm b n
      · intro d' hd
        rw [e_imm] at hd
        cases hd

theorem flagsOk_recover (s : KvStore) : FlagsOk s.recover :=
  ⟨fun _ _ _ => rfl, fun d h => by cases h⟩

/-! ### shards -/

def ShardFlags (sh : Shard) : Prop := FlagsOk sh.series

theorem shardFlags_congr {s s' : Shard} (h : s'.series = s.series) (f : ShardFlags s) : ShardFlags s' := by
  unfold ShardFlags; rw [h]; exact f

theorem shardFlags_prepare {sh : Shard} (f : ShardFlags sh) : ShardFlags (sh.prepareFlushE true) := by
  have e : (sh.prepareFlushE true).series = sh.series.dropEmpty.prepareFlush := rfl
  unfold ShardFlags
  rw [e]
  exact flagsOk_prepare (flagsOk_dropEmpty f)

theorem shardFlags_flushStep {sh : Shard} (f : ShardFlags sh) (k : Nat) : ShardFlags (sh.flushStep k) := by
  match k with
  | 0 => exact f
  | 1 => exact f
  | 2 => exact f
  | 3 => exact flagsOk_flush f
  | _ + 4 => exact f

theorem shardFlags_prefix {sh : Shard} (f : ShardFlags sh) (j : Nat) : ShardFlags ((List.range j).foldl Shard.flushStep sh) := by
  have t0 := shardFlags_flushStep f 0
  have t1 := shardFlags_flushStep t0 1
  have t2 := shardFlags_flushStep t1 2
  have t3 := shardFlags_flushStep t2 3
  rcases flushPrefix_cases sh j with h | h | h | h | h <;> rw [h]
  · exact f
  · exact t0
  · exact t1
  · exact t2
  · exact t3

/-- a prefix of the index flush changes no answer of the series dictionary -/
theorem lookup_prefix {sh : Shard} (inv : CoverInv sh) (j m ts : Nat) :
    ((List.range j).foldl Shard.flushStep sh).series.lookup m ts = sh.series.lookup m ts := by
  rcases flushPrefix_cases sh j with h | h | h | h | h <;> rw [h]
  · rfl
  · rfl
  · rfl
  · show sh.series.flush.lookup m ts = sh.series.lookup m ts
    exact lookup_flush _ inv.snapDisk m ts

theorem lookup_prepareE_true {sh : Shard} (f : ShardFlags sh) (m ts : Nat) :
    (sh.prepareFlushE true).series.lookup m ts = sh.series.lookup m ts := by
  have e : (sh.prepareFlushE true).series = sh.series.dropEmpty.prepareFlush := rfl
  rw [e, lookup_prepare, lookup_dropEmpty f.immE]

/-! ### the node -/

def NodeFlags (nd : Node) : Prop := ∀ k, ShardFlags (nd.shards k)

theorem nodeFlags_of_shards {nd nd' : Node} (h : nd'.shards = nd.shards) (inv : NodeFlags nd) : NodeFlags nd' :=
  fun k => by rw [h]; exact inv k

theorem nodeFlags_setShard {nd : Node} (inv : NodeFlags nd) (shard : Nat) {sh : Shard} (h : ShardFlags sh) :
    NodeFlags (nd.setShard shard sh) := by
  intro k
  unfold Node.setShard
  by_cases hk : k = shard
  · simp [hk]; exact h
  · simp [hk]; exact inv k

theorem nodeFlags_genSeries {c : Cfg} (hc : c.seriesLimitFirst = true) {nd : Node} (inv : NodeFlags nd)
    (shard m ts : Nat) (tags : List (Nat × Nat)) : NodeFlags (nd.genSeries c shard m ts tags).1 := by
  unfold Node.genSeries
  simp only []
  cases hl : (nd.shards shard).series.lookup m ts with
  | some i => exact inv
  | none =>
    simp only []
    by_cases over : nd.lim.maxSeries > 0 ∧ nd.lim.maxSeries < (nd.shards shard).createSeriesID m
    · rw [if_pos ⟨hc, over⟩]
      exact nodeFlags_setShard inv shard (flagsOk_touched (inv shard))
    · rw [if_neg (fun h => over h.2), if_neg over]
      intro k
      obtain ⟨e1, _, _⟩ := buildInverted_shards c shard m ((nd.shards shard).createSeriesID m) tags
        (nd.setShard shard { nd.shards shard with
            series := (nd.shards shard).series.insert m ts ((nd.shards shard).createSeriesID m),
            seqCache := fun j => if j = m then some ((nd.shards shard).createSeriesID m) else (nd.shards shard).seqCache j,
            minv := (nd.shards shard).minv.put (m, (nd.shards shard).createSeriesID m) }) k
      have hf : ShardFlags { nd.shards shard with
            series := (nd.shards shard).series.insert m ts ((nd.shards shard).createSeriesID m),
            seqCache := fun j => if j = m then some ((nd.shards shard).createSeriesID m) else (nd.shards shard).seqCache j,
            minv := (nd.shards shard).minv.put (m, (nd.shards shard).createSeriesID m) } :=
        flagsOk_insert (inv shard) m ts ((nd.shards shard).createSeriesID m)
      exact shardFlags_congr e1 (nodeFlags_setShard inv shard hf k)

theorem nodeFlags_recover (nd : Node) : NodeFlags nd.recover :=
  fun k => flagsOk_recover (nd.shards k).series

theorem nodeFlags_step {c : Cfg} (hc : c.seriesLimitFirst = true) (hp : c.prepareSwapsEmpty = true)
    {nd : Node} (inv : NodeFlags nd) (op : Op) : NodeFlags (step c nd op).1 := by
  cases op with
  | metric nb ns name => exact nodeFlags_of_shards (genMetric_shards c nd nb ns name) inv
  | field m f => exact nodeFlags_of_shards (genFieldID_shards c nd m f) inv
  | tagKey m k => exact nodeFlags_of_shards (genTagKeyID_shards c nd m k) inv
  | tagValue tk v => exact nodeFlags_of_shards (genTagValueID_shards c nd tk v) inv
  | series sh m ts tags => exact nodeFlags_genSeries hc inv sh m ts tags
  | metaPrepare => exact nodeFlags_of_shards (metaPrepareE_shards nd _) inv
  | metaFlush => exact nodeFlags_of_shards (metaFlushPrefix_shards' nd 5) inv
  | indexPrepare sh =>
    show NodeFlags (nd.indexPrepareE sh c.prepareSwapsEmpty)
    rw [hp]
    intro k
    by_cases hk : k = sh
    · have e : (nd.indexPrepareE sh true).shards k = (nd.shards sh).prepareFlushE true := by
        simp [Node.indexPrepareE, Node.indexDropEmpty, Node.indexPrepare, Node.setShard, hk, Shard.prepareFlushE]
      rw [e]; exact shardFlags_prepare (inv sh)
    · have e : (nd.indexPrepareE sh true).shards k = nd.shards k := by
        simp [Node.indexPrepareE, Node.indexDropEmpty, Node.indexPrepare, Node.setShard, hk]
      rw [e]; exact inv k
  | indexFlush sh => exact nodeFlags_setShard inv sh (shardFlags_prefix (inv sh) 4)
  | reopen => exact nodeFlags_recover _
  | metaFlushCrash k => exact nodeFlags_recover _
  | indexFlushCrash sh k => exact nodeFlags_recover _
  | metaFlushFail k => exact nodeFlags_of_shards (metaFlushPrefix_shards' nd k) inv

theorem nodeFlags_fstep {c : Cfg} (hc : c.seriesLimitFirst = true) (hp : c.prepareSwapsEmpty = true)
    (ha : c.indexFlushAborts = true) {nd : Node} (inv : NodeFlags nd) (op : FOp) :
    NodeFlags (fstep c [0, 1, 2, 3] nd op) := by
  cases op with
  | op o => exact nodeFlags_step hc hp inv o
  | indexFlushFault sh k =>
    show NodeFlags (nd.setShard sh (Node.flushFaultGo c.indexFlushAborts k [0, 1, 2, 3] (nd.shards sh)).1)
    rw [ha]
    obtain ⟨j, _, e, _⟩ := flushFault_abort_is_prefix (nd.shards sh) k
    rw [e]
    exact nodeFlags_setShard inv sh (shardFlags_prefix (inv sh) j)
  | metricLim nb ns name => exact nodeFlags_of_shards (genMetricLim_shards c nd nb ns name) inv
  | evictSeq sh m => exact nodeFlags_setShard inv sh (shardFlags_congr (s := nd.shards sh) rfl (inv sh))

theorem nodeFlags_init (lim : Limits) (n : Nat) : NodeFlags { lim := lim, nShards := n } :=
  fun _ => flagsOk_init

/-! ### one step keeps every answer of every series dictionary (unless the node restarts) -/

/-- the steps after which the process is still the same one -/
def FOp.sameRun : FOp → Bool
  | .op .reopen => false
  | .op (.metaFlushCrash _) => false
  | .op (.indexFlushCrash _ _) => false
  | _ => true

theorem setShard_same (nd : Node) (k : Nat) (sh : Shard) : (nd.setShard k sh).shards k = sh := by
  simp [Node.setShard]

theorem setShard_other (nd : Node) {k j : Nat} (sh : Shard) (h : j ≠ k) : (nd.setShard k sh).shards j = nd.shards j := by
  simp [Node.setShard, h]

theorem lookup_genSeries {c : Cfg} (hc : c.seriesLimitFirst = true) (nd : Node)
    (shard m ts : Nat) (tags : List (Nat × Nat)) (sh m' ts' i : Nat)
    (h : (nd.shards sh).series.lookup m' ts' = some i) :
    ((nd.genSeries c shard m ts tags).1.shards sh).series.lookup m' ts' = some i := by
  unfold Node.genSeries
  simp only []
  cases hl : (nd.shards shard).series.lookup m ts with
  | some j => exact h
  | none =>
    simp only []
    by_cases over : nd.lim.maxSeries > 0 ∧ nd.lim.maxSeries < (nd.shards shard).createSeriesID m
    · rw [if_pos ⟨hc, over⟩]
      by_cases hk : sh = shard
      · subst hk; rw [setShard_same]; exact h
      · rw [setShard_other _ _ hk]; exact h
    · rw [if_neg (fun h => over h.2), if_neg over]
      obtain ⟨e1, _, _⟩ := buildInverted_shards c shard m ((nd.shards shard).createSeriesID m) tags
        (nd.setShard shard { nd.shards shard with
            series := (nd.shards shard).series.insert m ts ((nd.shards shard).createSeriesID m),
            seqCache := fun j => if j = m then some ((nd.shards shard).createSeriesID m) else (nd.shards shard).seqCache j,
            minv := (nd.shards shard).minv.put (m, (nd.shards shard).createSeriesID m) }) sh
      rw [e1]
      by_cases hk : sh = shard
      · subst hk
        rw [setShard_same]
        show ((nd.shards sh).series.insert m ts ((nd.shards sh).createSeriesID m)).lookup m' ts' = some i
        rw [lookup_insert]
        by_cases hs : m' = m ∧ ts' = ts
        · rw [hs.1, hs.2, hl] at h; cases h
        · rw [if_neg hs]; exact h
      · rw [setShard_other _ _ hk]; exact h

/-- the id `GenSeriesID` answers is the id the dictionary answers from then on -/
theorem genSeries_id_lookup {c : Cfg} (hc : c.seriesLimitFirst = true) (nd : Node)
    (shard m ts : Nat) (tags : List (Nat × Nat)) (i : Nat) (h : (nd.genSeries c shard m ts tags).2 = .id i) :
    ((nd.genSeries c shard m ts tags).1.shards shard).series.lookup m ts = some i := by
  unfold Node.genSeries at h ⊢
  simp only [] at h ⊢
  cases hl : (nd.shards shard).series.lookup m ts with
  | some j =>
    rw [hl] at h
    simp only [] at h ⊢
    injection h with h
    rw [hl, h]
  | none =>
    rw [hl] at h
    simp only [] at h ⊢
    by_cases over : nd.lim.maxSeries > 0 ∧ nd.lim.maxSeries < (nd.shards shard).createSeriesID m
    · rw [if_pos ⟨hc, over⟩] at h; cases h
    · rw [if_neg (fun h => over h.2), if_neg over] at h ⊢
      simp only [] at h
      injection h with h
      obtain ⟨e1, _, _⟩ := buildInverted_shards c shard m ((nd.shards shard).createSeriesID m) tags
        (nd.setShard shard { nd.shards shard with
            series := (nd.shards shard).series.insert m ts ((nd.shards shard).createSeriesID m),
            seqCache := fun j => if j = m then some ((nd.shards shard).createSeriesID m) else (nd.shards shard).seqCache j,
            minv := (nd.shards shard).minv.put (m, (nd.shards shard).createSeriesID m) }) shard
      rw [e1, setShard_same]
      show ((nd.shards shard).series.insert m ts ((nd.shards shard).createSeriesID m)).lookup m ts = some i
      rw [lookup_insert, if_pos ⟨rfl, rfl⟩, h]

/-- a call for a name the dictionary has answers the dictionary's id and changes nothing -/
theorem genSeries_of_lookup (c : Cfg) (nd : Node) (shard m ts : Nat) (tags : List (Nat × Nat)) (i : Nat)
    (h : (nd.shards shard).series.lookup m ts = some i) : nd.genSeries c shard m ts tags = (nd, .id i) := by
  unfold Node.genSeries
  simp only [h]

theorem lookup_fstep {c : Cfg} (hc : c.seriesLimitFirst = true) (hp : c.prepareSwapsEmpty = true)
    (ha : c.indexFlushAborts = true) {nd : Node} (cov : NodeCover nd) (fl : NodeFlags nd) (op : FOp)
    (hrun : op.sameRun = true) (sh m ts i : Nat) (h : (nd.shards sh).series.lookup m ts = some i) :
    ((fstep c [0, 1, 2, 3] nd op).shards sh).series.lookup m ts = some i := by
  cases op with
  | op o =>
    cases o with
    | metric nb ns name => show (((nd.genMetric c nb ns name).1).shards sh).series.lookup m ts = some i
                           rw [genMetric_shards]; exact h
    | field m' f => show (((nd.genFieldID c m' f).1).shards sh).series.lookup m ts = some i
                    rw [genFieldID_shards]; exact h
    | tagKey m' k => show (((nd.genTagKeyID c m' k).1).shards sh).series.lookup m ts = some i
                     rw [genTagKeyID_shards]; exact h
    | tagValue tk v => show (((nd.genTagValueID c tk v).1).shards sh).series.lookup m ts = some i
                       rw [genTagValueID_shards]; exact h
    | series sh' m' ts' tags => exact lookup_genSeries hc nd sh' m' ts' tags sh m ts i h
    | metaPrepare => show ((nd.metaPrepareE c.prepareSwapsEmpty).shards sh).series.lookup m ts = some i
                     rw [metaPrepareE_shards]; exact h
    | metaFlush => show ((nd.metaFlushPrefix 5).shards sh).series.lookup m ts = some i
                   rw [metaFlushPrefix_shards']; exact h
    | indexPrepare sh' =>
      show ((nd.indexPrepareE sh' c.prepareSwapsEmpty).shards sh).series.lookup m ts = some i
      rw [hp]
      by_cases hk : sh = sh'
      · have e : (nd.indexPrepareE sh' true).shards sh = (nd.shards sh').prepareFlushE true := by
          simp [Node.indexPrepareE, Node.indexDropEmpty, Node.indexPrepare, Node.setShard, hk, Shard.prepareFlushE]
        rw [e, lookup_prepareE_true (fl sh')]
        rw [← hk]; exact h
      · have e : (nd.indexPrepareE sh' true).shards sh = nd.shards sh := by
          simp [Node.indexPrepareE, Node.indexDropEmpty, Node.indexPrepare, Node.setShard, hk]
        rw [e]; exact h
    | indexFlush sh' =>
      show ((nd.setShard sh' ((List.range 4).foldl Shard.flushStep (nd.shards sh'))).shards sh).series.lookup m ts = some i
      by_cases hk : sh = sh'
      · subst hk; rw [setShard_same, lookup_prefix (cov sh)]; exact h
      · rw [setShard_other _ _ hk]; exact h
    | reopen => cases hrun
    | metaFlushCrash k => cases hrun
    | indexFlushCrash sh' k => cases hrun
    | metaFlushFail k => show ((nd.metaFlushPrefix k).shards sh).series.lookup m ts = some i
                         rw [metaFlushPrefix_shards']; exact h
  | indexFlushFault sh' k =>
    show ((nd.setShard sh' (Node.flushFaultGo c.indexFlushAborts k [0, 1, 2, 3] (nd.shards sh')).1).shards sh).series.lookup m ts = some i
    rw [ha]
    obtain ⟨j, _, e, _⟩ := flushFault_abort_is_prefix (nd.shards sh') k
    rw [e]
    by_cases hk : sh = sh'
    · subst hk; rw [setShard_same, lookup_prefix (cov sh)]; exact h
    · rw [setShard_other _ _ hk]; exact h
  | metricLim nb ns name =>
    show (((nd.genMetricLim c nb ns name).1).shards sh).series.lookup m ts = some i
    rw [genMetricLim_shards]; exact h
  | evictSeq sh' m' =>
    show ((nd.setShard sh' ((nd.shards sh').evictSeq m')).shards sh).series.lookup m ts = some i
    by_cases hk : sh = sh'
    · subst hk; rw [setShard_same]; exact h
    · rw [setShard_other _ _ hk]; exact h

theorem frun_append (c : Cfg) (steps : List Nat) (pre post : List FOp) :
    ∀ nd : Node, frun c steps nd (pre ++ post) = frun c steps (frun c steps nd pre) post := by
  induction pre with
  | nil => intro nd; rfl
  | cons op rest ih => intro nd; exact ih (fstep c steps nd op)

/-- along a stretch of history without a restart every answer of every series dictionary stays -/
theorem lookup_frun {c : Cfg} (hc : c.seriesLimitFirst = true) (hp : c.prepareSwapsEmpty = true)
    (ha : c.indexFlushAborts = true) (post : List FOp) :
    ∀ {nd : Node}, NodeCover nd → NodeFlags nd → (∀ op ∈ post, FOp.sameRun op = true) →
      ∀ sh m ts i, (nd.shards sh).series.lookup m ts = some i →
        ((frun c [0, 1, 2, 3] nd post).shards sh).series.lookup m ts = some i := by
  induction post with
  | nil => intro nd _ _ _ sh m ts i h; exact h
  | cons op rest ih =>
    intro nd cov fl hrun sh m ts i h
    exact ih (nodeCover_fstep hc hp ha cov op) (nodeFlags_fstep hc hp ha fl op)
      (fun o ho => hrun o (List.mem_cons_of_mem _ ho)) sh m ts i
      (lookup_fstep hc hp ha cov fl op (hrun op (List.mem_cons_self ..)) sh m ts i h)

theorem nodeFlags_frun {c : Cfg} (hc : c.seriesLimitFirst = true) (hp : c.prepareSwapsEmpty = true)
    (ha : c.indexFlushAborts = true) (ops : List FOp) : ∀ {nd : Node}, NodeFlags nd → NodeFlags (frun c [0, 1, 2, 3] nd ops) := by
  induction ops with
  | nil => intro nd inv; exact inv
  | cons op rest ih => intro nd inv; exact ih (nodeFlags_fstep hc hp ha inv op)

end LinVerif.IdAssign
