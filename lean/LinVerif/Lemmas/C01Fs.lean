/-
C01 helper lemmas: what each file-system operation changes on the abstract disk
(frame lemmas for OPTIONS, CURRENT, the manifests and the table files), and prefixes of traces.
-/
import LinVerif.Model.KvFs
import LinVerif.Lemmas.C01Map

namespace LinVerif.Kv
open LinVerif

/-! ### prefixes -/

theorem applyFsList_append (d : Disk) (a b : List FsOp) :
    applyFsList d (a ++ b) = applyFsList (applyFsList d a) b := by
  simp [applyFsList, List.foldl_append]

theorem applyFsList_cons (d : Disk) (o : FsOp) (t : List FsOp) :
    applyFsList d (o :: t) = applyFsList (applyFs d o) t := rfl

theorem applyFsList_nil (d : Disk) : applyFsList d [] = d := rfl

/-- a predicate kept by every operation of a trace holds after every prefix of it -/
theorem prefix_inv (P : Disk → Prop) (ops : List FsOp) (d : Disk) (h0 : P d)
    (hstep : ∀ o ∈ ops, ∀ x, P x → P (applyFs x o)) : ∀ k, P (applyFsList d (ops.take k)) := by
  induction ops generalizing d with
  | nil => intro k; simpa [applyFsList] using h0
  | cons o t ih =>
    intro k
    cases k with
    | zero => simpa [applyFsList] using h0
    | succ k =>
      simp only [List.take_succ_cons, applyFsList_cons]
      exact ih (applyFs d o) (hstep o (by simp) d h0) (fun o' ho' => hstep o' (List.mem_cons_of_mem _ ho')) k

theorem prefix_inv_full (P : Disk → Prop) (ops : List FsOp) (d : Disk) (h0 : P d)
    (hstep : ∀ o ∈ ops, ∀ x, P x → P (applyFs x o)) : P (applyFsList d ops) := by
  have := prefix_inv P ops d h0 hstep ops.length
  simpa using this

/-- two phases separated by one commit operation: `PA` until it, `PB` from it on -/
theorem prefix_two_phase (PA PB : Disk → Prop) (pre post : List FsOp) (c : FsOp) (d : Disk)
    (h0 : PA d) (hpre : ∀ o ∈ pre, ∀ x, PA x → PA (applyFs x o))
    (hc : PB (applyFsList d (pre ++ [c])))
    (hpost : ∀ o ∈ post, ∀ x, PB x → PB (applyFs x o)) :
    ∀ k, PA (applyFsList d ((pre ++ c :: post).take k)) ∨ PB (applyFsList d ((pre ++ c :: post).take k)) := by
  intro k
  by_cases hk : k ≤ pre.length
  · left
    rw [List.take_append_of_le_length hk]
    exact prefix_inv PA pre d h0 hpre k
  · right
    have hk' : pre.length < k := by omega
    obtain ⟨j, rfl⟩ : ∃ j, k = pre.length + 1 + j := ⟨k - pre.length - 1, by omega⟩
    have : (pre ++ c :: post).take (pre.length + 1 + j) = (pre ++ [c]) ++ post.take j := by
      rw [show pre ++ c :: post = (pre ++ [c]) ++ post by simp]
      rw [List.take_append]
      have h1 : (pre ++ [c]).take (pre.length + 1 + j) = pre ++ [c] := by
        apply List.take_of_length_le; simp
      have h2 : pre.length + 1 + j - (pre ++ [c]).length = j := by simp
      rw [h1, h2]
    rw [this, applyFsList_append]
    exact prefix_inv PB post _ hc hpost j

/-! ### frame lemmas -/

theorem Disk.table_def (d : Disk) (fam : Nat) (f : Int) :
    d.table fam f = Map.lookup ((Map.lookup d.famDirs fam).getD []) f := rfl

theorem table_upsert_dir (d : Disk) (fam : Nat) (ts : List (Int × Table)) (a : Nat) (g : Int) :
    ({ d with famDirs := Map.upsert d.famDirs fam ts } : Disk).table a g =
      if a = fam then Map.lookup ts g else d.table a g := by
  simp only [Disk.table, Disk.tables]
  by_cases h : a = fam
  · subst h; simp [Map.lookup_upsert_self]
  · have : fam ≠ a := fun e => h e.symm
    simp [h, Map.lookup_upsert_ne _ _ _ _ this]

/-- which table an operation touches (none for operations outside the family directories) -/
def FsOp.touches : FsOp → Option (Nat × Int)
  | .createTable fam f => some (fam, f)
  | .closeTable fam f _ => some (fam, f)
  | .removeTable fam f => some (fam, f)
  | _ => none

theorem table_frame (d : Disk) (o : FsOp) (a : Nat) (g : Int) (h : o.touches ≠ some (a, g)) :
    (applyFs d o).table a g = d.table a g := by
  cases o with
  | mkdirFam name =>
    simp only [applyFs]
    split
    · rfl
    · rename_i hn
      rw [table_upsert_dir]
      by_cases ha : a = name
      · subst ha
        simp only [if_true]
        have hn' : Map.lookup d.famDirs a = none := by
          cases hq : Map.lookup d.famDirs a with
          | none => rfl
          | some x => simp [hq] at hn
        simp [Disk.table, Disk.tables, hn', Map.lookup]
      · simp [ha]
  | createTable fam f =>
    simp only [applyFs, table_upsert_dir]
    by_cases ha : a = fam
    · subst ha
      have : f ≠ g := by intro e; subst e; exact h rfl
      simp [Map.lookup_upsert_ne _ _ _ _ this, Disk.table]
    · simp [ha]
  | closeTable fam f c =>
    simp only [applyFs, table_upsert_dir]
    by_cases ha : a = fam
    · subst ha
      have : f ≠ g := by intro e; subst e; exact h rfl
      simp [Map.lookup_upsert_ne _ _ _ _ this, Disk.table]
    · simp [ha]
  | removeTable fam f =>
    simp only [applyFs, table_upsert_dir]
    by_cases ha : a = fam
    · subst ha
      have : f ≠ g := by intro e; subst e; exact h rfl
      simp [Map.lookup_erase_ne _ _ _ this, Disk.table]
    · simp [ha]
  | appendRec n r => simp only [applyFs]; split <;> rfl
  | renameCurrent => simp only [applyFs]; split <;> rfl
  | _ => rfl

theorem table_createTable (d : Disk) (fam : Nat) (f : Int) :
    (applyFs d (.createTable fam f)).table fam f = some ⟨false, []⟩ := by
  simp [applyFs, table_upsert_dir, Map.lookup_upsert_self]

theorem table_closeTable (d : Disk) (fam : Nat) (f : Int) (c : List (Nat × Nat)) :
    (applyFs d (.closeTable fam f c)).table fam f = some ⟨true, c⟩ := by
  simp [applyFs, table_upsert_dir, Map.lookup_upsert_self]

/-- operations that leave OPTIONS alone -/
theorem options_frame (d : Disk) (o : FsOp) (h : ∀ x, o ≠ .writeOptions x) : (applyFs d o).options = d.options := by
  cases o with
  | writeOptions x => exact absurd rfl (h x)
  | mkdirFam name => simp only [applyFs]; split <;> rfl
  | appendRec n r => simp only [applyFs]; split <;> rfl
  | renameCurrent => simp only [applyFs]; split <;> rfl
  | _ => rfl

theorem current_frame (d : Disk) (o : FsOp) (h : o ≠ .renameCurrent) : (applyFs d o).current = d.current := by
  cases o with
  | renameCurrent => exact absurd rfl h
  | mkdirFam name => simp only [applyFs]; split <;> rfl
  | appendRec n r => simp only [applyFs]; split <;> rfl
  | _ => rfl

/-- which manifest an operation touches -/
def FsOp.manifestOf : FsOp → Option Int
  | .createManifest n => some n
  | .appendRec n _ => some n
  | .removeManifest n => some n
  | _ => none

theorem manifest_frame (d : Disk) (o : FsOp) (j : Int) (h : o.manifestOf ≠ some j) :
    Map.lookup (applyFs d o).manifests j = Map.lookup d.manifests j := by
  cases o with
  | createManifest n =>
    have : n ≠ j := by intro e; subst e; exact h rfl
    simp [applyFs, Map.lookup_upsert_ne _ _ _ _ this]
  | appendRec n r =>
    have : n ≠ j := by intro e; subst e; exact h rfl
    simp only [applyFs]
    split
    · simp [Map.lookup_upsert_ne _ _ _ _ this]
    · rfl
  | removeManifest n =>
    have : n ≠ j := by intro e; subst e; exact h rfl
    simp [applyFs, Map.lookup_erase_ne _ _ _ this]
  | mkdirFam name => simp only [applyFs]; split <;> rfl
  | renameCurrent => simp only [applyFs]; split <;> rfl
  | _ => rfl

/-- recovery reads OPTIONS, CURRENT and the manifest CURRENT names — nothing else -/
theorem recoverVS_congr (cfg : Cfg) (d d' : Disk) (h1 : d'.options = d.options) (h2 : d'.current = d.current)
    (h3 : ∀ j, d.current = some j → Map.lookup d'.manifests j = Map.lookup d.manifests j) :
    recoverVS cfg d' = recoverVS cfg d := by
  unfold recoverVS
  rw [h1, h2]
  cases hc : d.current with
  | none => rfl
  | some j => simp only [h3 j hc]

end LinVerif.Kv
