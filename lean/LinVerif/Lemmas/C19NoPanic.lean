/-
C19 helper lemmas, part 4: runs in which no stage panics. Inductive invariant behind
`exactly_once_no_panic`.
-/
import LinVerif.Lemmas.C19Step
import LinVerif.Lemmas.C19Once

namespace LinVerif.Pipeline

/-- before the root stage is registered -/
def InitPhase (root : Stage) (s : State) : Prop :=
  s.sh = (init root).sh ∧
    (s.threads = [⟨false, [.start root]⟩] ∨ s.threads = [⟨false, [.register root]⟩])

theorem initPhase_init (root : Stage) : InitPhase root (init root) := ⟨rfl, Or.inl rfl⟩

/-- a step in the initial phase: the `isCompleted` check passes, then the root is registered -/
theorem initPhase_step {cfg : Cfg} {root : Stage} {s s' : State} {n : Nat} (hi : InitPhase root s)
    (h : stepAt cfg s n = some s') :
    InitPhase root s' ∨
      (s'.sh = { (init root).sh with pending := 1, registered := 1 } ∧ s'.threads = [⟨false, [.launch root]⟩]) := by
  obtain ⟨hsh, ht⟩ := hi
  cases s with
  | mk sh threads =>
    simp only at hsh ht
    subst hsh
    rcases ht with rfl | rfl
    · cases n with
      | zero =>
        simp [stepAt, stepInstr, init] at h
        subst h
        exact Or.inl ⟨rfl, Or.inr rfl⟩
      | succ n => simp [stepAt] at h
    · cases n with
      | zero =>
        simp [stepAt, stepInstr, init] at h
        subst h
        exact Or.inr ⟨rfl, rfl⟩
      | succ n => simp [stepAt] at h

/-- the invariant once the root stage is registered, for runs without panics -/
structure MainNP (cfg : Cfg) (s : State) : Prop where
  np : StagesOK (fun st => st.clean cfg = true) s
  g0 : gap s = 0
  wf : WF s
  cnt : Cnt s
  notDone : s.sh.completed = false → s.sh.fired = []
  done : s.sh.completed = true → s.sh.pending = 0
  snap : ∀ f ∈ s.sh.fired, f.finished = s.sh.registered ∧ f.registered = s.sh.registered ∧
    f.failedBefore = s.sh.failed
  will : s.sh.pending = 0 → s.sh.completed = true ∨ 0 < tsum Instr.fires s.threads
  quiet : 0 < tsum Instr.fires s.threads → s.sh.pending = 0

theorem mainNP_first {cfg : Cfg} {root : Stage} (hnp : root.clean cfg = true) {s : State}
    (hsh : s.sh = { (init root).sh with pending := 1, registered := 1 })
    (ht : s.threads = [⟨false, [.launch root]⟩]) : MainNP cfg s := by
  cases s with
  | mk sh threads =>
    simp only at hsh ht
    subst hsh ht
    refine ⟨?_, ?_, ?_, ?_, ?_, ?_, ?_, ?_, ?_⟩ <;>
      simp [StagesOK, Instr.stageOK, hnp, gap, init, Instr.owed, WF, wfCode, Instr.startLike, Cnt, Instr.fires]

theorem np_noLoss {cfg : Cfg} {s : State} (h : StagesOK (fun st => st.clean cfg = true) s) :
    ∀ t ∈ s.threads, ∀ i ∈ t.code, i.noLoss cfg :=
  fun t ht i hi => noLoss_of_clean (h t ht i hi)

/-- while `pending ≠ 0` and nothing is pending for `complete`: an instruction leaves the pipeline
uncompleted, and asks for `complete` exactly when it brings `pending` to zero -/
theorem stepInstr_quiet (cfg : Cfg) (sh : Shared) (pooled : Bool) (i : Instr) (rest : List Instr)
    (hc : sh.completed = false) (hfired : sh.fired = []) (hi : i.fires = 0)
    (hr : csum Instr.fires rest = 0) (hnp : i.noLoss cfg) (hp0 : 0 ≤ sh.pending) :
    (stepInstr cfg sh pooled i rest).sh.completed = false ∧
    (stepInstr cfg sh pooled i rest).sh.fired = [] ∧
    tsum Instr.fires (stepInstr cfg sh pooled i rest).spawn = 0 ∧
    ((stepInstr cfg sh pooled i rest).sh.pending = 0 → sh.pending ≠ 0 →
        csum Instr.fires (stepInstr cfg sh pooled i rest).code = 1) ∧
    ((stepInstr cfg sh pooled i rest).sh.pending ≠ 0 ∨ sh.pending = 0 →
        csum Instr.fires (stepInstr cfg sh pooled i rest).code = 0) := by
  cases i <;> simp only [stepInstr, panicEff] <;> (repeat' split) <;>
    simp_all [Instr.fires, Instr.noLoss, Outcome.panics] <;> omega

theorem mainNP_step {cfg : Cfg} {s s' : State} {n : Nat} (hinv : MainNP cfg s)
    (h : stepAt cfg s n = some s') : MainNP cfg s' := by
  have hnp' := step_stagesOK (clean_hereditary cfg) hinv.np h
  have hg' : gap s' = 0 := (step_gap_eq h (np_noLoss hinv.np)).trans hinv.g0
  have hwf' := step_wf hinv.wf h
  have hcnt' := step_cnt hinv.cnt h
  obtain ⟨pooled, i, rest, hget, hsh, hsum⟩ := stepAt_elim' h
  have hF := hsum Instr.fires
  have hg := hinv.g0
  have hcnt := hinv.cnt
  have hcnt2 := hcnt'
  simp only [gap] at hg
  simp only [Cnt] at hcnt hcnt2
  by_cases hp : s.sh.pending = 0
  · -- only `load`/`fire` can run
    rcases head_is_fire hinv.wf (by rw [hinv.g0]; exact Int.le_refl 0) hp hget with ⟨o, rfl⟩ | ⟨e, o, rfl⟩
    · simp only [stepInstr] at hsh hF
      simp [Instr.fires] at hF
      refine ⟨hnp', hg', hwf', hcnt', ?_, ?_, ?_, ?_, ?_⟩ <;> rw [hsh]
      · exact hinv.notDone
      · exact hinv.done
      · exact hinv.snap
      · intro _; rcases hinv.will hp with hc | hf
        · exact Or.inl hc
        · exact Or.inr (by omega)
      · intro _; exact hp
    · cases hc : s.sh.completed with
      | true =>
        simp only [stepInstr, hc, if_true] at hsh hF
        simp [Instr.fires] at hF
        refine ⟨hnp', hg', hwf', hcnt', ?_, ?_, ?_, ?_, ?_⟩ <;> rw [hsh]
        · exact hinv.notDone
        · exact hinv.done
        · exact hinv.snap
        · intro _; exact Or.inl hc
        · intro _; exact hp
      | false =>
        have hfired := hinv.notDone hc
        simp only [stepInstr, hc, Bool.false_eq_true, if_false] at hsh hF
        rw [hsh] at hcnt2
        simp only at hcnt2
        refine ⟨hnp', hg', hwf', hcnt', ?_, ?_, ?_, ?_, ?_⟩ <;> rw [hsh] <;> simp only
        · intro hx; cases hx
        · intro _; exact hp
        · intro f hf
          rw [hfired] at hf
          simp only [List.nil_append, List.mem_singleton] at hf
          subst hf
          exact ⟨by simp only; omega, rfl, rfl⟩
        · intro _; exact Or.inl trivial
        · intro _; exact hp
  · -- `pending ≠ 0`: not completed, no pending `complete` call
    have hc : s.sh.completed = false := by
      cases hcc : s.sh.completed with
      | false => rfl
      | true => exact absurd (hinv.done hcc) hp
    have hF0 : tsum Instr.fires s.threads = 0 := by
      rcases Nat.eq_zero_or_pos (tsum Instr.fires s.threads) with h0 | hpos
      · exact h0
      · exact absurd (hinv.quiet hpos) hp
    have hfired := hinv.notDone hc
    have hFc := csum_le_tsum (w := Instr.fires) hget
    simp only [csum_cons] at hFc hF
    have hq := stepInstr_quiet cfg s.sh pooled i rest hc hfired (by omega) (by omega)
      (np_noLoss hinv.np _ (List.mem_of_getElem? hget) i (by simp)) (by omega)
    obtain ⟨q1, q2, q3, q4, q5⟩ := hq
    refine ⟨hnp', hg', hwf', hcnt', ?_, ?_, ?_, ?_, ?_⟩ <;> rw [hsh]
    · intro _; exact q2
    · intro hx; rw [q1] at hx; cases hx
    · rw [q2]; intro f hf; cases hf
    · intro hx; right
      have := q4 hx hp
      omega
    · intro hx
      by_cases hz : (stepInstr cfg s.sh pooled i rest).sh.pending = 0
      · exact hz
      · have := q5 (Or.inl hz); omega

/-- at the end of a run without panics -/
theorem mainNP_terminal {cfg : Cfg} {s : State} (hinv : MainNP cfg s) (hon : InvOnce s) (ht : Terminal s) :
    ∃ f, s.sh.fired = [f] ∧ f.finished = s.sh.registered ∧ f.registered = s.sh.registered
      ∧ s.sh.finished = s.sh.registered ∧ s.sh.pending = 0 ∧ f.failedBefore = s.sh.failed := by
  have hO : tsum Instr.owed s.threads = 0 := tsum_eq_zero_iff.mpr (fun t h => by rw [ht t h]; rfl)
  have hF : tsum Instr.fires s.threads = 0 := tsum_eq_zero_iff.mpr (fun t h => by rw [ht t h]; rfl)
  have hg := hinv.g0
  simp only [gap, hO] at hg
  have hp : s.sh.pending = 0 := by omega
  have hc : s.sh.completed = true := by
    rcases hinv.will hp with hc | hf
    · exact hc
    · omega
  have hcnt := hinv.cnt
  simp only [Cnt] at hcnt
  have hlen := hon.2 hc
  match hfd : s.sh.fired, hlen with
  | [f], _ =>
    have := hinv.snap f (by rw [hfd]; simp)
    exact ⟨f, rfl, this.1, this.2.1, by omega, hp, this.2.2⟩

end LinVerif.Pipeline

namespace LinVerif.Pipeline

theorem initPhase_not_terminal {root : Stage} {s : State} (hi : InitPhase root s) : ¬ Terminal s := by
  intro ht
  rcases hi.2 with h | h
  · have := ht ⟨false, [.start root]⟩ (by rw [h]; simp)
    simp at this
  · have := ht ⟨false, [.register root]⟩ (by rw [h]; simp)
    simp at this

theorem invNP_reachable {cfg : Cfg} {root : Stage} {s : State} (hnp : root.clean cfg = true)
    (hr : Reachable cfg (init root) s) : InitPhase root s ∨ MainNP cfg s := by
  refine Reachable.invariant (P := fun s => InitPhase root s ∨ MainNP cfg s) (Or.inl (initPhase_init root)) ?_ hr
  intro s s' n hinv hs
  rcases hinv with hi | hm
  · rcases initPhase_step hi hs with hi' | ⟨hsh, ht⟩
    · exact Or.inl hi'
    · exact Or.inr (mainNP_first hnp hsh ht)
  · exact Or.inr (mainNP_step hm hs)

end LinVerif.Pipeline
