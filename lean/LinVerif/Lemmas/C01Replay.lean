/-
C01 helper lemmas: well-formed versions, `applyLog` keeps them well-formed, and the
snapshot / replay round trip  replay (snapshot s) = s  (up to the file numbers).
-/
import LinVerif.Model.Manifest
import LinVerif.Lemmas.C01Map
import LinVerif.Lemmas.C01Codec

namespace LinVerif.Kv
open LinVerif

/-- what the code's maps guarantee by construction: no duplicate keys, files only in existing
levels, no empty rollup / reference lists, no duplicate reference. -/
structure Version.WF (v : Version) : Prop where
  files_nodup : (Map.keys v.files).Nodup
  files_level : ∀ e ∈ v.files, v.levelOk e.1.1 = true
  seqs_nodup : (Map.keys v.seqs).Nodup
  refs_nodup : (Map.keys v.refs).Nodup
  refs_vals : ∀ e ∈ v.refs, e.2 ≠ [] ∧ e.2.Nodup
  rollup_nodup : (Map.keys v.rollup).Nodup
  rollup_vals : ∀ e ∈ v.rollup, e.2 ≠ []

theorem Version.empty_wf (n : Nat) : (Version.empty n).WF := by
  constructor <;> simp [Version.empty, Map.keys]

theorem removeFrom_nodup {κ : Type} [DecidableEq κ] (m : List (κ × List Int)) (k : κ) (x : Int)
    (h : (Map.keys m).Nodup) : (Map.keys (removeFrom m k x)).Nodup := by
  unfold removeFrom
  cases hl : Map.lookup m k with
  | none => simpa using h
  | some xs =>
    simp only
    split
    · exact Map.nodup_keys_erase k h
    · exact Map.nodup_keys_upsert k _ h

theorem removeFrom_mem {κ : Type} [DecidableEq κ] {m : List (κ × List Int)} {k : κ} {x : Int}
    {e : κ × List Int} (he : e ∈ removeFrom m k x) :
    e ∈ m ∨ (∃ xs, (k, xs) ∈ m ∧ e = (k, xs.filter (fun y => y ≠ x)) ∧ xs.filter (fun y => y ≠ x) ≠ []) := by
  unfold removeFrom at he
  cases hl : Map.lookup m k with
  | none => rw [hl] at he; exact Or.inl he
  | some xs =>
    rw [hl] at he
    simp only at he
    split at he
    · exact Or.inl (Map.mem_erase he).1
    · rename_i hne
      rcases Map.mem_upsert he with h | h
      · exact Or.inr ⟨xs, Map.mem_of_lookup hl, h, hne⟩
      · exact Or.inl h

theorem applyLog_numLevels (v : Version) (l : Log) : (applyLog v l).numLevels = v.numLevels := by
  cases l <;> simp only [applyLog] <;> (try split) <;> (try split) <;> rfl

theorem applyLog_levelOk (v : Version) (l : Log) (lvl : Int) : (applyLog v l).levelOk lvl = v.levelOk lvl := by
  simp [Version.levelOk, applyLog_numLevels]

theorem applyLog_wf {v : Version} (h : v.WF) (l : Log) : (applyLog v l).WF := by
  cases l with
  | newFile lvl f mn mx sz =>
    simp only [applyLog]
    by_cases hl : v.levelOk lvl = true
    · simp only [hl, if_true]
      refine { h with files_nodup := Map.nodup_keys_upsert _ _ h.files_nodup, files_level := ?_ }
      intro e he
      rcases Map.mem_upsert he with he | he
      · subst he; exact hl
      · exact h.files_level e he
    · simp only [hl]; exact h
  | deleteFile lvl f =>
    simp only [applyLog]
    by_cases hl : v.levelOk lvl = true
    · simp only [hl, if_true]
      refine { h with files_nodup := Map.nodup_keys_erase _ h.files_nodup, files_level := ?_ }
      intro e he
      exact h.files_level e (Map.mem_erase he).1
    · simp only [hl]; exact h
  | nextFileNumber n => exact h
  | newRollupFile f i =>
    simp only [applyLog]
    refine { h with rollup_nodup := Map.nodup_keys_upsert _ _ h.rollup_nodup, rollup_vals := ?_ }
    intro e he
    rcases Map.mem_upsert he with he | he
    · subst he; simp
    · exact h.rollup_vals e he
  | deleteRollupFile f i =>
    simp only [applyLog]
    refine { h with rollup_nodup := removeFrom_nodup _ _ _ h.rollup_nodup, rollup_vals := ?_ }
    intro e he
    rcases removeFrom_mem he with he | ⟨xs, _, he, hne⟩
    · exact h.rollup_vals e he
    · subst he; exact hne
  | newReferenceFile st fam f =>
    simp only [applyLog]
    cases hl : Map.lookup v.refs (st, fam) with
    | none =>
      simp only
      refine { h with refs_nodup := Map.nodup_keys_upsert _ _ h.refs_nodup, refs_vals := ?_ }
      intro e he
      rcases Map.mem_upsert he with he | he
      · subst he; simp
      · exact h.refs_vals e he
    | some fs =>
      simp only
      by_cases hm : f ∈ fs
      · simp only [hm, if_true]; exact h
      · simp only [hm, if_false]
        refine { h with refs_nodup := Map.nodup_keys_upsert _ _ h.refs_nodup, refs_vals := ?_ }
        intro e he
        rcases Map.mem_upsert he with he | he
        · subst he
          have := (h.refs_vals _ (Map.mem_of_lookup hl)).2
          refine ⟨by simp, ?_⟩
          rw [List.nodup_append]
          refine ⟨this, by simp, ?_⟩
          intro a ha b hb
          simp only [List.mem_singleton] at hb
          subst hb
          intro e; subst e; exact hm ha
        · exact h.refs_vals e he
  | deleteReferenceFile st fam f =>
    simp only [applyLog]
    refine { h with refs_nodup := removeFrom_nodup _ _ _ h.refs_nodup, refs_vals := ?_ }
    intro e he
    rcases removeFrom_mem he with he | ⟨xs, hx, he, hne⟩
    · exact h.refs_vals e he
    · subst he
      exact ⟨hne, (h.refs_vals _ hx).2.sublist List.filter_sublist⟩
  | sequence l s =>
    simp only [applyLog]
    exact { h with seqs_nodup := Map.nodup_keys_upsert _ _ h.seqs_nodup }

theorem foldl_applyLog_wf {v : Version} (h : v.WF) (ls : List Log) : (ls.foldl applyLog v).WF := by
  induction ls generalizing v with
  | nil => exact h
  | cons l t ih => exact ih (applyLog_wf h l)

/-! ### replaying the snapshot of one version -/

theorem foldl_newFile (v : Version) (pre l : List ((Int × Int) × FileMeta))
    (hv : v.files = pre) (hn : (Map.keys (pre ++ l)).Nodup) (hl : ∀ e ∈ l, v.levelOk e.1.1 = true) :
    (l.map (fun e => Log.newFile e.1.1 e.1.2 e.2.minKey e.2.maxKey e.2.size)).foldl applyLog v
      = { v with files := pre ++ l } := by
  induction l generalizing v pre with
  | nil => subst hv; simp
  | cons e t ih =>
    have hk : e.1 ∉ Map.keys pre := by
      rw [Map.keys_append, Map.keys_cons, List.nodup_append] at hn
      intro hm
      exact hn.2.2 _ hm _ (by simp) rfl
    have hlv : v.levelOk e.1.1 = true := hl e (by simp)
    simp only [List.map_cons, List.foldl_cons, applyLog, hlv, if_true]
    have hup : Map.upsert v.files (e.1.1, e.1.2) ⟨e.2.minKey, e.2.maxKey, e.2.size⟩ = pre ++ [e] := by
      rw [hv]
      have : ((e.1.1, e.1.2), (⟨e.2.minKey, e.2.maxKey, e.2.size⟩ : FileMeta)) = e := by
        obtain ⟨⟨a, b⟩, ⟨x, y, z⟩⟩ := e; rfl
      rw [Map.upsert_of_not_mem _ (by simpa using hk), this]
    rw [hup]
    have h2 : pre ++ [e] ++ t = pre ++ e :: t := by simp
    rw [ih { v with files := pre ++ [e] } (pre ++ [e]) rfl (by rw [h2]; exact hn)
      (fun x hx => by simpa [Version.levelOk] using hl x (List.mem_cons_of_mem _ hx))]
    simp

theorem foldl_sequence (v : Version) (pre l : List (Int × Int))
    (hv : v.seqs = pre) (hn : (Map.keys (pre ++ l)).Nodup) :
    (l.map (fun e => Log.sequence e.1 e.2)).foldl applyLog v = { v with seqs := pre ++ l } := by
  induction l generalizing v pre with
  | nil => subst hv; simp
  | cons e t ih =>
    have hk : e.1 ∉ Map.keys pre := by
      rw [Map.keys_append, Map.keys_cons, List.nodup_append] at hn
      intro hm
      exact hn.2.2 _ hm _ (by simp) rfl
    simp only [List.map_cons, List.foldl_cons, applyLog]
    rw [hv, Map.upsert_of_not_mem _ hk]
    have h2 : pre ++ [(e.1, e.2)] ++ t = pre ++ e :: t := by simp
    rw [ih { v with seqs := pre ++ [(e.1, e.2)] } (pre ++ [(e.1, e.2)]) rfl (by rw [h2]; exact hn)]
    simp

/-- adding the intervals of one file one by one rebuilds its list -/
theorem foldl_rollup_one (v : Version) (pre : List (Int × List Int)) (f : Int) (acc is : List Int)
    (t : List (Int × List Int)) (hv : v.rollup = pre ++ (f, acc) :: t) (hk : f ∉ Map.keys pre) :
    (is.map (fun i => Log.newRollupFile f i)).foldl applyLog v = { v with rollup := pre ++ (f, acc ++ is) :: t } := by
  induction is generalizing v acc with
  | nil => simp [← hv]
  | cons i r ih =>
    simp only [List.map_cons, List.foldl_cons, applyLog]
    rw [hv, Map.lookup_append_self _ _ _ _ hk, Map.upsert_append_self _ _ _ _ _ hk]
    simp only [Option.getD_some]
    rw [ih { v with rollup := pre ++ (f, acc ++ [i]) :: t } (acc ++ [i]) rfl]
    simp

theorem foldl_rollup (v : Version) (pre l : List (Int × List Int))
    (hv : v.rollup = pre) (hn : (Map.keys (pre ++ l)).Nodup) (hne : ∀ e ∈ l, e.2 ≠ []) :
    (l.flatMap (fun e => e.2.map (fun i => Log.newRollupFile e.1 i))).foldl applyLog v
      = { v with rollup := pre ++ l } := by
  induction l generalizing v pre with
  | nil => subst hv; simp
  | cons e t ih =>
    have hk : e.1 ∉ Map.keys pre := by
      rw [Map.keys_append, Map.keys_cons, List.nodup_append] at hn
      intro hm
      exact hn.2.2 _ hm _ (by simp) rfl
    obtain ⟨f, is⟩ := e
    have hne' : is ≠ [] := hne (f, is) (by simp)
    cases is with
    | nil => exact absurd rfl hne'
    | cons i r =>
      simp only [List.flatMap_cons, List.foldl_append, List.map_cons, List.foldl_cons]
      have h1 : applyLog v (Log.newRollupFile f i) = { v with rollup := pre ++ (f, [i]) :: [] } := by
        simp only [applyLog]
        rw [hv, Map.lookup_eq_none_of_not_mem hk, Map.upsert_of_not_mem _ hk]
        simp
      rw [h1, foldl_rollup_one _ pre f [i] r [] rfl hk]
      have h2 : pre ++ [(f, [i] ++ r)] ++ t = pre ++ (f, i :: r) :: t := by simp
      rw [ih _ (pre ++ [(f, [i] ++ r)]) rfl (by rw [h2]; exact hn)
        (fun x hx => hne x (List.mem_cons_of_mem _ hx))]
      simp

theorem foldl_refs_one (v : Version) (pre : List ((Bytes × Int) × List Int)) (k : Bytes × Int) (acc xs : List Int)
    (t : List ((Bytes × Int) × List Int)) (hv : v.refs = pre ++ (k, acc) :: t) (hk : k ∉ Map.keys pre)
    (hnd : (acc ++ xs).Nodup) :
    (xs.map (fun x => Log.newReferenceFile k.1 k.2 x)).foldl applyLog v = { v with refs := pre ++ (k, acc ++ xs) :: t } := by
  induction xs generalizing v acc with
  | nil => simp [← hv]
  | cons x r ih =>
    have hx : x ∉ acc := by
      rw [List.nodup_append] at hnd
      intro hm
      exact hnd.2.2 _ hm _ (by simp) rfl
    simp only [List.map_cons, List.foldl_cons, applyLog]
    rw [hv, show (k.1, k.2) = k from rfl, Map.lookup_append_self _ _ _ _ hk]
    simp only [hx, if_false]
    rw [Map.upsert_append_self _ _ _ _ _ hk]
    rw [ih { v with refs := pre ++ (k, acc ++ [x]) :: t } (acc ++ [x]) rfl (by simpa using hnd)]
    simp

theorem foldl_refs (v : Version) (pre l : List ((Bytes × Int) × List Int))
    (hv : v.refs = pre) (hn : (Map.keys (pre ++ l)).Nodup) (hne : ∀ e ∈ l, e.2 ≠ [] ∧ e.2.Nodup) :
    (l.flatMap (fun e => e.2.map (fun x => Log.newReferenceFile e.1.1 e.1.2 x))).foldl applyLog v
      = { v with refs := pre ++ l } := by
  induction l generalizing v pre with
  | nil => subst hv; simp
  | cons e t ih =>
    have hk : e.1 ∉ Map.keys pre := by
      rw [Map.keys_append, Map.keys_cons, List.nodup_append] at hn
      intro hm
      exact hn.2.2 _ hm _ (by simp) rfl
    obtain ⟨k, xs⟩ := e
    have hne' := hne (k, xs) (by simp)
    cases xs with
    | nil => exact absurd rfl hne'.1
    | cons x r =>
      simp only [List.flatMap_cons, List.foldl_append, List.map_cons, List.foldl_cons]
      have h1 : applyLog v (Log.newReferenceFile k.1 k.2 x) = { v with refs := pre ++ (k, [x]) :: [] } := by
        simp only [applyLog]
        rw [hv, show (k.1, k.2) = k from rfl, Map.lookup_eq_none_of_not_mem hk]
        simp only
        rw [Map.upsert_of_not_mem _ hk]
      rw [h1, foldl_refs_one _ pre k [x] r [] rfl hk (by simpa using hne'.2)]
      have h2 : pre ++ [(k, [x] ++ r)] ++ t = pre ++ (k, x :: r) :: t := by simp
      rw [ih _ (pre ++ [(k, [x] ++ r)]) rfl (by rw [h2]; exact hn)
        (fun y hy => hne y (List.mem_cons_of_mem _ hy))]
      simp

/-- createFamilySnapshot followed by replay into an empty version rebuilds the version. -/
theorem replay_famSnapshot (f : FamV) (h : f.ver.WF) :
    (famSnapshot f).logs.foldl applyLog (Version.empty f.ver.numLevels) = f.ver := by
  simp only [famSnapshot, List.foldl_append]
  rw [foldl_newFile (Version.empty f.ver.numLevels) [] f.ver.files rfl (by simpa using h.files_nodup)
    (fun e he => h.files_level e he)]
  rw [foldl_sequence _ [] f.ver.seqs rfl (by simpa using h.seqs_nodup)]
  rw [foldl_refs _ [] f.ver.refs rfl (by simpa using h.refs_nodup) h.refs_vals]
  rw [foldl_rollup _ [] f.ver.rollup rfl (by simpa using h.rollup_nodup) h.rollup_vals]
  simp [Version.empty]

/-! ### the version set -/

/-- the per-family effect of an edit log on the family list -/
def updFams (fams : List FamV) (fid : Int) (logs : List Log) : List FamV :=
  fams.map (fun g => if g.id = fid then { g with ver := logs.foldl applyLog g.ver } else g)

theorem setNumbers_fams (s : VS) (l : Log) : (setNumbers s l).fams = s.fams := by
  cases l <;> rfl

theorem foldl_setNumbers_fams (s : VS) (ls : List Log) : (ls.foldl setNumbers s).fams = s.fams := by
  induction ls generalizing s with
  | nil => rfl
  | cons l t ih => simp [ih, setNumbers_fams]

theorem setNumbers_congr (s s' : VS) (l : Log) (h1 : s.manifestNo = s'.manifestNo) (h2 : s.next = s'.next) :
    (setNumbers s l).manifestNo = (setNumbers s' l).manifestNo ∧ (setNumbers s l).next = (setNumbers s' l).next := by
  cases l <;> simp [setNumbers, h1, h2]

theorem foldl_setNumbers_congr (t : List Log) : ∀ (a b : VS), a.manifestNo = b.manifestNo → a.next = b.next →
    (t.foldl setNumbers a).manifestNo = (t.foldl setNumbers b).manifestNo ∧
    (t.foldl setNumbers a).next = (t.foldl setNumbers b).next := by
  induction t with
  | nil => intro a b h1 h2; exact ⟨h1, h2⟩
  | cons x r ihr =>
    intro a b h1 h2
    simp only [List.foldl_cons]
    have := setNumbers_congr a b x h1 h2
    exact ihr _ _ this.1 this.2

/-- `editLog.apply` on the version set: the family's version is folded with `applyLog`, the numbers
follow the NextFileNumber logs. -/
theorem foldl_applyLogVS (fid : Int) (s : VS) (logs : List Log) :
    logs.foldl (applyLogVS fid) s =
      ⟨updFams s.fams fid logs, (logs.foldl setNumbers s).manifestNo, (logs.foldl setNumbers s).next⟩ := by
  induction logs generalizing s with
  | nil => simp [updFams]
  | cons l t ih =>
    simp only [List.foldl_cons]
    rw [ih]
    have hf : (applyLogVS fid s l).fams
        = s.fams.map (fun f => if f.id = fid then { f with ver := applyLog f.ver l } else f) := by
      simp [applyLogVS, setNumbers_fams]
    have hn := setNumbers_congr
      { s with fams := s.fams.map (fun f => if f.id = fid then { f with ver := applyLog f.ver l } else f) } s l rfl rfl
    have h3 := foldl_setNumbers_congr t (applyLogVS fid s l) (setNumbers s l) (by simpa [applyLogVS] using hn.1) (by simpa [applyLogVS] using hn.2)
    rw [h3.1, h3.2]
    congr 1
    simp only [updFams, hf, List.map_map]
    apply List.map_congr_left
    intro g _
    by_cases hg : g.id = fid <;> simp [hg]

theorem updFams_ids (fams : List FamV) (fid : Int) (logs : List Log) :
    (updFams fams fid logs).map (·.id) = fams.map (·.id) := by
  simp only [updFams, List.map_map]
  apply List.map_congr_left
  intro g _
  by_cases hg : g.id = fid <;> simp [hg]

theorem mem_updFams {fams : List FamV} {fid : Int} {logs : List Log} {g : FamV} (h : g ∈ updFams fams fid logs) :
    ∃ g0 ∈ fams, g.id = g0.id ∧ (g.ver = g0.ver ∨ (g0.id = fid ∧ g.ver = logs.foldl applyLog g0.ver)) := by
  simp only [updFams, List.mem_map] at h
  obtain ⟨g0, hg0, he⟩ := h
  refine ⟨g0, hg0, ?_⟩
  by_cases hg : g0.id = fid
  · rw [if_pos hg] at he
    subst he
    exact ⟨rfl, Or.inr ⟨hg, rfl⟩⟩
  · rw [if_neg hg] at he
    subst he
    exact ⟨rfl, Or.inl rfl⟩

/-- ids unique, none equal to the store id, every version well-formed with the store's level count -/
structure VS.WF (s : VS) (numLevels : Nat) : Prop where
  ids_nodup : (s.fams.map (·.id)).Nodup
  ids_ne_store : ∀ f ∈ s.fams, f.id ≠ storeFamilyID
  vers : ∀ f ∈ s.fams, f.ver.WF ∧ f.ver.numLevels = numLevels

theorem foldl_applyLog_numLevels (v : Version) (ls : List Log) : (ls.foldl applyLog v).numLevels = v.numLevels := by
  induction ls generalizing v with
  | nil => rfl
  | cons l t ih => simp [ih, applyLog_numLevels]

theorem hasFam_iff (s : VS) (fid : Int) : s.hasFam fid = true ↔ fid ∈ s.fams.map (·.id) := by
  simp only [VS.hasFam, List.any_eq_true, decide_eq_true_eq, List.mem_map]

theorem applyEL_wf {s s' : VS} {n : Nat} (h : s.WF n) (el : EditLog) (he : applyEL s el = some s') : s'.WF n := by
  unfold applyEL at he
  by_cases h1 : el.fid = storeFamilyID
  · simp only [h1, if_true, Option.some.injEq] at he
    subst he
    have := foldl_setNumbers_fams s el.logs
    exact ⟨by rw [this]; exact h.ids_nodup, by rw [this]; exact h.ids_ne_store, by rw [this]; exact h.vers⟩
  · simp only [h1, if_false] at he
    by_cases h2 : s.hasFam el.fid = true
    · simp only [h2, if_true, Option.some.injEq] at he
      subst he
      rw [foldl_applyLogVS]
      refine ⟨?_, ?_, ?_⟩
      · simp only [updFams_ids]; exact h.ids_nodup
      · intro f hf
        obtain ⟨g0, hg0, hid, _⟩ := mem_updFams hf
        rw [hid]; exact h.ids_ne_store g0 hg0
      · intro f hf
        obtain ⟨g0, hg0, _, hv⟩ := mem_updFams hf
        rcases hv with hv | ⟨_, hv⟩
        · rw [hv]; exact h.vers g0 hg0
        · rw [hv]
          exact ⟨foldl_applyLog_wf (h.vers g0 hg0).1 _, by rw [foldl_applyLog_numLevels]; exact (h.vers g0 hg0).2⟩
    · simp [h2] at he

theorem foldl_setNumbers_famSnapshot (f : FamV) (s : VS) :
    (famSnapshot f).logs.foldl setNumbers s = s := by
  have : ∀ (ls : List Log), (∀ l ∈ ls, ∀ x, setNumbers x l = x) → ∀ s, ls.foldl setNumbers s = s := by
    intro ls
    induction ls with
    | nil => intros; rfl
    | cons l t ih =>
      intro h s
      simp only [List.foldl_cons]
      rw [h l (by simp) s]
      exact ih (fun l hl => h l (List.mem_cons_of_mem _ hl)) s
  apply this
  intro l hl x
  simp only [famSnapshot, List.mem_append, List.mem_map, List.mem_flatMap] at hl
  rcases hl with ⟨e, _, rfl⟩ | ⟨e, _, rfl⟩ | ⟨e, _, y, _, rfl⟩ | ⟨e, _, y, _, rfl⟩ <;> rfl

/-- replaying the family records of a snapshot, family by family -/
theorem replay_snapshot_fams (n : Nat) (mn nx : Int) (rest : List Bytes) :
    ∀ (done todo : List FamV),
      ((done ++ todo).map (·.id)).Nodup →
      (∀ f ∈ todo, f.id ≠ storeFamilyID ∧ f.ver.WF ∧ f.ver.numLevels = n) →
      replayRecs ⟨done ++ todo.map (fun f => ⟨f.id, Version.empty n⟩), mn, nx⟩
          ((todo.map famSnapshot).map marshal ++ rest)
        = replayRecs ⟨done ++ todo, mn, nx⟩ rest := by
  intro done todo
  induction todo generalizing done with
  | nil => intros; simp
  | cons f t ih =>
    intro hnd hwf
    have hf := hwf f (by simp)
    simp only [List.map_cons, List.cons_append, replayRecs, unmarshal_marshal]
    have hfid : (famSnapshot f).fid = f.id := rfl
    have hhas : VS.hasFam ⟨done ++ (⟨f.id, Version.empty n⟩ :: t.map (fun f => ⟨f.id, Version.empty n⟩)), mn, nx⟩ f.id = true := by
      simp [VS.hasFam]
    simp only [applyEL, hfid, hf.1, if_false, hhas, if_true]
    rw [foldl_applyLogVS]
    simp only [foldl_setNumbers_famSnapshot]
    -- the family list after this record
    have hupd : updFams (done ++ (⟨f.id, Version.empty n⟩ :: t.map (fun f => ⟨f.id, Version.empty n⟩))) f.id (famSnapshot f).logs
        = (done ++ [f]) ++ t.map (fun f => ⟨f.id, Version.empty n⟩) := by
      have hnd' : ∀ g ∈ done ++ t, g.id ≠ f.id := by
        intro g hg he
        simp only [List.map_append, List.map_cons] at hnd
        rw [List.nodup_append] at hnd
        rcases List.mem_append.mp hg with hg | hg
        · exact hnd.2.2 g.id (List.mem_map.mpr ⟨g, hg, rfl⟩) f.id (by simp) he
        · have := hnd.2.1
          simp only [List.nodup_cons, List.mem_map] at this
          exact this.1 ⟨g, hg, he⟩
      simp only [updFams, List.map_append, List.map_cons, if_true, List.append_assoc, List.singleton_append]
      congr 1
      · have : ∀ g ∈ done, (if g.id = f.id then ({ g with ver := (famSnapshot f).logs.foldl applyLog g.ver } : FamV) else g) = g := by
          intro g hg
          simp [hnd' g (List.mem_append_left _ hg)]
        rw [List.map_congr_left this]; simp
      · congr 1
        · have := replay_famSnapshot f hf.2.1
          rw [hf.2.2] at this
          simp [this]
        · rw [List.map_map]
          apply List.map_congr_left
          intro g hg
          have : ¬ g.id = f.id := hnd' g (List.mem_append_right _ hg)
          simp [this]
    rw [hupd]
    have h2 : done ++ f :: t = (done ++ [f]) ++ t := by simp
    rw [h2]
    exact ih (done ++ [f]) (by rw [← h2]; exact hnd) (fun g hg => hwf g (List.mem_cons_of_mem _ hg))

/-- (a) snapshot / replay round trip: replaying the records of `snapshot s` into a freshly
initialised version set (same family ids, empty versions) gives `s` back, with the file numbers
advanced by the store record (manifest := next, next := next + 1). -/
theorem replay_snapshot (s : VS) (n : Nat) (h : s.WF n) (rest : List Bytes) :
    replayRecs (VS.init n (s.fams.map (·.id))) ((snapshot s).map marshal ++ rest)
      = replayRecs ⟨s.fams, s.next, s.next + 1⟩ rest := by
  have h1 := replay_snapshot_fams n 1 2 (marshal ⟨storeFamilyID, [.nextFileNumber s.next]⟩ :: rest) [] s.fams
    (by simpa using h.ids_nodup) (fun f hf => ⟨h.ids_ne_store f hf, (h.vers f hf).1, (h.vers f hf).2⟩)
  simp only [snapshot, List.map_append, List.map_cons, List.map_nil, List.append_assoc, List.singleton_append,
    VS.init, List.map_map, List.nil_append] at h1 ⊢
  have h2 : (fun i => (⟨i, Version.empty n⟩ : FamV)) ∘ (fun (x : FamV) => x.id) = fun f => ⟨f.id, Version.empty n⟩ := rfl
  rw [h2, h1]
  simp [replayRecs, unmarshal_marshal, applyEL, setNumbers]

end LinVerif.Kv
