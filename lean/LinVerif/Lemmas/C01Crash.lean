/-
C01 helper lemmas: crash consistency of the abstract disk.

`Consistent cfg d a`  — reopening disk `d` yields exactly the abstract committed state `a`
                        (families, versions, table contents), with fresh file numbers.
`Inv m d`             — the open store `m` and its disk agree (holds between operations).

Main results: `open_consistent` (recovery from any consistent disk succeeds, returns the committed
state, and every prefix of ITS OWN trace is again consistent with the same state: roll-over
invariant), and one lemma per store operation: every prefix of the operation's trace is consistent
with the state before or with the state after the operation.
-/
import LinVerif.Model.KvFs
import LinVerif.Lemmas.C01Replay
import LinVerif.Lemmas.C01Fs

namespace LinVerif.Kv
open LinVerif

/-- every table number a version mentions: files of all levels and keys of the rollup map -/
def Version.nums (v : Version) : List Int := v.files.map (fun e => e.1.2) ++ v.rollup.map (fun e => e.1)

/-- abstract committed state: families (OPTIONS), their versions, and a reference disk holding the
contents of the referenced tables -/
structure Abs where
  info : List FamOpt
  fams : List FamV
  ref : Disk

/-- table `(name, f)` is a file of some family version of `a` -/
def Abs.refs (a : Abs) (name : Nat) (f : Int) : Prop :=
  ∃ o ∈ a.info, o.name = name ∧ ∃ fv ∈ a.fams, fv.id = o.id ∧ ∃ e ∈ fv.ver.files, e.1.2 = f

structure Consistent (cfg : Cfg) (d : Disk) (a : Abs) : Prop where
  opts : d.options.getD [] = a.info
  names : (a.info.map (·.name)).Nodup
  recov : ∃ vs, recoverVS cfg d = (vs, true) ∧ vs.fams = a.fams ∧ vs.WF cfg.levels ∧
          vs.next = vs.manifestNo + 1 ∧
          (∀ f ∈ a.fams, ∀ x ∈ f.ver.nums, x < vs.manifestNo) ∧
          (∀ j, d.current = some j → j < vs.manifestNo)
  tables : ∀ name f, a.refs name f →
          ∃ t, a.ref.table name f = some t ∧ t.complete = true ∧ d.table name f = some t

/-- recovery reads only `options.getD []`, CURRENT and the manifest it names -/
theorem recoverVS_congr' (cfg : Cfg) (d d' : Disk) (h1 : d'.options.getD [] = d.options.getD [])
    (h2 : d'.current = d.current)
    (h3 : ∀ j, d.current = some j → Map.lookup d'.manifests j = Map.lookup d.manifests j) :
    recoverVS cfg d' = recoverVS cfg d := by
  unfold recoverVS
  rw [h1, h2]
  cases hc : d.current with
  | none => rfl
  | some j => simp only [h3 j hc]

theorem Consistent.of_same (cfg : Cfg) {d d' : Disk} {a : Abs} (h : Consistent cfg d a)
    (h1 : d'.options.getD [] = d.options.getD []) (h2 : d'.current = d.current)
    (h3 : ∀ j, d.current = some j → Map.lookup d'.manifests j = Map.lookup d.manifests j)
    (h4 : ∀ name f, a.refs name f → d'.table name f = d.table name f) : Consistent cfg d' a := by
  refine ⟨by rw [h1]; exact h.opts, h.names, ?_, ?_⟩
  · obtain ⟨vs, hv⟩ := h.recov
    refine ⟨vs, by rw [recoverVS_congr' cfg d d' h1 h2 h3]; exact hv.1, hv.2.1, hv.2.2.1, hv.2.2.2.1, hv.2.2.2.2.1, ?_⟩
    intro j hj; rw [h2] at hj; exact hv.2.2.2.2.2 j hj
  · intro name f hr
    obtain ⟨t, ht⟩ := h.tables name f hr
    exact ⟨t, ht.1, ht.2.1, by rw [h4 name f hr]; exact ht.2.2⟩

/-- an operation that does not write OPTIONS, does not rename CURRENT, does not touch the manifest
CURRENT names and does not touch a referenced table keeps the disk consistent with the same state -/
theorem Consistent.step (cfg : Cfg) {d : Disk} {a : Abs} (h : Consistent cfg d a) (o : FsOp)
    (h1 : (applyFs d o).options.getD [] = d.options.getD []) (h2 : o ≠ .renameCurrent)
    (h3 : ∀ j, d.current = some j → o.manifestOf ≠ some j)
    (h4 : ∀ name f, o.touches = some (name, f) → ¬ a.refs name f) : Consistent cfg (applyFs d o) a := by
  apply h.of_same cfg h1 (current_frame d o h2)
  · intro j hj; exact manifest_frame d o j (h3 j hj)
  · intro name f hr
    apply table_frame
    intro e; exact h4 name f e hr

theorem Consistent.reref (cfg : Cfg) {d : Disk} {a : Abs} (h : Consistent cfg d a) :
    Consistent cfg d { a with ref := d } := by
  refine ⟨h.opts, h.names, h.recov, ?_⟩
  intro name f hr
  obtain ⟨t, ht⟩ := h.tables name f hr
  exact ⟨t, ht.2.2, ht.2.1, ht.2.2⟩

/-! ### unfolding the step-list driven definitions -/

theorem setCurrentOps_eq (n : Int) : setCurrentOps n = [FsOp.writeCurrentTmp n, FsOp.renameCurrent] := by
  simp [setCurrentOps, setCurrentSteps]

theorem initJournalOps_eq (vs : VS) :
    initJournalOps vs = FsOp.createManifest vs.manifestNo ::
      ((snapshot vs).map (fun el => FsOp.appendRec vs.manifestNo (marshal el)) ++
        [FsOp.writeCurrentTmp vs.manifestNo, FsOp.renameCurrent]) := by
  simp [initJournalOps, initJournalSteps, setCurrentOps_eq]

theorem applyEL_ids {s s' : VS} {el : EditLog} (h : applyEL s el = some s') :
    s'.fams.map (·.id) = s.fams.map (·.id) := by
  unfold applyEL at h
  by_cases h1 : el.fid = storeFamilyID
  · simp only [h1, if_true, Option.some.injEq] at h
    subst h; rw [foldl_setNumbers_fams]
  · simp only [h1, if_false] at h
    by_cases h2 : s.hasFam el.fid = true
    · simp only [h2, if_true, Option.some.injEq] at h
      subst h; rw [foldl_applyLogVS]; exact updFams_ids _ _ _
    · simp [h2] at h

theorem replayRecs_ids (s : VS) (recs : List Bytes) :
    (replayRecs s recs).1.fams.map (·.id) = s.fams.map (·.id) := by
  induction recs generalizing s with
  | nil => rfl
  | cons r t ih =>
    simp only [replayRecs]
    cases hu : unmarshal r with
    | none => rfl
    | some el =>
      simp only
      cases ha : applyEL s el with
      | none => rfl
      | some s' => simp only; rw [ih s', applyEL_ids ha]

theorem recoverVS_ids (cfg : Cfg) (d : Disk) :
    (recoverVS cfg d).1.fams.map (·.id) = (d.options.getD []).map (·.id) := by
  unfold recoverVS
  have h0 : (VS.init cfg.levels ((d.options.getD []).map (·.id))).fams.map (·.id) = (d.options.getD []).map (·.id) := by
    simp [VS.init, List.map_map, Function.comp_def]
  cases d.current with
  | none => exact h0
  | some j =>
    simp only
    cases Map.lookup d.manifests j with
    | none => exact h0
    | some m =>
      simp only [replay]
      split
      · rw [replayRecs_ids]; exact h0
      · rw [replayRecs_ids]; exact h0

/-- appending records one by one to MANIFEST-n -/
theorem appendRecs_spec (n : Int) (recs : List Bytes) : ∀ (x : Disk) (acc : List Bytes) (t : Bool),
    Map.lookup x.manifests n = some ⟨acc, t⟩ →
    let y := applyFsList x (recs.map (FsOp.appendRec n))
    Map.lookup y.manifests n = some ⟨acc ++ recs, t⟩ ∧ y.currentTmp = x.currentTmp := by
  induction recs with
  | nil => intro x acc t h; simpa [applyFsList] using h
  | cons r rs ih =>
    intro x acc t h
    simp only [List.map_cons, applyFsList_cons]
    have h1 : Map.lookup (applyFs x (.appendRec n r)).manifests n = some ⟨acc ++ [r], t⟩ := by
      simp [applyFs, h, Map.lookup_upsert_self]
    have h2 : (applyFs x (.appendRec n r)).currentTmp = x.currentTmp := by
      simp [applyFs, h]
    have := ih (applyFs x (.appendRec n r)) (acc ++ [r]) t h1
    simp only [List.append_assoc, List.singleton_append] at this
    exact ⟨this.1, by rw [this.2, h2]⟩

/-- the disk right after initJournal's rename: CURRENT names the new manifest, which holds exactly the records -/
theorem initJournal_disk (x : Disk) (n : Int) (recs : List Bytes) :
    let y := applyFsList x (FsOp.createManifest n :: (recs.map (FsOp.appendRec n) ++ [FsOp.writeCurrentTmp n, FsOp.renameCurrent]))
    y.current = some n ∧ Map.lookup y.manifests n = some ⟨recs, false⟩ := by
  simp only [applyFsList_cons, applyFsList_append]
  have h0 : Map.lookup (applyFs x (.createManifest n)).manifests n = some ⟨[], false⟩ := by
    simp [applyFs, Map.lookup_upsert_self]
  have h1 := appendRecs_spec n recs (applyFs x (.createManifest n)) [] false h0
  simp only [List.nil_append] at h1
  generalize applyFsList (applyFs x (.createManifest n)) (recs.map (FsOp.appendRec n)) = z at h1
  simp [applyFsList, applyFs, h1.1]

theorem prep_mem {d : Disk} {o : FsOp} (h : o ∈ openPrepOps d) :
    o = .mkdirStore ∨ o = .lockCreate ∨ (o = .writeOptions [] ∧ d.options = none) ∨ ∃ n, o = .mkdirFam n := by
  unfold openPrepOps at h
  cases hop : d.options with
  | none =>
    rw [hop] at h
    simp only [List.mem_append, List.mem_singleton] at h
    rcases h with (h | h) | h
    · split at h <;> simp at h; exact Or.inl h
    · split at h <;> simp at h; exact Or.inr (Or.inl h)
    · exact Or.inr (Or.inr (Or.inl ⟨h, rfl⟩))
  | some info =>
    rw [hop] at h
    simp only [List.mem_append, List.mem_map, List.mem_filter] at h
    rcases h with h | ⟨o', _, rfl⟩
    · split at h <;> simp at h; exact Or.inr (Or.inl h)
    · exact Or.inr (Or.inr (Or.inr ⟨_, rfl⟩))

theorem nodup_map_inj {α β : Type} {l : List α} {f : α → β} (h : (l.map f).Nodup) {a b : α}
    (ha : a ∈ l) (hb : b ∈ l) (e : f a = f b) : a = b := by
  induction l with
  | nil => simp at ha
  | cons x t ih =>
    simp only [List.map_cons, List.nodup_cons, List.mem_map, not_exists, not_and] at h
    simp only [List.mem_cons] at ha hb
    rcases ha with rfl | ha <;> rcases hb with rfl | hb
    · rfl
    · exact absurd e.symm (h.1 b hb)
    · exact absurd e (h.1 a ha)
    · exact ih h.2 ha hb

theorem mem_sortInts (l : List Int) (x : Int) : x ∈ sortInts l ↔ x ∈ l := by
  have hins : ∀ (y : Int) (t : List Int), x ∈ insertSorted y t ↔ x = y ∨ x ∈ t := by
    intro y t
    induction t with
    | nil => simp [insertSorted]
    | cons z r ih =>
      simp only [insertSorted]
      split
      · simp
      · simp only [List.mem_cons, ih]
        constructor
        · rintro (h | h | h)
          · exact Or.inr (Or.inl h)
          · exact Or.inl h
          · exact Or.inr (Or.inr h)
        · rintro (h | h | h)
          · exact Or.inr (Or.inl h)
          · exact Or.inl h
          · exact Or.inr (Or.inr h)
  induction l with
  | nil => simp [sortInts]
  | cons y t ih =>
    simp only [sortInts, List.foldr_cons, List.mem_cons] at ih ⊢
    rw [hins]
    constructor
    · rintro (h | h)
      · exact Or.inl h
      · exact Or.inr (ih.mp h)
    · rintro (h | h)
      · exact Or.inl h
      · exact Or.inr (ih.mpr h)

theorem mem_obsoleteManifestOps {x : Disk} {keep : Int} {o : FsOp} (h : o ∈ obsoleteManifestOps x keep) :
    ∃ m, o = .removeManifest m ∧ m ≠ keep := by
  simp only [obsoleteManifestOps, List.mem_map, List.mem_filter, ne_eq, decide_eq_true_eq] at h
  obtain ⟨m, ⟨_, hm⟩, rfl⟩ := h
  exact ⟨m, rfl, hm⟩

theorem mem_famObsoleteOps {x : Disk} {name : Nat} {live : List Int} {o : FsOp}
    (h : o ∈ famObsoleteOps x name live) : ∃ f, o = .removeTable name f ∧ f ∉ live := by
  simp only [famObsoleteOps, List.mem_map, List.mem_filter, Bool.not_eq_true', List.contains_eq_mem,
    decide_eq_false_iff_not] at h
  obtain ⟨f, ⟨_, hf⟩, rfl⟩ := h
  exact ⟨f, rfl, hf⟩

theorem verOf_some {vs : VS} {id : Int} {v : Version} (h : vs.verOf id = some v) :
    ∃ fv ∈ vs.fams, fv.id = id ∧ fv.ver = v := by
  unfold VS.verOf at h
  cases hf : vs.fams.find? (fun f => f.id = id) with
  | none => simp [hf] at h
  | some fv =>
    simp only [hf, Option.some.injEq] at h
    have h1 := List.mem_of_find?_eq_some hf
    have h2 := List.find?_some hf
    exact ⟨fv, h1, by simpa using h2, h⟩

theorem verOf_of_mem {vs : VS} {fv : FamV} (hn : (vs.fams.map (·.id)).Nodup) (h : fv ∈ vs.fams) :
    vs.verOf fv.id = some fv.ver := by
  unfold VS.verOf
  cases hf : vs.fams.find? (fun f => f.id = fv.id) with
  | none =>
    have := List.find?_eq_none.mp hf fv h
    simp at this
  | some g =>
    have h1 := List.mem_of_find?_eq_some hf
    have h2 := List.find?_some hf
    have : g = fv := nodup_map_inj hn h1 h (by simpa using h2)
    simp [this]

theorem mem_allFamObsoleteOps {x : Disk} {fams : List Fam} {vs : VS} {o : FsOp}
    (h : o ∈ allFamObsoleteOps x fams vs) :
    ∃ fam ∈ fams, ∃ v, vs.verOf fam.opt.id = some v ∧ ∃ f, o = .removeTable fam.opt.name f ∧ f ∉ liveFiles fam.pending v := by
  simp only [allFamObsoleteOps, List.mem_flatMap] at h
  obtain ⟨fam, hfam, ho⟩ := h
  cases hv : vs.verOf fam.opt.id with
  | none => simp [hv] at ho
  | some v =>
    simp only [hv] at ho
    obtain ⟨f, hf⟩ := mem_famObsoleteOps ho
    exact ⟨fam, hfam, v, hv, f, hf⟩

/-- a table that cleanup removes for the family called `name` is not referenced by the state whose
version of that family is `v` -/
theorem not_refs_of_not_live {a : Abs} {vs : VS} (hnames : (a.info.map (·.name)).Nodup)
    (hids : (vs.fams.map (·.id)).Nodup) (hf : vs.fams = a.fams)
    {o : FamOpt} (ho : o ∈ a.info) {v : Version} (hv : vs.verOf o.id = some v) {pending : List Int} {f : Int}
    (hl : f ∉ liveFiles pending v) : ¬ a.refs o.name f := by
  rintro ⟨o', ho', hn, fv, hfv, hid, e, he, hef⟩
  have : o' = o := nodup_map_inj hnames ho' ho hn
  subst this
  rw [← hf] at hfv
  have h2 := verOf_of_mem hids hfv
  rw [hid, hv] at h2
  simp only [Option.some.injEq] at h2
  apply hl
  simp only [liveFiles, List.mem_append, List.mem_map]
  right; left
  exact ⟨e, by rw [h2]; exact he, hef⟩

/-- the store is open on this disk and both agree (holds between operations) -/
structure Inv (m : Mem) (d : Disk) : Prop where
  cons : Consistent m.cfg d ⟨m.info, m.vs.fams, d⟩
  cur : d.current = some m.journal
  jlt : m.journal < m.vs.next
  nums : ∀ f ∈ m.vs.fams, ∀ x ∈ f.ver.nums, x < m.vs.next
  wf : m.vs.WF m.cfg.levels
  ids : m.vs.fams.map (·.id) = m.fams.map (·.opt.id)
  pend : ∀ f ∈ m.fams, ∀ x ∈ f.pending, x < m.vs.next ∧ ∀ v, m.vs.verOf f.opt.id = some v → x ∉ v.nums
  builder : ∀ f ∈ m.fams, ∀ fl, f.flusher = some fl → ∀ n c, fl.builder = some (n, c) → n ∈ f.pending
  seq : 0 ≤ m.familySeq ∧ ∀ f ∈ m.fams, f.opt.id ≤ m.familySeq

theorem foldl_maxId (l : List FamOpt) (a : Int) :
    a ≤ l.foldl (fun m o => if m < o.id then o.id else m) a ∧
    ∀ o ∈ l, o.id ≤ l.foldl (fun m o => if m < o.id then o.id else m) a := by
  induction l generalizing a with
  | nil => simp
  | cons x t ih =>
    simp only [List.foldl_cons, List.mem_cons]
    have h1 := ih (if a < x.id then x.id else a)
    refine ⟨?_, ?_⟩
    · have := h1.1; split at this <;> omega
    · rintro o (rfl | ho)
      · have := h1.1; split at this <;> omega
      · exact h1.2 o ho

/-- explicit form of newStore's result and trace when recovery succeeds -/
theorem openStore_ok (cfg : Cfg) (d : Disk) (vs : VS) (hrec : recoverVS cfg d = (vs, true)) :
    openStore cfg d =
      (some ⟨cfg, (d.options.getD []).map (fun o => ⟨o, [], none⟩), maxId (d.options.getD []), vs, vs.manifestNo⟩,
       (openPrepOps d ++ initJournalOps vs) ++
        (obsoleteManifestOps (applyFsList d (openPrepOps d ++ initJournalOps vs)) vs.manifestNo ++
         allFamObsoleteOps (applyFsList d (openPrepOps d ++ initJournalOps vs))
           ((d.options.getD []).map (fun o => ⟨o, [], none⟩)) vs)) := by
  simp [openStore, hrec, openDeferSteps]

theorem open_consistent (cfg : Cfg) (d : Disk) (a : Abs) (h : Consistent cfg d a) :
    ∃ m, (openStore cfg d).1 = some m ∧ m.cfg = cfg ∧ m.vs.fams = a.fams ∧ m.info = a.info ∧
      (∀ k, Consistent cfg (applyFsList d ((openStore cfg d).2.take k)) a) ∧
      Inv m (applyFsList d (openStore cfg d).2) := by
  obtain ⟨vs, hrec, hfams, hwf, hnext, hnums, hcur⟩ := h.recov
  rw [openStore_ok cfg d vs hrec]
  have hinfo : d.options.getD [] = a.info := h.opts
  -- shape of the trace
  let n := vs.manifestNo
  let recs := (snapshot vs).map marshal
  let pre := openPrepOps d ++ (FsOp.createManifest n :: (recs.map (FsOp.appendRec n) ++ [FsOp.writeCurrentTmp n]))
  let fams : List Fam := (d.options.getD []).map (fun o => ⟨o, [], none⟩)
  let d1 := applyFsList d (openPrepOps d ++ initJournalOps vs)
  let post := obsoleteManifestOps d1 n ++ allFamObsoleteOps d1 fams vs
  have hshape : (openPrepOps d ++ initJournalOps vs) ++ post = pre ++ FsOp.renameCurrent :: post := by
    simp only [pre, recs, n, initJournalOps_eq, List.map_map, List.append_assoc, List.cons_append,
      List.nil_append, Function.comp_def]
  have hd1 : d1 = applyFsList d (pre ++ [FsOp.renameCurrent]) := by
    simp only [d1, pre, recs, n, initJournalOps_eq, List.map_map, List.append_assoc, List.cons_append,
      List.nil_append, Function.comp_def]
  -- phase A: CURRENT unchanged
  let PA : Disk → Prop := fun x => Consistent cfg x a ∧ x.current = d.current
  let PB : Disk → Prop := fun x => Consistent cfg x a ∧ x.current = some n
  have hA0 : PA d := ⟨h, rfl⟩
  have hne : ∀ j, d.current = some j → n ≠ j := by
    intro j hj e
    have := hcur j hj
    simp only [n] at e
    omega
  have hApre : ∀ o ∈ pre, ∀ x, PA x → PA (applyFs x o) := by
    intro o ho x hx
    have hframe : (∀ y, o ≠ .writeOptions y) ∨ (o = .writeOptions [] ∧ d.options = none) →
        o ≠ .renameCurrent → (∀ j, d.current = some j → o.manifestOf ≠ some j) → o.touches = none → PA (applyFs x o) := by
      intro h1 h2 h3 h4
      refine ⟨hx.1.step cfg o ?_ h2 (by intro j hj; rw [hx.2] at hj; exact h3 j hj) (by intro nm f e; rw [h4] at e; cases e), ?_⟩
      · rcases h1 with h1 | ⟨h1, h1'⟩
        · rw [options_frame x o h1]
        · subst h1
          rw [hx.1.opts, ← hinfo, h1']; rfl
      · rw [current_frame x o h2]; exact hx.2
    simp only [pre, List.mem_append, List.mem_cons, List.mem_map, List.mem_singleton] at ho
    rcases ho with ho | ho | (⟨r, _, rfl⟩ | ho)
    · rcases prep_mem ho with rfl | rfl | ⟨rfl, hn⟩ | ⟨nm, rfl⟩
      · exact hframe (Or.inl (by intro y; simp)) (by simp) (by intro j _; simp [FsOp.manifestOf]) rfl
      · exact hframe (Or.inl (by intro y; simp)) (by simp) (by intro j _; simp [FsOp.manifestOf]) rfl
      · exact hframe (Or.inr ⟨rfl, hn⟩) (by simp) (by intro j _; simp [FsOp.manifestOf]) rfl
      · exact hframe (Or.inl (by intro y; simp)) (by simp) (by intro j _; simp [FsOp.manifestOf]) rfl
    · subst ho
      exact hframe (Or.inl (by intro y; simp)) (by simp)
        (by intro j hj; simp only [FsOp.manifestOf, ne_eq, Option.some.injEq]; exact hne j hj) rfl
    · exact hframe (Or.inl (by intro y; simp)) (by simp)
        (by intro j hj; simp only [FsOp.manifestOf, ne_eq, Option.some.injEq]; exact hne j hj) rfl
    · rcases ho with rfl | ho
      · exact hframe (Or.inl (by intro y; simp)) (by simp) (by intro j _; simp [FsOp.manifestOf]) rfl
      · simp at ho
  -- the commit point: the rename
  have hpreA : PA (applyFsList d pre) := prefix_inv_full PA pre d hA0 hApre
  have hdisk := initJournal_disk (applyFsList d (openPrepOps d)) n recs
  have hd1' : d1 = applyFsList (applyFsList d (openPrepOps d))
      (FsOp.createManifest n :: (recs.map (FsOp.appendRec n) ++ [FsOp.writeCurrentTmp n, FsOp.renameCurrent])) := by
    simp only [d1, recs, n, initJournalOps_eq, List.map_map, applyFsList_append, Function.comp_def]
  simp only at hdisk
  rw [← hd1'] at hdisk
  have hd1r : d1 = applyFs (applyFsList d pre) .renameCurrent := by
    rw [hd1, applyFsList_append]; rfl
  have hidsrec : vs.fams.map (·.id) = a.info.map (·.id) := by
    have := recoverVS_ids cfg d
    rw [hrec, hinfo] at this
    exact this
  have hB1 : PB d1 := by
    refine ⟨⟨?_, h.names, ?_, ?_⟩, hdisk.1⟩
    · rw [hd1r, options_frame _ _ (by intro y; simp)]; exact hpreA.1.opts
    · have hopt : d1.options.getD [] = a.info := by
        rw [hd1r, options_frame _ _ (by intro y; simp)]; exact hpreA.1.opts
      refine ⟨⟨vs.fams, vs.next, vs.next + 1⟩, ?_, hfams, ⟨hwf.ids_nodup, hwf.ids_ne_store, hwf.vers⟩, rfl, ?_, ?_⟩
      · simp only [recoverVS, hdisk.1, hdisk.2, hopt, ← hidsrec]
        simp only [replay, Bool.and_false]
        have := replay_snapshot vs cfg.levels hwf []
        simp only [List.append_nil] at this
        rw [this]
        simp [replayRecs]
      · intro f hf x hx
        have := hnums f hf x hx
        simp only; omega
      · intro j hj
        rw [hdisk.1] at hj
        simp only [Option.some.injEq] at hj
        simp only [n] at hj
        simp only; omega
    · intro nm f hr
      obtain ⟨t, ht⟩ := hpreA.1.tables nm f hr
      refine ⟨t, ht.1, ht.2.1, ?_⟩
      rw [hd1r, table_frame _ _ _ _ (by simp [FsOp.touches])]
      exact ht.2.2
  have hBpost : ∀ o ∈ post, ∀ x, PB x → PB (applyFs x o) := by
    intro o ho x hx
    simp only [post, List.mem_append] at ho
    rcases ho with ho | ho
    · obtain ⟨mm, rfl, hm⟩ := mem_obsoleteManifestOps ho
      refine ⟨hx.1.step cfg _ (by rw [options_frame _ _ (by intro y; simp)]) (by simp) ?_ (by intro nm f e; simp [FsOp.touches] at e),
        by rw [current_frame _ _ (by simp)]; exact hx.2⟩
      intro j hj
      rw [hx.2] at hj
      simp only [Option.some.injEq] at hj
      simp only [FsOp.manifestOf, ne_eq, Option.some.injEq]
      omega
    · obtain ⟨fam, hfam, v, hv, f, rfl, hl⟩ := mem_allFamObsoleteOps ho
      refine ⟨hx.1.step cfg _ (by rw [options_frame _ _ (by intro y; simp)]) (by simp)
        (by intro j _; simp [FsOp.manifestOf]) ?_, by rw [current_frame _ _ (by simp)]; exact hx.2⟩
      intro nm g e
      simp only [FsOp.touches, Option.some.injEq, Prod.mk.injEq] at e
      obtain ⟨rfl, rfl⟩ := e
      simp only [fams, List.mem_map] at hfam
      obtain ⟨o', ho', rfl⟩ := hfam
      rw [hinfo] at ho'
      exact not_refs_of_not_live h.names hwf.ids_nodup hfams ho' hv hl
  refine ⟨_, rfl, rfl, hfams, by simp [Mem.info, List.map_map, Function.comp_def, hinfo], ?_, ?_⟩
  · intro k
    simp only
    rw [hshape]
    rcases prefix_two_phase PA PB pre post .renameCurrent d hA0 hApre (by rw [← hd1]; exact hB1) hBpost k with h | h
    · exact h.1
    · exact h.1
  · simp only
    have hfin : PB (applyFsList d1 post) := prefix_inv_full PB post d1 hB1 hBpost
    have hfinal : applyFsList d ((openPrepOps d ++ initJournalOps vs) ++ post) = applyFsList d1 post := by
      rw [applyFsList_append]
    rw [hfinal]
    obtain ⟨vs', hrec', hf', hwf', hn', hnums', hcur'⟩ := hfin.1.recov
    refine ⟨?_, hfin.2, ?_, ?_, hwf, ?_, ?_, ?_, ?_⟩
    · have := hfin.1.reref cfg
      simpa [Mem.info, List.map_map, Function.comp_def, hinfo, hfams] using this
    · simp only [n]; omega
    · intro f hf x hx
      have := hnums f (by rw [← hfams]; exact hf) x hx
      simp only; omega
    · simp only [List.map_map, Function.comp_def]
      rw [hidsrec, hinfo]
    · intro f hf x hx
      simp only [List.mem_map] at hf
      obtain ⟨o, _, rfl⟩ := hf
      simp at hx
    · intro f hf fl hfl
      simp only [List.mem_map] at hf
      obtain ⟨o, _, rfl⟩ := hf
      simp at hfl
    · refine ⟨(foldl_maxId _ 0).1, ?_⟩
      intro f hf
      simp only [List.mem_map] at hf
      obtain ⟨o, ho, rfl⟩ := hf
      exact (foldl_maxId _ 0).2 o ho

/-! ### one commit = one appended record -/

theorem replayRecs_append (s s1 : VS) (recs more : List Bytes) (h : replayRecs s recs = (s1, true)) :
    replayRecs s (recs ++ more) = replayRecs s1 more := by
  induction recs generalizing s with
  | nil => simp only [replayRecs, Prod.mk.injEq] at h; simp [h.1]
  | cons r t ih =>
    simp only [replayRecs, List.cons_append] at h ⊢
    cases hu : unmarshal r with
    | none => simp [hu] at h
    | some el =>
      simp only [hu] at h ⊢
      cases ha : applyEL s el with
      | none => simp [ha] at h
      | some s' =>
        simp only [ha] at h ⊢
        exact ih s' h

theorem recoverVS_current {cfg : Cfg} {x : Disk} {j : Int} {vs0 : VS} (hc : x.current = some j)
    (h : recoverVS cfg x = (vs0, true)) :
    ∃ mf, Map.lookup x.manifests j = some mf ∧ mf.torn = false ∧
      replayRecs (VS.init cfg.levels ((x.options.getD []).map (·.id))) mf.recs = (vs0, true) := by
  simp only [recoverVS, hc] at h
  cases hl : Map.lookup x.manifests j with
  | none => simp [hl] at h
  | some mf =>
    simp only [hl, replay] at h
    refine ⟨mf, rfl, ?_, ?_⟩
    · cases ht : mf.torn with
      | false => rfl
      | true =>
        simp only [ht, Bool.and_true] at h
        split at h
        · simp at h
        · rename_i hne
          simp only [Prod.ext_iff] at h
          exact absurd h.2 hne
    · split at h
      · simp at h
      · exact h

/-- the table numbers a log introduces -/
def Log.newNums : Log → List Int
  | .newFile _ f _ _ _ => [f]
  | .newRollupFile f _ => [f]
  | _ => []

theorem removeFrom_keys {κ : Type} [DecidableEq κ] (m : List (κ × List Int)) (k : κ) (x : Int) (y : κ)
    (h : y ∈ Map.keys (removeFrom m k x)) : y ∈ Map.keys m := by
  unfold removeFrom at h
  cases hl : Map.lookup m k with
  | none => simpa [hl] using h
  | some xs =>
    simp only [hl] at h
    split at h
    · rw [Map.keys_erase] at h
      exact (List.mem_filter.mp h).1
    · rw [Map.keys_upsert] at h
      split at h
      · exact h
      · simp only [List.mem_append, List.mem_singleton] at h
        rcases h with h | h
        · exact h
        · subst h; exact Map.mem_keys_of_lookup hl

theorem nums_applyLog (v : Version) (l : Log) (y : Int) (h : y ∈ (applyLog v l).nums) :
    y ∈ v.nums ∨ y ∈ l.newNums := by
  simp only [Version.nums, List.mem_append, List.mem_map] at h ⊢
  cases l with
  | newFile lvl f mn mx sz =>
    simp only [applyLog] at h
    split at h
    · rcases h with ⟨e, he, rfl⟩ | h
      · rcases Map.mem_upsert he with rfl | he
        · right; simp [Log.newNums]
        · left; left; exact ⟨e, he, rfl⟩
      · left; right; exact h
    · left; exact h
  | deleteFile lvl f =>
    simp only [applyLog] at h
    split at h
    · rcases h with ⟨e, he, rfl⟩ | h
      · left; left; exact ⟨e, (Map.mem_erase he).1, rfl⟩
      · left; right; exact h
    · left; exact h
  | nextFileNumber n => left; exact h
  | newRollupFile f i =>
    simp only [applyLog] at h
    rcases h with h | ⟨e, he, rfl⟩
    · left; left; exact h
    · rcases Map.mem_upsert he with rfl | he
      · right; simp [Log.newNums]
      · left; right; exact ⟨e, he, rfl⟩
  | deleteRollupFile f i =>
    simp only [applyLog] at h
    rcases h with h | ⟨e, he, rfl⟩
    · left; left; exact h
    · left; right
      have : e.1 ∈ Map.keys (removeFrom v.rollup f i) := by
        simp only [Map.keys, List.mem_map]; exact ⟨e, he, rfl⟩
      have := removeFrom_keys _ _ _ _ this
      simp only [Map.keys, List.mem_map] at this
      exact this
  | newReferenceFile st fam f =>
    simp only [applyLog] at h
    left
    split at h
    · exact h
    · split at h <;> exact h
  | deleteReferenceFile st fam f => left; exact h
  | sequence l s => left; exact h

theorem nums_foldl_applyLog (v : Version) (ls : List Log) (y : Int) (h : y ∈ (ls.foldl applyLog v).nums) :
    y ∈ v.nums ∨ y ∈ ls.flatMap Log.newNums := by
  induction ls generalizing v with
  | nil => left; exact h
  | cons l t ih =>
    simp only [List.foldl_cons] at h
    rcases ih _ h with h | h
    · rcases nums_applyLog v l y h with h | h
      · left; exact h
      · right; simp only [List.flatMap_cons, List.mem_append]; left; exact h
    · right; simp only [List.flatMap_cons, List.mem_append]; right; exact h

theorem foldl_setNumbers_snoc (s : VS) (logs : List Log) (x : Int) :
    ((logs ++ [Log.nextFileNumber x]).foldl setNumbers s).manifestNo = x ∧
    ((logs ++ [Log.nextFileNumber x]).foldl setNumbers s).next = x + 1 := by
  simp [List.foldl_append, setNumbers]

/-- explicit form of `applyEL` for a family edit log that ends with NextFileNumber(x) -/
theorem applyEL_commit (s : VS) (fid : Int) (logs : List Log) (x : Int) (h1 : fid ≠ storeFamilyID)
    (h2 : s.hasFam fid = true) :
    applyEL s ⟨fid, logs ++ [.nextFileNumber x]⟩ =
      some ⟨updFams s.fams fid (logs ++ [.nextFileNumber x]), x, x + 1⟩ := by
  simp only [applyEL, h1, if_false, h2, if_true, foldl_applyLogVS]
  have := foldl_setNumbers_snoc s logs x
  rw [this.1, this.2]

theorem flatMap_newNums_snoc (logs : List Log) (x : Int) :
    (logs ++ [Log.nextFileNumber x]).flatMap Log.newNums = logs.flatMap Log.newNums := by
  simp [Log.newNums]

/-- (b) one commit is one appended record: appending the record of an edit log to the manifest
CURRENT names turns a disk consistent with `vs` into a disk consistent with `applyEL vs el`. -/
theorem commit_consistent (cfg : Cfg) (x : Disk) (info : List FamOpt) (vs vs' : VS) (R R' : Disk) (j fid : Int)
    (logs : List Log)
    (hc : Consistent cfg x ⟨info, vs.fams, R⟩) (hcur : x.current = some j) (hj : j < vs.next)
    (hnums : ∀ f ∈ vs.fams, ∀ y ∈ f.ver.nums, y < vs.next) (hwf : vs.WF cfg.levels)
    (hfid : fid ≠ storeFamilyID) (hhas : vs.hasFam fid = true)
    (hap : applyEL vs ⟨fid, logs ++ [.nextFileNumber vs.next]⟩ = some vs')
    (hnew : ∀ y ∈ logs.flatMap Log.newNums, y < vs.next)
    (htab : ∀ name f, (⟨info, vs'.fams, R'⟩ : Abs).refs name f →
      ∃ t, R'.table name f = some t ∧ t.complete = true ∧ x.table name f = some t) :
    Consistent cfg (applyFs x (.appendRec j (marshal ⟨fid, logs ++ [.nextFileNumber vs.next]⟩))) ⟨info, vs'.fams, R'⟩ ∧
    vs'.manifestNo = vs.next ∧ vs'.next = vs.next + 1 ∧ vs'.WF cfg.levels ∧
    (∀ f ∈ vs'.fams, ∀ y ∈ f.ver.nums, y < vs'.next) ∧
    vs'.fams.map (·.id) = vs.fams.map (·.id) := by
  have hvs' : vs' = ⟨updFams vs.fams fid (logs ++ [.nextFileNumber vs.next]), vs.next, vs.next + 1⟩ := by
    rw [applyEL_commit vs fid logs vs.next hfid hhas] at hap
    exact (Option.some.inj hap).symm
  have hwf' : vs'.WF cfg.levels := applyEL_wf hwf _ hap
  have hnums' : ∀ f ∈ vs'.fams, ∀ y ∈ f.ver.nums, y < vs.next := by
    intro f hf y hy
    rw [hvs'] at hf
    obtain ⟨g0, hg0, _, hv⟩ := mem_updFams hf
    rcases hv with hv | ⟨_, hv⟩
    · rw [hv] at hy; exact hnums g0 hg0 y hy
    · rw [hv] at hy
      rcases nums_foldl_applyLog _ _ _ hy with h | h
      · exact hnums g0 hg0 y h
      · rw [flatMap_newNums_snoc] at h; exact hnew y h
  obtain ⟨vs0, hrec, hf0, _, _, _, _⟩ := hc.recov
  obtain ⟨mf, hl, htorn, hrep⟩ := recoverVS_current hcur hrec
  refine ⟨⟨?_, hc.names, ?_, ?_⟩, by rw [hvs'], by rw [hvs'], hwf', ?_, by rw [hvs']; exact updFams_ids _ _ _⟩
  · rw [options_frame _ _ (by intro y; simp)]; exact hc.opts
  · refine ⟨vs', ?_, rfl, hwf', by rw [hvs'], ?_, ?_⟩
    · have hl' : Map.lookup (applyFs x (.appendRec j (marshal ⟨fid, logs ++ [.nextFileNumber vs.next]⟩))).manifests j
          = some { mf with recs := mf.recs ++ [marshal ⟨fid, logs ++ [.nextFileNumber vs.next]⟩] } := by
        simp [applyFs, hl, Map.lookup_upsert_self]
      have ho : (applyFs x (.appendRec j (marshal ⟨fid, logs ++ [.nextFileNumber vs.next]⟩))).options = x.options :=
        options_frame _ _ (by intro y; simp)
      have hcu : (applyFs x (.appendRec j (marshal ⟨fid, logs ++ [.nextFileNumber vs.next]⟩))).current = some j := by
        rw [current_frame _ _ (by simp)]; exact hcur
      simp only [recoverVS, hcu, hl', ho, replay, htorn, Bool.and_false]
      rw [replayRecs_append _ _ _ _ hrep]
      have hhas0 : vs0.hasFam fid = true := by
        rw [hasFam_iff] at hhas ⊢; rw [hf0]; exact hhas
      simp only [replayRecs, unmarshal_marshal]
      rw [applyEL_commit vs0 fid logs vs.next hfid hhas0, hf0, hvs']
      simp
    · intro f hf y hy
      have := hnums' f hf y hy
      rw [hvs']; simpa using this
    · intro j' hj'
      rw [current_frame _ _ (by simp), hcur] at hj'
      simp only [Option.some.injEq] at hj'
      rw [hvs']; simp only; omega
  · intro name f hr
    obtain ⟨t, ht⟩ := htab name f hr
    exact ⟨t, ht.1, ht.2.1, by rw [table_frame _ _ _ _ (by simp [FsOp.touches])]; exact ht.2.2⟩
  · intro f hf y hy
    have := hnums' f hf y hy
    rw [hvs']; simp only; omega

end LinVerif.Kv
