/-
C07, second layer: (A) data files only ever receive rows ABOVE the sequence that was durably
stored before them (file-level form of "never applied again"); (B) after recovery the replica
loop, run to the end of the log, makes every appended entry present again ("hence replayed").
-/
import LinVerif.Lemmas.C07

namespace LinVerif.NodeRecovery
set_option linter.unusedSimpArgs false
set_option linter.unusedVariables false

/-- the sequence recorded by the newest manifest record that carries one -/
def latestStored : List DataFile → Option Int
  | [] => none
  | f :: fs => newStored f.stored (latestStored fs)

/-- every file's rows are above the sequence stored by the files before it -/
def FilesAbove : List DataFile → Prop
  | [] => True
  | f :: fs => (∀ r ∈ f.rows, ov (latestStored fs) < r.seq) ∧ FilesAbove fs

structure Inv2 (st : St) : Prop where
  stored_eq : st.stored = latestStored st.files
  files_above : FilesAbove st.files
  mem_above : ∀ r ∈ st.memMut, ov st.stored < r.seq ∧ ∀ fz, st.frozen = some fz → ov fz.captured < r.seq
  fz_above : ∀ fz, st.frozen = some fz → fz.committed = false → ∀ r ∈ fz.rows, ov st.stored < r.seq

theorem inv2_init : Inv2 St.init := by
  constructor <;> simp [St.init, latestStored, FilesAbove]

/-- changes that touch neither rows, files nor the stored sequence -/
theorem inv2_same {st st' : St} (h : Inv2 st) (h1 : st'.files = st.files) (h2 : st'.stored = st.stored)
    (h3 : st'.memMut = st.memMut) (h4 : st'.frozen = st.frozen) : Inv2 st' := by
  obtain ⟨a, b, c, d⟩ := h
  constructor
  · rw [h1, h2]; exact a
  · rw [h1]; exact b
  · rw [h2, h3, h4]; exact c
  · rw [h2, h4]; exact d

theorem inv2_applyWrite {st : St} (hr : st.phase = .running) (hi : Inv st) (h : Inv2 st) :
    Inv2 (doApplyWrite st) := by
  unfold doApplyWrite
  split
  case h_2 => exact h
  case h_1 fl hfl =>
    split
    case isTrue => exact h
    case isFalse hw =>
      simp at hw
      obtain ⟨hw', hacq⟩ := hw
      obtain ⟨hrun, hcons, hseq, hbads, hlog, h0⟩ := hi.infl fl hfl
      obtain ⟨f1, _, _, _⟩ := hi.flags fl hfl
      have hss := hi.stored_seq (by rw [hr]; decide)
      obtain ⟨a, b, c, d⟩ := h
      -- names do not matter
      refine inv2_same (st := putRow { st with inflight := some { fl with written := true } } fl.toFrozen
        fl.closed ⟨fl.seq, fl.metric, fl.tagv⟩) ?_ (by simp) (by simp) (by simp) (by simp)
      unfold putRow
      rw [f1]
      simp only [Bool.false_eq_true, if_false]
      split
      case isTrue htf =>
        obtain ⟨fz, hfz, hnc⟩ := hi.to_frozen fl hfl htf hw'
        simp only [hfz]
        constructor
        · exact a
        · exact b
        · intro r hr'
          obtain ⟨x, y⟩ := c r hr'
          refine ⟨x, ?_⟩
          intro fz' hfz'; simp at hfz'; subst hfz'
          exact y fz hfz
        · intro fz' hfz' _ r hr'
          simp at hfz'; subst hfz'
          simp at hr'
          rcases hr' with hr' | hr'
          · subst hr'; simp only []; omega
          · exact d fz hfz hnc r hr'
      case isFalse htf =>
        constructor
        · exact a
        · exact b
        · intro r hr'
          simp at hr'
          rcases hr' with hr' | hr'
          · subst hr'
            refine ⟨by simp only []; omega, ?_⟩
            intro fz hfz
            have := (hi.fz_capt fz hfz).1
            simp only []; omega
          · exact c r hr'
        · exact d

theorem inv2_freeze {st : St} (hr : st.phase = .running) (hi : Inv st) (h : Inv2 st) : Inv2 (doFreeze st) := by
  unfold doFreeze
  split
  case h_2 => exact h
  case h_1 hfz =>
    split
    case isTrue => exact h
    case isFalse =>
      obtain ⟨a, b, c, d⟩ := h
      constructor
      · exact a
      · exact b
      · intro r hr'; simp at hr'
      · intro fz hfz' _ r hr'
        simp at hfz'; subst hfz'
        exact (c r hr').1

theorem inv2_dataCommit {st : St} (hr : st.phase = .running) (hi : Inv st) (h : Inv2 st) :
    Inv2 (doDataCommit st) := by
  unfold doDataCommit
  split
  case h_2 => exact h
  case h_1 fz hfz =>
    split
    case isTrue => exact h
    case isFalse hg =>
      simp at hg
      obtain ⟨hnc, _⟩ := hg
      obtain ⟨a, b, c, d⟩ := h
      obtain ⟨hc1, hc2⟩ := hi.fz_capt fz hfz
      have h22 := hi.stored_lo
      have hst : ov (newStored fz.captured st.stored) = ov fz.captured := by
        unfold newStored
        cases hcap : fz.captured with
        | some x => rfl
        | none => simp only [hcap, ov, Option.getD_none] at hc2 h22 ⊢; omega
      constructor
      · simp only [latestStored]; rw [a]
      · exact ⟨fun r hr' => by rw [← a]; exact d fz hfz hnc r hr', b⟩
      · intro r hr'
        obtain ⟨x, y⟩ := c r hr'
        have := y fz hfz
        refine ⟨by simp only []; rw [hst]; exact this, ?_⟩
        intro fz' hfz'; simp at hfz'; subst hfz'; exact this
      · intro fz' hfz' hc; simp at hfz'; subst hfz'; simp at hc

theorem inv2_ackCallback {st : St} (h : Inv2 st) : Inv2 (doAckCallback st) := by
  unfold doAckCallback
  split
  case h_2 => exact h
  case h_1 fz hfz =>
    split
    case isFalse => exact h
    case isTrue =>
      rw [ackOpt_eq]
      obtain ⟨a, b, c, d⟩ := h
      constructor
      · exact a
      · exact b
      · intro r hr'; exact ⟨(c r hr').1, fun fz' hfz' => by simp at hfz'⟩
      · intro fz' hfz'; simp at hfz'

theorem inv2_crash {st : St} (h : Inv2 st) : Inv2 (doCrash st) := by
  obtain ⟨a, b, c, d⟩ := h
  constructor
  · exact a
  · exact b
  · intro r hr'; simp [doCrash] at hr'
  · intro fz hfz; simp [doCrash] at hfz

theorem inv2_step (cfg : Cfg) {st : St} (e : Ev) (hi : Inv st) (h : Inv2 st) : Inv2 (step cfg st e) := by
  cases e <;> simp only [step, whenRunning]
  case crash => exact inv2_crash h
  case recover =>
    split
    · apply inv2_same h <;> (unfold doRecover ackOpt ackTo; (repeat' split) <;> rfl)
    · exact h
  case rewind =>
    split
    · exact inv2_same h rfl rfl rfl rfl
    · exact h
  case append m t =>
    split
    · split
      · exact h
      · exact inv2_same h rfl rfl rfl rfl
    · exact h
  case applyBegin =>
    split
    · split
      · exact h
      · apply inv2_same h <;> (unfold doApplyBegin beginAt ignoreMsg ackTo; (repeat' split) <;> rfl)
    · exact h
  case applyGetFail =>
    split
    · split
      · exact h
      · apply inv2_same h <;> (unfold doApplyGetFail ignoreMsg ackTo; (repeat' split) <;> rfl)
    · exact h
  case applyNoRows =>
    split
    · split
      · exact h
      · apply inv2_same h <;> (unfold doApplyNoRows; (repeat' split) <;> rfl)
    · exact h
  case appendBad =>
    split
    · split
      · exact h
      · exact inv2_same h rfl rfl rfl rfl
    · exact h
  case foreignWrite m t =>
    split
    · exact inv2_same h (by simp) (by simp) (by simp) (by simp)
    · exact h
  case foreignNames m t =>
    split
    · exact inv2_same h (by simp) (by simp) (by simp) (by simp)
    · exact h
  case foreignMetric m =>
    split
    · exact inv2_same h rfl rfl rfl rfl
    · exact h
  case foreignTagv m t =>
    split
    · exact inv2_same h rfl rfl rfl rfl
    · exact h
  case applyTake =>
    split
    · apply inv2_same h <;> (unfold doApplyTake; (repeat' split) <;> rfl)
    · exact h
  case applyAcquire =>
    split
    · apply inv2_same h <;> (unfold doApplyAcquire; (repeat' split) <;> rfl)
    · exact h
  case walExpire =>
    split
    · apply inv2_same h <;> (unfold doWalExpire; (repeat' split) <;> rfl)
    · exact h
  case applyWrite =>
    split
    · exact inv2_applyWrite ‹_› hi h
    · exact h
  case applyCommit =>
    split
    · apply inv2_same h <;> (unfold doApplyCommit; (repeat' split) <;> rfl)
    · exact h
  case metaPrepare =>
    split
    · exact inv2_same h rfl rfl rfl rfl
    · exact h
  case metaFlushMetric =>
    split
    · exact inv2_same h rfl rfl rfl rfl
    · exact h
  case metaFlushTagv =>
    split
    · exact inv2_same h rfl rfl rfl rfl
    · exact h
  case indexPrepare =>
    split
    · exact inv2_same h rfl rfl rfl rfl
    · exact h
  case indexFlush =>
    split
    · exact inv2_same h rfl rfl rfl rfl
    · exact h
  case freeze =>
    split
    · exact inv2_freeze ‹_› hi h
    · exact h
  case dataCommit =>
    split
    · exact inv2_dataCommit ‹_› hi h
    · exact h
  case ackCallback =>
    split
    · exact inv2_ackCallback h
    · exact h
  case logGC k =>
    split
    · apply inv2_same h <;> (unfold doLogGC; (repeat' split) <;> rfl)
    · exact h

theorem inv2_run (cfg : Cfg) (hx : cfg.ignoreExact = true) (evs : List Ev) {st : St} (hg : GapFree cfg st evs)
    (hi : Inv st) (h : Inv2 st) : Inv2 (run cfg st evs) := by
  induction evs generalizing st with
  | nil => exact h
  | cons e es ih => exact ih hg.2 (inv_step cfg hx e hg.1 hi) (inv2_step cfg e hi h)


/-! ### (B) the replica loop catches up -/

theorem applyWrite_none {st : St} (h : st.inflight = none) : doApplyWrite st = st := by
  simp [doApplyWrite, h]

theorem applyCommit_none {st : St} (h : st.inflight = none) : doApplyCommit st = st := by
  simp [doApplyCommit, h]

theorem applyTake_none (cfg : Cfg) {st : St} (h : st.inflight = none) : doApplyTake cfg st = st := by
  simp [doApplyTake, h]

theorem applyAcquire_none {st : St} (h : st.inflight = none) : doApplyAcquire st = st := by
  simp [doApplyAcquire, h]

/-- take, acquire, write, commit of a freshly validated entry on a running node -/
theorem apply_tail_fresh (cfg : Cfg) {st : St} (hr : st.phase = .running) {s : Int} {m t : Nat}
    (h : st.inflight = some (InFlight.fresh s m t)) :
    (run cfg st [.applyTake, .applyAcquire, .applyWrite, .applyCommit]).inflight = none ∧
    (run cfg st [.applyTake, .applyAcquire, .applyWrite, .applyCommit]).phase = .running ∧
    (run cfg st [.applyTake, .applyAcquire, .applyWrite, .applyCommit]).log = st.log ∧
    (run cfg st [.applyTake, .applyAcquire, .applyWrite, .applyCommit]).consumed = st.consumed ∧
    (run cfg st [.applyTake, .applyAcquire, .applyWrite, .applyCommit]).walGone = st.walGone := by
  cases hc : cfg.atomicAcquire <;>
    simp [run, step, whenRunning, doApplyTake, doApplyAcquire, doApplyWrite, putRow, doApplyCommit,
      InFlight.fresh, hr, h, hc]

theorem apply_tail_none (cfg : Cfg) {st : St} (hr : st.phase = .running) (h : st.inflight = none) :
    run cfg st [.applyTake, .applyAcquire, .applyWrite, .applyCommit] = st := by
  simp [run, step, whenRunning, hr, applyTake_none cfg h, applyAcquire_none h, applyWrite_none h,
    applyCommit_none h]

/-- `doApplyBegin` on an idle running node: nothing pending -> no change; otherwise the head moves by
one and either the entry is in flight (fresh), or it was rejected, or it was corrupt and only the
consumer group / family sequence moved -/
theorem applyBegin_effect (cfg : Cfg) {st : St} (hi : Inv st) (hn : st.inflight = none) :
    (¬ st.consumed < st.appended → doApplyBegin cfg st = st) ∧
    (st.consumed < st.appended →
      (doApplyBegin cfg st).phase = st.phase ∧ (doApplyBegin cfg st).log = st.log ∧
      (doApplyBegin cfg st).consumed = st.consumed + 1 ∧ (doApplyBegin cfg st).walGone = st.walGone ∧
      ((doApplyBegin cfg st).inflight = none ∨
        ∃ m t, (doApplyBegin cfg st).inflight = some (InFlight.fresh (st.consumed + 1) m t))) := by
  constructor
  · intro hlt
    unfold doApplyBegin
    rw [if_neg]; intro hg; exact hlt (by omega)
  · intro hlt
    have hg : st.inflight.isNone = true ∧ st.consumed + 1 ≤ st.appended := ⟨by simp [hn], by omega⟩
    have hgc : ¬ (st.consumed + 1 < st.gcLow) := by have := hi.gc_ack; have := hi.ack_cons; omega
    have hlen : (st.consumed + 1).toNat < st.log.length := by
      have := hg.2; have := hi.ack_lo; have := hi.ack_cons; simp only [St.appended] at *; omega
    obtain ⟨p, hl⟩ : ∃ p, st.log[(st.consumed + 1).toNat]? = some p :=
      ⟨st.log[(st.consumed + 1).toNat], by simp [hlen]⟩
    unfold doApplyBegin
    rw [if_pos hg]
    unfold beginAt
    simp only [hgc, if_false, hl]
    cases p with
    | some mt =>
      obtain ⟨m, t⟩ := mt
      simp only []
      split
      · exact ⟨rfl, rfl, rfl, rfl, Or.inr ⟨m, t, rfl⟩⟩
      · exact ⟨rfl, rfl, rfl, rfl, Or.inl hn⟩
    | none =>
      simp only []
      split
      · rw [ignoreMsg_eq]; exact ⟨rfl, rfl, rfl, rfl, Or.inl hn⟩
      · exact ⟨rfl, rfl, rfl, rfl, Or.inl hn⟩

/-- what one whole `localReplicator.Replica` does to an idle running node whose log still exists -/
theorem applyRound_effect (cfg : Cfg) {st : St} (hi : Inv st) (hr : st.phase = .running)
    (hn : st.inflight = none) (hwg : st.walGone = false) :
    (run cfg st applyRound).phase = .running ∧ (run cfg st applyRound).inflight = none ∧
    (run cfg st applyRound).log = st.log ∧ (run cfg st applyRound).walGone = false ∧
    (st.consumed < st.appended → (run cfg st applyRound).consumed = st.consumed + 1) ∧
    (¬ st.consumed < st.appended → (run cfg st applyRound).consumed = st.consumed) := by
  have hrun : run cfg st applyRound =
      run cfg (step cfg st .applyBegin) [.applyTake, .applyAcquire, .applyWrite, .applyCommit] := rfl
  rw [hrun]
  obtain ⟨hb0, hb1⟩ := applyBegin_effect cfg hi hn
  have s1 : step cfg st .applyBegin = doApplyBegin cfg st := by simp [step, whenRunning, hr, hwg]
  rw [s1]
  by_cases hlt : st.consumed < st.appended
  · obtain ⟨b1, b2, b3, bw, b4⟩ := hb1 hlt
    have hwg' : (doApplyBegin cfg st).walGone = false := by rw [bw, hwg]
    have r1 : (doApplyBegin cfg st).phase = .running := by rw [b1, hr]
    rcases b4 with b4 | ⟨m, t, b4⟩
    · rw [apply_tail_none cfg r1 b4]
      exact ⟨r1, b4, b2, hwg', fun _ => b3, fun h => absurd hlt h⟩
    · obtain ⟨t1, t2, t3, t4, t5⟩ := apply_tail_fresh cfg r1 b4
      exact ⟨t2, t1, by rw [t3, b2], by rw [t5, hwg'], fun _ => by rw [t4, b3], fun h => absurd hlt h⟩
  · rw [hb0 hlt, apply_tail_none cfg hr hn]
    exact ⟨hr, hn, rfl, hwg, fun h => absurd h hlt, fun _ => rfl⟩

/-- `n` iterations of the replica loop -/
def rounds : Nat → List Ev
  | 0 => []
  | n + 1 => applyRound ++ rounds n

theorem run_append (cfg : Cfg) (st : St) (a b : List Ev) : run cfg st (a ++ b) = run cfg (run cfg st a) b := by
  simp [run, List.foldl_append]

/-- `rounds n` keeps to the gap discipline trivially: it contains no `freeze` -/
theorem gapFree_rounds (cfg : Cfg) (n : Nat) (st : St) : GapFree cfg st (rounds n) := by
  have key : ∀ (l : List Ev), (∀ e ∈ l, e ≠ .freeze) → ∀ st, GapFree cfg st l := by
    intro l
    induction l with
    | nil => intro _ _; trivial
    | cons e es ih =>
      intro hne st
      exact ⟨fun he => absurd he (hne e (by simp)), ih (fun e' he' => hne e' (by simp [he'])) _⟩
  apply key
  induction n with
  | zero => intro e he; simp [rounds] at he
  | succ n ih =>
    intro e he
    simp only [rounds, List.mem_append] at he
    rcases he with he | he
    · simp [applyRound] at he; rcases he with rfl | rfl | rfl | rfl | rfl <;> decide
    · exact ih e he

theorem rounds_catch_up (cfg : Cfg) (hx : cfg.ignoreExact = true) (n : Nat) {st : St} (hi : Inv st) (hr : st.phase = .running)
    (hn : st.inflight = none) (hwg : st.walGone = false) (hd : st.appended - st.consumed ≤ n) :
    Inv (run cfg st (rounds n)) ∧ (run cfg st (rounds n)).phase = .running ∧
    (run cfg st (rounds n)).inflight = none ∧ (run cfg st (rounds n)).log = st.log ∧
    (run cfg st (rounds n)).consumed = (run cfg st (rounds n)).appended := by
  induction n generalizing st with
  | zero =>
    have e : run cfg st (rounds 0) = st := rfl
    rw [e]
    have := hi.cons_app
    exact ⟨hi, hr, hn, rfl, by omega⟩
  | succ n ih =>
    have e : rounds (n + 1) = applyRound ++ rounds n := rfl
    rw [e, run_append]
    obtain ⟨p1, p2, p3, pw, p4, p5⟩ := applyRound_effect cfg hi hr hn hwg
    have hi1 : Inv (run cfg st applyRound) := inv_run cfg hx applyRound (gapFree_rounds cfg 1 st) hi
    have happ : (run cfg st applyRound).appended = st.appended := by simp [St.appended, p3]
    have hd1 : (run cfg st applyRound).appended - (run cfg st applyRound).consumed ≤ n := by
      rw [happ]
      by_cases hlt : st.consumed < st.appended
      · rw [p4 hlt]; omega
      · rw [p5 hlt]; omega
    obtain ⟨q1, q2, q3, q4, q5⟩ := ih hi1 p1 p2 pw hd1
    exact ⟨q1, q2, q3, by rw [q4, p3], q5⟩

end LinVerif.NodeRecovery
