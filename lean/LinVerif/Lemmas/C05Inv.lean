/-
C05 helper lemmas, part 2: the inductive invariant of the interleaving model (three-step
shape) and its preservation by alloc / write / persist / ack. The sequential model reuses
these with a single transient thread.
-/
import LinVerif.Lemmas.C05Mem

namespace LinVerif.Queue

/-- region `e` lies entirely below the write cursor -/
def Below (q : Q) (e : Entry) : Prop :=
  e.pg < q.dataPageIndex ∨ (e.pg = q.dataPageIndex ∧ e.off + e.len ≤ q.messageOffset)

/-- two regions share no byte -/
def Disj (a b : Entry) : Prop :=
  a.pg ≠ b.pg ∨ a.off + a.len ≤ b.off ∨ b.off + b.len ≤ a.off

/-- the space a thread has been handed by `alloc` -/
def Th.region : Th → Option Entry
  | .idle => none
  | .allocated m pg off => some ⟨pg, off, m.len⟩
  | .written m pg off => some ⟨pg, off, m.len⟩

/-- sequence `n` may be read: above the acknowledged position, at most the appended one -/
def Readable (q : Q) (n : Nat) : Prop := q.acked < (n : Int) ∧ (n : Int) ≤ q.appended

def GoodRegion (mem : Mem) (q : Q) (e : Entry) : Prop :=
  Below q e ∧ e.off + e.len ≤ dataPageSize ∧ e.pg ∈ mem.dataLive

/-- bytes `Get n` returns when it gets as far as ReadBytes -/
def content (mem : Mem) (n : Nat) : List Nat := readBytes mem (entry mem n)

structure InvC (mem : Mem) (q : Q) (ths : Nat → Th) : Prop where
  ackLo : -1 ≤ q.acked
  ackHi : q.acked ≤ q.appended
  metaApp : mem.metaW queueAppendedSeqOffset = q.appended
  metaAck : mem.metaW queueAcknowledgedSeqOffset = q.acked
  hasMeta : mem.hasMeta = true
  curBound : q.messageOffset ≤ dataPageSize
  curLive : q.dataPageIndex ∈ mem.dataLive
  idxLive : q.indexPageIndex ∈ mem.indexLive ∨ q.indexPageIndex < nextSeq q / indexItemsPerPage
  ent : ∀ n, Readable q n → GoodRegion mem q (entry mem n) ∧ n / indexItemsPerPage ∈ mem.indexLive
  thr : ∀ t r, (ths t).region = some r → GoodRegion mem q r
  wr : ∀ t m pg off, ths t = .written m pg off → ∀ i, i < m.len → mem.data pg (off + i) = m.byte i
  disjET : ∀ n t r, Readable q n → (ths t).region = some r → Disj (entry mem n) r
  disjTT : ∀ t t' r r', t ≠ t' → (ths t).region = some r → (ths t').region = some r' → Disj r r'

theorem get_readable {mem : Mem} {q : Q} {ths : Nat → Th} (I : InvC mem q ths) {n : Nat}
    (h : Readable q n) : get ⟨mem, q⟩ (n : Int) = .ok (content mem n) := by
  obtain ⟨⟨_, _, hl⟩, hi⟩ := I.ent n h
  obtain ⟨h1, h2⟩ := h
  simp only [get, getLoc]
  rw [if_neg (by omega)]
  simp only [Int.toNat_natCast]
  rw [if_neg (by simpa using hi), if_neg (by simpa using hl)]
  rfl

theorem readBytes_congr {mem mem' : Mem} {e : Entry}
    (h : ∀ i, i < e.len → mem'.data e.pg (e.off + i) = mem.data e.pg (e.off + i)) :
    readBytes mem' e = readBytes mem e := by
  unfold readBytes
  apply List.map_congr_left
  intro i hi
  exact h i (by simpa using hi)

/-! ### alloc -/

section alloc
variable (mem : Mem) (q : Q) (len : Nat)

@[simp] theorem alloc_appended : (alloc mem q len).q.appended = q.appended := by
  unfold alloc; split <;> rfl
@[simp] theorem alloc_acked : (alloc mem q len).q.acked = q.acked := by
  unfold alloc; split <;> rfl
@[simp] theorem alloc_indexPageIndex : (alloc mem q len).q.indexPageIndex = q.indexPageIndex := by
  unfold alloc; split <;> rfl
@[simp] theorem alloc_metaW : (alloc mem q len).mem.metaW = mem.metaW := by
  unfold alloc; split <;> simp
@[simp] theorem alloc_index : (alloc mem q len).mem.index = mem.index := by
  unfold alloc; split <;> simp
@[simp] theorem alloc_data : (alloc mem q len).mem.data = mem.data := by
  unfold alloc; split <;> simp
@[simp] theorem alloc_hasMeta : (alloc mem q len).mem.hasMeta = mem.hasMeta := by
  unfold alloc; split <;> simp
@[simp] theorem alloc_indexLive : (alloc mem q len).mem.indexLive = mem.indexLive := by
  unfold alloc; split <;> simp
@[simp] theorem alloc_entry (n : Nat) : entry (alloc mem q len).mem n = entry mem n :=
  entry_congr (by simp) n
@[simp] theorem alloc_nextSeq : nextSeq (alloc mem q len).q = nextSeq q := by
  simp [nextSeq]

theorem alloc_dataLive_mono {p : Nat} (h : p ∈ mem.dataLive) : p ∈ (alloc mem q len).mem.dataLive := by
  unfold alloc; split
  · simp only []; exact (acquireData_live _ _ _).2 (Or.inr h)
  · exact h

theorem alloc_below {e : Entry} (h : Below q e) : Below (alloc mem q len).q e := by
  unfold alloc Below at *; split <;> simp only [] <;> omega

theorem alloc_cursor (hb : q.messageOffset ≤ dataPageSize) (hl : len ≤ dataPageSize) :
    (alloc mem q len).q.messageOffset ≤ dataPageSize := by
  unfold alloc; split <;> simp only [] <;> omega

theorem alloc_curLive (hc : q.dataPageIndex ∈ mem.dataLive) :
    (alloc mem q len).q.dataPageIndex ∈ (alloc mem q len).mem.dataLive := by
  unfold alloc; split
  · simp only []; exact (acquireData_live _ _ _).2 (Or.inl rfl)
  · exact hc

theorem alloc_new (hc : q.dataPageIndex ∈ mem.dataLive) (hl : len ≤ dataPageSize) :
    GoodRegion (alloc mem q len).mem (alloc mem q len).q
      ⟨(alloc mem q len).pg, (alloc mem q len).off, len⟩ := by
  unfold alloc GoodRegion Below; split
  · refine ⟨?_, ?_, (acquireData_live _ _ _).2 (Or.inl rfl)⟩ <;> dsimp only <;> omega
  · refine ⟨?_, ?_, hc⟩ <;> dsimp only <;> omega

/-- region `e` ends at or below the end of region `last` -/
def TopOf (last e : Entry) : Prop :=
  e.pg < last.pg ∨ (e.pg = last.pg ∧ e.off + e.len ≤ last.off + last.len)

theorem alloc_above {e : Entry} (h : Below q e) :
    TopOf ⟨(alloc mem q len).pg, (alloc mem q len).off, len⟩ e := by
  unfold alloc Below TopOf at *; split <;> simp only [] <;> omega

theorem alloc_disj {e : Entry} (h : Below q e) :
    Disj e ⟨(alloc mem q len).pg, (alloc mem q len).off, len⟩ := by
  unfold alloc Below Disj at *; split <;> simp only [] <;> omega

/-- the cursor after alloc is the end of the allocated region -/
theorem alloc_end : (alloc mem q len).q.dataPageIndex = (alloc mem q len).pg ∧
    (alloc mem q len).q.messageOffset = (alloc mem q len).off + len := by
  unfold alloc; split <;> simp

theorem alloc_pg_ge : q.dataPageIndex ≤ (alloc mem q len).pg := by
  unfold alloc; split <;> simp

end alloc

theorem GoodRegion.alloc {mem : Mem} {q : Q} {e : Entry} (len : Nat) (h : GoodRegion mem q e) :
    GoodRegion (alloc mem q len).mem (alloc mem q len).q e :=
  ⟨alloc_below _ _ _ h.1, h.2.1, alloc_dataLive_mono _ _ _ h.2.2⟩

@[simp] theorem setTh_same (ths : Nat → Th) (t : Nat) (x : Th) : setTh ths t x t = x := by simp [setTh]
theorem setTh_other (ths : Nat → Th) {t t' : Nat} (x : Th) (h : t' ≠ t) : setTh ths t x t' = ths t' := by
  simp [setTh, h]

theorem alloc_inv {mem : Mem} {q : Q} {ths : Nat → Th} (I : InvC mem q ths) (t : Nat) (m : Msg)
    (ht : ths t = .idle) (hl : m.len ≤ dataPageSize) :
    InvC (alloc mem q m.len).mem (alloc mem q m.len).q
      (setTh ths t (.allocated m (alloc mem q m.len).pg (alloc mem q m.len).off)) := by
  have hreg : ∀ t' r, (setTh ths t (.allocated m (alloc mem q m.len).pg (alloc mem q m.len).off) t').region = some r →
      (t' = t ∧ r = ⟨(alloc mem q m.len).pg, (alloc mem q m.len).off, m.len⟩) ∨ (t' ≠ t ∧ (ths t').region = some r) := by
    intro t' r h
    by_cases e : t' = t
    · subst e; simp [Th.region] at h; exact Or.inl ⟨rfl, h.symm⟩
    · rw [setTh_other _ _ e] at h; exact Or.inr ⟨e, h⟩
  have hR : ∀ n, Readable (alloc mem q m.len).q n ↔ Readable q n := by intro n; simp [Readable]
  refine ⟨by simpa using I.ackLo, by simpa using I.ackHi, by simpa using I.metaApp, by simpa using I.metaAck,
    by simpa using I.hasMeta, alloc_cursor _ _ _ I.curBound hl, alloc_curLive _ _ _ I.curLive,
    by simpa using I.idxLive, ?_, ?_, ?_, ?_, ?_⟩
  · intro n hn
    have := I.ent n ((hR n).1 hn)
    simp only [alloc_entry, alloc_indexLive]
    exact ⟨this.1.alloc _, this.2⟩
  · intro t' r h
    rcases hreg t' r h with ⟨_, rfl⟩ | ⟨_, h'⟩
    · exact alloc_new _ _ _ I.curLive hl
    · exact (I.thr t' r h').alloc _
  · intro t' m' pg off h i hi
    by_cases e : t' = t
    · subst e; simp at h
    · rw [setTh_other _ _ e] at h
      simpa using I.wr t' m' pg off h i hi
  · intro n t' r hn h
    have hn' := (hR n).1 hn
    simp only [alloc_entry]
    rcases hreg t' r h with ⟨_, rfl⟩ | ⟨_, h'⟩
    · exact alloc_disj _ _ _ (I.ent n hn').1.1
    · exact I.disjET n t' r hn' h'
  · intro t1 t2 r1 r2 hne h1 h2
    rcases hreg t1 r1 h1 with ⟨e1, rfl⟩ | ⟨e1, h1'⟩ <;> rcases hreg t2 r2 h2 with ⟨e2, rfl⟩ | ⟨e2, h2'⟩
    · omega
    · have := alloc_disj mem q m.len (I.thr t2 r2 h2').1
      unfold Disj at *; omega
    · exact alloc_disj _ _ _ (I.thr t1 r1 h1').1
    · exact I.disjTT t1 t2 r1 r2 hne h1' h2'


/-! ### write -/

theorem GoodRegion.congr {mem mem' : Mem} {q q' : Q} {e : Entry} (h : GoodRegion mem q e)
    (hq : q'.dataPageIndex = q.dataPageIndex ∧ q'.messageOffset = q.messageOffset)
    (hl : ∀ p, p ∈ mem.dataLive → p ∈ mem'.dataLive) : GoodRegion mem' q' e := by
  obtain ⟨h1, h2, h3⟩ := h
  refine ⟨?_, h2, hl _ h3⟩
  unfold Below at *; omega

theorem write_inv {mem : Mem} {q : Q} {ths : Nat → Th} (I : InvC mem q ths) (t : Nat) (m : Msg)
    (pg off : Nat) (ht : ths t = .allocated m pg off) :
    InvC (writeData mem pg off m m.len) q (setTh ths t (.written m pg off)) ∧
    ∀ n, Readable q n → content (writeData mem pg off m m.len) n = content mem n := by
  have hreg : ∀ t', (setTh ths t (.written m pg off) t').region = (ths t').region := by
    intro t'
    by_cases e : t' = t
    · subst e; simp [Th.region, ht]
    · rw [setTh_other _ _ e]
  have hrt : (ths t).region = some ⟨pg, off, m.len⟩ := by simp [ht, Th.region]
  constructor
  · refine ⟨I.ackLo, I.ackHi, I.metaApp, I.metaAck, I.hasMeta, I.curBound, I.curLive, I.idxLive, ?_, ?_, ?_, ?_, ?_⟩
    · intro n hn; rw [entry_writeData]; exact I.ent n hn
    · intro t' r h; rw [hreg] at h; exact I.thr t' r h
    · intro t' m' pg' off' h i hi
      by_cases e : t' = t
      · subst e
        simp at h
        obtain ⟨rfl, rfl, rfl⟩ := h
        exact writeData_data_in _ _ _ _ _ hi
      · rw [setTh_other _ _ e] at h
        have hd := I.disjTT t' t ⟨pg', off', m'.len⟩ ⟨pg, off, m.len⟩ e (by simp [h, Th.region]) hrt
        rw [writeData_data_out]
        · exact I.wr t' m' pg' off' h i hi
        · unfold Disj at hd; dsimp only at hd; omega
    · intro n t' r hn h; rw [hreg] at h; simpa using I.disjET n t' r hn h
    · intro t1 t2 r1 r2 hne h1 h2; rw [hreg] at h1 h2; exact I.disjTT t1 t2 r1 r2 hne h1 h2
  · intro n hn
    have hd := I.disjET n t _ hn hrt
    unfold content
    rw [entry_writeData]
    apply readBytes_congr
    intro i hi
    apply writeData_data_out
    unfold Disj at hd; dsimp only at hd; omega

/-! ### persist -/

theorem nextSeq_cast {q : Q} (h : -1 ≤ q.appended) : ((nextSeq q : Nat) : Int) = q.appended + 1 := by
  unfold nextSeq; omega

theorem persist_inv {mem : Mem} {q : Q} {ths : Nat → Th} (I : InvC mem q ths) (t : Nat) (m : Msg)
    (pg off : Nat) (ht : ths t = .written m pg off) :
    InvC (persistStores mem q pg off m.len 4) (publish q) (setTh ths t .idle) ∧
    (∀ n, Readable q n → content (persistStores mem q pg off m.len 4) n = content mem n) ∧
    content (persistStores mem q pg off m.len 4) (nextSeq q) = m.bytes ∧
    entry (persistStores mem q pg off m.len 4) (nextSeq q) = ⟨pg, off, m.len⟩ := by
  have hap : -1 ≤ q.appended := Int.le_trans I.ackLo I.ackHi
  have hns := nextSeq_cast hap
  have hrt : (ths t).region = some ⟨pg, off, m.len⟩ := by simp [ht, Th.region]
  obtain ⟨hbelow, hbound, hlive⟩ := I.thr t _ hrt
  dsimp only at hbound
  have hself : entry (persistStores mem q pg off m.len 4) (nextSeq q) = ⟨pg, off, m.len⟩ := by
    rw [entry_persistStores_self _ _ _ _ _ _ (by omega)]
    have h1 : off % u32 = off := Nat.mod_eq_of_lt (by qomega)
    have h2 : m.len % u32 = m.len := Nat.mod_eq_of_lt (by qomega)
    rw [h1, h2]
  have hne : ∀ n, Readable q n → n ≠ nextSeq q := by
    intro n hn; unfold Readable at hn; omega
  have hR : ∀ n, Readable (publish q) n → Readable q n ∨ n = nextSeq q := by
    intro n hn; unfold Readable publish at *; dsimp only at hn
    by_cases e : n = nextSeq q
    · exact Or.inr e
    · left; omega
  have hreg : ∀ t' r, (setTh ths t .idle t').region = some r → t' ≠ t ∧ (ths t').region = some r := by
    intro t' r h
    by_cases e : t' = t
    · subst e; simp [Th.region] at h
    · rw [setTh_other _ _ e] at h; exact ⟨e, h⟩
  have hgood : ∀ e, GoodRegion mem q e → GoodRegion (persistStores mem q pg off m.len 4) (publish q) e := by
    intro e h; exact h.congr ⟨rfl, rfl⟩ (by intro p hp; simpa using hp)
  have hil : ∀ p, p ∈ mem.indexLive → p ∈ (persistStores mem q pg off m.len 4).indexLive := by
    intro p hp; exact (persistStores_indexLive _ _ _ _ _ _ _).2 (Or.inl hp)
  have hnew : nextSeq q / indexItemsPerPage ∈ (persistStores mem q pg off m.len 4).indexLive := by
    rw [persistStores_indexLive]
    by_cases e : nextSeq q / indexItemsPerPage = q.indexPageIndex
    · left; rw [e]
      rcases I.idxLive with h | h
      · exact h
      · omega
    · right; exact ⟨rfl, e⟩
  have hcontent : ∀ n, n ≠ nextSeq q → content (persistStores mem q pg off m.len 4) n = content mem n := by
    intro n hn
    unfold content
    rw [entry_persistStores_ne _ _ _ _ _ _ hn]
    apply readBytes_congr; intro i _; simp
  refine ⟨⟨?_, ?_, ?_, ?_, ?_, I.curBound, ?_, Or.inl hnew, ?_, ?_, ?_, ?_, ?_⟩, ?_, ?_, hself⟩
  · exact I.ackLo
  · show q.acked ≤ q.appended + 1
    have := I.ackHi; omega
  · rw [persistStores_metaW]; simp [publish]
  · rw [persistStores_metaW]; simpa [queueAcknowledgedSeqOffset, queueAppendedSeqOffset, publish] using I.metaAck
  · simpa using I.hasMeta
  · simpa [publish] using I.curLive
  · intro n hn
    rcases hR n hn with h | rfl
    · rw [entry_persistStores_ne _ _ _ _ _ _ (hne n h)]
      exact ⟨hgood _ (I.ent n h).1, hil _ (I.ent n h).2⟩
    · rw [hself]; exact ⟨hgood _ (I.thr t _ hrt), hnew⟩
  · intro t' r h
    obtain ⟨_, h'⟩ := hreg t' r h
    exact hgood _ (I.thr t' r h')
  · intro t' m' pg' off' h i hi
    by_cases e : t' = t
    · subst e; simp at h
    · rw [setTh_other _ _ e] at h
      simpa using I.wr t' m' pg' off' h i hi
  · intro n t' r hn h
    obtain ⟨e, h'⟩ := hreg t' r h
    rcases hR n hn with hn' | rfl
    · rw [entry_persistStores_ne _ _ _ _ _ _ (hne n hn')]
      exact I.disjET n t' r hn' h'
    · rw [hself]
      have := I.disjTT t' t r _ e h' hrt
      unfold Disj at *; omega
  · intro t1 t2 r1 r2 hne' h1 h2
    exact I.disjTT t1 t2 r1 r2 hne' (hreg t1 r1 h1).2 (hreg t2 r2 h2).2
  · intro n hn; exact hcontent n (hne n hn)
  · unfold content
    rw [hself]
    unfold readBytes Msg.bytes
    apply List.map_congr_left
    intro i hi
    simp only [persistStores_data]
    exact I.wr t m pg off ht i (by simpa using hi)

/-! ### ack -/

theorem ack_inv {st : St} {ths : Nat → Th} (I : InvC st.mem st.q ths) (s : Int) :
    InvC (ack st s).mem (ack st s).q ths ∧
    (∀ n, content (ack st s).mem n = content st.mem n) ∧
    (∀ n, Readable (ack st s).q n → Readable st.q n) ∧
    (ack st s).q.appended = st.q.appended ∧ st.q.acked ≤ (ack st s).q.acked := by
  unfold ack
  split
  · rename_i h
    dsimp only
    have hR : ∀ n, Readable { st.q with acked := s } n → Readable st.q n := by
      intro n hn; unfold Readable at *; dsimp only at hn; omega
    refine ⟨⟨?_, ?_, ?_, ?_, I.hasMeta, I.curBound, I.curLive, I.idxLive, ?_, ?_, ?_, ?_, I.disjTT⟩, ?_, hR, rfl, ?_⟩
    · show -1 ≤ s
      have := I.ackLo; omega
    · exact h.2
    · simpa [setMeta, queueAcknowledgedSeqOffset, queueAppendedSeqOffset] using I.metaApp
    · simp [setMeta]
    · intro n hn
      have := I.ent n (hR n hn)
      exact ⟨this.1.congr ⟨rfl, rfl⟩ (fun _ hp => hp), this.2⟩
    · intro t r h; exact (I.thr t r h).congr ⟨rfl, rfl⟩ (fun _ hp => hp)
    · exact I.wr
    · intro n t r hn h; exact I.disjET n t r (hR n hn) h
    · intro n; rfl
    · omega
  · exact ⟨I, fun _ => rfl, fun _ h => h, rfl, Int.le_refl _⟩

end LinVerif.Queue
