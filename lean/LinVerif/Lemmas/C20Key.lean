/-
C20 helper lemmas: the byte-string order `keyCmp`/`keyLt`, `hasPrefix`, `stripPrefix`.
-/
import LinVerif.Model.TrieTree

set_option linter.unusedSimpArgs false

namespace LinVerif.Lemmas.C20
open LinVerif.TrieTree

theorem keyCmp_refl (a : Key) : keyCmp a a = .eq := by
  induction a with
  | nil => rfl
  | cons x xs ih => simp [keyCmp, ih]

theorem keyCmp_eq_iff (a b : Key) : keyCmp a b = .eq ↔ a = b := by
  induction a generalizing b with
  | nil => cases b <;> simp [keyCmp]
  | cons x xs ih =>
    cases b with
    | nil => simp [keyCmp]
    | cons y ys =>
      simp only [keyCmp]
      by_cases h1 : x < y
      · simp [h1]; omega
      · by_cases h2 : y < x
        · simp [h1, h2]; omega
        · have : x = y := by omega
          simp [h1, h2, ih, this]

theorem keyLt_irrefl (a : Key) : keyLt a a = false := by
  simp [keyLt, keyCmp_refl]

theorem keyLt_nil_cons (c : Nat) (a : Key) : keyLt [] (c :: a) = true := by
  simp [keyLt, keyCmp]

theorem keyLt_nil_right (a : Key) : keyLt a [] = false := by
  cases a <;> simp [keyLt, keyCmp]

theorem keyLt_cons_cons (c d : Nat) (a b : Key) :
    keyLt (c :: a) (d :: b) = (decide (c < d) || (c == d && keyLt a b)) := by
  simp only [keyLt, keyCmp]
  by_cases h1 : c < d
  · simp [h1]
  · by_cases h2 : d < c
    · have : ¬ c = d := by omega
      simp [h1, h2, this]
    · have : c = d := by omega
      simp [h1, h2, this]

theorem keyLt_trans {a b c : Key} (h1 : keyLt a b = true) (h2 : keyLt b c = true) : keyLt a c = true := by
  induction a generalizing b c with
  | nil =>
    cases c with
    | nil => simp [keyLt_nil_right] at h2
    | cons z zs => exact keyLt_nil_cons _ _
  | cons x xs ih =>
    cases b with
    | nil => simp [keyLt_nil_right] at h1
    | cons y ys =>
      cases c with
      | nil => simp [keyLt_nil_right] at h2
      | cons z zs =>
        rw [keyLt_cons_cons] at h1 h2 ⊢
        simp only [Bool.or_eq_true, decide_eq_true_eq, Bool.and_eq_true, beq_iff_eq] at h1 h2 ⊢
        rcases h1 with h1 | ⟨h1, h1'⟩
        · rcases h2 with h2 | ⟨h2, _⟩
          · left; omega
          · left; omega
        · rcases h2 with h2 | ⟨h2, h2'⟩
          · left; omega
          · right; exact ⟨by omega, ih h1' h2'⟩

theorem keyLt_asymm {a b : Key} (h : keyLt a b = true) : keyLt b a = false := by
  cases hb : keyLt b a with
  | false => rfl
  | true =>
    have := keyLt_trans h hb
    simp [keyLt_irrefl] at this

theorem keyLt_total (a b : Key) : keyLt a b = true ∨ a = b ∨ keyLt b a = true := by
  induction a generalizing b with
  | nil =>
    cases b with
    | nil => right; left; rfl
    | cons y ys => left; exact keyLt_nil_cons _ _
  | cons x xs ih =>
    cases b with
    | nil => right; right; exact keyLt_nil_cons _ _
    | cons y ys =>
      rw [keyLt_cons_cons, keyLt_cons_cons]
      simp only [Bool.or_eq_true, decide_eq_true_eq, Bool.and_eq_true, beq_iff_eq]
      rcases Nat.lt_trichotomy x y with h | h | h
      · left; left; exact h
      · subst h
        rcases ih ys with h | h | h
        · left; right; exact ⟨rfl, h⟩
        · right; left; rw [h]
        · right; right; right; exact ⟨rfl, h⟩
      · right; right; left; exact h

theorem keyLt_ne {a b : Key} (h : keyLt a b = true) : a ≠ b := by
  intro e; subst e; simp [keyLt_irrefl] at h

theorem keyLt_append_left (p a b : Key) : keyLt (p ++ a) (p ++ b) = keyLt a b := by
  induction p with
  | nil => rfl
  | cons x xs ih => simp [keyLt_cons_cons, ih]

theorem keyLt_append_nil (p : Key) (c : Nat) (a : Key) : keyLt p (p ++ c :: a) = true := by
  have := keyLt_append_left p [] (c :: a)
  simp only [List.append_nil] at this
  rw [this]; exact keyLt_nil_cons _ _

/-! ### hasPrefix / stripPrefix -/

theorem hasPrefix_append (p k : Key) : hasPrefix p (p ++ k) = true := by
  induction p with
  | nil => simp [hasPrefix]
  | cons x xs ih => simp [hasPrefix, ih]

theorem hasPrefix_iff (p k : Key) : hasPrefix p k = true ↔ ∃ r, k = p ++ r := by
  induction p generalizing k with
  | nil => simp [hasPrefix]
  | cons x xs ih =>
    cases k with
    | nil => simp [hasPrefix]
    | cons y ys =>
      simp only [hasPrefix, Bool.and_eq_true, beq_iff_eq, ih, List.cons_append, List.cons.injEq]
      constructor
      · rintro ⟨rfl, r, rfl⟩; exact ⟨r, rfl, rfl⟩
      · rintro ⟨r, rfl, rfl⟩; exact ⟨rfl, r, rfl⟩

theorem stripPrefix_eq_some (p k r : Key) : stripPrefix p k = some r ↔ k = p ++ r := by
  induction p generalizing k with
  | nil => simp [stripPrefix, eq_comm]
  | cons x xs ih =>
    cases k with
    | nil => simp [stripPrefix]
    | cons y ys =>
      simp only [stripPrefix]
      by_cases h : x = y
      · subst h; simp [ih]
      · simp [h]
        intro e; exact absurd e.symm h

theorem stripPrefix_append (p r : Key) : stripPrefix p (p ++ r) = some r :=
  (stripPrefix_eq_some p (p ++ r) r).2 rfl

theorem stripPrefix_eq_none (p k : Key) : stripPrefix p k = none ↔ ∀ r, k ≠ p ++ r := by
  constructor
  · intro h r e
    have := (stripPrefix_eq_some p k r).2 e
    simp [h] at this
  · intro h
    cases hs : stripPrefix p k with
    | none => rfl
    | some r => exact absurd ((stripPrefix_eq_some p k r).1 hs) (h r)

end LinVerif.Lemmas.C20
