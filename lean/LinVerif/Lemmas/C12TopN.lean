/-
Helper lemmas for C12: `topNHeap.Add` keeps the `limit` greatest rows of a strict total order,
whatever the push order.
-/
import LinVerif.Model.RootMerge
import Mathlib.Data.List.Perm.Basic
import Mathlib.Data.List.Perm.Subperm
import Mathlib.Data.List.Nodup

namespace LinVerif.RootMerge

/-- `less` is a strict total order on the rows of `rows` (no two distinct rows tie) -/
structure StrictTotalOn (less : Row → Row → Bool) (rows : List Row) : Prop where
  irrefl : ∀ a ∈ rows, less a a = false
  trans : ∀ a ∈ rows, ∀ b ∈ rows, ∀ c ∈ rows, less a b = true → less b c = true → less a c = true
  total : ∀ a ∈ rows, ∀ b ∈ rows, a ≠ b → less a b = true ∨ less b a = true

theorem StrictTotalOn.mono {less : Row → Row → Bool} {l1 l2 : List Row} (h : StrictTotalOn less l2)
    (hs : ∀ x ∈ l1, x ∈ l2) : StrictTotalOn less l1 :=
  ⟨fun a ha => h.irrefl a (hs a ha),
   fun a ha b hb c hc => h.trans a (hs a ha) b (hs b hb) c (hs c hc),
   fun a ha b hb => h.total a (hs a ha) b (hs b hb)⟩

theorem exists_min (less : Row → Row → Bool) (K : List Row) (hK : K ≠ []) (ho : StrictTotalOn less K) :
    ∃ w ∈ K, ∀ e ∈ K, less e w = false := by
  induction K with
  | nil => exact absurd rfl hK
  | cons x xs ih =>
    by_cases hxs : xs = []
    · subst hxs
      exact ⟨x, List.mem_cons_self, fun e he => by
        have : e = x := by simpa using he
        subst this; exact ho.irrefl e List.mem_cons_self⟩
    · obtain ⟨w, hw, hmin⟩ := ih hxs (ho.mono (fun y hy => List.mem_cons_of_mem _ hy))
      by_cases hl : less x w = true
      · refine ⟨x, List.mem_cons_self, fun e he => ?_⟩
        rcases List.mem_cons.mp he with rfl | he
        · exact ho.irrefl _ List.mem_cons_self
        · by_contra hc
          have hc' : less e x = true := by simpa using hc
          have := ho.trans e (List.mem_cons_of_mem _ he) x List.mem_cons_self w (List.mem_cons_of_mem _ hw) hc' hl
          rw [hmin e he] at this; cases this
      · refine ⟨w, List.mem_cons_of_mem _ hw, fun e he => ?_⟩
        rcases List.mem_cons.mp he with rfl | he
        · simpa using hl
        · exact hmin e he

theorem heapRoot_spec (less : Row → Row → Bool) (K : List Row) (hK : K ≠ []) (ho : StrictTotalOn less K) :
    ∃ w, heapRoot less K = some w ∧ w ∈ K ∧ ∀ e ∈ K, less e w = false := by
  obtain ⟨w0, hw0, hmin0⟩ := exists_min less K hK ho
  unfold heapRoot
  cases hf : K.find? (fun w => K.all (fun e => !less e w)) with
  | none =>
    have := List.find?_eq_none.mp hf w0 hw0
    simp only [List.all_eq_true, Bool.not_eq_true', Bool.not_eq_true] at this
    exact absurd hmin0 (by simpa using this)
  | some w =>
    refine ⟨w, rfl, List.mem_of_find?_eq_some hf, ?_⟩
    have := List.find?_some hf
    simpa using this

theorem mem_replaceFirst (l : List Row) (w r x : Row) (hn : l.Nodup) (hw : w ∈ l) :
    x ∈ replaceFirst l w r ↔ x = r ∨ (x ∈ l ∧ x ≠ w) := by
  induction l with
  | nil => cases hw
  | cons y ys ih =>
    have hy : y ∉ ys := (List.nodup_cons.mp hn).1
    unfold replaceFirst
    by_cases e : y = w
    · subst e
      simp only [if_true, List.mem_cons]
      constructor
      · rintro (h | h)
        · exact Or.inl h
        · exact Or.inr ⟨Or.inr h, fun e => hy (e ▸ h)⟩
      · rintro (h | ⟨h1 | h1, h2⟩)
        · exact Or.inl h
        · exact absurd h1 h2
        · exact Or.inr h1
    · simp only [e, if_false, List.mem_cons]
      have hw' : w ∈ ys := by
        rcases List.mem_cons.mp hw with h | h
        · exact absurd h.symm e
        · exact h
      rw [ih (List.nodup_cons.mp hn).2 hw']
      constructor
      · rintro (h | h | ⟨h1, h2⟩)
        · exact Or.inr ⟨Or.inl h, h ▸ e⟩
        · exact Or.inl h
        · exact Or.inr ⟨Or.inr h1, h2⟩
      · rintro (h | ⟨h1 | h1, h2⟩)
        · exact Or.inr (Or.inl h)
        · exact Or.inl h1
        · exact Or.inr (Or.inr ⟨h1, h2⟩)

theorem length_replaceFirst (l : List Row) (w r : Row) : (replaceFirst l w r).length = l.length := by
  induction l with
  | nil => rfl
  | cons y ys ih => unfold replaceFirst; split <;> simp [ih]

theorem nodup_replaceFirst (l : List Row) (w r : Row) (hn : l.Nodup) (hw : w ∈ l) (hr : r ∉ l) :
    (replaceFirst l w r).Nodup := by
  induction l with
  | nil => cases hw
  | cons y ys ih =>
    have hy : y ∉ ys := (List.nodup_cons.mp hn).1
    have hys := (List.nodup_cons.mp hn).2
    have hr' : r ∉ ys := fun h => hr (List.mem_cons_of_mem _ h)
    unfold replaceFirst
    by_cases e : y = w
    · simp only [e, if_true]
      exact List.nodup_cons.mpr ⟨hr', hys⟩
    · simp only [e, if_false]
      have hw' : w ∈ ys := by
        rcases List.mem_cons.mp hw with h | h
        · exact absurd h.symm e
        · exact h
      refine List.nodup_cons.mpr ⟨?_, ih hys hw' hr'⟩
      rw [mem_replaceFirst ys w r y hys hw']
      rintro (h | ⟨h, -⟩)
      · exact hr (h ▸ List.mem_cons_self)
      · exact hy h

/-- `K` is "the `limit` greatest rows of `P`" -/
structure IsTop (less : Row → Row → Bool) (limit : Nat) (P K : List Row) : Prop where
  nodup : K.Nodup
  sub : ∀ x ∈ K, x ∈ P
  len : K.length ≤ limit
  full : K.length < limit → ∀ y ∈ P, y ∈ K
  dom : ∀ x ∈ K, ∀ y ∈ P, y ∉ K → less y x = true

theorem isTop_step (less : Row → Row → Bool) (limit : Nat) (P K : List Row) (r : Row)
    (ho : StrictTotalOn less (P ++ [r])) (hr : r ∉ P) (h : IsTop less limit P K) :
    IsTop less limit (P ++ [r]) (topNAdd less limit K r) := by
  have hrK : r ∉ K := fun hk => hr (h.sub r hk)
  have memP : ∀ x ∈ P, x ∈ P ++ [r] := fun x hx => List.mem_append_left _ hx
  have memr : r ∈ P ++ [r] := List.mem_append_right _ List.mem_cons_self
  unfold topNAdd
  by_cases hfull : K.length ≥ limit
  · rw [if_pos hfull]
    have hlen : K.length = limit := Nat.le_antisymm h.len hfull
    by_cases hK : K = []
    · -- limit = 0
      subst hK
      have : heapRoot less [] = none := rfl
      rw [this]
      exact ⟨List.nodup_nil, (fun x hx => by cases hx), (by simp),
        (fun hl => by simp at hlen; omega), (fun x hx => by cases hx)⟩
    · obtain ⟨w, hroot, hwK, hmin⟩ := heapRoot_spec less K hK (ho.mono (fun x hx => memP x (h.sub x hx)))
      rw [hroot]
      dsimp only
      have hwP : w ∈ P ++ [r] := memP w (h.sub w hwK)
      by_cases hl : less w r = true
      · rw [if_pos hl]
        have hmem := fun x => mem_replaceFirst K w r x h.nodup hwK
        refine ⟨nodup_replaceFirst K w r h.nodup hwK hrK, ?_, ?_, ?_, ?_⟩
        · intro x hx
          rcases (hmem x).mp hx with rfl | ⟨hx, -⟩
          · exact memr
          · exact memP x (h.sub x hx)
        · rw [length_replaceFirst]; exact h.len
        · intro hlt; rw [length_replaceFirst] at hlt; omega
        · intro x hx y hy hyK
          have hyK' : ¬ (y = r ∨ (y ∈ K ∧ y ≠ w)) := fun hh => hyK ((hmem y).mpr hh)
          have hyr : y ≠ r := fun e => hyK' (Or.inl e)
          have hyP : y ∈ P := by
            rcases List.mem_append.mp hy with hh | hh
            · exact hh
            · exact absurd (by simpa using hh) hyr
          -- y is w, or y was already dropped
          have hyw : less y w = true ∨ y = w := by
            by_cases hyK0 : y ∈ K
            · right; by_contra hne; exact hyK' (Or.inr ⟨hyK0, hne⟩)
            · left; exact h.dom w hwK y hyP hyK0
          rcases (hmem x).mp hx with rfl | ⟨hxK, hxw⟩
          · rcases hyw with hyw | rfl
            · exact ho.trans y hy w hwP x memr hyw hl
            · exact hl
          · have hwx : less w x = true := by
              rcases ho.total w hwP x (memP x (h.sub x hxK)) (Ne.symm hxw) with hh | hh
              · exact hh
              · rw [hmin x hxK] at hh; cases hh
            rcases hyw with hyw | rfl
            · exact ho.trans y hy w hwP x (memP x (h.sub x hxK)) hyw hwx
            · exact hwx
      · rw [if_neg hl]
        have hrw : less r w = true := by
          have hne : r ≠ w := fun e => hrK (e ▸ hwK)
          rcases ho.total r memr w hwP hne with hh | hh
          · exact hh
          · exact absurd hh hl
        refine ⟨h.nodup, fun x hx => memP x (h.sub x hx), h.len, fun hlt => by omega, ?_⟩
        intro x hxK y hy hyK
        have hxP := memP x (h.sub x hxK)
        have hwx : x = w ∨ less w x = true := by
          by_cases e : x = w
          · exact Or.inl e
          · right
            rcases ho.total w hwP x hxP (Ne.symm e) with hh | hh
            · exact hh
            · rw [hmin x hxK] at hh; cases hh
        rcases List.mem_append.mp hy with hyP | hyr
        · exact h.dom x hxK y hyP hyK
        · have : y = r := by simpa using hyr
          subst this
          rcases hwx with rfl | hwx
          · exact hrw
          · exact ho.trans y memr w hwP x hxP hrw hwx
  · rw [if_neg hfull]
    have hlt : K.length < limit := by omega
    have hall := h.full hlt
    refine ⟨?_, ?_, ?_, ?_, ?_⟩
    · exact List.nodup_append.mpr ⟨h.nodup, by simp, by
        intro a ha b hb; simp at hb; subst hb; intro e; exact hrK (e ▸ ha)⟩
    · intro x hx
      rcases List.mem_append.mp hx with hh | hh
      · exact memP x (h.sub x hh)
      · have : x = r := by simpa using hh
        subst this; exact memr
    · simp; omega
    · intro _ y hy
      rcases List.mem_append.mp hy with hh | hh
      · exact List.mem_append_left _ (hall y hh)
      · exact List.mem_append_right _ hh
    · intro x _ y hy hyK
      exfalso; apply hyK
      rcases List.mem_append.mp hy with hh | hh
      · exact List.mem_append_left _ (hall y hh)
      · exact List.mem_append_right _ hh

theorem isTop_topN_aux (less : Row → Row → Bool) (limit : Nat) (P rest K : List Row)
    (hn : (P ++ rest).Nodup) (ho : StrictTotalOn less (P ++ rest)) (h : IsTop less limit P K) :
    IsTop less limit (P ++ rest) (rest.foldl (topNAdd less limit) K) := by
  induction rest generalizing P K with
  | nil => simpa using h
  | cons r rest ih =>
    have e : P ++ r :: rest = (P ++ [r]) ++ rest := by simp
    rw [List.foldl_cons, e]
    rw [e] at hn ho
    apply ih (P ++ [r]) _ hn ho
    apply isTop_step less limit P K r (ho.mono (fun x hx => List.mem_append_left _ hx)) _ h
    have := (List.nodup_append.mp hn).1
    have := (List.nodup_append.mp this).2.2
    intro hr
    exact this r hr r List.mem_cons_self rfl

/-- what `topN` returns is "the `limit` greatest rows" -/
theorem isTop_topN (less : Row → Row → Bool) (limit : Nat) (rows : List Row) (hn : rows.Nodup)
    (ho : StrictTotalOn less rows) : IsTop less limit rows (topN less limit rows) := by
  have := isTop_topN_aux less limit [] rows [] (by simpa using hn) (by simpa using ho)
    ⟨List.nodup_nil, (fun x hx => by cases hx), (by simp), (fun _ y hy => by cases hy),
      (fun x hx => by cases hx)⟩
  simpa [topN] using this

/-- "the `limit` greatest rows" is unique as a set -/
theorem isTop_subset (less : Row → Row → Bool) (limit : Nat) (P K1 K2 : List Row)
    (ho : StrictTotalOn less P) (h1 : IsTop less limit P K1) (h2 : IsTop less limit P K2) :
    ∀ x ∈ K1, x ∈ K2 := by
  intro x hx1
  by_contra hx2
  have hlen2 : ¬ K2.length < limit := fun hl => hx2 (h2.full hl x (h1.sub x hx1))
  have hle : K1.length ≤ K2.length := by have := h1.len; omega
  -- some y in K2 is not in K1
  have hy : ∃ y ∈ K2, y ∉ K1 := by
    by_contra hno
    have hsub : ∀ y ∈ K2, y ∈ K1.erase x := by
      intro y hy
      have hyK1 : y ∈ K1 := by by_contra hc; exact hno ⟨y, hy, hc⟩
      exact (List.mem_erase_of_ne (fun (e : y = x) => hx2 (e ▸ hy))).mpr hyK1
    have := (List.subperm_of_subset h2.nodup hsub).length_le
    rw [List.length_erase_of_mem hx1] at this
    have hpos : 0 < K1.length := List.length_pos_of_mem hx1
    omega
  obtain ⟨y, hy2, hy1⟩ := hy
  have a := h2.dom y hy2 x (h1.sub x hx1) hx2
  have b := h1.dom x hx1 y (h2.sub y hy2) hy1
  have := ho.trans x (h1.sub x hx1) y (h2.sub y hy2) x (h1.sub x hx1) a b
  rw [ho.irrefl x (h1.sub x hx1)] at this
  cases this

theorem isTop_perm (less : Row → Row → Bool) (limit : Nat) {P P' : List Row} (hp : P.Perm P') (K : List Row)
    (h : IsTop less limit P' K) : IsTop less limit P K :=
  ⟨h.nodup, fun x hx => hp.mem_iff.mpr (h.sub x hx), h.len, fun hl y hy => h.full hl y (hp.mem_iff.mp hy),
   fun x hx y hy => h.dom x hx y (hp.mem_iff.mp hy)⟩

end LinVerif.RootMerge

namespace LinVerif.RootMerge

/-! ### `topNHeap.Less` is the lexicographic order of the (sign-adjusted) order-by keys -/

def signedKey (o : OrdItem) (r : Row) : Int := if o.desc then -(r.ordKey o) else r.ordKey o

def keyVec (ords : List OrdItem) (r : Row) : List Int := ords.map (fun o => signedKey o r)

theorem rowLess_cons (o : OrdItem) (os : List OrdItem) (a b : Row) :
    rowLess (o :: os) a b =
      if signedKey o a > signedKey o b then true
      else if signedKey o a < signedKey o b then false else rowLess os a b := by
  conv_lhs => rw [rowLess]
  unfold signedKey
  cases o.desc
  · simp only [Bool.false_eq_true, if_false]
    split_ifs <;> first | rfl | omega
  · simp only [if_true]
    split_ifs <;> first | rfl | omega

theorem rowLess_irrefl (ords : List OrdItem) (a : Row) : rowLess ords a a = false := by
  induction ords with
  | nil => rfl
  | cons o os ih => rw [rowLess_cons]; simp [ih]

theorem rowLess_total (ords : List OrdItem) (a b : Row) (h : keyVec ords a ≠ keyVec ords b) :
    rowLess ords a b = true ∨ rowLess ords b a = true := by
  induction ords with
  | nil => exact absurd rfl h
  | cons o os ih =>
    rw [rowLess_cons, rowLess_cons]
    by_cases h1 : signedKey o a > signedKey o b
    · left; simp [h1]
    · by_cases h2 : signedKey o a < signedKey o b
      · right; simp [h2]
      · have he : signedKey o a = signedKey o b := by omega
        have ht : keyVec os a ≠ keyVec os b := by
          intro e; apply h; simp [keyVec, he] at e ⊢; exact e
        rcases ih ht with hh | hh
        · left; simp [he, hh]
        · right; simp [he, hh]

theorem rowLess_trans (ords : List OrdItem) (a b c : Row) (h1 : rowLess ords a b = true)
    (h2 : rowLess ords b c = true) : rowLess ords a c = true := by
  induction ords with
  | nil => simp [rowLess] at h1
  | cons o os ih =>
    rw [rowLess_cons] at h1 h2 ⊢
    by_cases x1 : signedKey o a > signedKey o b
    · by_cases y1 : signedKey o b > signedKey o c
      · have : signedKey o a > signedKey o c := by omega
        simp [this]
      · by_cases y2 : signedKey o b < signedKey o c
        · simp [y1, y2] at h2
        · have : signedKey o a > signedKey o c := by omega
          simp [this]
    · by_cases x2 : signedKey o a < signedKey o b
      · simp [x1, x2] at h1
      · simp only [x1, x2, if_false] at h1
        by_cases y1 : signedKey o b > signedKey o c
        · have : signedKey o a > signedKey o c := by omega
          simp [this]
        · by_cases y2 : signedKey o b < signedKey o c
          · simp [y1, y2] at h2
          · simp only [y1, y2, if_false] at h2
            have e1 : ¬ signedKey o a > signedKey o c := by omega
            have e2 : ¬ signedKey o a < signedKey o c := by omega
            simp only [e1, e2, if_false]
            exact ih h1 h2

/-- no two distinct rows have the same order-by key vector ⇒ `Less` is a strict total order -/
theorem strictTotal_of_distinct_keys (ords : List OrdItem) (rows : List Row)
    (h : ∀ a ∈ rows, ∀ b ∈ rows, a ≠ b → keyVec ords a ≠ keyVec ords b) :
    StrictTotalOn (rowLess ords) rows :=
  ⟨fun a _ => rowLess_irrefl ords a,
   fun a _ b _ c _ => rowLess_trans ords a b c,
   fun a ha b hb hne => rowLess_total ords a b (h a ha b hb hne)⟩

end LinVerif.RootMerge

namespace LinVerif.RootMerge

/-! ### total preorders: ties allowed -/

/-- `less` is the strict part of a total preorder (a strict weak order) -/
structure StrictWeak (less : Row → Row → Bool) : Prop where
  irrefl : ∀ a, less a a = false
  trans : ∀ a b c, less a b = true → less b c = true → less a c = true
  negtrans : ∀ a b c, less a b = false → less b c = false → less a c = false

theorem StrictWeak.asymm {less : Row → Row → Bool} (h : StrictWeak less) (a b : Row)
    (hab : less a b = true) : less b a = false := by
  by_contra hc
  have hba : less b a = true := by simpa using hc
  have := h.trans a b a hab hba
  rw [h.irrefl a] at this; cases this

theorem exists_min_w (less : Row → Row → Bool) (K : List Row) (hK : K ≠ []) (ho : StrictWeak less) :
    ∃ w ∈ K, ∀ e ∈ K, less e w = false := by
  induction K with
  | nil => exact absurd rfl hK
  | cons x xs ih =>
    by_cases hxs : xs = []
    · subst hxs
      exact ⟨x, List.mem_cons_self, fun e he => by
        have : e = x := by simpa using he
        subst this; exact ho.irrefl e⟩
    · obtain ⟨w, hw, hmin⟩ := ih hxs
      by_cases hl : less x w = true
      · refine ⟨x, List.mem_cons_self, fun e he => ?_⟩
        rcases List.mem_cons.mp he with rfl | he
        · exact ho.irrefl _
        · by_contra hc
          have hc' : less e x = true := by simpa using hc
          have := ho.trans e x w hc' hl
          rw [hmin e he] at this; cases this
      · refine ⟨w, List.mem_cons_of_mem _ hw, fun e he => ?_⟩
        rcases List.mem_cons.mp he with rfl | he
        · simpa using hl
        · exact hmin e he

theorem heapRoot_spec_w (less : Row → Row → Bool) (K : List Row) (hK : K ≠ []) (ho : StrictWeak less) :
    ∃ w, heapRoot less K = some w ∧ w ∈ K ∧ ∀ e ∈ K, less e w = false := by
  obtain ⟨w0, hw0, hmin0⟩ := exists_min_w less K hK ho
  unfold heapRoot
  cases hf : K.find? (fun w => K.all (fun e => !less e w)) with
  | none =>
    have := List.find?_eq_none.mp hf w0 hw0
    simp only [List.all_eq_true, Bool.not_eq_true'] at this
    exact absurd hmin0 (by simpa using this)
  | some w =>
    refine ⟨w, rfl, List.mem_of_find?_eq_some hf, ?_⟩
    have := List.find?_some hf
    simpa using this

/-- `K` is a valid "first `limit` of a sort": no dropped row is strictly better than a kept one -/
structure IsTopW (less : Row → Row → Bool) (limit : Nat) (P K : List Row) : Prop where
  nodup : K.Nodup
  sub : ∀ x ∈ K, x ∈ P
  len : K.length ≤ limit
  full : K.length < limit → ∀ y ∈ P, y ∈ K
  dom : ∀ x ∈ K, ∀ y ∈ P, y ∉ K → less x y = false

theorem isTopW_step (less : Row → Row → Bool) (limit : Nat) (P K : List Row) (r : Row)
    (ho : StrictWeak less) (hr : r ∉ P) (h : IsTopW less limit P K) :
    IsTopW less limit (P ++ [r]) (topNAdd less limit K r) := by
  have hrK : r ∉ K := fun hk => hr (h.sub r hk)
  have memP : ∀ x ∈ P, x ∈ P ++ [r] := fun x hx => List.mem_append_left _ hx
  have memr : r ∈ P ++ [r] := List.mem_append_right _ List.mem_cons_self
  unfold topNAdd
  by_cases hfull : K.length ≥ limit
  · rw [if_pos hfull]
    have hlen : K.length = limit := Nat.le_antisymm h.len hfull
    by_cases hK : K = []
    · subst hK
      have : heapRoot less [] = none := rfl
      rw [this]
      exact ⟨List.nodup_nil, (fun x hx => by cases hx), (by simp),
        (fun hl => by simp at hlen; omega), (fun x hx => by cases hx)⟩
    · obtain ⟨w, hroot, hwK, hmin⟩ := heapRoot_spec_w less K hK ho
      rw [hroot]
      dsimp only
      by_cases hl : less w r = true
      · rw [if_pos hl]
        have hmem := fun x => mem_replaceFirst K w r x h.nodup hwK
        refine ⟨nodup_replaceFirst K w r h.nodup hwK hrK, ?_, ?_, ?_, ?_⟩
        · intro x hx
          rcases (hmem x).mp hx with rfl | ⟨hx, -⟩
          · exact memr
          · exact memP x (h.sub x hx)
        · rw [length_replaceFirst]; exact h.len
        · intro hlt; rw [length_replaceFirst] at hlt; omega
        · intro x hx y hy hyK
          have hyK' : ¬ (y = r ∨ (y ∈ K ∧ y ≠ w)) := fun hh => hyK ((hmem y).mpr hh)
          have hyr : y ≠ r := fun e => hyK' (Or.inl e)
          have hyP : y ∈ P := by
            rcases List.mem_append.mp hy with hh | hh
            · exact hh
            · exact absurd (by simpa using hh) hyr
          -- y is w itself, or y was already dropped (then w is not less than y)
          have hwy : less w y = false := by
            by_cases hyK0 : y ∈ K
            · have : y = w := by by_contra hne; exact hyK' (Or.inr ⟨hyK0, hne⟩)
              rw [this]; exact ho.irrefl w
            · exact h.dom w hwK y hyP hyK0
          rcases (hmem x).mp hx with rfl | ⟨hxK, _⟩
          · -- x = r: less r y would give less w y
            by_contra hc
            have hry : less x y = true := by simpa using hc
            have := ho.trans w x y hl hry
            rw [hwy] at this; cases this
          · -- x kept before: not less than w, w not less than y
            exact ho.negtrans x w y (hmin x hxK) hwy
      · rw [if_neg hl]
        have hwr : less w r = false := by simpa using hl
        refine ⟨h.nodup, fun x hx => memP x (h.sub x hx), h.len, fun hlt => by omega, ?_⟩
        intro x hxK y hy hyK
        rcases List.mem_append.mp hy with hyP | hyr
        · exact h.dom x hxK y hyP hyK
        · have : y = r := by simpa using hyr
          subst this
          exact ho.negtrans x w y (hmin x hxK) hwr
  · rw [if_neg hfull]
    have hlt : K.length < limit := by omega
    have hall := h.full hlt
    refine ⟨?_, ?_, ?_, ?_, ?_⟩
    · exact List.nodup_append.mpr ⟨h.nodup, by simp, by
        intro a ha b hb; simp at hb; subst hb; intro e; exact hrK (e ▸ ha)⟩
    · intro x hx
      rcases List.mem_append.mp hx with hh | hh
      · exact memP x (h.sub x hh)
      · have : x = r := by simpa using hh
        subst this; exact memr
    · simp; omega
    · intro _ y hy
      rcases List.mem_append.mp hy with hh | hh
      · exact List.mem_append_left _ (hall y hh)
      · exact List.mem_append_right _ hh
    · intro x _ y hy hyK
      exfalso; apply hyK
      rcases List.mem_append.mp hy with hh | hh
      · exact List.mem_append_left _ (hall y hh)
      · exact List.mem_append_right _ hh

theorem isTopW_topN_aux (less : Row → Row → Bool) (limit : Nat) (P rest K : List Row)
    (hn : (P ++ rest).Nodup) (ho : StrictWeak less) (h : IsTopW less limit P K) :
    IsTopW less limit (P ++ rest) (rest.foldl (topNAdd less limit) K) := by
  induction rest generalizing P K with
  | nil => simpa using h
  | cons r rest ih =>
    have e : P ++ r :: rest = (P ++ [r]) ++ rest := by simp
    rw [List.foldl_cons, e]
    rw [e] at hn
    apply ih (P ++ [r]) _ hn
    apply isTopW_step less limit P K r ho _ h
    have := (List.nodup_append.mp hn).1
    have := (List.nodup_append.mp this).2.2
    intro hr
    exact this r hr r List.mem_cons_self rfl

theorem isTopW_topN (less : Row → Row → Bool) (limit : Nat) (rows : List Row) (hn : rows.Nodup)
    (ho : StrictWeak less) : IsTopW less limit rows (topN less limit rows) := by
  have := isTopW_topN_aux less limit [] rows [] (by simpa using hn) ho
    ⟨List.nodup_nil, (fun x hx => by cases hx), (by simp), (fun _ y hy => by cases hy),
      (fun x hx => by cases hx)⟩
  simpa [topN] using this

/-- `topNHeap.Less` (exact comparison) is a strict weak order on all rows -/
theorem rowLess_negtrans (ords : List OrdItem) (a b c : Row) (h1 : rowLess ords a b = false)
    (h2 : rowLess ords b c = false) : rowLess ords a c = false := by
  induction ords with
  | nil => rfl
  | cons o os ih =>
    rw [rowLess_cons] at h1 h2 ⊢
    by_cases x1 : signedKey o a > signedKey o b
    · simp [x1] at h1
    · by_cases x2 : signedKey o a < signedKey o b
      · by_cases y1 : signedKey o b > signedKey o c
        · simp [y1] at h2
        · have e1 : ¬ signedKey o a > signedKey o c := by omega
          have e2 : signedKey o a < signedKey o c := by omega
          simp [e1, e2]
      · simp only [x1, x2, if_false] at h1
        by_cases y1 : signedKey o b > signedKey o c
        · simp [y1] at h2
        · by_cases y2 : signedKey o b < signedKey o c
          · have e1 : ¬ signedKey o a > signedKey o c := by omega
            have e2 : signedKey o a < signedKey o c := by omega
            simp [e1, e2]
          · simp only [y1, y2, if_false] at h2
            have e1 : ¬ signedKey o a > signedKey o c := by omega
            have e2 : ¬ signedKey o a < signedKey o c := by omega
            simp only [e1, e2, if_false]
            exact ih h1 h2

theorem rowLess_strictWeak (ords : List OrdItem) : StrictWeak (rowLess ords) :=
  ⟨rowLess_irrefl ords, rowLess_trans ords, rowLess_negtrans ords⟩

end LinVerif.RootMerge
