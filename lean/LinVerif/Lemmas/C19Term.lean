/-
C19 helper lemmas, part 7: every schedule is finite (a strictly decreasing measure), so maximal
runs exist and "in every maximal run" is not vacuous.
-/
import LinVerif.Lemmas.C19Base

namespace LinVerif.Pipeline

mutual
/-- weight of `exec s`: more than everything its completion handler pushes -/
def Stage.weight : Stage → Nat
  | .mk _ _ _ cs => 5 + weightL cs
def weightL : List Stage → Nat
  | [] => 0
  | c :: cs => c.weight + 3 + weightL cs
end

def Instr.weight : Instr → Nat
  | .start s => s.weight + 3
  | .register s => s.weight + 2
  | .launch s => s.weight + 1
  | .exec s => s.weight
  | .track _ => 4
  | .dec _ => 3
  | .load _ => 2
  | .fire _ _ => 1

theorem Stage.weight_eq (s : Stage) : s.weight = 5 + weightL s.children := by
  cases s; simp [Stage.weight]

theorem csum_weight_starts (cs : List Stage) : csum Instr.weight (cs.map Instr.start) = weightL cs := by
  induction cs with
  | nil => simp [weightL]
  | cons c cs ih => simp [weightL, Instr.weight, ih]

theorem csum_weight_handler (s : Stage) : csum Instr.weight (handler s) + 1 = s.weight := by
  simp [handler, csum_weight_starts, Instr.weight, Stage.weight_eq]; omega

theorem stepInstr_weight (cfg : Cfg) (sh : Shared) (pooled : Bool) (i : Instr) (rest : List Instr) :
    csum Instr.weight (stepInstr cfg sh pooled i rest).code + tsum Instr.weight (stepInstr cfg sh pooled i rest).spawn
      < csum Instr.weight (i :: rest) := by
  cases i with
  | exec st =>
    have h1 := csum_weight_handler st
    have h2 := Stage.weight_eq st
    simp only [stepInstr, panicEff]; (repeat' split) <;> simp [Instr.weight] <;> omega
  | launch st =>
    have h2 := Stage.weight_eq st
    simp only [stepInstr, panicEff]; (repeat' split) <;> simp [Instr.weight] <;> omega
  | _ => simp only [stepInstr] <;> (repeat' split) <;> simp [Instr.weight] <;> omega

/-- the measure of a state -/
def measure (s : State) : Nat := tsum Instr.weight s.threads

theorem step_measure {cfg : Cfg} {s s' : State} {n : Nat} (h : stepAt cfg s n = some s') :
    measure s' < measure s := by
  obtain ⟨pooled, i, rest, hget, hsh, hsum⟩ := stepAt_elim' h
  have h1 := hsum Instr.weight
  have h2 := stepInstr_weight cfg s.sh pooled i rest
  simp only [measure]
  omega

theorem runSched_measure {cfg : Cfg} : ∀ (sched : List Nat) (s s' : State),
    runSched cfg s sched = some s' → sched.length + measure s' ≤ measure s
  | [], s, s', h => by simp [runSched] at h; subst h; simp
  | n :: ns, s, s', h => by
    simp only [runSched] at h
    cases hs : stepAt cfg s n with
    | none => simp [hs] at h
    | some s1 =>
      simp only [hs] at h
      have := runSched_measure ns s1 s' h
      have := step_measure hs
      simp only [List.length_cons]
      omega

/-- executable `Terminal` -/
def terminalB (s : State) : Bool := s.threads.all (fun t => t.code.isEmpty)

theorem terminal_of_terminalB {s : State} (h : terminalB s = true) : Terminal s := by
  intro t ht
  simp only [terminalB, List.all_eq_true] at h
  have := h t ht
  simpa using this

/-- a non-terminal state has a runnable goroutine -/
theorem exists_step_of_not_terminal (cfg : Cfg) {s : State} (h : ¬ Terminal s) : ∃ n s', stepAt cfg s n = some s' := by
  have hex : ∃ t, t ∈ s.threads ∧ t.code ≠ [] := by
    apply Classical.byContradiction
    intro hne
    apply h
    intro t ht
    apply Classical.byContradiction
    intro hc
    exact hne ⟨t, ht, hc⟩
  obtain ⟨t, ht, hc⟩ := hex
  obtain ⟨n, hn, rfl⟩ := List.getElem_of_mem ht
  refine ⟨n, ?_⟩
  have hg : s.threads[n]? = some s.threads[n] := List.getElem?_eq_getElem hn
  match hcode : s.threads[n] with
  | ⟨pooled, []⟩ => rw [hcode] at hc; simp at hc
  | ⟨pooled, i :: rest⟩ =>
    rw [hcode] at hg
    exact ⟨_, by simp only [stepAt, hg]; rfl⟩

/-- from every state some schedule leads to a terminal state (by strong induction on the measure) -/
theorem exists_terminal (cfg : Cfg) : ∀ (k : Nat) (s : State), measure s ≤ k →
    ∃ sched s', runSched cfg s sched = some s' ∧ Terminal s'
  | 0, s, hk => by
    by_cases ht : Terminal s
    · exact ⟨[], s, rfl, ht⟩
    · obtain ⟨n, s', hs⟩ := exists_step_of_not_terminal cfg ht
      have := step_measure hs
      omega
  | k + 1, s, hk => by
    by_cases ht : Terminal s
    · exact ⟨[], s, rfl, ht⟩
    · obtain ⟨n, s1, hs⟩ := exists_step_of_not_terminal cfg ht
      have hm := step_measure hs
      obtain ⟨sched, s', hrun, hterm⟩ := exists_terminal cfg k s1 (by omega)
      exact ⟨n :: sched, s', by simp only [runSched, hs, hrun], hterm⟩

/-- concrete runs, evaluated by the kernel -/
def outcome (cfg : Cfg) (root : Stage) (sched : List Nat) : Option (List Fired × Int × Bool) :=
  (runSched cfg (init root) sched).map (fun s => (s.sh.fired, s.sh.pending, terminalB s))

theorem outcome_elim {cfg : Cfg} {root : Stage} {sched : List Nat} {fired : List Fired} {p : Int}
    (h : outcome cfg root sched = some (fired, p, true)) :
    ∃ s, Reachable cfg (init root) s ∧ Terminal s ∧ s.sh.fired = fired ∧ s.sh.pending = p := by
  unfold outcome at h
  cases hrun : runSched cfg (init root) sched with
  | none => rw [hrun] at h; cases h
  | some s =>
    rw [hrun] at h
    simp only [Option.map_some, Option.some.injEq, Prod.mk.injEq] at h
    exact ⟨s, runSched_reachable _ _ _ Reachable.refl hrun, terminal_of_terminalB h.2.2, h.1, h.2.1⟩

end LinVerif.Pipeline
