/-
C16 — helper lemmas for the line-protocol escaping model.
-/
import Mathlib.Tactic.SplitIfs
import LinVerif.Model.Escape

namespace LinVerif.Lemmas.C16
open LinVerif.Escape

/-- one ReplaceAll pass removes exactly the backslashes `escape` put before `c` -/
theorem unescapeOne_escape (c : Char) (ds : List Char) (hc : c ≠ bs) (hds : ds.contains bs = false)
    (hcd : ds.contains c = false) :
    ∀ s : List Char, unescapeOne c (escape (c :: ds) s) = escape ds s
  | [] => by simp [escape, unescapeOne]
  | a :: rest => by
    have ih := unescapeOne_escape c ds hc hds hcd rest
    by_cases hac : a = c
    · subst hac
      simp only [escape, List.contains_cons, beq_self_eq_true, Bool.true_or, if_true, hcd,
        Bool.false_eq_true, if_false]
      simp only [unescapeOne, and_self, if_true, ih]
    · have hca : (a == c) = false := by simpa using hac
      by_cases had : ds.contains a = true
      · have hab : a ≠ bs := by
          intro h; subst h; rw [hds] at had; cases had
        simp only [escape, List.contains_cons, hca, Bool.false_or, had, if_true]
        simp only [unescapeOne, hac, and_false, if_false]
        -- now: bs :: unescapeOne c (a :: escape (c :: ds) rest)
        cases hrest : escape (c :: ds) rest with
        | nil =>
          rw [hrest] at ih
          simp only [unescapeOne] at ih ⊢
          rw [← ih]
        | cons x xs =>
          rw [hrest] at ih
          simp only [unescapeOne, hab, false_and, if_false, ih]
      · have had' : ds.contains a = false := by simpa using had
        simp only [escape, List.contains_cons, hca, Bool.false_or, had', Bool.false_eq_true, if_false]
        cases hrest : escape (c :: ds) rest with
        | nil =>
          rw [hrest] at ih
          simp only [unescapeOne] at ih ⊢
          rw [← ih]
        | cons x xs =>
          rw [hrest] at ih
          by_cases hab : a = bs
          · -- a backslash of the string itself: what follows it in the text is never an inserted `c`… unless
            -- the string continues with `c`, in which case the text continues with the inserted backslash
            have hx : x ≠ c := by
              intro hxc
              cases rest with
              | nil => simp [escape] at hrest
              | cons y ys =>
                simp only [escape] at hrest
                split at hrest
                · have := (List.cons.inj hrest).1
                  exact hc (hxc ▸ this.symm ▸ rfl)
                · rename_i hny
                  have hy := (List.cons.inj hrest).1
                  apply hny
                  rw [hy, hxc]
                  simp
            simp only [unescapeOne, hx, and_false, if_false, ih]
          · simp only [unescapeOne, hab, false_and, if_false, ih]

/-- walkToUnescapedChar walks over the whole escaped text of a representable string and stops at the
structural delimiter that follows it -/
theorem splitAtUnescaped_escape (c : Char) (ds : List Char) (hcd : ds.contains c = true)
    (hds : ds.contains bs = false) (tail : List Char) :
    ∀ (s : List Char) (run : Nat), representable ds run s = true →
      splitAtUnescaped c run (escape ds s ++ c :: tail) = some (escape ds s, tail)
  | [], run, h => by
    simp only [representable, beq_iff_eq] at h
    simp [escape, splitAtUnescaped, h]
  | a :: rest, run, h => by
    have hcb : c ≠ bs := by
      intro hh; rw [hh, hds] at hcd; cases hcd
    by_cases hab : a = bs
    · subst hab
      simp only [representable, if_true] at h
      have ih := splitAtUnescaped_escape c ds hcd hds tail rest (run + 1) h
      have hne : ¬ (bs = c ∧ run % 2 = 0) := fun hh => hcb hh.1.symm
      simp only [escape, hds, Bool.false_eq_true, if_false, List.cons_append, splitAtUnescaped, hne,
        if_true, ih, Option.map_some]
    · by_cases had : ds.contains a = true
      · simp only [representable, hab, if_false, had, if_true, Bool.and_eq_true, beq_iff_eq] at h
        have ih := splitAtUnescaped_escape c ds hcd hds tail rest 0 h.2
        have hne1 : ¬ (bs = c ∧ run % 2 = 0) := fun hh => hcb hh.1.symm
        have hne2 : ¬ (a = c ∧ (run + 1) % 2 = 0) := by
          intro hh; have := h.1; omega
        simp only [escape, had, if_true, List.cons_append, splitAtUnescaped, hne1, if_false, hne2, hab, ih,
          Option.map_some]
      · have had' : ds.contains a = false := by simpa using had
        simp only [representable, hab, if_false, had', Bool.false_eq_true] at h
        have ih := splitAtUnescaped_escape c ds hcd hds tail rest 0 h
        have hac : a ≠ c := by
          intro hh; rw [hh, hcd] at had'; cases had'
        have hne : ¬ (a = c ∧ run % 2 = 0) := fun hh => hac hh.1
        simp only [escape, had', Bool.false_eq_true, if_false, List.cons_append, splitAtUnescaped, hne, hab, ih,
          Option.map_some]

end LinVerif.Lemmas.C16
