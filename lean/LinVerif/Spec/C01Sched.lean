/-
C01 — concurrent executions on the full store model (core Lean only; part of the model).

A step is a complete operation of the history alphabet (run by any goroutine), or one of the two
halves of a commit in flight: `enter t name logs` (goroutine `t` runs family.commitEditLog →
CommitFamilyEditLog up to `vs.mutex.Lock()`), `locked t` (its critical section). Any number of
commits may be in flight; everything else interleaves freely between the two halves.
`before` = the calls CommitFamilyEditLog makes before the lock (regenerated fact).
-/
import LinVerif.Spec.C01History

namespace LinVerif.Kv

structure InFlight where
  t : Nat
  name : Nat
  logs : List Log
  pre : Pre

inductive Step
  | op (o : Op)
  | enter (t name : Nat) (logs : List Log)
  | locked (t : Nat)

def runStep (before : List String) (cfg : Cfg) (s : St) (infl : List InFlight) : Step → Option (St × List InFlight)
  | .op o => (runOp cfg s o).map (fun r => (r.1, infl))
  | .enter t name logs =>
    match s.mem with
    | none => none
    | some m =>
      match m.fam? name with
      | none => none
      | some f =>
        if logs.all Log.isBookkeeping then some (s, ⟨t, name, logs, commitRead before m f.opt.id⟩ :: infl) else none
  | .locked t =>
    match infl.find? (fun c => c.t = t), s.mem with
    | some c, some m =>
      match m.fam? c.name with
      | none => none
      | some f =>
        match commitLocked m f.opt.id c.logs c.pre with
        | some (m', ops) => some (⟨some m', applyFsList s.disk ops⟩, infl.filter (fun c => c.t ≠ t))
        | none => none
    | _, _ => none

def runSteps (before : List String) (cfg : Cfg) : St → List InFlight → List Step → Option (St × List InFlight)
  | s, infl, [] => some (s, infl)
  | s, infl, e :: t =>
    match runStep before cfg s infl e with
    | none => none
    | some (s', infl') => runSteps before cfg s' infl' t

/-- the sequential history an interleaving amounts to when nothing is read before the lock: every
commit takes effect at its critical section -/
def project (infl : List (Nat × Nat × List Log)) : List Step → List Item
  | [] => []
  | .op o :: t => .run o :: project infl t
  | .enter th name logs :: t => project ((th, name, logs) :: infl) t
  | .locked th :: t =>
    match infl.find? (fun c => c.1 = th) with
    | some c => .run (.edit c.2.1 c.2.2) :: project (infl.filter (fun c => c.1 ≠ th)) t
    | none => project infl t

end LinVerif.Kv
