/-
C01 — histories of store operations with process deaths (core Lean only; part of the model).

A history is a list of items: `run o` (the operation runs to completion) or `die o k` (the process
is killed after the first `k` file-system operations of `o`: the memory is gone, the disk is the
prefix). After a death only `open` is enabled. This is the quantifier of C01: every history, every
point between two file-system operations.
-/
import LinVerif.Model.KvFs

namespace LinVerif.Kv

inductive Op
  | openS
  | createFamily (name : Nat) (threshold : Int)
  | flushStart (name : Nat) (kvs : List (Nat × Nat)) (seqs : List (Int × Int))
  | flushCommit (name : Nat) (size : Nat)
  | flushFail (name : Nat)          -- Commit whose table close fails with an I/O error
  | compact (name : Nat) (size : Nat)
  | edit (name : Nat) (logs : List Log)
  | close
  deriving Repr

structure St where
  mem : Option Mem
  disk : Disk

def St.init : St := ⟨none, Disk.empty⟩

/-- one complete operation: the new state and the FS operations it performed, in order;
`none` = the operation is not enabled in this state (or is a bad call) -/
def runOp (cfg : Cfg) (s : St) (o : Op) : Option (St × List FsOp) :=
  match s.mem, o with
  | none, .openS =>
    let r := openStore cfg s.disk
    some (⟨r.1, applyFsList s.disk r.2⟩, r.2)
  | some m, .createFamily name thr =>
    match createFamily m s.disk name thr with
    | some (m', ops) => some (⟨some m', applyFsList s.disk ops⟩, ops)
    | none => none
  | some m, .flushStart name kvs seqs =>
    match flushStart m name kvs seqs with
    | some (m', ops) => some (⟨some m', applyFsList s.disk ops⟩, ops)
    | none => none
  | some m, .flushCommit name size =>
    match flushCommit m name size with
    | some (m', ops) => some (⟨some m', applyFsList s.disk ops⟩, ops)
    | none => none
  | some m, .flushFail name =>
    match flushFail m name with
    | some (m', ops) => some (⟨some m', applyFsList s.disk ops⟩, ops)
    | none => none
  | some m, .compact name size =>
    match compact m s.disk name size with
    | some (m', ops, _) => some (⟨some m', applyFsList s.disk ops⟩, ops)
    | none => none
  | some m, .edit name logs =>
    match editCommit m name logs with
    | some (m', ops) => some (⟨some m', applyFsList s.disk ops⟩, ops)
    | none => none
  | some m, .close => some (⟨none, applyFsList s.disk (closeStore m)⟩, closeStore m)
  | _, _ => none

inductive Item
  | run (o : Op)
  | die (o : Op) (k : Nat)
  deriving Repr

def exec (cfg : Cfg) (s : St) : Item → Option St
  | .run o => (runOp cfg s o).map (·.1)
  | .die o k => (runOp cfg s o).map (fun r => ⟨none, applyFsList s.disk (r.2.take k)⟩)

def execAll (cfg : Cfg) : St → List Item → Option St
  | s, [] => some s
  | s, i :: t =>
    match exec cfg s i with
    | none => none
    | some s' => execAll cfg s' t

end LinVerif.Kv
